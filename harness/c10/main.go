// Harness for C10 (cropping a progressive file yields exactly a prefix of every track).
//   c10 gen    -seed S -n N -o cases          : table-level cases for the verif-tagged test driver in cmd/mp4ff-crop
//   c10 join   -cases F -res R                : case lines + results of the real routines, for the model driver
//   c10 search -cases F -res R                : the prefix property on the results (own expansion), FAIL/EVALS lines
//   c10 files  -seed S -n N -bin B -tmp D [-o cases] : synthesized progressive files through the built mp4ff-crop binary;
//                                               -o: every run (+ a malformed stream) as `tool` case lines for the model driver
package main

import (
	"bufio"
	"flag"
	"fmt"
	"os"
	"strconv"
	"strings"

	"verifharness/c09/tbl"
	"verifharness/hx"
)

var out = bufio.NewWriterSize(os.Stdout, 1<<20)

// ---------------------------------------------------------------- gen

// interleave lays the chunks of several tracks out in one file area: per-track order is kept, tracks are
// interleaved randomly, optional gaps between chunks. Offsets are written into the Raws.
func interleave(rng *hx.Rng, rs []*tbl.Raw, base uint64, gaps bool) {
	type ck struct{ t, c int }
	xs := make([]*tbl.Ref, len(rs))
	next := make([]int, len(rs))
	left := 0
	for i, r := range rs {
		r.Offs = make([]uint64, len(r.Offs))
		xs[i] = tbl.Expand(r)
		left += xs[i].NChunks
	}
	pos := base
	for left > 0 {
		t := rng.Intn(len(rs))
		for next[t] >= xs[t].NChunks {
			t = (t + 1) % len(rs)
		}
		c := next[t]
		next[t]++
		left--
		if gaps && rng.Intn(4) == 0 {
			pos += uint64(rng.Range(1, 9))
		}
		rs[t].Offs[c] = pos
		for n := xs[t].ChunkFirst[c]; n < xs[t].ChunkFirst[c]+xs[t].ChunkCount[c]; n++ {
			pos += uint64(xs[t].Size[n-1])
		}
	}
}

// interleaveWild lays the chunks out with NO ordering discipline: the chunks of all tracks in one random global order (offsets
// not increasing inside a track, e.g. the first chunk of a track stored after all others), chunks that share bytes (a chunk
// starting inside the previous one or at the same offset), gaps, back-to-back chunks of different tracks (which addRange
// merges), and zero-size chunks (all samples of a chunk of size 0). Offsets start at base (>= 0).
func interleaveWild(rng *hx.Rng, rs []*tbl.Raw, base uint64) {
	type ck struct{ t, c int }
	var all []ck
	xs := make([]*tbl.Ref, len(rs))
	for i, r := range rs {
		r.Offs = make([]uint64, len(r.Offs))
		xs[i] = tbl.Expand(r)
		if r.Uniform == 0 && xs[i].NChunks > 0 && rng.Intn(3) == 0 {
			c := rng.Intn(xs[i].NChunks)
			for n := xs[i].ChunkFirst[c]; n < xs[i].ChunkFirst[c]+xs[i].ChunkCount[c]; n++ {
				r.Sizes[n-1] = 0
			}
			xs[i] = tbl.Expand(r)
		}
		for c := 0; c < xs[i].NChunks; c++ {
			all = append(all, ck{i, c})
		}
	}
	for i := len(all) - 1; i > 0; i-- {
		j := rng.Intn(i + 1)
		all[i], all[j] = all[j], all[i]
	}
	pos, end := base, base
	var prevStart, prevSize uint64
	for _, k := range all {
		switch rng.Intn(7) {
		case 0:
			pos = end + uint64(rng.Range(1, 9))
		case 1:
			if prevSize > 0 {
				pos = prevStart + uint64(rng.Intn(int(prevSize)))
			}
		case 2:
			pos = prevStart
			if pos < base {
				pos = base
			}
		case 3:
			pos = end
		}
		x := xs[k.t]
		var sz uint64
		for n := x.ChunkFirst[k.c]; n < x.ChunkFirst[k.c]+x.ChunkCount[k.c]; n++ {
			sz += uint64(x.Size[n-1])
		}
		rs[k.t].Offs[k.c] = pos
		prevStart, prevSize = pos, sz
		pos += sz
		if pos > end {
			end = pos
		}
	}
}

var genOpt = tbl.GenOpt{MaxEntries: 4, MaxChunks: 3, MaxSpc: 4, ZeroDeltaPct: 0, VaryIDPct: 35, BigPct: 0, Contiguous: true}

func gen(seed uint64, n int, path string) {
	rng := hx.NewRng(seed ^ 0xc10)
	fh, err := os.Create(path)
	if err != nil {
		panic(err)
	}
	w := bufio.NewWriterSize(fh, 1<<20)
	id := 0
	emit := func(op, arg string, rs ...*tbl.Raw) {
		fs := make([]string, len(rs))
		for i, r := range rs {
			fs[i] = r.Encode()
		}
		fmt.Fprintf(w, "c%d\t%s\t%s\t%s\n", id, op, arg, strings.Join(fs, "\t"))
		id++
	}
	for i := 0; i < n; i++ {
		r := tbl.Gen(rng, genOpt)
		x := tbl.Expand(r)
		// every k, plus k = 0 and k = N+1 (outside the contract: model vs code only)
		for k := 0; k <= x.N+1; k++ {
			emit("crop", strconv.Itoa(k), r)
		}
		// findTrakEnds: same and different timescales, times on a grid around every sample start
		ts := uint32(rng.Pick(1000, 600, 24, 90000, 48000))
		ets := uint32(rng.Pick(int(ts), 1000, 30, 12800))
		for j := 0; j < 6; j++ {
			var t uint64
			if x.Total > 0 {
				t = rng.U64() % (x.Total*uint64(ets)/uint64(ts) + 3)
			}
			emit("ends", fmt.Sprintf("%d:%d:%d", ts, t, ets), r)
		}
		for j := 0; j < x.N && j < 6; j++ {
			s := x.Start[rng.Intn(x.N)]
			emit("ends", fmt.Sprintf("%d:%d:%d", ts, s, ts), r)
			emit("ends", fmt.Sprintf("%d:%d:%d", ts, s+1, ts), r)
		}
		// findEndTime: milliseconds on a grid from 1 to beyond the end
		durMs := x.Total * 1000 / uint64(ts)
		for j := 0; j < 8; j++ {
			ms := uint64(1)
			switch j {
			case 0:
				ms = 1
			case 1:
				ms = durMs + 1 + uint64(rng.Intn(50))
			case 2:
				ms = durMs
			default:
				ms = 1 + rng.U64()%(durMs+2)
			}
			emit("endtime", fmt.Sprintf("%d:%d:%s", ts, ms, []string{"vide", "soun"}[rng.Intn(2)]), r)
		}
		// fill: 1-3 tracks interleaved in one mdat
		nt := rng.Range(1, 3)
		rs := []*tbl.Raw{r.Clone()}
		for len(rs) < nt {
			rs = append(rs, tbl.Gen(rng, genOpt))
		}
		if i%3 == 1 {
			interleaveWild(rng, rs, uint64(rng.Range(1, 5000)))
		} else {
			interleave(rng, rs, uint64(rng.Range(1, 5000)), rng.Bool())
		}
		for j := 0; j < 4; j++ {
			ks := make([]string, len(rs))
			for t, rr := range rs {
				ks[t] = strconv.Itoa(rng.Range(1, int(rr.Number)))
			}
			emit("fill", strings.Join(ks, ":"), rs...)
		}
		genExt(rng, i, rs, emit, func(op, arg string) {
			fmt.Fprintf(w, "c%d\t%s\t%s\n", id, op, arg)
			id++
		})
	}
	// the 32-bit witness: an stco (then co64) track whose kept payload ends just under 4 GiB, mdat before moov
	big := &tbl.Raw{SttsC: []uint32{3}, SttsD: []uint32{1000}, StscMode: 'A', Stsc: [][3]uint32{{1, 1, 1}}, Number: 3,
		Sizes: []uint32{4294960000, 500, 100}, OffKind: 'S', Offs: []uint64{0, 4294960000, 4294960500}, HasStss: true, Stss: []uint32{1, 3}}
	emit("virt", "1500:1:8:1:8000:1000:4294960600:1:1000:v", big)
	if n > 1000 {
		b2 := big.Clone()
		b2.OffKind = 'C'
		emit("virt", "1500:1:16:2:8000:1000:4294960600:1:1000", b2)
		b3 := big.Clone()
		b3.Sizes[0] = 4294950000
		b3.Offs = []uint64{0, 4294950000, 4294950500}
		emit("virt", "1500:1:8:0:0:1000:4294950600:1:1000", b3)
	}
	w.Flush()
	fh.Close()
}

// genExt: cases for updateChunkOffsets (shift), the duration arithmetic of writeUptoMdat (hdr), writeMdat (mdat) and
// cropMP4 on a virtual file (virt). rs = 1-3 tracks interleaved in one mdat (absolute offsets).
func genExt(rng *hx.Rng, i int, rs []*tbl.Raw, emit func(op, arg string, rs ...*tbl.Raw), emit0 func(op, arg string)) {
	minOff := rs[0].Offs[0]
	for _, r := range rs {
		for _, o := range r.Offs {
			if o < minOff {
				minOff = o
			}
		}
	}
	// shift: the offsets as left by updateStco/updateCo64 (>= firstOffset), non-mdat boxes of 24..6000 bytes, 8/16-byte input header
	for j := 0; j < 2; j++ {
		emit("shift", fmt.Sprintf("%d:%d:%d", rng.Range(24, 6000), minOff, rng.Pick(8, 16)), rs...)
	}
	// near the 32-bit limit: offsets moved up so that some new offsets cross 2^32 (stco: error, co64: fine)
	hi := make([]*tbl.Raw, len(rs))
	up := uint64(1)<<32 - uint64(rng.Range(1, 3000)) - rs[0].Offs[len(rs[0].Offs)-1]
	for t, r := range rs {
		hi[t] = r.Clone()
		for c := range hi[t].Offs {
			hi[t].Offs[c] += up
			if hi[t].OffKind == 'S' && hi[t].Offs[c] >= 1<<32 {
				hi[t].Offs[c] = 1<<32 - 1
			}
		}
	}
	emit("shift", fmt.Sprintf("%d:%d:8", rng.Range(24, 6000), minOff+up), hi...)
	if i%4 == 0 { // malformed: firstOffset above the offsets / sizes near 2^63, 2^64
		emit("shift", fmt.Sprintf("%d:%d:8", rng.Range(24, 6000), minOff+uint64(rng.Range(1, 50))), rs...)
		emit("shift", fmt.Sprintf("%d:%d:16", uint64(1)<<63-uint64(rng.Range(0, 9)), minOff), rs...)
		emit("shift", fmt.Sprintf("%d:%d:8", ^uint64(0)-uint64(rng.Range(0, 20)), minOff), rs...)
	}
	// hdr
	for j := 0; j < 3; j++ {
		ets := uint64(rng.Pick(1000, 600, 24, 90000, 48000, 12800))
		mvts := uint64(rng.Pick(1000, 600, 90000))
		et := rng.U64() % (ets * 20)
		nd := et * mvts / ets
		mv := nd + uint64(rng.Intn(2000))
		shortMv := rng.Intn(10) == 0 // an mvhd duration below the track durations (non-conforming input)
		var tks []string
		nt := rng.Range(1, 3)
		for t := 0; t < nt; t++ {
			tk := nd + uint64(rng.Intn(1500))
			if rng.Intn(12) == 0 && nd > 0 {
				tk = nd - 1 - uint64(rng.Intn(int(nd%100+1)))%nd // shorter than the new duration: the tool refuses
			}
			if tk > mv && rng.Intn(8) > 0 {
				mv = tk
			}
			el := "-"
			if rng.Intn(2) == 0 {
				var gs []string
				for g := rng.Range(1, 2); g > 0; g-- {
					var es []string
					for e := rng.Range(0, 3); e > 0; e-- {
						v := uint64(rng.Intn(3))*(tk-nd) + uint64(rng.Intn(int(tk%3000+2)))
						if rng.Intn(4) == 0 {
							v = tk - nd // exactly the duration difference: the boundary of `prevDur > durDiff`
						}
						es = append(es, fmt.Sprint(v))
					}
					gs = append(gs, strings.Join(es, ","))
				}
				el = strings.Join(gs, "|")
			}
			tks = append(tks, fmt.Sprintf("%d;%d;%s", tk, rng.U64()%100000, el))
		}
		if shortMv {
			mv = rng.U64() % (nd + 1)
		}
		if i%16 == 5 && j == 0 {
			ets = 0 // malformed: division by zero
		}
		if i%16 == 6 && j == 0 {
			et = ^uint64(0) - uint64(rng.Intn(1000)) // malformed: the product wraps
		}
		emit0("hdr", fmt.Sprintf("%d:%d:%d:%d:%s", et, ets, mvts, mv, strings.Join(tks, ":")))
	}
	// mdat
	for j := 0; j < 2; j++ {
		hdr := rng.Pick(8, 16)
		start := rng.Range(0, 40)
		pay := rng.Range(1, 120)
		flen := start + hdr + pay + rng.Range(0, 30)
		ps := start + hdr
		var rgs []string
		pos := ps
		for k := rng.Range(0, 4); k > 0 && pos < ps+pay; k-- {
			s := pos + rng.Intn(3)*rng.Intn(10)
			if s >= ps+pay {
				break
			}
			e := s + rng.Intn(ps+pay-s)
			rgs = append(rgs, fmt.Sprintf("%d-%d", s, e))
			pos = e + 1
		}
		lazy := 1
		if rng.Intn(4) == 0 {
			lazy = 0
		}
		if i%8 == 3 && j == 0 { // malformed: a range beyond the payload / the file, an inverted range, an empty lazy payload
			switch rng.Intn(4) {
			case 0:
				rgs = append(rgs, fmt.Sprintf("%d-%d", ps+pay-1, flen+rng.Range(0, 5)))
			case 1:
				rgs = append(rgs, fmt.Sprintf("%d-%d", ps+pay+1, ps+pay-1))
			case 2:
				rgs = append(rgs, fmt.Sprintf("%d-%d", start, ps+1))
			case 3:
				pay = 0
			}
		}
		r := strings.Join(rgs, ",")
		if r == "" {
			r = "-"
		}
		emit0("mdat", fmt.Sprintf("%d:%d:%d:%d:%d:%s", flen+func() int {
			if pay == 0 {
				return 1
			}
			return 0
		}(), start, hdr, pay, lazy, r))
	}
	// virt: the same tracks with payload-relative offsets
	rel := make([]*tbl.Raw, len(rs))
	var payLen uint64
	for t, r := range rs {
		rel[t] = r.Clone()
		for c := range rel[t].Offs {
			rel[t].Offs[c] -= minOff
		}
		x := tbl.Expand(rel[t])
		for n := range x.OffsetOf {
			if e := x.OffsetOf[n] + uint64(x.Size[n]); e > payLen {
				payLen = e
			}
		}
	}
	x0 := tbl.Expand(rel[0])
	ts0 := rng.Pick(1000, 600, 24, 90000, 12800)
	durMs := x0.Total * 1000 / uint64(ts0)
	for j := 0; j < 3; j++ {
		tss := []string{fmt.Sprint(ts0)}
		for t := 1; t < len(rel); t++ {
			xt := tbl.Expand(rel[t])
			ts := uint64(1000)
			if x0.Total > 0 {
				ts = xt.Total * uint64(ts0) / x0.Total * uint64(rng.Range(5, 8)) / 8
			}
			if ts < 1 || rng.Intn(5) == 0 {
				ts = uint64(rng.Pick(1000, 600, 48000))
			}
			tss = append(tss, fmt.Sprint(ts))
		}
		ms := 1 + rng.U64()%(durMs+2)
		between := rng.Intn(4)
		pad := 0
		if between > 0 {
			pad = rng.Range(0, 40)
		}
		// handler types: the reference track is the first "vide" track, else the first "soun" track (none: an error)
		hs := make([]string, len(rel))
		for t := range hs {
			hs[t] = []string{"v", "s", "s", "o"}[rng.Intn(4)]
		}
		if rng.Intn(3) > 0 {
			hs[0] = "v"
		}
		mode := "lazy"
		if rng.Intn(3) == 0 {
			mode = "mem"
		}
		if j == 0 {
			// the duration grid is made for the first track: keep it the reference track
			hs[0] = "v"
		}
		if len(rel) > 1 && rng.Intn(10) == 0 {
			mode += ":dup" // the second track carries the first track's ID: refused (C10-F10)
		}
		emit("virt", fmt.Sprintf("%d:%d:%d:%d:%d:%d:%d:0:%s:%s:%s", ms, rng.Intn(2), rng.Pick(8, 16), between, pad,
			rng.Pick(1000, 600, 90000), payLen+uint64(rng.Intn(3)), strings.Join(tss, ","), strings.Join(hs, ","), mode), rel...)
	}
}

// ---------------------------------------------------------------- join

func readLines(path string) []string {
	data, err := os.ReadFile(path)
	if err != nil {
		panic(err)
	}
	return strings.Split(strings.TrimRight(string(data), "\n"), "\n")
}

func resultsByID(path string) map[string]string {
	m := map[string]string{}
	for _, l := range readLines(path) {
		p := strings.SplitN(l, "\t", 2)
		if len(p) == 2 {
			m[p[0]] = p[1]
		}
	}
	return m
}

func join(cases, res string) {
	rm := resultsByID(res)
	for _, l := range readLines(cases) {
		id := strings.SplitN(l, "\t", 2)[0]
		r, ok := rm[id]
		if !ok {
			r = "missing"
		}
		fmt.Fprintf(out, "K\t%s\t%s\n", l, r)
	}
	out.Flush()
}

func main() {
	if len(os.Args) < 2 {
		fmt.Fprintln(os.Stderr, "usage: c10 gen|join|search|files ...")
		os.Exit(2)
	}
	fs := flag.NewFlagSet(os.Args[1], flag.ExitOnError)
	seed := fs.Uint64("seed", 0, "seed")
	n := fs.Int("n", 50, "number of tables / files")
	o := fs.String("o", "", "output case file")
	cases := fs.String("cases", "", "case file")
	res := fs.String("res", "", "result file of the test driver")
	bin := fs.String("bin", "", "mp4ff-crop binary")
	tmp := fs.String("tmp", "", "scratch directory")
	caseFiles := fs.Int("casefiles", 0, "files: emit tool case lines for the first N files only (0 = all)")
	_ = fs.Parse(os.Args[2:])
	switch os.Args[1] {
	case "gen":
		gen(*seed, *n, *o)
	case "join":
		join(*cases, *res)
	case "search":
		search(*cases, *res)
	case "files":
		files(*seed, *n, *bin, *tmp, *o, *caseFiles)
	default:
		os.Exit(2)
	}
}
