package main

// Whole-tool runs: progressive files synthesized with mp4ff's box constructors (independent of the functions
// under test) are cropped by the built mp4ff-crop binary on a grid of durations; the output is decoded and the
// per-track sample lists (bytes, durations, composition offsets, sync flags) obtained with the harness's own
// reference expansion are compared with prefixes of the input's.

import (
	"bufio"
	"bytes"
	"context"
	"encoding/binary"
	"encoding/hex"
	"fmt"
	"os"
	"os/exec"
	"path/filepath"
	"strings"
	"time"

	"github.com/Eyevinn/mp4ff/mp4"
	"verifharness/c09/tbl"
	"verifharness/hx"
)

type trackSpec struct {
	id        uint32
	timescale uint32
	media     string // video | audio
	raw       *tbl.Raw
	edts      bool
}

func sampleByte(track uint32, n int, i int) byte {
	return byte(uint32(n)*31+uint32(i)*7+track*101) ^ byte(n>>3)
}

// synth builds the file bytes. Chunk offsets in the Raws are relative to the mdat payload on entry and absolute
// file offsets on return.
// layout: ftyp [moov between] mdat   or   ftyp mdat [between moov]; the mdat header is 8 bytes or the 16-byte largesize form;
// between = 0 nothing | 1 free | 2 skip | 3 an unknown box; mvhdShort: mvhd duration below the track durations.
type layoutSpec struct {
	mdatFirst bool
	largeHdr  bool
	between   int
	pad       int
	mvhdShort bool
}

func (l layoutSpec) String() string {
	return fmt.Sprintf("mdatFirst=%v largesize-mdat-header=%v between=%d/%d mvhdShort=%v", l.mdatFirst, l.largeHdr, l.between, l.pad, l.mvhdShort)
}

func synth(tracks []*trackSpec, lay layoutSpec, mvTimescale uint32, payloadLen uint64) ([]byte, error) {
	mdatFirst := lay.mdatFirst
	ftyp := mp4.NewFtyp("isom", 0x200, []string{"isom", "iso2", "mp41"})
	moov := mp4.NewMoovBox()
	mvhd := mp4.CreateMvhd()
	mvhd.Timescale = mvTimescale
	mvhd.NextTrackID = uint32(len(tracks) + 1)
	moov.AddChild(mvhd)
	var stbls []*mp4.StblBox
	for _, t := range tracks {
		x := tbl.Expand(t.raw)
		trakDur := x.Total * uint64(mvTimescale) / uint64(t.timescale)
		if trakDur > mvhd.Duration {
			mvhd.Duration = trakDur
		}
		trak := &mp4.TrakBox{}
		tkhd := mp4.CreateTkhd()
		tkhd.TrackID = t.id
		tkhd.Duration = trakDur
		trak.AddChild(tkhd)
		if t.edts {
			edts := &mp4.EdtsBox{}
			edts.AddChild(&mp4.ElstBox{Entries: []mp4.ElstEntry{{SegmentDuration: trakDur, MediaTime: 0, MediaRateInteger: 1}}})
			trak.AddChild(edts)
		}
		mdia := &mp4.MdiaBox{}
		trak.AddChild(mdia)
		mdhd := &mp4.MdhdBox{Timescale: t.timescale, Duration: x.Total}
		mdhd.SetLanguage("und")
		mdia.AddChild(mdhd)
		hdlr, err := mp4.CreateHdlr(t.media)
		if err != nil {
			return nil, err
		}
		mdia.AddChild(hdlr)
		minf := mp4.NewMinfBox()
		mdia.AddChild(minf)
		if t.media == "video" {
			minf.AddChild(mp4.CreateVmhd())
		} else {
			minf.AddChild(mp4.CreateSmhd())
		}
		dinf := &mp4.DinfBox{}
		dinf.AddChild(mp4.CreateDref())
		minf.AddChild(dinf)
		stbl, err := t.raw.Build()
		if err != nil {
			return nil, err
		}
		// stsd first, as in files
		stbl.Children = append([]mp4.Box{mp4.NewStsdBox()}, stbl.Children...)
		stbl.Stsd = stbl.Children[0].(*mp4.StsdBox)
		minf.AddChild(stbl)
		moov.AddChild(trak)
		stbls = append(stbls, stbl)
	}
	if lay.mvhdShort {
		mvhd.Duration /= 3
	}
	var between mp4.Box
	switch lay.between {
	case 1:
		between = mp4.NewFreeBox(make([]byte, lay.pad))
	case 2:
		between = mp4.NewSkipBox(make([]byte, lay.pad))
	case 3:
		between = mp4.CreateUnknownBox("abcd", uint64(8+lay.pad), make([]byte, lay.pad))
	}
	// absolute offsets
	hdrLen := uint64(8)
	if lay.largeHdr {
		hdrLen = 16
	}
	base := ftyp.Size() + hdrLen
	if !mdatFirst {
		base += moov.Size()
		if between != nil {
			base += between.Size()
		}
	}
	for i, t := range tracks {
		for c := range t.raw.Offs {
			t.raw.Offs[c] += base
		}
		if stbls[i].Stco != nil {
			for c := range stbls[i].Stco.ChunkOffset {
				stbls[i].Stco.ChunkOffset[c] = uint32(t.raw.Offs[c])
			}
		} else {
			copy(stbls[i].Co64.ChunkOffset, t.raw.Offs)
		}
	}
	payload := bytes.Repeat([]byte{0xEE}, int(payloadLen))
	for _, t := range tracks {
		x := tbl.Expand(t.raw)
		for n := 1; n <= x.N; n++ {
			o := x.OffsetOf[n-1] - base
			for i := 0; i < int(x.Size[n-1]); i++ {
				payload[int(o)+i] = sampleByte(t.id, n, i)
			}
		}
	}
	var buf bytes.Buffer
	if err := ftyp.Encode(&buf); err != nil {
		return nil, err
	}
	mdat := func() {
		if lay.largeHdr {
			var h [16]byte
			binary.BigEndian.PutUint32(h[:], 1)
			copy(h[4:], "mdat")
			binary.BigEndian.PutUint64(h[8:], uint64(16+len(payload)))
			buf.Write(h[:])
		} else {
			var h [8]byte
			binary.BigEndian.PutUint32(h[:], uint32(8+len(payload)))
			copy(h[4:], "mdat")
			buf.Write(h[:])
		}
		buf.Write(payload)
	}
	if mdatFirst {
		mdat()
		if between != nil {
			if err := between.Encode(&buf); err != nil {
				return nil, err
			}
		}
	}
	if err := moov.Encode(&buf); err != nil {
		return nil, err
	}
	if !mdatFirst {
		if between != nil {
			if err := between.Encode(&buf); err != nil {
				return nil, err
			}
		}
		mdat()
	}
	return buf.Bytes(), nil
}

// rawOfStbl reads decoded table boxes back into run-length form through their encodings / public fields.
func rawOfStbl(s *mp4.StblBox) *tbl.Raw {
	r := &tbl.Raw{StscMode: 'D', CttsMode: 'D'}
	r.SttsC, r.SttsD = s.Stts.SampleCount, s.Stts.SampleTimeDelta
	if s.Ctts != nil {
		r.HasCtts = true
		for i := 0; i < s.Ctts.NrSampleCount(); i++ {
			r.CttsC = append(r.CttsC, s.Ctts.SampleCount(i))
			r.CttsO = append(r.CttsO, s.Ctts.SampleOffset[i])
		}
	}
	var b bytes.Buffer
	_ = s.Stsc.Encode(&b)
	body := b.Bytes()[16:]
	for i := 0; i+12 <= len(body); i += 12 {
		r.Stsc = append(r.Stsc, [3]uint32{binary.BigEndian.Uint32(body[i:]), binary.BigEndian.Uint32(body[i+4:]), binary.BigEndian.Uint32(body[i+8:])})
	}
	r.Uniform, r.Number, r.Sizes = s.Stsz.SampleUniformSize, s.Stsz.SampleNumber, s.Stsz.SampleSize
	if s.Stco != nil {
		r.OffKind = 'S'
		for _, o := range s.Stco.ChunkOffset {
			r.Offs = append(r.Offs, uint64(o))
		}
	} else if s.Co64 != nil {
		r.OffKind = 'C'
		r.Offs = s.Co64.ChunkOffset
	}
	if s.Stss != nil {
		r.HasStss = true
		r.Stss = s.Stss.SampleNumber
	}
	if s.Sdtp != nil {
		r.HasSdtp = true
		for _, e := range s.Sdtp.Entries {
			r.Sdtp = append(r.Sdtp, byte(e))
		}
	}
	return r
}

// validRaw: the harness's own well-formedness test of decoded tables with n samples.
func validRaw(r *tbl.Raw) string {
	n := int(r.Number)
	if r.Uniform == 0 && len(r.Sizes) != n {
		return "stsz count/size list mismatch"
	}
	tot := 0
	for _, c := range r.SttsC {
		tot += int(c)
	}
	if tot != n || len(r.SttsC) != len(r.SttsD) {
		return fmt.Sprintf("stts describes %d samples, stsz %d", tot, n)
	}
	if r.HasCtts {
		tot = 0
		for _, c := range r.CttsC {
			tot += int(c)
		}
		if tot != n {
			return fmt.Sprintf("ctts describes %d samples, stsz %d", tot, n)
		}
	}
	if len(r.Stsc) == 0 || r.Stsc[0][0] != 1 {
		return "stsc does not start at chunk 1"
	}
	for i, e := range r.Stsc {
		if e[1] == 0 || e[2] == 0 || (i > 0 && e[0] <= r.Stsc[i-1][0]) || int(e[0]) > len(r.Offs) {
			return fmt.Sprintf("stsc entry %d invalid: %v (chunks %d)", i, r.Stsc, len(r.Offs))
		}
	}
	ce := tbl.Expand0(r.Stsc, len(r.Offs))
	tot = 0
	for _, c := range ce.Count {
		tot += c
	}
	if tot != n {
		return fmt.Sprintf("stsc/stco describe %d samples, stsz %d", tot, n)
	}
	for i, s := range r.Stss {
		if s == 0 || int(s) > n || (i > 0 && s <= r.Stss[i-1]) {
			return "stss not strictly increasing within 1..N"
		}
	}
	if r.HasSdtp && len(r.Sdtp) != n {
		return fmt.Sprintf("sdtp has %d entries for %d samples", len(r.Sdtp), n)
	}
	return ""
}

func trackID(t int, dup bool) uint32 {
	if dup && t > 0 {
		return uint32(t) // tracks 1 and 2 share id 1
	}
	return uint32(t + 1)
}

type fileStats struct {
	runs, ok, errs int
	why            map[string]int
}

// mutate returns a copy of a synthesized file with one low-order byte changed inside the VALUES of a sample-table or header box
// (stts ctts stsc stsz stco co64 stss sdtp elst: behind the entry count; tkhd mvhd mdhd: behind version/flags), so that the box
// structure stays decodable while counts, deltas, sizes, offsets, ids, timescales or durations become inconsistent. The malformed
// stream of the whole-tool correspondence: outcome class and, on success, every output byte must agree with the model.
func mutate(rng *hx.Rng, data []byte) ([]byte, string) {
	type cand struct {
		lo, hi int
		name   string
	}
	var cs []cand
	for i := 4; i+4 <= len(data); i++ {
		nm := string(data[i : i+4])
		skip := 0
		switch nm {
		case "stts", "ctts", "stsc", "stco", "co64", "stss", "elst":
			skip = 16
		case "stsz":
			skip = 20
		case "sdtp", "tkhd", "mvhd", "mdhd":
			skip = 12
		default:
			continue
		}
		b := i - 4
		sz := int(binary.BigEndian.Uint32(data[b:]))
		if sz >= skip+1 && b+sz <= len(data) {
			cs = append(cs, cand{b + skip, b + sz, nm})
		}
	}
	if len(cs) == 0 {
		return nil, ""
	}
	c := cs[rng.Intn(len(cs))]
	// the LOW-ORDER byte of a 32-bit word: the values stay small (a sample number or count of 2^27 makes the tool - and the
	// model - loop for minutes before both crash: seen once, `stss` entry 0x08000001, index out of range in GetDecodeTime)
	if c.hi-c.lo < 4 {
		return nil, ""
	}
	p := c.lo + 4*rng.Intn((c.hi-c.lo)/4) + 3
	out := append([]byte(nil), data...)
	old := out[p]
	switch rng.Intn(4) {
	case 0:
		out[p] = byte(rng.Intn(4))
	case 1:
		out[p] ^= 1 << uint(rng.Intn(8))
	case 2:
		out[p] = 0xff
	default:
		out[p] = old + byte(rng.Range(1, 3))
	}
	if out[p] == old {
		out[p] = old + 1
	}
	return out, fmt.Sprintf("%s+%d:%02x->%02x", c.name, p-c.lo, old, out[p])
}

func files(seed uint64, n int, bin, tmp, casesPath string, caseFiles int) {
	rng := hx.NewRng(seed ^ 0xf11e)
	_ = os.MkdirAll(tmp, 0o755)
	// whole-tool correspondence: every run (input file bytes, ms, outcome class, output file bytes) as a case line for the
	// model driver (op tool: the extracted model rebuilds the output FILE from the input bytes alone)
	var cw *bufio.Writer
	if casesPath != "" {
		cf, err := os.Create(casesPath)
		if err != nil {
			panic(err)
		}
		defer cf.Close()
		cw = bufio.NewWriterSize(cf, 1<<20)
		defer cw.Flush()
	}
	caseNr := 0
	curFile := 0
	emitCase := func(ms uint64, in []byte, class string, outPath string) {
		if cw == nil || (caseFiles > 0 && curFile >= caseFiles) {
			return
		}
		oh := "-"
		if class == "ok" {
			if od, err := os.ReadFile(outPath); err == nil && len(od) > 0 {
				oh = hex.EncodeToString(od)
			}
		}
		fmt.Fprintf(cw, "K\tt%d\ttool\t%d\t%s\t%s\t%s\n", caseNr, ms, hex.EncodeToString(in), class, oh)
		caseNr++
	}
	runTool := func(ms uint64, inPath, outPath string) (class string, stderrText string, timedOut bool) {
		_ = os.Remove(outPath)
		ctx, cancel := context.WithTimeout(context.Background(), 20*time.Second)
		defer cancel()
		cmd := exec.CommandContext(ctx, bin, "-d", fmt.Sprint(ms), inPath, outPath)
		var stderr bytes.Buffer
		cmd.Stderr = &stderr
		err := cmd.Run()
		timedOut = ctx.Err() == context.DeadlineExceeded
		se := stderr.String()
		if err == nil {
			return "ok", se, false
		}
		if strings.Contains(se, "panic:") || strings.Contains(se, "goroutine ") || timedOut {
			return "panic", se, timedOut
		}
		return "err", se, false
	}
	st := fileStats{why: map[string]int{}}
	malformed := 0
	mrng := hx.NewRng(seed ^ 0xbadf11e) // own stream: the valid files do not depend on -o
	opt := tbl.GenOpt{MaxEntries: 4, MaxChunks: 3, MaxSpc: 4, ZeroDeltaPct: 0, VaryIDPct: 30, BigPct: 0}
	for fi := 0; fi < n; fi++ {
		curFile = fi
		nt := rng.Range(1, 3)
		// one file in 16 with several tracks carries the same track id twice (not a valid file: the tool must refuse it,
		// finding C10-F10; a success goes through the ordinary output checks)
		dupIDs := nt > 1 && rng.Intn(16) == 0
		var tracks []*trackSpec
		var raws []*tbl.Raw
		hasVideo := rng.Intn(4) > 0
		for t := 0; t < nt; t++ {
			r := tbl.Gen(rng, opt)
			media := "audio"
			if hasVideo && t == rng.Intn(nt) || (hasVideo && t == nt-1 && len(tracks) > 0 && tracks[0].media != "video" && nt == 2) {
				media = "video"
			}
			if media == "audio" && rng.Intn(3) > 0 {
				r.HasStss, r.Stss = false, nil
			}
			if media == "audio" && rng.Intn(8) == 0 {
				media = "subtitle" // neither "vide" nor "soun": never the reference track
			}
			ts := uint32(rng.Pick(1000, 600, 24, 90000, 48000, 12800))
			tracks = append(tracks, &trackSpec{id: trackID(t, dupIDs), timescale: ts, media: media, raw: r, edts: rng.Intn(3) == 0})
			raws = append(raws, r)
		}
		// in half of the files the other tracks last at least as long as the first video (else first) track,
		// so that the tool has something to crop in every track
		if rng.Intn(5) > 0 {
			r0 := -1
			for _, m := range []string{"video", "audio"} {
				for i, t := range tracks {
					if t.media == m && r0 < 0 {
						r0 = i
					}
				}
			}
			if r0 < 0 {
				r0 = 0
			}
			x0 := tbl.Expand(raws[r0])
			for i, t := range tracks {
				if i == r0 || x0.Total == 0 {
					continue
				}
				xt := tbl.Expand(raws[i])
				ts := xt.Total * uint64(tracks[r0].timescale) / x0.Total * uint64(rng.Range(5, 8)) / 8
				if ts < 1 {
					ts = 1
				}
				if ts > 1<<31 {
					ts = 1 << 31
				}
				t.timescale = uint32(ts)
			}
		}
		// one file in three with no ordering discipline at all (chunk offsets not increasing inside a track, chunks sharing
		// bytes, zero-size chunks, merged neighbours); the others interleaved in per-track order, with or without gaps
		wild := rng.Intn(3) == 0
		if wild {
			interleaveWild(rng, raws, 0)
		} else {
			interleave(rng, raws, 0, rng.Intn(3) == 0)
		}
		var payloadLen uint64
		for _, r := range raws {
			x := tbl.Expand(r)
			for i := range x.OffsetOf {
				if e := x.OffsetOf[i] + uint64(x.Size[i]); e > payloadLen {
					payloadLen = e
				}
			}
		}
		lay := layoutSpec{mdatFirst: rng.Intn(3) == 0, largeHdr: rng.Intn(3) == 0, between: rng.Intn(4), mvhdShort: rng.Intn(12) == 0}
		if lay.between > 0 {
			lay.pad = rng.Range(0, 40)
		}
		mdatFirst := lay
		data, err := synth(tracks, lay, uint32(rng.Pick(1000, 600, 90000)), payloadLen+uint64(rng.Intn(3)))
		if err != nil {
			fail("harness", "synth-error", fmt.Sprint(err), "could not synthesize a file")
			continue
		}
		inPath := filepath.Join(tmp, fmt.Sprintf("in_%d.mp4", fi))
		if err := os.WriteFile(inPath, data, 0o644); err != nil {
			panic(err)
		}
		// the reference track and its duration in ms
		// the reference track: the first "vide" track, else the first "soun" track, else the tool must refuse
		var ref *trackSpec
		for _, t := range tracks {
			if t.media == "video" {
				ref = t
				break
			}
		}
		if ref == nil {
			for _, t := range tracks {
				if t.media == "audio" {
					ref = t
					break
				}
			}
		}
		noRef := ref == nil
		if noRef {
			ref = tracks[0]
		}
		xs := make([]*tbl.Ref, len(tracks))
		for i, t := range tracks {
			xs[i] = tbl.Expand(t.raw)
		}
		var refX *tbl.Ref
		for i, t := range tracks {
			if t == ref {
				refX = xs[i]
			}
		}
		durMs := refX.Total * 1000 / uint64(ref.timescale)
		grid := []uint64{1, durMs, durMs + 1000}
		for j := 0; j < 8; j++ {
			grid = append(grid, 1+rng.U64()%(durMs+2))
		}
		for j := 0; j < 3 && refX.N > 0; j++ { // exactly at a sample start, when representable in ms
			s := refX.Start[rng.Intn(refX.N)]
			if s*1000%uint64(ref.timescale) == 0 && s > 0 {
				grid = append(grid, s*1000/uint64(ref.timescale))
			}
		}
		for _, ms := range grid {
			st.runs++
			evals++
			outPath := filepath.Join(tmp, fmt.Sprintf("out_%d.mp4", fi))
			class, se, _ := runTool(ms, inPath, outPath)
			emitCase(ms, data, class, outPath)
			desc := describe(tracks, mdatFirst, ms)
			if wild {
				desc += " ; wild chunk layout"
			}
			if class != "ok" {
				if class == "panic" {
					line := se
					if i := strings.Index(se, "panic:"); i >= 0 {
						line = se[i:]
					}
					if i := strings.IndexByte(line, '\n'); i >= 0 {
						line = line[:i]
					}
					fail("mp4ff-crop", "crash", desc, "the tool crashed: "+line)
				} else {
					st.errs++
					w := strings.TrimSpace(se)
					if i := strings.LastIndex(w, ": "); i >= 0 {
						w = w[i+2:]
					}
					w = strings.TrimRight(w, "0123456789 =")
					st.why[w]++
				}
				continue
			}
			st.ok++
			if noRef {
				fail("findEndTime", "no-reference-track", desc, "the tool succeeded although no track has handler vide or soun")
				continue
			}
			checkOutput(tracks, xs, ref, refX, ms, data, outPath, desc)
		}
		// malformed stream (correspondence only: the property is about well-formed inputs): one mutated copy of every
		// second file, at three durations
		if cw != nil && fi%2 == 0 && (caseFiles <= 0 || fi < caseFiles) {
			if md, _ := mutate(mrng, data); md != nil {
				mPath := filepath.Join(tmp, fmt.Sprintf("mut_%d.mp4", fi))
				if err := os.WriteFile(mPath, md, 0o644); err != nil {
					panic(err)
				}
				outPath := filepath.Join(tmp, fmt.Sprintf("out_%d.mp4", fi))
				for _, ms := range []uint64{grid[1]/2 + 1, grid[3], grid[4]} {
					class, _, _ := runTool(ms, mPath, outPath)
					emitCase(ms, md, class, outPath)
					malformed++
				}
				_ = os.Remove(mPath)
			}
		}
		_ = os.Remove(inPath)
		_ = os.Remove(filepath.Join(tmp, fmt.Sprintf("out_%d.mp4", fi)))
	}
	fmt.Fprintf(out, "TOOLCASES\t%d\t%d\n", caseNr, malformed)
	fmt.Fprintf(out, "EVALS\t%d\n", evals)
	fmt.Fprintf(out, "STATS\truns=%d\tsucceeded=%d\trefused=%d\t%v\n", st.runs, st.ok, st.errs, st.why)
	out.Flush()
}

func describe(tracks []*trackSpec, mdatFirst layoutSpec, ms uint64) string {
	var ps []string
	for _, t := range tracks {
		ps = append(ps, fmt.Sprintf("track %d %s timescale %d edts=%v tables: %s", t.id, t.media, t.timescale, t.edts,
			strings.ReplaceAll(t.raw.Encode(), "\t", " | ")))
	}
	return fmt.Sprintf("mp4ff-crop -d %d ; %v ; %s", ms, mdatFirst, strings.Join(ps, " || "))
}

func encodeBox(b mp4.Box) []byte {
	var buf bytes.Buffer
	_ = b.Encode(&buf)
	return buf.Bytes()
}

var tableTypes = map[string]bool{"stts": true, "ctts": true, "stsc": true, "stsz": true, "stco": true, "co64": true, "stss": true, "sdtp": true}

// sameOutsideTables compares two boxes: containers child by child (same number, same types, same order), the sample-table boxes
// not at all, every other box by its encoding.
func sameOutsideTables(a, b mp4.Box, path string) string {
	if a.Type() != b.Type() {
		return fmt.Sprintf("%s: box %s became %s", path, a.Type(), b.Type())
	}
	if tableTypes[a.Type()] {
		return ""
	}
	ca, okA := a.(mp4.ContainerBox)
	cb, okB := b.(mp4.ContainerBox)
	if okA && okB && a.Type() != "stsd" {
		x, y := ca.GetChildren(), cb.GetChildren()
		if len(x) != len(y) {
			return fmt.Sprintf("%s/%s: %d children became %d", path, a.Type(), len(x), len(y))
		}
		for i := range x {
			if d := sameOutsideTables(x[i], y[i], path+"/"+a.Type()); d != "" {
				return d
			}
		}
		return ""
	}
	if !bytes.Equal(encodeBox(a), encodeBox(b)) {
		return fmt.Sprintf("%s/%s: bytes differ", path, a.Type())
	}
	return ""
}

func blankDurations(f *mp4.File) {
	f.Moov.Mvhd.Duration = 0
	for _, t := range f.Moov.Traks {
		t.Tkhd.Duration = 0
		if t.Edts != nil {
			for _, e := range t.Edts.Elst {
				for j := range e.Entries {
					e.Entries[j].SegmentDuration = 0
				}
			}
		}
	}
}

// checkUntouched: an oracle of "decodable progressive file, structure intact" that is independent of the model:
// (1) the decoded output re-encodes to the output bytes (decodable AND a fixed point of decode/encode);
// (2) the non-mdat top-level boxes of the input are the non-mdat boxes of the output, in order; the mdat is the last box;
// (3) every box outside the sample tables is byte-identical once the durations the tool updates (mvhd, tkhd Duration, elst
//     SegmentDuration) are blanked on both sides.
func checkUntouched(inData, od []byte, desc string) {
	evals++
	outF, err := mp4.DecodeFile(bytes.NewReader(od))
	inF, err2 := mp4.DecodeFile(bytes.NewReader(inData))
	if err != nil || err2 != nil || outF.Moov == nil || inF.Moov == nil {
		return // reported by the caller
	}
	var re bytes.Buffer
	if err := outF.Encode(&re); err != nil || !bytes.Equal(re.Bytes(), od) {
		fail("mp4ff-crop", "output-not-a-fixed-point", desc, fmt.Sprintf("decoding the output and encoding it again does not give the output back (err=%v, %d vs %d bytes)", err, re.Len(), len(od)))
		return
	}
	var inNon, outNon []mp4.Box
	for _, b := range inF.Children {
		if b.Type() != "mdat" {
			inNon = append(inNon, b)
		}
	}
	for _, b := range outF.Children {
		if b.Type() != "mdat" {
			outNon = append(outNon, b)
		}
	}
	if len(outF.Children) == 0 || outF.Children[len(outF.Children)-1].Type() != "mdat" || len(outF.Children) != len(outNon)+1 {
		fail("mp4ff-crop", "structure-changed", desc, "the output does not end with its one mdat box")
		return
	}
	if len(inNon) != len(outNon) {
		fail("mp4ff-crop", "structure-changed", desc, fmt.Sprintf("%d non-mdat top-level boxes became %d", len(inNon), len(outNon)))
		return
	}
	blankDurations(inF)
	blankDurations(outF)
	for i := range inNon {
		if d := sameOutsideTables(inNon[i], outNon[i], ""); d != "" {
			fail("mp4ff-crop", "structure-changed", desc, "outside the sample tables and the updated durations the output differs from the input: "+d)
			return
		}
	}
}

func checkOutput(tracks []*trackSpec, xs []*tbl.Ref, ref *trackSpec, refX *tbl.Ref, ms uint64, inData []byte, outPath, desc string) {
	od, err := os.ReadFile(outPath)
	if err != nil {
		fail("mp4ff-crop", "no-output", desc, "exit 0 but no output file")
		return
	}
	f, err := mp4.DecodeFile(bytes.NewReader(od))
	if err != nil || f.Moov == nil || f.Mdat == nil {
		fail("mp4ff-crop", "output-not-decodable", desc, fmt.Sprintf("output does not decode: %v", err))
		return
	}
	inF, _ := mp4.DecodeFile(bytes.NewReader(inData))
	checkUntouched(inData, od, desc)
	// the end time the property defines: start of the first sync sample of the reference track at/after ms
	j, jFloor := -1, -1
	for i, s := range refX.Start {
		sync := refX.Sync == nil || refX.Sync[i]
		if sync && j < 0 && s*1000 >= ms*uint64(ref.timescale) {
			j = i
		}
		if sync && jFloor < 0 && s >= ms*uint64(ref.timescale)/1000 {
			jFloor = i
		}
	}
	mdatStart := f.Mdat.PayloadAbsoluteOffset()
	mdatEnd := mdatStart + uint64(len(f.Mdat.Data))
	var kept uint64
	if len(f.Moov.Traks) != len(tracks) {
		fail("mp4ff-crop", "track-count", desc, "number of tracks changed")
		return
	}
	// which end time did the tool use? the one consistent with the reference track's kept samples
	refOut := 0
	for ti, t := range tracks {
		if t == ref {
			refOut = int(f.Moov.Traks[ti].Mdia.Minf.Stbl.Stsz.GetNrSamples())
		}
	}
	var endTime uint64
	switch {
	case refOut < refX.N:
		endTime = refX.Start[refOut]
	default:
		endTime = refX.Total
	}
	// reference track: k must be the number of samples before the first sync sample at/after the request
	wantRef := refX.N // no such sync sample: the property does not fix k; the whole track is the only prefix that makes sense
	if j >= 0 {
		wantRef = j
	}
	if refOut != wantRef {
		if jFloor >= 0 && refOut == jFloor {
			fail("findEndTime", "ms-rounding", desc, fmt.Sprintf("reference track keeps %d samples: sample %d starts before the requested %d ms but is taken as the end (request rounded down to track units)", refOut, jFloor+1, ms))
		} else {
			fail("mp4ff-crop", "wrong-end-time", desc, fmt.Sprintf("reference track keeps %d samples, the first sync sample at/after %d ms is sample %d", refOut, ms, wantRef+1))
		}
	}
	for ti, t := range tracks {
		x := xs[ti]
		trak := f.Moov.Traks[ti]
		if trak.Tkhd.TrackID != t.id {
			fail("mp4ff-crop", "track-order", desc, "track ids changed")
			return
		}
		ro := rawOfStbl(trak.Mdia.Minf.Stbl)
		if why := validRaw(ro); why != "" {
			fail("mp4ff-crop", "output-tables-inconsistent", desc, fmt.Sprintf("track %d: %s", t.id, why))
			continue
		}
		xo := tbl.Expand(ro)
		k := xo.N
		if k > x.N {
			fail("mp4ff-crop", "not-prefix", desc, fmt.Sprintf("track %d has %d samples, input %d", t.id, k, x.N))
			continue
		}
		// k_t = number of samples starting before the end time (exact comparison across timescales)
		want, wantFloor := 0, 0
		tet := endTime
		if t.timescale != ref.timescale {
			tet = endTime * uint64(t.timescale) / uint64(ref.timescale)
		}
		for _, s := range x.Start {
			if s*uint64(ref.timescale) < endTime*uint64(t.timescale) {
				want++
			}
			if s < tet {
				wantFloor++
			}
		}
		if k != want {
			if k == wantFloor {
				fail("findTrakEnds", "timescale-rounding", desc, fmt.Sprintf("track %d keeps %d samples; %d start before the end time %d/%d (rescaled end time rounded down)", t.id, k, want, endTime, ref.timescale))
			} else {
				fail("mp4ff-crop", "wrong-k", desc, fmt.Sprintf("track %d keeps %d samples; %d start before the end time %d/%d", t.id, k, want, endTime, ref.timescale))
			}
		}
		for n := 1; n <= k; n++ {
			cto, ctoIn := int32(0), int32(0)
			if xo.Cto != nil {
				cto = xo.Cto[n-1]
			}
			if x.Cto != nil {
				ctoIn = x.Cto[n-1]
			}
			syncOut := xo.Sync == nil || xo.Sync[n-1]
			syncIn := x.Sync == nil || x.Sync[n-1]
			if xo.Dur[n-1] != x.Dur[n-1] || xo.Size[n-1] != x.Size[n-1] || cto != ctoIn || syncOut != syncIn ||
				(xo.Sync == nil) != (x.Sync == nil) {
				fail("mp4ff-crop", "not-prefix", desc, fmt.Sprintf("track %d sample %d: dur/size/cto/sync %d/%d/%d/%v, input %d/%d/%d/%v",
					t.id, n, xo.Dur[n-1], xo.Size[n-1], cto, syncOut, x.Dur[n-1], x.Size[n-1], ctoIn, syncIn))
				break
			}
			if t.raw.HasSdtp && (len(ro.Sdtp) < n || ro.Sdtp[n-1] != t.raw.Sdtp[n-1]) {
				fail("mp4ff-crop", "not-prefix", desc, fmt.Sprintf("track %d sample %d: sdtp entry differs", t.id, n))
				break
			}
			o := xo.OffsetOf[n-1]
			sz := uint64(xo.Size[n-1])
			if o < mdatStart || o+sz > mdatEnd {
				fail("mp4ff-crop", "offset-outside-mdat", desc, fmt.Sprintf("track %d sample %d at %d+%d, mdat payload is [%d,%d)", t.id, n, o, sz, mdatStart, mdatEnd))
				break
			}
			// the same bytes as the input holds at the input's offset of this sample (chunks may share bytes)
			okb := true
			io := x.OffsetOf[n-1]
			for i := 0; i < int(sz); i++ {
				if od[int(o)+i] != inData[int(io)+i] {
					okb = false
				}
			}
			if !okb {
				fail("mp4ff-crop", "sample-bytes", desc, fmt.Sprintf("track %d sample %d: bytes differ from the input sample", t.id, n))
				break
			}
			kept += sz
		}
		// every chunk of the output lies inside the new mdat payload
		for c := 0; c < xo.NChunks; c++ {
			var csz uint64
			for n := xo.ChunkFirst[c]; n < xo.ChunkFirst[c]+xo.ChunkCount[c]; n++ {
				csz += uint64(xo.Size[n-1])
			}
			if xo.ChunkOff[c] < mdatStart || xo.ChunkOff[c]+csz > mdatEnd {
				fail("mp4ff-crop", "offset-outside-mdat", desc, fmt.Sprintf("track %d chunk %d at %d+%d, mdat payload is [%d,%d)", t.id, c+1, xo.ChunkOff[c], csz, mdatStart, mdatEnd))
				break
			}
		}
		// sample description ids of the kept chunks
		for c := 0; c < xo.NChunks && c < x.NChunks; c++ {
			if xo.ChunkSdid[c] != x.ChunkSdid[c] {
				fail("cropStsc", "wrong-sample-description-id", desc, fmt.Sprintf("track %d chunk %d: id %d, input %d", t.id, c+1, xo.ChunkSdid[c], x.ChunkSdid[c]))
				break
			}
		}
		if inF != nil && trak.Tkhd.Duration > inF.Moov.Traks[ti].Tkhd.Duration {
			fail("mp4ff-crop", "duration-grew", desc, fmt.Sprintf("track %d tkhd duration %d > %d", t.id, trak.Tkhd.Duration, inF.Moov.Traks[ti].Tkhd.Duration))
		}
	}
	if inF != nil && f.Moov.Mvhd.Duration > inF.Moov.Mvhd.Duration {
		fail("writeUptoMdat", "mvhd-duration-grew", desc, fmt.Sprintf("mvhd duration %d > original %d", f.Moov.Mvhd.Duration, inF.Moov.Mvhd.Duration))
	}
	if kept != uint64(len(f.Mdat.Data)) {
		fail("mp4ff-crop", "mdat-size", desc, fmt.Sprintf("new mdat payload %d bytes, kept samples %d bytes", len(f.Mdat.Data), kept))
	}
}
