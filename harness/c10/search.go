package main

import (
	"fmt"
	"strconv"
	"strings"

	"verifharness/c09/tbl"
)

var evals int
var failCount = map[string]int{}

func fail(site, class, witness, desc string) {
	key := site + "/" + class
	failCount[key]++
	if failCount[key] > 3 {
		return
	}
	fmt.Fprintf(out, "FAIL\t%s\t%s\t%s\t%s\n", site, class, strings.ReplaceAll(witness, "\t", " | "), desc)
}

func u32s(s string) []uint32 {
	if s == "-" || s == "" {
		return nil
	}
	var r []uint32
	for _, f := range strings.Split(s, ",") {
		v, err := strconv.ParseUint(f, 10, 32)
		if err != nil {
			panic("bad list " + s)
		}
		r = append(r, uint32(v))
	}
	return r
}

func i32s(s string) []int32 {
	if s == "-" || s == "" {
		return nil
	}
	var r []int32
	for _, f := range strings.Split(s, ",") {
		v, err := strconv.ParseInt(f, 10, 32)
		if err != nil {
			panic("bad list " + s)
		}
		r = append(r, int32(v))
	}
	return r
}

// parseRaw reads the 7 table fields back (the inverse of tbl.Raw.Encode).
func parseRaw(f []string) *tbl.Raw {
	r := &tbl.Raw{}
	p := strings.Split(f[0], ";")
	r.SttsC, r.SttsD = u32s(p[0]), u32s(p[1])
	if f[1] != "N" {
		p = strings.Split(f[1], ";")
		r.HasCtts, r.CttsMode = true, p[0][0]
		r.CttsC, r.CttsO = u32s(p[1]), i32s(p[2])
	}
	p = strings.Split(f[2], ";")
	r.StscMode = p[0][0]
	if p[1] != "-" {
		for _, e := range strings.Split(p[1], ",") {
			q := u32s(strings.ReplaceAll(e, ":", ","))
			r.Stsc = append(r.Stsc, [3]uint32{q[0], q[1], q[2]})
		}
	}
	p = strings.Split(f[3], ";")
	u, _ := strconv.ParseUint(p[0], 10, 32)
	n, _ := strconv.ParseUint(p[1], 10, 32)
	r.Uniform, r.Number, r.Sizes = uint32(u), uint32(n), u32s(p[2])
	p = strings.Split(f[4], ";")
	r.OffKind = p[0][0]
	if p[1] != "-" {
		for _, x := range strings.Split(p[1], ",") {
			v, _ := strconv.ParseUint(x, 10, 64)
			r.Offs = append(r.Offs, v)
		}
	}
	if f[5] != "N" {
		r.HasStss = true
		r.Stss = u32s(strings.TrimPrefix(f[5], "Y;"))
	}
	if f[6] != "N" {
		r.HasSdtp = true
		for _, b := range u32s(strings.TrimPrefix(f[6], "Y;")) {
			r.Sdtp = append(r.Sdtp, byte(b))
		}
	}
	return r
}

func tokens(res string) map[string]string {
	m := map[string]string{}
	for _, t := range strings.Split(res, " ") {
		if i := strings.IndexByte(t, '='); i > 0 {
			m[t[:i]] = t[i+1:]
		}
	}
	return m
}

func eqU32(a, b []uint32) bool {
	if len(a) != len(b) {
		return false
	}
	for i := range a {
		if a[i] != b[i] {
			return false
		}
	}
	return true
}

// checkCrop: the tables cropped by the real routines must expand to the k-prefix of the input's expansion.
func checkCrop(line string, r *tbl.Raw, x *tbl.Ref, k int, tk map[string]string) {
	w := fmt.Sprintf("%s ; crop to k=%d", r.Encode(), k)
	bad := func(site, class, desc string) { fail(site, class, w, desc) }
	for name, v := range tk {
		if v == "panic" || v == "err" {
			bad("crop"+strings.ToUpper(name[:1])+name[1:], "panic", "routine "+v+" for a k within 1..N")
			return
		}
	}
	evals++
	// stts
	p := strings.Split(tk["stts"], ";")
	cs, ds := u32s(p[0]), u32s(p[1])
	var dur []uint32
	for i := range cs {
		for j := uint32(0); j < cs[i]; j++ {
			dur = append(dur, ds[i])
		}
	}
	if !eqU32(dur, x.Dur[:k]) || len(cs) != len(ds) {
		bad("cropStts", "not-prefix", fmt.Sprintf("durations after crop %v, prefix of input %v", dur, x.Dur[:k]))
	}
	for _, c := range cs {
		if c == 0 {
			bad("cropStts", "zero-count-entry", "an stts entry with sample count 0 is emitted")
		}
	}
	// ctts
	if r.HasCtts {
		p = strings.Split(tk["ctts"], ";")
		ends, offs := u32s(p[0]), i32s(p[1])
		var cto []int32
		ok := len(ends) == len(offs)+1 && len(ends) > 0 && ends[0] == 0
		for i := 0; ok && i < len(offs); i++ {
			if ends[i+1] < ends[i] {
				ok = false
				break
			}
			for j := ends[i]; j < ends[i+1]; j++ {
				cto = append(cto, offs[i])
			}
		}
		same := ok && len(cto) == k
		for i := 0; same && i < k; i++ {
			same = cto[i] == x.Cto[i]
		}
		if !same {
			bad("cropCtts", "not-prefix", fmt.Sprintf("offsets after crop %v (ends %v), prefix of input %v", cto, ends, x.Cto[:k]))
		}
	}
	// stsz
	p = strings.Split(tk["stsz"], ";")
	uni, _ := strconv.Atoi(p[0])
	num, _ := strconv.Atoi(p[1])
	sizes := u32s(p[2])
	if uni != 0 {
		sizes = nil
		for i := 0; i < num; i++ {
			sizes = append(sizes, uint32(uni))
		}
	}
	if num != k || !eqU32(sizes, x.Size[:k]) {
		bad("cropStsz", "not-prefix", fmt.Sprintf("sizes after crop %v (count %d), prefix of input %v", sizes, num, x.Size[:k]))
	}
	// stss
	if r.HasStss {
		var want []uint32
		for _, s := range r.Stss {
			if int(s) <= k {
				want = append(want, s)
			}
		}
		if !eqU32(u32s(tk["stss"]), want) {
			bad("cropStss", "not-prefix", fmt.Sprintf("sync samples after crop %v, want %v", u32s(tk["stss"]), want))
		}
	}
	// sdtp
	if r.HasSdtp {
		got := u32s(tk["sdtp"])
		same := len(got) == k
		for i := 0; same && i < k; i++ {
			same = byte(got[i]) == r.Sdtp[i]
		}
		if !same {
			bad("cropSdtp", "not-prefix", "sdtp entries after crop are not the k-prefix")
		}
	}
	// stsc: what the box encodes (first chunk, samples per chunk, id)
	p = strings.Split(tk["stsc"], ";")
	if p[3] == "encpanic" || p[3] == "encerr" {
		bad("cropStsc", "encode-panic", "the cropped stsc box cannot be encoded: "+p[3])
		return
	}
	var enc [][3]uint32
	if p[3] != "-" {
		for _, e := range strings.Split(p[3], ",") {
			q := u32s(strings.ReplaceAll(e, ":", ","))
			enc = append(enc, [3]uint32{q[0], q[1], q[2]})
		}
	}
	valid := len(enc) > 0 && enc[0][0] == 1
	for i := range enc {
		if enc[i][1] == 0 || enc[i][2] == 0 || (i > 0 && enc[i][0] <= enc[i-1][0]) {
			valid = false
		}
	}
	if !valid {
		bad("cropStsc", "invalid-stsc", fmt.Sprintf("cropped stsc %v is not a valid table (first chunk must start at 1 and strictly increase, counts and ids >= 1)", enc))
		return
	}
	newC := x.ChunkOf[k-1]
	ce := tbl.Expand0(enc, newC)
	tot := 0
	okc := true
	for c := 0; c < newC; c++ {
		tot += ce.Count[c]
		if ce.First[c]+1 != x.ChunkFirst[c] {
			okc = false
		}
		id := uint32(0)
		for _, en := range enc {
			if int(en[0]) <= c+1 {
				id = en[2]
			}
		}
		if id != x.ChunkSdid[c] {
			bad("cropStsc", "wrong-sample-description-id", fmt.Sprintf("chunk %d has id %d after crop, %d before (cropped stsc %v)", c+1, id, x.ChunkSdid[c], enc))
			okc = true
			break
		}
	}
	if !okc || tot != k {
		bad("cropStsc", "not-prefix", fmt.Sprintf("chunk structure after crop %v over %d chunks holds %d samples / different chunk starts; want the first %d samples", enc, newC, tot, k))
	}
	// the cached first sample numbers must follow the recurrence (the struct is used again for the chunk walk)
	var ents [][3]uint32
	if p[0] != "-" {
		for _, e := range strings.Split(p[0], ",") {
			q := u32s(strings.ReplaceAll(e, ":", ","))
			ents = append(ents, [3]uint32{q[0], q[1], q[2]})
		}
	}
	acc := uint32(1)
	for i := range ents {
		if i > 0 {
			acc += (ents[i][0] - ents[i-1][0]) * ents[i-1][1]
		}
		if ents[i][2] != acc {
			bad("cropStsc", "stale-first-sample-cache", fmt.Sprintf("entries %v: FirstSampleNr of entry %d should be %d", ents, i, acc))
			break
		}
	}
}

// checkEnds: findTrakEnds on one track.
func checkEnds(r *tbl.Raw, x *tbl.Ref, arg string, res string) {
	a := strings.Split(arg, ":")
	ts, _ := strconv.ParseUint(a[0], 10, 64)
	et, _ := strconv.ParseUint(a[1], 10, 64)
	ets, _ := strconv.ParseUint(a[2], 10, 64)
	w := fmt.Sprintf("%s ; findTrakEnds timescale=%d endTime=%d endTimescale=%d", r.Encode(), ts, et, ets)
	evals++
	// k = number of samples that start before the end time (exact rational comparison)
	k, kFloor := 0, 0
	tet := et
	if ts != ets {
		tet = et * ts / ets
	}
	for _, s := range x.Start {
		if s*ets < et*ts {
			k++
		}
		if s < tet {
			kFloor++
		}
	}
	if res == "panic" {
		c := "panic"
		if kFloor == 0 {
			c = "zero-samples-panic"
		}
		fail("findTrakEnds", c, w, "findTrakEnds panics")
		return
	}
	if res == "err" {
		// the tool may refuse: no sample at or after the end time (it needs one to delimit), or nothing left
		if kFloor == 0 || tet >= x.Total {
			return
		}
		fail("findTrakEnds", "error-returned", w, fmt.Sprintf("error although %d samples start before the end time and the track goes on", k))
		return
	}
	p := strings.Split(strings.TrimPrefix(res, "ok/"), "/")
	got, _ := strconv.Atoi(p[0])
	gotEnd, _ := strconv.ParseUint(p[1], 10, 64)
	if got != k {
		if got == kFloor {
			fail("findTrakEnds", "timescale-rounding", w, fmt.Sprintf("keeps %d samples; %d start before the end time (the rescaled end time is rounded down)", got, k))
		} else {
			fail("findTrakEnds", "wrong-k", w, fmt.Sprintf("keeps %d samples; %d start before the end time", got, k))
		}
		return
	}
	if got >= 1 {
		c := x.ChunkOf[got-1]
		want := fmt.Sprintf("%d.%d.%d", c, x.ChunkFirst[c-1], x.ChunkCount[c-1])
		if p[2] != want || gotEnd != x.Start[got-1]+uint64(x.Dur[got-1]) {
			fail("findTrakEnds", "wrong-last-chunk", w, fmt.Sprintf("last chunk %s end %d; want %s end %d", p[2], gotEnd, want, x.Start[got-1]+uint64(x.Dur[got-1])))
		}
	}
}

// checkEndTime: findEndTime = start of the first sync sample of the reference track at or after the request.
func checkEndTime(r *tbl.Raw, x *tbl.Ref, arg string, res string) {
	a := strings.Split(arg, ":")
	ts, _ := strconv.ParseUint(a[0], 10, 64)
	ms, _ := strconv.ParseUint(a[1], 10, 64)
	w := fmt.Sprintf("%s ; findEndTime timescale=%d ms=%d", r.Encode(), ts, ms)
	evals++
	j, jFloor := -1, -1
	for i, s := range x.Start {
		sync := x.Sync == nil || x.Sync[i]
		if sync && j < 0 && s*1000 >= ms*ts {
			j = i
		}
		if sync && jFloor < 0 && s >= ms*ts/1000 {
			jFloor = i
		}
	}
	class := "wrong-end-time"
	if x.Sync == nil {
		class = "no-stss-" + class
	}
	if res == "panic" {
		c := "panic"
		if x.Sync == nil {
			c = "no-stss-panic"
		}
		if jFloor == 0 {
			c = "zero-samples-panic"
		}
		fail("findEndTime", c, w, "findEndTime panics")
		return
	}
	if res == "err" {
		if jFloor <= 0 { // no sync sample at or after the request, or nothing would be left
			return
		}
		fail("findEndTime", "error-returned", w, fmt.Sprintf("error although sample %d is a sync sample at or after the request", jFloor+1))
		return
	}
	p := strings.Split(strings.TrimPrefix(res, "ok/"), "/")
	got, _ := strconv.ParseUint(p[0], 10, 64)
	if j < 0 && got == x.Total {
		return // no sync sample at or after the request: the end of the track is the only boundary left
	}
	if j < 0 || got != x.Start[j] {
		if jFloor >= 0 && got == x.Start[jFloor] {
			fail("findEndTime", "ms-rounding", w, fmt.Sprintf("end time %d is the start of sample %d, which starts before the requested %d ms (request rounded down to track units)", got, jFloor+1, ms))
			return
		}
		want := "an error (no sync sample at or after the request)"
		if j >= 0 {
			want = fmt.Sprintf("%d (start of sync sample %d)", x.Start[j], j+1)
		}
		fail("findEndTime", class, w, fmt.Sprintf("end time %d; the first sync sample at or after %d ms gives %s", got, ms, want))
	}
}

func fileByte(p uint64) byte { return byte(p*2654435761>>7) ^ byte(p>>3) }

// checkFill: new chunk offsets + byte ranges must relocate every kept sample's bytes unchanged.
func checkFill(rs []*tbl.Raw, arg string, res string) {
	ks := strings.Split(arg, ":")
	var enc []string
	for _, r := range rs {
		enc = append(enc, r.Encode())
	}
	w := strings.Join(enc, " || ") + " ; fill k=" + arg
	evals++
	if !strings.HasPrefix(res, "ok/") {
		fail("fillTrakOutsAndByteRanges", "panic", w, "returned "+res)
		return
	}
	p := strings.Split(strings.TrimPrefix(res, "ok/"), "/")
	first, _ := strconv.ParseUint(p[0], 10, 64)
	offs := strings.Split(p[1], "|")
	// the new mdat payload: concatenation of the byte ranges of the virtual input file
	var payload []byte
	if p[2] != "" {
		for _, rg := range strings.Split(p[2], ",") {
			se := strings.Split(rg, "-")
			s, _ := strconv.ParseUint(se[0], 10, 64)
			e, _ := strconv.ParseUint(se[1], 10, 64)
			for q := s; q <= e && e-s < 1<<24; q++ {
				payload = append(payload, fileByte(q))
			}
		}
	}
	total := uint64(0)
	for t, r := range rs {
		x := tbl.Expand(r)
		k, _ := strconv.Atoi(ks[t])
		var no []uint64
		if offs[t] != "" {
			for _, o := range strings.Split(offs[t], ",") {
				v, _ := strconv.ParseUint(o, 10, 64)
				no = append(no, v)
			}
		}
		if len(no) != x.ChunkOf[k-1] {
			fail("fillTrakOutsAndByteRanges", "wrong-chunk-count", w, fmt.Sprintf("track %d: %d new chunk offsets for %d kept chunks", t+1, len(no), x.ChunkOf[k-1]))
			return
		}
		for n := 1; n <= k; n++ {
			c := x.ChunkOf[n-1]
			pos := no[c-1] - first
			for m := x.ChunkFirst[c-1]; m < n; m++ {
				pos += uint64(x.Size[m-1])
			}
			for b := uint64(0); b < uint64(x.Size[n-1]); b++ {
				if pos+b >= uint64(len(payload)) || payload[pos+b] != fileByte(x.OffsetOf[n-1]+b) {
					fail("fillTrakOutsAndByteRanges", "sample-bytes-moved", w, fmt.Sprintf("track %d sample %d: byte %d is not found at new offset %d of the new mdat", t+1, n, b, pos+b))
					return
				}
			}
			total += uint64(x.Size[n-1])
		}
	}
	if total != uint64(len(payload)) {
		fail("fillTrakOutsAndByteRanges", "mdat-size", w, fmt.Sprintf("new mdat holds %d bytes, the kept samples %d", len(payload), total))
	}
}

func u64list(s string) []uint64 {
	var r []uint64
	if s == "" || s == "-" {
		return r
	}
	for _, x := range strings.Split(s, ",") {
		v, _ := strconv.ParseUint(x, 10, 64)
		r = append(r, v)
	}
	return r
}

// checkShift: updateChunkOffsets must move every chunk offset by (new mdat payload start - firstOffset), the new mdat
// being written with an 8-byte header; an stco offset that no longer fits must not be stored.
func checkShift(rs []*tbl.Raw, arg, res string) {
	a := strings.Split(arg, ":")
	swm, _ := strconv.ParseUint(a[0], 10, 64)
	first, _ := strconv.ParseUint(a[1], 10, 64)
	var enc []string
	fits := true
	for _, r := range rs {
		enc = append(enc, r.Encode())
		for _, o := range r.Offs {
			if o < first || swm >= 1<<62 || o >= 1<<62 {
				return // outside the contract: model vs code only
			}
			if r.OffKind == 'S' && o-first+swm+8 >= 1<<32 {
				fits = false
			}
		}
	}
	w := strings.Join(enc, " || ") + " ; updateChunkOffsets sizeWithoutMdat=" + a[0] + " firstOffset=" + a[1] + " input mdat header " + a[2]
	evals++
	if res == "panic" {
		fail("updateChunkOffsets", "panic", w, "updateChunkOffsets panics")
		return
	}
	if res == "err" {
		if fits {
			fail("updateChunkOffsets", "error-returned", w, "error although every new offset fits")
		}
		return
	}
	if !fits {
		fail("updateChunkOffsets", "stco-offset-wrapped", w, "a new chunk offset >= 2^32 was stored in a 32-bit stco box: "+res)
		return
	}
	parts := strings.Split(strings.TrimPrefix(res, "ok/"), "|")
	for t, r := range rs {
		no := u64list(parts[t])
		if len(no) != len(r.Offs) {
			fail("updateChunkOffsets", "wrong-chunk-count", w, "number of chunk offsets changed")
			return
		}
		for c, o := range r.Offs {
			if no[c] < swm+8 || no[c]-(swm+8) != o-first {
				fail("updateChunkOffsets", "offset-outside-mdat", w, fmt.Sprintf("track %d chunk %d: new offset %d, want new payload start %d + %d", t+1, c+1, no[c], swm+8, o-first))
				return
			}
		}
	}
}

// checkHdr: header durations do not exceed the originals.
func checkHdr(arg, res string) {
	a := strings.Split(arg, ":")
	w := "writeUptoMdat endTime:endTimescale:mvhdTimescale:mvhdDuration:(tkhd;mdhd;elst)* = " + arg
	evals++
	if res == "panic" {
		if a[1] != "0" {
			fail("writeUptoMdat", "panic", w, "writeUptoMdat panics")
		}
		return
	}
	if res == "err" {
		return // a refusal
	}
	p := strings.Split(strings.TrimPrefix(res, "ok/"), "/")
	mv, _ := strconv.ParseUint(p[0], 10, 64)
	mv0, _ := strconv.ParseUint(a[3], 10, 64)
	if mv > mv0 {
		fail("writeUptoMdat", "mvhd-duration-grew", w, fmt.Sprintf("mvhd duration %d > original %d (the new duration is only compared with the tkhd durations)", mv, mv0))
	}
	outs := strings.Split(p[1], ":")
	for t, in := range a[4:] {
		i3, o3 := strings.Split(in, ";"), strings.Split(outs[t], ";")
		d0, _ := strconv.ParseUint(i3[0], 10, 64)
		d1, _ := strconv.ParseUint(o3[0], 10, 64)
		if d1 > d0 {
			fail("writeUptoMdat", "duration-grew", w, fmt.Sprintf("track %d tkhd duration %d > original %d", t+1, d1, d0))
		}
		if i3[1] != o3[1] {
			fail("writeUptoMdat", "mdhd-changed", w, fmt.Sprintf("track %d mdhd duration changed", t+1))
		}
		if i3[2] != "-" {
			gi, gOut := strings.Split(i3[2], "|"), strings.Split(o3[2], "|")
			for g := range gi {
				ei, eo := u64list(gi[g]), u64list(gOut[g])
				for e := range ei {
					if len(eo) != len(ei) || eo[e] > ei[e] {
						fail("writeUptoMdat", "duration-grew", w, fmt.Sprintf("track %d edit list segment duration grew", t+1))
					}
				}
			}
		}
	}
}

func vFileByte(p uint64) byte { return byte((p*7 + p/3 + p/251) % 256) }

// checkMdat: the mdat written holds exactly the bytes of the ranges, behind an 8-byte header announcing their size.
func checkMdat(arg, res string) {
	a := strings.Split(arg, ":")
	w := "writeMdat fileLen:mdatStart:hdr:payloadLen:lazy:ranges = " + arg
	n := func(i int) uint64 { v, _ := strconv.ParseUint(a[i], 10, 64); return v }
	var want []byte
	inside := n(3) > 0
	if a[5] != "-" {
		for _, rg := range strings.Split(a[5], ",") {
			se := strings.Split(rg, "-")
			s, _ := strconv.ParseUint(se[0], 10, 64)
			e, _ := strconv.ParseUint(se[1], 10, 64)
			if s > e || s < n(1)+n(2) || e >= n(1)+n(2)+n(3) {
				inside = false
				break
			}
			for q := s; q <= e; q++ {
				want = append(want, vFileByte(q))
			}
		}
	}
	if !inside {
		return // ranges outside the input mdat: model vs code only
	}
	evals++
	if !strings.HasPrefix(res, "ok/") {
		fail("writeMdat", "error-returned", w, "writeMdat returned "+res+" for ranges inside the input mdat")
		return
	}
	got := res[3:]
	hdr := fmt.Sprintf("%08x6d646174", len(want)+8)
	var sb strings.Builder
	for _, b := range want {
		fmt.Fprintf(&sb, "%02x", b)
	}
	if got != hdr+sb.String() {
		fail("writeMdat", "mdat-bytes", w, "the mdat written is not an 8-byte header + the bytes of the ranges")
	}
}

// checkVirt: cropMP4 on a virtual file: every new chunk offset points inside the new mdat, chunk by chunk.
func checkVirt(rs []*tbl.Raw, arg, res string) {
	var enc []string
	for _, r := range rs {
		enc = append(enc, r.Encode())
	}
	w := strings.Join(enc, " || ") + " ; cropMP4 ms:mdatFirst:hdr:between:pad:mvts:payload:zero:timescales[:handlers:mode[:dup]] = " + arg
	p := strings.Split(res, "/")
	if len(p) < 4 {
		fail("mp4ff-crop", "crash", w, "cropMP4: "+res)
		return
	}
	p = append(p[:2], p[3:]...) // base / old size without mdat / [rest] / outcome ...
	if p[2] != "ok" {
		if p[2] != "err" {
			fail("mp4ff-crop", "crash", w, "cropMP4: "+res)
		}
		return
	}
	evals++
	if af := strings.Split(arg, ":"); len(af) >= 12 && af[11] == "dup" {
		fail("findTrakEnds", "duplicate-track-id", w, "cropMP4 succeeded on an input in which two tracks carry the same track ID (they share one per-track crop state)")
		return
	}
	mdatStart, _ := strconv.ParseUint(p[3], 10, 64)
	mdatSize, _ := strconv.ParseUint(p[4], 10, 64)
	ks := u64list(p[6])
	offs := strings.Split(p[7], "|")
	var kept uint64
	for t, r := range rs {
		x := tbl.Expand(r)
		k := int(ks[t])
		no := u64list(offs[t])
		if k < 1 || k > x.N || len(no) != x.ChunkOf[k-1] {
			fail("mp4ff-crop", "wrong-chunk-count", w, fmt.Sprintf("track %d: %d samples, %d chunk offsets", t+1, k, len(no)))
			return
		}
		for c, o := range no {
			var sz uint64
			for n := x.ChunkFirst[c]; n < x.ChunkFirst[c]+x.ChunkCount[c] && n <= k; n++ {
				sz += uint64(x.Size[n-1])
			}
			kept += sz
			if o < mdatStart+8 || o+sz > mdatStart+mdatSize {
				fail("mp4ff-crop", "offset-outside-mdat", w, fmt.Sprintf("track %d chunk %d at %d+%d, the new mdat payload is [%d,%d)", t+1, c+1, o, sz, mdatStart+8, mdatStart+mdatSize))
				return
			}
		}
	}
	if kept+8 != mdatSize {
		fail("mp4ff-crop", "mdat-size", w, fmt.Sprintf("new mdat payload %d bytes, kept samples %d bytes", mdatSize-8, kept))
	}
}

func search(cases, res string) {
	rm := resultsByID(res)
	for _, l := range readLines(cases) {
		f := strings.Split(l, "\t")
		if len(f) >= 3 && f[1] == "hdr" {
			checkHdr(f[2], strings.TrimPrefix(rm[f[0]], "hdr="))
			continue
		}
		if len(f) >= 3 && f[1] == "mdat" {
			checkMdat(f[2], strings.TrimPrefix(rm[f[0]], "mdat="))
			continue
		}
		if len(f) < 10 {
			continue
		}
		r := parseRaw(f[3:10])
		x := tbl.Expand(r)
		got := rm[f[0]]
		// hygiene (hidden state between calls): the test driver runs the read-only routines twice on the same boxes and every
		// second table case on boxes whose lookup helpers have been asked about the first, middle and LAST sample before
		// (c10_verif_test.go vWarm / vTwice); a second answer that differs is reported here, a first answer that differs
		// from the fresh-box behaviour by the oracles below and by the model correspondence
		if i := strings.Index(got, "=hidden-state/"); i >= 0 {
			evals++
			fail("cmd/mp4ff-crop."+f[1], "second-call-differs", l, "the routine called a second time on the same boxes answers differently: "+got)
			continue
		}
		switch f[1] {
		case "crop":
			k, _ := strconv.Atoi(f[2])
			if k >= 1 && k <= x.N {
				checkCrop(l, r, x, k, tokens(got))
			}
		case "ends":
			checkEnds(r, x, f[2], strings.TrimPrefix(got, "ends="))
		case "endtime":
			checkEndTime(r, x, f[2], strings.TrimPrefix(got, "endtime="))
		case "fill":
			var rs []*tbl.Raw
			for i := 3; i+7 <= len(f); i += 7 {
				rs = append(rs, parseRaw(f[i:i+7]))
			}
			checkFill(rs, f[2], strings.TrimPrefix(got, "fill="))
		case "shift", "virt":
			var rs []*tbl.Raw
			for i := 3; i+7 <= len(f); i += 7 {
				rs = append(rs, parseRaw(f[i:i+7]))
			}
			if f[1] == "shift" {
				checkShift(rs, f[2], strings.TrimPrefix(got, "shift="))
			} else {
				checkVirt(rs, f[2], strings.TrimPrefix(got, "virt="))
			}
		}
	}
	fmt.Fprintf(out, "EVALS\t%d\n", evals)
	out.Flush()
}
