// Package tbl holds what the C09 and C10 harnesses share: generated run-length sample tables (Raw),
// construction of the real mp4ff table boxes from them, a text encoding for the model driver, and an
// independent naive per-sample reference expansion (Ref) used as the search oracle.
package tbl

import (
	"encoding/binary"
	"fmt"
	"strconv"
	"strings"

	"github.com/Eyevinn/mp4ff/bits"
	"github.com/Eyevinn/mp4ff/mp4"
	"verifharness/hx"
)

// Raw is a set of run-length sample tables as they are stored in a file.
type Raw struct {
	SttsC, SttsD []uint32
	HasCtts      bool
	CttsMode     byte // 'D' box built by DecodeCttsSR, 'A' by AddSampleCountsAndOffset
	CttsVer      byte
	CttsC        []uint32
	CttsO        []int32
	StscMode     byte // 'D' DecodeStscSR, 'A' AddEntry
	Stsc         [][3]uint32 // first chunk, samples per chunk, sample description id
	Uniform      uint32
	Number       uint32
	Sizes        []uint32
	OffKind      byte // 'S' stco, 'C' co64, 'N' neither
	Offs         []uint64
	HasStss      bool
	Stss         []uint32
	HasSdtp      bool
	Sdtp         []byte
}

func u32csv(xs []uint32) string {
	if len(xs) == 0 {
		return "-"
	}
	ss := make([]string, len(xs))
	for i, x := range xs {
		ss[i] = strconv.FormatUint(uint64(x), 10)
	}
	return strings.Join(ss, ",")
}

func u64csv(xs []uint64) string {
	if len(xs) == 0 {
		return "-"
	}
	ss := make([]string, len(xs))
	for i, x := range xs {
		ss[i] = strconv.FormatUint(x, 10)
	}
	return strings.Join(ss, ",")
}

func i32csv(xs []int32) string {
	if len(xs) == 0 {
		return "-"
	}
	ss := make([]string, len(xs))
	for i, x := range xs {
		ss[i] = strconv.FormatInt(int64(x), 10)
	}
	return strings.Join(ss, ",")
}

func bytecsv(xs []byte) string {
	if len(xs) == 0 {
		return "-"
	}
	ss := make([]string, len(xs))
	for i, x := range xs {
		ss[i] = strconv.Itoa(int(x))
	}
	return strings.Join(ss, ",")
}

// Encode gives the 7 tab-separated table fields of a case line:
// stts ctts stsc stsz offsets stss sdtp
func (r *Raw) Encode() string {
	var f []string
	f = append(f, u32csv(r.SttsC)+";"+u32csv(r.SttsD))
	if r.HasCtts {
		f = append(f, string(r.CttsMode)+";"+u32csv(r.CttsC)+";"+i32csv(r.CttsO))
	} else {
		f = append(f, "N")
	}
	es := make([]string, len(r.Stsc))
	for i, e := range r.Stsc {
		es[i] = fmt.Sprintf("%d:%d:%d", e[0], e[1], e[2])
	}
	sc := "-"
	if len(es) > 0 {
		sc = strings.Join(es, ",")
	}
	f = append(f, string(r.StscMode)+";"+sc)
	f = append(f, fmt.Sprintf("%d;%d;%s", r.Uniform, r.Number, u32csv(r.Sizes)))
	f = append(f, string(r.OffKind)+";"+u64csv(r.Offs))
	if r.HasStss {
		f = append(f, "Y;"+u32csv(r.Stss))
	} else {
		f = append(f, "N")
	}
	if r.HasSdtp {
		f = append(f, "Y;"+bytecsv(r.Sdtp))
	} else {
		f = append(f, "N")
	}
	return strings.Join(f, "\t")
}

// Clone makes a deep copy.
func (r *Raw) Clone() *Raw {
	c := *r
	c.SttsC = append([]uint32(nil), r.SttsC...)
	c.SttsD = append([]uint32(nil), r.SttsD...)
	c.CttsC = append([]uint32(nil), r.CttsC...)
	c.CttsO = append([]int32(nil), r.CttsO...)
	c.Stsc = append([][3]uint32(nil), r.Stsc...)
	c.Sizes = append([]uint32(nil), r.Sizes...)
	c.Offs = append([]uint64(nil), r.Offs...)
	c.Stss = append([]uint32(nil), r.Stss...)
	c.Sdtp = append([]byte(nil), r.Sdtp...)
	return &c
}

// ---------------------------------------------------------------- building the real boxes

func fullBoxBody(version byte, words ...uint32) []byte {
	b := make([]byte, 4+4*len(words))
	b[0] = version
	for i, w := range words {
		binary.BigEndian.PutUint32(b[4+4*i:], w)
	}
	return b
}

// StscBytes is the stsc box body (version/flags, entry count, entries).
func (r *Raw) StscBytes() []byte {
	w := []uint32{uint32(len(r.Stsc))}
	for _, e := range r.Stsc {
		w = append(w, e[0], e[1], e[2])
	}
	return fullBoxBody(0, w...)
}

// CttsBytes is the ctts box body.
func (r *Raw) CttsBytes() []byte {
	w := []uint32{uint32(len(r.CttsC))}
	for i := range r.CttsC {
		w = append(w, r.CttsC[i], uint32(r.CttsO[i]))
	}
	return fullBoxBody(r.CttsVer, w...)
}

// BuildStsc makes the real StscBox the way r.StscMode says.
func (r *Raw) BuildStsc() (*mp4.StscBox, error) {
	if r.StscMode == 'A' {
		b := &mp4.StscBox{}
		for _, e := range r.Stsc {
			if err := b.AddEntry(e[0], e[1], e[2]); err != nil {
				return nil, err
			}
		}
		return b, nil
	}
	body := r.StscBytes()
	hdr := mp4.BoxHeader{Name: "stsc", Size: uint64(8 + len(body)), Hdrlen: 8}
	bx, err := mp4.DecodeStscSR(hdr, 0, bits.NewFixedSliceReader(body))
	if err != nil {
		return nil, err
	}
	return bx.(*mp4.StscBox), nil
}

// BuildCtts makes the real CttsBox.
func (r *Raw) BuildCtts() (*mp4.CttsBox, error) {
	if r.CttsMode == 'A' {
		b := &mp4.CttsBox{Version: r.CttsVer}
		if err := b.AddSampleCountsAndOffset(r.CttsC, r.CttsO); err != nil {
			return nil, err
		}
		return b, nil
	}
	body := r.CttsBytes()
	hdr := mp4.BoxHeader{Name: "ctts", Size: uint64(8 + len(body)), Hdrlen: 8}
	bx, err := mp4.DecodeCttsSR(hdr, 0, bits.NewFixedSliceReader(body))
	if err != nil {
		return nil, err
	}
	return bx.(*mp4.CttsBox), nil
}

// Build makes a real stbl (without stsd) holding the table boxes, in the usual child order.
func (r *Raw) Build() (*mp4.StblBox, error) {
	stbl := mp4.NewStblBox()
	stbl.AddChild(&mp4.SttsBox{SampleCount: append([]uint32(nil), r.SttsC...),
		SampleTimeDelta: append([]uint32(nil), r.SttsD...)})
	if r.HasCtts {
		c, err := r.BuildCtts()
		if err != nil {
			return nil, err
		}
		stbl.AddChild(c)
	}
	if r.HasStss {
		stbl.AddChild(&mp4.StssBox{SampleNumber: append([]uint32(nil), r.Stss...)})
	}
	if r.HasSdtp {
		es := make([]mp4.SdtpEntry, len(r.Sdtp))
		for i, b := range r.Sdtp {
			es[i] = mp4.SdtpEntry(b)
		}
		stbl.AddChild(&mp4.SdtpBox{Entries: es})
	}
	sc, err := r.BuildStsc()
	if err != nil {
		return nil, err
	}
	stbl.AddChild(sc)
	stbl.AddChild(&mp4.StszBox{SampleUniformSize: r.Uniform, SampleNumber: r.Number,
		SampleSize: append([]uint32(nil), r.Sizes...)})
	switch r.OffKind {
	case 'S':
		o := make([]uint32, len(r.Offs))
		for i, x := range r.Offs {
			o[i] = uint32(x)
		}
		stbl.AddChild(&mp4.StcoBox{ChunkOffset: o})
	case 'C':
		stbl.AddChild(&mp4.Co64Box{ChunkOffset: append([]uint64(nil), r.Offs...)})
	}
	return stbl, nil
}

// Trak wraps a stbl so that the TrakBox methods can be called.
func Trak(stbl *mp4.StblBox) *mp4.TrakBox {
	return &mp4.TrakBox{Mdia: &mp4.MdiaBox{Minf: &mp4.MinfBox{Stbl: stbl}}}
}

// ---------------------------------------------------------------- generator of consistent tables

// GenOpt bounds the generated tables.
type GenOpt struct {
	MaxEntries, MaxChunks, MaxSpc int // stsc: entries, chunks per entry, samples per chunk
	ZeroDeltaPct                  int // chance (percent) of allowing zero stts deltas anywhere
	VaryIDPct                     int // chance of varying sample description ids
	BigPct                        int // chance of large (near 2^32) deltas / sizes / offsets
	Contiguous                    bool // chunk offsets laid out back to back from a base (needed for real files)
}

// DefaultOpt is the distribution of DESIGN 4/C09.
var DefaultOpt = GenOpt{MaxEntries: 5, MaxChunks: 3, MaxSpc: 4, ZeroDeltaPct: 4, VaryIDPct: 30, BigPct: 10}

// partition splits n >= 1 into 1..maxParts positive parts.
func partition(rng *hx.Rng, n, maxParts int) []uint32 {
	k := rng.Range(1, maxParts)
	if k > n {
		k = n
	}
	parts := make([]uint32, k)
	for i := range parts {
		parts[i] = 1
	}
	for left := n - k; left > 0; {
		j := rng.Intn(k)
		add := rng.Range(1, left)
		if rng.Intn(3) > 0 && add > 3 {
			add = rng.Range(1, 3)
		}
		parts[j] += uint32(add)
		left -= add
	}
	return parts
}

// Gen returns a consistent table set (in the sense of C09Spec.consistent).
func Gen(rng *hx.Rng, o GenOpt) *Raw {
	r := &Raw{StscMode: byte(rng.Pick('D', 'A')), CttsMode: byte(rng.Pick('D', 'A'))}
	// chunk structure
	ne := rng.Range(1, o.MaxEntries)
	chunk := uint32(1)
	n := 0
	vary := rng.Intn(100) < o.VaryIDPct
	prevSpc := uint32(0)
	for i := 0; i < ne; i++ {
		spc := uint32(rng.Range(1, o.MaxSpc))
		if spc == prevSpc && rng.Intn(4) > 0 { // adjacent equal runs are legal but rare in files
			spc = spc%uint32(o.MaxSpc) + 1
		}
		prevSpc = spc
		nch := uint32(rng.Range(1, o.MaxChunks))
		id := uint32(1)
		if vary {
			id = uint32(rng.Range(1, 3))
		}
		r.Stsc = append(r.Stsc, [3]uint32{chunk, spc, id})
		chunk += nch
		n += int(nch * spc)
	}
	nchunks := int(chunk - 1)
	big := rng.Intn(100) < o.BigPct
	// stts
	r.SttsC = partition(rng, n, 6)
	zero := rng.Intn(100) < o.ZeroDeltaPct
	for range r.SttsC {
		var d uint32
		switch {
		case zero && rng.Intn(2) == 0:
			d = 0
		case big && rng.Intn(3) == 0:
			d = 0xffffffff - uint32(rng.Intn(3))
		default:
			d = uint32(rng.Pick(1, 2, 3, 5, 1000, 1001, 512))
		}
		r.SttsD = append(r.SttsD, d)
	}
	// a final single zero-duration sample now and then
	if !zero && n >= 2 && rng.Intn(8) == 0 {
		last := len(r.SttsC) - 1
		if r.SttsC[last] > 1 {
			r.SttsC[last]--
			r.SttsC = append(r.SttsC, 1)
			r.SttsD = append(r.SttsD, 0)
		} else {
			r.SttsD[last] = 0
		}
	}
	// ctts
	if rng.Intn(100) < 60 {
		r.HasCtts = true
		r.CttsVer = byte(rng.Intn(2))
		r.CttsC = partition(rng, n, 6)
		for range r.CttsC {
			v := int32(rng.Pick(0, 1, 2, 1000, 2000, 3003))
			if r.CttsVer == 1 && rng.Intn(2) == 0 {
				v = -v
			}
			if big && rng.Intn(4) == 0 {
				v = 0x7fffffff
			}
			r.CttsO = append(r.CttsO, v)
		}
	}
	// stsz
	r.Number = uint32(n)
	if rng.Intn(4) == 0 {
		r.Uniform = uint32(rng.Range(1, 9))
		if big {
			r.Uniform = 0xfffffff0
		}
	} else {
		for i := 0; i < n; i++ {
			s := uint32(rng.Range(0, 12))
			if big && rng.Intn(5) == 0 {
				s = 0xffffffff - uint32(rng.Intn(2))
			}
			r.Sizes = append(r.Sizes, s)
		}
	}
	// chunk offsets
	r.OffKind = byte(rng.Pick('S', 'C'))
	if big && !o.Contiguous {
		r.OffKind = 'C'
	}
	exp := Expand0(r.Stsc, nchunks)
	var pos uint64 = uint64(rng.Range(8, 200))
	for c := 0; c < nchunks; c++ {
		if o.Contiguous {
			r.Offs = append(r.Offs, pos)
			var sz uint64
			for i := exp.First[c]; i < exp.First[c]+exp.Count[c]; i++ {
				sz += uint64(r.sizeOf(i))
			}
			pos += sz
		} else {
			switch {
			case r.OffKind == 'C' && big:
				r.Offs = append(r.Offs, uint64(rng.U64()>>24))
			default:
				r.Offs = append(r.Offs, uint64(rng.Intn(100000)))
			}
		}
	}
	// stss
	if rng.Intn(100) < 70 {
		r.HasStss = true
		p := rng.Pick(0, 10, 30, 100)
		for i := 1; i <= n; i++ {
			if (i == 1 && p > 0) || rng.Intn(100) < p {
				r.Stss = append(r.Stss, uint32(i))
			}
		}
	}
	// sdtp
	if rng.Intn(100) < 40 {
		r.HasSdtp = true
		r.Sdtp = rng.Bytes(n, nil)
	}
	return r
}

func (r *Raw) sizeOf(i int) uint32 { // i is 0-based
	if r.Uniform != 0 {
		return r.Uniform
	}
	return r.Sizes[i]
}

type ChunkExp struct{ First, Count []int } // per chunk (0-based): first sample (0-based), nr of samples

// Expand0 expands the stsc runs over nchunks chunks.
func Expand0(stsc [][3]uint32, nchunks int) ChunkExp {
	var e ChunkExp
	s := 0
	for c := 1; c <= nchunks; c++ {
		// the run chunk c belongs to: the last entry whose first chunk is <= c (linear scan)
		k := -1
		for i, en := range stsc {
			if int(en[0]) <= c {
				k = i
			}
		}
		cnt := 0
		if k >= 0 {
			cnt = int(stsc[k][1])
		}
		e.First = append(e.First, s)
		e.Count = append(e.Count, cnt)
		s += cnt
	}
	return e
}

// ---------------------------------------------------------------- reference expansion

// Ref is the naive per-sample expansion (0-based slices; sample number = index+1).
type Ref struct {
	N          int
	Dur        []uint32
	Start      []uint64 // decode time
	Total      uint64
	Cto        []int32 // nil without ctts
	Size       []uint32
	Sync       []bool // nil without stss
	ChunkOf    []int  // 1-based chunk number of each sample
	NChunks    int
	ChunkFirst []int // per chunk (0-based index): first sample number (1-based)
	ChunkCount []int
	ChunkOff   []uint64
	ChunkSdid  []uint32
	OffsetOf   []uint64 // file offset of each sample
}

// Expand computes the reference expansion of consistent tables, one sample at a time.
func Expand(r *Raw) *Ref {
	x := &Ref{NChunks: len(r.Offs)}
	for i, c := range r.SttsC {
		for k := uint32(0); k < c; k++ {
			x.Start = append(x.Start, x.Total)
			x.Dur = append(x.Dur, r.SttsD[i])
			x.Total += uint64(r.SttsD[i])
		}
	}
	if r.HasCtts {
		x.Cto = []int32{}
		for i, c := range r.CttsC {
			for k := uint32(0); k < c; k++ {
				x.Cto = append(x.Cto, r.CttsO[i])
			}
		}
	}
	if r.Uniform != 0 {
		for i := uint32(0); i < r.Number; i++ {
			x.Size = append(x.Size, r.Uniform)
		}
	} else {
		x.Size = append(x.Size, r.Sizes...)
	}
	x.N = len(x.Size)
	if r.HasStss {
		x.Sync = make([]bool, x.N)
		for _, s := range r.Stss {
			if s >= 1 && int(s) <= x.N {
				x.Sync[s-1] = true
			}
		}
	}
	ce := Expand0(r.Stsc, x.NChunks)
	x.ChunkOff = append(x.ChunkOff, r.Offs...)
	for c := 0; c < x.NChunks; c++ {
		x.ChunkFirst = append(x.ChunkFirst, ce.First[c]+1)
		x.ChunkCount = append(x.ChunkCount, ce.Count[c])
		id := uint32(0)
		for _, en := range r.Stsc {
			if int(en[0]) <= c+1 {
				id = en[2]
			}
		}
		x.ChunkSdid = append(x.ChunkSdid, id)
		off := r.Offs[c]
		for k := 0; k < ce.Count[c]; k++ {
			x.ChunkOf = append(x.ChunkOf, c+1)
			x.OffsetOf = append(x.OffsetOf, off)
			if ce.First[c]+k < x.N {
				off += uint64(x.Size[ce.First[c]+k])
			}
		}
	}
	return x
}
