// Build plans: HOW the real table boxes of a case are built from its run-length tables.
//
// The property quantifies over consistent sample tables however they were built. Only two table boxes of
// the library have builder methods / cached cumulative state (CttsBox.AddSampleCountsAndOffset + EndSampleNr;
// StscBox.AddEntry / SetSingleSampleDescriptionID + FirstSampleNr + the single/slice id pair); a plan builds
// them from an empty box or from a DECODED prefix of the table followed by a random split of the remaining
// rows into successive builder calls. The other boxes (stts, stss, sdtp, stsz, stco/co64) are public slices:
// they are built by struct literal, by their decoder, or (sdtp) by CreateSdtpBox.
// After every builder call the cache fields are observed ("bc<i>" / "bs<i>" tokens of the case line).
package main

import (
	"encoding/binary"
	"fmt"
	"strconv"
	"strings"

	"github.com/Eyevinn/mp4ff/bits"
	"github.com/Eyevinn/mp4ff/mp4"
	"verifharness/c09/tbl"
	"verifharness/hx"
)

type cttsCall struct {
	C []uint32
	O []int32
}

type stscCall struct {
	Kind byte      // 'a' AddEntry(E[0], E[1], E[2]) ; 's' SetSingleSampleDescriptionID(X)
	E    [3]uint32 // first chunk, samples per chunk, sample description id
	X    uint32
}

type plan struct {
	CttsDec   bool // start from DecodeCttsSR(CttsRows) (else from &CttsBox{})
	CttsRowsC []uint32
	CttsRowsO []int32
	CttsCalls []cttsCall
	StscDec   bool // start from DecodeStscSR(StscRows) (else from &StscBox{})
	StscRows  [][3]uint32
	StscCalls []stscCall
	Modes     [5]byte // stts, stss, sdtp, stsz, offsets: 'L' struct literal, 'D' decoder, 'C' CreateSdtpBox
}

func i32s(xs []int32) string {
	ss := make([]string, len(xs))
	for i, x := range xs {
		ss[i] = strconv.FormatInt(int64(x), 10)
	}
	return strings.Join(ss, ",")
}

func u32s(xs []uint32) string {
	ss := make([]string, len(xs))
	for i, x := range xs {
		ss[i] = strconv.FormatUint(uint64(x), 10)
	}
	return strings.Join(ss, ",")
}

// Encode: "<ctts>;<stsc>;<modes>" with
//   ctts = N | (E | D<counts>:<offsets>) {/<counts>:<offsets>}
//   stsc = (E | D<fc.sp.id,...>) {/a<fc>.<sp>.<id> | /s<x>}
func (p *plan) Encode(hasCtts bool) string {
	var sb strings.Builder
	if !hasCtts {
		sb.WriteString("N")
	} else {
		if p.CttsDec {
			sb.WriteString("D" + u32s(p.CttsRowsC) + ":" + i32s(p.CttsRowsO))
		} else {
			sb.WriteString("E")
		}
		for _, c := range p.CttsCalls {
			sb.WriteString("/" + u32s(c.C) + ":" + i32s(c.O))
		}
	}
	sb.WriteString(";")
	if p.StscDec {
		rows := make([]string, len(p.StscRows))
		for i, e := range p.StscRows {
			rows[i] = fmt.Sprintf("%d.%d.%d", e[0], e[1], e[2])
		}
		sb.WriteString("D" + strings.Join(rows, ","))
	} else {
		sb.WriteString("E")
	}
	for _, c := range p.StscCalls {
		if c.Kind == 's' {
			sb.WriteString(fmt.Sprintf("/s%d", c.X))
		} else {
			sb.WriteString(fmt.Sprintf("/a%d.%d.%d", c.E[0], c.E[1], c.E[2]))
		}
	}
	sb.WriteString(";" + string(p.Modes[:]))
	return sb.String()
}

// splitLens cuts n rows into successive call lengths (1..4 calls, now and then an empty call).
func splitLens(rng *hx.Rng, n int) []int {
	k := rng.Range(1, 4)
	var lens []int
	left := n
	for i := 0; i < k; i++ {
		var l int
		switch {
		case i == k-1:
			l = left
		case rng.Intn(8) == 0:
			l = 0
		default:
			l = rng.Range(0, left)
			if l > 1 && rng.Bool() {
				l = rng.Range(1, l)
			}
		}
		lens = append(lens, l)
		left -= l
	}
	return lens
}

// decodedPlan: every box as a file reader meets it (used for the real files).
func decodedPlan(r *tbl.Raw) *plan {
	p := &plan{CttsDec: true, StscDec: true, Modes: [5]byte{'D', 'D', 'D', 'D', 'D'}}
	p.CttsRowsC = append([]uint32(nil), r.CttsC...)
	p.CttsRowsO = append([]int32(nil), r.CttsO...)
	p.StscRows = append([][3]uint32(nil), r.Stsc...)
	return p
}

// genPlan draws a plan whose final tables are r's. faulty adds calls that the builders refuse.
func genPlan(rng *hx.Rng, r *tbl.Raw, faulty bool) *plan {
	p := &plan{}
	// ---- ctts
	if r.HasCtts && len(r.CttsC) == len(r.CttsO) {
		n := len(r.CttsC)
		k := 0
		switch rng.Intn(10) {
		case 0, 1, 2, 3: // empty box + calls
		case 4, 5: // decode only (as a file reader does)
			p.CttsDec = true
			k = n
		default: // decoded prefix + calls
			p.CttsDec = true
			k = rng.Range(0, n)
		}
		p.CttsRowsC = append([]uint32(nil), r.CttsC[:k]...)
		p.CttsRowsO = append([]int32(nil), r.CttsO[:k]...)
		if k < n || !p.CttsDec {
			at := k
			for _, l := range splitLens(rng, n-k) {
				p.CttsCalls = append(p.CttsCalls, cttsCall{append([]uint32(nil), r.CttsC[at:at+l]...),
					append([]int32(nil), r.CttsO[at:at+l]...)})
				at += l
			}
		}
		if faulty && rng.Bool() {
			// a refused call (unequal lengths) somewhere in the history: must leave the box untouched
			bad := cttsCall{[]uint32{7, 9}, []int32{1}}
			if rng.Bool() {
				bad = cttsCall{nil, []int32{4}}
			}
			at := rng.Intn(len(p.CttsCalls) + 1)
			p.CttsCalls = append(p.CttsCalls[:at], append([]cttsCall{bad}, p.CttsCalls[at:]...)...)
		}
	} else if r.HasCtts {
		p.CttsCalls = []cttsCall{{append([]uint32(nil), r.CttsC...), append([]int32(nil), r.CttsO...)}}
	}
	// ---- stsc
	n := len(r.Stsc)
	k := 0
	switch rng.Intn(10) {
	case 0, 1, 2, 3:
	case 4, 5:
		p.StscDec = true
		k = n
	default:
		p.StscDec = true
		k = rng.Range(0, n)
	}
	rows := append([][3]uint32(nil), r.Stsc...)
	// SetSingleSampleDescriptionID(x) once sp rows are there: they all get id x, whatever they were given before
	// (sp = 0: no such call). Needs rows 0..sp-1 of the final table to share their id and the decoded prefix <= sp.
	sp := 0
	if n > 0 && rng.Intn(10) < 3 {
		same := 1
		for same < n && rows[same][2] == rows[0][2] {
			same++
		}
		sp = rng.Range(1, same)
		if k > sp {
			sp = k
		}
		if sp > same {
			sp = 0
		}
		if rng.Intn(3) > 0 {
			for i := 0; i < sp; i++ {
				rows[i][2] = uint32(rng.Range(1, 3))
			}
		}
	}
	p.StscRows = append([][3]uint32(nil), rows[:k]...)
	if faulty && k == 0 && rng.Bool() {
		// refused: the first entry of an empty box must have firstChunk 1
		p.StscCalls = append(p.StscCalls, stscCall{Kind: 'a', E: [3]uint32{uint32(rng.Range(2, 5)), 1, 1}})
	}
	for i := k; i <= n; i++ {
		if sp > 0 && i == sp {
			p.StscCalls = append(p.StscCalls, stscCall{Kind: 's', X: r.Stsc[0][2]})
		}
		if i < n {
			p.StscCalls = append(p.StscCalls, stscCall{Kind: 'a', E: rows[i]})
		}
	}
	// calls with sample description id 0 anywhere in the history: AddEntry refuses them, SetSingleSampleDescriptionID
	// ignores them (repaired text); neither the box nor the table the history describes changes
	if rng.Intn(100) < 35 {
		for k := rng.Range(1, 2); k > 0; k-- {
			z := stscCall{Kind: 's', X: 0}
			if rng.Bool() {
				z = stscCall{Kind: 'a', E: [3]uint32{uint32(rng.Range(1, 6)), uint32(rng.Range(0, 4)), 0}}
			}
			at := rng.Intn(len(p.StscCalls) + 1)
			p.StscCalls = append(p.StscCalls[:at], append([]stscCall{z}, p.StscCalls[at:]...)...)
		}
	}
	// ---- plain boxes
	for i := range p.Modes {
		p.Modes[i] = byte(rng.Pick('L', 'D'))
	}
	if p.Modes[2] == 'L' && rng.Bool() {
		p.Modes[2] = 'C'
	}
	if len(r.SttsC) != len(r.SttsD) {
		p.Modes[0] = 'L'
	}
	if !((r.Uniform != 0 && len(r.Sizes) == 0) || (r.Uniform == 0 && int(r.Number) == len(r.Sizes))) {
		p.Modes[3] = 'L'
	}
	return p
}

func fullBody(version byte, words ...uint32) []byte {
	b := make([]byte, 4+4*len(words))
	b[0] = version
	for i, w := range words {
		binary.BigEndian.PutUint32(b[4+4*i:], w)
	}
	return b
}

func decodeBox(name string, body []byte, f func(mp4.BoxHeader, uint64, bits.SliceReader) (mp4.Box, error)) (mp4.Box, error) {
	hdr := mp4.BoxHeader{Name: name, Size: uint64(8 + len(body)), Hdrlen: 8}
	return f(hdr, 0, bits.NewFixedSliceReader(body))
}

func cttsState(b *mp4.CttsBox) string { return u32s(b.EndSampleNr) + "/" + strconv.Itoa(len(b.SampleOffset)) }

func stscState(b *mp4.StscBox) string {
	xs := make([]string, len(b.Entries))
	for i, e := range b.Entries {
		xs[i] = strconv.Itoa(int(e.FirstSampleNr))
	}
	// the unexported singleSampleDescriptionID is observed through GetSampleDescriptionID(0): chunk 0
	// belongs to no entry, so the call panics unless the single value is in use
	single := uint32(0)
	if hx.Try(func() { single = b.GetSampleDescriptionID(0) }) != "" {
		single = 0
	}
	return fmt.Sprintf("%s/%d/%s", strings.Join(xs, ","), single, u32s(b.SampleDescriptionID))
}

func cls(err error) string {
	if err != nil {
		return "err"
	}
	return "ok"
}

// buildPlan makes the real stbl of r the way p says. trace holds one token per builder call
// (outcome class + cache fields after the call). err: a decoder refused its input.
func buildPlan(r *tbl.Raw, p *plan) (stbl *mp4.StblBox, trace []string, err error) {
	stbl = mp4.NewStblBox()
	// stts
	if p.Modes[0] == 'D' {
		w := []uint32{uint32(len(r.SttsC))}
		for i := range r.SttsC {
			w = append(w, r.SttsC[i], r.SttsD[i])
		}
		bx, e := decodeBox("stts", fullBody(0, w...), mp4.DecodeSttsSR)
		if e != nil {
			return nil, nil, e
		}
		stbl.AddChild(bx)
	} else {
		stbl.AddChild(&mp4.SttsBox{SampleCount: append([]uint32(nil), r.SttsC...),
			SampleTimeDelta: append([]uint32(nil), r.SttsD...)})
	}
	// ctts
	if r.HasCtts {
		var c *mp4.CttsBox
		if p.CttsDec {
			w := []uint32{uint32(len(p.CttsRowsC))}
			for i := range p.CttsRowsC {
				w = append(w, p.CttsRowsC[i], uint32(p.CttsRowsO[i]))
			}
			bx, e := decodeBox("ctts", fullBody(r.CttsVer, w...), mp4.DecodeCttsSR)
			if e != nil {
				return nil, nil, e
			}
			c = bx.(*mp4.CttsBox)
		} else {
			c = &mp4.CttsBox{Version: r.CttsVer}
		}
		for i, call := range p.CttsCalls {
			e := c.AddSampleCountsAndOffset(append([]uint32(nil), call.C...), append([]int32(nil), call.O...))
			trace = append(trace, fmt.Sprintf("bc%d=%s/%s", i, cls(e), cttsState(c)))
		}
		stbl.AddChild(c)
	}
	// stss
	if r.HasStss {
		if p.Modes[1] == 'D' {
			bx, e := decodeBox("stss", fullBody(0, append([]uint32{uint32(len(r.Stss))}, r.Stss...)...), mp4.DecodeStssSR)
			if e != nil {
				return nil, nil, e
			}
			stbl.AddChild(bx)
		} else {
			stbl.AddChild(&mp4.StssBox{SampleNumber: append([]uint32(nil), r.Stss...)})
		}
	}
	// sdtp
	if r.HasSdtp {
		es := make([]mp4.SdtpEntry, len(r.Sdtp))
		for i, b := range r.Sdtp {
			es[i] = mp4.SdtpEntry(b)
		}
		switch p.Modes[2] {
		case 'D':
			bx, e := decodeBox("sdtp", append([]byte{0, 0, 0, 0}, r.Sdtp...), mp4.DecodeSdtpSR)
			if e != nil {
				return nil, nil, e
			}
			stbl.AddChild(bx)
		case 'C':
			stbl.AddChild(mp4.CreateSdtpBox(es))
		default:
			stbl.AddChild(&mp4.SdtpBox{Entries: es})
		}
	}
	// stsc
	var sc *mp4.StscBox
	if p.StscDec {
		w := []uint32{uint32(len(p.StscRows))}
		for _, e := range p.StscRows {
			w = append(w, e[0], e[1], e[2])
		}
		bx, e := decodeBox("stsc", fullBody(0, w...), mp4.DecodeStscSR)
		if e != nil {
			return nil, nil, e
		}
		sc = bx.(*mp4.StscBox)
	} else {
		sc = &mp4.StscBox{}
	}
	for i, call := range p.StscCalls {
		var e error
		if call.Kind == 's' {
			sc.SetSingleSampleDescriptionID(call.X)
		} else {
			e = sc.AddEntry(call.E[0], call.E[1], call.E[2])
		}
		trace = append(trace, fmt.Sprintf("bs%d=%s/%s", i, cls(e), stscState(sc)))
	}
	stbl.AddChild(sc)
	// stsz
	if p.Modes[3] == 'D' {
		bx, e := decodeBox("stsz", fullBody(0, append([]uint32{r.Uniform, r.Number}, r.Sizes...)...), mp4.DecodeStszSR)
		if e != nil {
			return nil, nil, e
		}
		stbl.AddChild(bx)
	} else {
		stbl.AddChild(&mp4.StszBox{SampleUniformSize: r.Uniform, SampleNumber: r.Number,
			SampleSize: append([]uint32(nil), r.Sizes...)})
	}
	// chunk offsets
	switch r.OffKind {
	case 'S':
		o := make([]uint32, len(r.Offs))
		for i, x := range r.Offs {
			o[i] = uint32(x)
		}
		if p.Modes[4] == 'D' {
			bx, e := decodeBox("stco", fullBody(0, append([]uint32{uint32(len(o))}, o...)...), mp4.DecodeStcoSR)
			if e != nil {
				return nil, nil, e
			}
			stbl.AddChild(bx)
		} else {
			stbl.AddChild(&mp4.StcoBox{ChunkOffset: o})
		}
	case 'C':
		if p.Modes[4] == 'D' {
			w := []uint32{uint32(len(r.Offs))}
			for _, x := range r.Offs {
				w = append(w, uint32(x>>32), uint32(x))
			}
			bx, e := decodeBox("co64", fullBody(0, w...), mp4.DecodeCo64SR)
			if e != nil {
				return nil, nil, e
			}
			stbl.AddChild(bx)
		} else {
			stbl.AddChild(&mp4.Co64Box{ChunkOffset: append([]uint64(nil), r.Offs...)})
		}
	}
	return stbl, trace, nil
}
