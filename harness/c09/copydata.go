package main

// "copied sample data" (File.CopySampleData) against the naive expansion of the tables: for a generated table
// whose samples lie in a bounded byte range, a file image with position-dependent bytes is laid under an mdat
// covering that range, and samples a..b are copied in memory and lazily (several work-buffer sizes). The result
// must be the concatenation, sample by sample, of the bytes at the expansion's offsets.

import (
	"bytes"
	"crypto/sha256"
	"fmt"

	"github.com/Eyevinn/mp4ff/mp4"

	"verifharness/c09/tbl"
	"verifharness/hx"
)

func patternByte(p uint64) byte { return byte(p*131 + p>>8*17 + 7) }

func searchCopy(rng *hx.Rng, r *tbl.Raw, x *tbl.Ref, bx *boxes) {
	if x.N < 1 || x.N > 64 || len(x.OffsetOf) != x.N || len(x.Size) != x.N {
		return
	}
	lo, hi := ^uint64(0), uint64(0)
	for i := 0; i < x.N; i++ {
		o, e := x.OffsetOf[i], x.OffsetOf[i]+uint64(x.Size[i])
		if o < lo {
			lo = o
		}
		if e > hi {
			hi = e
		}
	}
	if lo < 16 || hi <= lo || hi-lo > 1<<17 || hi > 1<<20 {
		return
	}
	file := make([]byte, hi+4)
	for p := range file {
		file[p] = patternByte(uint64(p))
	}
	file = hx.Exact(file)
	mem := &mp4.MdatBox{StartPos: lo - 8, Data: hx.Exact(append([]byte{}, file[lo:hi]...))}
	lazy := &mp4.MdatBox{StartPos: lo - 8}
	lazy.SetLazyDataSize(hi - lo)
	fm := &mp4.File{Mdat: mem}
	fl := &mp4.File{Mdat: lazy}
	// C09_copy_pure: CopySampleData writes no field of the File or of its mdat box
	fileState := func(f *mp4.File, m *mp4.MdatBox) string {
		return fmt.Sprintf("%v %v %d %d %v %d %v %x", f.Mdat == m, f.IsFragmented(), m.StartPos, len(m.Data), m.IsLazy(),
			m.GetLazyDataSize(), m.LargeSize, sha256.Sum256(m.Data))
	}
	memBefore, lazyBefore := fileState(fm, mem), fileState(fl, lazy)
	defer func() {
		evals++
		if a, b := fileState(fm, mem), fileState(fl, lazy); a != memBefore || b != lazyBefore {
			fail("File.CopySampleData", "file-state-changed", r, "cp", a+" | "+b, memBefore+" | "+lazyBefore)
		}
	}()
	pairs := [][2]int{{1, x.N}}
	for k := 0; k < 6; k++ {
		a := rng.Range(1, x.N)
		pairs = append(pairs, [2]int{a, rng.Range(a, x.N)})
	}
	for _, ab := range pairs {
		a, b := ab[0], ab[1]
		var want []byte
		for i := a; i <= b; i++ {
			want = append(want, file[x.OffsetOf[i-1]:x.OffsetOf[i-1]+uint64(x.Size[i-1])]...)
		}
		run := func(f *mp4.File, lazyMode bool, wl int) string {
			var w bytes.Buffer
			var err error
			var ws []byte
			if wl > 0 {
				ws = hx.Exact(make([]byte, wl))
			}
			var rs *bytes.Reader
			p := hx.Try(func() {
				if lazyMode {
					rs = bytes.NewReader(file)
					err = f.CopySampleData(&w, rs, bx.trak, uint32(a), uint32(b), ws)
				} else {
					err = f.CopySampleData(&w, nil, bx.trak, uint32(a), uint32(b), ws)
				}
			})
			if p != "" {
				return "panic"
			}
			if err != nil {
				return "err"
			}
			return "ok/" + hx.Hex(w.Bytes())
		}
		wantS := "ok/" + hx.Hex(want)
		q := fmt.Sprintf("cp:%d:%d", a, b)
		evals++
		if got := run(fm, false, 0); got != wantS {
			fail("File.CopySampleData", classify(got, wantS)+"-in-memory", r, q, trunc(got), trunc(wantS))
			return
		}
		for _, wl := range []int{0, 1, 2, 3, 7, 32, 4096} {
			evals++
			if got := run(fl, true, wl); got != wantS {
				fail("File.CopySampleData", classify(got, wantS)+"-lazy", r, fmt.Sprintf("%s work buffer %d", q, wl), trunc(got), trunc(wantS))
				return
			}
		}
	}
}

func trunc(s string) string {
	if len(s) > 90 {
		return s[:90] + "..."
	}
	return s
}
