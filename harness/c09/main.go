// Harness for C09 (sample-table queries agree with the ISO 14496-12 table semantics).
//   c09 corr   -seed S -n N : case lines (tables + every query's projected outcome on the real code)
//   c09 search -seed S -n N : every query of consistent tables against the independent reference
//                             expansion (tbl.Expand); FAIL / EVALS lines
//   c09 file <path>...      : corr-style case lines for the tracks of real progressive files
package main

import (
	"bufio"
	"bytes"
	"encoding/binary"
	"flag"
	"fmt"
	"math/big"
	"os"
	"strconv"
	"strings"

	"github.com/Eyevinn/mp4ff/mp4"
	"verifharness/c09/tbl"
	"verifharness/hx"
)

var out = bufio.NewWriterSize(os.Stdout, 1<<20)

// ---------------------------------------------------------------- running one query on the real code

type boxes struct {
	stbl *mp4.StblBox
	trak *mp4.TrakBox
}

func okf(format string, a ...interface{}) string { return "ok/" + fmt.Sprintf(format, a...) }

func b2i(b bool) int {
	if b {
		return 1
	}
	return 0
}

func chunksStr(cs []mp4.Chunk) string {
	if len(cs) == 0 {
		return "-"
	}
	ss := make([]string, len(cs))
	for i, c := range cs {
		ss[i] = fmt.Sprintf("%d.%d.%d", c.ChunkNr, c.StartSampleNr, c.NrSamples)
	}
	return strings.Join(ss, ";")
}

// chunkSpanUnsafe predicts, from the exported fields and with the library's own arithmetic, the number of chunks
// GetContainingChunks(a, b) would allocate and walk: a wrong FirstSampleNr cache (a changed library, an inconsistent
// table) can make that ~2^32 (tens of GiB, the process is killed). Such calls are not made; the model driver
// computes the same prediction from the model's state, so a disagreement still shows as a mismatch.
func chunkSpanUnsafe(sc *mp4.StscBox, a, b uint32) (unsafe bool) {
	if a == 0 || b < a {
		return false
	}
	_ = hx.Try(func() { // a panic here is the panic the real call meets before its loop
		sen := sc.FindEntryNrForSampleNr(a, 0)
		een := sc.FindEntryNrForSampleNr(b, sen)
		se, ee := sc.Entries[sen], sc.Entries[een]
		scn := (a-se.FirstSampleNr)/se.SamplesPerChunk + se.FirstChunk
		ecn := (b-ee.FirstSampleNr)/ee.SamplesPerChunk + ee.FirstChunk
		unsafe = ecn-scn > 1<<12
	})
	return unsafe
}

// query runs one query ("name:arg:arg") and returns the projected outcome.
func query(bx *boxes, q string) (res string) {
	f := strings.Split(q, ":")
	arg := func(i int) uint64 {
		v, err := strconv.ParseUint(f[i], 10, 64)
		if err != nil {
			panic("bad query " + q)
		}
		return v
	}
	s := bx.stbl
	p := hx.Try(func() {
		switch f[0] {
		case "dt":
			t, d := s.Stts.GetDecodeTime(uint32(arg(1)))
			res = okf("%d/%d", t, d)
		case "du":
			res = okf("%d", s.Stts.GetDur(uint32(arg(1))))
		case "tc":
			res = okf("%d", int64(s.Stts.GetTimeCode(uint32(arg(1)), uint32(arg(2)))))
		case "st":
			nr, err := s.Stts.GetSampleNrAtTime(arg(1))
			if err != nil {
				res = "err"
			} else {
				res = okf("%d", nr)
			}
		case "ct":
			res = okf("%d", s.Ctts.GetCompositionTimeOffset(uint32(arg(1))))
		case "ce":
			xs := make([]string, len(s.Ctts.EndSampleNr))
			for i, e := range s.Ctts.EndSampleNr {
				xs[i] = strconv.Itoa(int(e))
			}
			res = okf("%s", strings.Join(xs, ","))
		case "sy":
			res = okf("%d", b2i(s.Stss.IsSyncSample(uint32(arg(1)))))
		case "ns":
			res = okf("%d", s.Stsz.GetNrSamples())
		case "sz":
			res = okf("%d", s.Stsz.GetSampleSize(int(arg(1))))
		case "ts":
			v, err := s.Stsz.GetTotalSampleSize(uint32(arg(1)), uint32(arg(2)))
			if err != nil {
				res = "err"
			} else {
				res = okf("%d", v)
			}
		case "of":
			var v uint64
			var err error
			if s.Stco != nil {
				v, err = s.Stco.GetOffset(int(arg(1)))
			} else {
				v, err = s.Co64.GetOffset(int(arg(1)))
			}
			if err != nil {
				res = "err"
			} else {
				res = okf("%d", v)
			}
		case "cn":
			c, fs, err := s.Stsc.ChunkNrFromSampleNr(int(arg(1)))
			if err != nil {
				res = "err"
			} else {
				res = okf("%d/%d", c, fs)
			}
		case "gc":
			c := s.Stsc.GetChunk(uint32(arg(1)))
			res = okf("%d/%d/%d", c.ChunkNr, c.StartSampleNr, c.NrSamples)
		case "cc":
			if chunkSpanUnsafe(s.Stsc, uint32(arg(1)), uint32(arg(2))) {
				res = "unsafe-chunk-span"
				return
			}
			cs, err := s.Stsc.GetContainingChunks(uint32(arg(1)), uint32(arg(2)))
			if err != nil {
				res = "err"
			} else {
				res = okf("%s", chunksStr(cs))
			}
		case "sd":
			res = okf("%d", s.Stsc.GetSampleDescriptionID(int(arg(1))))
		case "fs":
			xs := make([]string, len(s.Stsc.Entries))
			for i, e := range s.Stsc.Entries {
				xs[i] = strconv.Itoa(int(e.FirstSampleNr))
			}
			ids := make([]string, len(s.Stsc.SampleDescriptionID))
			for i, e := range s.Stsc.SampleDescriptionID {
				ids[i] = strconv.Itoa(int(e))
			}
			// the unexported singleSampleDescriptionID is observed through GetSampleDescriptionID(0): chunk 0
			// belongs to no entry, so the call panics unless the single value is in use
			single := uint32(0)
			if hx.Try(func() { single = s.Stsc.GetSampleDescriptionID(0) }) != "" {
				single = 0
			}
			res = okf("%s/%d/%s", strings.Join(xs, ","), single, strings.Join(ids, ","))
		case "gd":
			sm, err := bx.trak.GetSampleData(uint32(arg(1)), uint32(arg(2)))
			if err != nil {
				res = "err"
			} else {
				xs := make([]string, len(sm))
				for i, x := range sm {
					xs[i] = fmt.Sprintf("%d.%d.%d.%d", x.Flags, x.Dur, x.Size, x.CompositionTimeOffset)
				}
				if len(xs) == 0 {
					res = "ok/-"
				} else {
					res = okf("%s", strings.Join(xs, ";"))
				}
			}
		case "gr":
			if uint32(arg(1)) >= 1 && uint32(arg(2)) <= s.Stsz.GetNrSamples() && chunkSpanUnsafe(s.Stsc, uint32(arg(1)), uint32(arg(2))) {
				res = "unsafe-chunk-span"
				return
			}
			rs, err := bx.trak.GetRangesForSampleInterval(uint32(arg(1)), uint32(arg(2)))
			if err != nil {
				res = "err"
			} else {
				xs := make([]string, len(rs))
				for i, x := range rs {
					xs[i] = fmt.Sprintf("%d.%d", x.Offset, x.Size)
				}
				if len(xs) == 0 {
					res = "ok/-"
				} else {
					res = okf("%s", strings.Join(xs, ";"))
				}
			}
		default:
			panic("unknown query " + q)
		}
	})
	if p != "" {
		if strings.HasPrefix(p, "unknown query") || strings.HasPrefix(p, "bad query") {
			panic(p)
		}
		return "panic"
	}
	return res
}

// ---------------------------------------------------------------- enumerating the queries of a table

type qopt struct {
	intervals   bool // interval queries (cc, gr)
	sampleData  bool // gd
	outOfRange  bool // numbers 0, N+1, N+2, 2^32-1 ...
	maxAllPairs int
}

func intervalsOf(rng *hx.Rng, n int, maxAll int) [][2]int {
	var iv [][2]int
	if n <= maxAll {
		for a := 1; a <= n; a++ {
			for b := a; b <= n; b++ {
				iv = append(iv, [2]int{a, b})
			}
		}
		return iv
	}
	for b := 1; b <= n; b++ {
		iv = append(iv, [2]int{1, b})
	}
	for a := 2; a <= n; a++ {
		iv = append(iv, [2]int{a, n}, [2]int{a, a})
	}
	for i := 0; i < 200; i++ {
		a := rng.Range(1, n)
		iv = append(iv, [2]int{a, rng.Range(a, n)})
	}
	return iv
}

func timesOf(rng *hx.Rng, x *tbl.Ref) []uint64 {
	seen := map[uint64]bool{}
	var ts []uint64
	add := func(t uint64) {
		if !seen[t] {
			seen[t] = true
			ts = append(ts, t)
		}
	}
	if x.Total <= 64 {
		for t := uint64(0); t <= x.Total+1; t++ {
			add(t)
		}
		return ts
	}
	for _, s := range x.Start {
		if s > 0 {
			add(s - 1)
		}
		add(s)
		add(s + 1)
	}
	add(x.Total - 1)
	add(x.Total)
	add(x.Total + 1)
	for i := 0; i < 10; i++ {
		add(rng.U64() % (x.Total + 2))
	}
	return ts
}

// timescaleOf picks the timescale of a GetTimeCode query: the usual ones (1 kHz, 90 kHz, 10 MHz: 2^32 units are
// 7 minutes), the extremes 1 and 2^32-1, any uint32; 0 (integer divide by zero) only in the out-of-range stream.
func timescaleOf(rng *hx.Rng, outOfRange bool) uint32 {
	switch k := rng.Intn(12); {
	case k == 0 && outOfRange:
		return 0
	case k <= 1:
		return 1
	case k == 2:
		return 1000
	case k <= 4:
		return 90000
	case k <= 6:
		return 10000000
	case k == 7:
		return 0xffffffff
	case k == 8:
		return uint32(rng.Range(2, 60000))
	}
	return uint32(rng.U64()%0xffffffff) + 1
}

// queriesOf lists the queries for a table with n samples / c chunks.
func queriesOf(rng *hx.Rng, r *tbl.Raw, x *tbl.Ref, o qopt) []string {
	var qs []string
	n, c := x.N, x.NChunks
	if len(r.Stsc) > 0 {
		qs = append(qs, "fs")
	}
	if r.HasCtts {
		qs = append(qs, "ce")
	}
	qs = append(qs, "ns")
	lo, hi := 1, n
	var extra []uint64
	if o.outOfRange {
		lo, hi = 0, n+2
		extra = []uint64{0xffffffff, 0x80000000}
	}
	nums := []uint64{}
	for i := lo; i <= hi; i++ {
		nums = append(nums, uint64(i))
	}
	nums = append(nums, extra...)
	for _, i := range nums {
		qs = append(qs, fmt.Sprintf("dt:%d", i), fmt.Sprintf("du:%d", i), fmt.Sprintf("sz:%d", i))
		qs = append(qs, fmt.Sprintf("tc:%d:%d", i, timescaleOf(rng, o.outOfRange)))
		if r.HasCtts {
			qs = append(qs, fmt.Sprintf("ct:%d", i))
		}
		if r.HasStss {
			qs = append(qs, fmt.Sprintf("sy:%d", i))
		}
		if len(r.Stsc) > 0 {
			qs = append(qs, fmt.Sprintf("cn:%d", i))
		}
	}
	clo, chi := 1, c
	cnums := []uint64{}
	if o.outOfRange {
		clo, chi = 0, c+2
	}
	for i := clo; i <= chi; i++ {
		cnums = append(cnums, uint64(i))
	}
	if o.outOfRange {
		cnums = append(cnums, 0xffffffff)
	}
	for _, i := range cnums {
		if len(r.Stsc) > 0 {
			qs = append(qs, fmt.Sprintf("gc:%d", i), fmt.Sprintf("sd:%d", i))
		}
		if r.OffKind != 'N' {
			qs = append(qs, fmt.Sprintf("of:%d", i))
		}
	}
	for _, t := range timesOf(rng, x) {
		qs = append(qs, fmt.Sprintf("st:%d", t))
	}
	iv := intervalsOf(rng, n, o.maxAllPairs)
	if o.outOfRange {
		iv = append(iv, [2]int{0, 1}, [2]int{0, 0}, [2]int{1, n + 1}, [2]int{n, n + 2}, [2]int{n + 1, n + 1}, [2]int{2, 1}, [2]int{n + 1, n})
		if n >= 3 {
			iv = append(iv, [2]int{3, 1}, [2]int{n, 1})
		}
	}
	for _, p := range iv {
		a, b := p[0], p[1]
		qs = append(qs, fmt.Sprintf("ts:%d:%d", a, b))
		if o.intervals && len(r.Stsc) > 0 {
			qs = append(qs, fmt.Sprintf("cc:%d:%d", a, b), fmt.Sprintf("gr:%d:%d", a, b))
		}
		if o.sampleData && b+1 >= a { // b+1 < a makes the real code allocate 2^32-ish samples
			qs = append(qs, fmt.Sprintf("gd:%d:%d", a, b))
		}
	}
	return qs
}

// ---------------------------------------------------------------- malformed tables

// mutate applies one inconsistency; returns a label and whether chunk-interval queries are safe
// (a garbage FirstSampleNr cache can make GetContainingChunks loop over ~2^32 chunks).
func mutate(rng *hx.Rng, r *tbl.Raw) (string, bool) {
	safe := true
	switch rng.Intn(14) {
	case 12:
		// uint32 wrap-around of the EndSampleNr cache (the builder / decoder equalities hold with wrap-around)
		r.HasCtts = true
		r.CttsC = []uint32{0xfffffff0, uint32(rng.Range(0x10, 0x30)), 3}
		r.CttsO = []int32{1, 2, 3}
		return "ctts-wrap", safe
	case 13:
		// uint32 wrap-around of the FirstSampleNr cache
		r.Stsc = [][3]uint32{{1, 3, 1}, {0x80000000, 0x10, r.Stsc[0][2]}, {0x80000010, uint32(rng.Range(1, 3)), 1}}
		return "stsc-wrap", false
	case 0:
		r.SttsC = r.SttsC[:len(r.SttsC)-1]
		r.SttsD = r.SttsD[:len(r.SttsD)-1]
		return "stts-short", safe
	case 1:
		r.SttsC, r.SttsD = nil, nil
		return "stts-empty", safe
	case 2:
		if r.HasCtts {
			r.CttsC[len(r.CttsC)-1] += uint32(rng.Range(1, 3))
			return "ctts-long", safe
		}
		r.HasCtts = true
		r.CttsC, r.CttsO = nil, nil
		return "ctts-empty", safe
	case 3:
		if r.HasCtts && len(r.CttsC) > 1 {
			r.CttsC = r.CttsC[:len(r.CttsC)-1]
			r.CttsO = r.CttsO[:len(r.CttsO)-1]
			return "ctts-short", safe
		}
		r.SttsD = r.SttsD[:len(r.SttsD)-1]
		return "stts-deltas-short", safe
	case 4:
		r.Stsc[rng.Intn(len(r.Stsc))][1] = 0
		return "stsc-spc-zero", safe
	case 5:
		for i := range r.Stsc {
			r.Stsc[i][0] += 2
		}
		return "stsc-first-chunk-3", safe
	case 6:
		if len(r.Stsc) > 1 {
			i := rng.Range(1, len(r.Stsc)-1)
			r.Stsc[i][0] = r.Stsc[i-1][0]
			return "stsc-dup-first-chunk", false
		}
		r.Stsc[0][2] = 0
		return "stsc-sdid-zero", safe
	case 7:
		r.Stsc[rng.Intn(len(r.Stsc))][2] = 0
		return "stsc-sdid-zero", safe
	case 8:
		if r.HasStss && len(r.Stss) > 1 {
			r.Stss[0], r.Stss[len(r.Stss)-1] = r.Stss[len(r.Stss)-1], r.Stss[0]
			return "stss-unsorted", safe
		}
		r.HasStss = true
		r.Stss = []uint32{0, 0, 7}
		return "stss-zeros", safe
	case 9:
		if r.HasSdtp && len(r.Sdtp) > 0 {
			r.Sdtp = r.Sdtp[:len(r.Sdtp)-1]
			return "sdtp-short", safe
		}
		r.HasSdtp = true
		r.Sdtp = nil
		return "sdtp-empty", safe
	case 10:
		if r.Uniform == 0 {
			r.Number += uint32(rng.Range(1, 2))
			return "stsz-number-big", safe
		}
		r.Sizes = []uint32{1, 2}
		return "stsz-uniform-and-sizes", safe
	default:
		if len(r.Offs) > 0 {
			r.Offs = r.Offs[:len(r.Offs)-1]
		}
		if rng.Bool() {
			r.OffKind = 'N'
			r.Offs = nil
		}
		return "offsets-short", safe
	}
}

// ---------------------------------------------------------------- corr

func emitCase(id string, kind string, r *tbl.Raw, p *plan, qs []string) int {
	stbl, trace, err := buildPlan(r, p)
	if err != nil {
		fmt.Fprintf(out, "T\t%s\t%s\t%s\t%s\tbuild=err\n", id, kind, r.Encode(), p.Encode(r.HasCtts))
		return 1
	}
	bx := &boxes{stbl: stbl, trak: tbl.Trak(stbl)}
	var sb strings.Builder
	sb.WriteString("build=ok")
	for _, t := range trace {
		sb.WriteByte(' ')
		sb.WriteString(t)
	}
	before := snapshot(stbl)
	for _, q := range qs {
		sb.WriteByte(' ')
		sb.WriteString(q)
		sb.WriteByte('=')
		sb.WriteString(query(bx, q))
	}
	// "pu": every field of every table box (unexported ones included) is what it was before the queries
	sb.WriteString(fmt.Sprintf(" pu=ok/%d", b2i(snapshot(stbl) == before)))
	fmt.Fprintf(out, "T\t%s\t%s\t%s\t%s\t%s\n", id, kind, r.Encode(), p.Encode(r.HasCtts), sb.String())
	return len(qs) + len(trace)
}

// fixedCases: the histories of the Examples / refuted theorems of coq/c09/C09Theorems.v, on the real code.
func fixedCases(rng *hx.Rng) int {
	total := 0
	// ex_tb built by ex_ctts_calls / ex_stsc_calls (3 calls each)
	r := &tbl.Raw{SttsC: []uint32{3, 1, 3}, SttsD: []uint32{10, 20, 5}, HasCtts: true, CttsMode: 'A', CttsVer: 1,
		CttsC: []uint32{2, 5}, CttsO: []int32{0, -3}, StscMode: 'A', Stsc: [][3]uint32{{1, 2, 1}, {3, 3, 2}},
		Number: 7, Sizes: []uint32{4, 5, 6, 7, 8, 9, 10}, OffKind: 'S', Offs: []uint64{100, 200, 300},
		HasStss: true, Stss: []uint32{1, 5}, HasSdtp: true, Sdtp: []byte{0, 16, 32, 64, 4, 8, 1}}
	p := &plan{CttsCalls: []cttsCall{{[]uint32{2}, []int32{0}}, {nil, nil}, {[]uint32{5}, []int32{-3}}},
		StscCalls: []stscCall{{Kind: 'a', E: [3]uint32{1, 2, 2}}, {Kind: 's', X: 0}, {Kind: 'a', E: [3]uint32{2, 9, 0}},
			{Kind: 's', X: 1}, {Kind: 'a', E: [3]uint32{3, 3, 2}}},
		Modes: [5]byte{'L', 'L', 'L', 'L', 'L'}}
	qs := queriesOf(rng, r, tbl.Expand(r), qopt{intervals: true, sampleData: true, outOfRange: true, maxAllPairs: 16})
	total += emitCase("w-ex-histories", "V", r, p, qs)
	// C09_builder_stsc_zero_id_refuted: AddEntry(4, 1, 0) after entries with ids 1, 2
	r2 := &tbl.Raw{SttsC: []uint32{6}, SttsD: []uint32{10}, StscMode: 'A', Stsc: [][3]uint32{{1, 2, 1}, {3, 1, 2}, {4, 1, 0}},
		Number: 6, Sizes: []uint32{1, 2, 3, 4, 5, 6}, OffKind: 'S', Offs: []uint64{100, 200, 300, 400}}
	p2 := &plan{StscCalls: []stscCall{{Kind: 'a', E: [3]uint32{1, 2, 1}}, {Kind: 'a', E: [3]uint32{3, 1, 2}},
		{Kind: 'a', E: [3]uint32{4, 1, 0}}}, Modes: [5]byte{'L', 'L', 'L', 'L', 'L'}}
	qs2 := queriesOf(rng, r2, tbl.Expand(r2), qopt{intervals: true, sampleData: true, outOfRange: true, maxAllPairs: 16})
	total += emitCase("w-zero-id", "M", r2, p2, qs2)
	// C09_sample_at_time_wrap_refuted: the largest track stsz can describe, 2^32-1 samples in one stts run; a time inside the
	// last sample gives sample number N+1 = 2^32 -> 0.  (No per-sample expansion, no gd: explicit queries only.)
	r3 := &tbl.Raw{SttsC: []uint32{0xffffffff}, SttsD: []uint32{2}, StscMode: 'D', Stsc: [][3]uint32{{1, 0xffffffff, 1}},
		Uniform: 4, Number: 0xffffffff, OffKind: 'S', Offs: []uint64{100}}
	p3 := decodedPlan(r3)
	qs3 := []string{"ns", "st:8589934589", "st:8589934588", "st:8589934590", "dt:4294967295", "du:4294967295", "dt:1",
		"sz:4294967295", "ts:1:4294967295", "cn:4294967295", "gc:1", "cc:1:4294967295", "gr:2:4294967295", "of:1"}
	total += emitCase("w-stts-wrap", "M", r3, p3, qs3)
	// C09_decode_time_exact: counts summing to 2^33-2, the decode time of the last uint32 sample number does not wrap
	r4 := &tbl.Raw{SttsC: []uint32{0xffffffff, 0xffffffff}, SttsD: []uint32{0xffffffff, 7}, StscMode: 'D',
		Stsc: [][3]uint32{{1, 1, 1}}, Uniform: 4, Number: 5, OffKind: 'S', Offs: []uint64{100}}
	total += emitCase("w-stts-big", "M", r4, decodedPlan(r4), []string{"dt:4294967295", "dt:4294967294", "du:4294967295", "dt:1"})
	// C09_stsc_cache_wrap_refuted: FirstSampleNr of the second run wraps to 1
	r5 := &tbl.Raw{SttsC: []uint32{10}, SttsD: []uint32{1}, StscMode: 'D', Stsc: [][3]uint32{{1, 0x80000000, 1}, {3, 1, 1}},
		Uniform: 4, Number: 10, OffKind: 'S', Offs: []uint64{100, 200, 300}}
	// C09_time_code_pinned_refuted / ex_time_code: decode times of 2^32 units and more (10 MHz: 7 minutes), the last
	// uint32 sample number of r4 in the largest timescale, timescale 0, sample numbers 0 and past the end
	r6 := &tbl.Raw{SttsC: []uint32{500}, SttsD: []uint32{10000000}, StscMode: 'D', Stsc: [][3]uint32{{1, 500, 1}},
		Uniform: 4, Number: 500, OffKind: 'S', Offs: []uint64{100}}
	total += emitCase("w-stts-timecode", "V", r6, decodedPlan(r6), []string{"tc:431:10000000", "tc:430:10000000", "tc:500:10000000",
		"tc:500:1", "tc:500:90000", "tc:1:7", "tc:0:10000000", "tc:501:10000000", "tc:4294967295:3", "tc:2:0", "dt:431"})
	total += emitCase("w-stts-timecode-big", "M", r4, decodedPlan(r4), []string{"tc:4294967295:4294967295", "tc:4294967295:1",
		"tc:4294967294:1000", "tc:0:1", "tc:0:4294967295"})
	total += emitCase("w-stsc-cache-wrap", "M", r5, decodedPlan(r5), []string{"fs", "cn:1", "gc:1", "gc:3", "cn:2147483649"})
	return total
}

func corr(seed uint64, n int) {
	rng := hx.NewRng(seed)
	total := fixedCases(hx.NewRng(5))
	for i := 0; i < n; i++ {
		r := tbl.Gen(rng, tbl.DefaultOpt)
		x := tbl.Expand(r)
		qs := queriesOf(rng, r, x, qopt{intervals: true, sampleData: true, outOfRange: true, maxAllPairs: 16})
		total += emitCase(fmt.Sprintf("v%d", i), "V", r, genPlan(rng, r, false), qs)
	}
	// malformed stream
	for i := 0; i < n/2; i++ {
		r := tbl.Gen(rng, tbl.DefaultOpt)
		label, safe := mutate(rng, r)
		x := tbl.Expand(tbl.Gen(hx.NewRng(1), tbl.DefaultOpt)) // placeholder, replaced below
		// the enumeration bounds come from the unmutated sizes: number of sizes / offsets present
		x = &tbl.Ref{N: int(r.Number), NChunks: len(r.Offs), Total: 40}
		if x.N > 60 {
			x.N = 60
		}
		qs := queriesOf(rng, r, x, qopt{intervals: safe, sampleData: true, outOfRange: true, maxAllPairs: 8})
		total += emitCase(fmt.Sprintf("m%d-%s", i, label), "M", r, genPlan(rng, r, true), qs)
	}
	out.Flush()
	fmt.Fprintf(os.Stderr, "QUERIES\t%d\n", total)
}

// ---------------------------------------------------------------- search

var evals int
var curPlan = "decode" // how the boxes of the table under search were built (plan.Encode)
var failCount = map[string]int{}

func fail(site, class string, r *tbl.Raw, q, got, want string) {
	key := site + "/" + class
	failCount[key]++
	if failCount[key] > 3 {
		return
	}
	w := strings.ReplaceAll(r.Encode(), "\t", " | ")
	fmt.Fprintf(out, "FAIL\t%s\t%s\t%s ; built by %s ; query %s\t%s returned %s, the expansion of the tables gives %s\n",
		site, class, w, curPlan, q, site, got, want)
}

var siteOf = map[string]string{
	"dt": "SttsBox.GetDecodeTime", "du": "SttsBox.GetDur", "tc": "SttsBox.GetTimeCode", "st": "SttsBox.GetSampleNrAtTime",
	"ct": "CttsBox.GetCompositionTimeOffset", "sy": "StssBox.IsSyncSample", "ns": "StszBox.GetNrSamples",
	"sz": "StszBox.GetSampleSize", "ts": "StszBox.GetTotalSampleSize", "of": "StcoBox/Co64Box.GetOffset",
	"cn": "StscBox.ChunkNrFromSampleNr", "gc": "StscBox.GetChunk", "cc": "StscBox.GetContainingChunks",
	"sd": "StscBox.GetSampleDescriptionID", "fs": "StscEntry.FirstSampleNr", "gd": "TrakBox.GetSampleData",
	"gr": "TrakBox.GetRangesForSampleInterval", "ce": "CttsBox.EndSampleNr", "cp": "File.CopySampleData",
}

// refFlags is the sample-flags word from the expanded sync / sdtp information.
func refFlags(r *tbl.Raw, x *tbl.Ref, n int) uint32 {
	var f uint32
	dep := uint32(0)
	if x.Sync != nil {
		if x.Sync[n-1] {
			dep = 2
		} else {
			f |= 1 << 16
		}
	}
	if r.HasSdtp {
		e := uint32(r.Sdtp[n-1])
		f |= (e>>6)&3<<26 | (e>>2)&3<<22 | (e&3)<<20
		dep = (e >> 4) & 3
	}
	return f | dep<<24
}

// expected computes the reference answer for an in-range query, "" if the reference does not define it.
func expected(r *tbl.Raw, x *tbl.Ref, q string) string {
	f := strings.Split(q, ":")
	arg := func(i int) int { v, _ := strconv.ParseUint(f[i], 10, 64); return int(v) }
	switch f[0] {
	case "dt":
		n := arg(1)
		return okf("%d/%d", x.Start[n-1], x.Dur[n-1])
	case "du":
		return okf("%d", x.Dur[arg(1)-1])
	case "tc":
		// floor(10^9 * start / timescale) nanoseconds; not defined when that is no int64 (time.Duration)
		ts, _ := strconv.ParseUint(f[2], 10, 64)
		if ts == 0 {
			return ""
		}
		v := new(big.Int).Mul(big.NewInt(1000000000), new(big.Int).SetUint64(x.Start[arg(1)-1]))
		v.Div(v, new(big.Int).SetUint64(ts))
		if !v.IsInt64() {
			return ""
		}
		return okf("%s", v.String())
	case "st":
		t, _ := strconv.ParseUint(f[1], 10, 64)
		if t < x.Total {
			k := 0
			for _, s := range x.Start {
				if s < t {
					k++
				}
			}
			return okf("%d", k+1)
		}
		if t == x.Total && x.N > 0 && x.Dur[x.N-1] == 0 {
			// the library documents: "Match a final single zero duration if present"
			return okf("%d", x.N)
		}
		return "err"
	case "ct":
		return okf("%d", x.Cto[arg(1)-1])
	case "sy":
		return okf("%d", b2i(x.Sync[arg(1)-1]))
	case "ns":
		return okf("%d", x.N)
	case "sz":
		return okf("%d", x.Size[arg(1)-1])
	case "ts":
		var t uint64
		for i := arg(1); i <= arg(2); i++ {
			t += uint64(x.Size[i-1])
		}
		return okf("%d", t)
	case "of":
		return okf("%d", x.ChunkOff[arg(1)-1])
	case "cn":
		c := x.ChunkOf[arg(1)-1]
		return okf("%d/%d", c, x.ChunkFirst[c-1])
	case "gc":
		c := arg(1)
		return okf("%d/%d/%d", c, x.ChunkFirst[c-1], x.ChunkCount[c-1])
	case "sd":
		return okf("%d", x.ChunkSdid[arg(1)-1])
	case "cc":
		a, b := arg(1), arg(2)
		var ss []string
		for c := x.ChunkOf[a-1]; c <= x.ChunkOf[b-1]; c++ {
			ss = append(ss, fmt.Sprintf("%d.%d.%d", c, x.ChunkFirst[c-1], x.ChunkCount[c-1]))
		}
		return okf("%s", strings.Join(ss, ";"))
	case "gd":
		a, b := arg(1), arg(2)
		var ss []string
		for n := a; n <= b; n++ {
			cto := int32(0)
			if x.Cto != nil {
				cto = x.Cto[n-1]
			}
			ss = append(ss, fmt.Sprintf("%d.%d.%d.%d", refFlags(r, x, n), x.Dur[n-1], x.Size[n-1], cto))
		}
		return okf("%s", strings.Join(ss, ";"))
	case "gr":
		// one range per chunk met by [a,b]: from the first wanted sample in the chunk to the last
		a, b := arg(1), arg(2)
		var ss []string
		for c := x.ChunkOf[a-1]; c <= x.ChunkOf[b-1]; c++ {
			first, last := x.ChunkFirst[c-1], x.ChunkFirst[c-1]+x.ChunkCount[c-1]-1
			if first < a {
				first = a
			}
			if last > b {
				last = b
			}
			var sz uint64
			for n := first; n <= last; n++ {
				sz += uint64(x.Size[n-1])
			}
			ss = append(ss, fmt.Sprintf("%d.%d", x.OffsetOf[first-1], sz))
		}
		return okf("%s", strings.Join(ss, ";"))
	case "fs":
		var ss []string
		for _, e := range r.Stsc {
			ss = append(ss, strconv.Itoa(x.ChunkFirst[e[0]-1]))
		}
		return strings.Join(ss, ",")
	}
	return ""
}

func classify(got, want string) string {
	switch {
	case got == "unsafe-chunk-span":
		return "runaway-chunk-span"
	case got == "panic":
		return "panic"
	case got == "err":
		return "error-returned"
	case want == "err":
		return "no-error"
	}
	return "wrong-value"
}

func searchTable(rng *hx.Rng, r *tbl.Raw, withOOR bool) {
	pl := genPlan(rng, r, false)
	curPlan = pl.Encode(r.HasCtts)
	stbl, trace, err := buildPlan(r, pl)
	if err != nil {
		fail("table box decoders", "error-returned", r, "build", "err", "ok")
		return
	}
	for _, t := range trace {
		evals++
		// the only call of a well-formed history that must be refused: AddEntry with description id 0
		wantErr := false
		if strings.HasPrefix(t, "bs") {
			if i, e := strconv.Atoi(t[2:strings.Index(t, "=")]); e == nil && i < len(pl.StscCalls) {
				wantErr = pl.StscCalls[i].Kind == 'a' && pl.StscCalls[i].E[2] == 0
			}
		}
		if gotErr := strings.Contains(t, "=err/"); gotErr && !wantErr {
			fail("CttsBox.AddSampleCountsAndOffset/StscBox.AddEntry", "error-returned", r, t, "err", "ok")
		} else if !gotErr && wantErr {
			fail("StscBox.AddEntry", "zero-description-id-accepted", r, t, "ok", "an error (DecodeStscSR refuses id 0)")
		}
	}
	// whatever the history (calls with id 0 included), the built boxes encode to the table the accepted calls describe
	evals++
	if got, want := encodedStsc(stbl.Stsc), fmt.Sprint(r.Stsc); got != want {
		fail("StscBox.AddEntry/SetSingleSampleDescriptionID", "built-box-does-not-encode-to-its-table", r, "Encode", got, want)
	}
	bx := &boxes{stbl: stbl, trak: tbl.Trak(stbl)}
	x := tbl.Expand(r)
	before := snapshot(stbl)
	qs := queriesOf(rng, r, x, qopt{intervals: true, sampleData: true, outOfRange: false, maxAllPairs: 16})
	zeroMid := false
	for i, d := range r.SttsD {
		if d == 0 && !(i == len(r.SttsD)-1 && r.SttsC[i] == 1) {
			zeroMid = true
		}
	}
	for _, q := range qs {
		if q == "ce" {
			continue
		}
		got := query(bx, q)
		want := expected(r, x, q)
		if want == "" && strings.HasPrefix(q, "tc:") {
			continue // the time code is no int64
		}
		evals++
		if q == "fs" {
			got = strings.Split(strings.TrimPrefix(got, "ok/"), "/")[0]
		}
		if got != want {
			cl := classify(got, want)
			site := siteOf[strings.Split(q, ":")[0]]
			if strings.HasPrefix(q, "st:") && zeroMid {
				cl = "zero-delta-not-last"
			}
			fail(site, cl, r, q, got, want)
		}
	}
	// the same queries on the same box objects again, in decreasing and in shuffled order: an answer must not depend
	// on which queries came before (lookup cursors / caches inside the boxes)
	order := make([]int, 0, 2*len(qs))
	for i := len(qs) - 1; i >= 0; i-- {
		order = append(order, i)
	}
	perm := make([]int, len(qs))
	for i := range perm {
		perm[i] = i
	}
	for i := len(perm) - 1; i > 0; i-- {
		j := rng.Intn(i + 1)
		perm[i], perm[j] = perm[j], perm[i]
	}
	order = append(order, perm...)
	for _, i := range order {
		q := qs[i]
		if q == "ce" || (strings.HasPrefix(q, "st:") && zeroMid) {
			continue
		}
		got := query(bx, q)
		want := expected(r, x, q)
		if want == "" && strings.HasPrefix(q, "tc:") {
			continue
		}
		evals++
		if q == "fs" {
			got = strings.Split(strings.TrimPrefix(got, "ok/"), "/")[0]
		}
		if got != want {
			fail(siteOf[strings.Split(q, ":")[0]], classify(got, want)+"-order-dependent", r, q+" (asked again after other queries)", got, want)
			break
		}
	}
	// copied sample data: bytes of samples a..b, in memory and lazily with several work buffers (copydata.go)
	searchCopy(rng, r, x, bx)
	// C09_queries_pure / C09_copy_pure: no query (CopySampleData included) writes a field of a table box
	evals++
	if after := snapshot(stbl); after != before {
		fail("sample-table queries", "box-state-changed-by-a-query", r, "all queries", trunc(after), trunc(before))
	}
	if withOOR {
		// the library's only unbounded-index query without an error return, on the first number past the table
		q := fmt.Sprintf("dt:%d", x.N+1)
		evals++
		if got := query(bx, q); got == "panic" {
			fail("SttsBox.GetDecodeTime", "panic-past-last-sample", r, q, got, "an error or a defined value (GetDur returns the last duration)")
		}
	}
}

func search(seed uint64, n int) {
	rng := hx.NewRng(seed ^ 0x5ea4c4)
	// fixed regression witnesses (DESIGN Appendix A) first
	w1 := &tbl.Raw{SttsC: []uint32{3, 1, 3}, SttsD: []uint32{0, 0, 2}, StscMode: 'D', Stsc: [][3]uint32{{1, 7, 1}},
		Number: 7, Uniform: 4, OffKind: 'S', Offs: []uint64{100}}
	searchTable(rng, w1, true)
	w2 := &tbl.Raw{SttsC: []uint32{6}, SttsD: []uint32{10}, StscMode: 'D', Stsc: [][3]uint32{{1, 2, 1}, {3, 1, 2}},
		Number: 6, Sizes: []uint32{1, 2, 3, 4, 5, 6}, OffKind: 'S', Offs: []uint64{100, 200, 300, 400}}
	searchTable(rng, w2, true)
	// C09_builder_stsc_zero_id_refuted on the real code: AddEntry does not look at the description id
	{
		b := &mp4.StscBox{}
		_ = b.AddEntry(1, 2, 1)
		_ = b.AddEntry(3, 1, 2)
		err := b.AddEntry(4, 1, 0)
		evals++
		if err == nil && hx.Try(func() { _ = b.GetSampleDescriptionID(4) }) != "" {
			r := &tbl.Raw{SttsC: []uint32{6}, SttsD: []uint32{10}, StscMode: 'A', Stsc: [][3]uint32{{1, 2, 1}, {3, 1, 2}, {4, 1, 0}},
				Number: 6, Sizes: []uint32{1, 2, 3, 4, 5, 6}, OffKind: 'S', Offs: []uint64{100, 200, 300, 400}}
			curPlan = "N;E/a1.2.1/a3.1.2/a4.1.0;LLLLL"
			fail("StscBox.AddEntry", "zero-description-id-accepted", r, "sd:4", "panic (AddEntry(4,1,0) returned nil)",
				"an error from AddEntry (DecodeStscSR refuses id 0)")
		}
	}
	// C09_sample_at_time_wrap_refuted on the real code: 2^32-1 samples (the most stsz can describe), a time inside the last one
	{
		st := &mp4.SttsBox{SampleCount: []uint32{0xffffffff}, SampleTimeDelta: []uint32{2}}
		nr, err := st.GetSampleNrAtTime(8589934589)
		evals++
		if err == nil && nr == 0 {
			r := &tbl.Raw{SttsC: []uint32{0xffffffff}, SttsD: []uint32{2}, StscMode: 'D', Stsc: [][3]uint32{{1, 0xffffffff, 1}},
				Uniform: 4, Number: 0xffffffff, OffKind: 'S', Offs: []uint64{100}}
			curPlan = "decode"
			fail("SttsBox.GetSampleNrAtTime", "sample-number-wraps-at-2^32", r, "st:8589934589", "ok/0 (nil error)",
				"4294967296 does not fit uint32: an error")
		}
	}
	// C09_time_code_pinned_refuted on the real code (finding C09-F7, fixed in 423d4e5): one-second samples in a 10 MHz timescale
	{
		st := &mp4.SttsBox{SampleCount: []uint32{500}, SampleTimeDelta: []uint32{10000000}}
		evals++
		if got := int64(st.GetTimeCode(431, 10000000)); got != 430000000000 {
			r := &tbl.Raw{SttsC: []uint32{500}, SttsD: []uint32{10000000}, StscMode: 'D', Stsc: [][3]uint32{{1, 500, 1}},
				Uniform: 4, Number: 500, OffKind: 'S', Offs: []uint64{100}}
			curPlan = "decode"
			fail("SttsBox.GetTimeCode", "wrong-value", r, "tc:431:10000000", fmt.Sprintf("ok/%d", got), "ok/430000000000")
		}
	}
	// the same defect through SetSingleSampleDescriptionID(0): the box had neither a single id nor an id slice
	{
		b := &mp4.StscBox{}
		_ = b.AddEntry(1, 2, 1)
		_ = b.AddEntry(3, 1, 2)
		b.SetSingleSampleDescriptionID(0)
		evals++
		if got := encodedStsc(b); got != "[[1 2 1] [3 1 2]]" {
			r := &tbl.Raw{SttsC: []uint32{6}, SttsD: []uint32{10}, StscMode: 'A', Stsc: [][3]uint32{{1, 2, 1}, {3, 1, 2}},
				Number: 6, Sizes: []uint32{1, 2, 3, 4, 5, 6}, OffKind: 'S', Offs: []uint64{100, 200, 300, 400}}
			curPlan = "N;E/a1.2.1/a3.1.2/s0;LLLLL"
			fail("StscBox.AddEntry", "zero-description-id-accepted", r, "Encode", got, "[[1 2 1] [3 1 2]] (id 0 ignored)")
		}
	}
	for i := 0; i < n; i++ {
		r := tbl.Gen(rng, tbl.DefaultOpt)
		searchTable(rng, r, i%16 == 0)
	}
	fmt.Fprintf(out, "EVALS\t%d\n", evals)
	out.Flush()
}

// encodedStsc: the (first chunk, samples per chunk, description id) rows StscBox.Encode writes, "panic" if it panics.
func encodedStsc(b *mp4.StscBox) string {
	var rows [][3]uint32
	p := hx.Try(func() {
		var buf bytes.Buffer
		if err := b.Encode(&buf); err != nil {
			panic("encode error")
		}
		body := buf.Bytes()[16:]
		for i := 0; i+12 <= len(body); i += 12 {
			rows = append(rows, [3]uint32{binary.BigEndian.Uint32(body[i:]), binary.BigEndian.Uint32(body[i+4:]),
				binary.BigEndian.Uint32(body[i+8:])})
		}
	})
	if p != "" {
		return "panic"
	}
	return fmt.Sprint(rows)
}

// snapshot: every field (unexported ones included) of every table box of an stbl, as text.
func snapshot(s *mp4.StblBox) string {
	var sb strings.Builder
	if s.Stts != nil {
		fmt.Fprintf(&sb, "stts%+v", *s.Stts)
	}
	if s.Ctts != nil {
		fmt.Fprintf(&sb, "ctts%+v", *s.Ctts)
	}
	if s.Stsc != nil {
		fmt.Fprintf(&sb, "stsc%+v", *s.Stsc)
	}
	if s.Stsz != nil {
		fmt.Fprintf(&sb, "stsz%+v", *s.Stsz)
	}
	if s.Stco != nil {
		fmt.Fprintf(&sb, "stco%+v", *s.Stco)
	}
	if s.Co64 != nil {
		fmt.Fprintf(&sb, "co64%+v", *s.Co64)
	}
	if s.Stss != nil {
		fmt.Fprintf(&sb, "stss%+v", *s.Stss)
	}
	if s.Sdtp != nil {
		fmt.Fprintf(&sb, "sdtp%+v", *s.Sdtp)
	}
	return sb.String()
}

// ---------------------------------------------------------------- real files

func rawOfTrak(t *mp4.TrakBox) *tbl.Raw {
	s := t.Mdia.Minf.Stbl
	r := &tbl.Raw{StscMode: 'D', CttsMode: 'D'}
	r.SttsC, r.SttsD = s.Stts.SampleCount, s.Stts.SampleTimeDelta
	if s.Ctts != nil {
		r.HasCtts = true
		r.CttsVer = s.Ctts.Version
		for i := 0; i < s.Ctts.NrSampleCount(); i++ {
			r.CttsC = append(r.CttsC, s.Ctts.SampleCount(i))
			r.CttsO = append(r.CttsO, s.Ctts.SampleOffset[i])
		}
	}
	var buf bytes.Buffer
	_ = s.Stsc.Encode(&buf)
	body := buf.Bytes()[16:]
	for i := 0; i+12 <= len(body); i += 12 {
		rd := func(o int) uint32 {
			return uint32(body[o])<<24 | uint32(body[o+1])<<16 | uint32(body[o+2])<<8 | uint32(body[o+3])
		}
		r.Stsc = append(r.Stsc, [3]uint32{rd(i), rd(i + 4), rd(i + 8)})
	}
	r.Uniform, r.Number, r.Sizes = s.Stsz.SampleUniformSize, s.Stsz.SampleNumber, s.Stsz.SampleSize
	if s.Stco != nil {
		r.OffKind = 'S'
		for _, o := range s.Stco.ChunkOffset {
			r.Offs = append(r.Offs, uint64(o))
		}
	} else if s.Co64 != nil {
		r.OffKind = 'C'
		r.Offs = s.Co64.ChunkOffset
	}
	if s.Stss != nil {
		r.HasStss = true
		r.Stss = s.Stss.SampleNumber
	}
	if s.Sdtp != nil {
		r.HasSdtp = true
		for _, e := range s.Sdtp.Entries {
			r.Sdtp = append(r.Sdtp, byte(e))
		}
	}
	return r
}

// files: the tracks of real progressive files, queried through the boxes the library decoded itself.
func files(paths []string, doSearch bool) {
	rng := hx.NewRng(99)
	for _, p := range paths {
		data, err := os.ReadFile(p)
		if err != nil {
			continue
		}
		f, err := mp4.DecodeFile(bytes.NewReader(data))
		if err != nil || f.Moov == nil || f.IsFragmented() {
			continue
		}
		for ti, t := range f.Moov.Traks {
			r := rawOfTrak(t)
			x := tbl.Expand(r)
			bx := &boxes{stbl: t.Mdia.Minf.Stbl, trak: t}
			qs := queriesOf(rng, r, x, qopt{intervals: true, sampleData: true, outOfRange: !doSearch, maxAllPairs: 12})
			if doSearch {
				// pass 0: the boxes the library decoded from the file; pass 1: the same tables rebuilt through
				// the builder methods by a random history
				for pass := 0; pass < 2; pass++ {
					curPlan = "decode (the file's own boxes)"
					if pass == 1 {
						pl := genPlan(rng, r, false)
						curPlan = pl.Encode(r.HasCtts)
						stbl, _, err := buildPlan(r, pl)
						if err != nil {
							fail("table box decoders", "error-returned", r, "build", "err", "ok")
							continue
						}
						bx = &boxes{stbl: stbl, trak: tbl.Trak(stbl)}
					}
					for _, q := range qs {
						if q == "ce" || q == "fs" {
							continue
						}
						got, want := query(bx, q), expected(r, x, q)
						evals++
						if got != want {
							fail(siteOf[strings.Split(q, ":")[0]], classify(got, want), r, q, got, want)
						}
					}
				}
				continue
			}
			var sb strings.Builder
			sb.WriteString("build=ok")
			for _, q := range qs {
				sb.WriteString(" " + q + "=" + query(bx, q))
			}
			base := p[strings.LastIndex(p, "/")+1:]
			fmt.Fprintf(out, "T\tf-%s-%d\tV\t%s\t%s\t%s\n", base, ti, r.Encode(), decodedPlan(r).Encode(r.HasCtts), sb.String())
			// the same tables once more, REBUILT through the builder methods by a random history
			emitCase(fmt.Sprintf("fb-%s-%d", base, ti), "V", r, genPlan(rng, r, false), qs)
		}
	}
	if doSearch {
		fmt.Fprintf(out, "EVALS\t%d\n", evals)
	}
	out.Flush()
}

func main() {
	if len(os.Args) < 2 {
		fmt.Fprintln(os.Stderr, "usage: c09 corr|search|files|searchfiles ...")
		os.Exit(2)
	}
	fs := flag.NewFlagSet(os.Args[1], flag.ExitOnError)
	seed := fs.Uint64("seed", 0, "seed")
	n := fs.Int("n", 100, "number of tables")
	_ = fs.Parse(os.Args[2:])
	switch os.Args[1] {
	case "corr":
		corr(*seed, *n)
	case "search":
		search(*seed, *n)
	case "files":
		files(fs.Args(), false)
	case "searchfiles":
		files(fs.Args(), true)
	default:
		os.Exit(2)
	}
}
