// Case generation for the tagged test driver in /repo/examples/segmenter (c11_verif_test.go).
package main

import (
	"fmt"
	"strconv"
	"strings"

	"verifharness/hx"
)

type tbl struct {
	video  bool
	ts     uint32
	n      uint32
	stts   [][2]uint32
	stss   []uint32
	noStss bool
	ctts   [][2]int64 // count, offset
	noCtts bool
}

func (t tbl) String() string {
	k := "a"
	if t.video {
		k = "v"
	}
	stts := "-"
	if len(t.stts) > 0 {
		p := make([]string, len(t.stts))
		for i, e := range t.stts {
			p[i] = fmt.Sprintf("%d*%d", e[0], e[1])
		}
		stts = strings.Join(p, ".")
	}
	stss := "x"
	if !t.noStss {
		stss = "-"
		if len(t.stss) > 0 {
			p := make([]string, len(t.stss))
			for i, e := range t.stss {
				p[i] = strconv.FormatUint(uint64(e), 10)
			}
			stss = strings.Join(p, ".")
		}
	}
	ctts := "x"
	if !t.noCtts {
		ctts = "-"
		if len(t.ctts) > 0 {
			p := make([]string, len(t.ctts))
			for i, e := range t.ctts {
				p[i] = fmt.Sprintf("%d*%d", e[0], e[1])
			}
			ctts = strings.Join(p, ".")
		}
	}
	return fmt.Sprintf("%s,%d,%d,%s,%s,%s", k, t.ts, t.n, stts, stss, ctts)
}

// tablesOf is the run-length form the synthesizer writes for a track.
func tablesOf(t trackSpec) tbl {
	o := tbl{video: t.video, ts: t.timescale, n: uint32(len(t.samples)), noStss: !t.hasStss, noCtts: !t.hasCtts}
	for i, s := range t.samples {
		if k := len(o.stts); k > 0 && o.stts[k-1][1] == s.dur {
			o.stts[k-1][0]++
		} else {
			o.stts = append(o.stts, [2]uint32{1, s.dur})
		}
		if t.hasCtts {
			if k := len(o.ctts); k > 0 && o.ctts[k-1][1] == int64(s.cto) {
				o.ctts[k-1][0]++
			} else {
				o.ctts = append(o.ctts, [2]int64{1, int64(s.cto)})
			}
		}
		if t.hasStss && s.sync {
			o.stss = append(o.stss, uint32(i+1))
		}
	}
	return o
}

func emitCase(id *int, kind string, d uint32, ts []tbl) {
	p := make([]string, len(ts))
	for i, t := range ts {
		p[i] = t.String()
	}
	fmt.Fprintf(out, "S\t%s%d\t%d\t%s\n", kind, *id, d, strings.Join(p, ";"))
	*id++
}

// splitRuns makes the stts non-canonical: splits runs, inserts zero-count entries.
func splitRuns(r *hx.Rng, t *tbl) {
	var o [][2]uint32
	for _, e := range t.stts {
		if e[0] > 1 && r.Intn(3) == 0 {
			k := uint32(r.Range(1, int(e[0])-1))
			o = append(o, [2]uint32{k, e[1]}, [2]uint32{e[0] - k, e[1]})
		} else {
			o = append(o, e)
		}
		if r.Intn(8) == 0 {
			o = append(o, [2]uint32{0, uint32(r.Range(0, 50))})
		}
	}
	t.stts = o
}

func genMalformedTbl(r *hx.Rng, video bool) tbl {
	t := tbl{video: video}
	t.ts = uint32(r.Pick(0, 1, 25, 1000, 1000, 48000, 90000))
	ne := r.Range(0, 4)
	var total uint32
	for i := 0; i < ne; i++ {
		c := uint32(r.Pick(0, 1, 1, 2, 3, 7))
		d := uint32(r.Pick(0, 0, 1, 2, 40, 1024, 3000))
		t.stts = append(t.stts, [2]uint32{c, d})
		total += c
	}
	t.n = total
	switch r.Intn(5) {
	case 0:
		t.n = uint32(r.Range(0, int(total)+3))
	case 1:
		if total > 0 {
			t.n = total - 1
		}
	}
	switch r.Intn(6) {
	case 0:
		t.noStss = true
	case 1: // unsorted / out of range / zero
		k := r.Range(0, 4)
		for i := 0; i < k; i++ {
			t.stss = append(t.stss, uint32(r.Range(0, int(total)+2)))
		}
	default:
		for i := uint32(1); i <= total; i++ {
			if i == 1 && r.Intn(4) != 0 || r.Intn(3) == 0 {
				t.stss = append(t.stss, i)
			}
		}
	}
	switch r.Intn(3) {
	case 0:
		t.noCtts = true
	default:
		var acc uint32
		for acc < total+uint32(r.Intn(2)) && len(t.ctts) < 6 {
			c := uint32(r.Pick(0, 1, 1, 2, 5))
			t.ctts = append(t.ctts, [2]int64{int64(c), int64(r.Pick(-2000, -40, -1, 0, 0, 1, 40, 80, 3000))})
			acc += c
		}
		if r.Intn(6) == 0 && len(t.ctts) > 0 {
			t.ctts = t.ctts[:len(t.ctts)-1]
		}
	}
	return t
}

func genDriverCases(seed uint64, n int) {
	id := 0
	// 1. exhaustive small scope: one video track, timescale 1000, stts with one or two runs over
	//    counts {1,2,3} x deltas {0,1,3}, every sorted stss subset containing... (all subsets), d in {1,2,5}
	cd := [][2]uint32{}
	for _, c := range []uint32{1, 2, 3} {
		for _, d := range []uint32{0, 1, 3} {
			cd = append(cd, [2]uint32{c, d})
		}
	}
	var sttss [][][2]uint32
	for _, a := range cd {
		sttss = append(sttss, [][2]uint32{a})
	}
	for _, a := range cd {
		for _, b := range cd {
			sttss = append(sttss, [][2]uint32{a, b})
		}
	}
	for _, st := range sttss {
		var total uint32
		for _, e := range st {
			total += e[0]
		}
		for mask := 0; mask < 1<<total; mask++ {
			var stss []uint32
			for i := uint32(0); i < total; i++ {
				if mask&(1<<i) != 0 {
					stss = append(stss, i+1)
				}
			}
			for _, d := range []uint32{1, 2, 5} {
				emitCase(&id, "x", d, []tbl{{video: true, ts: 1000, n: total, stts: st, stss: stss, noCtts: true}})
			}
		}
	}
	// 2. structured, mostly valid: the tables of the files the search synthesizes
	r := hx.NewRng(seed ^ 0xc11)
	for i := 0; i < n; i++ {
		class := 0
		switch {
		case i%10 == 7:
			class = 2
		case i%10 == 9:
			class = 3
		}
		c := genSegCase(r, class)
		ts := make([]tbl, len(c.tracks))
		for k, t := range c.tracks {
			ts[k] = tablesOf(t)
			if r.Intn(3) == 0 {
				splitRuns(r, &ts[k])
			}
		}
		d := c.durMS
		if r.Intn(40) == 0 {
			d = uint32(r.Pick(0, 4294967295, 4294968, 2147483648))
		}
		emitCase(&id, "g", d, ts)
	}
	// 3. malformed stream
	rm := hx.NewRng(seed ^ 0xbad)
	for i := 0; i < n; i++ {
		var ts []tbl
		switch rm.Intn(8) {
		case 0:
			ts = []tbl{genMalformedTbl(rm, false)} // no video track
		case 1, 2:
			ts = []tbl{genMalformedTbl(rm, true), genMalformedTbl(rm, false)}
		case 3:
			ts = []tbl{genMalformedTbl(rm, false), genMalformedTbl(rm, true), genMalformedTbl(rm, true)}
		default:
			ts = []tbl{genMalformedTbl(rm, true)}
		}
		emitCase(&id, "m", uint32(rm.Pick(0, 1, 2, 40, 100, 1000, 5000, 4294967295)), ts)
	}
	// 4. the per-sample fetch (G lines, see fetchgen.go)
	genFetchCases(seed, n/3)
}
