// Harness for C11 (segmenting, resegmenting and multiplexing conserve every sample).
//
//	c11 gen    -seed S -n N                 : case lines for the tagged test driver in /repo/examples/segmenter
//	                                          (tables of a progressive file + target duration; the driver appends the
//	                                          observables of getSegmentStartsFromVideo / getSegmentIntervals)
//	c11 corr   -seed S -n N -reseg BIN -tmp DIR
//	                                        : cases + implementation observables for Resegment (built tool),
//	                                          MediaSegment.Fragmentify and combine-segs' multiplexing (library calls)
//	c11 search -seed S -n N -segmenter BIN -reseg BIN -combine BIN -tmp DIR
//	                                        : evaluates the property itself on the built tools and on Fragmentify
//	c11 one    -w WITNESS -segmenter BIN -reseg BIN -combine BIN -tmp DIR
//	                                        : re-runs one search case from its witness string
package main

import (
	"bufio"
	"flag"
	"fmt"
	"os"
)

var out = bufio.NewWriterSize(os.Stdout, 1<<20)

type tools struct {
	segmenter, reseg, combine, combdrv, tmp string
}

func main() {
	if len(os.Args) < 2 {
		fmt.Fprintln(os.Stderr, "usage: c11 gen|corr|search|one ...")
		os.Exit(2)
	}
	fs := flag.NewFlagSet(os.Args[1], flag.ExitOnError)
	seed := fs.Uint64("seed", 0, "seed")
	n := fs.Int("n", 100, "number of random cases")
	var t tools
	fs.StringVar(&t.segmenter, "segmenter", "", "built examples/segmenter")
	fs.StringVar(&t.reseg, "reseg", "", "built examples/resegmenter")
	fs.StringVar(&t.combine, "combine", "", "built examples/combine-segs")
	fs.StringVar(&t.combdrv, "combdrv", "", "tagged test binary of examples/combine-segs")
	fs.StringVar(&t.tmp, "tmp", "", "scratch directory")
	w := fs.String("w", "", "witness")
	_ = fs.Parse(os.Args[2:])
	defer out.Flush()
	switch os.Args[1] {
	case "gen":
		genDriverCases(*seed, *n)
	case "corr":
		corr(*seed, *n, t)
	case "search":
		search(*seed, *n, t)
	case "one":
		evals := 0
		runWitness(*w, t, &evals, true)
		fmt.Fprintf(out, "EVALS\t%d\n", evals)
	default:
		fmt.Fprintln(os.Stderr, "unknown sub-command")
		os.Exit(2)
	}
}

func fail(site, class, witness, desc string) {
	fmt.Fprintf(out, "FAIL\t%s\t%s\t%s\t%s\n", site, class, witness, desc)
}
