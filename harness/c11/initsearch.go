// Search oracles for the init segments the tools write, and for combine-segs outside its guard.
package main

import (
	"bytes"
	"fmt"
	"os"
	"path/filepath"
	"strconv"
	"strings"
	"time"

	"github.com/Eyevinn/mp4ff/mp4"
	"verifharness/hx"
)

func entryBytes(b mp4.Box) []byte {
	var buf bytes.Buffer
	if err := b.Encode(&buf); err != nil {
		return nil
	}
	return buf.Bytes()
}

// trackDescribed: "" when `out` describes track tid like the input trak (handler, media timescale, sample entries) and
// holds a trex for it (with the input trex's defaults when one is given); otherwise what differs.
// oneOf: the output carries exactly ONE sample entry, which must be one of the input's (segmenter).
func trackDescribed(out *mp4.InitSegment, tid uint32, in *mp4.TrakBox, inTrex *mp4.TrexBox, oneOf bool) string {
	if out == nil || out.Moov == nil {
		return "no moov"
	}
	var tk *mp4.TrakBox
	for _, t := range out.Moov.Traks {
		if t.Tkhd.TrackID == tid {
			tk = t
			break
		}
	}
	if tk == nil {
		return fmt.Sprintf("no trak with id %d", tid)
	}
	if tk.Mdia.Hdlr.HandlerType != in.Mdia.Hdlr.HandlerType {
		return fmt.Sprintf("handler %q, input %q", tk.Mdia.Hdlr.HandlerType, in.Mdia.Hdlr.HandlerType)
	}
	if tk.Mdia.Mdhd.Timescale != in.Mdia.Mdhd.Timescale {
		return fmt.Sprintf("timescale %d, input %d", tk.Mdia.Mdhd.Timescale, in.Mdia.Mdhd.Timescale)
	}
	oc, ic := tk.Mdia.Minf.Stbl.Stsd.Children, in.Mdia.Minf.Stbl.Stsd.Children
	if oneOf {
		if len(oc) != 1 {
			return fmt.Sprintf("%d sample entries in the output stsd (input %d)", len(oc), len(ic))
		}
		found := false
		for _, c := range ic {
			if bytes.Equal(entryBytes(c), entryBytes(oc[0])) {
				found = true
			}
		}
		if !found {
			return "the output's sample entry is none of the input's"
		}
	} else {
		if len(oc) != len(ic) {
			return fmt.Sprintf("%d sample entries, input %d", len(oc), len(ic))
		}
		for i := range oc {
			if !bytes.Equal(entryBytes(oc[i]), entryBytes(ic[i])) {
				return fmt.Sprintf("sample entry %d differs", i+1)
			}
		}
	}
	trex := trexFor(out, tid)
	if trex == nil {
		return fmt.Sprintf("no trex for track %d", tid)
	}
	if inTrex != nil && (trex.DefaultSampleDuration != inTrex.DefaultSampleDuration || trex.DefaultSampleSize != inTrex.DefaultSampleSize ||
		trex.DefaultSampleFlags != inTrex.DefaultSampleFlags || trex.DefaultSampleDescriptionIndex != inTrex.DefaultSampleDescriptionIndex) {
		return "trex defaults differ from the input's"
	}
	return ""
}

// ---------------------------------------------------------------- segmenter on inputs with other sample entries
func segInitCase(seed uint64, i int) (segCase, []byte, string, bool) {
	r := hx.NewRng(seed*1000003 + uint64(i)*7919 + 17)
	c := genSegCase(r, 0)
	c.mdatFirst = true
	c.cut = 0
	c.mode = []string{"single", "mux", "lazy", "muxlazy"}[i%4]
	data, err := buildProgressive(c.tracks, true)
	if err != nil {
		return c, nil, "", false
	}
	data, what := mutateEntries(data, r)
	return c, data, what, true
}

// checkSegInit: the tool either refuses the file or every init it writes describes its track (one sample entry of the
// input's) and the media segments conserve the samples (not re-checked here: runSegCase does that on avc1/mp4a inputs).
func checkSegInit(seed uint64, i int, t tools, evals *int) string {
	c, data, what, ok := segInitCase(seed, i)
	if !ok {
		return "synth-error"
	}
	*evals++
	w := fmt.Sprintf("seginit|seed=%d|i=%d", seed, i)
	fin, err := decodeBytes(data)
	if err != nil || fin.Moov == nil {
		return "synth-error"
	}
	dir := filepath.Join(t.tmp, "seginit")
	os.RemoveAll(dir)
	if err := os.MkdirAll(dir, 0o755); err != nil {
		panic(err)
	}
	defer os.RemoveAll(dir)
	_ = os.WriteFile(filepath.Join(dir, "in.mp4"), data, 0o644)
	args := []string{"-d", strconv.Itoa(int(c.durMS))}
	args = append(args, toolModeArgs(c.mode)...)
	args = append(args, "in.mp4", "o")
	_, stderr, rc, timedOut := runTool(t.segmenter, args, dir, 20*time.Second)
	switch toolClass(stderr, rc, timedOut) {
	case "timeout":
		fail("segmenter", "timeout", w, "tool did not finish in 20 s")
		return "timeout"
	case "panic":
		fail("segmenter", "panic", w, "entries "+what+": "+firstLine(stderr))
		return "panic"
	case "err":
		return "tool-error"
	}
	for ti, trak := range fin.Moov.Traks {
		tid := uint32(1)
		name := "o_a1_init.mp4"
		if trak.Mdia.Hdlr.HandlerType == "vide" {
			name = "o_v1_init.mp4"
		}
		if isMux(c.mode) {
			tid = uint32(ti + 1)
			name = "o_init.mp4"
		}
		fo, err := decodePath(filepath.Join(dir, name))
		if err != nil || fo.Init == nil {
			fail("segmenter", "unreadable-output", w, fmt.Sprintf("mode %s: init segment %s: %v", c.mode, name, err))
			return "unreadable"
		}
		if d := trackDescribed(fo.Init, tid, trak, nil, true); d != "" {
			class := "init-differs"
			if strings.Contains(d, "0 sample entries") {
				class = "init-without-sample-entry"
			}
			fail("segmenter", class, w, fmt.Sprintf("mode %s, entries %s: exit status 0 but %s: %s", c.mode, what, name, d))
			return class
		}
	}
	return "ok"
}

// ---------------------------------------------------------------- combine-segs outside the guard
// Inputs that RELY on trex defaults are outside the property's quantifier: nothing is claimed, the outcome is recorded
// (the Coq witness C11_combine_unguarded_refuted replayed on the built tool: "differs").  A crash is still a failure.
func checkCombineOutside(seed uint64, i int, t tools, evals *int) string {
	r := hx.NewRng(seed*1000003 + uint64(i)*104729 + 5)
	*evals++
	w := fmt.Sprintf("combx|seed=%d|i=%d", seed, i)
	var c combCase
	for j := 0; j < 2; j++ {
		fs := genFragSpec(r, 12)
		fs.video = j == 0
		// uniform stream so that duration / size / flags can all live in the trex
		for k := range fs.samples {
			fs.samples[k].dur = 40
			fs.samples[k].dts = fs.samples[0].dts + uint64(k)*40
		}
		in := combIn{fs: fs, lift: true}
		if err := buildCombIn(&in); err != nil {
			return "synth-error"
		}
		c.ins = append(c.ins, in)
	}
	dir := filepath.Join(t.tmp, "combx")
	os.RemoveAll(dir)
	defer os.RemoveAll(dir)
	var refs [2]string
	for j, name := range []string{"V300", "A48"} {
		d := filepath.Join(dir, "testdata", name)
		if err := os.MkdirAll(d, 0o755); err != nil {
			panic(err)
		}
		_ = os.WriteFile(filepath.Join(d, "init.mp4"), c.ins[j].initB, 0o644)
		_ = os.WriteFile(filepath.Join(d, "1.m4s"), c.ins[j].mediaB, 0o644)
		fi, err := decodeBytes(c.ins[j].initB)
		if err != nil || fi.Init == nil {
			return "synth-error"
		}
		refs[j] = refReading(c.ins[j].mediaB, fi.Init.Moov.Mvex.Trex)
	}
	_, stderr, rc, timedOut := runTool(t.combine, nil, dir, 20*time.Second)
	switch toolClass(stderr, rc, timedOut) {
	case "timeout":
		fail("combine-segs", "timeout", w, "tool did not finish in 20 s")
		return "timeout"
	case "panic":
		fail("combine-segs", "panic", w, "input relying on trex defaults: "+firstLine(stderr))
		return "panic"
	case "err":
		return "outside-guard:tool-error"
	}
	outInit, _ := os.ReadFile(filepath.Join(dir, "combined-init.mp4"))
	outMedia, _ := os.ReadFile(filepath.Join(dir, "combined-1.m4s"))
	per, _, _ := readOutput(outInit, outMedia, []uint32{1, 2})
	want := fmt.Sprintf("1=%s;2=%s", strings.TrimPrefix(refs[0], "ok:"), strings.TrimPrefix(refs[1], "ok:"))
	if per == want {
		return "outside-guard:conserved"
	}
	return "outside-guard:differs"
}

func runWitnessInit(w string, t tools, evals *int) bool {
	f := strings.Split(w, "|")
	if len(f) != 3 {
		return false
	}
	seed, err1 := strconv.ParseUint(strings.TrimPrefix(f[1], "seed="), 10, 64)
	i, err2 := strconv.Atoi(strings.TrimPrefix(f[2], "i="))
	if err1 != nil || err2 != nil {
		return false
	}
	switch f[0] {
	case "seginit":
		fmt.Fprintf(out, "OUTCOME\t%s\n", checkSegInit(seed, i, t, evals))
		return true
	case "combx":
		fmt.Fprintf(out, "OUTCOME\t%s\n", checkCombineOutside(seed, i, t, evals))
		return true
	}
	return false
}
