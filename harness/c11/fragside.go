// Fragmented side: resegmenter (built tool), MediaSegment.Fragmentify (library), combine-segs (built tool),
// Fragment.AddFullSampleToTrack interleavings and TrunBox.AddSampleDefaultValues (library).
package main

import (
	"bytes"
	"fmt"
	"os"
	"path/filepath"
	"sort"
	"strconv"
	"strings"
	"time"

	"github.com/Eyevinn/mp4ff/mp4"
	"verifharness/hx"
)

// ---------------------------------------------------------------- generator + witness strings
var flagChoicesSync = []uint32{0x02000000}
var flagChoicesNon = []uint32{0x00010000, 0x01010000, 0x00010000, 0x00000000, 0x02010000}

func genFragSpec(r *hx.Rng, maxN int) fragSpec {
	var fs fragSpec
	fs.video = r.Intn(4) != 0
	fs.timescale = uint32(r.Pick(1000, 12800, 90000, 48000, 25))
	fs.styp = true
	fs.defaults = r.Pick(0, 0, 1, 2, 2, 3, 3) // 3: common values lifted to the trex of the init segment
	fs.baseMode = r.Pick(0, 0, 0, 1, 2, 3)
	fs.elst = r.Intn(6) == 0
	fs.trackID = uint32(r.Pick(1, 1, 1, 2, 7))
	n := r.Range(1, maxN)
	base := uint32(r.Pick(1, 2, 40, 512, 1024, 3000, 1001))
	varDur := r.Intn(3) == 0
	gop := r.Pick(1, 2, 3, 4, 6, 12, 0)
	ctoMode := r.Intn(4)
	dts := uint64(0)
	if r.Intn(3) == 0 {
		dts = uint64(r.Range(0, 100000))
	}
	since := 0
	for i := 0; i < n; i++ {
		var s flat
		s.dts = dts
		s.dur = base
		if varDur {
			s.dur = uint32(r.Range(0, 3)) * base
		}
		sync := false
		switch {
		case !fs.video:
			sync = true
		case i == 0:
			sync = r.Intn(8) != 0
		case gop == 0:
			sync = r.Intn(4) == 0
		default:
			sync = since >= gop
		}
		if sync {
			since = 1
			s.flags = flagChoicesSync[0]
		} else {
			since++
			s.flags = flagChoicesNon[r.Intn(len(flagChoicesNon))]
		}
		switch ctoMode {
		case 2:
			s.cto = int32(base) * int32(r.Pick(0, 1, 2, 3))
		case 3:
			s.cto = int32(base) * int32(r.Pick(-3, -1, 0, 1, 2))
		}
		s.data = sampleBytes(int(fs.trackID), i+1, uint32(r.Range(1, 24)))
		if r.Intn(15) == 0 {
			s.data = []byte{}
		}
		fs.samples = append(fs.samples, s)
		dts += uint64(s.dur)
	}
	fs.segLens = genSegLens(r, n)
	// uniform stream: equal durations, sizes and (except the first) flags, so that everything can live in
	// tfhd defaults / first-sample-flags
	if r.Intn(5) == 0 {
		for i := range fs.samples {
			fs.samples[i].dur = base
			fs.samples[i].dts = fs.samples[0].dts + uint64(i)*uint64(base)
			fs.samples[i].data = sampleBytes(int(fs.trackID), i+1, 9)
			if i > 0 {
				fs.samples[i].flags = 0x00010000
			}
		}
	}
	// several truns per traf in about half of the inputs
	if r.Intn(2) == 0 {
		for _, fl := range fs.segLens {
			for _, c := range fl {
				fs.trunLens = append(fs.trunLens, splitCount(r, c))
			}
		}
	}
	return fs
}

// splitCount cuts c samples into 1-4 truns (each with at least one sample).
func splitCount(r *hx.Rng, c int) []int {
	if c <= 1 || r.Intn(4) == 0 {
		return []int{c}
	}
	k := r.Range(2, 4)
	if k > c {
		k = c
	}
	out := make([]int, k)
	for i := range out {
		out[i] = 1
	}
	for left := c - k; left > 0; left-- {
		out[r.Intn(k)]++
	}
	return out
}

// addGap shifts the decode times of everything from some fragment boundary on: a timeline discontinuity
// between two input fragments (tfdt of the later fragment is larger than the end of the earlier one).
func addGap(r *hx.Rng, fs *fragSpec) bool {
	var bounds []int
	k := 0
	for _, fl := range fs.segLens {
		for _, c := range fl {
			k += c
			if k < len(fs.samples) {
				bounds = append(bounds, k)
			}
		}
	}
	if len(bounds) == 0 {
		return false
	}
	at := bounds[r.Intn(len(bounds))]
	delta := uint64(r.Pick(1, 40, 1000, 90000))
	for i := at; i < len(fs.samples); i++ {
		fs.samples[i].dts += delta
	}
	return true
}

func contiguousFlat(ss []flat) bool {
	for i := 1; i < len(ss); i++ {
		if ss[i].dts != ss[i-1].dts+uint64(ss[i-1].dur) {
			return false
		}
	}
	return true
}

// equalButDts: same samples in the same order, decode times ignored.
func equalButDts(a, b []flat) bool {
	if len(a) != len(b) {
		return false
	}
	for i := range a {
		x, y := a[i], b[i]
		x.dts, y.dts = 0, 0
		if !x.eq(y) {
			return false
		}
	}
	return true
}

// genSegLens partitions n samples into segments of 1-3 fragments.
func genSegLens(r *hx.Rng, n int) [][]int {
	var out [][]int
	left := n
	for left > 0 {
		nf := r.Range(1, 3)
		var fl []int
		for k := 0; k < nf && left > 0; k++ {
			c := r.Range(1, 9)
			if c > left {
				c = left
			}
			fl = append(fl, c)
			left -= c
		}
		out = append(out, fl)
	}
	return out
}

func fragWitness(fs fragSpec) string {
	var sl []string
	fi := 0
	for _, fl := range fs.segLens {
		p := make([]string, len(fl))
		for i, x := range fl {
			p[i] = strconv.Itoa(x)
			if fi < len(fs.trunLens) && len(fs.trunLens[fi]) > 1 {
				q := make([]string, len(fs.trunLens[fi]))
				for j, y := range fs.trunLens[fi] {
					q[j] = strconv.Itoa(y)
				}
				p[i] = strings.Join(q, "+")
			}
			fi++
		}
		sl = append(sl, strings.Join(p, "."))
	}
	ss := make([]string, len(fs.samples))
	for i, s := range fs.samples {
		ss[i] = fmt.Sprintf("%d:%d:%d:%x:%d", s.dts, s.dur, s.cto, s.flags, len(s.data))
	}
	return fmt.Sprintf("v=%d,ts=%d,styp=%d,opt=%d,base=%d,extra=%d,elst=%d,noinit=%d,tid=%d,segs=%s,samples=%s", b2i(fs.video), fs.timescale,
		b2i(fs.styp), fs.defaults, fs.baseMode, fs.extra, b2i(fs.elst), b2i(fs.noInit), fs.trackID, strings.Join(sl, "/"), strings.Join(ss, "/"))
}

func parseFragWitness(w string) (fragSpec, error) {
	var fs fragSpec
	for _, kv := range strings.Split(w, ",") {
		i := strings.IndexByte(kv, '=')
		if i < 0 {
			return fs, fmt.Errorf("bad field %q", kv)
		}
		k, v := kv[:i], kv[i+1:]
		switch k {
		case "v":
			fs.video = v == "1"
		case "ts":
			x, _ := strconv.ParseUint(v, 10, 32)
			fs.timescale = uint32(x)
		case "styp":
			fs.styp = v == "1"
		case "opt":
			fs.defaults, _ = strconv.Atoi(v)
		case "base":
			fs.baseMode, _ = strconv.Atoi(v)
		case "extra":
			fs.extra, _ = strconv.Atoi(v)
		case "elst":
			fs.elst = v == "1"
		case "noinit":
			fs.noInit = v == "1"
		case "tid":
			x, _ := strconv.ParseUint(v, 10, 32)
			fs.trackID = uint32(x)
		case "segs":
			for _, sg := range strings.Split(v, "/") {
				var fl []int
				for _, x := range strings.Split(sg, ".") {
					var tl []int
					c := 0
					for _, y := range strings.Split(x, "+") {
						v, _ := strconv.Atoi(y)
						tl = append(tl, v)
						c += v
					}
					fl = append(fl, c)
					fs.trunLens = append(fs.trunLens, tl)
				}
				fs.segLens = append(fs.segLens, fl)
			}
		case "samples":
			for i, x := range strings.Split(v, "/") {
				g := strings.Split(x, ":")
				if len(g) != 5 {
					return fs, fmt.Errorf("bad sample %q", x)
				}
				var s flat
				s.dts, _ = strconv.ParseUint(g[0], 10, 64)
				d, _ := strconv.ParseUint(g[1], 10, 32)
				s.dur = uint32(d)
				c, _ := strconv.ParseInt(g[2], 10, 32)
				s.cto = int32(c)
				f, _ := strconv.ParseUint(g[3], 16, 32)
				s.flags = uint32(f)
				z, _ := strconv.Atoi(g[4])
				s.data = sampleBytes(int(fs.trackID), i+1, uint32(z))
				fs.samples = append(fs.samples, s)
			}
		}
	}
	return fs, nil
}

// modelSamples: dts:dur:cto:flags per sample (decimal), the model's view of a sample list.
func modelSamples(ss []flat) string {
	if len(ss) == 0 {
		return "-"
	}
	p := make([]string, len(ss))
	for i, s := range ss {
		p[i] = fmt.Sprintf("%d:%d:%d:%d", s.dts, s.dur, s.cto, s.flags)
	}
	return strings.Join(p, "/")
}

func countsString(segs [][]flat) string {
	if len(segs) == 0 {
		return "-"
	}
	p := make([]string, len(segs))
	for i, s := range segs {
		p[i] = strconv.Itoa(len(s))
	}
	return strings.Join(p, ",")
}

func isSyncFlags(f uint32) bool { return f&0x00010000 == 0 && (f>>24)&3 == 2 }

func presTime(s flat) uint64 {
	p := int64(s.dts) + int64(s.cto)
	if p < 0 {
		p = 0
	}
	return uint64(p)
}

// inputAsRead decodes the synthesized input with the library and returns its per-segment samples.
func inputAsRead(data []byte, trackID uint32) ([][]flat, *mp4.File, error) {
	f, err := decodeBytes(data)
	if err != nil {
		return nil, nil, err
	}
	var trex *mp4.TrexBox
	if f.Init != nil {
		trex = trexFor(f.Init, trackID)
	}
	segs, err := segmentSamples(f, trex, trackID)
	return segs, f, err
}

func flatten(segs [][]flat) []flat {
	var out []flat
	for _, s := range segs {
		out = append(out, s...)
	}
	return out
}

// ---------------------------------------------------------------- resegmenter (built tool)
type resegResult struct {
	class string // ok | err | panic | timeout | unreadable
	segs  [][]flat
	input []flat
	msg   string
}

func runReseg(fs fragSpec, d uint64, t tools) resegResult {
	data, err := encodeFragmented(fs, !fs.noInit)
	if err != nil {
		return resegResult{class: "synth-error", msg: err.Error()}
	}
	tid := fs.trackID
	if tid == 0 {
		tid = 1
	}
	inSegs, _, err := inputAsRead(data, tid)
	if err != nil {
		return resegResult{class: "synth-error", msg: err.Error()}
	}
	input := flatten(inSegs)
	dir := filepath.Join(t.tmp, "reseg")
	os.RemoveAll(dir)
	if err := os.MkdirAll(dir, 0o755); err != nil {
		panic(err)
	}
	defer os.RemoveAll(dir)
	if err := os.WriteFile(filepath.Join(dir, "in.mp4"), data, 0o644); err != nil {
		panic(err)
	}
	_, stderr, rc, timedOut := runTool(t.reseg, []string{"-d", strconv.FormatUint(d, 10), "in.mp4", "out.mp4"}, dir, 20*time.Second)
	if timedOut {
		return resegResult{class: "timeout", input: input}
	}
	if rc != 0 {
		if strings.Contains(stderr, "panic:") || strings.Contains(stderr, "fatal error:") {
			return resegResult{class: "panic", input: input, msg: firstLine(stderr)}
		}
		return resegResult{class: "err", input: input, msg: firstLine(stderr)}
	}
	of, err := decodePath(filepath.Join(dir, "out.mp4"))
	if err != nil {
		return resegResult{class: "unreadable", input: input, msg: err.Error()}
	}
	var trex *mp4.TrexBox
	if of.Init != nil {
		trex = trexFor(of.Init, tid)
	}
	// the init segment is passed through: the output must describe every input track as the input did
	if fin, err := decodeBytes(data); err == nil {
		if (fin.Init == nil) != (of.Init == nil) {
			return resegResult{class: "init-differs", input: input, msg: "init segment present in only one of input / output"}
		}
		if fin.Init != nil {
			for _, trak := range fin.Init.Moov.Traks {
				if d := trackDescribed(of.Init, trak.Tkhd.TrackID, trak, trexFor(fin.Init, trak.Tkhd.TrackID), false); d != "" {
					return resegResult{class: "init-differs", input: input, msg: d}
				}
			}
		}
	}
	segs, err := segmentSamples(of, trex, tid)
	if err != nil {
		return resegResult{class: "unreadable", input: input, msg: err.Error()}
	}
	if !fs.styp {
		// without styp boxes the reader cannot delimit the output segments: every output segment is
		// one moof+mdat, so take the fragments as the segments
		segs = nil
		for _, seg := range of.Segments {
			for _, frag := range seg.Fragments {
				ss, err := fragSamples(frag, trex, tid)
				if err != nil {
					return resegResult{class: "unreadable", input: input, msg: err.Error()}
				}
				segs = append(segs, ss)
			}
		}
	}
	return resegResult{class: "ok", segs: segs, input: input}
}

func genResegD(r *hx.Rng, fs fragSpec) uint64 {
	var tot uint64
	for _, s := range fs.samples {
		tot += uint64(s.dur)
	}
	// keep nrSamples*dur0/d small: the tool pre-allocates that many box slots
	lo := uint64(len(fs.samples))*uint64(fs.samples[0].dur)/200000 + 1
	var d uint64
	switch r.Intn(6) {
	case 0:
		d = 1
	case 1:
		d = tot/4 + 1
	case 2:
		d = tot/2 + 1
	case 3:
		d = tot + uint64(r.Range(0, 100000))
	case 4:
		d = uint64(fs.samples[0].dur) * uint64(r.Range(1, 6))
	default:
		d = uint64(r.Range(1, int(tot%1000000)+2))
	}
	if d < lo {
		d = lo
	}
	return d
}

func resegWitness(fs fragSpec, d uint64) string {
	return fmt.Sprintf("reseg|d=%d|%s", d, fragWitness(fs))
}

func checkReseg(fs fragSpec, d uint64, t tools, evals *int) string {
	*evals++
	w := resegWitness(fs, d)
	res := runReseg(fs, d, t)
	switch res.class {
	case "synth-error":
		fail("harness", "synth-error", w, res.msg)
		return res.class
	case "timeout":
		fail("resegmenter", "timeout", w, "tool did not finish in 20 s")
		return res.class
	case "panic":
		class := "panic"
		if !fs.styp {
			class = "panic-input-without-styp"
		}
		fail("resegmenter", class, w, "tool crashed: "+res.msg)
		return class
	case "err":
		return "tool-error"
	case "unreadable":
		fail("resegmenter", "unreadable-output", w, res.msg)
		return res.class
	case "init-differs":
		fail("resegmenter", "init-differs", w, res.msg)
		return res.class
	}
	got := flatten(res.segs)
	if dd := diffFlat(got, res.input); dd != "" {
		class := "samples-differ"
		if len(got) < len(res.input) && diffFlat(got, res.input[:len(got)]) == "" {
			class = "samples-dropped-at-end"
		}
		if !contiguousFlat(res.input) && equalButDts(got, res.input) {
			class = "decode-time-gap-closed" // recorded finding: input timeline discontinuity inside one output segment
		}
		fail("resegmenter", class, w, dd)
		return class
	}
	for k, seg := range res.segs {
		if k == 0 {
			continue
		}
		if len(seg) == 0 {
			fail("resegmenter", "empty-segment", w, fmt.Sprintf("segment %d is empty", k+1))
			return "empty-segment"
		}
		if !isSyncFlags(seg[0].flags) {
			fail("resegmenter", "segment-starts-non-sync", w, fmt.Sprintf("segment %d starts with %v", k+1, seg[0]))
			return "segment-starts-non-sync"
		}
		// seq of the segment before this one is k (1-based); compare without overflow
		hi, lo := mul64(d, uint64(k))
		if hi != 0 || presTime(seg[0]) < lo {
			fail("resegmenter", "segment-start-before-boundary", w,
				fmt.Sprintf("segment %d starts at pts %d < %d*%d", k+1, presTime(seg[0]), d, k))
			return "segment-start-before-boundary"
		}
	}
	return "ok"
}

func mul64(a, b uint64) (hi, lo uint64) {
	const mask = 1<<32 - 1
	a0, a1 := a&mask, a>>32
	b0, b1 := b&mask, b>>32
	w0 := a0 * b0
	t := a1*b0 + w0>>32
	w1 := t & mask
	w2 := t >> 32
	w1 += a0 * b1
	hi = a1*b1 + w2 + w1>>32
	lo = a * b
	return
}

// ---------------------------------------------------------------- Fragmentify (library)
type fragyResult struct {
	class string // ok | err | panic
	in    [][]flat
	out   [][]flat
	msg   string
}

func runFragmentify(fs fragSpec, duration uint32) (res fragyResult) {
	one := fs
	// Fragmentify works on ONE media segment: put all fragments into a single segment
	var all []int
	for _, fl := range fs.segLens {
		all = append(all, fl...)
	}
	one.segLens = [][]int{all}
	one.noInit = false
	data, err := encodeFragmented(one, true)
	if err != nil {
		return fragyResult{class: "synth-error", msg: err.Error()}
	}
	tid := fs.trackID
	if tid == 0 {
		tid = 1
	}
	f, err := decodeBytes(data)
	if err != nil || len(f.Segments) != 1 {
		return fragyResult{class: "synth-error", msg: fmt.Sprint("decode: ", err)}
	}
	trex := trexFor(f.Init, tid)
	seg := f.Segments[0]
	for _, fr := range seg.Fragments {
		ss, err := fragSamples(fr, trex, tid)
		if err != nil {
			return fragyResult{class: "synth-error", msg: err.Error()}
		}
		res.in = append(res.in, ss)
	}
	var outFrags []*mp4.Fragment
	p := hx.Try(func() {
		outFrags, err = seg.Fragmentify(uint64(fs.timescale), trex, duration)
	})
	if p != "" {
		res.class, res.msg = "panic", p
		return res
	}
	if err != nil {
		res.class, res.msg = "err", err.Error()
		return res
	}
	// encode every output fragment and read it back: what a consumer of the fragments sees
	for _, of := range outFrags {
		var buf bytes.Buffer
		if err := of.Encode(&buf); err != nil {
			res.class, res.msg = "unreadable", "encode: "+err.Error()
			return res
		}
		g, err := decodeBytes(buf.Bytes())
		if err != nil || len(g.Segments) != 1 || len(g.Segments[0].Fragments) != 1 {
			res.class, res.msg = "unreadable", fmt.Sprint("decode of output fragment: ", err)
			return res
		}
		ss, err := fragSamples(g.Segments[0].Fragments[0], trex, tid)
		if err != nil {
			res.class, res.msg = "unreadable", err.Error()
			return res
		}
		res.out = append(res.out, ss)
	}
	res.class = "ok"
	return res
}

func checkFragmentify(fs fragSpec, duration uint32, evals *int) string {
	*evals++
	w := fmt.Sprintf("fragy|d=%d|%s", duration, fragWitness(fs))
	res := runFragmentify(fs, duration)
	switch res.class {
	case "synth-error":
		fail("harness", "synth-error", w, res.msg)
		return res.class
	case "panic", "err", "unreadable":
		fail("Fragmentify", res.class, w, res.msg)
		return res.class
	}
	if dd := diffFlat(flatten(res.out), flatten(res.in)); dd != "" {
		class := "samples-differ"
		if !contiguousFlat(flatten(res.in)) && equalButDts(flatten(res.out), flatten(res.in)) {
			class = "decode-time-gap-closed"
		}
		fail("Fragmentify", class, w, dd)
		return class
	}
	for k, o := range res.out {
		if len(o) == 0 {
			fail("Fragmentify", "empty-fragment", w, fmt.Sprintf("output fragment %d is empty", k+1))
			return "empty-fragment"
		}
	}
	return "ok"
}

// ---------------------------------------------------------------- combine-segs (built tool)
type combResult struct {
	class  string
	inputs [2][]flat
	got    [2][]flat
	layout string
	msg    string
}

func runCombine(v, a fragSpec, t tools) (res combResult) {
	var inInits [2]*mp4.InitSegment
	dir := filepath.Join(t.tmp, "comb")
	os.RemoveAll(dir)
	defer os.RemoveAll(dir)
	for i, p := range []struct {
		name string
		fs   fragSpec
	}{{"V300", v}, {"A48", a}} {
		d := filepath.Join(dir, "testdata", p.name)
		if err := os.MkdirAll(d, 0o755); err != nil {
			panic(err)
		}
		one := p.fs
		one.segLens = [][]int{{len(p.fs.samples)}}
		one.extra = 0 // the tool insists on exactly one traf per input fragment
		one.trunLens = nil
		if len(p.fs.trunLens) > 0 && len(p.fs.samples) > 0 {
			one.trunLens = [][]int{regroup(p.fs.trunLens, len(p.fs.samples))}
		}
		init, err := buildInit(one)
		if err != nil {
			return combResult{class: "synth-error", msg: err.Error()}
		}
		var ib, mb bytes.Buffer
		if err := init.Encode(&ib); err != nil {
			return combResult{class: "synth-error", msg: err.Error()}
		}
		segs, err := buildSegments(one, nil)
		if err != nil || len(segs) != 1 {
			return combResult{class: "synth-error", msg: fmt.Sprint(err)}
		}
		if err := encodeSegments(&mb, segs, 0, one); err != nil {
			return combResult{class: "synth-error", msg: err.Error()}
		}
		_ = os.WriteFile(filepath.Join(d, "init.mp4"), ib.Bytes(), 0o644)
		_ = os.WriteFile(filepath.Join(d, "1.m4s"), mb.Bytes(), 0o644)
		tid := one.trackID
		if tid == 0 {
			tid = 1
		}
		// the input as a reader WITH the init segment sees it (the media file is decoded on its own:
		// absolute base-data-offsets refer to positions in 1.m4s)
		fi, err := decodeBytes(ib.Bytes())
		if err != nil || fi.Init == nil {
			return combResult{class: "synth-error", msg: fmt.Sprint("init: ", err)}
		}
		fm, err := decodeBytes(mb.Bytes())
		if err != nil {
			return combResult{class: "synth-error", msg: err.Error()}
		}
		inSegs, err := segmentSamples(fm, trexFor(fi.Init, tid), tid)
		if err != nil {
			return combResult{class: "synth-error", msg: err.Error()}
		}
		res.inputs[i] = flatten(inSegs)
		inInits[i] = fi.Init
	}
	_, stderr, rc, timedOut := runTool(t.combine, nil, dir, 20*time.Second)
	if timedOut {
		res.class = "timeout"
		return res
	}
	if rc != 0 {
		if strings.Contains(stderr, "panic:") || strings.Contains(stderr, "fatal error:") {
			res.class, res.msg = "panic", firstLine(stderr)
			return res
		}
		res.class, res.msg = "err", firstLine(stderr)
		return res
	}
	ib, err1 := os.ReadFile(filepath.Join(dir, "combined-init.mp4"))
	mb, err2 := os.ReadFile(filepath.Join(dir, "combined-1.m4s"))
	if err1 != nil || err2 != nil {
		res.class, res.msg = "unreadable", fmt.Sprint(err1, err2)
		return res
	}
	f, err := decodeBytes(append(append([]byte{}, ib...), mb...))
	if err != nil || f.Init == nil || len(f.Segments) != 1 || len(f.Segments[0].Fragments) != 1 {
		res.class, res.msg = "unreadable", fmt.Sprint("combined output: ", err)
		return res
	}
	frag := f.Segments[0].Fragments[0]
	for i := 0; i < 2; i++ {
		tid := uint32(i + 1)
		trex := trexFor(f.Init, tid)
		if trex == nil {
			res.class, res.msg = "unreadable", fmt.Sprintf("no trex for track %d in combined init", tid)
			return res
		}
		if d := trackDescribed(f.Init, tid, inInits[i].Moov.Trak, inInits[i].Moov.Mvex.Trex, false); d != "" {
			res.class, res.msg = "init-differs", fmt.Sprintf("combined init, track %d: %s", tid, d)
			return res
		}
		ss, err := fragSamples(frag, trex, tid)
		if err != nil {
			res.class, res.msg = "unreadable", err.Error()
			return res
		}
		res.got[i] = ss
	}
	res.layout = layoutOf(frag)
	res.class = "ok"
	return res
}

// layoutOf: truns in moof order as trackID:rank:count, rank = position in data-offset (write) order.
func layoutOf(frag *mp4.Fragment) string {
	type tr struct {
		tid   uint32
		off   int32
		count int
		idx   int
	}
	var all []tr
	for _, traf := range frag.Moof.Trafs {
		for _, trun := range traf.Truns {
			all = append(all, tr{traf.Tfhd.TrackID, trun.DataOffset, len(trun.Samples), len(all)})
		}
	}
	byOff := make([]tr, len(all))
	copy(byOff, all)
	sort.SliceStable(byOff, func(i, j int) bool { return byOff[i].off < byOff[j].off })
	rank := make([]int, len(all))
	for r, x := range byOff {
		rank[x.idx] = r
	}
	if len(all) == 0 {
		return "-"
	}
	p := make([]string, len(all))
	for i, x := range all {
		p[i] = fmt.Sprintf("%d:%d:%d", x.tid, rank[i], x.count)
	}
	return strings.Join(p, ",")
}

func checkCombine(v, a fragSpec, t tools, evals *int) string {
	*evals++
	w := fmt.Sprintf("comb|%s|%s", fragWitness(v), fragWitness(a))
	res := runCombine(v, a, t)
	switch res.class {
	case "synth-error":
		fail("harness", "synth-error", w, res.msg)
		return res.class
	case "timeout", "panic", "err", "unreadable", "init-differs":
		fail("combine-segs", res.class, w, res.msg)
		return res.class
	}
	for i := 0; i < 2; i++ {
		if dd := diffFlat(res.got[i], res.inputs[i]); dd != "" {
			fail("combine-segs", "samples-differ", w, fmt.Sprintf("track %d: %s", i+1, dd))
			return "samples-differ"
		}
	}
	return "ok"
}

// regroup turns the per-fragment trun sizes of a spec into the trun sizes of ONE fragment holding all n
// samples (used where a tool wants exactly one fragment per input).
func regroup(trunLens [][]int, n int) []int {
	var out []int
	left := n
	for _, tl := range trunLens {
		for _, c := range tl {
			if c > left {
				c = left
			}
			if c > 0 {
				out = append(out, c)
				left -= c
			}
		}
	}
	if left > 0 {
		out = append(out, left)
	}
	if len(out) > 6 { // keep the number of truns small: merge the tail
		tail := 0
		for _, c := range out[5:] {
			tail += c
		}
		out = append(out[:5], tail)
	}
	return out
}

// structureOf writes the input as the tool collects it: fragments '|', truns ';', samples '/'.
func structureOf(fs fragSpec, input []flat) string {
	var frs []string
	k, fi := 0, 0
	for _, fl := range fs.segLens {
		for _, n := range fl {
			truns := []int{n}
			if fi < len(fs.trunLens) && len(fs.trunLens[fi]) > 0 {
				truns = fs.trunLens[fi]
			}
			fi++
			var ts []string
			for _, tn := range truns {
				if k+tn > len(input) {
					tn = len(input) - k
				}
				ts = append(ts, modelSamples(input[k:k+tn]))
				k += tn
			}
			frs = append(frs, strings.Join(ts, ";"))
		}
	}
	return strings.Join(frs, "|")
}
