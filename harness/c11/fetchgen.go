// Case generation for the per-sample fetch of the segmenter (G lines; answered by
// /repo/examples/segmenter/c11fetch_verif_test.go, recomputed by coq/c11/C11FetchModel.v).
package main

import (
	"fmt"
	"strconv"
	"strings"

	"verifharness/hx"
)

type fetchTables struct {
	sttsC, sttsD []uint32
	hasCtts      bool
	cttsEnd      []uint32
	cttsOff      []int32
	stsc         [][3]uint32 // first chunk, samples per chunk, first sample
	uniform      uint32
	number       uint32
	sizes        []uint32
	stco         []uint64
	co64         []uint64
	offKind      string // N S C B
	hasStss      bool
	stss         []uint32
	hasSdtp      bool
	sdtp         []uint32
	mstart, mlen uint64
	file         []byte
	n            uint32
}

func u32csv(xs []uint32) string {
	if len(xs) == 0 {
		return "-"
	}
	p := make([]string, len(xs))
	for i, x := range xs {
		p[i] = strconv.FormatUint(uint64(x), 10)
	}
	return strings.Join(p, ",")
}

func u64csv(xs []uint64) string {
	if len(xs) == 0 {
		return "-"
	}
	p := make([]string, len(xs))
	for i, x := range xs {
		p[i] = strconv.FormatUint(x, 10)
	}
	return strings.Join(p, ",")
}

func (t *fetchTables) fields() string {
	ctts := "N"
	if t.hasCtts {
		offs := "-"
		if len(t.cttsOff) > 0 {
			p := make([]string, len(t.cttsOff))
			for i, x := range t.cttsOff {
				p[i] = strconv.FormatInt(int64(x), 10)
			}
			offs = strings.Join(p, ",")
		}
		ctts = u32csv(t.cttsEnd) + ";" + offs
	}
	stsc := "-"
	if len(t.stsc) > 0 {
		p := make([]string, len(t.stsc))
		for i, e := range t.stsc {
			p[i] = fmt.Sprintf("%d:%d:%d", e[0], e[1], e[2])
		}
		stsc = strings.Join(p, ",")
	}
	offs := "N"
	switch t.offKind {
	case "S":
		offs = "S;" + u64csv(t.stco)
	case "C":
		offs = "C;" + u64csv(t.co64)
	case "B":
		offs = "B;" + u64csv(t.stco) + ";" + u64csv(t.co64)
	}
	stss := "N"
	if t.hasStss {
		stss = "Y;" + u32csv(t.stss)
	}
	sdtp := "N"
	if t.hasSdtp {
		sdtp = "Y;" + u32csv(t.sdtp)
	}
	fh := "-"
	if len(t.file) > 0 {
		fh = hx.Hex(t.file)
	}
	return fmt.Sprintf("%s;%s\t%s\t%s\t%d;%d;%s\t%s\t%s\t%s\t%d\t%d\t%s",
		u32csv(t.sttsC), u32csv(t.sttsD), ctts, stsc, t.uniform, t.number, u32csv(t.sizes), offs, stss, sdtp,
		t.mstart, t.mlen, fh)
}

// genFetchTables makes tables that satisfy C09's `consistent` and C11Spec's `data_ok`.
func genFetchTables(r *hx.Rng) *fetchTables {
	t := &fetchTables{}
	n := r.Range(1, 14)
	t.n = uint32(n)
	// stts: runs
	for left := n; left > 0; {
		c := r.Range(1, left)
		if r.Intn(3) == 0 {
			c = 1
		}
		t.sttsC = append(t.sttsC, uint32(c))
		t.sttsD = append(t.sttsD, uint32(r.Pick(0, 1, 10, 40, 1024, 3000, 90000)))
		left -= c
	}
	if r.Intn(5) == 0 { // zero-count entry
		k := r.Intn(len(t.sttsC) + 1)
		t.sttsC = append(t.sttsC[:k], append([]uint32{0}, t.sttsC[k:]...)...)
		t.sttsD = append(t.sttsD[:k], append([]uint32{7}, t.sttsD[k:]...)...)
	}
	// ctts
	if r.Intn(3) != 0 {
		t.hasCtts = true
		t.cttsEnd = []uint32{0}
		for acc := 0; acc < n; {
			c := r.Range(1, n-acc)
			if r.Intn(2) == 0 {
				c = 1
			}
			if r.Intn(7) == 0 {
				c = 0
			}
			acc += c
			t.cttsEnd = append(t.cttsEnd, uint32(acc))
			t.cttsOff = append(t.cttsOff, int32(r.Pick(-2000, -40, 0, 0, 40, 80, 3000)))
		}
	}
	// sizes
	sizes := make([]uint32, n)
	if r.Intn(4) == 0 {
		t.uniform = uint32(r.Range(1, 4))
		t.number = uint32(n)
		for i := range sizes {
			sizes[i] = t.uniform
		}
	} else {
		for i := range sizes {
			sizes[i] = uint32(r.Pick(0, 1, 1, 2, 3, 5))
		}
		t.sizes = sizes
		t.number = uint32(n)
	}
	// chunks
	var chunkCounts []int
	for left := n; left > 0; {
		c := r.Range(1, left)
		if r.Intn(2) == 0 && left >= 2 {
			c = r.Range(1, 2)
		}
		if k := len(chunkCounts); k > 0 && r.Intn(2) == 0 && chunkCounts[k-1] <= left {
			c = chunkCounts[k-1]
		}
		chunkCounts = append(chunkCounts, c)
		left -= c
	}
	first := uint32(1)
	for i, c := range chunkCounts {
		if k := len(t.stsc); k == 0 || t.stsc[k-1][1] != uint32(c) || r.Intn(6) == 0 {
			t.stsc = append(t.stsc, [3]uint32{uint32(i + 1), uint32(c), first})
		}
		first += uint32(c)
	}
	// file layout: junk, mdat payload (chunks in random order with gaps), junk
	head := r.Range(8, 20)
	order := make([]int, len(chunkCounts))
	for i := range order {
		order[i] = i
	}
	if r.Intn(3) == 0 {
		for i := len(order) - 1; i > 0; i-- {
			j := r.Intn(i + 1)
			order[i], order[j] = order[j], order[i]
		}
	}
	chunkStart := make([]int, len(chunkCounts))
	acc := 0
	for i, c := range chunkCounts {
		chunkStart[i] = acc
		acc += c
	}
	offs := make([]uint64, len(chunkCounts))
	pos := head + r.Intn(3)
	for _, ci := range order {
		offs[ci] = uint64(pos)
		for k := 0; k < chunkCounts[ci]; k++ {
			pos += int(sizes[chunkStart[ci]+k])
		}
		if r.Intn(3) == 0 {
			pos += r.Range(1, 4)
		}
	}
	t.mstart = uint64(head)
	t.mlen = uint64(pos - head + r.Intn(3))
	if t.mlen == 0 {
		t.mlen = 1
	}
	total := head + int(t.mlen) + r.Intn(5)
	t.file = r.Bytes(total, nil)
	if r.Intn(3) == 0 {
		t.offKind = "C"
		t.co64 = offs
	} else {
		t.offKind = "S"
		t.stco = offs
	}
	if r.Intn(3) != 0 {
		t.hasStss = true
		for i := 1; i <= n; i++ {
			if i == 1 && r.Intn(5) != 0 || r.Intn(3) == 0 {
				t.stss = append(t.stss, uint32(i))
			}
		}
	}
	if r.Intn(3) == 0 {
		t.hasSdtp = true
		for i := 0; i < n; i++ {
			t.sdtp = append(t.sdtp, uint32(r.Pick(0, 16, 32, 36, 100, 255, r.Intn(256))))
		}
	}
	return t
}

// mutateFetchTables breaks one thing (the theorems' hypotheses no longer hold).
func mutateFetchTables(r *hx.Rng, t *fetchTables) {
	offs := t.stco
	if t.offKind == "C" {
		offs = t.co64
	}
	k := r.Intn(16)
	if (len(offs) == 0 || t.offKind == "N" || t.offKind == "B") && k <= 4 || len(t.stsc) == 0 && (k == 5 || k == 6 || k == 14) ||
		len(t.sttsC) == 0 && k == 8 {
		return
	}
	switch k {
	case 0: // a chunk offset outside the mdat / the file
		offs[r.Intn(len(offs))] = uint64(r.Pick(0, 3, len(t.file)-1, len(t.file), len(t.file)+5, 1<<31))
	case 1:
		if t.offKind == "C" {
			offs[r.Intn(len(offs))] = uint64(1)<<63 + uint64(r.Intn(9))
		} else {
			offs[r.Intn(len(offs))] = 4294967295
		}
	case 2: // one chunk offset missing
		if t.offKind == "C" {
			t.co64 = t.co64[:len(t.co64)-1]
		} else {
			t.stco = t.stco[:len(t.stco)-1]
		}
	case 3:
		t.offKind = "N"
	case 4: // both boxes, different contents
		t.offKind = "B"
		t.stco, t.co64 = make([]uint64, len(offs)), make([]uint64, len(offs))
		for i := range offs {
			t.stco[i] = offs[i] & 0xffffffff // stco entries are 32 bits
			t.co64[i] = offs[i] + uint64(r.Intn(3))
		}
	case 5: // samples-per-chunk 0 / too large (never 2^32-1: the Go loops over a chunk's samples are uint32 loops)
		t.stsc[r.Intn(len(t.stsc))][1] = uint32(r.Pick(0, 0, 100))
	case 6: // wrong cached first sample number (kept sorted: with unsorted numbers the chunk count of
		// GetContainingChunks wraps and the Go code asks for a 48 GB slice)
		k := len(t.stsc) - 1
		lo := uint32(1)
		if k > 0 {
			lo = t.stsc[k-1][2]
		}
		v := lo + uint32(r.Intn(4))
		if v == t.stsc[k][2] {
			v++
		}
		t.stsc[k][2] = v
	case 7:
		t.stsc = nil
	case 8: // stts describes fewer / more samples
		k := r.Intn(len(t.sttsC))
		t.sttsC[k] = uint32(r.Pick(0, 1, int(t.sttsC[k])+1))
	case 9:
		t.sttsC, t.sttsD = nil, nil
	case 10: // ctts too short / unsorted
		if t.hasCtts && len(t.cttsEnd) > 1 {
			if r.Bool() {
				t.cttsEnd = t.cttsEnd[:len(t.cttsEnd)-1]
				t.cttsOff = t.cttsOff[:len(t.cttsOff)-1]
			} else {
				t.cttsEnd[len(t.cttsEnd)-1] = 0
			}
		} else {
			t.hasCtts, t.cttsEnd, t.cttsOff = true, []uint32{0}, nil
		}
	case 11: // sdtp too short
		t.hasSdtp = true
		t.sdtp = make([]uint32, r.Intn(int(t.n)))
	case 12: // stss unsorted / out of range
		t.hasStss = true
		t.stss = []uint32{uint32(r.Range(0, int(t.n)+2)), uint32(r.Range(0, int(t.n)+2)), 1}
	case 13: // explicit sizes too short, or uniform with a different count
		if t.uniform == 0 && len(t.sizes) > 0 {
			t.sizes = t.sizes[:len(t.sizes)-1]
		} else {
			t.number = uint32(r.Pick(0, int(t.n)-1, int(t.n)+3))
		}
	case 14: // a gap in the chunk numbering (chunk offsets run out)
		t.stsc[len(t.stsc)-1][0] += uint32(r.Range(1, 3))
	case 15: // truncated file (lazy reads run into EOF)
		cut := r.Range(int(t.mstart)+1, len(t.file))
		if uint64(cut) < t.mstart+t.mlen {
			t.mlen = uint64(cut) - t.mstart
		}
		t.file = t.file[:cut]
	}
}

func emitFetch(id *int, kind string, lazy bool, a, b uint32, t *fetchTables) {
	mode := "mem"
	if lazy {
		mode = "lazy"
	}
	fmt.Fprintf(out, "G\tf%s%d\t%s\t%d\t%d\t%s\n", kind, *id, mode, a, b, t.fields())
	*id++
}

func genFetchCases(seed uint64, n int) {
	id := 0
	r := hx.NewRng(seed ^ 0xfe7c)
	for i := 0; i < n; i++ {
		t := genFetchTables(r)
		lazy := r.Intn(3) == 0
		// the whole track, a random interval, a single sample
		emitFetch(&id, "v", lazy, 1, t.n, t)
		a := uint32(r.Range(1, int(t.n)))
		b := uint32(r.Range(int(a), int(t.n)))
		emitFetch(&id, "v", lazy, a, b, t)
		emitFetch(&id, "v", !lazy, b, b, t)
	}
	rm := hx.NewRng(seed ^ 0xbadfe7c)
	for i := 0; i < n; i++ {
		t := genFetchTables(rm)
		k := rm.Range(1, 2)
		for j := 0; j < k; j++ {
			mutateFetchTables(rm, t)
		}
		lazy := rm.Bool()
		var a, b uint32
		switch rm.Intn(6) {
		case 0:
			a, b = 0, uint32(rm.Range(0, int(t.n)))
		case 1:
			a = uint32(rm.Range(1, int(t.n)))
			b = t.n + uint32(rm.Range(1, 3))
		case 2:
			a = uint32(rm.Range(1, int(t.n)+1))
			b = a - 1
		default:
			a = uint32(rm.Range(1, int(t.n)))
			b = uint32(rm.Range(int(a), int(t.n)))
		}
		emitFetch(&id, "m", lazy, a, b, t)
	}
}
