// Search oracle for examples/segmenter: run the BUILT tool on synthesized progressive files and compare the
// concatenated per-track sample lists of all output segments with the input's.
package main

import (
	"fmt"
	"os"
	"os/exec"
	"path/filepath"
	"regexp"
	"sort"
	"strconv"
	"strings"
	"time"

	"verifharness/hx"
)

type segCase struct {
	durMS     uint32
	mode      string // single | lazy | mux | muxlazy (-m -lazy)
	mdatFirst bool
	tracks    []trackSpec
	cut       int // bytes removed from the end of the input file (a truncated download; mdat last only)
}

func isMux(mode string) bool { return mode == "mux" || mode == "muxlazy" }

// toolModeArgs: the command line flags of a mode
func toolModeArgs(mode string) []string {
	switch mode {
	case "lazy":
		return []string{"-lazy"}
	case "mux":
		return []string{"-m"}
	case "muxlazy":
		return []string{"-m", "-lazy"}
	}
	return nil
}

// inputBytes: the synthesized file, truncated when the case says so
func (c segCase) inputBytes() ([]byte, error) {
	data, err := buildProgressive(c.tracks, c.mdatFirst)
	if err != nil {
		return nil, err
	}
	if c.cut > 0 && !c.mdatFirst && c.cut < len(data) {
		data = data[:len(data)-c.cut]
	}
	return data, nil
}

// ---- witness strings:  seg|d=5000|mode=lazy|mf=0|v,1000,1,1,0,2.3,40:0:1:17/40:0:0:9;a,...
func (c segCase) witness() string {
	var ts []string
	for _, t := range c.tracks {
		ts = append(ts, trackWitness(t))
	}
	w := fmt.Sprintf("seg|d=%d|mode=%s|mf=%d|%s", c.durMS, c.mode, b2i(c.mdatFirst), strings.Join(ts, ";"))
	if c.cut > 0 {
		w += fmt.Sprintf("|cut=%d", c.cut)
	}
	return w
}

func b2i(b bool) int {
	if b {
		return 1
	}
	return 0
}

func trackWitness(t trackSpec) string {
	kind := "a"
	if t.video {
		kind = "v"
	}
	spc := make([]string, len(t.spc))
	for i, x := range t.spc {
		spc[i] = strconv.Itoa(x)
	}
	ss := make([]string, len(t.samples))
	for i, s := range t.samples {
		ss[i] = fmt.Sprintf("%d:%d:%d:%d", s.dur, s.cto, b2i(s.sync), s.size)
	}
	w := fmt.Sprintf("%s,%d,%d,%d,%d,%s,%s", kind, t.timescale, b2i(t.hasStss), b2i(t.hasCtts), b2i(t.co64),
		strings.Join(spc, "."), strings.Join(ss, "/"))
	if len(t.sdtp) > 0 || t.elst || t.uniform {
		w += "," + hx.Hex(t.sdtp)
	}
	if t.elst || t.uniform {
		w += fmt.Sprintf(",e%du%d", b2i(t.elst), b2i(t.uniform))
	}
	return w
}

func parseTrackWitness(s string) (trackSpec, error) {
	f := strings.Split(s, ",")
	if len(f) < 7 || len(f) > 9 {
		return trackSpec{}, fmt.Errorf("bad track %q", s)
	}
	var t trackSpec
	if len(f) >= 8 && f[7] != "-" {
		t.sdtp = hx.UnHex(f[7])
	}
	if len(f) == 9 {
		t.elst = strings.Contains(f[8], "e1")
		t.uniform = strings.Contains(f[8], "u1")
	}
	t.video = f[0] == "v"
	ts, _ := strconv.ParseUint(f[1], 10, 32)
	t.timescale = uint32(ts)
	t.hasStss = f[2] == "1"
	t.hasCtts = f[3] == "1"
	t.co64 = f[4] == "1"
	if f[5] != "" {
		for _, x := range strings.Split(f[5], ".") {
			v, _ := strconv.Atoi(x)
			t.spc = append(t.spc, v)
		}
	}
	if f[6] != "" {
		for _, x := range strings.Split(f[6], "/") {
			g := strings.Split(x, ":")
			if len(g) != 4 {
				return t, fmt.Errorf("bad sample %q", x)
			}
			d, _ := strconv.ParseUint(g[0], 10, 32)
			c, _ := strconv.ParseInt(g[1], 10, 32)
			z, _ := strconv.ParseUint(g[3], 10, 32)
			t.samples = append(t.samples, smp{dur: uint32(d), cto: int32(c), sync: g[2] == "1", size: uint32(z)})
		}
	}
	return t, nil
}

func parseSegWitness(w string) (segCase, error) {
	f := strings.Split(w, "|")
	if (len(f) != 5 && len(f) != 6) || f[0] != "seg" {
		return segCase{}, fmt.Errorf("bad witness")
	}
	var c segCase
	if len(f) == 6 {
		c.cut, _ = strconv.Atoi(strings.TrimPrefix(f[5], "cut="))
	}
	d, _ := strconv.ParseUint(strings.TrimPrefix(f[1], "d="), 10, 32)
	c.durMS = uint32(d)
	c.mode = strings.TrimPrefix(f[2], "mode=")
	c.mdatFirst = f[3] == "mf=1"
	for _, ts := range strings.Split(f[4], ";") {
		t, err := parseTrackWitness(ts)
		if err != nil {
			return c, err
		}
		c.tracks = append(c.tracks, t)
	}
	return c, nil
}

// ---- generator
// genVideo: n samples, sync spacing pattern, durations, optional B-frame style ctos.
func genVideo(r *hx.Rng, zeroDur bool) trackSpec {
	t := trackSpec{video: true, hasStss: true}
	t.timescale = uint32(r.Pick(1000, 1000, 12800, 90000, 25, 600))
	n := r.Range(1, 36)
	if r.Intn(8) == 0 {
		n = r.Range(1, 4)
	}
	base := uint32(r.Pick(1, 2, 40, 512, 3000, 3600, 1001))
	varDur := r.Intn(3) == 0
	gop := r.Pick(1, 2, 3, 4, 5, 8, 12, 0)
	ctoMode := r.Intn(4) // 0 none, 1 ctts all zero, 2 positive pattern, 3 with negative (version 1)
	t.hasCtts = ctoMode > 0
	sinceSync := 0
	for i := 0; i < n; i++ {
		var s smp
		s.dur = base
		if varDur {
			s.dur = uint32(r.Range(1, 3)) * base
		}
		if zeroDur && r.Intn(5) == 0 {
			s.dur = 0
		}
		switch {
		case i == 0:
			s.sync = true
		case gop == 0:
			s.sync = r.Intn(4) == 0
		default:
			s.sync = sinceSync >= gop
		}
		if s.sync {
			sinceSync = 1
		} else {
			sinceSync++
		}
		switch ctoMode {
		case 2:
			s.cto = int32(base) * int32(r.Pick(0, 1, 2, 3))
			if s.sync {
				s.cto = int32(base) * 2
			}
		case 3:
			s.cto = int32(base) * int32(r.Pick(-1, 0, 1, 2))
			if s.sync {
				s.cto = 0
			}
		}
		s.size = uint32(r.Range(1, 40))
		if r.Intn(12) == 0 {
			s.size = 0
		}
		t.samples = append(t.samples, s)
	}
	t.spc = genSpc(r)
	t.co64 = r.Intn(6) == 0
	if len(t.samples) > 0 {
		t.elst = r.Intn(6) == 0
	}
	if r.Intn(8) == 0 { // constant sample size, stsz without table
		t.uniform = true
		z := uint32(r.Range(1, 30))
		for i := range t.samples {
			t.samples[i].size = z
		}
	}
	if r.Intn(4) == 0 { // sdtp: dependency flags per sample
		t.sdtp = make([]byte, len(t.samples))
		for i, s := range t.samples {
			if s.sync {
				t.sdtp[i] = byte(r.Pick(0x20, 0x20, 0x24, 0x00))
			} else {
				t.sdtp[i] = byte(r.Pick(0x10, 0x18, 0x14, 0x58, 0x11, 0x00))
			}
		}
	}
	return t
}

func genSpc(r *hx.Rng) []int {
	k := r.Range(1, 3)
	spc := make([]int, k)
	for i := range spc {
		spc[i] = r.Pick(1, 1, 2, 3, 5, 9)
	}
	return spc
}

// genAudio: covers at least `coverMS` milliseconds (plus/minus), constant frame duration mostly.
func genAudio(r *hx.Rng, coverMS uint64, short bool) trackSpec {
	t := trackSpec{}
	t.timescale = uint32(r.Pick(48000, 44100, 1000, 8000))
	fd := uint32(1024)
	if t.timescale == 1000 {
		fd = uint32(r.Pick(20, 21, 23))
	}
	need := coverMS*uint64(t.timescale)/1000/uint64(fd) + 1
	n := int(need) + r.Range(0, 6)
	if short {
		n = int(need) - r.Range(1, 3)
		if n < 1 {
			n = 1
		}
	}
	if n > 400 {
		n = 400
	}
	t.hasStss = r.Intn(5) == 0
	for i := 0; i < n; i++ {
		s := smp{dur: fd, sync: true, size: uint32(r.Range(1, 24))}
		if r.Intn(10) == 0 && i == n-1 {
			s.dur = fd / 2
		}
		t.samples = append(t.samples, s)
	}
	t.spc = genSpc(r)
	t.co64 = r.Intn(6) == 0
	return t
}

func totalMS(t trackSpec) uint64 {
	var tot uint64
	for _, s := range t.samples {
		tot += uint64(s.dur)
	}
	if t.timescale == 0 {
		return 0
	}
	return tot * 1000 / uint64(t.timescale)
}

func genSegCase(r *hx.Rng, class int) segCase {
	var c segCase
	v := genVideo(r, class == 2)
	ms := totalMS(v)
	switch r.Intn(3) {
	case 0:
		c.tracks = []trackSpec{v}
	case 1:
		c.tracks = []trackSpec{v, genAudio(r, ms, class == 3)}
	default:
		c.tracks = []trackSpec{genAudio(r, ms, class == 3), v}
	}
	// target durations on a grid relative to the video's length, plus fixed values
	switch r.Intn(6) {
	case 0:
		c.durMS = 1
	case 1:
		c.durMS = uint32(ms/4 + 1)
	case 2:
		c.durMS = uint32(ms/2 + 1)
	case 3:
		c.durMS = uint32(ms + 1)
	case 4:
		c.durMS = uint32(r.Pick(40, 100, 500, 1000, 2000, 5000))
	default:
		c.durMS = uint32(r.Range(1, int(ms)+2))
	}
	c.mode = []string{"single", "lazy", "mux", "muxlazy"}[r.Intn(4)]
	c.mdatFirst = r.Intn(4) == 0
	return c
}

var reSegFile = regexp.MustCompile(`^o_([va])(\d+)_(\d+)\.m4s$`)
var reMuxFile = regexp.MustCompile(`^o_media_(\d+)\.m4s$`)

// runSegCase runs the built segmenter and evaluates the property. Returns a short outcome class.
func runSegCase(c segCase, t tools, evals *int, verbose bool) string {
	*evals++
	data, err := c.inputBytes()
	if err != nil {
		fail("harness", "synth-error", c.witness(), err.Error())
		return "synth-error"
	}
	dir := filepath.Join(t.tmp, "seg")
	os.RemoveAll(dir)
	if err := os.MkdirAll(dir, 0o755); err != nil {
		panic(err)
	}
	defer os.RemoveAll(dir)
	in := filepath.Join(dir, "in.mp4")
	if err := os.WriteFile(in, data, 0o644); err != nil {
		panic(err)
	}
	args := []string{"-d", strconv.Itoa(int(c.durMS))}
	args = append(args, toolModeArgs(c.mode)...)
	args = append(args, "in.mp4", "o")
	stdout, stderr, rc, timedOut := runTool(t.segmenter, args, dir, 20*time.Second)
	if verbose {
		fmt.Fprintf(os.Stderr, "rc=%d\n%s\n%s\n", rc, stdout, stderr)
	}
	if timedOut {
		fail("segmenter", "timeout", c.witness(), "tool did not finish in 20 s")
		return "timeout"
	}
	if rc != 0 {
		if strings.Contains(stderr, "panic:") || strings.Contains(stderr, "fatal error:") {
			fail("segmenter", "panic", c.witness(), "mode "+c.mode+": tool crashed: "+firstLine(stderr))
			return "panic"
		}
		return "tool-error" // the tool refused the input; nothing is claimed about refused inputs
	}
	// collect outputs
	ents, _ := os.ReadDir(dir)
	type segf struct {
		nr   int
		path string
	}
	perTrack := map[int][]segf{} // index in c.tracks -> files
	if isMux(c.mode) {
		var fsx []segf
		for _, e := range ents {
			if m := reMuxFile.FindStringSubmatch(e.Name()); m != nil {
				k, _ := strconv.Atoi(m[1])
				fsx = append(fsx, segf{k, filepath.Join(dir, e.Name())})
			}
		}
		for ti := range c.tracks {
			perTrack[ti] = fsx
		}
	} else {
		for _, e := range ents {
			if m := reSegFile.FindStringSubmatch(e.Name()); m != nil {
				k, _ := strconv.Atoi(m[3])
				for ti, tr := range c.tracks {
					if (m[1] == "v") == tr.video {
						perTrack[ti] = append(perTrack[ti], segf{k, filepath.Join(dir, e.Name())})
					}
				}
			}
		}
	}
	for ti, tr := range c.tracks {
		files := perTrack[ti]
		sort.Slice(files, func(i, j int) bool { return files[i].nr < files[j].nr })
		trackID := uint32(1)
		initPath := filepath.Join(dir, fmt.Sprintf("o_%s1_init.mp4", map[bool]string{true: "v", false: "a"}[tr.video]))
		if isMux(c.mode) {
			trackID = uint32(ti + 1)
			initPath = filepath.Join(dir, "o_init.mp4")
		}
		initF, err := decodePath(initPath)
		if err != nil || initF.Init == nil {
			fail("segmenter", "unreadable-output", c.witness(), fmt.Sprintf("mode "+c.mode+": init segment %s: %v", filepath.Base(initPath), err))
			return "unreadable"
		}
		trex := trexFor(initF.Init, trackID)
		if fin, err := decodeBytes(data); err == nil && fin.Moov != nil && ti < len(fin.Moov.Traks) && c.cut == 0 {
			if d := trackDescribed(initF.Init, trackID, fin.Moov.Traks[ti], nil, true); d != "" {
				fail("segmenter", "init-differs", c.witness(), fmt.Sprintf("mode %s: %s: %s", c.mode, filepath.Base(initPath), d))
				return "init-differs"
			}
		}
		var got []flat
		for _, sf := range files {
			f, err := decodePath(sf.path)
			if err != nil {
				fail("segmenter", "unreadable-output", c.witness(), fmt.Sprintf("mode "+c.mode+": %s: %v", filepath.Base(sf.path), err))
				return "unreadable"
			}
			segs, err := segmentSamples(f, trex, trackID)
			if err != nil {
				fail("segmenter", "unreadable-output", c.witness(), fmt.Sprintf("mode "+c.mode+": %s: %v", filepath.Base(sf.path), err))
				return "unreadable"
			}
			for _, ss := range segs {
				if tr.video && len(ss) > 0 && ss[0].flags&0x00010000 != 0 {
					// a reference track with a zero-duration sync sample is a separate, recorded class:
					// GetSampleNrAtTime skips zero-duration runs, so the segment starts one sample late
					class := "segment-starts-non-sync"
					for _, s := range tr.samples {
						if s.sync && s.dur == 0 {
							class = "segment-starts-non-sync-after-zero-duration-sync-sample"
						}
					}
					fail("segmenter", class, c.witness(),
						fmt.Sprintf("mode %s: video segment %d starts with a non-sync sample (dts %d)", c.mode, sf.nr, ss[0].dts))
				}
				got = append(got, ss...)
			}
		}
		want := expectedSamples(ti, tr)
		if d := diffFlat(got, want); d != "" {
			class := "samples-differ"
			if len(got) < len(want) && diffFlat(got, want[:len(got)]) == "" {
				class = "samples-dropped-at-end"
			}
			fail("segmenter", class, c.witness(),
				fmt.Sprintf("mode %s: track %d (%s): %s", c.mode, ti+1, map[bool]string{true: "video", false: "audio"}[tr.video], d))
			return class
		}
	}
	return "ok"
}

func firstLine(s string) string {
	for _, l := range strings.Split(s, "\n") {
		if strings.Contains(l, "panic:") || strings.Contains(l, "fatal error:") {
			return strings.TrimSpace(l)
		}
	}
	if i := strings.IndexByte(s, '\n'); i >= 0 {
		return s[:i]
	}
	return s
}

func runTool(bin string, args []string, dir string, limit time.Duration) (stdout, stderr string, rc int, timedOut bool) {
	cmd := exec.Command(bin, args...)
	cmd.Dir = dir
	var so, se strings.Builder
	cmd.Stdout = &so
	cmd.Stderr = &se
	if err := cmd.Start(); err != nil {
		return "", err.Error(), 127, false
	}
	done := make(chan error, 1)
	go func() { done <- cmd.Wait() }()
	select {
	case err := <-done:
		rc = 0
		if err != nil {
			rc = 1
			if ee, ok := err.(*exec.ExitError); ok {
				rc = ee.ExitCode()
			}
		}
	case <-time.After(limit):
		_ = cmd.Process.Kill()
		<-done
		return so.String(), se.String(), 124, true
	}
	return so.String(), se.String(), rc, false
}
