// combine-segs at the decoded level (C lines) and the init segments the tools write (I lines).
//
//	C id ids pos0 files trexes refs obs
//	  ids    = output track ids, csv ("-" = none)
//	  pos0   = absolute position of the output moof (size of the styp taken from input 0)
//	  files  = input media files joined by '#'; a file = segments joined by '!'; a segment = fragments joined by
//	           '^'; a fragment = <moof start>;<mdat payload start>;<mdat payload hex>;<traf>&<traf>...
//	           traf = <tfhd flags>,<track>,<base data offset>,<sdi>,<ddur>,<dsize>,<dflags>,<tfdt>:<trun>+<trun>...
//	           trun = <flags>,<data offset>,<first sample flags>=<s>/<s>...   s = <flags>.<dur>.<size>.<cto> as DECODED
//	           (before AddSampleDefaultValues), "-" for none
//	  trexes = per input <track>,<ddur>,<dsize>,<dflags> of ITS init segment, joined by '#'
//	  refs   = per input what a reader with the init segment sees (GetFullSamples(trex)): ok:<sample>,... | err |
//	           panic | "-" when the file is not one segment / one fragment / one traf; joined by '#'
//	  obs    = <class of combineMediaSegments + writeSeg: ok|err|panic>[|<id>=<samples>;<id>=<samples>...]: every
//	           distinct output id read from the decoded output with the trex of the combined init
//	  sample = <dts>.<dur>.<size>.<cto>.<flags>.<first 8 hex digits of md5(data)>
//
// The implementation side is the tagged test driver in /repo/examples/combine-segs (any k, any ids) and, for
// k = 2 / ids 1,2, the built tool.
package main

import (
	"bytes"
	"encoding/hex"
	"fmt"
	"os"
	"os/exec"
	"path/filepath"
	"strconv"
	"strings"
	"time"

	"github.com/Eyevinn/mp4ff/mp4"
	"verifharness/hx"
)

type combIn struct {
	fs      fragSpec
	variant int // 0 one fragment; 1 two fragments in the segment; 2 two segments; 3 a second traf; 4 no sample
	lift    bool
	initB   []byte
	mediaB  []byte
}

type combCase struct {
	ins []combIn
	ids []uint32
}

// liftToTrex moves what moveDefaults put into the tfhd on to the trex of the init segment: the input then RELIES on
// trex defaults (outside the guard of the property text).
func liftToTrex(init *mp4.InitSegment, traf *mp4.TrafBox) {
	trex := init.Moov.Mvex.Trex
	if traf.Tfhd.Flags&0x8 != 0 {
		trex.DefaultSampleDuration = traf.Tfhd.DefaultSampleDuration
		traf.Tfhd.Flags &^= 0x8
		traf.Tfhd.DefaultSampleDuration = 0
	}
	if traf.Tfhd.Flags&0x10 != 0 {
		trex.DefaultSampleSize = traf.Tfhd.DefaultSampleSize
		traf.Tfhd.Flags &^= 0x10
		traf.Tfhd.DefaultSampleSize = 0
	}
	if traf.Tfhd.Flags&0x20 != 0 {
		trex.DefaultSampleFlags = traf.Tfhd.DefaultSampleFlags
		traf.Tfhd.Flags &^= 0x20
		traf.Tfhd.DefaultSampleFlags = 0
	}
}

// buildCombIn writes init + media bytes of one input.
func buildCombIn(in *combIn) error {
	one := in.fs
	n := len(one.samples)
	one.extra = 0
	switch in.variant {
	case 1:
		if n < 2 {
			in.variant = 0
		}
	case 2:
		if n < 2 {
			in.variant = 0
		}
	case 4:
		one.samples = nil
		n = 0
	}
	switch in.variant {
	case 1:
		one.segLens = [][]int{{n / 2, n - n/2}}
		one.trunLens = nil
	case 2:
		one.segLens = [][]int{{n / 2}, {n - n/2}}
		one.trunLens = nil
	case 3:
		one.segLens = [][]int{{n}}
		one.trunLens = nil
		one.extra = 2
	default:
		one.segLens = [][]int{{n}}
		one.trunLens = nil
		if len(in.fs.trunLens) > 0 && n > 0 {
			one.trunLens = [][]int{regroup(in.fs.trunLens, n)}
		}
	}
	if in.lift || one.defaults == 3 {
		one.defaults = 2
	}
	init, err := buildInit(one)
	if err != nil {
		return err
	}
	segs, err := buildSegments(one, nil)
	if err != nil {
		return err
	}
	if in.lift {
		for _, s := range segs {
			for _, f := range s.Fragments {
				liftToTrex(init, f.Moof.Trafs[0])
			}
		}
	}
	var ib, mb bytes.Buffer
	if err := init.Encode(&ib); err != nil {
		return err
	}
	if err := encodeSegments(&mb, segs, 0, one); err != nil {
		return err
	}
	in.initB, in.mediaB = ib.Bytes(), mb.Bytes()
	return nil
}

func genCombCase(r *hx.Rng) combCase {
	var c combCase
	k := r.Pick(1, 2, 2, 2, 3, 3, 4)
	for j := 0; j < k; j++ {
		fs := genFragSpec(r, 14)
		fs.video = j == 0
		fs.styp = r.Intn(5) != 0
		in := combIn{fs: fs}
		switch r.Intn(24) {
		case 0:
			in.variant = 1
		case 1:
			in.variant = 2
		case 2:
			in.variant = 3
		case 3, 4:
			in.variant = 4
		}
		in.lift = r.Intn(6) == 0
		c.ins = append(c.ins, in)
	}
	switch r.Intn(12) {
	case 0: // duplicate id
		for j := 0; j < k; j++ {
			c.ids = append(c.ids, uint32(1+j/2))
		}
	case 1: // fewer ids than files
		for j := 0; j < k-1; j++ {
			c.ids = append(c.ids, uint32(j+1))
		}
	case 2: // more ids than files
		for j := 0; j < k+1; j++ {
			c.ids = append(c.ids, uint32(j+3))
		}
	case 3, 4: // other distinct ids
		base := uint32(r.Pick(2, 5, 100))
		for j := 0; j < k; j++ {
			c.ids = append(c.ids, base+uint32((j*7)%5))
		}
	default:
		for j := 0; j < k; j++ {
			c.ids = append(c.ids, uint32(j+1))
		}
	}
	return c
}

// ---------------------------------------------------------------- serialisation of decoded inputs
func serSamples(ss []mp4.Sample) string {
	if len(ss) == 0 {
		return "-"
	}
	p := make([]string, len(ss))
	for i, s := range ss {
		p[i] = fmt.Sprintf("%d.%d.%d.%d", s.Flags, s.Dur, s.Size, s.CompositionTimeOffset)
	}
	return strings.Join(p, "/")
}

func serFrag(frag *mp4.Fragment) string {
	var trafs []string
	for _, traf := range frag.Moof.Trafs {
		h := traf.Tfhd
		var tfdt uint64
		if traf.Tfdt != nil {
			tfdt = traf.Tfdt.BaseMediaDecodeTime()
		}
		var truns []string
		for _, t := range traf.Truns {
			fsf, _ := t.FirstSampleFlags()
			truns = append(truns, fmt.Sprintf("%d,%d,%d=%s", t.Flags, t.DataOffset, fsf, serSamples(t.Samples)))
		}
		tr := "-"
		if len(truns) > 0 {
			tr = strings.Join(truns, "+")
		}
		trafs = append(trafs, fmt.Sprintf("%d,%d,%d,%d,%d,%d,%d,%d:%s", h.Flags, h.TrackID, h.BaseDataOffset,
			h.SampleDescriptionIndex, h.DefaultSampleDuration, h.DefaultSampleSize, h.DefaultSampleFlags, tfdt, tr))
	}
	data := "-"
	if len(frag.Mdat.Data) > 0 {
		data = hex.EncodeToString(frag.Mdat.Data)
	}
	return fmt.Sprintf("%d;%d;%s;%s", frag.Moof.StartPos, frag.Mdat.PayloadAbsoluteOffset(), data, strings.Join(trafs, "&"))
}

func serFile(f *mp4.File) string {
	if len(f.Segments) == 0 {
		return "-"
	}
	segs := make([]string, len(f.Segments))
	for i, s := range f.Segments {
		frs := make([]string, len(s.Fragments))
		for k, fr := range s.Fragments {
			frs[k] = serFrag(fr)
		}
		segs[i] = strings.Join(frs, "^")
		if len(frs) == 0 {
			segs[i] = "-"
		}
	}
	return strings.Join(segs, "!")
}

func flatsString(ss []flat) string {
	if len(ss) == 0 {
		return "-"
	}
	p := make([]string, len(ss))
	for i, s := range ss {
		p[i] = flatString(s)
	}
	return strings.Join(p, ",")
}

// refReading: GetFullSamples(trex of the input's init) on a fresh decode of the media file.
func refReading(mediaB []byte, trex *mp4.TrexBox) (s string) {
	f, err := decodeBytes(mediaB)
	if err != nil {
		return "undecodable"
	}
	if len(f.Segments) != 1 || len(f.Segments[0].Fragments) != 1 || len(f.Segments[0].Fragments[0].Moof.Trafs) != 1 {
		return "-"
	}
	defer func() {
		if r := recover(); r != nil {
			s = "panic"
		}
	}()
	fss, err := f.Segments[0].Fragments[0].GetFullSamples(trex)
	if err != nil {
		return "err"
	}
	out := make([]flat, len(fss))
	for i, x := range fss {
		out[i] = flatOf(x)
	}
	return "ok:" + flatsString(out)
}

// readOutput: every distinct id read from the decoded output with the trex of the combined init.
func readOutput(initB, mediaB []byte, ids []uint32) (string, uint64, []*mp4.TrexBox) {
	var init *mp4.InitSegment
	if fi, err := decodeBytes(initB); err == nil && fi.Init != nil {
		init = fi.Init
	}
	f, err := decodeBytes(mediaB)
	if err != nil || len(f.Segments) != 1 || len(f.Segments[0].Fragments) != 1 {
		return "unreadable", 0, nil
	}
	frag := f.Segments[0].Fragments[0]
	seen := map[uint32]bool{}
	var per []string
	var trexes []*mp4.TrexBox
	for _, id := range ids {
		if seen[id] {
			continue
		}
		seen[id] = true
		trex := trexFor(init, id)
		trexes = append(trexes, trex)
		ss, err := fragSamples(frag, trex, id)
		if err != nil {
			per = append(per, fmt.Sprintf("%d=err", id))
			continue
		}
		per = append(per, fmt.Sprintf("%d=%s", id, flatsString(ss)))
	}
	return strings.Join(per, ";"), frag.Moof.StartPos, trexes
}

func idsString(ids []uint32) string {
	if len(ids) == 0 {
		return "-"
	}
	p := make([]string, len(ids))
	for i, x := range ids {
		p[i] = strconv.FormatUint(uint64(x), 10)
	}
	return strings.Join(p, ",")
}

// corrCombine: n cases through the tagged driver (one run for all), nTool of them (k = 2, ids 1,2) also through
// the built tool.
func corrCombine(seed uint64, n int, t tools, id *int) {
	if t.combdrv == "" {
		return
	}
	r := hx.NewRng(seed ^ 0xc0b1)
	root := filepath.Join(t.tmp, "combcorr")
	os.RemoveAll(root)
	defer os.RemoveAll(root)
	var cases []combCase
	var dirs []string
	var list strings.Builder
	for i := 0; i < n; i++ {
		c := genCombCase(r)
		ok := true
		for j := range c.ins {
			if err := buildCombIn(&c.ins[j]); err != nil {
				ok = false
			}
		}
		if !ok {
			continue
		}
		dir := filepath.Join(root, fmt.Sprintf("c%d", i))
		if err := os.MkdirAll(dir, 0o755); err != nil {
			panic(err)
		}
		for j, in := range c.ins {
			_ = os.WriteFile(filepath.Join(dir, fmt.Sprintf("in%d_init.mp4", j)), in.initB, 0o644)
			_ = os.WriteFile(filepath.Join(dir, fmt.Sprintf("in%d.m4s", j)), in.mediaB, 0o644)
		}
		fmt.Fprintf(&list, "%s\t%d\t%s\n", dir, len(c.ins), idsString(c.ids))
		cases = append(cases, c)
		dirs = append(dirs, dir)
	}
	listPath := filepath.Join(root, "cases.txt")
	if err := os.WriteFile(listPath, []byte(list.String()), 0o644); err != nil {
		panic(err)
	}
	cmd := exec.Command(t.combdrv, "-test.run", "^TestVerifCombDriver$")
	cmd.Env = append(os.Environ(), "C11_COMB_CASES="+listPath)
	if outb, err := cmd.CombinedOutput(); err != nil {
		fmt.Fprintf(os.Stderr, "combine-segs driver failed: %v\n%s\n", err, lastBytes(outb, 1500))
		os.Exit(1)
	}
	for i, c := range cases {
		rcb, err := os.ReadFile(filepath.Join(dirs[i], "rc"))
		if err != nil {
			fmt.Fprintf(os.Stderr, "combine-segs driver wrote no rc for case %d\n", i)
			os.Exit(1)
		}
		rc := strings.Fields(string(rcb))
		outInit, _ := os.ReadFile(filepath.Join(dirs[i], "out_init.mp4"))
		outMedia, _ := os.ReadFile(filepath.Join(dirs[i], "out.m4s"))
		emitCombLines(c, rc[0], rc[1], outInit, outMedia, "d", id)
	}
	// the built tool on the k = 2 cases
	if t.combine != "" {
		nTool := 0
		for _, c := range cases {
			if len(c.ins) != 2 || nTool >= n/3+1 {
				continue
			}
			nTool++
			c.ids = []uint32{1, 2}
			dir := filepath.Join(root, "tool")
			os.RemoveAll(dir)
			for j, name := range []string{"V300", "A48"} {
				d := filepath.Join(dir, "testdata", name)
				if err := os.MkdirAll(d, 0o755); err != nil {
					panic(err)
				}
				_ = os.WriteFile(filepath.Join(d, "init.mp4"), c.ins[j].initB, 0o644)
				_ = os.WriteFile(filepath.Join(d, "1.m4s"), c.ins[j].mediaB, 0o644)
			}
			_, stderr, rcode, timedOut := runTool(t.combine, nil, dir, 20*time.Second)
			class := "ok"
			switch {
			case timedOut:
				class = "timeout"
			case rcode != 0 && (strings.Contains(stderr, "panic:") || strings.Contains(stderr, "fatal error:")):
				class = "panic"
			case rcode != 0:
				class = "err"
			}
			outInit, _ := os.ReadFile(filepath.Join(dir, "combined-init.mp4"))
			outMedia, _ := os.ReadFile(filepath.Join(dir, "combined-1.m4s"))
			// the tool stops at the first failing step: init first, then media
			initClass, mediaClass := class, class
			if class != "ok" {
				if len(outInit) > 0 {
					initClass = "ok"
				} else {
					mediaClass = "not-run"
				}
			}
			emitCombLines(c, initClass, mediaClass, outInit, outMedia, "t", id)
		}
	}
}

func lastBytes(b []byte, n int) string {
	if len(b) > n {
		b = b[len(b)-n:]
	}
	return string(b)
}

func emitCombLines(c combCase, initClass, mediaClass string, outInit, outMedia []byte, tag string, id *int) {
	files := make([]string, len(c.ins))
	trexes := make([]string, len(c.ins))
	refs := make([]string, len(c.ins))
	inits := make([]string, len(c.ins))
	for j, in := range c.ins {
		fm, err := decodeBytes(in.mediaB)
		if err != nil {
			return
		}
		files[j] = serFile(fm)
		fi, err := decodeBytes(in.initB)
		if err != nil || fi.Init == nil {
			return
		}
		trex := fi.Init.Moov.Mvex.Trex
		trexes[j] = fmt.Sprintf("%d,%d,%d,%d", trex.TrackID, trex.DefaultSampleDuration, trex.DefaultSampleSize, trex.DefaultSampleFlags)
		refs[j] = refReading(in.mediaB, trex)
		inits[j] = serInit(fi.Init)
	}
	if mediaClass != "not-run" {
		obs := mediaClass
		var pos0 uint64
		if mediaClass == "ok" {
			per, p0, _ := readOutput(outInit, outMedia, c.ids)
			obs += "|" + per
			pos0 = p0
		}
		fmt.Fprintf(out, "C\tc%s%d\t%s\t%d\t%s\t%s\t%s\t%s\n", tag, *id, idsString(c.ids), pos0,
			strings.Join(files, "#"), strings.Join(trexes, "#"), strings.Join(refs, "#"), obs)
		*id++
	}
	// the combined init
	obs := initClass
	if initClass == "ok" {
		if fo, err := decodeBytes(outInit); err == nil && fo.Init != nil {
			obs += "|" + serInit(fo.Init)
		} else {
			obs = "unreadable"
		}
	}
	fmt.Fprintf(out, "I\ti%s%d\tcomb\t%s\t%s\t%s\n", tag, *id, idsString(c.ids), strings.Join(inits, "#"), obs)
	*id++
}

// ---------------------------------------------------------------- init segments (I lines)
//	I id kind ids inputs obs
//	  kind   = comb | seg | segmux | reseg
//	  init   = <trak>&<trak>...|<trexes>   trak = <id>,<handler 1 vide 2 soun 0 other>,<mdhd timescale>=<entry hex>/...
//	           ("-" = empty stsd); trexes = x (no mvex) | - (mvex without trex) | <id>,<sdi>,<ddur>,<dsize>,<dflags>&...
//	  inputs = comb: the k input inits joined by '#'; seg / segmux: the moov of the progressive input; reseg: the
//	           input's init or "none"
//	  obs    = <class ok|err|panic>[|<init>#<init>...]  (seg: one init per input track, in input order)
func serMoov(moov *mp4.MoovBox) string {
	var traks []string
	for _, t := range moov.Traks {
		h := 0
		switch t.Mdia.Hdlr.HandlerType {
		case "vide":
			h = 1
		case "soun":
			h = 2
		}
		var es []string
		for _, c := range t.Mdia.Minf.Stbl.Stsd.Children {
			var b bytes.Buffer
			if err := c.Encode(&b); err != nil {
				es = append(es, "00")
				continue
			}
			es = append(es, hex.EncodeToString(b.Bytes()))
		}
		e := "-"
		if len(es) > 0 {
			e = strings.Join(es, "/")
		}
		traks = append(traks, fmt.Sprintf("%d,%d,%d=%s", t.Tkhd.TrackID, h, t.Mdia.Mdhd.Timescale, e))
	}
	tx := "x"
	if moov.Mvex != nil {
		tx = "-"
		var p []string
		for _, x := range moov.Mvex.Trexs {
			p = append(p, fmt.Sprintf("%d,%d,%d,%d,%d", x.TrackID, x.DefaultSampleDescriptionIndex, x.DefaultSampleDuration,
				x.DefaultSampleSize, x.DefaultSampleFlags))
		}
		if len(p) > 0 {
			tx = strings.Join(p, "&")
		}
	}
	tr := "-"
	if len(traks) > 0 {
		tr = strings.Join(traks, "&")
	}
	return tr + "|" + tx
}

func serInit(init *mp4.InitSegment) string { return serMoov(init.Moov) }

// mutateEntries rewrites the stsd of the progressive file's tracks (the file must have mdat before moov: chunk
// offsets then do not move).  Returns the new file bytes.
func mutateEntries(data []byte, r *hx.Rng) ([]byte, string) {
	f, err := decodeBytes(data)
	if err != nil || f.Moov == nil {
		return data, "as-is"
	}
	what := "as-is"
	for _, trak := range f.Moov.Traks {
		stsd := trak.Mdia.Minf.Stbl.Stsd
		if len(stsd.Children) != 1 {
			continue
		}
		switch trak.Mdia.Hdlr.HandlerType {
		case "vide":
			switch r.Intn(7) {
			case 0:
				stsd.Children[0] = mp4.CreateVisualSampleEntryBox("av01", 320, 180, nil)
				what = "av01"
			case 1:
				stsd.Children[0] = mp4.CreateVisualSampleEntryBox("hvc1", 320, 180, nil)
				what = "hvc1"
			case 2:
				stsd.Children = append(stsd.Children, mp4.CreateVisualSampleEntryBox("avc3", 640, 360, nil))
				stsd.SampleCount = 2
				what = "avc1+avc3"
			case 3:
				stsd.Children = append([]mp4.Box{mp4.CreateVisualSampleEntryBox("hev1", 640, 360, nil)}, stsd.Children...)
				stsd.SampleCount = 2
				what = "hev1+avc1"
			}
		case "soun":
			switch r.Intn(6) {
			case 0:
				stsd.Children[0] = mp4.CreateAudioSampleEntryBox("ac-3", 2, 16, 48000, nil)
				what += ",ac-3"
			case 1:
				stsd.Children[0] = mp4.CreateAudioSampleEntryBox("enca", 2, 16, 48000, nil)
				what += ",enca"
			case 2:
				stsd.Children = append(stsd.Children, mp4.CreateAudioSampleEntryBox("ec-3", 2, 16, 48000, nil))
				stsd.SampleCount = 2
				what += ",mp4a+ec-3"
			}
		}
	}
	var b bytes.Buffer
	if err := f.Encode(&b); err != nil {
		return data, "as-is"
	}
	return b.Bytes(), what
}

func toolClass(stderr string, rc int, timedOut bool) string {
	switch {
	case timedOut:
		return "timeout"
	case rc != 0 && (strings.Contains(stderr, "panic:") || strings.Contains(stderr, "fatal error:")):
		return "panic"
	case rc != 0:
		return "err"
	}
	return "ok"
}

func corrInits(seed uint64, n int, t tools, id *int) {
	r := hx.NewRng(seed ^ 0x1717)
	if t.segmenter != "" {
		for i := 0; i < n; i++ {
			c := genSegCase(r, 0)
			c.mdatFirst = true
			c.cut = 0
			data, err := buildProgressive(c.tracks, true)
			if err != nil {
				continue
			}
			data, _ = mutateEntries(data, r)
			fin, err := decodeBytes(data)
			if err != nil || fin.Moov == nil {
				continue
			}
			dir := filepath.Join(t.tmp, "initcorr")
			os.RemoveAll(dir)
			if err := os.MkdirAll(dir, 0o755); err != nil {
				panic(err)
			}
			_ = os.WriteFile(filepath.Join(dir, "in.mp4"), data, 0o644)
			mux := i%2 == 1
			args := []string{"-d", strconv.Itoa(int(c.durMS))}
			if mux {
				args = append(args, "-m")
			}
			args = append(args, "in.mp4", "o")
			stdout, stderr, rc, timedOut := runTool(t.segmenter, args, dir, 20*time.Second)
			class := toolClass(stderr, rc, timedOut)
			if strings.Count(stdout, "Sample intervals:") != len(fin.Moov.Traks) {
				os.RemoveAll(dir)
				continue // the tool stopped before the writers (no plan): not an init observation
			}
			obs := class
			kind := "seg"
			if mux {
				kind = "segmux"
				if fo, err := decodePath(filepath.Join(dir, "o_init.mp4")); err == nil && fo.Init != nil {
					obs = "ok|" + serInit(fo.Init)
				}
			} else {
				var per []string
				for _, trak := range fin.Moov.Traks {
					name := "o_a1_init.mp4"
					if trak.Mdia.Hdlr.HandlerType == "vide" {
						name = "o_v1_init.mp4"
					}
					if fo, err := decodePath(filepath.Join(dir, name)); err == nil && fo.Init != nil {
						per = append(per, serInit(fo.Init))
					}
				}
				if len(per) == len(fin.Moov.Traks) {
					obs = "ok|" + strings.Join(per, "#")
				}
			}
			os.RemoveAll(dir)
			fmt.Fprintf(out, "I\tis%d\t%s\t-\t%s\t%s\n", *id, kind, serMoov(fin.Moov), obs)
			*id++
		}
	}
	if t.reseg != "" {
		for i := 0; i < n/2+1; i++ {
			fs := genFragSpec(r, 12)
			fs.noInit = r.Intn(5) == 0
			data, err := encodeFragmented(fs, !fs.noInit)
			if err != nil {
				continue
			}
			dir := filepath.Join(t.tmp, "initcorr")
			os.RemoveAll(dir)
			if err := os.MkdirAll(dir, 0o755); err != nil {
				panic(err)
			}
			_ = os.WriteFile(filepath.Join(dir, "in.mp4"), data, 0o644)
			_, stderr, rc, timedOut := runTool(t.reseg, []string{"-d", "1000", "in.mp4", "out.mp4"}, dir, 20*time.Second)
			class := toolClass(stderr, rc, timedOut)
			in := "none"
			if fi, err := decodeBytes(data); err == nil && fi.Init != nil {
				in = serInit(fi.Init)
			}
			obs := class
			if class == "ok" {
				o := "none"
				if fo, err := decodePath(filepath.Join(dir, "out.mp4")); err == nil && fo.Init != nil {
					o = serInit(fo.Init)
				}
				obs = "ok|" + o
			}
			os.RemoveAll(dir)
			if class != "ok" {
				continue // the resegmenter refused the media part: not an init observation
			}
			fmt.Fprintf(out, "I\tir%d\treseg\t-\t%s\t%s\n", *id, in, obs)
			*id++
		}
	}
}

// ---------------------------------------------------------------- one multi-track segment, optimisation on/off (X lines)
//	X id opt ids groups obs
//	  groups = per track (in ids order) the samples added, <dts>:<dur>:<cto>:<flags>:<data hex> joined by '/', "-" = the
//	           track has no sample in the segment; joined by '|'
//	  obs    = ok|<id>=<samples>;... (every id read back from the decoded segment) | err | panic
func corrMuxOpt(seed uint64, n int, id *int) {
	r := hx.NewRng(seed ^ 0x0b7)
	for i := 0; i < n; i++ {
		k := r.Pick(1, 2, 2, 3)
		ids := make([]uint32, k)
		base := uint32(r.Pick(1, 1, 4))
		for j := range ids {
			ids[j] = base + uint32(j)*uint32(r.Pick(1, 1, 3))
			if j > 0 && ids[j] <= ids[j-1] {
				ids[j] = ids[j-1] + 1
			}
		}
		opt := i%2 == 1
		frag, err := mp4.CreateMultiTrackFragment(uint32(i+1), ids)
		if err != nil {
			panic(err)
		}
		groups := make([]string, k)
		allEmpty := r.Intn(10) == 0
		for j, tid := range ids {
			cnt := r.Range(0, 6)
			if allEmpty || r.Intn(5) == 0 {
				cnt = 0
			}
			uniform := r.Intn(3) == 0
			dts := uint64(r.Range(0, 100000))
			var p []string
			for s := 0; s < cnt; s++ {
				dur := uint32(r.Pick(0, 40, 40, 1024, 3000))
				size := r.Range(0, 9)
				flags := uint32(r.Pick(0x02000000, 0x01010000, 0x00010000))
				cto := int32(r.Pick(0, 0, 40, -40))
				if uniform {
					dur, size, cto = 40, 4, 0
					if s > 0 {
						flags = 0x01010000
					}
				}
				data := sampleBytes(int(tid), s+1, uint32(size))
				fs := mp4.FullSample{Sample: mp4.Sample{Flags: flags, Dur: dur, Size: uint32(len(data)), CompositionTimeOffset: cto},
					DecodeTime: dts, Data: data}
				_ = frag.AddFullSampleToTrack(fs, tid)
				h := hex.EncodeToString(data)
				p = append(p, fmt.Sprintf("%d:%d:%d:%d:%s", dts, dur, cto, flags, h))
				dts += uint64(dur)
			}
			groups[j] = "-"
			if len(p) > 0 {
				groups[j] = strings.Join(p, "/")
			}
		}
		if opt {
			frag.EncOptimize = mp4.OptimizeTrun
		}
		obs := func() (o string) {
			defer func() {
				if rec := recover(); rec != nil {
					o = "panic"
				}
			}()
			var buf bytes.Buffer
			if err := frag.Encode(&buf); err != nil {
				return "err"
			}
			f, err := decodeBytes(buf.Bytes())
			if err != nil || len(f.Segments) != 1 || len(f.Segments[0].Fragments) != 1 {
				return "unreadable"
			}
			var per []string
			for _, tid := range ids {
				ss, err := fragSamples(f.Segments[0].Fragments[0], &mp4.TrexBox{TrackID: tid, DefaultSampleDuration: 7, DefaultSampleSize: 1, DefaultSampleFlags: 0x10000}, tid)
				if err != nil {
					per = append(per, fmt.Sprintf("%d=err", tid))
					continue
				}
				per = append(per, fmt.Sprintf("%d=%s", tid, flatsString(ss)))
			}
			return "ok|" + strings.Join(per, ";")
		}()
		o := "0"
		if opt {
			o = "1"
		}
		fmt.Fprintf(out, "X\tx%d\t%s\t%s\t%s\t%s\n", *id, o, idsString(ids), strings.Join(groups, "|"), obs)
		*id++
	}
}
