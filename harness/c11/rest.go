package main

import (
	"bytes"
	"fmt"
	"os"
	"strconv"
	"strings"

	"github.com/Eyevinn/mp4ff/mp4"
	"verifharness/hx"
)

// ---------------------------------------------------------------- correspondence lines R F A D M
//
//	R id d samples obs          resegmenter tool: obs = ok:<count,count,...> | err | panic
//	F id duration frags obs     Fragmentify: frags = samples/samples|samples..., obs = ok:<counts> | err | panic
//	A id ids ops obs            AddFullSampleToTrack interleavings: ops = tid:dts:dur,...  (cto = op index)
//	                            obs = <errors>|<layout>|id=dts:cto.dts:cto;id=...
//	D id tfhd trun trex samples obs   AddSampleDefaultValues: obs = dur:size:flags/...
//	M id samples1 samples2 obs  combine-segs tool: obs = ok|<layout>|1=dts...;2=dts... | err | panic
func corrRest(seed uint64, n int, t tools, id *int) {
	r := hx.NewRng(seed ^ 0xf4a6)
	if t.reseg != "" {
		for i := 0; i < n; i++ {
			fs := genFragSpec(r, 40)
			d := genResegD(r, fs)
			if i%40 == 39 {
				d = 0
			}
			if i%10 == 3 {
				fs.styp = false
			}
			if i%12 == 5 {
				addGap(r, &fs)
			}
			if i%9 == 4 && fs.defaults == 0 && fs.extra == 0 {
				fs.noInit = true
			}
			if i%7 == 2 && !fs.noInit {
				fs.extra = r.Range(1, 3) // a second traf in every moof; the tool works on the first
			}
			res := runReseg(fs, d, t)
			obs := res.class
			if res.class == "ok" {
				obs = "ok:" + countsString(res.segs)
			}
			fmt.Fprintf(out, "R\tr%d\t%d\t%s\t%s\n", *id, d, structureOf(fs, res.input), obs)
			*id++
			if res.class == "ok" {
				// the DECODED output segments vs resegment -> write_segment -> read_back of the model
				tid := fs.trackID
				if tid == 0 {
					tid = 1
				}
				fmt.Fprintf(out, "V\tv%d\t%d\t%d\t%s\t%s\n", *id, d, tid, dataSamples(res.input), decodedPieces(res.segs))
				*id++
			}
		}
	}
	for i := 0; i < 2*n; i++ {
		fs := genFragSpec(r, 40)
		if i%12 == 5 {
			addGap(r, &fs)
		}
		dur := genFragyDur(r, fs)
		res := runFragmentify(fs, dur)
		obs := res.class
		if res.class == "ok" {
			obs = "ok:" + countsString(res.out)
		}
		fr := make([]string, len(res.in))
		for k, f := range res.in {
			fr[k] = modelSamples(f)
		}
		fmt.Fprintf(out, "F\tf%d\t%d\t%s\t%s\n", *id, dur, strings.Join(fr, "|"), obs)
		*id++
		if res.class == "ok" {
			tid := fs.trackID
			if tid == 0 {
				tid = 1
			}
			fd := make([]string, len(res.in))
			for k, f := range res.in {
				fd[k] = dataSamples(f)
			}
			fmt.Fprintf(out, "Y\ty%d\t%d\t%d\t%s\t%s\n", *id, dur, tid, strings.Join(fd, "|"), decodedPieces(res.out))
			*id++
		}
	}
	for i := 0; i < 4*n; i++ {
		emitAddCase(r, id)
	}
	for i := 0; i < 6*n; i++ {
		emitDefaultsCase(r, id)
	}
	if t.combine != "" {
		for i := 0; i < n/2+1; i++ {
			v, a := genCombinePair(r)
			res := runCombine(v, a, t)
			obs := res.class
			if res.class == "ok" {
				obs = fmt.Sprintf("ok|%s|1=%s;2=%s", res.layout, dtsList(res.got[0]), dtsList(res.got[1]))
			}
			fmt.Fprintf(out, "M\tm%d\t%s\t%s\t%s\n", *id, modelSamples(res.inputs[0]), modelSamples(res.inputs[1]), obs)
			*id++
		}
	}
}

// dataSamples: dts:dur:cto:flags:<data hex>/...   ("-" for no samples)
func dataSamples(ss []flat) string {
	if len(ss) == 0 {
		return "-"
	}
	p := make([]string, len(ss))
	for i, s := range ss {
		p[i] = fmt.Sprintf("%d:%d:%d:%d:%s", s.dts, s.dur, s.cto, s.flags, hx.Hex(s.data))
	}
	return strings.Join(p, "/")
}

// decodedPieces: per output piece the decoded samples as in W lines; pieces joined by "+", an empty piece is "e"
func decodedPieces(segs [][]flat) string {
	if len(segs) == 0 {
		return "-"
	}
	p := make([]string, len(segs))
	for i, seg := range segs {
		if len(seg) == 0 {
			p[i] = "e"
			continue
		}
		q := make([]string, len(seg))
		for k, s := range seg {
			q[k] = flatString(s)
		}
		p[i] = strings.Join(q, ",")
	}
	return strings.Join(p, "+")
}

func dtsList(ss []flat) string {
	if len(ss) == 0 {
		return "-"
	}
	p := make([]string, len(ss))
	for i, s := range ss {
		p[i] = strconv.FormatUint(s.dts, 10)
	}
	return strings.Join(p, ".")
}

func genFragyDur(r *hx.Rng, fs fragSpec) uint32 {
	var tot uint64
	for _, s := range fs.samples {
		tot += uint64(s.dur)
	}
	switch r.Intn(7) {
	case 0:
		return 0
	case 1:
		return 1
	case 2:
		return uint32(tot/3 + 1)
	case 3:
		return uint32(tot + 1)
	case 4:
		return fs.samples[0].dur * uint32(r.Range(1, 5))
	case 5:
		return 4294967295
	default:
		return uint32(r.Range(1, int(tot%100000)+2))
	}
}

func genCombinePair(r *hx.Rng) (fragSpec, fragSpec) {
	v := genFragSpec(r, 30)
	v.video = true
	a := genFragSpec(r, 30)
	a.video = false
	// combine-segs: only inputs that do not rely on trex defaults (the guard of the property text)
	if v.defaults == 3 {
		v.defaults = 2
	}
	if a.defaults == 3 {
		a.defaults = 2
	}
	if r.Intn(10) == 0 {
		v.samples = nil // an input fragment without samples
	}
	return v, a
}

// emitAddCase: CreateMultiTrackFragment(ids) + interleaved AddFullSampleToTrack, encoded, decoded, read back.
func emitAddCase(r *hx.Rng, id *int) {
	var ids []uint32
	switch r.Intn(8) {
	case 0:
		ids = []uint32{1}
	case 1:
		ids = []uint32{2, 2, 3} // duplicate id: first match wins
	case 2:
		ids = []uint32{3, 1, 2}
	default:
		ids = []uint32{1, 2}
	}
	nops := r.Range(0, 14)
	type op struct {
		tid uint32
		dts uint64
		dur uint32
	}
	ops := make([]op, nops)
	run := r.Pick(1, 1, 2, 4)
	cur := ids[r.Intn(len(ids))]
	for i := range ops {
		if i%run == 0 {
			cur = ids[r.Intn(len(ids))]
			if r.Intn(12) == 0 {
				cur = 9 // unknown track id
			}
		}
		ops[i] = op{cur, uint64(r.Range(0, 5000)), uint32(r.Range(0, 50))}
	}
	frag, err := mp4.CreateMultiTrackFragment(7, ids)
	if err != nil {
		panic(err)
	}
	nerr := 0
	for i, o := range ops {
		fs := mp4.FullSample{Sample: mp4.Sample{Flags: 0x02000000, Dur: o.dur, Size: 2, CompositionTimeOffset: int32(i)},
			DecodeTime: o.dts, Data: []byte{byte(i), byte(o.tid)}}
		if err := frag.AddFullSampleToTrack(fs, o.tid); err != nil {
			nerr++
		}
	}
	var buf bytes.Buffer
	obs := ""
	if err := frag.Encode(&buf); err != nil {
		obs = "encode-error"
	} else if f, err := decodeBytes(buf.Bytes()); err != nil || len(f.Segments) != 1 || len(f.Segments[0].Fragments) != 1 {
		obs = "decode-error"
	} else {
		g := f.Segments[0].Fragments[0]
		seen := map[uint32]bool{}
		var per []string
		for _, tid := range ids {
			if seen[tid] {
				continue
			}
			seen[tid] = true
			ss, err := fragSamples(g, &mp4.TrexBox{TrackID: tid}, tid)
			if err != nil {
				per = append(per, fmt.Sprintf("%d=err", tid))
				continue
			}
			p := make([]string, len(ss))
			for k, s := range ss {
				p[k] = fmt.Sprintf("%d:%d", s.dts, s.cto)
			}
			x := "-"
			if len(p) > 0 {
				x = strings.Join(p, ".")
			}
			per = append(per, fmt.Sprintf("%d=%s", tid, x))
		}
		obs = fmt.Sprintf("%d|%s|%s", nerr, layoutOf(g), strings.Join(per, ";"))
	}
	idss := make([]string, len(ids))
	for i, x := range ids {
		idss[i] = strconv.Itoa(int(x))
	}
	opss := make([]string, len(ops))
	for i, o := range ops {
		opss[i] = fmt.Sprintf("%d:%d:%d", o.tid, o.dts, o.dur)
	}
	opsStr := "-"
	if len(opss) > 0 {
		opsStr = strings.Join(opss, ",")
	}
	fmt.Fprintf(out, "A\ta%d\t%s\t%s\t%s\n", *id, strings.Join(idss, ","), opsStr, obs)
	*id++
}

// emitDefaultsCase: TrunBox.AddSampleDefaultValues(tfhd, trex) on directly constructed boxes.
func emitDefaultsCase(r *hx.Rng, id *int) {
	tfhd := &mp4.TfhdBox{TrackID: 1}
	tf := []string{"x", "x", "x"}
	if r.Bool() {
		tfhd.Flags |= 0x8
		tfhd.DefaultSampleDuration = uint32(r.Range(0, 2000))
		tf[0] = strconv.Itoa(int(tfhd.DefaultSampleDuration))
	}
	if r.Bool() {
		tfhd.Flags |= 0x10
		tfhd.DefaultSampleSize = uint32(r.Range(0, 300))
		tf[1] = strconv.Itoa(int(tfhd.DefaultSampleSize))
	}
	if r.Bool() {
		tfhd.Flags |= 0x20
		tfhd.DefaultSampleFlags = uint32(r.Pick(0, 0x00010000, 0x02000000, 0x01010000))
		tf[2] = strconv.Itoa(int(tfhd.DefaultSampleFlags))
	}
	var trex *mp4.TrexBox
	tx := "x"
	if r.Intn(3) != 0 {
		trex = &mp4.TrexBox{TrackID: 1, DefaultSampleDuration: uint32(r.Range(0, 3000)), DefaultSampleSize: uint32(r.Range(0, 99)),
			DefaultSampleFlags: uint32(r.Pick(0, 0x00010000, 0x02000000))}
		tx = fmt.Sprintf("%d,%d,%d", trex.DefaultSampleDuration, trex.DefaultSampleSize, trex.DefaultSampleFlags)
	}
	trun := mp4.CreateTrun(0)
	trun.Flags = 0x801 // data offset + cto
	hd, hz, hf, hff := r.Bool(), r.Bool(), r.Bool(), r.Intn(3) == 0
	if hd {
		trun.Flags |= 0x100
	}
	if hz {
		trun.Flags |= 0x200
	}
	if hf {
		trun.Flags |= 0x400
	}
	n := r.Range(0, 5)
	ss := make([]string, n)
	for i := 0; i < n; i++ {
		s := mp4.Sample{}
		// fields not present in the box decode as zero
		if hd {
			s.Dur = uint32(r.Range(0, 4000))
		}
		if hz {
			s.Size = uint32(r.Range(0, 500))
		}
		if hf {
			s.Flags = uint32(r.Pick(0, 0x00010000, 0x02000000, 0x01010000))
		}
		trun.Samples = append(trun.Samples, s)
	}
	if hff && !hf {
		ff := uint32(r.Pick(0x02000000, 0x00010000))
		trun.SetFirstSampleFlags(ff)
		if n > 0 {
			trun.Samples[0].Flags = ff // what the decoder stores for sample 0
		}
	} else {
		hff = false
	}
	for i, s := range trun.Samples {
		ss[i] = fmt.Sprintf("%d:%d:%d", s.Dur, s.Size, s.Flags)
	}
	trun.AddSampleDefaultValues(tfhd, trex)
	os := make([]string, n)
	for i, s := range trun.Samples {
		os[i] = fmt.Sprintf("%d:%d:%d", s.Dur, s.Size, s.Flags)
	}
	j := func(p []string) string {
		if len(p) == 0 {
			return "-"
		}
		return strings.Join(p, "/")
	}
	fmt.Fprintf(out, "D\td%d\t%s\t%d%d%d%d\t%s\t%s\t%s\n", *id, strings.Join(tf, ","), b2i(hd), b2i(hz), b2i(hf), b2i(hff), tx, j(ss), j(os))
	*id++
}

// ---------------------------------------------------------------- search
func searchRest(seed uint64, n int, t tools, evals *int, outcomes map[string]int) {
	r := hx.NewRng(seed ^ 0x5ea7c4)
	if t.reseg != "" {
		for _, w := range fixedResegWitnesses() {
			outcomes["reseg:"+runResegWitness(w, t, evals)]++
		}
		for i := 0; i < n; i++ {
			fs := genFragSpec(r, 40)
			if i%50 == 49 {
				fs.styp = false
			}
			if i%12 == 5 {
				addGap(r, &fs)
			}
			if i%9 == 4 && fs.defaults == 0 && fs.extra == 0 {
				fs.noInit = true
			}
			if i%7 == 2 && !fs.noInit {
				fs.extra = r.Range(1, 3)
			}
			outcomes["reseg:"+checkReseg(fs, genResegD(r, fs), t, evals)]++
		}
	}
	{
		var ev int
		f := strings.SplitN(fixedFragyGapWitness, "|", 3)
		fs, err := parseFragWitness(f[2])
		if err != nil {
			panic(err)
		}
		outcomes["fragy:"+checkFragmentify(fs, 1000, &ev)]++
		*evals += ev
	}
	for i := 0; i < 2*n; i++ {
		fs := genFragSpec(r, 40)
		if i%12 == 5 {
			addGap(r, &fs)
		}
		if i%7 == 2 {
			fs.extra = r.Range(1, 3)
		}
		outcomes["fragy:"+checkFragmentify(fs, genFragyDur(r, fs), evals)]++
	}
	if t.combine != "" {
		for i := 0; i < n/2+1; i++ {
			v, a := genCombinePair(r)
			outcomes["comb:"+checkCombine(v, a, t, evals)]++
		}
	}
}

const fixedFragyGapWitness = "fragy|d=1000|v=1,ts=1000,styp=1,opt=0,tid=1,segs=2.2,samples=0:40:0:2000000:5/40:40:0:10000:6/500:40:0:10000:7/540:40:0:10000:3"

func fixedResegWitnesses() []string {
	return []string{
		// decode-time gap between two input fragments, both sides in one output segment (recorded finding C11-F3)
		"reseg|d=1000|v=1,ts=1000,styp=1,opt=0,tid=1,segs=2.2,samples=0:40:0:2000000:5/40:40:0:10000:6/500:40:0:10000:7/540:40:0:10000:3",
		// two truns per traf in every input fragment, three output segments
		"reseg|d=160|v=1,ts=1000,styp=1,opt=0,tid=1,segs=2+2.1+3/2+2,samples=0:40:0:2000000:5/40:40:0:10000:6/80:40:0:10000:7/120:40:0:10000:3/160:40:0:2000000:5/200:40:0:10000:6/240:40:0:10000:7/280:40:0:10000:3/320:40:0:2000000:5/360:40:0:10000:6/400:40:0:10000:7/440:40:0:10000:3",
		// first sample already beyond the first boundary: an empty first segment, then everything
		"reseg|d=10|v=1,ts=1000,styp=1,opt=0,tid=1,segs=3,samples=100:40:0:2000000:5/140:40:0:10000:6/180:40:0:2000000:7",
		// fragmented input that does not start its segments with styp
		"reseg|d=80|v=1,ts=1000,styp=0,opt=0,tid=1,segs=2/2,samples=0:40:0:2000000:5/40:40:0:10000:6/80:40:0:2000000:7/120:40:0:10000:3",
	}
}

func runResegWitness(w string, t tools, evals *int) string {
	f := strings.SplitN(w, "|", 3)
	d, _ := strconv.ParseUint(strings.TrimPrefix(f[1], "d="), 10, 64)
	fs, err := parseFragWitness(f[2])
	if err != nil {
		fmt.Fprintln(os.Stderr, err)
		os.Exit(2)
	}
	return checkReseg(fs, d, t, evals)
}

func runWitnessRest(w string, t tools, evals *int, verbose bool) {
	switch {
	case strings.HasPrefix(w, "reseg|"):
		fmt.Fprintf(out, "OUTCOME\t%s\n", runResegWitness(w, t, evals))
	case strings.HasPrefix(w, "fragy|"):
		f := strings.SplitN(w, "|", 3)
		d, _ := strconv.ParseUint(strings.TrimPrefix(f[1], "d="), 10, 32)
		fs, err := parseFragWitness(f[2])
		if err != nil {
			fmt.Fprintln(os.Stderr, err)
			os.Exit(2)
		}
		fmt.Fprintf(out, "OUTCOME\t%s\n", checkFragmentify(fs, uint32(d), evals))
	case strings.HasPrefix(w, "comb|"):
		f := strings.SplitN(w, "|", 3)
		v, err1 := parseFragWitness(f[1])
		a, err2 := parseFragWitness(f[2])
		if err1 != nil || err2 != nil {
			fmt.Fprintln(os.Stderr, err1, err2)
			os.Exit(2)
		}
		fmt.Fprintf(out, "OUTCOME\t%s\n", checkCombine(v, a, t, evals))
	default:
		fmt.Fprintln(os.Stderr, "unknown witness kind")
		os.Exit(2)
	}
}
