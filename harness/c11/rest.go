package main

func corrRest(seed uint64, n int, t tools, id *int)                               {}
func searchRest(seed uint64, n int, t tools, evals *int, outcomes map[string]int) {}
func runWitnessRest(w string, t tools, evals *int, verbose bool)                  {}
