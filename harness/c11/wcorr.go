// Correspondence of the segmenter's WRITERS (W lines): the built tool is run on a synthesized progressive file in
// one of its three modes; the observable is, per track and per written segment file, the sample list a reader
// gets (mp4.DecodeFile + Fragment.GetFullSamples with the track's trex).  The model side (ocaml/c11_driver.ml)
// gets the sample tables as mp4.DecodeFile sees them in the input (the Go structs of C09Model) and the file bytes,
// and recomputes plan -> seg_track / seg_track_lazy / mux_segments -> read_back with the extracted C11FetchModel
// (which runs the C05 fragment model for add / encode / decode / GetFullSamples).
//
//	W <id> <mode> <durMS> <mdatStart> <mdatLen> <file hex> <track>|<track>... <obs>
//	  track = <v|a>/<timescale>/<stts>/<ctts>/<stsc>/<stsz>/<offsets>/<stss>/<sdtp>      (fields as in G lines)
//	  obs   = err | panic | ok:<track>|<track>...   track = <file>+<file>... | -   file = <sample>,<sample>... | e
//	  sample = <dts>.<dur>.<size>.<cto>.<flags>.<first 8 hex digits of md5(data)>
package main

import (
	"crypto/md5"
	"encoding/hex"
	"fmt"
	"os"
	"path/filepath"
	"sort"
	"strconv"
	"strings"
	"time"

	"github.com/Eyevinn/mp4ff/mp4"

	"verifharness/hx"
)

func dumpTrak(trak *mp4.TrakBox) string {
	stbl := trak.Mdia.Minf.Stbl
	t := &fetchTables{}
	t.sttsC, t.sttsD = stbl.Stts.SampleCount, stbl.Stts.SampleTimeDelta
	if stbl.Ctts != nil {
		t.hasCtts = true
		t.cttsEnd, t.cttsOff = stbl.Ctts.EndSampleNr, stbl.Ctts.SampleOffset
	}
	for _, e := range stbl.Stsc.Entries {
		t.stsc = append(t.stsc, [3]uint32{e.FirstChunk, e.SamplesPerChunk, e.FirstSampleNr})
	}
	t.uniform, t.number, t.sizes = stbl.Stsz.SampleUniformSize, stbl.Stsz.SampleNumber, stbl.Stsz.SampleSize
	t.offKind = "N"
	if stbl.Stco != nil {
		t.offKind = "S"
		for _, o := range stbl.Stco.ChunkOffset {
			t.stco = append(t.stco, uint64(o))
		}
	}
	if stbl.Co64 != nil {
		if t.offKind == "S" {
			t.offKind = "B"
		} else {
			t.offKind = "C"
		}
		t.co64 = stbl.Co64.ChunkOffset
	}
	if stbl.Stss != nil {
		t.hasStss = true
		t.stss = stbl.Stss.SampleNumber
	}
	if stbl.Sdtp != nil {
		t.hasSdtp = true
		for _, e := range stbl.Sdtp.Entries {
			t.sdtp = append(t.sdtp, uint32(e))
		}
	}
	kind := "a"
	if trak.Mdia.Hdlr.HandlerType == "vide" {
		kind = "v"
	}
	// fields() = stts \t ctts \t stsc \t stsz \t offsets \t stss \t sdtp \t mstart \t mlen \t file
	f := strings.Split(t.fields(), "\t")
	return kind + "/" + strconv.FormatUint(uint64(trak.Mdia.Mdhd.Timescale), 10) + "/" + strings.Join(f[:7], "/")
}

func flatString(s flat) string {
	h := md5.Sum(s.data)
	return fmt.Sprintf("%d.%d.%d.%d.%d.%s", s.dts, s.dur, len(s.data), s.cto, s.flags, hex.EncodeToString(h[:])[:8])
}

// toolSegments runs the built segmenter and returns the observable of a W line.
func toolSegments(c segCase, data []byte, t tools) string {
	dir := filepath.Join(t.tmp, "wcorr")
	os.RemoveAll(dir)
	if err := os.MkdirAll(dir, 0o755); err != nil {
		panic(err)
	}
	defer os.RemoveAll(dir)
	if err := os.WriteFile(filepath.Join(dir, "in.mp4"), data, 0o644); err != nil {
		panic(err)
	}
	args := []string{"-d", strconv.Itoa(int(c.durMS))}
	args = append(args, toolModeArgs(c.mode)...)
	args = append(args, "in.mp4", "o")
	_, stderr, rc, timedOut := runTool(t.segmenter, args, dir, 20*time.Second)
	if timedOut {
		return "timeout"
	}
	if rc != 0 {
		if strings.Contains(stderr, "panic:") || strings.Contains(stderr, "fatal error:") {
			return "panic"
		}
		return "err"
	}
	ents, _ := os.ReadDir(dir)
	type segf struct {
		nr   int
		path string
	}
	tracks := make([]string, len(c.tracks))
	for ti, tr := range c.tracks {
		var files []segf
		for _, e := range ents {
			if isMux(c.mode) {
				if m := reMuxFile.FindStringSubmatch(e.Name()); m != nil {
					k, _ := strconv.Atoi(m[1])
					files = append(files, segf{k, filepath.Join(dir, e.Name())})
				}
			} else if m := reSegFile.FindStringSubmatch(e.Name()); m != nil && (m[1] == "v") == tr.video {
				k, _ := strconv.Atoi(m[3])
				files = append(files, segf{k, filepath.Join(dir, e.Name())})
			}
		}
		sort.Slice(files, func(i, j int) bool { return files[i].nr < files[j].nr })
		trackID := uint32(1)
		initPath := filepath.Join(dir, fmt.Sprintf("o_%s1_init.mp4", map[bool]string{true: "v", false: "a"}[tr.video]))
		if isMux(c.mode) {
			trackID = uint32(ti + 1)
			initPath = filepath.Join(dir, "o_init.mp4")
		}
		initF, err := decodePath(initPath)
		if err != nil || initF.Init == nil {
			return "unreadable-init"
		}
		trex := trexFor(initF.Init, trackID)
		var fl []string
		for _, sf := range files {
			f, err := decodePath(sf.path)
			if err != nil {
				return "unreadable"
			}
			segs, err := segmentSamples(f, trex, trackID)
			if err != nil {
				return "unreadable"
			}
			var ss []string
			for _, seg := range segs {
				for _, s := range seg {
					ss = append(ss, flatString(s))
				}
			}
			if len(ss) == 0 {
				fl = append(fl, "e")
			} else {
				fl = append(fl, strings.Join(ss, ","))
			}
		}
		tracks[ti] = "-"
		if len(fl) > 0 {
			tracks[ti] = strings.Join(fl, "+")
		}
	}
	return "ok:" + strings.Join(tracks, "|")
}

func corrWriters(seed uint64, n int, t tools, id *int) {
	r := hx.NewRng(seed ^ 0x3717e5)
	for i := 0; i < n; i++ {
		class := 0
		switch {
		case i%10 == 7:
			class = 2
		case i%10 == 9:
			class = 3
		}
		c := genSegCase(r, class)
		c.mode = []string{"single", "lazy", "mux", "muxlazy"}[i%4]
		data, err := buildProgressive(c.tracks, c.mdatFirst)
		if err != nil {
			continue
		}
		f, err := decodeBytes(data)
		if err != nil || f.Moov == nil || f.Mdat == nil {
			continue
		}
		ts := make([]string, len(f.Moov.Traks))
		for k, trak := range f.Moov.Traks {
			ts[k] = dumpTrak(trak)
		}
		fmt.Fprintf(out, "W\tw%d\t%s\t%d\t%d\t%d\t%s\t%s\t%s\n", *id, c.mode, c.durMS,
			f.Mdat.PayloadAbsoluteOffset(), len(f.Mdat.Data), hx.Hex(data), strings.Join(ts, "|"), toolSegments(c, data, t))
		*id++
	}
}
