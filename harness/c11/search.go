package main

import (
	"fmt"
	"os"
	"sort"
	"strings"

	"verifharness/hx"
)

// search: the property itself on the real tools.  Stream classes for the segmenter:
//
//	0/1 ordinary inputs (positive durations, audio at least as long as the last segment start)
//	2   video with some zero-duration samples
//	3   audio shorter than the video (the tool may refuse: "no matching sample found")
func search(seed uint64, n int, t tools) {
	if t.tmp == "" {
		fmt.Fprintln(os.Stderr, "-tmp required")
		os.Exit(2)
	}
	evals := 0
	outcomes := map[string]int{}
	if t.segmenter != "" {
		r := hx.NewRng(seed ^ 0x5e6)
		for _, w := range fixedSegWitnesses() {
			c, err := parseSegWitness(w)
			if err != nil {
				panic(err)
			}
			for _, m := range []string{"single", "lazy", "mux", "muxlazy"} {
				c.mode = m
				outcomes["seg:"+runSegCase(c, t, &evals, false)]++
			}
		}
		// deterministic grid: sync spacing x sample count x target duration x track set x tool mode
		gops, counts := []int{1, 3, 12}, []int{7, 24}
		if n >= 1000 {
			gops, counts = []int{1, 2, 3, 5, 8, 12}, []int{1, 2, 7, 24, 36}
		}
		for _, g := range gops {
			for _, cnt := range counts {
				for ti := 0; ti < 3; ti++ {
					for di := 0; di < 5; di++ {
						if n < 1000 && di%2 == 1 {
							continue
						}
						for _, m := range []string{"single", "lazy", "mux", "muxlazy"} {
							c := gridSegCase(g, cnt, ti, di, m)
							outcomes["seg:"+runSegCase(c, t, &evals, false)]++
							outcomes["seg-grid"]++
						}
					}
				}
			}
		}
		for i := 0; i < n; i++ {
			class := 0
			switch {
			case i%10 == 7:
				class = 2
			case i%10 == 9:
				class = 3
			}
			c := genSegCase(r, class)
			outcomes["seg:"+runSegCase(c, t, &evals, false)]++
		}
		// truncated inputs (mdat last, the end of the file missing): the tool has to refuse them or conserve every
		// sample; what is not allowed is a clean exit with samples missing
		rt := hx.NewRng(seed ^ 0x7c07)
		for i := 0; i < n/4+8; i++ {
			c := genSegCase(rt, 0)
			c.mdatFirst = false
			c.mode = []string{"muxlazy", "lazy", "muxlazy", "mux", "single"}[i%5]
			total := 0
			for _, tr := range c.tracks {
				for _, s := range tr.samples {
					total += int(s.size)
				}
			}
			if total < 2 {
				continue
			}
			c.cut = rt.Range(1, total-1)
			outcomes["seg-truncated:"+runSegCase(c, t, &evals, false)]++
		}
	}
	if t.segmenter != "" {
		for i := 0; i < n/5+12; i++ {
			outcomes["seginit:"+checkSegInit(seed, i, t, &evals)]++
		}
	}
	if t.combine != "" {
		for i := 0; i < n/25+6; i++ {
			outcomes["comb:"+checkCombineOutside(seed, i, t, &evals)]++
		}
	}
	searchRest(seed, n, t, &evals, outcomes)
	searchInterleavedMux(seed, n, &evals, outcomes)
	keys := make([]string, 0, len(outcomes))
	for k := range outcomes {
		keys = append(keys, k)
	}
	sort.Strings(keys)
	var parts []string
	for _, k := range keys {
		parts = append(parts, fmt.Sprintf("%s=%d", k, outcomes[k]))
	}
	fmt.Fprintf(out, "OUTCOMES\t%s\n", strings.Join(parts, ","))
	fmt.Fprintf(out, "EVALS\t%d\n", evals)
}

// fixedSegWitnesses: the smallest inputs on which the last sample of a track would be lost.
func fixedSegWitnesses() []string {
	return []string{
		"seg|d=1000|mode=single|mf=0|v,1000,1,0,0,1,40:0:1:5/40:0:0:6/40:0:0:7",
		"seg|d=80|mode=single|mf=0|v,1000,1,0,0,2,40:0:1:5/40:0:0:6/40:0:1:7/40:0:0:8;a,1000,0,0,0,3,20:0:1:3/20:0:1:3/20:0:1:4/20:0:1:5/20:0:1:3/20:0:1:3/20:0:1:4/20:0:1:9",
		"seg|d=1|mode=single|mf=0|v,1000,1,0,0,1,40:0:1:5",
		// reference track with a zero-duration sync sample (recorded finding C11-F2)
		"seg|d=1|mode=single|mf=0|v,1000,1,0,0,1,40:0:1:5/0:0:1:6/40:0:0:7",
	}
}

func runWitness(w string, t tools, evals *int, verbose bool) {
	switch {
	case strings.HasPrefix(w, "seg|"):
		c, err := parseSegWitness(w)
		if err != nil {
			fmt.Fprintln(os.Stderr, err)
			os.Exit(2)
		}
		fmt.Fprintf(out, "OUTCOME\t%s\n", runSegCase(c, t, evals, verbose))
	case strings.HasPrefix(w, "imux|"):
		if !runWitnessImux(w, evals) {
			fmt.Fprintln(os.Stderr, "bad witness")
			os.Exit(2)
		}
	case strings.HasPrefix(w, "seginit|") || strings.HasPrefix(w, "combx|"):
		if !runWitnessInit(w, t, evals) {
			fmt.Fprintln(os.Stderr, "bad witness")
			os.Exit(2)
		}
	default:
		runWitnessRest(w, t, evals, verbose)
	}
}

// gridSegCase: 25 fps video (timescale 12800, 512 ticks per frame), sync every g frames, B-frame style
// composition offsets, optional 48 kHz audio covering the video; di picks the target duration.
func gridSegCase(g, cnt, ti, di int, mode string) segCase {
	v := trackSpec{video: true, timescale: 12800, hasStss: true, hasCtts: true, spc: []int{3, 2}}
	for i := 0; i < cnt; i++ {
		s := smp{dur: 512, sync: i%g == 0, size: uint32(5 + (i*7)%23)}
		if s.sync {
			s.cto = 1024
		} else {
			s.cto = int32(512 * (i % 3))
		}
		v.samples = append(v.samples, s)
	}
	ms := totalMS(v)
	a := trackSpec{timescale: 48000, spc: []int{4}}
	na := int(ms*48/1024) + 2
	for i := 0; i < na; i++ {
		a.samples = append(a.samples, smp{dur: 1024, sync: true, size: uint32(3 + (i*5)%17)})
	}
	c := segCase{mode: mode}
	switch ti {
	case 0:
		c.tracks = []trackSpec{v}
	case 1:
		c.tracks = []trackSpec{v, a}
	default:
		c.tracks = []trackSpec{a, v}
	}
	switch di {
	case 0:
		c.durMS = 1
	case 1:
		c.durMS = uint32(ms/4 + 1)
	case 2:
		c.durMS = uint32(ms/2 + 1)
	case 3:
		c.durMS = uint32(ms + 1)
	default:
		c.durMS = uint32(2*ms + 1000)
	}
	return c
}
