package main

import (
	"fmt"
	"os"
	"sort"
	"strings"

	"verifharness/hx"
)

// search: the property itself on the real tools.  Stream classes for the segmenter:
//
//	0/1 ordinary inputs (positive durations, audio at least as long as the last segment start)
//	2   video with some zero-duration samples
//	3   audio shorter than the video (the tool may refuse: "no matching sample found")
func search(seed uint64, n int, t tools) {
	if t.tmp == "" {
		fmt.Fprintln(os.Stderr, "-tmp required")
		os.Exit(2)
	}
	evals := 0
	outcomes := map[string]int{}
	if t.segmenter != "" {
		r := hx.NewRng(seed ^ 0x5e6)
		for _, w := range fixedSegWitnesses() {
			c, err := parseSegWitness(w)
			if err != nil {
				panic(err)
			}
			for _, m := range []string{"single", "lazy", "mux"} {
				c.mode = m
				outcomes["seg:"+runSegCase(c, t, &evals, false)]++
			}
		}
		for i := 0; i < n; i++ {
			class := 0
			switch {
			case i%10 == 7:
				class = 2
			case i%10 == 9:
				class = 3
			}
			c := genSegCase(r, class)
			outcomes["seg:"+runSegCase(c, t, &evals, false)]++
		}
	}
	searchRest(seed, n, t, &evals, outcomes)
	keys := make([]string, 0, len(outcomes))
	for k := range outcomes {
		keys = append(keys, k)
	}
	sort.Strings(keys)
	var parts []string
	for _, k := range keys {
		parts = append(parts, fmt.Sprintf("%s=%d", k, outcomes[k]))
	}
	fmt.Fprintf(out, "OUTCOMES\t%s\n", strings.Join(parts, ","))
	fmt.Fprintf(out, "EVALS\t%d\n", evals)
}

// fixedSegWitnesses: the smallest inputs on which the last sample of a track would be lost.
func fixedSegWitnesses() []string {
	return []string{
		"seg|d=1000|mode=single|mf=0|v,1000,1,0,0,1,40:0:1:5/40:0:0:6/40:0:0:7",
		"seg|d=80|mode=single|mf=0|v,1000,1,0,0,2,40:0:1:5/40:0:0:6/40:0:1:7/40:0:0:8;a,1000,0,0,0,3,20:0:1:3/20:0:1:3/20:0:1:4/20:0:1:5/20:0:1:3/20:0:1:3/20:0:1:4/20:0:1:9",
		"seg|d=1|mode=single|mf=0|v,1000,1,0,0,1,40:0:1:5",
		// reference track with a zero-duration sync sample (recorded finding C11-F2)
		"seg|d=1|mode=single|mf=0|v,1000,1,0,0,1,40:0:1:5/0:0:1:6/40:0:0:7",
	}
}

func runWitness(w string, t tools, evals *int, verbose bool) {
	switch {
	case strings.HasPrefix(w, "seg|"):
		c, err := parseSegWitness(w)
		if err != nil {
			fmt.Fprintln(os.Stderr, err)
			os.Exit(2)
		}
		fmt.Fprintf(out, "OUTCOME\t%s\n", runSegCase(c, t, evals, verbose))
	default:
		runWitnessRest(w, t, evals, verbose)
	}
}
