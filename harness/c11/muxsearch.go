package main

import (
	"bytes"
	"fmt"
	"strconv"
	"strings"

	"github.com/Eyevinn/mp4ff/bits"
	"github.com/Eyevinn/mp4ff/mp4"
	"verifharness/hx"
)

// Interleaved multiplexing through the library API (what a low-delay multiplexer does when it combines single-track
// segments sample run by sample run: V A V A ...): a track gets SEVERAL truns in one fragment. Every run has its own
// common duration / size / flags with some probability (a frame-rate change, CBR audio, I P | B B), so that any
// per-traf default derived from one run is wrong for another. Encode / EncodeSW with and without trun optimisation,
// decode, and every track must read back exactly the samples that were added, in order.
//
// witness: imux|seed=<s>|i=<n>  (the case is regenerated from the two numbers)
func imuxCase(seed uint64, i int, evals *int) string {
	*evals++
	r := hx.NewRng(seed ^ 0x1a7e5 ^ (uint64(i) * 0x9e3779b97f4a7c15))
	k := r.Pick(2, 2, 3)
	ids := make([]uint32, k)
	for j := range ids {
		ids[j] = uint32(1 + j*r.Pick(1, 1, 2))
		if j > 0 && ids[j] <= ids[j-1] {
			ids[j] = ids[j-1] + 1
		}
	}
	opt := i%2 == 1
	sw := (i/2)%2 == 1
	frag, err := mp4.CreateMultiTrackFragment(uint32(i+1), ids)
	if err != nil {
		return "create-err"
	}
	if opt {
		frag.EncOptimize = mp4.OptimizeTrun
	}
	want := make([][]flat, k)
	dts := make([]uint64, k)
	cnt := make([]int, k)
	for j := range dts {
		dts[j] = uint64(r.Range(0, 100000))
	}
	nruns := r.Range(2, 7)
	var desc []string
	for run := 0; run < nruns; run++ {
		j := run % k
		if r.Intn(4) == 0 {
			j = r.Intn(k)
		}
		n := r.Pick(1, 2, 2, 3, 4)
		cdur, csize, cflags := r.Intn(3) != 0, r.Intn(2) == 0, r.Intn(2) == 0
		rdur := uint32(r.Pick(500, 1000, 1024, 3000, 3600))
		rsize := uint32(r.Range(0, 9))
		rflags := uint32(r.Pick(0x01010000, 0x00010000, 0x02000000))
		for s := 0; s < n; s++ {
			dur, size, flags := rdur, rsize, rflags
			if !cdur {
				dur = uint32(r.Pick(0, 40, 1024, 3000))
			}
			if !csize {
				size = uint32(r.Range(0, 9))
			}
			if !cflags {
				flags = uint32(r.Pick(0x02000000, 0x01010000, 0x00010000))
			}
			if s == 0 && r.Intn(2) == 0 {
				flags = 0x02000000 // a sync sample in front of a run with common non-sync flags
			}
			cto := int32(r.Pick(0, 0, 40, -40))
			cnt[j]++
			data := sampleBytes(int(ids[j]), cnt[j], size)
			fs := mp4.FullSample{Sample: mp4.Sample{Flags: flags, Dur: dur, Size: uint32(len(data)), CompositionTimeOffset: cto},
				DecodeTime: dts[j], Data: data}
			want[j] = append(want[j], flatOf(fs))
			if err := frag.AddFullSampleToTrack(fs, ids[j]); err != nil {
				return "add-err"
			}
			dts[j] += uint64(dur)
		}
		desc = append(desc, fmt.Sprintf("%d x%d", ids[j], n))
	}
	w := fmt.Sprintf("imux|seed=%d|i=%d", seed, i)
	site := "Fragment.Encode(interleaved multi-track)"
	how := fmt.Sprintf("tracks %v, runs added in the order [%s], OptimizeTrun=%v, EncodeSW=%v", ids, strings.Join(desc, ", "), opt, sw)
	var enc []byte
	p := hx.Try(func() {
		if sw {
			s := bits.NewFixedSliceWriter(int(frag.Size()))
			err = frag.EncodeSW(s)
			enc = s.Bytes()
		} else {
			var buf bytes.Buffer
			err = frag.Encode(&buf)
			enc = buf.Bytes()
		}
	})
	if p != "" {
		fail(site, "panic", w, how+": Encode panics: "+p)
		return "panic"
	}
	if err != nil {
		fail(site, "encode-refused", w, how+": "+err.Error())
		return "encode-err"
	}
	f, err := decodeBytes(enc)
	if err != nil || len(f.Segments) != 1 || len(f.Segments[0].Fragments) != 1 {
		fail(site, "output-unreadable", w, fmt.Sprintf("%s: the written fragment does not decode as one fragment (%v)", how, err))
		return "unreadable"
	}
	res := "ok"
	for j, tid := range ids {
		if len(want[j]) == 0 {
			continue
		}
		// a trex with decoy defaults: whatever the fragment signals itself must win
		got, err := fragSamples(f.Segments[0].Fragments[0], &mp4.TrexBox{TrackID: tid, DefaultSampleDuration: 7, DefaultSampleSize: 1, DefaultSampleFlags: 0x10000}, tid)
		if err != nil {
			fail(site, "samples-unreadable", w, fmt.Sprintf("%s: track %d: %v", how, tid, err))
			res = "bad"
			continue
		}
		if d := diffFlat(got, want[j]); d != "" || len(got) != len(want[j]) {
			fail(site, "samples-differ", w, fmt.Sprintf("%s: track %d: %s (%d read, %d added)", how, tid, d, len(got), len(want[j])))
			res = "bad"
		}
	}
	return res
}

func searchInterleavedMux(seed uint64, n int, evals *int, outcomes map[string]int) {
	for i := 0; i < 4*n+40; i++ {
		outcomes["imux:"+imuxCase(seed, i, evals)]++
	}
}

func runWitnessImux(w string, evals *int) bool {
	f := strings.Split(w, "|")
	if len(f) != 3 || f[0] != "imux" {
		return false
	}
	s, err1 := strconv.ParseUint(strings.TrimPrefix(f[1], "seed="), 10, 64)
	i, err2 := strconv.Atoi(strings.TrimPrefix(f[2], "i="))
	if err1 != nil || err2 != nil {
		return false
	}
	fmt.Fprintf(out, "OUTCOME\t%s\n", imuxCase(s, i, evals))
	return true
}
