// Correspondence cases whose implementation observables come from the built tools / library calls.
package main

import (
	"fmt"
	"os"
	"path/filepath"
	"regexp"
	"strconv"
	"strings"
	"time"

	"verifharness/hx"
)

var reIntervals = regexp.MustCompile(`(?m)^Sample intervals: \[(.*)\]$`)
var reOneIv = regexp.MustCompile(`\{(\d+) (\d+)\}`)

// toolPlan runs the built segmenter and projects its behaviour on the plan it printed:
// ok:<s-e,...>;<s-e,...> (one group per track) | err | panic
func toolPlan(c segCase, t tools) string {
	data, err := buildProgressive(c.tracks, c.mdatFirst)
	if err != nil {
		return "synth-error"
	}
	dir := filepath.Join(t.tmp, "segcorr")
	os.RemoveAll(dir)
	if err := os.MkdirAll(dir, 0o755); err != nil {
		panic(err)
	}
	defer os.RemoveAll(dir)
	if err := os.WriteFile(filepath.Join(dir, "in.mp4"), data, 0o644); err != nil {
		panic(err)
	}
	args := []string{"-d", strconv.Itoa(int(c.durMS))}
	args = append(args, toolModeArgs(c.mode)...)
	args = append(args, "in.mp4", "o")
	stdout, stderr, rc, timedOut := runTool(t.segmenter, args, dir, 20*time.Second)
	if timedOut {
		return "timeout"
	}
	if rc != 0 {
		if strings.Contains(stderr, "panic:") || strings.Contains(stderr, "fatal error:") {
			return "panic"
		}
		return "err"
	}
	ms := reIntervals.FindAllStringSubmatch(stdout, -1)
	groups := make([]string, len(ms))
	for i, m := range ms {
		ivs := reOneIv.FindAllStringSubmatch(m[1], -1)
		p := make([]string, len(ivs))
		for k, iv := range ivs {
			p[k] = iv[1] + "-" + iv[2]
		}
		groups[i] = "-"
		if len(p) > 0 {
			groups[i] = strings.Join(p, ",")
		}
	}
	return "ok:" + strings.Join(groups, ";")
}

func corr(seed uint64, n int, t tools) {
	if t.tmp == "" {
		fmt.Fprintln(os.Stderr, "-tmp required")
		os.Exit(2)
	}
	id := 0
	if t.segmenter != "" {
		r := hx.NewRng(seed ^ 0x70015)
		for i := 0; i < n; i++ {
			class := 0
			switch {
			case i%10 == 7:
				class = 2
			case i%10 == 9:
				class = 3
			}
			c := genSegCase(r, class)
			if i%25 == 24 { // a video track without stss, or no sync sample with non-negative presentation time
				for k := range c.tracks {
					if c.tracks[k].video {
						if r.Bool() {
							c.tracks[k].hasStss = false
						} else {
							for j := range c.tracks[k].samples {
								c.tracks[k].samples[j].sync = false
							}
						}
					}
				}
			}
			ts := make([]string, len(c.tracks))
			for k, tr := range c.tracks {
				ts[k] = tablesOf(tr).String()
			}
			fmt.Fprintf(out, "T\tt%d\t%d\t%s\t%s\n", id, c.durMS, strings.Join(ts, ";"), toolPlan(c, t))
			id++
		}
	}
	if t.segmenter != "" {
		corrWriters(seed, n/2+2, t, &id)
	}
	corrRest(seed, n, t, &id)
	corrCombine(seed, n/2+10, t, &id)
	corrInits(seed, n/3+10, t, &id)
	corrMuxOpt(seed, n+50, &id)
}
