// Synthesis of small progressive and fragmented MP4 files from explicit per-sample specifications,
// and reading back of per-track sample lists from produced init/media segments.
package main

import (
	"bytes"
	"encoding/hex"
	"fmt"
	"os"

	"github.com/Eyevinn/mp4ff/aac"
	"github.com/Eyevinn/mp4ff/mp4"
)

const sps1nalu = "674d401fe4605017fcb80b4f00000300010000030032e4800753003a9e08200e58e189c0"
const pps1nalu = "685bdf20"

// smp is one sample of a synthesized track.
type smp struct {
	dur  uint32
	cto  int32
	sync bool
	size uint32
}

// trackSpec describes one track of a synthesized progressive file.
type trackSpec struct {
	video     bool
	timescale uint32
	samples   []smp
	hasStss   bool  // video always; audio optionally
	hasCtts   bool  // write a ctts box (even if all offsets are zero)
	spc       []int // samples-per-chunk pattern (cycled), every entry >= 1
	co64      bool
	sdtp      []byte // optional: one raw sdtp entry per sample
	elst      bool   // an edit list in the trak (the segmenter works on media time and ignores it)
	uniform   bool   // stsz with sample_size != 0 and no table (only when all sizes are equal)
}

// flat is the property-level view of one sample: what must be conserved.
type flat struct {
	dts   uint64
	dur   uint32
	cto   int32
	flags uint32
	data  []byte
}

func (a flat) eq(b flat) bool {
	return a.dts == b.dts && a.dur == b.dur && a.cto == b.cto && a.flags == b.flags && bytes.Equal(a.data, b.data)
}

func (a flat) String() string {
	d := a.data
	if len(d) > 6 {
		d = d[:6]
	}
	return fmt.Sprintf("{dts=%d dur=%d cto=%d flags=%08x len=%d data=%x..}", a.dts, a.dur, a.cto, a.flags, len(a.data), d)
}

// sampleBytes gives every (track, sample) pair distinct, position-dependent content.
func sampleBytes(trackIdx, sampleNr int, size uint32) []byte {
	b := make([]byte, size)
	for j := range b {
		b[j] = byte(trackIdx*131 + sampleNr*29 + j*7 + 1)
	}
	if size >= 4 {
		b[0] = byte(0xA0 + trackIdx)
		b[1] = byte(sampleNr >> 8)
		b[2] = byte(sampleNr)
	}
	return b
}

// expectedFlags is the oracle's own statement of what the segmenter must put into trun flags:
// with an stss box a sync sample is (depends_on=2, sync) and any other is non-sync; without stss no
// information exists and the flags are zero.
func expectedFlags(hasStss, sync bool) uint32 {
	if !hasStss {
		return 0
	}
	if sync {
		return 0x02000000
	}
	return 0x00010000
}

// expectedFlagsSdtp: with an sdtp box the four dependency fields come from its entry
// (is_leading, depends_on, is_depended_on, has_redundancy); non-sync still comes from stss.
func expectedFlagsSdtp(hasStss, sync bool, e byte) uint32 {
	f := uint32(e>>6&3)<<26 | uint32(e>>4&3)<<24 | uint32(e>>2&3)<<22 | uint32(e&3)<<20
	if hasStss && !sync {
		f |= 0x00010000
	}
	return f
}

// expectedSamples is the input's per-track sample sequence (decode times accumulated from durations).
func expectedSamples(trackIdx int, ts trackSpec) []flat {
	out := make([]flat, len(ts.samples))
	var dts uint64
	for i, s := range ts.samples {
		out[i] = flat{dts: dts, dur: s.dur, cto: s.cto, flags: expectedFlags(ts.hasStss, s.sync),
			data: sampleBytes(trackIdx, i+1, s.size)}
		if len(ts.sdtp) == len(ts.samples) {
			out[i].flags = expectedFlagsSdtp(ts.hasStss, s.sync, ts.sdtp[i])
		}
		dts += uint64(s.dur)
	}
	return out
}

type chunkRef struct {
	track, first, n int // samples first..first+n-1 (0-based) of track
}

// buildProgressive writes ftyp moov mdat (or ftyp mdat moov) with interleaved chunks.
func buildProgressive(tracks []trackSpec, mdatFirst bool) ([]byte, error) {
	f := mp4.NewFile()
	ftyp := mp4.NewFtyp("isom", 0x200, []string{"isom", "iso2", "avc1", "mp41"})
	f.AddChild(ftyp, 0)
	moov := mp4.NewMoovBox()
	mvhd := mp4.CreateMvhd()
	mvhd.Timescale = 1000
	mvhd.NextTrackID = uint32(len(tracks) + 1)
	moov.AddChild(mvhd)

	// chunk plan per track
	perTrack := make([][]chunkRef, len(tracks))
	for ti, ts := range tracks {
		i, k := 0, 0
		for i < len(ts.samples) {
			n := 1
			if len(ts.spc) > 0 {
				n = ts.spc[k%len(ts.spc)]
			}
			if n < 1 {
				n = 1
			}
			if i+n > len(ts.samples) {
				n = len(ts.samples) - i
			}
			perTrack[ti] = append(perTrack[ti], chunkRef{ti, i, n})
			i += n
			k++
		}
	}
	// interleave round robin
	var order []chunkRef
	for k := 0; ; k++ {
		any := false
		for ti := range tracks {
			if k < len(perTrack[ti]) {
				order = append(order, perTrack[ti][k])
				any = true
			}
		}
		if !any {
			break
		}
	}
	// mdat payload and chunk offsets relative to payload start
	mdat := &mp4.MdatBox{}
	relOff := make([][]uint64, len(tracks))
	var pos uint64
	for _, c := range order {
		relOff[c.track] = append(relOff[c.track], pos)
		for s := c.first; s < c.first+c.n; s++ {
			d := sampleBytes(c.track, s+1, tracks[c.track].samples[s].size)
			mdat.AddSampleData(d)
			pos += uint64(len(d))
		}
	}
	var maxDurMs uint64
	sps, _ := hex.DecodeString(sps1nalu)
	pps, _ := hex.DecodeString(pps1nalu)
	for ti, ts := range tracks {
		mt := "audio"
		if ts.video {
			mt = "video"
		}
		trak := mp4.CreateEmptyTrak(uint32(ti+1), ts.timescale, mt, "und")
		stbl := trak.Mdia.Minf.Stbl
		if ts.video {
			if err := trak.SetAVCDescriptor("avc1", [][]byte{sps}, [][]byte{pps}, true); err != nil {
				return nil, err
			}
		} else {
			if err := trak.SetAACDescriptor(aac.AAClc, 48000); err != nil {
				return nil, err
			}
		}
		// stts
		var total uint64
		for _, s := range ts.samples {
			n := len(stbl.Stts.SampleCount)
			if n > 0 && stbl.Stts.SampleTimeDelta[n-1] == s.dur {
				stbl.Stts.SampleCount[n-1]++
			} else {
				stbl.Stts.SampleCount = append(stbl.Stts.SampleCount, 1)
				stbl.Stts.SampleTimeDelta = append(stbl.Stts.SampleTimeDelta, s.dur)
			}
			total += uint64(s.dur)
		}
		trak.Mdia.Mdhd.Duration = total
		if ts.timescale > 0 {
			ms := total * 1000 / uint64(ts.timescale)
			if ms > maxDurMs {
				maxDurMs = ms
			}
			trak.Tkhd.Duration = ms
		}
		// ctts
		if ts.hasCtts {
			ctts := &mp4.CttsBox{}
			var counts []uint32
			var offs []int32
			for _, s := range ts.samples {
				n := len(counts)
				if n > 0 && offs[n-1] == s.cto {
					counts[n-1]++
				} else {
					counts = append(counts, 1)
					offs = append(offs, s.cto)
				}
				if s.cto < 0 {
					ctts.Version = 1
				}
			}
			if err := ctts.AddSampleCountsAndOffset(counts, offs); err != nil {
				return nil, err
			}
			stbl.AddChild(ctts)
		}
		// stss
		if ts.hasStss {
			stss := &mp4.StssBox{}
			for i, s := range ts.samples {
				if s.sync {
					stss.SampleNumber = append(stss.SampleNumber, uint32(i+1))
				}
			}
			stbl.AddChild(stss)
		}
		// sdtp
		if len(ts.sdtp) == len(ts.samples) && len(ts.samples) > 0 {
			es := make([]mp4.SdtpEntry, len(ts.sdtp))
			for i, e := range ts.sdtp {
				es[i] = mp4.SdtpEntry(e)
			}
			stbl.AddChild(mp4.CreateSdtpBox(es))
		}
		// stsz
		stbl.Stsz.SampleNumber = uint32(len(ts.samples))
		allEq := len(ts.samples) > 0
		for _, s := range ts.samples {
			if s.size != ts.samples[0].size || s.size == 0 {
				allEq = false
			}
		}
		if ts.uniform && allEq {
			stbl.Stsz.SampleUniformSize = ts.samples[0].size
		} else {
			for _, s := range ts.samples {
				stbl.Stsz.SampleSize = append(stbl.Stsz.SampleSize, s.size)
			}
		}
		if ts.elst {
			edts := &mp4.EdtsBox{}
			edts.AddChild(&mp4.ElstBox{Entries: []mp4.ElstEntry{{SegmentDuration: total * 1000 / uint64(ts.timescale+1), MediaTime: int64(ts.samples[0].cto), MediaRateInteger: 1}}})
			trak.AddChild(edts)
		}
		// stsc
		prev := -1
		for ci, c := range perTrack[ti] {
			if c.n != prev {
				if err := stbl.Stsc.AddEntry(uint32(ci+1), uint32(c.n), 1); err != nil {
					return nil, err
				}
				prev = c.n
			}
		}
		// stco / co64 (placeholder offsets; fixed below)
		if ts.co64 {
			co := &mp4.Co64Box{ChunkOffset: make([]uint64, len(perTrack[ti]))}
			// replace the stco child
			for i, ch := range stbl.Children {
				if _, ok := ch.(*mp4.StcoBox); ok {
					stbl.Children[i] = co
				}
			}
			stbl.Stco = nil
			stbl.Co64 = co
		} else {
			stbl.Stco.ChunkOffset = make([]uint32, len(perTrack[ti]))
		}
		moov.AddChild(trak)
	}
	mvhd.Duration = maxDurMs
	var payloadStart uint64
	if mdatFirst {
		payloadStart = ftyp.Size() + 8
	} else {
		payloadStart = ftyp.Size() + moov.Size() + 8
	}
	for ti := range tracks {
		stbl := moov.Traks[ti].Mdia.Minf.Stbl
		for ci := range perTrack[ti] {
			if stbl.Co64 != nil {
				stbl.Co64.ChunkOffset[ci] = payloadStart + relOff[ti][ci]
			} else {
				stbl.Stco.ChunkOffset[ci] = uint32(payloadStart + relOff[ti][ci])
			}
		}
	}
	if mdatFirst {
		f.AddChild(mdat, 0)
		f.AddChild(moov, 0)
	} else {
		f.AddChild(moov, 0)
		f.AddChild(mdat, 0)
	}
	var buf bytes.Buffer
	if err := f.Encode(&buf); err != nil {
		return nil, err
	}
	return buf.Bytes(), nil
}

// fragSpec: one fragmented input (for resegmenter / Fragmentify / combine-segs): the samples of the main
// track, how they are cut into segments, fragments and truns, and how the boxes carry them.
type fragSpec struct {
	video     bool
	timescale uint32
	samples   []flat  // main track; decode times contiguous inside a fragment
	segLens   [][]int // per segment: per fragment: number of samples
	trunLens  [][]int // per fragment (global index): samples per trun of the main traf; nil = one trun
	styp      bool
	defaults  int // 0 everything per sample in trun; 1 library OptimizeTrun; 2 common values moved to tfhd defaults / first-sample-flags by hand (also multi-trun)
	baseMode  int // 0 default-base-is-moof; 1 no tfhd base flags; 2 tfhd base-data-offset = moof position; 3 base-data-offset = mdat payload, trun without data-offset
	extra     int // > 0: a second track (second traf) with this many samples after every main trun
	elst      bool
	trackID   uint32
	noInit    bool // resegmenter input without ftyp/moov (trex defaults unknown to the tool)
}

func (fs fragSpec) mainID() uint32 {
	if fs.trackID == 0 {
		return 1
	}
	return fs.trackID
}
func (fs fragSpec) extraID() uint32 { return fs.mainID() + 10 }

func (fs fragSpec) multiTrun() bool {
	for _, t := range fs.trunLens {
		if len(t) > 1 {
			return true
		}
	}
	return false
}

func fullSampleOf(s flat) mp4.FullSample {
	return mp4.FullSample{
		Sample:     mp4.Sample{Flags: s.flags, Dur: s.dur, Size: uint32(len(s.data)), CompositionTimeOffset: s.cto},
		DecodeTime: s.dts,
		Data:       s.data,
	}
}

func buildInit(fs fragSpec) (*mp4.InitSegment, error) {
	init := mp4.CreateEmptyInit()
	mt := "audio"
	if fs.video {
		mt = "video"
	}
	init.AddEmptyTrack(fs.timescale, mt, "und")
	trak := init.Moov.Trak
	if fs.video {
		sps, _ := hex.DecodeString(sps1nalu)
		pps, _ := hex.DecodeString(pps1nalu)
		if err := trak.SetAVCDescriptor("avc1", [][]byte{sps}, [][]byte{pps}, true); err != nil {
			return nil, err
		}
	} else {
		if err := trak.SetAACDescriptor(aac.AAClc, 48000); err != nil {
			return nil, err
		}
	}
	trak.Tkhd.TrackID = fs.mainID()
	init.Moov.Mvex.Trex.TrackID = fs.mainID()
	if fs.elst {
		edts := &mp4.EdtsBox{}
		edts.AddChild(&mp4.ElstBox{Entries: []mp4.ElstEntry{{SegmentDuration: 0, MediaTime: int64(fs.timescale) / 25, MediaRateInteger: 1}}})
		trak.AddChild(edts)
	}
	if fs.extra > 0 {
		init.AddEmptyTrack(48000, "audio", "und")
		t2 := init.Moov.Traks[1]
		if err := t2.SetAACDescriptor(aac.AAClc, 48000); err != nil {
			return nil, err
		}
		t2.Tkhd.TrackID = fs.extraID()
		init.Moov.Mvex.Trexs[1].TrackID = fs.extraID()
		init.Moov.Mvhd.NextTrackID = fs.extraID() + 1
	}
	return init, nil
}

// moveDefaults: what an encoder that minimises the moof does for one traf, by hand, over all its truns:
// common duration / size / flags go to tfhd defaults; "first differs, rest common" uses first-sample-flags.
func moveDefaults(traf *mp4.TrafBox) {
	var all []mp4.Sample
	for _, t := range traf.Truns {
		all = append(all, t.Samples...)
	}
	if len(all) == 0 {
		return
	}
	same := func(f func(mp4.Sample) uint32, ss []mp4.Sample) bool {
		for _, s := range ss {
			if f(s) != f(ss[0]) {
				return false
			}
		}
		return true
	}
	dur := func(s mp4.Sample) uint32 { return s.Dur }
	size := func(s mp4.Sample) uint32 { return s.Size }
	flags := func(s mp4.Sample) uint32 { return s.Flags }
	if same(dur, all) {
		traf.Tfhd.Flags |= 0x8
		traf.Tfhd.DefaultSampleDuration = all[0].Dur
		for _, t := range traf.Truns {
			t.Flags &^= mp4.TrunSampleDurationPresentFlag
		}
	}
	if same(size, all) {
		traf.Tfhd.Flags |= 0x10
		traf.Tfhd.DefaultSampleSize = all[0].Size
		for _, t := range traf.Truns {
			t.Flags &^= mp4.TrunSampleSizePresentFlag
		}
	}
	if same(flags, all) {
		traf.Tfhd.Flags |= 0x20
		traf.Tfhd.DefaultSampleFlags = all[0].Flags
		for _, t := range traf.Truns {
			t.Flags &^= mp4.TrunSampleFlagsPresentFlag
		}
		return
	}
	// first-sample-flags: every trun is "first sample anything, the rest = one common value"
	var common uint32
	have := false
	for _, t := range traf.Truns {
		for i, s := range t.Samples {
			if i == 0 {
				continue
			}
			if !have {
				common, have = s.Flags, true
			} else if s.Flags != common {
				return
			}
		}
	}
	if !have {
		return
	}
	traf.Tfhd.Flags |= 0x20
	traf.Tfhd.DefaultSampleFlags = common
	for _, t := range traf.Truns {
		t.Flags &^= mp4.TrunSampleFlagsPresentFlag
		if len(t.Samples) > 0 {
			t.SetFirstSampleFlags(t.Samples[0].Flags)
		}
	}
}

type builtFrag struct {
	frag *mp4.Fragment
}

// buildSegments returns the media segments; extraOut receives the samples of the second track (if any).
func buildSegments(fs fragSpec, extraOut *[]flat) ([]*mp4.MediaSegment, error) {
	ids := []uint32{fs.mainID()}
	if fs.extra > 0 {
		ids = append(ids, fs.extraID())
	}
	var segs []*mp4.MediaSegment
	k := 0
	fi := 0
	seq := uint32(1)
	var xdts uint64
	xn := 0
	for _, fl := range fs.segLens {
		var seg *mp4.MediaSegment
		if fs.styp {
			seg = mp4.NewMediaSegment()
		} else {
			seg = mp4.NewMediaSegmentWithoutStyp()
		}
		for _, n := range fl {
			frag, err := mp4.CreateMultiTrackFragment(seq, ids)
			if err != nil {
				return nil, err
			}
			seq++
			truns := []int{n}
			if fi < len(fs.trunLens) && len(fs.trunLens[fi]) > 0 {
				truns = fs.trunLens[fi]
			}
			fi++
			order := uint32(0)
			main := frag.Moof.Trafs[0]
			firstMain, firstExtra := true, true
			left := n
			for _, tn := range truns {
				if tn > left {
					tn = left
				}
				left -= tn
				trun := mp4.CreateTrun(order)
				order++
				_ = main.AddChild(trun)
				for i := 0; i < tn && k < len(fs.samples); i++ {
					s := fs.samples[k]
					if firstMain {
						main.Tfdt.SetBaseMediaDecodeTime(s.dts)
						firstMain = false
					}
					trun.AddSample(fullSampleOf(s).Sample)
					frag.Mdat.AddSampleData(s.data)
					k++
				}
				if fs.extra > 0 {
					xt := frag.Moof.Trafs[1]
					xtrun := mp4.CreateTrun(order)
					order++
					_ = xt.AddChild(xtrun)
					for i := 0; i < fs.extra; i++ {
						xn++
						x := flat{dts: xdts, dur: 1024, flags: 0x02000000, data: sampleBytes(int(fs.extraID()), xn, uint32(2+xn%5))}
						if firstExtra {
							xt.Tfdt.SetBaseMediaDecodeTime(x.dts)
							firstExtra = false
						}
						xtrun.AddSample(fullSampleOf(x).Sample)
						frag.Mdat.AddSampleData(x.data)
						xdts += 1024
						if extraOut != nil {
							*extraOut = append(*extraOut, x)
						}
					}
				}
			}
			single := len(truns) == 1 && fs.extra == 0
			switch fs.defaults {
			case 1:
				if single && n > 0 {
					frag.EncOptimize = mp4.OptimizeTrun
				}
			case 2, 3:
				for _, traf := range frag.Moof.Trafs {
					moveDefaults(traf)
				}
			}
			for _, traf := range frag.Moof.Trafs {
				switch fs.baseMode {
				case 1:
					traf.Tfhd.Flags &^= 0x020000
				case 2:
					traf.Tfhd.Flags = traf.Tfhd.Flags&^0x020000 | 0x1
				case 3:
					if single {
						traf.Tfhd.Flags = traf.Tfhd.Flags&^0x020000 | 0x1
						traf.Trun.Flags &^= mp4.TrunDataOffsetPresentFlag
					}
				}
			}
			seg.AddFragment(frag)
		}
		segs = append(segs, seg)
	}
	return segs, nil
}

// encodeFragmented lays the boxes out, fixes absolute base-data-offsets, and encodes.
func encodeFragmented(fs fragSpec, withInit bool) ([]byte, error) {
	var buf bytes.Buffer
	var pos uint64
	segs, err := buildSegments(fs, nil)
	if err != nil {
		return nil, err
	}
	if withInit {
		init, err := buildInit(fs)
		if err != nil {
			return nil, err
		}
		if fs.defaults == 3 {
			liftCommonToTrex(init, segs)
		}
		if err := init.Encode(&buf); err != nil {
			return nil, err
		}
		pos = uint64(buf.Len())
	}
	if err := encodeSegments(&buf, segs, pos, fs); err != nil {
		return nil, err
	}
	return buf.Bytes(), nil
}

func encodeSegments(buf *bytes.Buffer, segs []*mp4.MediaSegment, pos uint64, fs fragSpec) error {
	for _, s := range segs {
		if s.Styp != nil {
			pos += s.Styp.Size()
		}
		for _, frag := range s.Fragments {
			if frag.EncOptimize&mp4.OptimizeTrun != 0 {
				// sizes must be final before positions are computed
				if err := frag.Moof.Traf.OptimizeTfhdTrun(); err != nil {
					return err
				}
				frag.EncOptimize = 0
			}
			for _, traf := range frag.Moof.Trafs {
				if traf.Tfhd.Flags&0x1 != 0 {
					traf.Tfhd.BaseDataOffset = pos
					if fs.baseMode == 3 && traf.Trun != nil && traf.Trun.Flags&mp4.TrunDataOffsetPresentFlag == 0 {
						traf.Tfhd.BaseDataOffset = pos + frag.Moof.Size() + frag.Mdat.HeaderSize()
					}
				}
			}
			pos += frag.Size()
		}
		before := buf.Len()
		if err := s.Encode(buf); err != nil {
			return err
		}
		_ = before
	}
	return nil
}

// ---------------------------------------------------------------- reading outputs back

func flatOf(fs mp4.FullSample) flat {
	d := make([]byte, len(fs.Data))
	copy(d, fs.Data)
	return flat{dts: fs.DecodeTime, dur: fs.Dur, cto: fs.CompositionTimeOffset, flags: fs.Flags, data: d}
}

func decodeBytes(b []byte) (*mp4.File, error) {
	return mp4.DecodeFile(bytes.NewReader(b))
}

func decodePath(p string) (*mp4.File, error) {
	b, err := os.ReadFile(p)
	if err != nil {
		return nil, err
	}
	return decodeBytes(b)
}

// trexFor finds the trex of a track in an init segment (nil if absent).
func trexFor(init *mp4.InitSegment, trackID uint32) *mp4.TrexBox {
	if init == nil || init.Moov == nil || init.Moov.Mvex == nil {
		return nil
	}
	for _, t := range init.Moov.Mvex.Trexs {
		if t.TrackID == trackID {
			return t
		}
	}
	return nil
}

// segmentSamples returns, per media segment of the file, the samples of trackID (fragments concatenated).
func segmentSamples(f *mp4.File, trex *mp4.TrexBox, trackID uint32) ([][]flat, error) {
	var out [][]flat
	for _, seg := range f.Segments {
		var ss []flat
		for _, frag := range seg.Fragments {
			fs, err := fragSamples(frag, trex, trackID)
			if err != nil {
				return nil, err
			}
			ss = append(ss, fs...)
		}
		out = append(out, ss)
	}
	return out, nil
}

func fragSamples(frag *mp4.Fragment, trex *mp4.TrexBox, trackID uint32) ([]flat, error) {
	t := trex
	if t == nil {
		t = &mp4.TrexBox{TrackID: trackID}
	}
	fss, err := frag.GetFullSamples(t)
	if err != nil {
		return nil, err
	}
	out := make([]flat, len(fss))
	for i, s := range fss {
		out[i] = flatOf(s)
	}
	return out, nil
}

// diffFlat describes the first difference between two sample sequences ("" when equal).
func diffFlat(got, want []flat) string {
	n := len(got)
	if len(want) < n {
		n = len(want)
	}
	for i := 0; i < n; i++ {
		if !got[i].eq(want[i]) {
			return fmt.Sprintf("sample %d differs: got %v want %v (got %d samples, want %d)", i+1, got[i], want[i], len(got), len(want))
		}
	}
	if len(got) != len(want) {
		return fmt.Sprintf("got %d samples, want %d", len(got), len(want))
	}
	return ""
}

// liftCommonToTrex (defaults == 3): a tfhd default that every fragment's main traf carries with one common value is
// moved to the trex of the init segment: the file then RELIES on trex defaults, as encoders that minimise the moof do.
func liftCommonToTrex(init *mp4.InitSegment, segs []*mp4.MediaSegment) {
	var trafs []*mp4.TrafBox
	for _, s := range segs {
		for _, f := range s.Fragments {
			if len(f.Moof.Trafs) > 0 {
				trafs = append(trafs, f.Moof.Trafs[0])
			}
		}
	}
	if len(trafs) == 0 {
		return
	}
	trex := init.Moov.Mvex.Trex
	common := func(bit uint32, get func(*mp4.TfhdBox) uint32) (uint32, bool) {
		for _, t := range trafs {
			if t.Tfhd.Flags&bit == 0 || get(t.Tfhd) != get(trafs[0].Tfhd) {
				return 0, false
			}
		}
		return get(trafs[0].Tfhd), true
	}
	if v, ok := common(0x8, func(h *mp4.TfhdBox) uint32 { return h.DefaultSampleDuration }); ok {
		trex.DefaultSampleDuration = v
		for _, t := range trafs {
			t.Tfhd.Flags &^= 0x8
			t.Tfhd.DefaultSampleDuration = 0
		}
	}
	if v, ok := common(0x10, func(h *mp4.TfhdBox) uint32 { return h.DefaultSampleSize }); ok {
		trex.DefaultSampleSize = v
		for _, t := range trafs {
			t.Tfhd.Flags &^= 0x10
			t.Tfhd.DefaultSampleSize = 0
		}
	}
	if v, ok := common(0x20, func(h *mp4.TfhdBox) uint32 { return h.DefaultSampleFlags }); ok {
		trex.DefaultSampleFlags = v
		for _, t := range trafs {
			t.Tfhd.Flags &^= 0x20
			t.Tfhd.DefaultSampleFlags = 0
		}
	}
}
