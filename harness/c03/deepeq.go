// Structural equality of two decoded structures (observe_at of the property: "structural equality (nil == empty) of the
// two decodings"): every field, exported or not, compared by reflection; nil and empty slices / maps are equal.
package main

import (
	"fmt"
	"reflect"
)

type ptrPair struct{ a, b uintptr }

// deepDiff returns "" when x and y are structurally equal, otherwise the path of the first difference.
func deepDiff(x, y interface{}) string {
	return diffValue(reflect.ValueOf(x), reflect.ValueOf(y), "", map[ptrPair]bool{}, 0)
}

func diffValue(a, b reflect.Value, path string, seen map[ptrPair]bool, depth int) string {
	if depth > 200 {
		return ""
	}
	if !a.IsValid() || !b.IsValid() {
		if a.IsValid() != b.IsValid() {
			return path + ": one side missing"
		}
		return ""
	}
	if a.Type() != b.Type() {
		return fmt.Sprintf("%s: types %s / %s", path, a.Type(), b.Type())
	}
	switch a.Kind() {
	case reflect.Ptr, reflect.Interface:
		if a.IsNil() || b.IsNil() {
			if a.IsNil() != b.IsNil() {
				return path + ": nil / non-nil"
			}
			return ""
		}
		if a.Kind() == reflect.Ptr {
			k := ptrPair{a.Pointer(), b.Pointer()}
			if seen[k] {
				return ""
			}
			seen[k] = true
		}
		return diffValue(a.Elem(), b.Elem(), path, seen, depth+1)
	case reflect.Struct:
		for i := 0; i < a.NumField(); i++ {
			if d := diffValue(a.Field(i), b.Field(i), path+"."+a.Type().Field(i).Name, seen, depth+1); d != "" {
				return d
			}
		}
		return ""
	case reflect.Slice, reflect.Array:
		if a.Len() != b.Len() {
			return fmt.Sprintf("%s: len %d / %d", path, a.Len(), b.Len())
		}
		if a.Kind() == reflect.Slice && a.Type().Elem().Kind() == reflect.Uint8 {
			for i := 0; i < a.Len(); i++ {
				if a.Index(i).Uint() != b.Index(i).Uint() {
					return fmt.Sprintf("%s[%d]: bytes differ", path, i)
				}
			}
			return ""
		}
		for i := 0; i < a.Len(); i++ {
			if d := diffValue(a.Index(i), b.Index(i), fmt.Sprintf("%s[%d]", path, i), seen, depth+1); d != "" {
				return d
			}
		}
		return ""
	case reflect.Map:
		if a.Len() != b.Len() {
			return fmt.Sprintf("%s: map len %d / %d", path, a.Len(), b.Len())
		}
		for _, k := range a.MapKeys() {
			bv := b.MapIndex(k)
			if !bv.IsValid() {
				return fmt.Sprintf("%s: key missing", path)
			}
			if d := diffValue(a.MapIndex(k), bv, path+"[k]", seen, depth+1); d != "" {
				return d
			}
		}
		return ""
	case reflect.Bool:
		if a.Bool() != b.Bool() {
			return fmt.Sprintf("%s: %v / %v", path, a.Bool(), b.Bool())
		}
	case reflect.Int, reflect.Int8, reflect.Int16, reflect.Int32, reflect.Int64:
		if a.Int() != b.Int() {
			return fmt.Sprintf("%s: %d / %d", path, a.Int(), b.Int())
		}
	case reflect.Uint, reflect.Uint8, reflect.Uint16, reflect.Uint32, reflect.Uint64, reflect.Uintptr:
		if a.Uint() != b.Uint() {
			return fmt.Sprintf("%s: %d / %d", path, a.Uint(), b.Uint())
		}
	case reflect.Float32, reflect.Float64:
		if a.Float() != b.Float() {
			return fmt.Sprintf("%s: floats differ", path)
		}
	case reflect.String:
		if a.String() != b.String() {
			return fmt.Sprintf("%s: %q / %q", path, a.String(), b.String())
		}
	case reflect.Func, reflect.Chan, reflect.UnsafePointer:
		if a.IsNil() != b.IsNil() {
			return path + ": nil / non-nil"
		}
	}
	return ""
}
