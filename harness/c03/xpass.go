// Y lines: the per-moof second senc pass of the two FILE loops (coq/c03/C03SencPassModel.v: decode_file_xr / decode_file_xsr).
//
// Synthesized files: [ftyp moov{traks}] [free] (moof{trafs} mdat)+ where every trak is clear / encrypted (with or without tenc,
// IV size 0/8/16) / without tkhd / without sample entry, and every traf picks a track id (or has no tfhd) and carries
// no senc / a zero-sample senc (parsed at once) / an unparsed senc that parses / one that does not / a PIFF uuid senc, with or
// without saio (matching / mismatching / empty) and seig sample groups.  Trafs mixing clear / encrypted / zero-sample senc in
// every order (exhaustive over a small alphabet, up to 3 trafs) + random longer ones, one or two moofs.
// Observed through DecodeFile (cfg RN0 / RN2) and DecodeFileSR (SN0 / SN2): outcome class, grouping + StartPos, and for every traf
// of every moof the state of the senc ParseReadSenc would pick (still unparsed, len(IVs), len(SubSamples)).
//
// The byte renderers of the encrypted-fragment intent (xSenc .. xTrak.render, modelStrings) mirror harness/c04/xref.go (C04's X lines).
package main

import (
	"encoding/binary"
	"fmt"
	"strings"

	"github.com/Eyevinn/mp4ff/mp4"
	"verifharness/hx"
)


// ---------------------------------------------------------------- intent of a synthesized encrypted fragment
type xSenc struct {
	piff  bool
	flags uint32
	count uint32
	raw   []byte
	off   int // filled by render: start of the box in the file
}

type xSbgp struct {
	typ     string
	ver     byte
	entries [][2]uint32 // sample_count, group_description_index
}

type xSgpd struct {
	typ string
	ver byte
	ivs []int // seig entries: per-sample IV size 8 / 16, 0 = unprotected, -8 = protected with an 8-byte constant IV; roll entries: any
}

type xSaio struct {
	ver  byte
	mode string // match, +1, -1, 0, big, neg, wrap (version 1: match + 2^32), empty, second (mismatch, match)
}

type xTraf struct {
	tfhd  int64 // -1: no tfhd
	saio  *xSaio
	sbgps []xSbgp
	sgpds []xSgpd
	sencs []xSenc
	saioV []uint64 // filled by render
}

type xTrak struct {
	tkhd  int64  // -1: no tkhd
	entry string // n (empty stsd) | c | e (no sinf) | cN | eN (tenc with DefaultPerSampleIVSize N) | es (sinf without schi) | et (schi without tenc)
}

// sencData renders count samples with IVs of ivSize bytes; with subsamples every sample has i%3 sub-samples
func sencData(flags uint32, count int, ivSize int) []byte {
	var d []byte
	for i := 0; i < count; i++ {
		for k := 0; k < ivSize; k++ {
			d = append(d, byte(0x10+i))
		}
		if flags&2 != 0 {
			ns := i % 3
			d = append(d, u16(uint16(ns))...)
			for j := 0; j < ns; j++ {
				d = cat(d, u16(uint16(10+j)), u32(uint32(100+j)))
			}
		}
	}
	return d
}

func mkSenc(piff bool, flags uint32, count, ivSize int) xSenc {
	return xSenc{piff: piff, flags: flags, count: uint32(count), raw: sencData(flags, count, ivSize)}
}

var piffSencUUID = []byte{0xa2, 0x39, 0x4f, 0x52, 0x5a, 0x9b, 0x4f, 0x14, 0xa2, 0x44, 0x6c, 0x42, 0x7c, 0x64, 0x8d, 0xf4}

func (s xSenc) render() []byte {
	body := cat(u32(s.flags&0xffffff), u32(s.count), s.raw)
	if s.piff {
		return box("uuid", piffSencUUID, body)
	}
	return box("senc", body)
}

func (b xSbgp) render() []byte {
	var e []byte
	for _, x := range b.entries {
		e = cat(e, u32(x[0]), u32(x[1]))
	}
	if b.ver == 1 {
		return fullbox("sbgp", 1, 0, []byte(b.typ), u32(0), u32(uint32(len(b.entries))), e)
	}
	return fullbox("sbgp", 0, 0, []byte(b.typ), u32(uint32(len(b.entries))), e)
}

var kid16 = []byte{0x91, 0x4e, 0x69, 0xf4, 0x0a, 0xb3, 0x45, 0x34, 0x9e, 0x9f, 0x98, 0x53, 0x61, 0x5e, 0x26, 0xf6}

func seigEntry(iv int) []byte {
	switch {
	case iv == 0:
		return cat([]byte{0, 0, 0, 0}, kid16)
	case iv < 0:
		return cat([]byte{0, 0, 1, 0}, kid16, []byte{byte(-iv)}, make([]byte, -iv))
	}
	return cat([]byte{0, 0, 1, byte(iv)}, kid16)
}

func (g xSgpd) render() []byte {
	var ents [][]byte
	for _, iv := range g.ivs {
		if g.typ == "seig" {
			ents = append(ents, seigEntry(iv))
		} else {
			ents = append(ents, u16(uint16(iv))) // roll distance
		}
	}
	same := true
	for _, e := range ents {
		if len(e) != len(ents[0]) {
			same = false
		}
	}
	ver := g.ver
	if ver == 0 {
		ver = 1
	}
	var p []byte
	p = cat(p, []byte(g.typ))
	if same && len(ents) > 0 {
		p = cat(p, u32(uint32(len(ents[0]))))
	} else if len(ents) == 0 {
		p = cat(p, u32(20))
	} else {
		p = cat(p, u32(0))
	}
	if ver >= 2 {
		p = cat(p, u32(1))
	}
	p = cat(p, u32(uint32(len(ents))))
	for _, e := range ents {
		if !same {
			p = cat(p, u32(uint32(len(e))))
		}
		p = cat(p, e)
	}
	return fullbox("sgpd", ver, 0, p)
}

func (a *xSaio) render(vals []uint64) []byte {
	var e []byte
	for _, v := range vals {
		if a.ver == 1 {
			e = cat(e, u64(v))
		} else {
			e = cat(e, u32(uint32(v)))
		}
	}
	return fullbox("saio", a.ver, 1, []byte("cenc"), u32(0), u32(uint32(len(vals))), e)
}

func (a *xSaio) nvals() int {
	switch a.mode {
	case "empty":
		return 0
	case "second":
		return 2
	}
	return 1
}

// values of the saio offsets given the moof-relative position of the picked senc's data (StartPos+16-moofStart)
func (a *xSaio) values(rel int64) []uint64 {
	var v int64
	switch a.mode {
	case "empty":
		return nil
	case "match":
		v = rel
	case "+1":
		v = rel + 1
	case "-1":
		v = rel - 1
	case "0":
		v = 0
	case "big":
		v = 0x7fffffff
	case "neg":
		v = -1
	case "wrap":
		v = rel + (1 << 32)
	case "second":
		if a.ver == 1 {
			return []uint64{uint64(rel + 7), uint64(rel)}
		}
		return []uint64{uint64(uint32(rel + 7)), uint64(uint32(rel))}
	}
	if a.ver == 1 {
		return []uint64{uint64(v)}
	}
	// version 0 stores int32: the decoder sign-extends
	return []uint64{uint64(int64(int32(uint32(v))))}
}

type encvParts struct{ ftyp, mvhd, tkhd, mdhd, hdlr, vmhd, dinf, hdr78, avcC, frma, schm, stsc, stsz, stco []byte }

var ep *encvParts

func getEncv() *encvParts {
	if ep != nil {
		return ep
	}
	d := mustRead("init_cenc.cmfv")
	stsd := rawPath(d, "moov/trak/mdia/minf/stbl/stsd")
	encv := rawChildren(stsd, 8)[0]
	kids := rawChildren(encv, 78)
	sinf := rawFind(kids, "sinf")
	sk := rawChildren(sinf, 0)
	ep = &encvParts{
		ftyp: rawPath(d, "ftyp"), mvhd: rawPath(d, "moov/mvhd"), tkhd: rawPath(d, "moov/trak/tkhd"),
		mdhd: rawPath(d, "moov/trak/mdia/mdhd"), hdlr: rawPath(d, "moov/trak/mdia/hdlr"),
		vmhd: rawPath(d, "moov/trak/mdia/minf/vmhd"), dinf: rawPath(d, "moov/trak/mdia/minf/dinf"),
		hdr78: encv[8:86], avcC: rawFind(kids, "avcC"), frma: rawFind(sk, "frma"), schm: rawFind(sk, "schm"),
		stsc: rawPath(d, "moov/trak/mdia/minf/stbl/stsc"), stsz: rawPath(d, "moov/trak/mdia/minf/stbl/stsz"),
		stco: rawPath(d, "moov/trak/mdia/minf/stbl/stco"),
	}
	return ep
}

func tencBox(iv int) []byte {
	if iv == 0 {
		return fullbox("tenc", 0, 0, []byte{0, 0, 0, 0}, kid16)
	}
	return fullbox("tenc", 0, 0, []byte{0, 0, 1, byte(iv)}, kid16)
}

func (t xTrak) render() []byte {
	p := getEncv()
	var entry []byte
	e := t.entry
	switch {
	case e == "n":
	case e == "c":
		entry = box("avc1", p.hdr78, p.avcC)
	case e == "e":
		entry = box("encv", p.hdr78, p.avcC)
	case e == "es":
		entry = box("encv", p.hdr78, p.avcC, box("sinf", p.frma, p.schm))
	case e == "et":
		entry = box("encv", p.hdr78, p.avcC, box("sinf", p.frma, p.schm, box("schi")))
	default:
		var iv int
		fmt.Sscanf(e[1:], "%d", &iv)
		name := "encv"
		if e[0] == 'c' {
			name = "avc1"
		}
		entry = box(name, p.hdr78, p.avcC, box("sinf", p.frma, p.schm, box("schi", tencBox(iv))))
	}
	n := uint32(0)
	if entry != nil {
		n = 1
	}
	stsd := fullbox("stsd", 0, 0, u32(n), entry)
	stbl := box("stbl", stsd, fullbox("stts", 0, 0, u32(0)), p.stsc, p.stsz, p.stco)
	mdia := box("mdia", p.mdhd, p.hdlr, box("minf", p.vmhd, p.dinf, stbl))
	if t.tkhd < 0 {
		return box("trak", mdia)
	}
	tk := append([]byte(nil), p.tkhd...)
	binary.BigEndian.PutUint32(tk[20:], uint32(t.tkhd))
	return box("trak", tk, mdia)
}

// ---------------------------------------------------------------- a file with several moofs
type yCase struct {
	hasMoov bool
	traks   []xTrak
	pre     int        // free bytes before the first moof
	moofs   [][]xTraf  // per moof: its trafs
}

type yTop struct {
	code string // F | M<depth>.<stts> | U | O | D<payload>
	size int
}

// renderMoof: one moof at file offset moofStart; fills the senc offsets and the saio values (two passes: sizes do not depend on them)
func renderMoof(trafs []xTraf, moofStart int) []byte {
	for ti := range trafs {
		trafs[ti].sencs = append([]xSenc(nil), trafs[ti].sencs...)
	}
	var moof []byte
	for pass := 0; pass < 2; pass++ {
		pos := moofStart + 8
		mf := mfhd(1)
		pos += len(mf)
		parts := [][]byte{mf}
		for ti := range trafs {
			t := &trafs[ti]
			var kids [][]byte
			kpos := pos + 8
			add := func(b []byte) {
				kids = append(kids, b)
				kpos += len(b)
			}
			if t.tfhd >= 0 {
				add(tfhd(uint32(t.tfhd)))
			}
			add(tfdt(0))
			for _, g := range t.sgpds {
				add(g.render())
			}
			for _, b := range t.sbgps {
				add(b.render())
			}
			if t.saio != nil {
				vals := t.saioV
				if pass == 0 {
					vals = make([]uint64, t.saio.nvals())
				}
				add(t.saio.render(vals))
			}
			add(trun(true, 100))
			for si := range t.sencs {
				t.sencs[si].off = kpos
				add(t.sencs[si].render())
			}
			if pass == 0 && t.saio != nil {
				// the senc ParseReadSenc picks: the last plain one, else the last PIFF one
				pick := -1
				for si, s := range t.sencs {
					if !s.piff {
						pick = si
					}
				}
				if pick < 0 {
					for si, s := range t.sencs {
						if s.piff {
							pick = si
						}
					}
				}
				rel := int64(0)
				if pick >= 0 {
					sp := t.sencs[pick].off
					if t.sencs[pick].piff {
						sp += 16
					}
					rel = int64(sp + 16 - moofStart)
				}
				t.saioV = t.saio.values(rel)
			}
			tb := box("traf", kids...)
			parts = append(parts, tb)
			pos += len(tb)
		}
		moof = box("moof", parts...)
	}
	return moof
}

func (c *yCase) render() (data []byte, tops []yTop) {
	add := func(code string, b []byte) {
		data = append(data, b...)
		tops = append(tops, yTop{code, len(b)})
	}
	if c.hasMoov {
		add("F", getEncv().ftyp)
		tr := [][]byte{getEncv().mvhd}
		for _, t := range c.traks {
			tr = append(tr, t.render())
		}
		depth := 0
		if len(c.traks) > 0 {
			depth = 5
		}
		add(fmt.Sprintf("M%d.0", depth), box("moov", tr...))
	}
	if c.pre > 0 {
		add("U", free(c.pre-8))
	}
	for i := range c.moofs {
		add("O", renderMoof(c.moofs[i], len(data)))
		add("D8", mdat(8))
	}
	return
}

func trafModelString(t xTraf) string {
	var f []string
	if t.tfhd >= 0 {
		f = append(f, fmt.Sprintf("h%d", t.tfhd))
	} else {
		f = append(f, "h-")
	}
	if t.saio != nil {
		var vs []string
		for _, v := range t.saioV {
			vs = append(vs, hx.HexU(v))
		}
		f = append(f, "a:"+strings.Join(vs, ","))
	} else {
		f = append(f, "a-")
	}
	if n := len(t.sbgps); n > 0 {
		b := t.sbgps[n-1]
		var es []string
		for _, x := range b.entries {
			es = append(es, fmt.Sprintf("%d.%d", x[0], x[1]))
		}
		f = append(f, fmt.Sprintf("b:%c:%s", boolc(b.typ == "seig"), strings.Join(es, ",")))
	} else {
		f = append(f, "b-")
	}
	if n := len(t.sgpds); n > 0 {
		g := t.sgpds[n-1]
		var es []string
		for _, iv := range g.ivs {
			if g.typ == "seig" {
				if iv < 0 {
					iv = 0
				}
				es = append(es, fmt.Sprintf("s%d", iv))
			} else {
				es = append(es, "o")
			}
		}
		f = append(f, fmt.Sprintf("g:%c:%s", boolc(g.typ == "seig"), strings.Join(es, ",")))
	} else {
		f = append(f, "g-")
	}
	var ss []string
	for _, s := range t.sencs {
		ss = append(ss, fmt.Sprintf("%c.%d.%d.%d.%s", boolc(s.piff), s.off, s.flags, s.count, hx.Hex(s.raw)))
	}
	f = append(f, "s:"+strings.Join(ss, ";"))
	return strings.Join(f, "|")
}

// the model's view of the case: tracks of the moov, and per moof its trafs ('&' between moofs, '/' between trafs)
func (c *yCase) modelStrings() (moov string, trafs string) {
	moov = "-"
	if c.hasMoov {
		var ts []string
		for _, t := range c.traks {
			id := "n"
			if t.tkhd >= 0 {
				id = fmt.Sprint(t.tkhd)
			}
			e := t.entry
			switch e {
			case "es", "et":
				e = "e"
			}
			ts = append(ts, id+"."+e)
		}
		moov = "m" + strings.Join(ts, ";")
	}
	var ml []string
	for _, m := range c.moofs {
		var tl []string
		for _, t := range m {
			tl = append(tl, trafModelString(t))
		}
		ml = append(ml, strings.Join(tl, "/"))
	}
	return moov, strings.Join(ml, "&")
}

// ---------------------------------------------------------------- the generator
// the traf alphabet: letter -> traf for track id tid
func yTraf(letter byte, tid int64) xTraf {
	t := xTraf{tfhd: tid}
	switch letter {
	case 'n': // no senc at all
	case 'z': // zero-sample senc: parsed in the first phase
		t.sencs = []xSenc{mkSenc(false, 0, 0, 0)}
	case 'u': // unparsed, parses with an 8-byte IV (and with IV size 0 as 1 sample... see model)
		t.sencs = []xSenc{mkSenc(false, 0, 2, 8)}
	case 's': // unparsed with sub-samples, 8-byte IVs
		t.sencs = []xSenc{mkSenc(false, 2, 3, 8)}
	case 'x': // unparsed, 16-byte IVs
		t.sencs = []xSenc{mkSenc(false, 0, 2, 16)}
	case 'b': // unparsed, does not parse with any IV size (3 left-over bytes)
		s := mkSenc(false, 2, 2, 8)
		s.raw = append(s.raw, 1, 2, 3)
		t.sencs = []xSenc{s}
	case 'p': // PIFF uuid senc, unparsed
		t.sencs = []xSenc{mkSenc(true, 0, 2, 8)}
	case 'a': // unparsed + matching saio
		t.sencs = []xSenc{mkSenc(false, 0, 2, 8)}
		t.saio = &xSaio{mode: "match"}
	case 'm': // unparsed + mismatching saio
		t.sencs = []xSenc{mkSenc(false, 0, 2, 8)}
		t.saio = &xSaio{mode: "+1"}
	case 'e': // unparsed + saio without offsets
		t.sencs = []xSenc{mkSenc(false, 0, 2, 8)}
		t.saio = &xSaio{mode: "empty"}
	case 'g': // unparsed, IV size from a seig sample group (16) overriding tenc
		t.sencs = []xSenc{mkSenc(false, 0, 2, 16)}
		t.sbgps = []xSbgp{{typ: "seig", entries: [][2]uint32{{2, 65537}}}}
		t.sgpds = []xSgpd{{typ: "seig", ivs: []int{16}}}
	case 'q': // zero-sample senc first, then an unparsed one: ContainsSencBox looks at the first
		t.sencs = []xSenc{mkSenc(false, 0, 0, 0), mkSenc(false, 0, 2, 8)}
	default:
		panic("bad traf letter")
	}
	return t
}

const yLetters = "nzusxbpamegq"

var yTrakSets = [][]xTrak{
	{{1, "c"}, {2, "e8"}},                       // clear + encrypted
	{{1, "e8"}, {2, "c"}},                       // encrypted + clear
	{{1, "e8"}, {2, "e16"}, {3, "c"}},           // two encrypted (different IV sizes) + clear
	{{1, "c"}, {2, "c"}},                        // all clear
	{{1, "e"}, {2, "e0"}, {3, "et"}},            // encrypted without tenc / IV size 0 / schi without tenc
	{{-1, "e8"}, {2, "e8"}},                     // first trak without tkhd
	{{1, "n"}, {1, "e8"}, {2, "c8"}},            // first match has no sample entry; clear entry WITH sinf/tenc
	{},                                           // moov without traks: rejected by both loops
}

func genYCases(r *hx.Rng, nRandom int) []*yCase {
	var out []*yCase
	add := func(c *yCase) { out = append(out, c) }
	// 1. every ordered pair of traf letters on tracks (1, 2) and (2, 1), behind the first three trak sets and without moov
	for _, a := range []byte(yLetters) {
		for _, b := range []byte(yLetters) {
			for k, ids := range [][2]int64{{1, 2}, {2, 1}} {
				add(&yCase{moofs: [][]xTraf{{yTraf(a, ids[0]), yTraf(b, ids[1])}}})
				for si := 0; si < 3; si++ {
					if (int(a)+int(b)+k+si)%3 == 0 || si == 0 {
						add(&yCase{hasMoov: true, traks: yTrakSets[si], moofs: [][]xTraf{{yTraf(a, ids[0]), yTraf(b, ids[1])}}})
					}
				}
			}
		}
	}
	// 2. three trafs: clear / encrypted / zero-sample in every order, every trak set; a traf without tfhd at every place
	core := []byte("uzn")
	perms := [][3]int{{0, 1, 2}, {0, 2, 1}, {1, 0, 2}, {1, 2, 0}, {2, 0, 1}, {2, 1, 0}}
	for si, ts := range yTrakSets {
		for _, p := range perms {
			for _, idp := range perms {
				if (p[0]+idp[1]+si)%2 == 1 {
					continue
				}
				var tl []xTraf
				for k := 0; k < 3; k++ {
					tl = append(tl, yTraf(core[p[k]], int64(idp[k]+1)))
				}
				add(&yCase{hasMoov: true, traks: ts, moofs: [][]xTraf{tl}})
			}
		}
		for hole := 0; hole < 3; hole++ {
			tl := []xTraf{yTraf('u', 1), yTraf('u', 2), yTraf('u', 3)}
			tl[hole].tfhd = -1
			add(&yCase{hasMoov: true, traks: ts, moofs: [][]xTraf{tl}})
			add(&yCase{moofs: [][]xTraf{tl}, pre: 16})
		}
	}
	// 3. two moofs: the state of the first must not leak into the second; the second's positions are relative to ITS start
	for _, a := range []byte("uzab") {
		for _, b := range []byte("uzam") {
			add(&yCase{hasMoov: true, traks: yTrakSets[0], moofs: [][]xTraf{{yTraf(a, 1), yTraf(b, 2)}, {yTraf(b, 2), yTraf(a, 2)}}})
			add(&yCase{moofs: [][]xTraf{{yTraf(a, 1)}, {yTraf(b, 1), yTraf(a, 2)}}, pre: 8})
		}
	}
	// 4. random
	for i := 0; i < nRandom; i++ {
		c := &yCase{pre: r.Pick(0, 0, 8, 24)}
		if r.Intn(4) > 0 {
			c.hasMoov = true
			c.traks = yTrakSets[r.Intn(len(yTrakSets))]
		}
		for m := r.Range(1, 2); m > 0; m-- {
			var tl []xTraf
			for k := r.Range(1, 4); k > 0; k-- {
				t := yTraf(yLetters[r.Intn(len(yLetters))], int64(r.Pick(1, 1, 2, 2, 3, 4, 0)))
				if r.Intn(12) == 0 {
					t.tfhd = -1
				}
				tl = append(tl, t)
			}
			c.moofs = append(c.moofs, tl)
		}
		add(c)
	}
	return out
}

// ---------------------------------------------------------------- the job: decode as a file on the path of cfg
func sencStates(f *mp4.File) string {
	var ms []string
	for _, ch := range f.Children {
		moof, ok := ch.(*mp4.MoofBox)
		if !ok {
			continue
		}
		var ts []string
		for _, tr := range moof.Trafs {
			s := tr.Senc
			if s == nil && tr.UUIDSenc != nil {
				s = tr.UUIDSenc.Senc
			}
			if s == nil {
				ts = append(ts, "-")
			} else {
				ts = append(ts, fmt.Sprintf("%c:%d:%d", boolc(s.ReadButNotParsed()), len(s.IVs), len(s.SubSamples)))
			}
		}
		ms = append(ms, strings.Join(ts, ","))
	}
	return strings.Join(ms, "&")
}

func decodeFileCfg(data []byte, cfg string) (f *mp4.File, p string, err error) {
	p = guard(func() { f, err = decodeFile(data, parseCfg(cfg)) })
	return
}

func sencPassJob(data []byte, cfg string) string {
	f, p, err := decodeFileCfg(data, cfg)
	if p != "" {
		return "dec=panic"
	}
	if err != nil {
		return "dec=err"
	}
	return "dec=ok|" + fileObs(f) + "|t=" + sencStates(f)
}

var _ = binary.BigEndian
