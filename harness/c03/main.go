// Harness for C03 (the two decoders and the two encoders are interchangeable).
//
//	c03 facts                      : key sets of the two decoder tables (through the verif hook)
//	c03 srcfacts -repo DIR [-out F] : source facts (delegating / separately written decoder and encoder pairs, position-relative
//	                                 SR decoders), see srcfacts.go; F = coq/c03/C03Facts.v
//	c03 probe -repo DIR            : reader methods observed while decoding harvested boxes vs the extractor's static method sets
//	c03 corr   -seed S -n N -exh L : D lines (shape lists through DecodeFile and DecodeFileSR: grouping observables)
//	                                 and E lines (decoded File structure with per-box encodings + File.Encode / EncodeSW bytes)
//	c03 search -seed S -n N        : the property itself on testdata files, harvested boxes and their mutants
//	c03 worker                     : isolated executor
//
// synth.go, shapes.go, worker.go, search.go, corr.go, try.go are copies of the C04 harness files (generators, isolation).
package main

import (
	"bufio"
	"bytes"
	"encoding/binary"
	"flag"
	"fmt"
	"io"
	"os"
	"strings"
	"verifharness/c01/bx"

	"github.com/Eyevinn/mp4ff/bits"
	"github.com/Eyevinn/mp4ff/mp4"
	"verifharness/hx"
)

var out = bufio.NewWriterSize(os.Stdout, 1<<20)

func main() {
	defer out.Flush()
	if len(os.Args) < 2 {
		fmt.Fprintln(os.Stderr, "usage: c03 facts|corr|search|worker ...")
		os.Exit(2)
	}
	fs := flag.NewFlagSet(os.Args[1], flag.ExitOnError)
	seed := fs.Uint64("seed", 0, "seed")
	n := fs.Int("n", 1000, "volume")
	exh := fs.Int("exh", 2, "exhaustive shape-list length")
	repo := fs.String("repo", "/repo", "srcfacts: repository whose sources are analysed")
	outv := fs.String("out", "", "srcfacts: path of the generated .v file")
	switch os.Args[1] {
	case "facts":
		r, s := mp4.VerifDecoderKeys()
		for _, k := range r {
			fmt.Fprintf(out, "R\t%x\n", k)
		}
		for _, k := range s {
			fmt.Fprintf(out, "S\t%x\n", k)
		}
	case "srcfacts":
		_ = fs.Parse(os.Args[2:])
		rc := cmdSrcFacts(*repo, *outv)
		out.Flush()
		os.Exit(rc)
	case "probe":
		_ = fs.Parse(os.Args[2:])
		rc := cmdProbe(*repo)
		out.Flush()
		os.Exit(rc)
	case "hist":
		// replay of a history witness: hist <kind> <seed> <wild> <history> <variant>
		if len(os.Args) == 7 {
			var kind int
			var sd uint64
			fmt.Sscan(os.Args[2], &kind)
			fmt.Sscan(os.Args[3], &sd)
			wild := os.Args[4] == "true"
			for _, h := range os.Args[5:7] {
				fmt.Fprintf(out, "%s: %s\n", h, strings.Join(mkHAgg(kind, sd, wild).runPlain(hx.NewRng(sd^1), h), " "))
			}
		}
	case "worker":
		cmdWorker()
	case "corr":
		_ = fs.Parse(os.Args[2:])
		cmdCorr3(*seed, *n, *exh)
	case "search":
		_ = fs.Parse(os.Args[2:])
		cmdSearch3(*seed, *n)
	default:
		fmt.Fprintln(os.Stderr, "unknown sub-command")
		os.Exit(2)
	}
}

// ---------------------------------------------------------------- the property oracle
type decoded struct {
	ok    bool
	p     string      // panic description
	dump  string      // Info(all:1) text
	group string      // grouping + StartPos (file level) / type:size (box level)
	repro bool        // re-encoding (box tree mode) reproduces the input exactly
	val   interface{} // the decoded structure itself (structural comparison of the two decodings)
}

func infoText(i interface {
	Info(w io.Writer, specificBoxLevels, indent, indentStep string) error
}) string {
	var b bytes.Buffer
	if p := guard(func() { _ = i.Info(&b, "all:1", "", " ") }); p != "" {
		return "INFO-" + p
	}
	return b.String()
}

func decFile(data []byte, sr bool, flags mp4.DecFileFlags) (f *mp4.File, p string, err error) {
	p = guard(func() { f, err = decodeFile(data, decCfg{sr: sr, flags: flags}) })
	return
}

func describeFile(data []byte, sr bool, flags mp4.DecFileFlags) decoded {
	f, p, err := decFile(data, sr, flags)
	if p != "" || err != nil {
		return decoded{p: p}
	}
	d := decoded{ok: true, dump: infoText(f), group: fileObs(f) + "|top=" + topObs(f), val: f}
	g, _, _ := decFile(data, sr, flags)
	g.FragEncMode = mp4.EncModeBoxTree
	var b bytes.Buffer
	if guard(func() { err = g.Encode(&b) }) == "" && err == nil && bytes.Equal(b.Bytes(), data) {
		d.repro = true
	}
	return d
}

// encodersAgree: Encode vs EncodeSW on freshly decoded structures, both modes
func encodersAgree(mk func() interface{}, n int, modes []mp4.EncFragFileMode) []string {
	var fails []string
	for _, mode := range modes {
		var wb bytes.Buffer
		var werr, serr error
		x := mk()
		if f, ok := x.(*mp4.File); ok {
			f.FragEncMode = mode
		}
		type enc interface {
			Encode(w io.Writer) error
			EncodeSW(sw bits.SliceWriter) error
		}
		pw := guard(func() { werr = x.(enc).Encode(&wb) })
		y := mk()
		if f, ok := y.(*mp4.File); ok {
			f.FragEncMode = mode
		}
		sw := bx.DirtyWriter(2*n + 4096)
		ps := guard(func() { serr = y.(enc).EncodeSW(sw) })
		switch {
		case pw != "" || ps != "":
			// panics are C04's business; agreement means both panic or neither
			if (pw != "") != (ps != "") {
				fails = append(fails, fmt.Sprintf("FAIL\tEncode/EncodeSW\tone-panics\tmode=%d W=%q SW=%q", mode, pw, ps))
			}
		case (werr != nil) != (serr != nil):
			fails = append(fails, fmt.Sprintf("FAIL\tEncode/EncodeSW\tone-fails\tmode=%d Werr=%v SWerr=%v", mode, werr, serr))
		case werr == nil && !bytes.Equal(wb.Bytes(), sw.Bytes()):
			fails = append(fails, fmt.Sprintf("FAIL\tEncode/EncodeSW\tbytes-differ\tmode=%d W=%d bytes SW=%d bytes", mode, wb.Len(), len(sw.Bytes())))
		}
	}
	return fails
}

func agreeFails(site string, a, b decoded, an, bn string) []string {
	var fails []string
	chk := func(x, y decoded, xn, yn string) {
		if !(x.ok && x.repro) {
			return
		}
		switch {
		case !y.ok:
			fails = append(fails, fmt.Sprintf("FAIL\t%s\t%s-rejects\t%s accepts and reproduces the input, %s fails (%s)", site, yn, xn, yn, y.p))
		case x.dump != y.dump:
			fails = append(fails, fmt.Sprintf("FAIL\t%s\tdump-differs\t%s vs %s structure dumps differ", site, xn, yn))
		case x.group != y.group:
			fails = append(fails, fmt.Sprintf("FAIL\t%s\tgrouping-differs\t%s: %s / %s: %s", site, xn, x.group, yn, y.group))
		case deepDiff(x.val, y.val) != "":
			fails = append(fails, fmt.Sprintf("FAIL\t%s\tstructure-differs\t%s vs %s: decoded structures differ at %s", site, xn, yn, deepDiff(x.val, y.val)))
		case !y.repro:
			fails = append(fails, fmt.Sprintf("FAIL\t%s\treencoding-differs\t%s reproduces the input on re-encoding, the structure decoded by %s does not", site, xn, yn))
		}
	}
	chk(a, b, an, bn)
	chk(b, a, bn, an)
	return fails
}

func fileAgree(data []byte, cfg string) string {
	flags := mp4.DecFileFlags(cfg[2] - '0')
	var fails []string
	if flags == 0 {
		a := describeFile(data, false, 0)
		b := describeFile(data, true, 0)
		fails = append(fails, agreeFails("DecodeFile/DecodeFileSR", a, b, "DecodeFile", "DecodeFileSR")...)
	}
	for _, sr := range []bool{false, true} {
		if f, p, err := decFile(data, sr, flags); p == "" && err == nil && f != nil {
			sr := sr
			fails = append(fails, encodersAgree(func() interface{} { g, _, _ := decFile(data, sr, flags); return g },
				len(data), []mp4.EncFragFileMode{mp4.EncModeSegment, mp4.EncModeBoxTree})...)
		}
	}
	if len(fails) == 0 {
		return "OK"
	}
	return strings.Join(dedup(fails), "|")
}

func dedup(l []string) []string {
	seen := map[string]bool{}
	var o []string
	for _, x := range l {
		if !seen[x] {
			seen[x] = true
			o = append(o, x)
		}
	}
	return o
}

func decBox(data []byte, sr bool) (b mp4.Box, p string, err error) {
	p = guard(func() {
		if sr {
			b, err = mp4.DecodeBoxSR(0, bits.NewFixedSliceReader(data))
		} else {
			b, err = mp4.DecodeBox(0, bytes.NewReader(data))
		}
	})
	return
}

func describeBox(data []byte, sr bool) decoded {
	b, p, err := decBox(data, sr)
	if p != "" || err != nil || b == nil {
		return decoded{p: p}
	}
	var sb strings.Builder
	dumpBox3(b, &sb)
	d := decoded{ok: true, dump: infoText(b), group: sb.String(), val: b}
	c, _, _ := decBox(data, sr)
	var buf bytes.Buffer
	if guard(func() { err = c.Encode(&buf) }) == "" && err == nil && bytes.Equal(buf.Bytes(), data) {
		d.repro = true
	}
	return d
}

func boxAgree(data []byte) string {
	a := describeBox(data, false)
	b := describeBox(data, true)
	fails := agreeFails("DecodeBox/DecodeBoxSR", a, b, "DecodeBox", "DecodeBoxSR")
	for _, sr := range []bool{false, true} {
		if x, p, err := decBox(data, sr); p == "" && err == nil && x != nil {
			sr := sr
			fails = append(fails, encodersAgree(func() interface{} { y, _, _ := decBox(data, sr); return y }, len(data),
				[]mp4.EncFragFileMode{mp4.EncModeSegment})...)
		}
	}
	if len(fails) == 0 {
		return "OK"
	}
	return strings.Join(dedup(fails), "|")
}

// ---------------------------------------------------------------- E lines: structure with per-box encodings
func encBoth(b mp4.Box) string {
	var wb bytes.Buffer
	var werr, serr error
	w, s := "!", "!"
	if guard(func() { werr = b.Encode(&wb) }) == "" && werr == nil {
		w = hx.Hex(wb.Bytes())
	}
	sw := bx.DirtyWriter(int(b.Size()) + 64)
	if guard(func() { serr = b.EncodeSW(sw) }) == "" && serr == nil {
		s = hx.Hex(sw.Bytes())
	}
	return w + "/" + s
}

func encBoxes(l []mp4.Box) string {
	ss := make([]string, len(l))
	for i, b := range l {
		ss[i] = encBoth(b)
	}
	return strings.Join(ss, ",")
}

func structLine(data []byte, cfg string, mode mp4.EncFragFileMode) string {
	c := parseCfg(cfg)
	f, err := decodeFile(data, c)
	if err != nil {
		return "-"
	}
	f.FragEncMode = mode
	_ = f.Encode(io.Discard) // applies SetTrunDataOffsets so that the per-box encodings below see the same structure
	var sb strings.Builder
	fmt.Fprintf(&sb, "%c;%c;", boolc(f.IsFragmented()), boolc(mode == mp4.EncModeBoxTree))
	if f.Init != nil {
		sb.WriteString("I" + encBoxes(f.Init.Children))
	} else {
		sb.WriteString("-")
	}
	sb.WriteByte(';')
	var sx []mp4.Box
	for _, s := range f.Sidxs {
		sx = append(sx, s)
	}
	sb.WriteString(encBoxes(sx) + ";")
	for i, sg := range f.Segments {
		if i > 0 {
			sb.WriteByte('|')
		}
		if sg.Styp != nil {
			sb.WriteString(encBoth(sg.Styp))
		} else {
			sb.WriteString("-")
		}
		sb.WriteByte('~')
		var ssx []mp4.Box
		for _, s := range sg.Sidxs {
			ssx = append(ssx, s)
		}
		sb.WriteString(encBoxes(ssx) + "~")
		for j, fr := range sg.Fragments {
			if j > 0 {
				sb.WriteByte('^')
			}
			fmt.Fprintf(&sb, "%c:%c:%s", boolc(fr.Moof != nil), boolc(fr.Mdat != nil), encBoxes(fr.Children))
		}
	}
	sb.WriteByte(';')
	if f.Mfra != nil {
		sb.WriteString(encBoth(f.Mfra))
	} else {
		sb.WriteString("-")
	}
	sb.WriteString(";" + encBoxes(f.Children))
	// the two file encoders
	var wb bytes.Buffer
	w, s := "!", "!"
	if err := f.Encode(&wb); err == nil {
		w = hx.Hex(wb.Bytes())
	}
	sw := bx.DirtyWriter(2*len(data) + 4096)
	if err := f.EncodeSW(sw); err == nil {
		s = hx.Hex(sw.Bytes())
	}
	return sb.String() + "\t" + w + "\t" + s
}

func runJob3(j job) string {
	switch j.kind {
	case "F3":
		return fileAgree(j.data, j.cfg)
	case "X3":
		return boxAgree(j.data)
	case "L3":
		return fileBoth(j.data)
	case "T3":
		return leafBoth(j.data)
	case "V3":
		return entBoth(j.data)
	case "M3":
		return encLine(j.data)
	case "P3":
		return progBoth(j.data)
	case "Y3":
		return sencPassJob(j.data, j.cfg)
	case "C3":
		return pfxBoth(j.data)
	case "G3":
		return sgpdBoth(j.data)
	case "E3":
		var r string
		mode := mp4.EncFragFileMode(j.cfg[3] - '0')
		if p := guard(func() { r = structLine(j.data, j.cfg[:3], mode) }); p != "" {
			return "-"
		}
		return r
	}
	return "badjob"
}

func min3(a, b int) int {
	if a < b {
		return a
	}
	return b
}

// ---------------------------------------------------------------- corr
func cmdCorr3(seed uint64, n int, exh int) {
	r := hx.NewRng(seed)
	var lists [][]*shape
	al := alphabet()
	var rec func(prefix []*shape, left int)
	rec = func(prefix []*shape, left int) {
		if len(prefix) > 0 {
			l := make([]*shape, len(prefix))
			for i, s := range prefix {
				l[i] = cloneShape(s)
			}
			lists = append(lists, l)
		}
		if left == 0 {
			return
		}
		for _, s := range al {
			rec(append(prefix, s), left-1)
		}
	}
	rec(nil, exh)
	for i := 0; i < n; i++ {
		lists = append(lists, randomList(r))
	}
	var jobs []job
	var metas []string
	for _, l := range lists {
		data := renderList(l)
		ls := listString(l)
		for _, c := range []string{"RN0", "SN0", "RN2", "SN2"} {
			jobs = append(jobs, job{kind: "A", cfg: c, data: data})
			metas = append(metas, "D\t"+c+"\t"+ls)
		}
		if len(l) >= 2 {
			for _, c := range []string{"RN00", "RN01", "RN10", "SN00"} {
				jobs = append(jobs, job{kind: "E3", cfg: c, data: data})
				metas = append(metas, "E\t"+c+"\t"+ls)
			}
		}
	}
	// small real files for the encode pair
	for _, fn := range []string{"init.mp4", "aac_init.mp4", "moof_enc.m4s", "init_cenc.cmfv", "2xSencNoMdat.mp4", "aac_1.m4s"} {
		for _, c := range []string{"RN00", "RN01", "RN10", "SN00"} {
			jobs = append(jobs, job{kind: "E3", cfg: c, data: mustRead(fn)})
			metas = append(metas, "E\t"+c+"\t"+fn)
		}
	}
	// B: box trees with many 16-byte headers through DecodeBox / DecodeBoxSR; L: byte-level files through both file decoders
	bin := genB3Inputs(r, n)
	for _, d := range bin {
		jobs = append(jobs, job{kind: "B", cfg: "-", data: d})
		metas = append(metas, "B\t"+hx.Hex(d))
	}
	for _, d := range genL3Inputs(r, n) {
		jobs = append(jobs, job{kind: "L3", cfg: "-", data: d})
		metas = append(metas, "L\t"+hx.Hex(d))
	}
	for _, d := range genT3Inputs(r, n) {
		jobs = append(jobs, job{kind: "T3", cfg: "-", data: d})
		metas = append(metas, "T\t"+hx.Hex(d))
	}
	for _, d := range genV3Inputs(r, n) {
		jobs = append(jobs, job{kind: "V3", cfg: "-", data: d})
		metas = append(metas, "V\t"+hx.Hex(d))
		jobs = append(jobs, job{kind: "M3", cfg: "-", data: d})
		metas = append(metas, "M\t")
	}
	for _, d := range genP3Inputs(r, n) {
		jobs = append(jobs, job{kind: "P3", cfg: "-", data: d})
		metas = append(metas, "P\t"+hx.Hex(d))
	}
	for _, d := range genG3Inputs(r, n) {
		jobs = append(jobs, job{kind: "G3", cfg: "-", data: d})
		metas = append(metas, "G\t"+hx.Hex(d))
	}
	for _, d := range genC3Inputs(r, n) {
		jobs = append(jobs, job{kind: "C3", cfg: "-", data: d})
		metas = append(metas, "C\t"+hx.Hex(d))
		jobs = append(jobs, job{kind: "M3", cfg: "-", data: d})
		metas = append(metas, "M\t")
	}
	// Y: the second senc pass of the two file loops over trafs mixing clear / encrypted / zero-sample senc
	for _, c := range genYCases(r, n/4) {
		data, tops := c.render()
		moov, trafs := c.modelStrings()
		ts := make([]string, len(tops))
		for i, t := range tops {
			ts[i] = fmt.Sprintf("%s@%d", t.code, t.size)
		}
		for _, cfg := range []string{"RN0", "SN0", "RN2", "SN2"} {
			jobs = append(jobs, job{kind: "Y3", cfg: cfg, data: data})
			metas = append(metas, "Y\t"+cfg+"\t"+moov+"\t"+strings.Join(ts, ";")+"\t"+trafs)
		}
	}
	for _, pl := range []int{0, 1, 7, 300} {
		for _, d := range [][]byte{mdat(pl), lmdat(pl)} {
			jobs = append(jobs, job{kind: "M3", cfg: "-", data: d})
			metas = append(metas, "M\t")
		}
	}
	// H: encode histories through the two encoders (in-process: the structures are built through the public API)
	genHCases(r, n/2, func(line string) { fmt.Fprintln(out, line) })
	res := runJobs(jobs, nprocs())
	for i, m := range metas {
		if m[0] == 'P' {
			fmt.Fprintf(out, "P\tp%d\t%s\t%s\n", i, m[2:], res[i])
		} else if m[0] == 'G' {
			fmt.Fprintf(out, "G\tg%d\t%s\t%s\n", i, m[2:], res[i])
		} else if m[0] == 'M' {
			if res[i] != "-" {
				fmt.Fprintf(out, "M\tm%d\t%s\n", i, res[i])
			}
		} else if m[0] == 'Y' {
			fmt.Fprintf(out, "Y\ty%d\t%s\t%s\n", i, m[2:], res[i])
		} else if m[0] == 'C' {
			fmt.Fprintf(out, "C\tc%d\t%s\t%s\n", i, m[2:], res[i])
		} else if m[0] == 'V' {
			fmt.Fprintf(out, "V\tv%d\t%s\t%s\n", i, m[2:], res[i])
		} else if m[0] == 'T' {
			fmt.Fprintf(out, "T\tt%d\t%s\t%s\n", i, m[2:], res[i])
		} else if m[0] == 'B' {
			fmt.Fprintf(out, "B\tb%d\t%s\t%s\n", i, m[2:], projectB(res[i]))
		} else if m[0] == 'L' {
			fmt.Fprintf(out, "L\tl%d\t%s\t%s\n", i, m[2:], res[i])
		} else if m[0] == 'D' {
			obs := projectResult(res[i])
			if k := strings.Index(obs, "|i="); k >= 0 {
				obs = obs[:k]
			}
			f := strings.SplitN(m, "\t", 3)
			fmt.Fprintf(out, "D\td%d\t%s\t%s\t%s\n", i, f[1], f[2], obs)
		} else if res[i] != "-" {
			f := strings.SplitN(m, "\t", 3)
			fmt.Fprintf(out, "E\te%d\t%s\t%s\t%s\n", i, f[1], f[2], res[i])
		}
	}
}

// ---------------------------------------------------------------- search
func cmdSearch3(seed uint64, n int) {
	r := hx.NewRng(seed ^ 0xc03)
	files := testdataFiles()
	var jobs []job
	var descs []string
	perFile := n / (3 * len(files))
	if perFile < 10 {
		perFile = 10
	}
	for _, fn := range files {
		data := mustRead(fn)
		budget := perFile
		if len(data) > 100000 {
			budget = perFile / 3
		}
		k := 0
		mutantsOf(fn, data, r, budget, func(m mutant) {
			cfgs := []string{"RN0"}
			if k%4 == 0 {
				cfgs = append(cfgs, []string{"RN1", "RN2"}[k/4%2])
			}
			k++
			for _, c := range cfgs {
				jobs = append(jobs, job{kind: "F3", cfg: c, gen: m.gen})
				descs = append(descs, m.desc+" cfg="+c)
			}
		})
	}
	// synthesized files (shape lists), incl. the empty-container-plus-sibling family
	for i := 0; i < n/10; i++ {
		l := randomList(r)
		data := renderList(l)
		jobs = append(jobs, job{kind: "F3", cfg: "RN0", data: data})
		descs = append(descs, "shapes:"+listString(l))
	}
	for _, d := range [][]byte{cat(box("udta"), free(1)), cat(getParts().ftyp, box("udta"), free(1)), cat(box("moof", box("traf")), mdat(1)),
		cat(box("udta", box("udta"), free(1)), free(2)), lbox("free", []byte{1, 2}), box("udta", lbox("free", []byte{1}))} {
		jobs = append(jobs, job{kind: "F3", cfg: "RN0", data: d})
		descs = append(descs, "seed:"+hx.Hex(d))
	}
	lj, ld := largeSearchJobs(r, n)
	jobs = append(jobs, lj...)
	descs = append(descs, ld...)
	// the leaf pairs: every generated trun / senc / mdat box (all trun flag combinations, lying sizes, truncations, counts)
	for _, d := range genT3Inputs(r, n/40) {
		jobs = append(jobs, job{kind: "X3", cfg: "-", data: d})
		descs = append(descs, "leafpair:"+hx.Hex(d))
	}
	for _, d := range genV3Inputs(r, n/40) {
		jobs = append(jobs, job{kind: "X3", cfg: "-", data: d})
		descs = append(descs, "entrypair:"+hx.Hex(d))
	}
	for _, d := range genP3Inputs(r, n/40) {
		jobs = append(jobs, job{kind: "X3", cfg: "-", data: d})
		descs = append(descs, "progpair:"+hx.Hex(d))
	}
	for _, d := range genC3Inputs(r, n/40) {
		jobs = append(jobs, job{kind: "X3", cfg: "-", data: d})
		descs = append(descs, "pfxpair:"+hx.Hex(d))
	}
	for _, d := range genG3Inputs(r, n/40) {
		jobs = append(jobs, job{kind: "X3", cfg: "-", data: d})
		descs = append(descs, "sgpdpair:"+hx.Hex(d))
	}
	// every generated pair box whose size field is its length once more as the first child of a container, a sibling behind it: the SR decoder
	// then runs on a reader that continues behind the box (a decoder that looks at what is left in ITS reader differs there and only there)
	for gi, ds := range [][][]byte{genT3Inputs(r, n/40), genV3Inputs(r, n/40), genP3Inputs(r, n/40), genC3Inputs(r, n/40), genG3Inputs(r, n/40)} {
		for _, d := range ds {
			if len(d) >= 8 && uint64(binary.BigEndian.Uint32(d[:4])) == uint64(len(d)) {
				w := box("udta", cat(d, free(int(r.Intn(3))*4)))
				jobs = append(jobs, job{kind: "X3", cfg: "-", data: w})
				descs = append(descs, fmt.Sprintf("pair-with-sibling%d:%s", gi, hx.Hex(w)))
			}
		}
	}
	// file level: init segment + moof{mfhd, traf{tfhd, trun (every flag combination, 0..2 samples)[, senc]}} + mdat (compact / 16-byte header)
	{
		pp := getParts()
		init := cat(pp.ftyp, moovChain(5, 0))
		for fl := 0; fl < 64; fl++ {
			flags := uint32(fl&1) | uint32(fl>>1&1)<<2 | uint32(fl>>2&1)<<8 | uint32(fl>>3&1)<<9 | uint32(fl>>4&1)<<10 | uint32(fl>>5&1)<<11
			cnt := fl % 3
			tb := trunBody(r, 0, flags, uint32(cnt), cnt)
			if flags&1 != 0 { // a data offset that Encode accepts (non-zero)
				copy(tb[8:], u32(100))
			}
			kids := [][]byte{tfhd(1), box("trun", tb)}
			if fl%4 == 0 {
				kids = append(kids, senc(uint32(cnt), r.Bytes(8*cnt, nil)))
			}
			moof := box("moof", mfhd(1), box("traf", kids...))
			md := mdat(4)
			if fl%2 == 1 {
				md = lmdat(4)
			}
			for _, d := range [][]byte{cat(init, moof, md), cat(styp(), moof, md, moof, md)} {
				jobs = append(jobs, job{kind: "F3", cfg: "RN0", data: d})
				descs = append(descs, fmt.Sprintf("fragfile:trunflags=%x:%s", flags, hx.Hex(d[len(d)-min3(len(d), 120):])))
			}
		}
	}
	// several trafs per moof mixing clear / encrypted / zero-sample senc in every order (the Y cases of the correspondence): the
	// second senc pass of the two file loops must leave every traf's senc in the same state (structural comparison of the decodings)
	for i, c := range genYCases(r, n/40) {
		data, _ := c.render()
		moov, trafs := c.modelStrings()
		jobs = append(jobs, job{kind: "F3", cfg: []string{"RN0", "RN0", "RN2"}[i%3], data: data})
		descs = append(descs, "sencpass:"+moov+":"+trafs)
	}
	seen := map[string]bool{}
	perBox := n / 300
	if perBox < 5 {
		perBox = 5
	}
	for _, fn := range files {
		data := mustRead(fn)
		var boxes []rawBox
		walkRaw(data, 0, len(data), 0, nil, &boxes)
		for _, b := range boxes {
			if b.name == "mdat" || b.size > 1<<16 {
				continue
			}
			bd := data[b.off : b.off+b.size]
			if seen[string(bd)] {
				continue
			}
			seen[string(bd)] = true
			mutantsOf(fn+"/"+b.name, bd, r, perBox, func(m mutant) {
				jobs = append(jobs, job{kind: "X3", cfg: "-", gen: m.gen})
				descs = append(descs, m.desc)
			})
		}
	}
	for _, d := range [][]byte{box("udta"), box("udta", box("udta"), free(1)), lbox("zzzz", []byte{1, 2}), box("moof", box("traf"), free(0)),
		box("udta", lbox("zzzz", []byte{1}))} {
		jobs = append(jobs, job{kind: "X3", cfg: "-", data: d})
		descs = append(descs, "seed:"+hx.Hex(d))
	}
	sj, sd := seedJobs()
	jobs = append(jobs, sj...)
	descs = append(descs, sd...)
	res := runJobs(jobs, nprocs())
	for i, rs := range res {
		if rs == "OK" {
			continue
		}
		d := jobs[i].bytes()
		w := "hex:" + hx.Hex(d)
		if len(d) > 4096 {
			w = "mutation:" + descs[i]
		}
		if strings.HasPrefix(rs, "dec=") { // worker died / hung: C04's classes
			fmt.Fprintf(out, "FAIL\tworker\t%s\t%s\t%s\n", strings.TrimPrefix(rs, "dec="), w, descs[i])
			continue
		}
		for _, f := range strings.Split(rs, "|") {
			p := strings.SplitN(f, "\t", 4)
			if len(p) == 4 && p[0] == "FAIL" {
				fmt.Fprintf(out, "FAIL\t%s\t%s\t%s\t%s: %s\n", p[1], p[2], w, descs[i], strings.ReplaceAll(p[3], "\t", " "))
			}
		}
	}
	hn := searchHist(r, n/8)
	fmt.Fprintf(out, "EVALS\t%d\n", len(jobs)+hn)
}
