// Worker subprocess: every hostile call runs here.  The parent (corr / search) re-invokes this binary as
// `worker`, sends batches of jobs on stdin and reads one result line per job; a job that kills the worker
// (fatal error: out of memory, stack overflow) or does not answer within its wall-clock budget is
// classified by the parent (overalloc / hang) and the worker is restarted at the next job.
package main

import (
	"bufio"
	"bytes"
	"fmt"
	"io"
	"os"
	"os/exec"
	"runtime/metrics"
	"strings"
	"sync"
	"time"
	"verifharness/c01/bx"

	"github.com/Eyevinn/mp4ff/bits"
	"github.com/Eyevinn/mp4ff/mp4"
	"verifharness/hx"
)

type job struct {
	kind string // A = file pipeline with all post-ops, B = box decode both paths, P = file pipeline, property only
	cfg  string
	data []byte
	gen  func() []byte // lazily generated input (search): keeps the parent's memory bounded
}

func (j job) bytes() []byte {
	if j.gen != nil {
		return j.gen()
	}
	return j.data
}

// budgets: time and allocation allowed for ONE operation on an input of n bytes
func timeBudget(n int) time.Duration {
	return 1500*time.Millisecond + time.Duration(n)*2*time.Microsecond
}
func allocBudget(n int) uint64 { return 64*uint64(n) + (16 << 20) }

var allocSample = []metrics.Sample{{Name: "/gc/heap/allocs:bytes"}}

// allocBytes: cumulative bytes allocated on the heap by this process (runtime/metrics, no stop-the-world)
func allocBytes() uint64 {
	metrics.Read(allocSample)
	return allocSample[0].Value.Uint64()
}

// measured runs f, returns class suffix "" | "overalloc" | "slow" plus the panic string
func measured(n int, f func()) (p string, over string, dt time.Duration, da uint64) {
	a0 := allocBytes()
	t0 := time.Now()
	p = guard(f)
	dt = time.Since(t0)
	da = allocBytes() - a0
	if da > allocBudget(n) {
		over = "overalloc"
	} else if dt > timeBudget(n) {
		over = "hang"
	}
	return
}

func parseCfg(c string) decCfg {
	var d decCfg
	d.sr = c[0] == 'S'
	d.lazy = c[1] == 'L'
	d.flags = mp4.DecFileFlags(c[2] - '0')
	return d
}

func cls(p, over string, err error) string {
	if p != "" {
		return p
	}
	if over != "" {
		return over
	}
	if err != nil {
		return "err"
	}
	return "ok"
}

func boolc(b bool) byte {
	if b {
		return '1'
	}
	return '0'
}

// fileObs prints the grouping observables of a decoded file (the projection the model predicts).
func fileObs(f *mp4.File) string {
	var sb strings.Builder
	fmt.Fprintf(&sb, "frag=%c", boolc(f.IsFragmented()))
	if f.Init != nil {
		fmt.Fprintf(&sb, "|init=%d", len(f.Init.Children))
	} else {
		sb.WriteString("|init=-")
	}
	if f.Mdat != nil {
		fmt.Fprintf(&sb, "|mdat=%d", f.Mdat.Size()-f.Mdat.HeaderSize())
	} else {
		sb.WriteString("|mdat=-")
	}
	fmt.Fprintf(&sb, "|nsidx=%d|mfra=%c|nch=%d|segs=", len(f.Sidxs), boolc(f.Mfra != nil), len(f.Children))
	for i, s := range f.Segments {
		if i > 0 {
			sb.WriteByte(';')
		}
		fmt.Fprintf(&sb, "%d.%c.%d[", s.StartPos, boolc(s.Styp != nil), len(s.Sidxs))
		for j, fr := range s.Fragments {
			if j > 0 {
				sb.WriteByte(',')
			}
			fmt.Fprintf(&sb, "%d.%d.%c.%c", fr.StartPos, len(fr.Children), boolc(fr.Moof != nil), boolc(fr.Mdat != nil))
		}
		sb.WriteByte(']')
	}
	return sb.String()
}

type stat struct {
	ns    int64
	alloc uint64
	n     int
}

var worst stat

func note(n int, dt time.Duration, da uint64) {
	if n < 64 {
		n = 64
	}
	if float64(dt.Nanoseconds())/float64(n) > float64(worst.ns)/float64(max1(worst.n)) {
		worst.ns, worst.n = dt.Nanoseconds(), n
	}
	if da > worst.alloc {
		worst.alloc = da
	}
}

func max1(a int) int {
	if a < 1 {
		return 1
	}
	return a
}

// pipeline: decode (fresh for every post-op so that no op sees another's mutations), then Info at three
// levels and both encoders in both modes.  Result: dec=<class>[|<obs>|i=..|e0=W,SW|e1=W,SW]; failures of the
// property (panic/hang/overalloc) keep their description.
func pipeline(data []byte, c decCfg, withObs bool) string {
	n := len(data)
	var f *mp4.File
	var err error
	p, over, dt, da := measured(n, func() { f, err = decodeFile(data, c) })
	note(n, dt, da)
	res := "dec=" + cls(p, over, err)
	if p != "" || over != "" || err != nil {
		return res
	}
	if withObs {
		res += "|" + fileObs(f)
	}
	redo := func() *mp4.File {
		g, e := decodeFile(data, c)
		if e != nil {
			panic("non-deterministic decode")
		}
		return g
	}
	var is []string
	for _, lv := range []string{"", "all:1", "all:2"} {
		g := redo()
		p, over, dt, da = measured(n, func() { err = g.Info(io.Discard, lv, "", "  ") })
		note(n, dt, da)
		is = append(is, cls(p, over, err))
	}
	res += "|i=" + strings.Join(is, ",")
	for _, mode := range []mp4.EncFragFileMode{mp4.EncModeSegment, mp4.EncModeBoxTree} {
		g := redo()
		g.FragEncMode = mode
		p, over, dt, da = measured(n, func() { err = g.Encode(io.Discard) })
		note(n, dt, da)
		w := cls(p, over, err)
		g = redo()
		g.FragEncMode = mode
		p, over, dt, da = measured(n, func() {
			sw := bx.DirtyWriter(2*n + 4096)
			err = g.EncodeSW(sw)
		})
		note(n, dt, da)
		res += fmt.Sprintf("|e%d=%s,%s", mode, w, cls(p, over, err))
	}
	return res
}

// dumpBox: name:size{children}
func dumpBox(b mp4.Box, sb *strings.Builder) {
	fmt.Fprintf(sb, "%x:%d", b.Type(), b.Size())
	if c, ok := b.(mp4.ContainerBox); ok {
		sb.WriteByte('{')
		for i, ch := range c.GetChildren() {
			if i > 0 {
				sb.WriteByte(',')
			}
			dumpBox(ch, sb)
		}
		sb.WriteByte('}')
	}
}

// boxBoth: DecodeBox on a bytes.Reader and DecodeBoxSR on a FixedSliceReader
func boxBoth(data []byte) string {
	n := len(data)
	var b mp4.Box
	var err error
	rd := bytes.NewReader(data)
	p, over, dt, da := measured(n, func() { b, err = mp4.DecodeBox(0, rd) })
	note(n, dt, da)
	var r1 string
	switch {
	case p != "" || over != "":
		r1 = cls(p, over, err)
	case err == io.EOF:
		r1 = "eof"
	case err != nil:
		r1 = "err"
	default:
		var sb strings.Builder
		dumpBox(b, &sb)
		r1 = fmt.Sprintf("ok:%s:%d", sb.String(), n-rd.Len())
	}
	sr := bits.NewFixedSliceReader(hx.Exact(data))
	p, over, dt, da = measured(n, func() { b, err = mp4.DecodeBoxSR(0, sr) })
	note(n, dt, da)
	var r2 string
	switch {
	case p != "" || over != "":
		r2 = cls(p, over, err)
	case err != nil:
		r2 = "err"
	default:
		var sb strings.Builder
		dumpBox(b, &sb)
		r2 = fmt.Sprintf("ok:%s:%d:%c", sb.String(), sr.GetPos(), boolc(sr.AccError() != nil))
	}
	return r1 + "\t" + r2
}

func runJob(j job) string {
	switch j.kind {
	case "A":
		return pipeline(j.data, parseCfg(j.cfg), true)
	case "P":
		return pipeline(j.data, parseCfg(j.cfg), false)
	case "B":
		return boxBoth(j.data)
	case "X":
		return boxPipeline(j.data)
	}
	return runJob3(j)
}

// cmdWorker: lines "<kind> <cfg> <hex>" -> "<result>"; "STAT" -> worst time/alloc seen
func cmdWorker() {
	in := bufio.NewReaderSize(os.Stdin, 1<<20)
	w := bufio.NewWriter(os.Stdout)
	for {
		line, err := in.ReadString('\n')
		line = strings.TrimRight(line, "\n")
		if line == "STAT" {
			fmt.Fprintf(w, "STAT %d %d %d\n", worst.ns, worst.n, worst.alloc)
			w.Flush()
		} else if line != "" {
			f := strings.SplitN(line, " ", 3)
			fmt.Fprintln(w, runJob(job{kind: f[0], cfg: f[1], data: hx.UnHex(f[2])}))
			w.Flush()
		}
		if err != nil {
			return
		}
	}
}

// ---------------------------------------------------------------- parent side
type proc struct {
	cmd   *exec.Cmd
	in    io.WriteCloser
	lines chan string
	errb  *bytes.Buffer
}

func startWorker() *proc {
	cmd := exec.Command(os.Args[0], "worker")
	in, _ := cmd.StdinPipe()
	outp, _ := cmd.StdoutPipe()
	eb := &bytes.Buffer{}
	cmd.Stderr = eb
	if err := cmd.Start(); err != nil {
		panic(err)
	}
	p := &proc{cmd: cmd, in: in, lines: make(chan string, 1024), errb: eb}
	go func() {
		sc := bufio.NewScanner(outp)
		sc.Buffer(make([]byte, 1<<20), 1<<28)
		for sc.Scan() {
			p.lines <- sc.Text()
		}
		close(p.lines)
	}()
	return p
}

func (p *proc) kill() {
	p.in.Close()
	_ = p.cmd.Process.Kill()
	_ = p.cmd.Wait()
}

type runStats struct {
	sync.Mutex
	ns         int64
	n          int
	alloc      uint64
	restarts   int
	remeasured int
}

var rstats runStats

// runJobs executes the jobs in nproc workers (contiguous chunks), results in job order.
func runJobs(jobs []job, nproc int) []string {
	res := make([]string, len(jobs))
	if nproc < 1 {
		nproc = 1
	}
	var wg sync.WaitGroup
	chunk := (len(jobs) + nproc - 1) / nproc
	for w := 0; w < nproc; w++ {
		lo, hi := w*chunk, (w+1)*chunk
		if hi > len(jobs) {
			hi = len(jobs)
		}
		if lo >= hi {
			break
		}
		wg.Add(1)
		go func(lo, hi int) {
			defer wg.Done()
			runChunk(jobs, res, lo, hi)
		}(lo, hi)
	}
	wg.Wait()
	// time / allocation classes are re-measured once, alone, so that scheduling noise of the parallel run
	// is not reported as a finding; a reproducible hang or over-allocation keeps its class
	for i, r := range res {
		if strings.Contains(r, "hang") || strings.Contains(r, "overalloc") {
			one := make([]string, len(jobs))
			runChunk(jobs, one, i, i+1)
			res[i] = one[i]
			rstats.Lock()
			rstats.remeasured++
			rstats.Unlock()
		}
	}
	return res
}

const batch = 64

func runChunk(jobs []job, res []string, lo, hi int) {
	p := startWorker()
	defer func() { p.kill() }()
	i := lo
	for i < hi {
		var sb strings.Builder
		budget := time.Duration(0)
		e := i
		for e < hi && e < i+batch && sb.Len() < 8<<20 {
			d := jobs[e].bytes()
			fmt.Fprintf(&sb, "%s %s %s\n", jobs[e].kind, jobs[e].cfg, hx.Hex(d))
			budget += 30 * timeBudget(len(d)) // a job is up to ~25 operations
			e++
		}
		_, _ = io.WriteString(p.in, sb.String())
		deadline := time.After(budget)
		k := i
		dead := ""
	recv:
		for k < e {
			select {
			case l, ok := <-p.lines:
				if !ok {
					dead = "died"
					break recv
				}
				res[k] = l
				k++
			case <-deadline:
				dead = "hang"
				break recv
			}
		}
		if dead != "" {
			// job k is the culprit
			p.kill()
			stderr := p.errb.String()
			c := dead
			if strings.Contains(stderr, "out of memory") || strings.Contains(stderr, "cannot allocate") {
				c = "overalloc"
			} else if strings.Contains(stderr, "stack overflow") || strings.Contains(stderr, "goroutine stack exceeds") {
				c = "panic:stack overflow@" + topFrame(stderr)
			} else if dead == "died" {
				c = "panic:fatal@" + firstLine(stderr)
			}
			res[k] = "dec=" + c
			if jobs[k].kind == "B" || jobs[k].kind == "X" {
				res[k] = c + "\t" + c
			}
			rstats.Lock()
			rstats.restarts++
			rstats.Unlock()
			p = startWorker()
			i = k + 1
			continue
		}
		i = e
	}
	// collect stats
	_, _ = io.WriteString(p.in, "STAT\n")
	select {
	case l := <-p.lines:
		var ns int64
		var n int
		var al uint64
		fmt.Sscanf(l, "STAT %d %d %d", &ns, &n, &al)
		rstats.Lock()
		if n > 0 && float64(ns)/float64(n) > float64(rstats.ns)/float64(max1(rstats.n)) {
			rstats.ns, rstats.n = ns, n
		}
		if al > rstats.alloc {
			rstats.alloc = al
		}
		rstats.Unlock()
	case <-time.After(5 * time.Second):
	}
}

func firstLine(s string) string {
	if i := strings.Index(s, "\n"); i >= 0 {
		s = s[:i]
	}
	if len(s) > 120 {
		s = s[:120]
	}
	return s
}
