package main

import (
	"bytes"
	"encoding/binary"
	"fmt"
	"io"
	"os"
	"path/filepath"
	"sort"
	"strings"
	"verifharness/c01/bx"

	"github.com/Eyevinn/mp4ff/bits"
	"github.com/Eyevinn/mp4ff/mp4"
	"verifharness/hx"
)

type rawBox struct {
	off, size, hdr int
	name           string
	depth          int
	parents        []int // offsets of the ancestors' size fields
}

var rawContainers = map[string]int{ // name -> bytes to skip before the children
	"moov": 0, "trak": 0, "mdia": 0, "minf": 0, "stbl": 0, "dinf": 0, "edts": 0, "mvex": 0, "moof": 0, "traf": 0,
	"mfra": 0, "udta": 0, "sinf": 0, "schi": 0, "stsd": 8, "dref": 8, "meta": 4, "ilst": 0,
	"avc1": 78, "encv": 78, "hvc1": 78, "hev1": 78, "mp4a": 28, "enca": 28,
}

func walkRaw(data []byte, off, end, depth int, parents []int, out *[]rawBox) {
	for off+8 <= end {
		sz := int(binary.BigEndian.Uint32(data[off:]))
		hl := 8
		if sz == 1 && off+16 <= end {
			sz = int(binary.BigEndian.Uint64(data[off+8:]))
			hl = 16
		}
		if sz < hl || off+sz > end {
			return
		}
		name := string(data[off+4 : off+8])
		*out = append(*out, rawBox{off, sz, hl, name, depth, append([]int(nil), parents...)})
		if skip, ok := rawContainers[name]; ok && depth < 8 && hl == 8 && off+hl+skip <= off+sz {
			walkRaw(data, off+hl+skip, off+sz, depth+1, append(parents, off), out)
		}
		off += sz
	}
}

var countField = map[string]int{"stts": 12, "ctts": 12, "stsc": 12, "stco": 12, "co64": 12, "stss": 12, "elst": 12,
	"dref": 12, "stsd": 12, "stsz": 16, "trun": 12, "senc": 12, "tfra": 20, "sbgp": 16, "sgpd": 16, "saio": 12, "saiz": 13,
	"subs": 12, "sdtp": -1, "pssh": 28}

func put32(d []byte, off int, v uint32) []byte {
	c := append([]byte(nil), d...)
	if off+4 <= len(c) {
		binary.BigEndian.PutUint32(c[off:], v)
	}
	return c
}

func adjustParents(c []byte, b rawBox, delta int) {
	for _, p := range b.parents {
		binary.BigEndian.PutUint32(c[p:], uint32(int(binary.BigEndian.Uint32(c[p:]))+delta))
	}
}

type mutant struct {
	desc string
	gen  func() []byte
}

// mutantsOf enumerates the structured mutations of one file (or one box); emit returns false to stop.
func mutantsOf(name string, data []byte, r *hx.Rng, budget int, emit func(mutant)) {
	var boxes []rawBox
	walkRaw(data, 0, len(data), 0, nil, &boxes)
	var all []func() mutant
	var cats []string
	add := func(desc string, f func() []byte) {
		all = append(all, func() mutant { return mutant{name + ":" + desc, f} })
		c := desc
		if k := strings.IndexAny(c, "(@"); k > 0 {
			c = c[:k]
		}
		cats = append(cats, c)
	}
	add("orig", func() []byte { return data })
	for _, b := range boxes {
		b := b
		for _, cut := range []int{b.off - 1, b.off, b.off + 1, b.off + 4, b.off + 8, b.off + 12, b.off + b.size - 1} {
			cut := cut
			if cut >= 0 && cut <= len(data) {
				add(fmt.Sprintf("trunc@%d(%s)", cut, b.name), func() []byte { return data[:cut] })
			}
		}
		for _, v := range []uint32{0, 1, 7, 8, 9, 15, 16, uint32(b.size) + 1, uint32(b.size) - 1, uint32(b.size) + 8, uint32(b.size) - 8,
			0xffffffff, 0x7fffffff, 0x80000000, uint32(len(data) - b.off), uint32(len(data)-b.off) + 1} {
			v := v
			add(fmt.Sprintf("size(%s@%d)=%d", b.name, b.off, v), func() []byte { return put32(data, b.off, v) })
		}
		// large-size header with hostile 64-bit sizes (the following 8 bytes are overwritten)
		for _, v := range []uint64{0, 15, 16, uint64(b.size), 1 << 63, 1<<63 - 1, 0xfffffffffffffff0, 0xffffffffffffffff, 0xffffffffffffffe0 - uint64(b.off)} {
			v := v
			add(fmt.Sprintf("large(%s@%d)=%x", b.name, b.off, v), func() []byte {
				c := put32(data, b.off, 1)
				if b.off+16 <= len(c) {
					binary.BigEndian.PutUint64(c[b.off+8:], v)
				}
				return c
			})
		}
		if cf, ok := countField[b.name]; ok && cf > 0 && b.hdr == 8 && cf+4 <= b.size {
			old := binary.BigEndian.Uint32(data[b.off+cf:])
			for _, v := range []uint32{0, old + 1, old - 1, old * 2, 0x7fffffff, 0xffffffff, 0x10000000, 0x01000000, 0xfffffff0} {
				v := v
				add(fmt.Sprintf("count(%s@%d)=%d", b.name, b.off, v), func() []byte { return put32(data, b.off+cf, v) })
			}
		}
		if b.name == "sidx" && b.size >= 32 {
			ver := data[b.off+8]
			o := b.off + 12 + 8 + 8 + 2
			if ver == 1 {
				o += 8
			}
			for _, v := range []uint16{0, 1, 0xffff} {
				v, o := v, o
				add(fmt.Sprintf("count(sidx@%d)=%d", b.off, v), func() []byte {
					c := append([]byte(nil), data...)
					if o+2 <= len(c) {
						binary.BigEndian.PutUint16(c[o:], v)
					}
					return c
				})
			}
		}
		if b.name != "mdat" && b.size > 12 {
			// version / flags bytes
			for k := 8; k < 12; k++ {
				k := k
				for _, v := range []byte{0, 1, 2, 0xff} {
					v := v
					add(fmt.Sprintf("vf(%s@%d)[%d]=%d", b.name, b.off, k, v), func() []byte {
						c := append([]byte(nil), data...)
						c[b.off+k] = v
						return c
					})
				}
			}
		}
		// type confusion: the same bytes under every other registered box type
		if b.size <= 1<<16 {
			for _, nn := range registeredNames() {
				nn := nn
				if nn != b.name {
					add(fmt.Sprintf("rename(%s@%d)=%x", b.name, b.off, nn), func() []byte {
						c := append([]byte(nil), data...)
						copy(c[b.off+4:b.off+8], nn)
						return c
					})
				}
			}
		}
		// removal / duplication with the ancestors' sizes kept consistent
		add(fmt.Sprintf("remove(%s@%d)", b.name, b.off), func() []byte {
			c := append([]byte(nil), data[:b.off]...)
			c = append(c, data[b.off+b.size:]...)
			adjustParents(c, b, -b.size)
			return c
		})
		if b.size < 1<<16 {
			add(fmt.Sprintf("dup(%s@%d)", b.name, b.off), func() []byte {
				c := append([]byte(nil), data[:b.off+b.size]...)
				c = append(c, data[b.off:b.off+b.size]...)
				c = append(c, data[b.off+b.size:]...)
				adjustParents(c, b, b.size)
				return c
			})
		}
	}
	// splice: a box harvested from any testdata file inserted as first / last child of a container
	// (or at top level), the ancestors' sizes kept consistent
	if pool := harvestPool(); len(pool) > 0 {
		for _, b := range boxes {
			b := b
			skip, isCont := rawContainers[b.name]
			if !isCont || b.hdr != 8 {
				continue
			}
			for k := 0; k < 6; k++ {
				ins := pool[r.Intn(len(pool))]
				at := b.off + b.hdr + skip
				if k%2 == 1 {
					at = b.off + b.size
				}
				if at > b.off+b.size {
					continue
				}
				add(fmt.Sprintf("splice(%s into %s@%d at %d)", string(ins[4:8]), b.name, b.off, at), func() []byte {
					c := append([]byte(nil), data[:at]...)
					c = append(c, ins...)
					c = append(c, data[at:]...)
					wb := b
					wb.parents = append(append([]int(nil), b.parents...), b.off)
					adjustParents(c, wb, len(ins))
					return c
				})
			}
		}
		for k := 0; k < 8; k++ {
			ins := pool[r.Intn(len(pool))]
			cands := []int{0, len(data)}
			for _, b := range boxes {
				if b.depth == 0 {
					cands = append(cands, b.off)
				}
			}
			at := cands[r.Intn(len(cands))]
			add(fmt.Sprintf("splice(%s at top level %d)", string(ins[4:8]), at), func() []byte {
				c := append([]byte(nil), data[:at]...)
				c = append(c, ins...)
				return append(c, data[at:]...)
			})
		}
	}
	// swap adjacent siblings
	for i := 0; i+1 < len(boxes); i++ {
		a, b := boxes[i], boxes[i+1]
		if a.depth == b.depth && a.off+a.size == b.off && a.size+b.size < 1<<20 {
			add(fmt.Sprintf("swap(%s,%s@%d)", a.name, b.name, a.off), func() []byte {
				c := append([]byte(nil), data[:a.off]...)
				c = append(c, data[b.off:b.off+b.size]...)
				c = append(c, data[a.off:a.off+a.size]...)
				c = append(c, data[b.off+b.size:]...)
				return c
			})
		}
	}
	// random byte corruption outside mdat
	for k := 0; k < 64; k++ {
		var cand []rawBox
		for _, b := range boxes {
			if b.name != "mdat" {
				cand = append(cand, b)
			}
		}
		if len(cand) == 0 {
			break
		}
		b := cand[r.Intn(len(cand))]
		o := b.off + r.Intn(b.size)
		v := byte(r.Pick(0, 1, 0x7f, 0x80, 0xff, int(r.U64()&0xff)))
		add(fmt.Sprintf("byte@%d(%s)=%d", o, b.name, v), func() []byte {
			c := append([]byte(nil), data...)
			c[o] = v
			return c
		})
	}
	// subsample deterministically to the budget: the budget is shared evenly between the mutation
	// categories (truncation, size, large, count, vf, rename, remove, dup, splice, swap, byte), "orig" always kept
	if len(all) <= budget {
		for _, f := range all {
			emit(f())
		}
		return
	}
	byCat := map[string][]int{}
	var catOrder []string
	for i := 1; i < len(all); i++ {
		c := cats[i]
		if _, ok := byCat[c]; !ok {
			catOrder = append(catOrder, c)
		}
		byCat[c] = append(byCat[c], i)
	}
	chosen := map[int]bool{0: true}
	per := budget / (len(catOrder) + 1)
	if per < 1 {
		per = 1
	}
	for _, c := range catOrder {
		idx := byCat[c]
		for i := len(idx) - 1; i > 0; i-- {
			j := r.Intn(i + 1)
			idx[i], idx[j] = idx[j], idx[i]
		}
		for k := 0; k < per && k < len(idx); k++ {
			chosen[idx[k]] = true
		}
	}
	for len(chosen) < budget {
		chosen[1+r.Intn(len(all)-1)] = true
	}
	var idx []int
	for i := range chosen {
		idx = append(idx, i)
	}
	sort.Ints(idx)
	for _, i := range idx {
		emit(all[i]())
	}
}

// boxPipeline: DecodeBox / DecodeBoxSR, then Info at three levels and both encoders on each decoded box
func boxPipeline(data []byte) string {
	n := len(data)
	var res []string
	for _, sr := range []bool{false, true} {
		var b mp4.Box
		var err error
		dec := func() {
			if sr {
				b, err = mp4.DecodeBoxSR(0, bits.NewFixedSliceReader(data))
			} else {
				b, err = mp4.DecodeBox(0, bytes.NewReader(data))
			}
		}
		p, over, dt, da := measured(n, dec)
		note(n, dt, da)
		key := "box"
		if sr {
			key = "boxsr"
		}
		c := cls(p, over, err)
		res = append(res, key+"="+c)
		if c != "ok" {
			continue
		}
		var is []string
		for _, lv := range []string{"", "all:1", "all:2"} {
			dec()
			if err != nil {
				break
			}
			p, over, dt, da = measured(n, func() { err = b.Info(io.Discard, lv, "", "  ") })
			note(n, dt, da)
			is = append(is, cls(p, over, err))
		}
		res = append(res, "i="+strings.Join(is, ","))
		dec()
		p, over, dt, da = measured(n, func() { err = b.Encode(io.Discard) })
		note(n, dt, da)
		w := cls(p, over, err)
		dec()
		p, over, dt, da = measured(n, func() {
			sw := bx.DirtyWriter(2*n + 4096)
			err = b.EncodeSW(sw)
		})
		note(n, dt, da)
		res = append(res, "e0="+w+","+cls(p, over, err))
	}
	return strings.Join(res, "|")
}

var pool [][]byte

// harvestPool: every distinct box (any level, not mdat, <= 4 KiB) of every testdata file
func harvestPool() [][]byte {
	if pool != nil {
		return pool
	}
	seen := map[string]bool{}
	for _, fn := range testdataFiles() {
		data := mustRead(fn)
		var boxes []rawBox
		walkRaw(data, 0, len(data), 0, nil, &boxes)
		for _, b := range boxes {
			if b.name == "mdat" || b.size > 4096 {
				continue
			}
			bd := data[b.off : b.off+b.size]
			if !seen[string(bd)] {
				seen[string(bd)] = true
				pool = append(pool, bd)
			}
		}
	}
	// hand-written minimal encodings of box types and shapes that the repository's test data lacks (QuickTime meta
	// atom, both versions of the table boxes, ...): shared with the C01/C02 search
	for _, bd := range bx.Seeds() {
		if len(bd) <= 4096 && !seen[string(bd)] {
			seen[string(bd)] = true
			pool = append(pool, bd)
		}
	}
	return pool
}

// seedJobs: the hand-written seeds of the shared list as they are, through both box decoders (X3).  The splice mutations
// only pick them at random; some are shapes whose two decode paths differed on the bytes BEHIND an inner box (esds
// descriptors cut short inside mp4a / stsd with a sibling following, finding C03-F7)
func seedJobs() (jobs []job, descs []string) {
	for i, s := range bx.Seeds() {
		jobs = append(jobs, job{kind: "X3", cfg: "-", data: s})
		descs = append(descs, fmt.Sprintf("sharedseed/%d(%s):%s", i, string(s[4:8]), hx.Hex(s)))
	}
	return
}

var regNames []string

// registeredNames: the box types of the decoder tables (through the C03 hook)
func registeredNames() []string {
	if regNames == nil {
		regNames, _ = mp4.VerifDecoderKeys()
	}
	return regNames
}

func testdataFiles() []string {
	var names []string
	ents, _ := os.ReadDir(testdataDir)
	for _, e := range ents {
		n := e.Name()
		if e.IsDir() || strings.HasSuffix(n, ".txt") {
			continue
		}
		names = append(names, n)
	}
	sort.Strings(names)
	return names
}

// failuresOfBox: like failuresOf for the box pipeline keys
func failuresOfBox(res string) []string {
	r := strings.NewReplacer("box=", "dec=", "boxsr=", "dec=")
	return failuresOf(r.Replace(res))
}

func cmdSearch(seed uint64, n int) {
	r := hx.NewRng(seed ^ 0x5ea7c4)
	files := testdataFiles()
	var jobs []job
	var descs []string
	perFile := n / (2 * len(files))
	if perFile < 20 {
		perFile = 20
	}
	fileCfgs := []string{"RN0", "SN0", "RL0", "RN1", "RN2", "RL1", "SN2"}
	for _, fn := range files {
		data := mustRead(fn)
		budget := perFile
		if len(data) > 100000 {
			budget = perFile / 3
		}
		k := 0
		mutantsOf(fn, data, r, budget, func(m mutant) {
			// every mutant under the default options on both paths, plus one rotating other configuration
			cfgs := []string{"RN0", "SN0", fileCfgs[2+k%5]}
			k++
			for _, c := range cfgs {
				jobs = append(jobs, job{kind: "P", cfg: c, gen: m.gen})
				descs = append(descs, m.desc+" cfg="+c)
			}
		})
	}
	// box level: every box of every file (not mdat, <= 64 KiB) and its mutants
	seen := map[string]bool{}
	perBox := n / 400
	if perBox < 6 {
		perBox = 6
	}
	for _, fn := range files {
		data := mustRead(fn)
		var boxes []rawBox
		walkRaw(data, 0, len(data), 0, nil, &boxes)
		for _, b := range boxes {
			if b.name == "mdat" || b.size > 1<<16 {
				continue
			}
			bd := data[b.off : b.off+b.size]
			key := string(bd)
			if seen[key] {
				continue
			}
			seen[key] = true
			mutantsOf(fn+"/"+b.name, bd, r, perBox, func(m mutant) {
				jobs = append(jobs, job{kind: "X", cfg: "-", gen: m.gen})
				descs = append(descs, m.desc)
			})
		}
	}
	// the fuzz corpus of the repository
	fz, _ := filepath.Glob(filepath.Join(testdataDir, "fuzz", "FuzzDecodeBox", "*"))
	sort.Strings(fz)
	for _, p := range fz {
		b, err := os.ReadFile(p)
		if err != nil {
			continue
		}
		// go fuzz corpus format: second line `[]byte("...")`
		if i := bytes.Index(b, []byte("[]byte(")); i >= 0 {
			q := string(b[i+7:])
			if j := strings.LastIndex(q, ")"); j > 0 {
				var s string
				if _, err := fmt.Sscanf(q[:j], "%q", &s); err == nil {
					jobs = append(jobs, job{kind: "X", cfg: "-", data: []byte(s)})
					descs = append(descs, "fuzzcorpus/"+filepath.Base(p))
				}
			}
		}
	}
	res := runJobs(jobs, nprocs())
	nfail := 0
	for i, rs := range res {
		var fs []string
		if jobs[i].kind == "X" {
			fs = failuresOfBox(rs)
		} else {
			fs = failuresOf(rs)
		}
		for _, f := range fs {
			nfail++
			d := jobs[i].bytes()
			w := "hex:" + hx.Hex(d)
			if len(d) > 4096 {
				w = "mutation:" + descs[i]
			}
			fmt.Fprintln(out, failLine(f, w, descs[i]))
		}
	}
	fmt.Fprintf(out, "EVALS\t%d\n", len(jobs))
	fmt.Fprintf(out, "STATS\t%d\t%d\t%d\t%d\n", rstats.ns, rstats.n, rstats.alloc, rstats.restarts)
}
