// M lines of the correspondence: the encoder pairs that are written twice (MdatBox, StsdBox, VisualSampleEntryBox).
// A generated box is decoded (reader path); its fields, Size(), its children's own Encode / EncodeSW bytes and the box's
// Encode / EncodeSW bytes are printed; the model encoders (mdat_enc_w/sw, stsd_enc_w/sw, vse_enc_w/sw) recompute the latter.
package main

import (
	"fmt"

	"github.com/Eyevinn/mp4ff/mp4"
	"verifharness/hx"
)

func hexOrDash(b []byte) string {
	if len(b) == 0 {
		return "-"
	}
	return hx.Hex(b)
}

func encLine(data []byte) string {
	b, p, err := decBox(data, false)
	if p != "" || err != nil || b == nil {
		return "-"
	}
	var r string
	if guard(func() {
		switch x := b.(type) {
		case *mp4.MdatBox:
			r = fmt.Sprintf("mdat\t%s\t%c\t-\t%s", hexOrDash(x.Data), boolc(x.LargeSize), encBoth(x))
		case *mp4.StsdBox:
			r = fmt.Sprintf("stsd\t%d:%d:%d:%d\t-\t%s\t%s", x.Version, x.Flags, x.SampleCount, x.Size(), encBoxes(x.Children), encBoth(x))
		case *mp4.VisualSampleEntryBox:
			r = fmt.Sprintf("vse\t%x:%d:%d:%d:%d:%d:%d:%s:%d\t-\t%s\t%s", x.Type(), x.DataReferenceIndex, x.Width, x.Height, x.Horizresolution,
				x.Vertresolution, x.FrameCount, hexOrDash([]byte(x.CompressorName)), x.Size(), encBoxes(x.Children), encBoth(x))
		default:
			r = pfxEncLine(b)
		}
	}) != "" {
		return "-"
	}
	return r
}
