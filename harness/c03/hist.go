// H lines: encode HISTORIES of Fragment / MediaSegment / File through the TWO encoders (coq/c03/C03EncHistModel.v: hfrag_w / hfrag_sw,
// hseg_w / hseg_sw, hfile_w / hfile_sw as state transformers).  A history is a string over
//
//	e  Encode(io.Writer)        w  EncodeSW(SliceWriter, large enough)      s  Size()       i  Info()
//	o  toggle EncOptimize (OptimizeTrun on / off)            +  an ADDITION: AddFullSample to the last fragment's first track
//
// After every operation the outcome (Size value; length + md5 + top-level box lengths of the bytes; error; panic) and the mutated
// fields (trun flags / data offset / first-sample flags, tfhd flags / defaults, mdat LargeSize, EncOptimize) are recorded.  After
// an addition or a toggle the WHOLE structure is serialised again: the model continues from the re-read state (HApply), so a stale
// field left behind by ONE of the two encoders shows at the next encoding step of the other.
//
// The serialisation of the structure (tw), the digests and the generators mirror harness/c02/corr.go (C02's A lines), where ONE model
// function stands for both encoders; here the model driver runs hfile_w for 'e' and hfile_sw for 'w'.
package main

import (
	"bytes"
	"crypto/md5"
	"encoding/binary"
	"encoding/hex"
	"fmt"
	"strings"
	"verifharness/c01/bx"

	"github.com/Eyevinn/mp4ff/bits"
	"github.com/Eyevinn/mp4ff/mp4"
	"verifharness/hx"
)

const maxTokBytes = 200000

type unsupported struct{ why string }

// ------------------------------------------------------------------ serialisation of the structure
type tw struct {
	sb    strings.Builder
	bytes int
}

func (t *tw) a(xs ...string) {
	for _, x := range xs {
		t.sb.WriteByte(' ')
		t.sb.WriteString(x)
		t.bytes += len(x)
	}
}
func (t *tw) n(v int)       { t.a(fmt.Sprint(v)) }
func (t *tw) u(v uint64)    { t.a(hx.HexU(v)) }
func (t *tw) b(v bool)      { t.a(map[bool]string{false: "0", true: "1"}[v]) }
func (t *tw) hexb(b []byte) { t.a(hx.Hex(b)) }

// an opaque box: type, Size(), the bytes Encode writes, whether Encode fails
func (t *tw) obox(b mp4.Box) {
	var buf bytes.Buffer
	var err error
	// Size() as it is BEFORE this box has ever been encoded: the model assumes an opaque box to be stateless and
	// the driver reports a box whose Encode writes something else than this Size() / a different size field
	var size0 uint64
	p := hx.Try(func() { size0 = b.Size(); err = b.Encode(&buf) })
	if p != "" {
		panic(unsupported{"opaque box panics in Size/Encode: " + b.Type()})
	}
	ty := []byte(b.Type())
	for len(ty) < 4 {
		ty = append(ty, ' ')
	}
	t.a("O", hex.EncodeToString(ty[:4]))
	t.u(size0)
	if err != nil {
		t.a("-")
	} else {
		t.hexb(buf.Bytes())
	}
	t.b(err != nil)
}

func (t *tw) tfhd(h *mp4.TfhdBox) {
	t.a("h")
	t.u(uint64(h.Flags))
	t.u(uint64(h.TrackID))
	t.u(h.BaseDataOffset)
	t.u(uint64(h.SampleDescriptionIndex))
	t.u(uint64(h.DefaultSampleDuration))
	t.u(uint64(h.DefaultSampleSize))
	t.u(uint64(h.DefaultSampleFlags))
}

func (t *tw) trun(r *mp4.TrunBox) {
	t.a("r")
	t.u(uint64(r.Version))
	t.u(uint64(r.Flags))
	t.a(hx.HexI(int64(r.DataOffset)))
	t.u(uint64(mp4.VerifC02FirstSampleFlags(r)))
	t.u(uint64(mp4.VerifC05WriteOrderNr(r)))
	t.n(len(r.Samples))
	for _, s := range r.Samples {
		t.u(uint64(s.Flags))
		t.u(uint64(s.Dur))
		t.u(uint64(s.Size))
		t.a(hx.HexI(int64(s.CompositionTimeOffset)))
	}
}

func (t *tw) traf(tr *mp4.TrafBox) {
	t.a("T")
	t.n(len(tr.Children))
	var lastTfhd *mp4.TfhdBox
	var truns []*mp4.TrunBox
	for _, c := range tr.Children {
		switch b := c.(type) {
		case *mp4.TfhdBox:
			if b.Version != 0 {
				panic(unsupported{"tfhd version != 0"})
			}
			lastTfhd = b
			t.tfhd(b)
		case *mp4.TfdtBox:
			if b.Version > 1 || b.Flags != 0 {
				t.obox(b)
			} else {
				t.a("d")
				t.u(uint64(b.Version))
				t.u(b.BaseMediaDecodeTime())
			}
		case *mp4.TrunBox:
			truns = append(truns, b)
			t.trun(b)
		default:
			t.obox(c)
		}
	}
	// the pointers the code follows must be the ones the model derives from the child order
	if tr.Tfhd != lastTfhd || len(tr.Truns) != len(truns) || (len(truns) > 0 && tr.Trun != truns[0]) || (len(truns) == 0 && tr.Trun != nil) {
		panic(unsupported{"traf pointers differ from child order"})
	}
	for i := range truns {
		if tr.Truns[i] != truns[i] {
			panic(unsupported{"traf.Truns differs from child order"})
		}
	}
}

func (t *tw) moof(m *mp4.MoofBox) {
	t.n(len(m.Children))
	var trafs []*mp4.TrafBox
	for _, c := range m.Children {
		switch b := c.(type) {
		case *mp4.MfhdBox:
			if b.Version != 0 || b.Flags != 0 {
				t.obox(b)
			} else {
				t.a("H")
				t.u(uint64(b.SequenceNumber))
			}
		case *mp4.TrafBox:
			trafs = append(trafs, b)
			t.traf(b)
		default:
			t.obox(c)
		}
	}
	if len(m.Trafs) != len(trafs) || (len(trafs) > 0 && m.Traf != trafs[0]) || (len(trafs) == 0 && m.Traf != nil) {
		panic(unsupported{"moof pointers differ from child order"})
	}
	for i := range trafs {
		if m.Trafs[i] != trafs[i] {
			panic(unsupported{"moof.Trafs differs from child order"})
		}
	}
}

func (t *tw) mdat(m *mp4.MdatBox) {
	t.hexb(m.Data)
	t.n(len(m.DataParts))
	for _, p := range m.DataParts {
		t.hexb(p)
	}
	t.u(m.GetLazyDataSize())
	t.b(m.LargeSize)
}

func (t *tw) frag(f *mp4.Fragment) {
	var pre, mid, post []mp4.Box
	var moof *mp4.MoofBox
	var mdat *mp4.MdatBox
	for _, c := range f.Children {
		switch b := c.(type) {
		case *mp4.MoofBox:
			if moof != nil || mdat != nil {
				panic(unsupported{"fragment shape: second moof or moof after mdat"})
			}
			moof = b
		case *mp4.MdatBox:
			if mdat != nil || moof == nil {
				panic(unsupported{"fragment shape: second mdat or mdat before moof"})
			}
			mdat = b
		default:
			if mdat != nil {
				post = append(post, c)
			} else if moof != nil {
				mid = append(mid, c)
			} else {
				pre = append(pre, c)
			}
		}
	}
	if f.Moof != moof || f.Mdat != mdat {
		panic(unsupported{"fragment pointers differ from children"})
	}
	t.a("F")
	t.b(f.EncOptimize&mp4.OptimizeTrun != 0)
	t.n(len(pre))
	for _, b := range pre {
		t.obox(b)
	}
	if moof == nil {
		t.a("0")
	} else {
		t.a("1")
		t.moof(moof)
	}
	t.n(len(mid))
	for _, b := range mid {
		t.obox(b)
	}
	if mdat == nil {
		t.a("0")
	} else {
		t.a("1")
		t.mdat(mdat)
	}
	t.n(len(post))
	for _, b := range post {
		t.obox(b)
	}
}

func (t *tw) seg(s *mp4.MediaSegment) {
	t.a("S")
	t.b(s.EncOptimize&mp4.OptimizeTrun != 0)
	if s.Styp == nil {
		t.a("0")
	} else {
		t.a("1")
		t.obox(s.Styp)
	}
	t.n(len(s.Sidxs))
	for _, x := range s.Sidxs {
		t.obox(x)
	}
	t.n(len(s.Fragments))
	for _, f := range s.Fragments {
		t.frag(f)
	}
}

func (t *tw) init(i *mp4.InitSegment) {
	t.n(len(i.Children))
	for _, c := range i.Children {
		t.obox(c)
	}
}

func (t *tw) file(f *mp4.File) {
	t.a("L")
	t.b(f.IsFragmented())
	t.n(int(f.FragEncMode))
	t.b(f.EncOptimize&mp4.OptimizeTrun != 0)
	// are the mdat boxes of the segments the ones in f.Children (decoded file) or not (AddMediaSegment)?
	inChildren := map[*mp4.MdatBox]bool{}
	for _, c := range f.Children {
		if m, ok := c.(*mp4.MdatBox); ok {
			inChildren[m] = true
		}
	}
	nsh, nns := 0, 0
	for _, s := range f.Segments {
		for _, fr := range s.Fragments {
			if fr.Mdat != nil {
				if inChildren[fr.Mdat] {
					nsh++
				} else {
					nns++
				}
			}
		}
	}
	if nsh > 0 && nns > 0 {
		panic(unsupported{"file with shared and unshared fragment boxes"})
	}
	t.b(nns == 0)
	if f.Init == nil {
		t.a("0")
	} else {
		t.a("1")
		t.init(f.Init)
	}
	t.n(len(f.Sidxs))
	for _, x := range f.Sidxs {
		t.obox(x)
	}
	t.n(len(f.Segments))
	for _, s := range f.Segments {
		t.seg(s)
	}
	if f.Mfra == nil {
		t.a("0")
	} else {
		t.a("1")
		t.obox(f.Mfra)
	}
	t.n(len(f.Children))
	for _, c := range f.Children {
		switch b := c.(type) {
		case *mp4.MoofBox:
			t.a("M")
			t.moof(b)
		case *mp4.MdatBox:
			t.a("D")
			t.mdat(b)
		default:
			t.obox(c)
		}
	}
}

// ------------------------------------------------------------------ the mutated fields
func digMoof(sb *strings.Builder, m *mp4.MoofBox) {
	for _, c := range m.Children {
		tr, ok := c.(*mp4.TrafBox)
		if !ok {
			continue
		}
		sb.WriteString("T(")
		for _, tc := range tr.Children {
			switch b := tc.(type) {
			case *mp4.TfhdBox:
				fmt.Fprintf(sb, "h%x,%x,%x,%x;", b.Flags, b.DefaultSampleDuration, b.DefaultSampleSize, b.DefaultSampleFlags)
			case *mp4.TrunBox:
				fmt.Fprintf(sb, "r%x,%s,%x;", b.Flags, hx.HexI(int64(b.DataOffset)), mp4.VerifC02FirstSampleFlags(b))
			}
		}
		sb.WriteString(")")
	}
}

func digMdat(sb *strings.Builder, m *mp4.MdatBox) {
	if m == nil {
		sb.WriteString("-")
	} else if m.LargeSize {
		sb.WriteString("D1")
	} else {
		sb.WriteString("D0")
	}
}

func digFrag(sb *strings.Builder, f *mp4.Fragment) {
	fmt.Fprintf(sb, "F%d[", f.EncOptimize&mp4.OptimizeTrun)
	if f.Moof == nil {
		sb.WriteString("-")
	} else {
		digMoof(sb, f.Moof)
	}
	sb.WriteString("]")
	digMdat(sb, f.Mdat)
}

func digSeg(sb *strings.Builder, s *mp4.MediaSegment) {
	fmt.Fprintf(sb, "S%d", s.EncOptimize&mp4.OptimizeTrun)
	for _, f := range s.Fragments {
		digFrag(sb, f)
	}
}

func digFile(sb *strings.Builder, f *mp4.File) {
	if f.IsFragmented() && f.FragEncMode == mp4.EncModeSegment {
		sb.WriteString("L")
		for _, s := range f.Segments {
			digSeg(sb, s)
		}
		return
	}
	sb.WriteString("C")
	for _, c := range f.Children {
		switch b := c.(type) {
		case *mp4.MoofBox:
			sb.WriteString("[")
			digMoof(sb, b)
			sb.WriteString("]")
		case *mp4.MdatBox:
			digMdat(sb, b)
		}
	}
}

// ------------------------------------------------------------------ running a history
// lengths of the top-level boxes of an output according to its own size fields
func topLens(b []byte) string {
	var ls []string
	pos := 0
	for pos < len(b) {
		if len(b)-pos < 8 {
			return "X"
		}
		sz := uint64(binary.BigEndian.Uint32(b[pos:]))
		if sz == 1 {
			if len(b)-pos < 16 {
				return "X"
			}
			sz = binary.BigEndian.Uint64(b[pos+8:])
			if sz < 16 {
				return "X"
			}
		} else if sz < 8 {
			return "X"
		}
		if sz > uint64(len(b)-pos) {
			return "X"
		}
		ls = append(ls, hx.HexU(sz))
		pos += int(sz)
	}
	if len(ls) == 0 {
		return "-"
	}
	return strings.Join(ls, ",")
}

func bytesObs(b []byte) string {
	s := md5.Sum(b)
	return fmt.Sprintf("B%x:%s:%s", len(b), hex.EncodeToString(s[:]), topLens(b))
}

func randSamples(r *hx.Rng, n int, uniform bool) []mp4.FullSample {
	var ss []mp4.FullSample
	var t uint64 = uint64(r.Intn(1 << 20))
	if r.Intn(8) == 0 {
		t += 1 << 32
	}
	dur := uint32(r.Pick(512, 1024, 3000))
	flags := uint32(r.Pick(0x01010000, 0x02000000))
	size := r.Range(1, 40)
	for i := 0; i < n; i++ {
		d, fl, sz := dur, flags, size
		var cto int32
		if !uniform {
			if r.Intn(3) == 0 {
				d = uint32(r.Range(1, 5000))
			}
			if r.Intn(3) == 0 {
				fl = uint32(r.Pick(0x01010000, 0x02000000, 0))
			}
			sz = r.Range(0, 40)
			if r.Intn(2) == 0 {
				cto = int32(r.Range(-2000, 2000))
			}
		}
		if i == 0 && r.Bool() {
			fl = 0x02000000
		}
		ss = append(ss, mp4.FullSample{Sample: mp4.Sample{Flags: fl, Dur: d, Size: uint32(sz), CompositionTimeOffset: cto}, DecodeTime: t, Data: r.Bytes(sz, nil)})
		t += uint64(d)
	}
	return ss
}

// ------------------------------------------------------------------ generators
func extraBox(r *hx.Rng) mp4.Box {
	n := r.Intn(12)
	pl := r.Bytes(n, nil)
	switch r.Intn(5) {
	case 0:
		return mp4.NewFreeBox(pl)
	case 1:
		u := &mp4.UUIDBox{UnknownPayload: pl}
		_ = u.SetUUID("0123456789abcdef0123456789abcdef")
		return u
	case 2:
		return mp4.CreateUnknownBox("zzzz", uint64(8+n), pl)
	case 3:
		return mp4.CreatePrftBox(byte(n&1), 0, 1, mp4.NTP64(0x1234567890), 77)
	default:
		return &mp4.EmsgBox{Version: byte(n & 1), TimeScale: 1000, SchemeIDURI: "urn:x", Value: "v", MessageData: pl}
	}
}

// genFragment builds a fragment through the public API; wild adds the shapes the constructors do not make
// (the malformed stream): hand-set flags, preset / zero data offsets, missing boxes, two tfhd, no tfhd.
func genFragment(r *hx.Rng, seq uint32, wild bool) (*mp4.Fragment, string) {
	var f *mp4.Fragment
	var how []string
	multi := r.Intn(3) == 0
	uniform := r.Intn(2) == 0
	if multi {
		nt := r.Range(1, 3)
		ids := []uint32{}
		for i := 0; i < nt; i++ {
			ids = append(ids, uint32(i+1))
		}
		f, _ = mp4.CreateMultiTrackFragment(seq, ids)
		how = append(how, fmt.Sprintf("CreateMultiTrackFragment(%d tracks)", nt))
		nadd := r.Range(0, 8)
		for i := 0; i < nadd; i++ {
			ss := randSamples(r, 1, uniform)
			tid := uint32(r.Range(1, nt))
			if r.Intn(4) == 0 {
				_ = f.AddSampleToTrack(ss[0].Sample, tid, ss[0].DecodeTime)
				how = append(how, "AddSampleToTrack")
			} else {
				_ = f.AddFullSampleToTrack(ss[0], tid)
			}
		}
		how = append(how, fmt.Sprintf("%d x Add*ToTrack", nadd))
	} else {
		f, _ = mp4.CreateFragment(seq, uint32(r.Range(1, 3)))
		n := r.Pick(0, 1, 2, 2, 3, 4, 6)
		lazy := r.Intn(6) == 0
		for _, s := range randSamples(r, n, uniform) {
			if lazy {
				f.AddSample(s.Sample, s.DecodeTime)
			} else {
				f.AddFullSample(s)
			}
		}
		how = append(how, fmt.Sprintf("CreateFragment + %d samples lazy=%v uniform=%v", n, lazy, uniform))
	}
	if r.Intn(3) == 0 {
		f.EncOptimize = mp4.OptimizeTrun
	}
	// extras in legal places
	if r.Intn(4) == 0 {
		f.AddEmsg(&mp4.EmsgBox{TimeScale: 1000, SchemeIDURI: "urn:y", Value: "1", MessageData: r.Bytes(r.Intn(6), nil)})
		how = append(how, "AddEmsg")
	}
	if r.Intn(5) == 0 {
		f.AddChild(extraBox(r))
		how = append(how, "AddChild(after mdat)")
	}
	if r.Intn(5) == 0 {
		_ = f.Moof.AddChild(extraBox(r))
		how = append(how, "Moof.AddChild")
	}
	if r.Intn(4) == 0 && len(f.Moof.Trafs) > 0 {
		_ = f.Moof.Trafs[r.Intn(len(f.Moof.Trafs))].AddChild(extraBox(r))
		how = append(how, "Traf.AddChild")
	}
	if r.Intn(10) == 0 {
		f.Mdat.SetLazyDataSize(uint64(r.Pick(7, 1<<32-9, 1<<32-8, 5_000_000_000)))
		how = append(how, "Mdat.SetLazyDataSize")
	}
	if r.Intn(12) == 0 {
		f.Mdat.LargeSize = true
		how = append(how, "Mdat.LargeSize")
	}
	if !wild {
		return f, strings.Join(how, "; ")
	}
	for k := r.Range(1, 3); k > 0; k-- {
		var truns []*mp4.TrunBox
		for _, tf := range f.Moof.Trafs {
			truns = append(truns, tf.Truns...)
		}
		switch r.Intn(11) {
		case 0:
			if len(truns) > 0 {
				t := truns[r.Intn(len(truns))]
				t.Flags ^= uint32(r.Pick(0x1, 0x4, 0x100, 0x200, 0x400, 0x800))
				how = append(how, "trun.Flags^=bit")
			}
		case 1:
			if len(truns) > 0 {
				t := truns[r.Intn(len(truns))]
				t.SetFirstSampleFlags(uint32(r.Pick(0x02000000, 0x01010000)))
				how = append(how, "SetFirstSampleFlags")
			}
		case 2:
			if len(f.Moof.Trafs) > 0 {
				h := f.Moof.Trafs[r.Intn(len(f.Moof.Trafs))].Tfhd
				if h == nil {
					continue
				}
				h.Flags ^= uint32(r.Pick(0x1, 0x2, 0x8, 0x10, 0x20, 0x10000, 0x20000))
				h.BaseDataOffset = 1 << 33
				h.DefaultSampleDuration, h.DefaultSampleSize, h.DefaultSampleFlags = 77, 88, 99
				how = append(how, "tfhd.Flags^=bit")
			}
		case 3:
			f2 := mp4.NewFragment()
			for _, c := range f.Children {
				if _, ok := c.(*mp4.MdatBox); !ok {
					f2.AddChild(c)
				}
			}
			f2.EncOptimize = f.EncOptimize
			f = f2
			how = append(how, "no mdat")
		case 4:
			f2 := mp4.NewFragment()
			f2.AddChild(extraBox(r))
			f2.EncOptimize = f.EncOptimize
			f = f2
			how = append(how, "no moof")
			return f, strings.Join(how, "; ")
		case 5:
			if len(f.Moof.Trafs) > 0 {
				tf := f.Moof.Trafs[0]
				_ = tf.AddChild(mp4.CreateTfhd(9))
				how = append(how, "second tfhd")
			}
		case 6:
			// a traf without tfhd, first in the moof
			m2 := &mp4.MoofBox{}
			for _, c := range f.Moof.Children {
				if tf, ok := c.(*mp4.TrafBox); ok && tf == f.Moof.Traf {
					t2 := &mp4.TrafBox{}
					for _, tc := range tf.Children {
						if _, ok := tc.(*mp4.TfhdBox); !ok {
							_ = t2.AddChild(tc)
						}
					}
					_ = m2.AddChild(t2)
				} else {
					_ = m2.AddChild(c)
				}
			}
			f2 := mp4.NewFragment()
			for _, c := range f.Children {
				if _, ok := c.(*mp4.MoofBox); ok {
					f2.AddChild(m2)
				} else {
					f2.AddChild(c)
				}
			}
			f2.EncOptimize = f.EncOptimize
			f = f2
			how = append(how, "first traf without tfhd")
		case 7:
			if len(truns) > 0 {
				t := truns[r.Intn(len(truns))]
				t.DataOffset = int32(r.Pick(0, 5, -7))
				how = append(how, "trun.DataOffset preset")
			}
		case 8:
			// a second trun in the first traf, not numbered (as a decoder leaves it)
			if len(f.Moof.Trafs) > 0 {
				t := mp4.CreateTrun(0)
				for _, s := range randSamples(r, r.Range(0, 3), uniform) {
					t.AddSample(s.Sample)
				}
				_ = f.Moof.Trafs[0].AddChild(t)
				how = append(how, "extra unnumbered trun")
			}
		case 9:
			if f.Mdat != nil && len(f.Mdat.Data) == 0 {
				f.Mdat.AddSampleDataPart(r.Bytes(r.Intn(9), nil))
				f.Mdat.AddSampleDataPart(r.Bytes(r.Intn(9), nil))
				how = append(how, "Mdat.AddSampleDataPart x2")
			}
		default:
			if len(f.Moof.Trafs) > 0 {
				tf := f.Moof.Trafs[r.Intn(len(f.Moof.Trafs))]
				if tf.Tfdt != nil {
					tf.Tfdt.SetBaseMediaDecodeTime(uint64(r.Pick(0, 1<<32-1, 1<<32, 1<<40)))
					how = append(how, "SetBaseMediaDecodeTime")
				}
			}
		}
	}
	return f, strings.Join(how, "; ")
}

func genSegment(r *hx.Rng, wild bool) *mp4.MediaSegment {
	var seg *mp4.MediaSegment
	switch r.Intn(3) {
	case 0:
		seg = mp4.NewMediaSegment()
	case 1:
		seg = mp4.NewMediaSegmentWithoutStyp()
	default:
		seg = mp4.NewMediaSegmentWithStyp(mp4.CreateStyp())
	}
	if r.Bool() {
		seg.EncOptimize = mp4.OptimizeTrun
	}
	for k := r.Intn(3); k > 0; k-- {
		sx := mp4.CreateSidx(uint64(r.Pick(0, 1<<33)))
		for q := r.Intn(3); q > 0; q-- {
			sx.SidxRefs = append(sx.SidxRefs, mp4.SidxRef{ReferencedSize: uint32(r.Intn(1 << 20)), SubSegmentDuration: uint32(r.Intn(1 << 20)), StartsWithSAP: 1, SAPType: 1})
		}
		seg.AddSidx(sx)
	}
	nf := r.Range(0, 3)
	for k := 0; k < nf; k++ {
		f, _ := genFragment(r, uint32(k+1), wild && r.Intn(3) == 0)
		seg.AddFragment(f)
	}
	return seg
}

// ---------------------------------------------------------------- histories through the two encoders
type hagg struct {
	kind   string
	size   func() uint64
	encode func(*bytes.Buffer) error
	encsw  func(bits.SliceWriter) error
	info   func(*bytes.Buffer) error
	digest func(*strings.Builder)
	ser    func(t *tw)
	toggle func() // EncOptimize on <-> off
	frags  func() []*mp4.Fragment
}

func hFragAgg(f *mp4.Fragment) hagg {
	return hagg{"frag", f.Size, func(b *bytes.Buffer) error { return f.Encode(b) }, f.EncodeSW,
		func(b *bytes.Buffer) error { return f.Info(b, "all:1", "", "  ") }, func(sb *strings.Builder) { digFrag(sb, f) },
		func(t *tw) { t.frag(f) }, func() { f.EncOptimize ^= mp4.OptimizeTrun }, func() []*mp4.Fragment { return []*mp4.Fragment{f} }}
}
func hSegAgg(s *mp4.MediaSegment) hagg {
	return hagg{"seg", s.Size, func(b *bytes.Buffer) error { return s.Encode(b) }, s.EncodeSW,
		func(b *bytes.Buffer) error { return s.Info(b, "all:1", "", "  ") }, func(sb *strings.Builder) { digSeg(sb, s) },
		func(t *tw) { t.seg(s) }, func() { s.EncOptimize ^= mp4.OptimizeTrun }, func() []*mp4.Fragment { return s.Fragments }}
}
func hFileAgg(f *mp4.File) hagg {
	return hagg{"file", f.Size, func(b *bytes.Buffer) error { return f.Encode(b) }, f.EncodeSW,
		func(b *bytes.Buffer) error { return f.Info(b, "all:1", "", "  ") }, func(sb *strings.Builder) { digFile(sb, f) },
		func(t *tw) { t.file(f) }, func() { f.EncOptimize ^= mp4.OptimizeTrun }, func() []*mp4.Fragment {
			var l []*mp4.Fragment
			for _, s := range f.Segments {
				l = append(l, s.Fragments...)
			}
			return l
		}}
}

// serialise: tokens of the current state, "" when the structure is outside the model (unsupported shape / too big)
func (a hagg) serialise() (tok string, nbytes int) {
	t := &tw{}
	ok := true
	func() {
		defer func() {
			if r := recover(); r != nil {
				if _, isU := r.(unsupported); isU {
					ok = false
					return
				}
				panic(r)
			}
		}()
		a.ser(t)
	}()
	if !ok || t.bytes > maxTokBytes {
		return "", 0
	}
	return strings.TrimSpace(t.sb.String()), t.bytes
}

// addition: one more full sample on the first track of the LAST fragment that has a traf with a tfhd
func (a hagg) add(r *hx.Rng) bool {
	fs := a.frags()
	for i := len(fs) - 1; i >= 0; i-- {
		f := fs[i]
		if f.Moof == nil || f.Moof.Traf == nil || f.Moof.Traf.Tfhd == nil || f.Mdat == nil {
			continue
		}
		s := randSamples(r, 1, false)[0]
		done := false
		p := hx.Try(func() { done = f.AddFullSampleToTrack(s, f.Moof.Traf.Tfhd.TrackID) == nil })
		return p == "" && done
	}
	return false
}

// runGroups: the history split at the state changes; one (tokens, ops, observations) group per stretch of e/w/s/i
func (a hagg) runGroups(r *hx.Rng, hist string) []string {
	var groups []string
	tok, nb := a.serialise()
	if tok == "" {
		return nil
	}
	ops, obs := "", []string(nil)
	flush := func() {
		if ops != "" {
			groups = append(groups, tok+"\t"+ops+"\t"+strings.Join(obs, " "))
		}
		ops, obs = "", nil
	}
	for _, op := range hist {
		if op == '+' || op == 'o' {
			flush()
			if op == 'o' {
				a.toggle()
			} else if !a.add(r) {
				return groups
			}
			tok, nb = a.serialise()
			if tok == "" {
				return groups
			}
			continue
		}
		var o string
		p := hx.Try(func() {
			switch op {
			case 's':
				o = "S" + hx.HexU(a.size())
			case 'i':
				var ib bytes.Buffer
				_ = a.info(&ib)
				o = "I"
			case 'e':
				var buf bytes.Buffer
				if err := a.encode(&buf); err != nil {
					o = "E"
				} else {
					o = bytesObs(buf.Bytes())
				}
			case 'w':
				sw := bx.DirtyWriter(nb + 4096)
				if err := a.encsw(sw); err != nil {
					o = "E"
				} else {
					o = bytesObs(sw.Bytes())
				}
			}
		})
		ops += string(op)
		if p != "" {
			obs = append(obs, "P")
			flush()
			return groups
		}
		var sb strings.Builder
		a.digest(&sb)
		obs = append(obs, o+"/"+sb.String())
	}
	flush()
	return groups
}

var hFixedHists = []string{"ew", "we", "e+w", "w+e", "w+w", "e+e", "ww+w", "wow", "eoe", "eow+e", "woe+w", "sw+se", "iw+ie", "e+w+e", "w+e+w", "ow+we"}

func genHist(r *hx.Rng) string {
	n := r.Range(2, 7)
	b := make([]byte, n)
	for i := range b {
		b[i] = "ewewsi+o+"[r.Intn(9)]
	}
	return string(b)
}

// genHCases: fragments / segments / files built through the public API (and, for every third one, the hand-made shapes of C02's wild
// stream), each with a fixed-list history and a random one
func genHCases(r *hx.Rng, n int, emit func(line string)) {
	id := 0
	one := func(mk func() hagg, hist string) {
		a := mk()
		gs := a.runGroups(r, hist)
		if len(gs) == 0 {
			return
		}
		emit(fmt.Sprintf("H\th%d\t%s\t%s\t%d\t%s", id, a.kind, hist, len(gs), strings.Join(gs, "\t")))
		id++
	}
	for i := 0; i < n; i++ {
		wild := i%3 == 2
		seed := r.U64()
		hists := []string{hFixedHists[i%len(hFixedHists)], genHist(r)}
		for _, h := range hists {
			switch i % 4 {
			case 0, 1:
				one(func() hagg { f, _ := genFragment(hx.NewRng(seed), 1, wild); return hFragAgg(f) }, h)
			case 2:
				one(func() hagg { return hSegAgg(genSegment(hx.NewRng(seed), wild)) }, h)
			case 3:
				one(func() hagg {
					rr := hx.NewRng(seed)
					f := mp4.NewFile()
					if rr.Intn(6) > 0 {
						init := mp4.CreateEmptyInit()
						init.AddEmptyTrack(1000, "video", "und")
						f.AddChild(init.Ftyp, 0)
						f.AddChild(init.Moov, 0)
					}
					for k := rr.Range(1, 2); k > 0; k-- {
						f.AddMediaSegment(genSegment(rr, wild))
					}
					if rr.Intn(3) == 0 {
						f.EncOptimize = mp4.OptimizeTrun
					}
					f.FragEncMode = mp4.EncFragFileMode(rr.Pick(0, 0, 0, 1, 2))
					return hFileAgg(f)
				}, h)
			}
		}
	}
	// decoded testdata (the segments share their boxes with f.Children): both modes, both decoders
	k := 0
	for _, fn := range testdataFiles() {
		data := mustRead(fn)
		if len(data) > 60000 {
			continue
		}
		for v := 0; v < 2; v++ {
			v := v
			sr := k%2 == 0
			one(func() hagg {
				f, err := decodeFile(data, decCfg{sr: sr})
				if err != nil || f == nil {
					return hFileAgg(mp4.NewFile())
				}
				f.FragEncMode = mp4.EncFragFileMode(v)
				return hFileAgg(f)
			}, hFixedHists[k%len(hFixedHists)])
			k++
		}
	}
}

// ---------------------------------------------------------------- search: the property on histories
// runPlain: the history on the real structure, no serialisation; one observation per operation
func (a hagg) runPlain(r *hx.Rng, hist string) []string {
	var obs []string
	for _, op := range hist {
		var o string
		p := hx.Try(func() {
			switch op {
			case '+':
				if a.add(r) {
					o = "+"
				} else {
					o = "-"
				}
			case 'o':
				a.toggle()
				o = "o"
			case 's':
				o = "S" + hx.HexU(a.size())
			case 'i':
				var ib bytes.Buffer
				_ = a.info(&ib)
				o = "I"
			case 'e':
				var buf bytes.Buffer
				if err := a.encode(&buf); err != nil {
					o = "E"
				} else {
					o = bytesObs(buf.Bytes())
				}
			case 'w':
				sw := bx.DirtyWriter(1 << 20)
				if err := a.encsw(sw); err != nil {
					o = "E"
				} else {
					o = bytesObs(sw.Bytes())
				}
			}
		})
		if p != "" {
			obs = append(obs, "P")
			return obs
		}
		var sb strings.Builder
		a.digest(&sb)
		obs = append(obs, o+"/"+sb.String())
	}
	return obs
}

func swapEnc(h string) string {
	b := []byte(h)
	for i, c := range b {
		if c == 'e' {
			b[i] = 'w'
		} else if c == 'w' {
			b[i] = 'e'
		}
	}
	return string(b)
}

func mkHAgg(kind int, seed uint64, wild bool) hagg {
	rr := hx.NewRng(seed)
	switch kind {
	case 0, 1:
		f, _ := genFragment(rr, 1, wild)
		return hFragAgg(f)
	case 2:
		return hSegAgg(genSegment(rr, wild))
	}
	f := mp4.NewFile()
	init := mp4.CreateEmptyInit()
	init.AddEmptyTrack(1000, "video", "und")
	f.AddChild(init.Ftyp, 0)
	f.AddChild(init.Moov, 0)
	for k := rr.Range(1, 2); k > 0; k-- {
		f.AddMediaSegment(genSegment(rr, wild))
	}
	if rr.Intn(3) == 0 {
		f.EncOptimize = mp4.OptimizeTrun
	}
	f.FragEncMode = mp4.EncFragFileMode(rr.Pick(0, 0, 0, 1))
	return hFileAgg(f)
}

// searchHist: the same structure twice, the same history with the two encoders exchanged at every encoding step (and with only
// Encode / only EncodeSW): every outcome and every mutated field must agree step by step
func searchHist(r *hx.Rng, n int) int {
	evals := 0
	for i := 0; i < n; i++ {
		seed := r.U64()
		wild := i%3 == 2
		h := genHist(r)
		if i%5 == 0 {
			h = hFixedHists[(i/5)%len(hFixedHists)]
		}
		variants := []string{swapEnc(h), strings.ReplaceAll(h, "w", "e"), strings.ReplaceAll(h, "e", "w")}
		ref := mkHAgg(i%4, seed, wild).runPlain(hx.NewRng(seed^1), h)
		for _, v := range variants {
			if v == h {
				continue
			}
			got := mkHAgg(i%4, seed, wild).runPlain(hx.NewRng(seed^1), v)
			evals++
			if strings.Join(got, " ") != strings.Join(ref, " ") {
				k := 0
				for k < len(got) && k < len(ref) && got[k] == ref[k] {
					k++
				}
				a, b := "-", "-"
				if k < len(ref) {
					a = ref[k]
				}
				if k < len(got) {
					b = got[k]
				}
				fmt.Fprintf(out, "FAIL\tEncode/EncodeSW-history\toutcomes-differ\thist:kind=%d,seed=%d,wild=%v,%s|%s\tencode histories %q and %q on the same structure differ at step %d: %s vs %s\n",
					i%4, seed, wild, h, v, h, v, k, trunc(a, 200), trunc(b, 200))
			}
		}
	}
	return evals
}

func trunc(s string, n int) string {
	if len(s) > n {
		return s[:n]
	}
	return s
}
