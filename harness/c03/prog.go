// P lines of the correspondence: mfhd, tfdt (reader-path decoders written separately, private reader's error not consulted)
// and tfhd (reader path delegates to the SR decoder) through DecodeBox / DecodeBoxSR: fields, Size(), consumed, AccError,
// recomputed by the reader programs mfhd_prog_r/sr, tfdt_prog_r/sr, tfhd_prog of C03LeafModel.v.
package main

import (
	"bytes"
	"fmt"

	"github.com/Eyevinn/mp4ff/bits"
	"github.com/Eyevinn/mp4ff/mp4"
	"verifharness/hx"
)

func progFields(b mp4.Box) string {
	switch x := b.(type) {
	case *mp4.MfhdBox:
		return fmt.Sprintf("%d,%d,%d", x.Version, x.Flags, x.SequenceNumber)
	case *mp4.TfdtBox:
		return fmt.Sprintf("%d,%d,%d", x.Version, x.Flags, x.BaseMediaDecodeTime())
	case *mp4.TfhdBox:
		return fmt.Sprintf("%d,%d,%d,%d,%d,%d,%d,%d", x.Version, x.Flags, x.TrackID, x.BaseDataOffset, x.SampleDescriptionIndex,
			x.DefaultSampleDuration, x.DefaultSampleSize, x.DefaultSampleFlags)
	}
	return "other"
}

func progBoth(data []byte) string {
	var b mp4.Box
	var err error
	rd := bytes.NewReader(data)
	r1 := "err"
	if p := guard(func() { b, err = mp4.DecodeBox(0, rd) }); p != "" {
		r1 = "panic"
	} else if err == nil && b != nil {
		r1 = fmt.Sprintf("ok:%s:S%d:%d", progFields(b), b.Size(), len(data)-rd.Len())
	}
	sr := bits.NewFixedSliceReader(hx.Exact(data))
	r2 := "err"
	if p := guard(func() { b, err = mp4.DecodeBoxSR(0, sr) }); p != "" {
		r2 = "panic"
	} else if err == nil && b != nil {
		r2 = fmt.Sprintf("ok:%s:S%d:%d:%c", progFields(b), b.Size(), sr.GetPos(), boolc(sr.AccError() != nil))
	}
	return r1 + "\t" + r2
}

func genP3Inputs(r *hx.Rng, n int) [][]byte {
	var out [][]byte
	emit := func(d []byte) { out = append(out, d) }
	rv := func() []byte { return u32(uint32(r.Pick(0, 1, 7, 0x10000, -1, 0x7fffffff))) }
	for _, vf := range []uint32{0, 1, 0x01000000, 0xff000005} {
		leafVariants(r, "mfhd", cat(u32(vf), rv()), emit)
		leafVariants(r, "tfdt", cat(u32(vf), rv()), emit)
		leafVariants(r, "tfdt", cat(u32(vf), rv(), rv()), emit)
	}
	for fl := 0; fl < 32; fl++ {
		flags := uint32(fl&1) | uint32(fl>>1&1)<<1 | uint32(fl>>2&1)<<3 | uint32(fl>>3&1)<<4 | uint32(fl>>4&1)<<5 | uint32(r.Pick(0, 0x10000, 0x20000, 0x30004))
		body := cat(u32(flags), rv())
		if flags&1 != 0 {
			body = cat(body, rv(), rv())
		}
		for _, f := range []uint32{2, 8, 0x10, 0x20} {
			if flags&f != 0 {
				body = cat(body, rv())
			}
		}
		if fl%4 == int(r.Intn(4)) || n >= 2000 {
			leafVariants(r, "tfhd", body, emit)
		} else {
			emit(hdrBox("tfhd", false, uint64(8+len(body)), body))
			emit(cat(hdrBox("tfhd", r.Intn(4) == 0, uint64(8+len(body)+r.Pick(0, -4, 4, 8)), body), r.Bytes(r.Range(0, 16), nil)))
		}
	}
	for _, nm := range []string{"mfhd", "tfdt", "tfhd"} {
		for _, b := range [][]byte{nil, {0}, {0, 0, 0, 0}, {1, 0, 0, 0, 0, 0, 0, 9}, {0, 0, 0, 1, 0, 0, 0, 2, 0, 0}} {
			emit(hdrBox(nm, false, uint64(8+len(b)), b))
			emit(cat(hdrBox(nm, false, uint64(8+len(b)), b), r.Bytes(24, nil)))
			emit(cat(hdrBox(nm, true, uint64(16+len(b)), b), r.Bytes(r.Pick(0, 24), nil)))
		}
	}
	return out
}
