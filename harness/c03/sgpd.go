// G lines of the correspondence: sgpd boxes (versions 0..2 and beyond, grouping types seig / roll / "rap " / unknown names, default or
// per-entry description lengths, 0..3 entries, lying lengths and counts, the variants of leafVariants) through DecodeBox / DecodeBoxSR:
// fields, entries, Size(), consumed, AccError, recomputed by sgpd_prog of coq/c03/C03SgpdModel.v (xprog_body_r / xprog_sr).
// Inputs whose grouping type is "alst" are generated too (the search compares the two paths on them) but not compared with the
// model (DecodeAlstSampleGroupEntry is not modelled).
package main

import (
	"bytes"
	"fmt"
	"strings"

	"github.com/Eyevinn/mp4ff/bits"
	"github.com/Eyevinn/mp4ff/mp4"
	"verifharness/hx"
)

func sgpdFields(b mp4.Box) string {
	x, ok := b.(*mp4.SgpdBox)
	if !ok {
		return "other"
	}
	lens := make([]string, len(x.DescriptionLengths))
	for i, l := range x.DescriptionLengths {
		lens[i] = fmt.Sprint(l)
	}
	ents := make([]string, len(x.SampleGroupEntries))
	for i, e := range x.SampleGroupEntries {
		switch s := e.(type) {
		case *mp4.SeigSampleGroupEntry:
			ents[i] = fmt.Sprintf("seig.%d.%d.%d.%d.%s.%s", s.CryptByteBlock, s.SkipByteBlock, s.IsProtected, s.PerSampleIVSize, hx.Hex(s.KID), hx.Hex(s.ConstantIV))
		case *mp4.RollSampleGroupEntry:
			ents[i] = fmt.Sprintf("roll.%d", s.RollDistance)
		case *mp4.RapSampleGroupEntry:
			ents[i] = fmt.Sprintf("rap.%d.%d", s.NumLeadingSamplesKnown, s.NumLeadingSamples)
		case *mp4.UnknownSampleGroupEntry:
			ents[i] = fmt.Sprintf("unk.%s", hx.Hex(s.Data))
		default:
			ents[i] = "other"
		}
	}
	return fmt.Sprintf("%d,%d,%s,%d,%d,[%s],[%s]", x.Version, x.Flags, hx.Hex([]byte(x.GroupingType)), x.DefaultLength, x.DefaultGroupDescriptionIndex,
		strings.Join(lens, ","), strings.Join(ents, ","))
}

func sgpdBoth(data []byte) string {
	var b mp4.Box
	var err error
	rd := bytes.NewReader(data)
	r1 := "err"
	if p := guard(func() { b, err = mp4.DecodeBox(0, rd) }); p != "" {
		r1 = "panic"
	} else if err == nil && b != nil {
		r1 = fmt.Sprintf("ok:%s:S%d:%d", sgpdFields(b), b.Size(), len(data)-rd.Len())
	}
	sr := bits.NewFixedSliceReader(hx.Exact(data))
	r2 := "err"
	if p := guard(func() { b, err = mp4.DecodeBoxSR(0, sr) }); p != "" {
		r2 = "panic"
	} else if err == nil && b != nil {
		r2 = fmt.Sprintf("ok:%s:S%d:%d:%c", sgpdFields(b), b.Size(), sr.GetPos(), boolc(sr.AccError() != nil))
	}
	return r1 + "\t" + r2
}

// one entry of the given grouping type: its bytes (a well-formed entry; kind selects the seig form)
func sgpdEntry(r *hx.Rng, gt string, kind int) []byte {
	switch gt {
	case "seig":
		kid := r.Bytes(16, nil)
		b2 := byte(r.Pick(0, 0x19, 0xff))
		switch kind % 4 {
		case 0: // protected, per-sample IV
			return cat([]byte{byte(r.Pick(0, 7)), b2, 1, byte(r.Pick(8, 16))}, kid)
		case 1: // protected, constant IV
			n := r.Pick(8, 16, 0, 3)
			return cat([]byte{0, b2, 1, 0}, kid, []byte{byte(n)}, r.Bytes(n, nil))
		case 2: // not protected
			return cat([]byte{0, b2, 0, 0}, kid)
		default: // IsProtected other than 0 / 1
			return cat([]byte{0, b2, byte(r.Pick(2, 255)), byte(r.Pick(0, 8))}, kid)
		}
	case "roll":
		return []byte{byte(r.Pick(0, 0xff, 0x80, 0x7f)), byte(r.Intn(256))}
	case "rap ":
		return []byte{byte(r.Pick(0, 0x80, 0x85, 0xff, 0x7f))}
	case "alst":
		return cat([]byte{0, 1, 0, byte(r.Intn(3))}, u32(uint32(r.Intn(100))))
	}
	return r.Bytes(r.Range(1, 6), nil)
}

func genG3Inputs(r *hx.Rng, n int) [][]byte {
	var out [][]byte
	emit := func(d []byte) { out = append(out, d) }
	k := 0
	for _, gt := range []string{"seig", "roll", "rap ", "abcd", "sync", "alst"} {
		for _, ver := range []int{0, 1, 2, 3, 255} {
			for cnt := 0; cnt <= 3; cnt++ {
				for _, perEntry := range []bool{false, true} {
					kind := int(r.Intn(4))
					var ents [][]byte
					for i := 0; i < cnt; i++ {
						if perEntry {
							kind = int(r.Intn(4))
						}
						ents = append(ents, sgpdEntry(r, gt, kind))
					}
					if !perEntry && cnt > 1 { // one default length: entries of one size
						for i := 1; i < cnt; i++ {
							for len(ents[i]) != len(ents[0]) {
								ents[i] = sgpdEntry(r, gt, kind)
							}
						}
					}
					flags := uint32(r.Pick(0, 0, 1, 0xffffff))
					mk := func(count uint32, deflen uint32, lie int) []byte {
						body := cat(u32(uint32(ver)<<24|flags), []byte(gt))
						if ver >= 1 {
							body = cat(body, u32(deflen))
						}
						if ver >= 2 {
							body = cat(body, u32(uint32(r.Pick(0, 1, 0x10001, -1))))
						}
						body = cat(body, u32(count))
						for _, e := range ents {
							if ver >= 1 && deflen == 0 {
								body = cat(body, u32(uint32(len(e)+lie)))
							}
							body = cat(body, e)
						}
						return body
					}
					deflen := uint32(0)
					if !perEntry && cnt > 0 {
						deflen = uint32(len(ents[0]))
					} else if !perEntry {
						deflen = uint32(r.Pick(0, 1, 20))
					}
					good := mk(uint32(cnt), deflen, 0)
					if k%6 == int(r.Intn(6)) || n >= 2000 {
						leafVariants(r, "sgpd", good, emit)
					} else {
						emit(hdrBox("sgpd", false, uint64(8+len(good)), good))
						emit(cat(hdrBox("sgpd", r.Intn(3) == 0, uint64(8+len(good)+r.Pick(0, 0, -4, 4, 8)), good), r.Bytes(r.Range(0, 24), nil)))
					}
					k++
					// lying counts, lying description lengths, lying default length, with and without following bytes
					for _, b2 := range [][]byte{mk(uint32(cnt)+1, deflen, 0), mk(uint32(cnt)+uint32(r.Pick(2, 7, 300)), deflen, 0), mk(uint32(cnt), deflen, 1),
						mk(uint32(cnt), deflen, -1), mk(uint32(cnt), deflen+1, 0), mk(uint32(cnt), uint32(r.Pick(0, 1, 2, 20, 21, 37)), 0)} {
						if cnt == 0 && len(b2) == len(good) && bytes.Equal(b2, good) {
							continue
						}
						emit(hdrBox("sgpd", false, uint64(8+len(b2)), b2))
						emit(cat(hdrBox("sgpd", false, uint64(8+len(b2)), b2), r.Bytes(r.Range(1, 40), nil)))
					}
					if cnt > 0 && ver >= 1 {
						z := cat(u32(uint32(ver)<<24), []byte(gt), u32(0))
						if ver >= 2 {
							z = cat(z, u32(0))
						}
						z = cat(z, u32(1), u32(0), ents[0]) // description length 0
						emit(hdrBox("sgpd", false, uint64(8+len(z)), z))
					}
				}
			}
		}
	}
	for _, b := range [][]byte{nil, {0}, {0, 0, 0, 0}, {1, 0, 0, 0, 's', 'e', 'i', 'g'}, {1, 0, 0, 0, 'r', 'o', 'l', 'l', 0, 0, 0, 2}} {
		emit(hdrBox("sgpd", false, uint64(8+len(b)), b))
		emit(cat(hdrBox("sgpd", false, uint64(8+len(b)), b), r.Bytes(24, nil)))
		emit(cat(hdrBox("sgpd", true, uint64(16+len(b)), b), r.Bytes(r.Pick(0, 24), nil)))
	}
	return out
}
