package main

import (
	"bytes"
	"fmt"
	"io"
	"os"
	"runtime/debug"
	"strings"

	"github.com/Eyevinn/mp4ff/bits"
	"github.com/Eyevinn/mp4ff/mp4"
)

// topFrame extracts the first mp4ff frame of a panic stack trace.
func topFrame(stack string) string {
	lines := strings.Split(stack, "\n")
	for i, l := range lines {
		if strings.Contains(l, "github.com/Eyevinn/mp4ff/") && !strings.HasPrefix(l, "\t") {
			fn := l
			if k := strings.LastIndex(fn, "("); k > 0 {
				fn = fn[:k]
			}
			fn = strings.TrimPrefix(fn, "github.com/Eyevinn/mp4ff/")
			_ = i
			return fn
		}
	}
	return "?"
}

// guard runs f, returns "" or "panic:<value>@<top frame>".
func guard(f func()) (p string) {
	defer func() {
		if r := recover(); r != nil {
			p = fmt.Sprintf("panic:%v@%s", r, topFrame(string(debug.Stack())))
		}
	}()
	f()
	return ""
}

type decCfg struct {
	sr    bool
	lazy  bool
	flags mp4.DecFileFlags
}

func (c decCfg) String() string {
	s := "R"
	if c.sr {
		s = "S"
	}
	if c.lazy {
		s += "L"
	} else {
		s += "N"
	}
	return fmt.Sprintf("%s%d", s, int(c.flags))
}

func decodeFile(data []byte, c decCfg) (f *mp4.File, err error) {
	opts := []mp4.Option{mp4.WithDecodeFlags(c.flags)}
	if c.lazy {
		opts = append(opts, mp4.WithDecodeMode(mp4.DecModeLazyMdat))
	}
	if c.sr {
		return mp4.DecodeFileSR(bits.NewFixedSliceReader(data), opts...)
	}
	return mp4.DecodeFile(bytes.NewReader(data), opts...)
}

func classify(p string, err error) string {
	if p != "" {
		return p
	}
	if err != nil {
		return "err"
	}
	return "ok"
}

// fullPipeline: decode, Info at 3 levels, both encoders in both modes. Returns a list of "stage=class".
func fullPipeline(data []byte, c decCfg) []string {
	var f *mp4.File
	var err error
	p := guard(func() { f, err = decodeFile(data, c) })
	res := []string{"dec=" + classify(p, err)}
	if p != "" || err != nil {
		return res
	}
	for _, lv := range []string{"", "all:1", "all:2"} {
		p = guard(func() { err = f.Info(io.Discard, lv, "", "  ") })
		res = append(res, "info"+lv+"="+classify(p, err))
	}
	for _, mode := range []mp4.EncFragFileMode{mp4.EncModeSegment, mp4.EncModeBoxTree} {
		f.FragEncMode = mode
		p = guard(func() { err = f.Encode(io.Discard) })
		res = append(res, fmt.Sprintf("encW%d=%s", mode, classify(p, err)))
		p = guard(func() {
			sw := bits.NewFixedSliceWriter(len(data) + 1024)
			err = f.EncodeSW(sw)
		})
		res = append(res, fmt.Sprintf("encSW%d=%s", mode, classify(p, err)))
	}
	return res
}

func cmdTry() {
	type w struct {
		name string
		data []byte
		cfg  decCfg
	}
	none := decCfg{}
	senc1 := senc(1, make([]byte, 8))
	moofSencNoTfhd := box("moof", mfhd(1), box("traf", senc1))
	moofSaio0 := box("moof", mfhd(1), box("traf", tfhd(1), saio(), senc1))
	ws := []w{
		{"moov-no-trak", moovChain(0, 0), none},
		{"moov-no-mdia", moovChain(1, 0), none},
		{"moov-no-stts", moovChain(4, 0), none},
		{"moov-frag-no-ftyp", cat(moovChain(5, 0)), none},
		{"senc-large16-reader", cat(u32(1), []byte("senc"), u64(16)), none},
		{"moof-senc-saio0", moofSaio0, none},
		{"moov+moof-senc-no-tfhd", cat(box("ftyp", []byte("isom"), u32(0)), moovChain(5, 0), moofSencNoTfhd), none},
		{"moof-no-traf+mdat", cat(box("moof", mfhd(1)), mdat(4)), none},
		{"sidx-nomatch+moof", cat(sidx(1, []sref{{0, 100}}), box("moof", mfhd(1), box("traf", tfhd(1)))), none},
		{"sidx-nomatch+emsg", cat(sidx(1, []sref{{0, 100}}), emsg()), none},
		{"ism-2moof-1tfra", cat(box("moof", mfhd(1)), mdat(4), box("moof", mfhd(2)), mdat(4), mfra(tfra(1, []uint32{0}))), decCfg{flags: mp4.DecISMFlag}},
		{"ism-mfra-no-tfra", cat(free(8), mfra()), decCfg{flags: mp4.DecISMFlag}},
		{"trun-zero-offset", cat(box("moof", mfhd(1), box("traf", tfhd(1), trun(true, 0))), mdat(4)), none},
		{"saio0-info", box("moof", mfhd(1), box("traf", tfhd(1), saio())), none},
		{"senc-count-huge", box("moof", mfhd(1), box("traf", tfhd(1), senc(0x7fffffff, []byte{1}))), none},
		{"lazy-mdat-neg-seek", cat(box("moof", free(0)), cat(u32(1), []byte("mdat"), u64(0xfffffffffffffff0))), decCfg{lazy: true}},
	}
	for _, x := range ws {
		if (x.name == "senc-count-huge" || x.name == "lazy-mdat-neg-seek") != (len(os.Args) > 2 && os.Args[2] == x.name) {
			continue
		}
		for _, sr := range []bool{false, true} {
			c := x.cfg
			c.sr = sr
			if sr && c.lazy {
				continue
			}
			fmt.Printf("%-28s %s %v\n", x.name, c, fullPipeline(x.data, c))
		}
	}
}
