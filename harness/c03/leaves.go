// The separately written LEAF decoder pairs (trun, senc, mdat; stsd and the visual sample entry follow in sentry.go):
// T lines of the correspondence.  Each case is one box (compact or 16-byte header) possibly followed by sibling bytes,
// decoded by DecodeBox on a bytes.Reader and by DecodeBoxSR on a FixedSliceReader; the decoded FIELDS, Size(), the number of
// bytes consumed and (SR) the accumulated-error flag are printed and recomputed by the two model decoders of C03LeafModel.v.
package main

import (
	"bytes"
	"fmt"
	"strings"

	"github.com/Eyevinn/mp4ff/bits"
	"github.com/Eyevinn/mp4ff/mp4"
	"verifharness/hx"
)

func leafFields(b mp4.Box) string {
	switch x := b.(type) {
	case *mp4.TrunBox:
		fsf, _ := x.FirstSampleFlags()
		var ss []string
		for _, s := range x.Samples {
			ss = append(ss, fmt.Sprintf("%x.%x.%x.%d", s.Flags, s.Dur, s.Size, s.CompositionTimeOffset))
		}
		return fmt.Sprintf("trun:%d:%x:%d:%x:[%s]", x.Version, x.Flags, x.DataOffset, fsf, strings.Join(ss, ","))
	case *mp4.SencBox:
		raw, rbs, unparsed := mp4.VerifC03SencRaw(x)
		return fmt.Sprintf("senc:%d:%x:%d:%s:%d:%c", x.Version, x.Flags, x.SampleCount, hx.Hex(raw), rbs, boolc(unparsed))
	case *mp4.MdatBox:
		return fmt.Sprintf("mdat:%s:%c", hx.Hex(x.Data), boolc(x.LargeSize))
	}
	return "other:" + b.Type()
}

func leafBoth(data []byte) string {
	var b mp4.Box
	var err error
	rd := bytes.NewReader(data)
	r1 := "err"
	if p := guard(func() { b, err = mp4.DecodeBox(0, rd) }); p != "" {
		r1 = "panic"
	} else if err == nil && b != nil {
		r1 = fmt.Sprintf("ok:%s:S%d:%d", leafFields(b), b.Size(), len(data)-rd.Len())
	}
	sr := bits.NewFixedSliceReader(hx.Exact(data))
	r2 := "err"
	if p := guard(func() { b, err = mp4.DecodeBoxSR(0, sr) }); p != "" {
		r2 = "panic"
	} else if err == nil && b != nil {
		r2 = fmt.Sprintf("ok:%s:S%d:%d:%c", leafFields(b), b.Size(), sr.GetPos(), boolc(sr.AccError() != nil))
	}
	return r1 + "\t" + r2
}

// hdrBox: compact or 16-byte header with an explicit size field (which may lie)
func hdrBox(name string, large bool, size uint64, body []byte) []byte {
	if large {
		return cat(u32(1), []byte(name), u64(size), body)
	}
	return cat(u32(uint32(size)), []byte(name), body)
}

func trunBody(r *hx.Rng, version byte, flags uint32, count uint32, nSamples int) []byte {
	b := cat(u32(uint32(version)<<24|flags), u32(count))
	if flags&1 != 0 {
		b = cat(b, u32(uint32(r.Pick(0, 1, 100, -1, -200))))
	}
	if flags&4 != 0 {
		b = cat(b, u32(uint32(r.Pick(0, 0x10000, 0x2000000, -1))))
	}
	for i := 0; i < nSamples; i++ {
		for _, f := range []uint32{0x100, 0x200, 0x400, 0x800} {
			if flags&f != 0 {
				b = cat(b, u32(uint32(r.Pick(0, 1, 1024, 0x7fffffff, -1, -5, 0x01010000))))
			}
		}
	}
	return b
}

// variants of one well-formed box: as is, + sibling / junk, 16-byte header, lying size fields, truncations
func leafVariants(r *hx.Rng, name string, body []byte, emit func([]byte)) {
	n := uint64(len(body))
	good := hdrBox(name, false, 8+n, body)
	emit(good)
	emit(cat(good, free(r.Intn(3))))
	emit(cat(good, r.Bytes(r.Range(1, 20), nil)))
	emit(hdrBox(name, true, 16+n, body))
	emit(cat(hdrBox(name, true, 16+n, body), r.Bytes(r.Range(1, 20), nil)))
	emit(cat(hdrBox(name, true, 8+n, body), r.Bytes(r.Range(0, 12), nil))) // 16-byte header announcing the compact size
	for _, d := range []int{-8, -4, -1, 1, 4, 8, 16} {
		sz := uint64(int(8+n) + d)
		emit(hdrBox(name, false, sz, body))                                // size field lies, no sibling
		emit(cat(hdrBox(name, false, sz, body), r.Bytes(r.Range(4, 24), nil))) // ... with following bytes
	}
	for _, k := range []int{1, 3, 4, 7, 8, 12} {
		if k <= len(good) {
			emit(good[:len(good)-k]) // truncated stream
		}
	}
}

func genT3Inputs(r *hx.Rng, n int) [][]byte {
	var out [][]byte
	emit := func(d []byte) { out = append(out, d) }
	// trun: every combination of the six flags x 0..2 samples, well formed; variants for a rotating subset
	k := 0
	for fl := 0; fl < 64; fl++ {
		flags := uint32(fl&1) | uint32(fl>>1&1)<<2 | uint32(fl>>2&1)<<8 | uint32(fl>>3&1)<<9 | uint32(fl>>4&1)<<10 | uint32(fl>>5&1)<<11
		for cnt := 0; cnt <= 2; cnt++ {
			body := trunBody(r, byte(r.Pick(0, 0, 1)), flags, uint32(cnt), cnt)
			if k%8 == int(r.Intn(8)) || n >= 2000 {
				leafVariants(r, "trun", body, emit)
			} else {
				emit(hdrBox("trun", false, uint64(8+len(body)), body))
				emit(cat(hdrBox("trun", true, uint64(16+len(body)), body), r.Bytes(r.Range(0, 16), nil)))
			}
			k++
			// inflated / deflated counts with unchanged bytes
			for _, c := range []uint32{uint32(cnt) + 1, 0xffffffff, 1025, 0x40000000} {
				b2 := cat(body[:4], u32(c), body[8:])
				emit(cat(hdrBox("trun", false, uint64(8+len(b2)), b2), r.Bytes(r.Range(0, 20), nil)))
			}
		}
	}
	emit(hdrBox("trun", false, 8, nil))
	emit(hdrBox("trun", false, 12, u32(0)))
	emit(hdrBox("trun", false, 16, cat(u32(0), u32(1024))))
	emit(hdrBox("trun", false, 16, cat(u32(0), u32(1025))))
	emit(hdrBox("trun", false, 16, cat(u32(0xffffffff), u32(0))))
	// senc
	for _, vf := range []uint32{0, 2, 1, 3, 0x01000000, 0x01000002, 0xff000002, 0x00fffffd} {
		for _, cnt := range []uint32{0, 1, 2, 3, 8, 0xffffffff, 0x80000000} {
			for _, rl := range []int{0, 1, 2, 3, 4, 6, 8, 16, 17} {
				body := cat(u32(vf), u32(cnt), r.Bytes(rl, nil))
				if r.Intn(6) == 0 || n >= 2000 {
					leafVariants(r, "senc", body, emit)
				} else {
					emit(hdrBox("senc", false, uint64(8+len(body)), body))
					emit(cat(hdrBox("senc", r.Intn(3) == 0, uint64(8+len(body)+r.Pick(0, 0, 8, -4, 4)), body), r.Bytes(r.Range(0, 12), nil)))
				}
			}
		}
	}
	for _, b := range [][]byte{nil, {0}, {0, 0, 0, 0}, {0, 0, 0, 2, 0, 0, 0}, {0, 0, 0, 2, 0, 0, 0, 1}} {
		emit(hdrBox("senc", false, uint64(8+len(b)), b))
		emit(hdrBox("senc", true, uint64(16+len(b)), b))
		emit(cat(hdrBox("senc", true, uint64(16+len(b)), b), r.Bytes(12, nil)))
	}
	// mdat
	for _, pl := range []int{0, 1, 5, 33} {
		leafVariants(r, "mdat", r.Bytes(pl, nil), emit)
	}
	// random well-formed truns / sencs with random values, then a mutated copy
	for i := 0; i < n; i++ {
		var d []byte
		switch r.Intn(3) {
		case 0, 1:
			flags := uint32(r.Intn(2)) | uint32(r.Intn(2))<<2 | uint32(r.Intn(2))<<8 | uint32(r.Intn(2))<<9 | uint32(r.Intn(2))<<10 | uint32(r.Intn(2))<<11
			cnt := r.Intn(6)
			body := trunBody(r, byte(r.Intn(3)), flags, uint32(cnt), cnt)
			d = hdrBox("trun", r.Intn(8) == 0, uint64(8+len(body)), body)
		default:
			body := cat(u32(uint32(r.Pick(0, 0, 2, 2, 0x01000000))), u32(uint32(r.Pick(0, 1, 2, 5))), r.Bytes(r.Pick(0, 2, 8, 16, 22, 32), nil))
			d = hdrBox("senc", r.Intn(8) == 0, uint64(8+len(body)), body)
		}
		if r.Bool() {
			d = cat(d, r.Bytes(r.Range(1, 24), nil))
		}
		emit(d)
		m := append([]byte(nil), d...)
		switch r.Intn(4) {
		case 0:
			m = m[:r.Intn(len(m)+1)]
		case 1:
			if k := r.Intn(len(m)); k < 4 || k > 7 { // not the box type: the case stays one of the three kinds
				m[k] ^= byte(1 << uint(r.Intn(8)))
			}
		case 2:
			m[3] = byte(int(m[3]) + r.Pick(-8, -4, -1, 1, 4, 8))
		case 3:
			if len(m) >= 16 {
				m[12+r.Intn(4)] = byte(r.Intn(256))
			}
		}
		emit(m)
	}
	return out
}
