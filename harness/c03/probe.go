// `c03 probe -repo DIR`: a dynamic cross-check of the source-fact extractor.  Every harvested testdata box (as is, followed by
// junk, and with its last byte cut off) of a registered type is decoded by mp4.DecodeBoxSR through a recording
// bits.SliceReader; the reader methods the box decoder actually called (everything after DecodeBoxSR's own header decoding
// and size test) must be a subset of the methods the extractor found statically for the SR decoder registered under that
// box type (srcfacts: allMethods, transitively through the callees), for every SR decoder the extractor calls
// position-relative (for the others the static set stops at the first position-dependent use: the dispatch through the
// decoder table inside DecodeBoxSR is a call through a function value).  A method observed but not predicted, or not one of
// the position-relative methods, means the extractor missed a call path: PROBEFAIL.
package main

import (
	"fmt"
	"sort"
	"strings"

	"github.com/Eyevinn/mp4ff/bits"
	"github.com/Eyevinn/mp4ff/mp4"
)

type recReader struct {
	r     bits.SliceReader
	armed bool
	seen  map[string]bool
}

func (x *recReader) note(m string) {
	if x.armed {
		x.seen[m] = true
	}
}
func (x *recReader) AccError() error        { x.note("AccError"); return x.r.AccError() }
func (x *recReader) ReadUint8() byte        { x.note("ReadUint8"); return x.r.ReadUint8() }
func (x *recReader) ReadUint16() uint16     { x.note("ReadUint16"); return x.r.ReadUint16() }
func (x *recReader) ReadInt16() int16       { x.note("ReadInt16"); return x.r.ReadInt16() }
func (x *recReader) ReadUint24() uint32     { x.note("ReadUint24"); return x.r.ReadUint24() }
func (x *recReader) ReadUint32() uint32     { x.note("ReadUint32"); return x.r.ReadUint32() }
func (x *recReader) ReadInt32() int32       { x.note("ReadInt32"); return x.r.ReadInt32() }
func (x *recReader) ReadUint64() uint64     { x.note("ReadUint64"); return x.r.ReadUint64() }
func (x *recReader) ReadInt64() int64       { x.note("ReadInt64"); return x.r.ReadInt64() }
func (x *recReader) ReadBytes(n int) []byte { x.note("ReadBytes"); return x.r.ReadBytes(n) }
func (x *recReader) RemainingBytes() []byte { x.note("RemainingBytes"); return x.r.RemainingBytes() }
func (x *recReader) SkipBytes(n int)        { x.note("SkipBytes"); x.r.SkipBytes(n) }
func (x *recReader) SetPos(pos int)         { x.note("SetPos"); x.r.SetPos(pos) }
func (x *recReader) GetPos() int            { x.note("GetPos"); return x.r.GetPos() }
func (x *recReader) Length() int            { x.note("Length"); return x.r.Length() }
func (x *recReader) ReadFixedLengthString(n int) string {
	x.note("ReadFixedLengthString")
	return x.r.ReadFixedLengthString(n)
}
func (x *recReader) ReadZeroTerminatedString(maxLen int) string {
	x.note("ReadZeroTerminatedString")
	return x.r.ReadZeroTerminatedString(maxLen)
}
func (x *recReader) ReadPossiblyZeroTerminatedString(maxLen int) (string, bool) {
	x.note("ReadPossiblyZeroTerminatedString")
	return x.r.ReadPossiblyZeroTerminatedString(maxLen)
}
func (x *recReader) LookAhead(offset int, data []byte) error {
	x.note("LookAhead")
	return x.r.LookAhead(offset, data)
}
func (x *recReader) NrRemainingBytes() int {
	if !x.armed { // DecodeBoxSR's own size test, right after the header: the box decoder starts here
		x.armed = true
		return x.r.NrRemainingBytes()
	}
	x.note("NrRemainingBytes")
	return x.r.NrRemainingBytes()
}

func cmdProbe(repo string) int {
	decs, _, _, err := sfExtract(repo)
	if err != nil {
		fmt.Fprintln(out, "PROBEERR\t"+err.Error())
		return 2
	}
	static := map[string]map[string]bool{}
	relative := map[string]bool{}
	for _, d := range decs {
		relative[d.Key] = d.Relative
		m := map[string]bool{}
		for _, x := range d.Methods {
			m[x] = true
		}
		static[d.Key] = m
	}
	observed := map[string]map[string]bool{}
	count := map[string]int{}
	for _, b := range harvestPool() {
		if len(b) < 8 {
			continue
		}
		name := string(b[4:8])
		if _, ok := static[name]; !ok {
			continue
		}
		variants := [][]byte{b, append(append([]byte{}, b...), 0, 0, 0, 9, 'j', 'u', 'n', 'k', 1), b[:len(b)-1]}
		for _, v := range variants {
			rec := &recReader{r: bits.NewFixedSliceReader(append([]byte{}, v...)), seen: map[string]bool{}}
			_ = guard(func() { _, _ = mp4.DecodeBoxSR(0, rec) })
			if observed[name] == nil {
				observed[name] = map[string]bool{}
			}
			for m := range rec.seen {
				observed[name][m] = true
			}
			count[name]++
		}
	}
	var names []string
	for n := range observed {
		names = append(names, n)
	}
	sort.Strings(names)
	rc := 0
	for _, n := range names {
		var obs, miss []string
		for m := range observed[n] {
			obs = append(obs, m)
			if relative[n] && (!static[n][m] || !(sfLocalAny[m] || sfLocalCount[m] || m == "GetPos")) {
				miss = append(miss, m)
			}
		}
		sort.Strings(obs)
		sort.Strings(miss)
		fmt.Fprintf(out, "PROBE\t%x\t%d\t%v\t%s\n", n, count[n], relative[n], strings.Join(obs, ","))
		for _, m := range miss {
			fmt.Fprintf(out, "PROBEFAIL\t%x\t%s\n", n, m)
			rc = 1
		}
	}
	fmt.Fprintf(out, "PROBED\t%d\t%d\n", len(names), len(static))
	return rc
}
