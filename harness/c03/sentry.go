// stsd and the visual sample entry: V lines of the correspondence.  One box (stsd, avc1, hev1, vp09 ...) possibly followed by
// sibling bytes through DecodeBox and DecodeBoxSR: decoded fields, children (type:size), Size(), bytes consumed, AccError,
// recomputed by the model decoders stsd_r / stsd_sr and vse_r / vse_sr (C03LeafModel.v).
package main

import (
	"bytes"
	"fmt"
	"strings"

	"github.com/Eyevinn/mp4ff/bits"
	"github.com/Eyevinn/mp4ff/mp4"
	"verifharness/hx"
)

func kidsDump(l []mp4.Box, deep bool) string {
	ss := make([]string, len(l))
	for i, c := range l {
		if deep {
			var sb strings.Builder
			dumpBox(c, &sb)
			ss[i] = sb.String()
		} else {
			ss[i] = fmt.Sprintf("%x:%d", c.Type(), c.Size())
		}
	}
	return strings.Join(ss, ",")
}

func entFields(b mp4.Box) string {
	switch x := b.(type) {
	case *mp4.VisualSampleEntryBox:
		return fmt.Sprintf("vse:%x:%d:%d:%d:%x:%x:%d:%s:[%s]", x.Type(), x.DataReferenceIndex, x.Width, x.Height, x.Horizresolution,
			x.Vertresolution, x.FrameCount, hx.Hex([]byte(x.CompressorName)), kidsDump(x.Children, true))
	case *mp4.StsdBox:
		return fmt.Sprintf("stsd:%d:%x:%d:[%s]", x.Version, x.Flags, x.SampleCount, kidsDump(x.Children, false))
	}
	return "other:" + b.Type()
}

func entBoth(data []byte) string {
	var b mp4.Box
	var err error
	rd := bytes.NewReader(data)
	r1 := "err"
	if p := guard(func() { b, err = mp4.DecodeBox(0, rd) }); p != "" {
		r1 = "panic"
	} else if err == nil && b != nil {
		r1 = fmt.Sprintf("ok:%s:S%d:%d", entFields(b), b.Size(), len(data)-rd.Len())
	}
	sr := bits.NewFixedSliceReader(hx.Exact(data))
	r2 := "err"
	if p := guard(func() { b, err = mp4.DecodeBoxSR(0, sr) }); p != "" {
		r2 = "panic"
	} else if err == nil && b != nil {
		r2 = fmt.Sprintf("ok:%s:S%d:%d:%c", entFields(b), b.Size(), sr.GetPos(), boolc(sr.AccError() != nil))
	}
	return r1 + "\t" + r2
}

// vseFixed: the 78 bytes between the header and the children
func vseFixed(r *hx.Rng, cnl int) []byte {
	name := make([]byte, 31)
	copy(name, r.Bytes(31, []byte("abcXYZ 01")))
	b := cat(make([]byte, 6), u16(uint16(r.Pick(0, 1, 2))), make([]byte, 16), u16(uint16(r.Pick(0, 320, 1920))), u16(uint16(r.Pick(0, 240, 1080))),
		u32(0x00480000), u32(uint32(r.Pick(0x00480000, 0))), u32(0), u16(uint16(r.Pick(1, 0, 3))), []byte{byte(cnl)}, name, u16(0x18), u16(0xffff))
	return b
}

func vseKid(r *hx.Rng) []byte {
	switch r.Intn(8) {
	case 0:
		return free(r.Pick(0, 1, 5))
	case 1:
		return box("zzzz", r.Bytes(r.Pick(0, 3, 12), nil))
	case 2:
		return lbox("zzzz", r.Bytes(r.Pick(0, 3), nil))
	case 3:
		return box("skip", r.Bytes(r.Pick(0, 2), nil))
	case 4:
		return box("udta", free(r.Pick(0, 2)))
	case 5:
		return mdat(r.Pick(0, 3))
	case 6:
		return cat(u32(uint32(r.Pick(7, 9, 30, 0))), []byte("zzzz"), r.Bytes(1, nil)) // lying child
	}
	return box("abcd", r.Bytes(4, nil))
}

func vseBox(r *hx.Rng, name string, cnl int, nKids int) []byte {
	body := vseFixed(r, cnl)
	for i := 0; i < nKids; i++ {
		body = cat(body, vseKid(r))
	}
	return box(name, body)
}

func genV3Inputs(r *hx.Rng, n int) [][]byte {
	var out [][]byte
	emit := func(d []byte) { out = append(out, d) }
	names := []string{"avc1", "hev1", "vp09", "encv", "avc3", "hvc1", "av01", "vp08"}
	variants := func(good []byte) {
		emit(good)
		emit(cat(good, free(r.Intn(3))))
		emit(cat(good, r.Bytes(r.Range(1, 90), nil)))
		if l := toLarge(good); l != nil {
			emit(l)
			emit(cat(l, r.Bytes(r.Range(1, 12), nil)))
		}
		for _, d := range []int{-8, -1, 1, 8, 20} {
			m := append([]byte(nil), good...)
			copy(m, u32(uint32(len(good)+d)))
			emit(m)
			emit(cat(m, r.Bytes(r.Range(8, 100), nil)))
		}
		for _, k := range []int{1, 4, 9, 30, 60, 80} {
			if k <= len(good) {
				emit(good[:len(good)-k])
			}
		}
	}
	for i, nm := range names {
		for _, cnl := range []int{0, 4, 31, 32, 255} {
			for k := 0; k <= 2; k++ {
				b := vseBox(r, nm, cnl, k)
				if (i+cnl+k)%3 == 0 || n >= 2000 {
					variants(b)
				} else {
					emit(b)
				}
			}
		}
		// boxes shorter than the fixed part, with and without following bytes
		for _, sz := range []int{8, 16, 20, 50, 85, 86} {
			b := vseBox(r, nm, 0, 0)[:sz]
			copy(b, u32(uint32(sz)))
			emit(b)
			emit(cat(b, r.Bytes(100, nil)))
		}
	}
	// stsd
	for _, vf := range []uint32{0, 1, 0x01000000, 0x00ffffff} {
		for cnt := 0; cnt <= 3; cnt++ {
			for _, delta := range []int{0, 0, 1, -1} {
				var kids []byte
				for i := 0; i < cnt; i++ {
					switch r.Intn(4) {
					case 0:
						kids = cat(kids, box("zzzz", r.Bytes(r.Pick(0, 8), nil)))
					case 1:
						kids = cat(kids, free(r.Pick(0, 3)))
					default:
						kids = cat(kids, vseBox(r, names[r.Intn(3)], r.Pick(0, 7, 31, 40), r.Intn(3)))
					}
				}
				b := box("stsd", u32(vf), u32(uint32(cnt+delta)), kids)
				if r.Intn(4) == 0 || n >= 2000 {
					variants(b)
				} else {
					emit(b)
					emit(cat(b, r.Bytes(r.Range(0, 20), nil)))
				}
			}
		}
	}
	for _, b := range [][]byte{box("stsd"), box("stsd", u32(0)), box("stsd", u32(0), u32(0)), box("stsd", u32(0), u32(1)), box("stsd", u32(0), u32(0xffffffff)),
		lbox("stsd", u32(0), u32(0)), lbox("stsd", u32(0), u32(1), free(0)), box("stsd", u32(0), u32(1), lbox("zzzz", []byte{1}))} {
		emit(b)
		emit(cat(b, r.Bytes(16, nil)))
	}
	// random: a generated box with one mutated byte outside the type fields of the outer box
	for i := 0; i < n/2; i++ {
		var d []byte
		if r.Bool() {
			d = vseBox(r, names[r.Intn(len(names))], r.Pick(0, 3, 31, 33), r.Intn(4))
		} else {
			d = box("stsd", u32(0), u32(uint32(r.Pick(1, 1, 2))), vseBox(r, names[r.Intn(3)], r.Pick(0, 5), r.Intn(3)))
		}
		if r.Bool() {
			d = cat(d, r.Bytes(r.Range(1, 40), nil))
		}
		emit(d)
		m := append([]byte(nil), d...)
		if k := r.Intn(len(m)); k < 4 || k > 7 {
			m[k] ^= byte(1 << uint(r.Intn(8)))
		}
		emit(m)
	}
	return out
}
