// Boxes behind the 16-byte largesize header (size field 1 + 64-bit size): DecodeHeader / DecodeHeaderSR accept it for
// every box type, MdatBox.Encode is the one encoder that writes it (LargeSize).  This file holds
//   - the observables of the strengthened oracle (Size() of every box, LargeSize and StartPos of mdat, StartPos of moof),
//   - the search jobs: every harvested box kind x {large header itself, large mdat appended as last child}, box level, and
//     every testdata file / synthesized file with a large mdat before / between / after its top-level boxes and with its
//     own mdat boxes rewritten to the large header, file level (progressive and fragmented),
//   - the correspondence lines B (box trees, both decoders against the model's box_r / box_sr) and L (byte-level files
//     through DecodeFile / DecodeFileSR against the model's file_r / file_sr: sizes and start positions).
package main

import (
	"encoding/binary"
	"fmt"
	"strings"

	"github.com/Eyevinn/mp4ff/mp4"
	"verifharness/hx"
)

// dumpBox3: name:size{children}; mdat also shows LargeSize and StartPos
func dumpBox3(b mp4.Box, sb *strings.Builder) {
	fmt.Fprintf(sb, "%x:%d", b.Type(), b.Size())
	if m, ok := b.(*mp4.MdatBox); ok {
		fmt.Fprintf(sb, "L%c@%d", boolc(m.LargeSize), m.StartPos)
	}
	if c, ok := b.(mp4.ContainerBox); ok {
		sb.WriteByte('{')
		for i, ch := range c.GetChildren() {
			if i > 0 {
				sb.WriteByte(',')
			}
			dumpBox3(ch, sb)
		}
		sb.WriteByte('}')
	}
}

// topObs: every top-level box of a decoded file with its Size(); mdat: LargeSize and StartPos; moof: StartPos
func topObs(f *mp4.File) string { return topObsF(f, true) }

func topObsF(f *mp4.File, flag bool) string {
	var sb strings.Builder
	for i, ch := range f.Children {
		if i > 0 {
			sb.WriteByte(',')
		}
		fmt.Fprintf(&sb, "%x:%d", ch.Type(), ch.Size())
		switch x := ch.(type) {
		case *mp4.MdatBox:
			if flag {
				fmt.Fprintf(&sb, "L%c", boolc(x.LargeSize))
			}
			fmt.Fprintf(&sb, "@%d", x.StartPos)
		case *mp4.MoofBox:
			fmt.Fprintf(&sb, "@%d", x.StartPos)
		}
	}
	return sb.String()
}

// toLarge rewrites a compact-header box into the same box behind a 16-byte header (nil if it has one already).
func toLarge(b []byte) []byte {
	if len(b) < 8 || binary.BigEndian.Uint32(b) != uint32(len(b)) {
		return nil
	}
	return cat(u32(1), b[4:8], u64(uint64(len(b)+8)), b[8:])
}

// appendChild: the compact-header box b with child appended to its body
func appendChild(b, child []byte) []byte {
	if len(b) < 8 || binary.BigEndian.Uint32(b) != uint32(len(b)) {
		return nil
	}
	return cat(u32(uint32(len(b)+len(child))), b[4:], child)
}

// withLargeMdats rewrites every top-level mdat of a file to the 16-byte header; nil if there is none
func withLargeMdats(data []byte) []byte {
	var out []byte
	n := 0
	for _, b := range rawTop(data) {
		if string(b[4:8]) == "mdat" {
			if l := toLarge(b); l != nil {
				out = append(out, l...)
				n++
				continue
			}
		}
		out = append(out, b...)
	}
	if n == 0 || len(cat(rawTop(data)...)) != len(data) {
		return nil
	}
	return out
}

// largeSearchJobs: see the file comment
func largeSearchJobs(r *hx.Rng, n int) (jobs []job, descs []string) {
	add := func(kind string, d []byte, desc string) {
		if d == nil {
			return
		}
		jobs = append(jobs, job{kind: kind, cfg: map[string]string{"X3": "-", "F3": "RN0"}[kind], data: d})
		descs = append(descs, desc)
	}
	// ---- box level: every harvested box kind
	perKind := map[string]int{}
	seen := map[string]bool{}
	lm := [][]byte{lmdat(0), lmdat(3)}
	for _, fn := range testdataFiles() {
		data := mustRead(fn)
		var boxes []rawBox
		walkRaw(data, 0, len(data), 0, nil, &boxes)
		for _, b := range boxes {
			if b.size > 1<<14 || b.hdr != 8 || perKind[b.name] >= 3 {
				continue
			}
			bd := data[b.off : b.off+b.size]
			if seen[string(bd)] {
				continue
			}
			seen[string(bd)] = true
			perKind[b.name]++
			add("X3", toLarge(bd), "largehdr("+fn+"/"+b.name+")")
			for _, m := range lm {
				add("X3", appendChild(bd, m), fmt.Sprintf("append-large-mdat%d(%s/%s)", len(m)-16, fn, b.name))
				if _, isCont := rawContainers[b.name]; isCont {
					// also as first child where the children start right after the header
					if rawContainers[b.name] == 0 {
						add("X3", cat(u32(uint32(len(bd)+len(m))), bd[4:8], m, bd[8:]), fmt.Sprintf("prepend-large-mdat%d(%s/%s)", len(m)-16, fn, b.name))
					}
				}
			}
		}
	}
	// the std leaves and containers of the model, compact and large, alone and nested
	for _, nm := range append(append([]string{}, contNames...), "free", "skip", "mdat", "zzzz", "trak", "mdia", "minf", "stbl", "edts", "mvex", "meta", "sinf", "schi") {
		for _, p := range [][]byte{nil, {1}, {1, 2, 3, 4, 5, 6, 7, 8, 9}} {
			add("X3", lbox(nm, p), fmt.Sprintf("lbox(%s,%d)", nm, len(p)))
			add("X3", box(nm, lmdat(len(p))), fmt.Sprintf("%s{lmdat(%d)}", nm, len(p)))
			add("X3", box(nm, lmdat(len(p)), free(1)), fmt.Sprintf("%s{lmdat(%d),free}", nm, len(p)))
			add("X3", box(nm, mdat(2), lmdat(len(p)), mdat(0)), fmt.Sprintf("%s{mdat,lmdat(%d),mdat}", nm, len(p)))
		}
	}
	// ---- file level: testdata files
	for _, fn := range testdataFiles() {
		data := mustRead(fn)
		if len(data) > 300000 {
			continue
		}
		tops := rawTop(data)
		if len(cat(tops...)) != len(data) {
			continue
		}
		add("F3", withLargeMdats(data), "large-mdats("+fn+")")
		for _, m := range lm {
			for i := 0; i <= len(tops); i++ {
				if len(tops) > 12 && i > 4 && i < len(tops)-4 && r.Intn(4) != 0 {
					continue
				}
				d := cat(cat(tops[:i]...), m, cat(tops[i:]...))
				add("F3", d, fmt.Sprintf("insert-large-mdat%d@%d(%s)", len(m)-16, i, fn))
				if i < len(tops) && string(tops[i][4:8]) == "mdat" {
					// replace the file's own mdat by a large one with the same payload: trun data offsets still point into it
					add("F3", cat(cat(tops[:i]...), toLarge(tops[i]), cat(tops[i+1:]...)), fmt.Sprintf("large-mdat@%d(%s)", i, fn))
				}
			}
		}
	}
	// ---- file level: synthesized progressive and fragmented files
	p := getParts()
	moofmdat := func(large bool, n int) []byte {
		m := box("moof", mfhd(1), box("traf", tfhd(1), trun(true, 100)))
		if large {
			return cat(m, lmdat(n))
		}
		return cat(m, mdat(n))
	}
	init := cat(p.ftyp, moovChain(5, 0))
	prog := cat(p.ftyp, moovChain(5, 1))
	for _, n := range []int{0, 4} {
		add("F3", cat(prog, lmdat(n)), fmt.Sprintf("prog,lmdat(%d)", n))
		add("F3", cat(p.ftyp, lmdat(n), moovChain(5, 1)), fmt.Sprintf("ftyp,lmdat(%d),moov", n))
		add("F3", cat(lmdat(n), prog, free(1)), fmt.Sprintf("lmdat(%d),prog,free", n))
		add("F3", cat(prog, lmdat(n), free(2), mdat(0), lbox("zzzz", []byte{1})), fmt.Sprintf("prog,lmdat(%d),free,mdat0,lzzzz", n))
		add("F3", cat(init, moofmdat(true, n)), fmt.Sprintf("init,moof,lmdat(%d)", n))
		add("F3", cat(init, styp(), moofmdat(true, n), moofmdat(false, 4), styp(), moofmdat(true, 4), moofmdat(true, n)), fmt.Sprintf("init,2 segments, lmdat(%d)", n))
		add("F3", cat(styp(), moofmdat(true, n), moofmdat(false, 4)), fmt.Sprintf("styp,moof,lmdat(%d),moof,mdat", n))
		add("F3", cat(moofmdat(true, n), emsg(), moofmdat(true, n), mfra(tfra(1, []uint32{0}))), fmt.Sprintf("moof,lmdat(%d),emsg,moof,lmdat,mfra", n))
		add("F3", cat(init, sidx(0, []sref{{0, 100}}), styp(), moofmdat(true, n), lbox("zzzz"), moofmdat(false, 0)), fmt.Sprintf("init,sidx,styp,moof,lmdat(%d),lzzzz,moof,mdat", n))
	}
	for i := 0; i < n/20; i++ {
		// random shape lists in which every mdat (and every 'U') has the large header
		l := randomList(r)
		for _, s := range l {
			if s.kind == 'D' || s.kind == 'U' {
				s.large = true
			}
		}
		add("F3", renderList(l), "large-shapes:"+listString(l))
	}
	return
}

// ---------------------------------------------------------------- corr: B and L lines
// genLargeNode: like genNode with a high share of 16-byte headers
func genLargeNode(r *hx.Rng, depth int) *node {
	if depth > 0 && r.Intn(8) == 0 {
		// stsd{sample entries}: the count mostly right; entries are visual sample entries (with children) or unknown boxes
		n := &node{name: "stsd", cont: true}
		k := r.Intn(3)
		for i := 0; i < k; i++ {
			if r.Intn(3) == 0 {
				n.kids = append(n.kids, &node{name: "zzzz", payload: r.Pick(0, 4)})
				continue
			}
			e := &node{name: []string{"avc1", "hev1", "vp09"}[r.Intn(3)], cont: true, prefix: vseFixed(r, r.Pick(0, 5, 31, 31, 40))}
			for j := r.Intn(3); j > 0; j-- {
				e.kids = append(e.kids, &node{name: []string{"free", "zzzz", "skip", "abcd"}[r.Intn(4)], payload: r.Pick(0, 1, 9), large: r.Intn(8) == 0})
			}
			n.kids = append(n.kids, e)
		}
		n.prefix = cat(u32(0), u32(uint32(k+r.Pick(0, 0, 0, 0, 1))))
		return n
	}
	if depth > 0 && r.Intn(3) == 0 {
		n := &node{name: contNames[r.Intn(len(contNames))], cont: true, large: r.Intn(4) == 0}
		for k := r.Intn(4); k > 0; k-- {
			n.kids = append(n.kids, genLargeNode(r, depth-1))
		}
		return n
	}
	switch r.Intn(6) {
	case 0: // a trun leaf: mostly well formed (count matches), sometimes an inflated count or a cut body
		flags := uint32(r.Intn(2)) | uint32(r.Intn(2))<<2 | uint32(r.Intn(2))<<8 | uint32(r.Intn(2))<<9 | uint32(r.Intn(2))<<10 | uint32(r.Intn(2))<<11
		cnt := r.Intn(4)
		b := trunBody(r, 0, flags, uint32(cnt+r.Pick(0, 0, 0, 1)), cnt)
		if r.Intn(8) == 0 && len(b) > 8 {
			b = b[:len(b)-r.Range(1, 4)]
		}
		return &node{name: "trun", body: b, large: r.Intn(8) == 0}
	case 1: // a senc leaf
		b := cat(u32(uint32(r.Pick(0, 0, 2, 2, 0x01000000))), u32(uint32(r.Pick(0, 1, 2, 9))), r.Bytes(r.Pick(0, 2, 8, 16, 22), nil))
		if r.Intn(8) == 0 {
			b = b[:r.Intn(len(b))]
		}
		return &node{name: "senc", body: b, large: r.Intn(8) == 0}
	}
	return &node{name: leafNames[r.Intn(len(leafNames))], payload: r.Pick(0, 0, 1, 4, 9), large: r.Intn(2) == 0}
}

func genB3Inputs(r *hx.Rng, n int) [][]byte {
	var out [][]byte
	for _, nm := range append(append([]string{}, contNames...), "free", "skip", "mdat", "zzzz") {
		for _, k := range []int{0, 1, 9} {
			p := make([]byte, k)
			out = append(out, lbox(nm, p), box(nm, lbox("mdat", p)), box(nm, lbox("zzzz", p), free(0)), lbox(nm, lbox("mdat", p)),
				cat(u32(1), []byte(nm), u64(uint64(15+k)), p), cat(u32(1), []byte(nm), u64(uint64(17+k)), p), cat(u32(1), []byte(nm), u64(uint64(16+k)), p)[:12+k])
		}
	}
	for i := 0; i < n; i++ {
		var offs []int
		t := genLargeNode(r, 3)
		d := encodeNode(t, 0, &offs)
		if i%2 == 1 {
			d = mutateBox(r, d, offs)
		}
		out = append(out, d)
	}
	return out
}

// genL3Inputs: byte-level files over the leaves of the model (free, skip, mdat, unknown; udta/dinf containers), compact and
// large headers, at most one non-empty mdat (the progressive-file rule), every second one mutated
func genL3Inputs(r *hx.Rng, n int) [][]byte {
	var out [][]byte
	out = append(out, nil, lmdat(0), lmdat(3), cat(lmdat(3), free(0)), cat(free(1), lmdat(2), free(0), mdat(0)), cat(lbox("zzzz", []byte{1}), mdat(0)),
		cat(mdat(0), lmdat(0), mdat(5)), cat(box("udta", lmdat(1)), mdat(0)), cat(lbox("free", []byte{1}), mdat(0)), cat(lbox("udta"), mdat(1)))
	for i := 0; i < n; i++ {
		var d []byte
		var offs []int
		full := false
		for k := r.Range(1, 5); k > 0; k-- {
			var nd *node
			switch r.Intn(6) {
			case 0, 1:
				pl := r.Pick(0, 0, 3, 7)
				if full {
					pl = 0
				}
				if pl > 0 {
					full = true
				}
				nd = &node{name: "mdat", payload: pl, large: r.Intn(2) == 0}
			case 2:
				nd = &node{name: []string{"udta", "dinf"}[r.Intn(2)], cont: true, large: r.Intn(6) == 0, kids: []*node{{name: "free", payload: r.Pick(0, 2)}}}
			default:
				nd = &node{name: []string{"free", "skip", "zzzz", "abcd"}[r.Intn(4)], payload: r.Pick(0, 1, 4, 9), large: r.Intn(3) == 0}
			}
			d = append(d, encodeNode(nd, len(d), &offs)...)
		}
		if i%2 == 1 {
			d = mutateBox(r, d, offs)
		}
		out = append(out, d)
	}
	return out
}

// fileBoth: DecodeFile and DecodeFileSR with default options: class and top-level observables
func fileBoth(data []byte) string {
	one := func(sr bool) string {
		f, p, err := decFile(data, sr, 0)
		switch {
		case p != "":
			return projectClass(p)
		case err != nil || f == nil:
			return "err"
		}
		return "ok:" + topObsF(f, false)
	}
	return one(false) + "\t" + one(true)
}
