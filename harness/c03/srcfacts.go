// Source-fact extractor for C03 (`c03 srcfacts -repo DIR [-out coq/c03/C03Facts.v]`), run on EVERY check.
//
// Standard library only (go/parser, go/ast, go/types; the library packages are type-checked here, standard-library
// imports come from the "source" importer); files carrying a //go:build line that is false for the default build
// (the add-only `verif` hooks) are not part of the analysed library.
//
// For every key of the composite literals assigned to mp4.decoders / mp4.decodersSR in the init functions it records
// the registered reader-path decoder R and SliceReader-path decoder S and classifies the pair:
//
//	DELEGATING   R has exactly the parameters (hdr BoxHeader, startPos uint64, r io.Reader), results (Box, error) and the body
//
//	                 data, err := readBoxBody(r, hdr)
//	                 if err != nil { return nil, E }          E: err | fmt.Errorf(...) (any arguments)
//	                 sr := bits.NewFixedSliceReader(data)
//	                 return S(hdr, startPos, sr)
//
//	             up to the names of the three locals, where readBoxBody, bits.NewFixedSliceReader and S resolve (go/types) to
//	             the package-level functions of those names, the arguments are exactly the parameters / locals in that
//	             order, and S is the function registered in decodersSR under the SAME key.  Nothing else is accepted: no
//	             extra statement, no other error test, no other reader, no other callee.
//	CONTAINER-TWIN / CONTAINER-BODY / PURE-TWIN / RAW-BODY   see containerClass and leafClass below
//	SEPARATE     everything else (listed by name; the check holds an explicit table of which of them have a pair theorem)
//
// and for the SR decoder S of every pair whether it is RELATIVE, the hypothesis `local_prog` of C03_delegate_sound /
// C03_delegate_sound_ext: every use of its bits.SliceReader parameter is
//   - the receiver of a call of one of the position-relative methods
//     ReadUint8 ReadUint16 ReadInt16 ReadUint24 ReadUint32 ReadInt32 ReadUint64 ReadInt64 ReadBytes AccError            (any argument)
//     GetPos                   only as `v := sr.GetPos()` with v a local int that is used in nothing but differences of two positions,
//                              or directly as an operand of such a difference (`sr.GetPos() - initPos`: XRelPos of the theorem)
//     ReadFixedLengthString                                                                                              (any int argument)
//     SkipBytes                (argument provably in [0, 2^62): a constant, or built from len(..), conversions of unsigned 8/16/32-bit
//                               values, and + * / % >> & of such)
//     ReadZeroTerminatedString ReadPossiblyZeroTerminatedString      (argument provably below 2^62, see sfRange: sums and differences of
//                               such values, of hdr.payloadLen() (below 2^61 under the theorem's hypothesis on the buffer) and of local
//                               int variables all of whose assignments are of this form; negative counts are harmless), or
//   - an argument of a call of a function declared in the analysed packages whose corresponding parameter is itself
//     relative (greatest fixpoint over the call graph; calls through interfaces or function values are NOT accepted).
// Anything else (GetPos, SetPos, Length, NrRemainingBytes, RemainingBytes, LookAhead, storing or returning the reader,
// passing it to an unknown callee, a non-constant possibly negative count) makes the decoder NOT relative, and the
// offending use is reported.
//
// Encoders: for every named type of package mp4 with methods Encode(w io.Writer) error and EncodeSW(sw bits.SliceWriter) error:
//
//	ENC-DELEGATING   sw := bits.NewFixedSliceWriter(int(b.Size()))
//	                 err := b.EncodeSW(sw)
//	                 if err != nil { return err }
//	                 _, err = w.Write(sw.Bytes())
//	                 return err
//	                 (up to the names of receiver and locals)
//	ENC-SEPARATE     everything else
package main

import (
	"bytes"
	"fmt"
	"go/ast"
	"go/build/constraint"
	"go/constant"
	"go/importer"
	"go/parser"
	"go/token"
	"go/types"
	"os"
	"path/filepath"
	"reflect"
	"sort"
	"strings"
)

const sfModPath = "github.com/Eyevinn/mp4ff"

var sfLibPkgs = []string{"bits", "avc", "hevc", "sei", "aac", "av1", "mp4"}

type sfImporter struct {
	std   types.Importer
	done  map[string]*types.Package
	check func(name string) (*types.Package, error)
	busy  map[string]bool
}

func (li *sfImporter) Import(path string) (*types.Package, error) {
	if p, ok := li.done[path]; ok {
		return p, nil
	}
	if strings.HasPrefix(path, sfModPath+"/") {
		name := strings.TrimPrefix(path, sfModPath+"/")
		if li.busy[name] {
			return nil, fmt.Errorf("import cycle through %s", path)
		}
		return li.check(name)
	}
	return li.std.Import(path)
}

func sfBuildOK(f *ast.File) bool {
	for _, cg := range f.Comments {
		if cg.Pos() >= f.Package {
			break
		}
		for _, c := range cg.List {
			if constraint.IsGoBuild(c.Text) {
				x, err := constraint.Parse(c.Text)
				if err != nil {
					return false
				}
				return x.Eval(func(tag string) bool {
					return tag == "linux" || tag == "amd64" || tag == "unix" || tag == "gc" || strings.HasPrefix(tag, "go1.")
				})
			}
		}
	}
	return true
}

type sfPkg struct {
	name  string
	files []*ast.File
	info  *types.Info
	pkg   *types.Package
}

type sfWorld struct {
	fset  *token.FileSet
	pkgs  map[string]*sfPkg
	decls map[*types.Func]*ast.FuncDecl
	infoOf map[*types.Func]*types.Info
	files int
	encPrelude string // encDelegating: "" = plain pattern; non-empty on entry = accept a prelude, on exit = the prelude method
}

func sfLoad(repo string) (*sfWorld, error) {
	w := &sfWorld{fset: token.NewFileSet(), pkgs: map[string]*sfPkg{}, decls: map[*types.Func]*ast.FuncDecl{}, infoOf: map[*types.Func]*types.Info{}}
	li := &sfImporter{std: importer.ForCompiler(w.fset, "source", nil), done: map[string]*types.Package{}, busy: map[string]bool{}}
	li.check = func(name string) (*types.Package, error) {
		if p, ok := li.done[sfModPath+"/"+name]; ok {
			return p, nil
		}
		li.busy[name] = true
		defer delete(li.busy, name)
		dir := filepath.Join(repo, name)
		ents, err := os.ReadDir(dir)
		if err != nil {
			return nil, err
		}
		var files []*ast.File
		for _, e := range ents {
			fn := e.Name()
			if e.IsDir() || !strings.HasSuffix(fn, ".go") || strings.HasSuffix(fn, "_test.go") {
				continue
			}
			f, err := parser.ParseFile(w.fset, filepath.Join(dir, fn), nil, parser.ParseComments)
			if err != nil {
				return nil, err
			}
			if !sfBuildOK(f) {
				continue
			}
			files = append(files, f)
		}
		info := &types.Info{
			Uses:       map[*ast.Ident]types.Object{},
			Defs:       map[*ast.Ident]types.Object{},
			Selections: map[*ast.SelectorExpr]*types.Selection{},
			Types:      map[ast.Expr]types.TypeAndValue{},
		}
		conf := types.Config{Importer: li}
		pkg, err := conf.Check(sfModPath+"/"+name, w.fset, files, info)
		if err != nil {
			return nil, fmt.Errorf("type-check %s: %v", name, err)
		}
		li.done[sfModPath+"/"+name] = pkg
		w.files += len(files)
		w.pkgs[name] = &sfPkg{name, files, info, pkg}
		for _, f := range files {
			for _, d := range f.Decls {
				if fd, ok := d.(*ast.FuncDecl); ok {
					if fo, ok := info.Defs[fd.Name].(*types.Func); ok {
						w.decls[fo] = fd
						w.infoOf[fo] = info
					}
				}
			}
		}
		return pkg, nil
	}
	for _, name := range sfLibPkgs {
		if _, err := li.check(name); err != nil {
			return nil, err
		}
	}
	return w, nil
}

func (w *sfWorld) pos(p token.Pos) string {
	q := w.fset.Position(p)
	return fmt.Sprintf("%s/%s:%d", filepath.Base(filepath.Dir(q.Filename)), filepath.Base(q.Filename), q.Line)
}

// ---------------------------------------------------------------- the two tables
type sfReg struct {
	key string
	fn  *types.Func // nil: the registered value is not a plain package-level function
	txt string
}

// table: the composite literal assigned to the package-level variable `name` inside an init function of package mp4
func (w *sfWorld) table(name string) ([]sfReg, error) {
	p := w.pkgs["mp4"]
	v, _ := p.pkg.Scope().Lookup(name).(*types.Var)
	if v == nil {
		return nil, fmt.Errorf("package-level variable mp4.%s not found", name)
	}
	var regs []sfReg
	found := 0
	for _, f := range p.files {
		for _, d := range f.Decls {
			fd, ok := d.(*ast.FuncDecl)
			if !ok || fd.Body == nil {
				continue
			}
			ast.Inspect(fd.Body, func(n ast.Node) bool {
				as, ok := n.(*ast.AssignStmt)
				if !ok || len(as.Lhs) != 1 || len(as.Rhs) != 1 {
					return true
				}
				id, ok := as.Lhs[0].(*ast.Ident)
				if !ok || p.info.Uses[id] != v {
					return true
				}
				cl, ok := as.Rhs[0].(*ast.CompositeLit)
				if !ok {
					return true
				}
				if fd.Name.Name != "init" || fd.Recv != nil {
					return true // SetBoxDecoder-style writers are C20's business
				}
				found++
				for _, e := range cl.Elts {
					kv, ok := e.(*ast.KeyValueExpr)
					if !ok {
						continue
					}
					tv := p.info.Types[kv.Key]
					if tv.Value == nil || tv.Value.Kind() != constant.String {
						regs = append(regs, sfReg{key: "?", txt: "non-constant key at " + w.pos(kv.Pos())})
						continue
					}
					r := sfReg{key: constant.StringVal(tv.Value)}
					if id, ok := kv.Value.(*ast.Ident); ok {
						if fo, ok := p.info.Uses[id].(*types.Func); ok && w.decls[fo] != nil {
							r.fn = fo
						}
						r.txt = id.Name
					} else {
						r.txt = "expression at " + w.pos(kv.Value.Pos())
					}
					regs = append(regs, r)
				}
				return true
			})
		}
	}
	if found != 1 {
		return nil, fmt.Errorf("expected exactly one composite literal assigned to mp4.%s in init, found %d", name, found)
	}
	return regs, nil
}

// ---------------------------------------------------------------- shape matching helpers
func sfIdent(e ast.Expr) *ast.Ident {
	id, _ := e.(*ast.Ident)
	return id
}

// usesObj: e is an identifier denoting obj
func sfIs(info *types.Info, e ast.Expr, obj types.Object) bool {
	id := sfIdent(e)
	return id != nil && obj != nil && info.Uses[id] == obj
}

func sfIsNil(info *types.Info, e ast.Expr) bool {
	id := sfIdent(e)
	if id == nil {
		return false
	}
	_, ok := info.Uses[id].(*types.Nil)
	return ok
}

// callee of a call: package-level function or method (statically resolved), nil otherwise
func sfCallee(info *types.Info, c *ast.CallExpr) *types.Func {
	switch f := c.Fun.(type) {
	case *ast.Ident:
		fo, _ := info.Uses[f].(*types.Func)
		return fo
	case *ast.SelectorExpr:
		if sel := info.Selections[f]; sel != nil {
			fo, _ := sel.Obj().(*types.Func)
			return fo
		}
		fo, _ := info.Uses[f.Sel].(*types.Func) // qualified identifier pkg.F
		return fo
	}
	return nil
}

func sfFuncIs(fo *types.Func, pkg, name string) bool {
	return fo != nil && fo.Pkg() != nil && fo.Pkg().Path() == sfModPath+"/"+pkg && fo.Name() == name &&
		fo.Type().(*types.Signature).Recv() == nil
}

func sfTypeIs(t types.Type, pkgPath, name string) bool {
	n, ok := t.(*types.Named)
	if !ok {
		return false
	}
	o := n.Obj()
	return o.Name() == name && o.Pkg() != nil && o.Pkg().Path() == pkgPath
}

func sfIsErrNotNil(info *types.Info, e ast.Expr, errObj types.Object) bool {
	b, ok := e.(*ast.BinaryExpr)
	return ok && b.Op == token.NEQ && sfIs(info, b.X, errObj) && sfIsNil(info, b.Y)
}

// `return nil, err` or `return nil, fmt.Errorf(...)`
func sfIsErrReturn(info *types.Info, s ast.Stmt, errObj types.Object, nres int) bool { // errObj nil: only fmt.Errorf
	r, ok := s.(*ast.ReturnStmt)
	if !ok || len(r.Results) != nres {
		return false
	}
	for _, x := range r.Results[:nres-1] {
		if !sfIsNil(info, x) {
			return false
		}
	}
	last := r.Results[nres-1]
	if errObj != nil && sfIs(info, last, errObj) {
		return true
	}
	if c, ok := last.(*ast.CallExpr); ok {
		if fo := sfCallee(info, c); fo != nil && fo.Pkg() != nil && fo.Pkg().Path() == "fmt" && fo.Name() == "Errorf" {
			return true
		}
	}
	return false
}

// ---------------------------------------------------------------- reader-path decoder shape
// returns ("", callee) when fd is a delegating decoder, else (reason, nil)
func (w *sfWorld) delegating(fo *types.Func) (string, *types.Func) {
	fd, info := w.decls[fo], w.infoOf[fo]
	if fd == nil || fd.Body == nil {
		return "no body", nil
	}
	sig := fo.Type().(*types.Signature)
	if sig.Recv() != nil || sig.Params().Len() != 3 || sig.Results().Len() != 2 {
		return "signature is not (hdr, startPos, r) (Box, error)", nil
	}
	pHdr, pStart, pR := sig.Params().At(0), sig.Params().At(1), sig.Params().At(2)
	if !sfTypeIs(pHdr.Type(), sfModPath+"/mp4", "BoxHeader") || pStart.Type().String() != "uint64" || !sfTypeIs(pR.Type(), "io", "Reader") {
		return "parameter types are not (BoxHeader, uint64, io.Reader)", nil
	}
	if !sfTypeIs(sig.Results().At(0).Type(), sfModPath+"/mp4", "Box") || sig.Results().At(1).Type().String() != "error" {
		return "result types are not (Box, error)", nil
	}
	if sig.Results().At(0).Name() != "" {
		return "named results", nil
	}
	st := fd.Body.List
	// leading guards over the header only: `if C(hdr) { return nil, fmt.Errorf(...) }`
	var guards []ast.Expr
	for len(st) > 0 {
		g, ok := st[0].(*ast.IfStmt)
		if !ok || g.Init != nil || g.Else != nil || len(g.Body.List) != 1 || !sfIsErrReturn(info, g.Body.List[0], nil, 2) ||
			!w.hdrOnly(info, g.Cond, pHdr) {
			break
		}
		guards = append(guards, g.Cond)
		st = st[1:]
	}
	if len(st) != 4 {
		return fmt.Sprintf("body has %d statements after %d header guards, the delegation pattern has 4", len(st), len(guards)), nil
	}
	// 1: data, err := readBoxBody(r, hdr)
	a1, ok := st[0].(*ast.AssignStmt)
	if !ok || a1.Tok != token.DEFINE || len(a1.Lhs) != 2 || len(a1.Rhs) != 1 {
		return "statement 1 is not `data, err := readBoxBody(r, hdr)`", nil
	}
	c1, ok := a1.Rhs[0].(*ast.CallExpr)
	if !ok || !sfFuncIs(sfCallee(info, c1), "mp4", "readBoxBody") || len(c1.Args) != 2 || c1.Ellipsis != token.NoPos ||
		!sfIs(info, c1.Args[0], pR) || !sfIs(info, c1.Args[1], pHdr) {
		return "statement 1 is not `data, err := readBoxBody(r, hdr)`", nil
	}
	dataId, errId := sfIdent(a1.Lhs[0]), sfIdent(a1.Lhs[1])
	if dataId == nil || errId == nil || dataId.Name == "_" || errId.Name == "_" {
		return "statement 1 does not bind data and err", nil
	}
	dataObj, errObj := info.Defs[dataId], info.Defs[errId]
	if dataObj == nil || errObj == nil {
		return "statement 1 does not define data and err", nil
	}
	// 2: if err != nil { return nil, E }
	i2, ok := st[1].(*ast.IfStmt)
	if !ok || i2.Init != nil || i2.Else != nil || !sfIsErrNotNil(info, i2.Cond, errObj) || len(i2.Body.List) != 1 ||
		!sfIsErrReturn(info, i2.Body.List[0], errObj, 2) {
		return "statement 2 is not `if err != nil { return nil, err }`", nil
	}
	// 3: sr := bits.NewFixedSliceReader(data)
	a3, ok := st[2].(*ast.AssignStmt)
	if !ok || a3.Tok != token.DEFINE || len(a3.Lhs) != 1 || len(a3.Rhs) != 1 {
		return "statement 3 is not `sr := bits.NewFixedSliceReader(data)`", nil
	}
	c3, ok := a3.Rhs[0].(*ast.CallExpr)
	if !ok || !sfFuncIs(sfCallee(info, c3), "bits", "NewFixedSliceReader") || len(c3.Args) != 1 || !sfIs(info, c3.Args[0], dataObj) {
		return "statement 3 is not `sr := bits.NewFixedSliceReader(data)`", nil
	}
	srId := sfIdent(a3.Lhs[0])
	if srId == nil || info.Defs[srId] == nil {
		return "statement 3 does not define sr", nil
	}
	srObj := info.Defs[srId]
	// 4: return S(hdr, startPos, sr)
	r4, ok := st[3].(*ast.ReturnStmt)
	if !ok || len(r4.Results) != 1 {
		return "statement 4 is not `return DecodeXxxSR(hdr, startPos, sr)`", nil
	}
	c4, ok := r4.Results[0].(*ast.CallExpr)
	if !ok || len(c4.Args) != 3 || c4.Ellipsis != token.NoPos || !sfIs(info, c4.Args[0], pHdr) || !sfIs(info, c4.Args[1], pStart) || !sfIs(info, c4.Args[2], srObj) {
		return "statement 4 is not `return DecodeXxxSR(hdr, startPos, sr)`", nil
	}
	callee := sfCallee(info, c4)
	if callee == nil || w.decls[callee] == nil || callee.Type().(*types.Signature).Recv() != nil {
		return "statement 4 does not call a package-level function", nil
	}
	// the guards must be repeated, in the same order, as the first statements of the callee
	if len(guards) > 0 {
		cd, cinfo := w.decls[callee], w.infoOf[callee]
		csig := callee.Type().(*types.Signature)
		if cd.Body == nil || len(cd.Body.List) < len(guards) || csig.Params().Len() != 3 {
			return "header guard before readBoxBody is not repeated at the start of " + callee.Name(), nil
		}
		for i, gc := range guards {
			g, ok := cd.Body.List[i].(*ast.IfStmt)
			if !ok || g.Init != nil || g.Else != nil || len(g.Body.List) != 1 || !sfIsErrReturn(cinfo, g.Body.List[0], nil, 2) {
				return "header guard before readBoxBody is not repeated at the start of " + callee.Name(), nil
			}
			eq := &sfEq{w: w, ia: info, ib: cinfo, m: map[types.Object]types.Object{pHdr: csig.Params().At(0)}, rev: map[types.Object]types.Object{csig.Params().At(0): pHdr}}
			if !eq.node(gc, g.Cond) {
				return fmt.Sprintf("header guard %d before readBoxBody differs from statement %d of %s", i+1, i+1, callee.Name()), nil
			}
		}
	}
	return "", callee
}

// hdrOnly: the expression mentions only the header parameter (fields, argument-free methods), constants and operators
func (w *sfWorld) hdrOnly(info *types.Info, e ast.Expr, hdr types.Object) bool {
	ok := true
	ast.Inspect(e, func(n ast.Node) bool {
		switch x := n.(type) {
		case *ast.Ident:
			switch o := info.Uses[x].(type) {
			case *types.Const, *types.Nil, *types.TypeName:
			case *types.Var:
				if o != hdr && !o.IsField() {
					ok = false
				}
			case *types.Func:
				if o.Type().(*types.Signature).Recv() == nil {
					ok = false
				}
			case *types.Builtin:
				ok = false
			default:
				ok = false
			}
		case *ast.CallExpr:
			if tv, isT := info.Types[x.Fun]; isT && tv.IsType() {
				return true // conversion
			}
			se, isSel := x.Fun.(*ast.SelectorExpr)
			if !isSel || len(x.Args) != 0 || !sfIs(info, se.X, hdr) {
				ok = false
			}
		case *ast.FuncLit, *ast.CompositeLit, *ast.IndexExpr, *ast.SliceExpr, *ast.StarExpr, *ast.TypeAssertExpr:
			ok = false
		case *ast.UnaryExpr:
			if x.Op == token.AND || x.Op == token.ARROW {
				ok = false
			}
		}
		return ok
	})
	return ok
}

// ---------------------------------------------------------------- alpha-equivalence of two pieces of syntax
// Two identifiers match when they denote the same package-level / universe object, field or method, or local objects
// that correspond (the correspondence is built positionally from the definitions; parameters are seeded by the caller),
// or, when `swap` is set, a pair of functions listed in swap (DecodeContainerChildren <-> DecodeContainerChildrenSR).
type sfEq struct {
	w      *sfWorld
	ia, ib *types.Info
	m, rev map[types.Object]types.Object
	swap   map[types.Object]types.Object
	data   types.Object // raw-body class: this local of the first function stands for `sr.ReadBytes(hdr.payloadLen())` in the second
	sr, hd types.Object // ... with sr / hdr the parameters of the second function
	nData  int
	lenData bool // additionally: `len(data)` in the first function stands for `hdr.payloadLen()` in the second
	nLen   int
	enc    bool // Encode <-> EncodeSW methods of the same receiver type, EncodeHeader <-> EncodeHeaderSW, EncodeContainer <-> EncodeContainerSW
}

func sfLocal(o types.Object) bool {
	if o == nil || o.Pkg() == nil {
		return false
	}
	if v, ok := o.(*types.Var); ok && v.IsField() {
		return false
	}
	if _, ok := o.(*types.Func); ok {
		return false
	}
	return o.Parent() != nil && o.Parent() != o.Pkg().Scope()
}

func (q *sfEq) ident(a, b *ast.Ident) bool {
	if a.Name == "_" || b.Name == "_" {
		return a.Name == b.Name
	}
	oa, defA := q.ia.Uses[a], false
	if oa == nil {
		oa, defA = q.ia.Defs[a], true
	}
	ob, defB := q.ib.Uses[b], false
	if ob == nil {
		ob, defB = q.ib.Defs[b], true
	}
	if oa == nil && ob == nil {
		return a.Name == b.Name // label, or a name go/types does not record
	}
	if oa == nil || ob == nil {
		return false
	}
	if pa, ok := oa.(*types.PkgName); ok {
		pb, ok := ob.(*types.PkgName)
		return ok && pa.Imported() == pb.Imported()
	}
	if sfLocal(oa) || sfLocal(ob) {
		if !sfLocal(oa) || !sfLocal(ob) {
			return false
		}
		x, okA := q.m[oa]
		y, okB := q.rev[ob]
		if okA || okB {
			return okA && okB && x == ob && y == oa
		}
		// both unmapped: a definition on at least one side binds them (`x, err := f()` re-using an earlier err on one
		// side and defining it on the other: the earlier value is dead after the assignment)
		if defA || defB {
			q.m[oa], q.rev[ob] = ob, oa
			return true
		}
		return false
	}
	if oa == ob {
		return true
	}
	if q.swap != nil && q.swap[oa] == ob {
		return true
	}
	if q.enc {
		fa, ok1 := oa.(*types.Func)
		fb, ok2 := ob.(*types.Func)
		if ok1 && ok2 && fa.Name()+"SW" == fb.Name() {
			ra, rb := fa.Type().(*types.Signature).Recv(), fb.Type().(*types.Signature).Recv()
			switch fa.Name() {
			case "Encode":
				return ra != nil && rb != nil && types.Identical(ra.Type(), rb.Type())
			case "EncodeHeader", "EncodeContainer":
				return ra == nil && rb == nil && fa.Pkg() == fb.Pkg() && fa.Pkg().Path() == sfModPath+"/mp4"
			}
		}
	}
	return false
}

func (q *sfEq) exprs(a, b []ast.Expr) bool {
	if len(a) != len(b) {
		return false
	}
	for i := range a {
		if !q.node(a[i], b[i]) {
			return false
		}
	}
	return true
}

func (q *sfEq) stmts(a, b []ast.Stmt) bool {
	if len(a) != len(b) {
		return false
	}
	for i := range a {
		if !q.node(a[i], b[i]) {
			return false
		}
	}
	return true
}

func sfNilNode(n ast.Node) bool {
	if n == nil {
		return true
	}
	v := reflect.ValueOf(n)
	return v.Kind() == reflect.Ptr && v.IsNil()
}

func (q *sfEq) node(a, b ast.Node) bool {
	r := q.node0(a, b)
	if !r && os.Getenv("SFDEBUG") != "" && !sfNilNode(a) {
		fmt.Fprintf(os.Stderr, "neq %T at %s\n", a, q.w.pos(a.Pos()))
	}
	return r
}

func (q *sfEq) node0(a, b ast.Node) bool {
	if q.data != nil && !sfNilNode(a) && !sfNilNode(b) {
		if id, ok := a.(*ast.Ident); ok && q.ia.Uses[id] == q.data {
			q.nData++
			c, ok := b.(*ast.CallExpr)
			if !ok || len(c.Args) != 1 {
				return false
			}
			se, ok := c.Fun.(*ast.SelectorExpr)
			if !ok || se.Sel.Name != "ReadBytes" || !sfIs(q.ib, se.X, q.sr) {
				return false
			}
			return sfIsPayloadLen(q.ib, c.Args[0], q.hd)
		}
		// len(data) on the reader path is hdr.payloadLen() on the SR path (readBoxBody returns exactly that many bytes or an error)
		if q.lenData {
			if ca, ok := a.(*ast.CallExpr); ok && len(ca.Args) == 1 {
				if fid := sfIdent(ca.Fun); fid != nil && fid.Name == "len" && q.ia.Uses[fid] == types.Universe.Lookup("len") {
					if id, ok := ca.Args[0].(*ast.Ident); ok && q.ia.Uses[id] == q.data {
						q.nLen++
						be, ok := b.(ast.Expr)
						return ok && sfIsPayloadLen(q.ib, be, q.hd)
					}
				}
			}
		}
	}
	if sfNilNode(a) || sfNilNode(b) {
		return sfNilNode(a) && sfNilNode(b)
	}
	if reflect.TypeOf(a) != reflect.TypeOf(b) {
		return false
	}
	switch x := a.(type) {
	case *ast.Ident:
		return q.ident(x, b.(*ast.Ident))
	case *ast.BasicLit:
		y := b.(*ast.BasicLit)
		return x.Kind == y.Kind && x.Value == y.Value
	case *ast.ParenExpr:
		return q.node(x.X, b.(*ast.ParenExpr).X)
	case *ast.SelectorExpr:
		y := b.(*ast.SelectorExpr)
		return q.node(x.X, y.X) && q.ident(x.Sel, y.Sel)
	case *ast.IndexExpr:
		y := b.(*ast.IndexExpr)
		return q.node(x.X, y.X) && q.node(x.Index, y.Index)
	case *ast.SliceExpr:
		y := b.(*ast.SliceExpr)
		return q.node(x.X, y.X) && q.node(x.Low, y.Low) && q.node(x.High, y.High) && q.node(x.Max, y.Max) && x.Slice3 == y.Slice3
	case *ast.TypeAssertExpr:
		y := b.(*ast.TypeAssertExpr)
		return q.node(x.X, y.X) && q.node(x.Type, y.Type)
	case *ast.CallExpr:
		y := b.(*ast.CallExpr)
		return q.node(x.Fun, y.Fun) && q.exprs(x.Args, y.Args) && (x.Ellipsis == token.NoPos) == (y.Ellipsis == token.NoPos)
	case *ast.StarExpr:
		return q.node(x.X, b.(*ast.StarExpr).X)
	case *ast.UnaryExpr:
		y := b.(*ast.UnaryExpr)
		return x.Op == y.Op && q.node(x.X, y.X)
	case *ast.BinaryExpr:
		y := b.(*ast.BinaryExpr)
		return x.Op == y.Op && q.node(x.X, y.X) && q.node(x.Y, y.Y)
	case *ast.KeyValueExpr:
		y := b.(*ast.KeyValueExpr)
		return q.node(x.Key, y.Key) && q.node(x.Value, y.Value)
	case *ast.CompositeLit:
		y := b.(*ast.CompositeLit)
		if !q.node(x.Type, y.Type) || len(y.Elts) < len(x.Elts) || !q.exprs(x.Elts, y.Elts[:len(x.Elts)]) {
			return false
		}
		// the second literal may additionally initialise slice fields with an EMPTY slice, `F: make([]T, 0, n)`, where the first leaves
		// them nil: the two values differ only as nil / empty (which the property identifies)
		for _, e := range y.Elts[len(x.Elts):] {
			kv, ok := e.(*ast.KeyValueExpr)
			if !ok {
				return false
			}
			mc, ok := kv.Value.(*ast.CallExpr)
			if !ok || len(mc.Args) != 3 {
				return false
			}
			if fid := sfIdent(mc.Fun); fid == nil || q.ib.Uses[fid] != types.Universe.Lookup("make") {
				return false
			}
			if _, isSlice := mc.Args[0].(*ast.ArrayType); !isSlice {
				return false
			}
			if lit, ok := mc.Args[1].(*ast.BasicLit); !ok || lit.Value != "0" {
				return false
			}
		}
		return true
	case *ast.ArrayType:
		y := b.(*ast.ArrayType)
		return q.node(x.Len, y.Len) && q.node(x.Elt, y.Elt)
	case *ast.MapType:
		y := b.(*ast.MapType)
		return q.node(x.Key, y.Key) && q.node(x.Value, y.Value)
	case *ast.ExprStmt:
		return q.node(x.X, b.(*ast.ExprStmt).X)
	case *ast.IncDecStmt:
		y := b.(*ast.IncDecStmt)
		return x.Tok == y.Tok && q.node(x.X, y.X)
	case *ast.AssignStmt:
		y := b.(*ast.AssignStmt)
		// right-hand sides first: `x := f(x)` refers to the outer x
		return x.Tok == y.Tok && q.exprs(x.Rhs, y.Rhs) && q.exprs(x.Lhs, y.Lhs)
	case *ast.ReturnStmt:
		return q.exprs(x.Results, b.(*ast.ReturnStmt).Results)
	case *ast.BranchStmt:
		y := b.(*ast.BranchStmt)
		return x.Tok == y.Tok && q.node(x.Label, y.Label)
	case *ast.BlockStmt:
		return q.stmts(x.List, b.(*ast.BlockStmt).List)
	case *ast.IfStmt:
		y := b.(*ast.IfStmt)
		return q.node(x.Init, y.Init) && q.node(x.Cond, y.Cond) && q.node(x.Body, y.Body) && q.node(x.Else, y.Else)
	case *ast.ForStmt:
		y := b.(*ast.ForStmt)
		return q.node(x.Init, y.Init) && q.node(x.Cond, y.Cond) && q.node(x.Post, y.Post) && q.node(x.Body, y.Body)
	case *ast.RangeStmt:
		y := b.(*ast.RangeStmt)
		return x.Tok == y.Tok && q.node(x.X, y.X) && q.node(x.Key, y.Key) && q.node(x.Value, y.Value) && q.node(x.Body, y.Body)
	case *ast.SwitchStmt:
		y := b.(*ast.SwitchStmt)
		return q.node(x.Init, y.Init) && q.node(x.Tag, y.Tag) && q.node(x.Body, y.Body)
	case *ast.TypeSwitchStmt:
		y := b.(*ast.TypeSwitchStmt)
		return q.node(x.Init, y.Init) && q.node(x.Assign, y.Assign) && q.node(x.Body, y.Body)
	case *ast.CaseClause:
		y := b.(*ast.CaseClause)
		return q.exprs(x.List, y.List) && q.stmts(x.Body, y.Body)
	case *ast.DeclStmt:
		y := b.(*ast.DeclStmt)
		gx, ok1 := x.Decl.(*ast.GenDecl)
		gy, ok2 := y.Decl.(*ast.GenDecl)
		if !ok1 || !ok2 || gx.Tok != gy.Tok || len(gx.Specs) != len(gy.Specs) {
			return false
		}
		for i := range gx.Specs {
			vx, ok1 := gx.Specs[i].(*ast.ValueSpec)
			vy, ok2 := gy.Specs[i].(*ast.ValueSpec)
			if !ok1 || !ok2 || len(vx.Names) != len(vy.Names) || !q.node(vx.Type, vy.Type) || !q.exprs(vx.Values, vy.Values) {
				return false
			}
			for j := range vx.Names {
				if !q.ident(vx.Names[j], vy.Names[j]) {
					return false
				}
			}
		}
		return true
	}
	return false // any construct not listed: not recognised as equal
}

// twin: the bodies of R and S are the same program up to the names of locals, the reader parameter, and
// DecodeContainerChildren(.., r) <-> DecodeContainerChildrenSR(.., sr); skip = number of leading statements of R left out
func (w *sfWorld) twin(r, s *types.Func, rStmts []ast.Stmt, srObj types.Object) (same bool, accErrDiff bool) {
	sd := w.decls[s]
	if sd == nil || sd.Body == nil {
		return false, false
	}
	rs, ss := r.Type().(*types.Signature), s.Type().(*types.Signature)
	if rs.Params().Len() != 3 || ss.Params().Len() != 3 {
		return false, false
	}
	mk := func() *sfEq {
		q := &sfEq{w: w, ia: w.infoOf[r], ib: w.infoOf[s], m: map[types.Object]types.Object{}, rev: map[types.Object]types.Object{}, swap: map[types.Object]types.Object{}}
		for i := 0; i < 2; i++ {
			q.m[rs.Params().At(i)], q.rev[ss.Params().At(i)] = ss.Params().At(i), rs.Params().At(i)
		}
		so := srObj
		if so == nil {
			so = rs.Params().At(2)
			sc := w.pkgs["mp4"].pkg.Scope()
			a, b := sc.Lookup("DecodeContainerChildren"), sc.Lookup("DecodeContainerChildrenSR")
			if a != nil && b != nil {
				q.swap[a] = b
			}
		}
		q.m[so], q.rev[ss.Params().At(2)] = ss.Params().At(2), so
		return q
	}
	if mk().stmts(rStmts, sd.Body.List) {
		return true, false
	}
	// the one accepted difference: S ends with `return x, sr.AccError()` where R ends with `return x, nil`
	n := len(rStmts)
	if n == 0 || n != len(sd.Body.List) {
		return false, false
	}
	lr, ok1 := rStmts[n-1].(*ast.ReturnStmt)
	ls, ok2 := sd.Body.List[n-1].(*ast.ReturnStmt)
	if !ok1 || !ok2 || len(lr.Results) != 2 || len(ls.Results) != 2 || !sfIsNil(w.infoOf[r], lr.Results[1]) {
		return false, false
	}
	c, ok := ls.Results[1].(*ast.CallExpr)
	if !ok || len(c.Args) != 0 {
		return false, false
	}
	se, ok := c.Fun.(*ast.SelectorExpr)
	if !ok || se.Sel.Name != "AccError" || !sfIs(w.infoOf[s], se.X, ss.Params().At(2)) {
		return false, false
	}
	q := mk()
	if q.stmts(rStmts[:n-1], sd.Body.List[:n-1]) && q.node(lr.Results[0], ls.Results[0]) {
		return true, true
	}
	return false, false
}

// usesObj: does the function body mention obj?
func sfUses(info *types.Info, body *ast.BlockStmt, obj types.Object) int {
	n := 0
	ast.Inspect(body, func(nd ast.Node) bool {
		if id, ok := nd.(*ast.Ident); ok && info.Uses[id] == obj {
			n++
		}
		return true
	})
	return n
}

// leafClass: "pure-twin": neither decoder touches its reader and the two bodies are the same text up to local names;
// "raw-body": R is `data, err := readBoxBody(r, hdr); if err != nil { return nil, err }; REST` and S is REST with
// `sr.ReadBytes(hdr.payloadLen())` where R has `data` (exactly once) and `sr.AccError()` where R's final return has nil,
// S not using its reader otherwise.
func (w *sfWorld) leafClass(r, s *types.Func) string {
	rd, sd := w.decls[r], w.decls[s]
	ri, si := w.infoOf[r], w.infoOf[s]
	if rd == nil || sd == nil || rd.Body == nil || sd.Body == nil {
		return ""
	}
	rs, ss := r.Type().(*types.Signature), s.Type().(*types.Signature)
	if rs.Params().Len() != 3 || ss.Params().Len() != 3 || !sfIsSliceReader(ss.Params().At(2).Type()) || !sfTypeIs(rs.Params().At(2).Type(), "io", "Reader") {
		return ""
	}
	mk := func() *sfEq {
		q := &sfEq{w: w, ia: ri, ib: si, m: map[types.Object]types.Object{}, rev: map[types.Object]types.Object{}}
		for i := 0; i < 3; i++ {
			q.m[rs.Params().At(i)], q.rev[ss.Params().At(i)] = ss.Params().At(i), rs.Params().At(i)
		}
		return q
	}
	if sfUses(ri, rd.Body, rs.Params().At(2)) == 0 && sfUses(si, sd.Body, ss.Params().At(2)) == 0 {
		if mk().stmts(rd.Body.List, sd.Body.List) {
			return "pure-twin"
		}
		return ""
	}
	st := rd.Body.List
	if len(st) < 3 || len(st)-2 != len(sd.Body.List) {
		return ""
	}
	a1, ok := st[0].(*ast.AssignStmt)
	if !ok || a1.Tok != token.DEFINE || len(a1.Lhs) != 2 || len(a1.Rhs) != 1 {
		return ""
	}
	c1, ok := a1.Rhs[0].(*ast.CallExpr)
	if !ok || !sfFuncIs(sfCallee(ri, c1), "mp4", "readBoxBody") || len(c1.Args) != 2 || !sfIs(ri, c1.Args[0], rs.Params().At(2)) || !sfIs(ri, c1.Args[1], rs.Params().At(0)) {
		return ""
	}
	dataId, errId := sfIdent(a1.Lhs[0]), sfIdent(a1.Lhs[1])
	if dataId == nil || errId == nil || ri.Defs[dataId] == nil || ri.Defs[errId] == nil {
		return ""
	}
	i2, ok := st[1].(*ast.IfStmt)
	if !ok || i2.Init != nil || i2.Else != nil || !sfIsErrNotNil(ri, i2.Cond, ri.Defs[errId]) || len(i2.Body.List) != 1 || !sfIsErrReturn(ri, i2.Body.List[0], ri.Defs[errId], 2) {
		return ""
	}
	rest, sst := st[2:], sd.Body.List
	n := len(rest)
	lr, ok1 := rest[n-1].(*ast.ReturnStmt)
	ls, ok2 := sst[n-1].(*ast.ReturnStmt)
	if !ok1 || !ok2 || len(lr.Results) != 2 || len(ls.Results) != 2 || !sfIsNil(ri, lr.Results[1]) {
		return ""
	}
	ac, ok := ls.Results[1].(*ast.CallExpr)
	if !ok || len(ac.Args) != 0 {
		return ""
	}
	ase, ok := ac.Fun.(*ast.SelectorExpr)
	if !ok || ase.Sel.Name != "AccError" || !sfIs(si, ase.X, ss.Params().At(2)) {
		return ""
	}
	q := mk()
	q.data, q.sr, q.hd, q.lenData = ri.Defs[dataId], ss.Params().At(2), ss.Params().At(0), true
	if !q.stmts(rest[:n-1], sst[:n-1]) || !q.node(lr.Results[0], ls.Results[0]) || q.nData != 1 {
		return ""
	}
	// S uses sr exactly twice (ReadBytes, AccError); R uses r once (readBoxBody) and data once (+ inside len(data), which is hdr.payloadLen() in S)
	if sfUses(si, sd.Body, ss.Params().At(2)) != 2 || sfUses(ri, rd.Body, rs.Params().At(2)) != 1 || sfUses(ri, rd.Body, ri.Defs[dataId]) != 1+q.nLen {
		return ""
	}
	return "raw-body"
}

// sfIsPayloadLen: e is `hdr.payloadLen()` or its definition `int(hdr.Size) - hdr.Hdrlen`
func sfIsPayloadLen(info *types.Info, e ast.Expr, hdr types.Object) bool {
	if pc, ok := e.(*ast.CallExpr); ok && len(pc.Args) == 0 {
		ps, ok := pc.Fun.(*ast.SelectorExpr)
		return ok && ps.Sel.Name == "payloadLen" && sfIs(info, ps.X, hdr)
	}
	b, ok := e.(*ast.BinaryExpr)
	if !ok || b.Op != token.SUB {
		return false
	}
	conv, ok := b.X.(*ast.CallExpr)
	if !ok || len(conv.Args) != 1 {
		return false
	}
	if fid := sfIdent(conv.Fun); fid == nil || fid.Name != "int" || info.Uses[fid] != types.Universe.Lookup("int") {
		return false
	}
	sx, ok1 := conv.Args[0].(*ast.SelectorExpr)
	sy, ok2 := b.Y.(*ast.SelectorExpr)
	return ok1 && ok2 && sx.Sel.Name == "Size" && sy.Sel.Name == "Hdrlen" && sfIs(info, sx.X, hdr) && sfIs(info, sy.X, hdr)
}

// sfReadBodyPrologue: the body starts `data, err := readBoxBody(r, hdr); if err != nil { return nil, err }`; returns the object of data
func (w *sfWorld) sfReadBodyPrologue(ri *types.Info, st []ast.Stmt, rs *types.Signature) types.Object {
	if len(st) < 3 {
		return nil
	}
	a1, ok := st[0].(*ast.AssignStmt)
	if !ok || a1.Tok != token.DEFINE || len(a1.Lhs) != 2 || len(a1.Rhs) != 1 {
		return nil
	}
	c1, ok := a1.Rhs[0].(*ast.CallExpr)
	if !ok || !sfFuncIs(sfCallee(ri, c1), "mp4", "readBoxBody") || len(c1.Args) != 2 || !sfIs(ri, c1.Args[0], rs.Params().At(2)) || !sfIs(ri, c1.Args[1], rs.Params().At(0)) {
		return nil
	}
	dataId, errId := sfIdent(a1.Lhs[0]), sfIdent(a1.Lhs[1])
	if dataId == nil || errId == nil || ri.Defs[dataId] == nil || ri.Defs[errId] == nil {
		return nil
	}
	i2, ok := st[1].(*ast.IfStmt)
	if !ok || i2.Init != nil || i2.Else != nil || !sfIsErrNotNil(ri, i2.Cond, ri.Defs[errId]) || len(i2.Body.List) != 1 || !sfIsErrReturn(ri, i2.Body.List[0], ri.Defs[errId], 2) {
		return nil
	}
	return ri.Defs[dataId]
}

// sfIsAccErrCall: e is `sr.AccError()`
func sfIsAccErrCall(info *types.Info, e ast.Expr, sr types.Object) bool {
	c, ok := e.(*ast.CallExpr)
	if !ok || len(c.Args) != 0 {
		return false
	}
	se, ok := c.Fun.(*ast.SelectorExpr)
	return ok && se.Sel.Name == "AccError" && sfIs(info, se.X, sr)
}

// bodyFnClass: "body-fn": R is `data, err := readBoxBody(r, hdr); if err != nil { return nil, err }; REST` with REST not using r, and S is
//   (A) `d := sr.ReadBytes(hdr.payloadLen()); [if sr.AccError() != nil { return nil, sr.AccError() };] REST'` with REST' = REST up to local
//       names (d for data) and not using sr, or
//   (B) REST' = REST with `sr.ReadBytes(hdr.payloadLen())` where REST has `data` (exactly once), sr not used otherwise,
// where in both cases the tail of REST may be `x, err := G(..); if err != nil { return nil, err }; return V, nil` against `return V, err`
// in REST' (the same outcome class and, without error, the same value).  Both decoders are then the same function of the body bytes
// (C03_bodyfn_pair_agree); checkAcc reports the AccError test of (A).
func (w *sfWorld) bodyFnClass(r, s *types.Func) (class string, checkAcc bool) {
	rd, sd := w.decls[r], w.decls[s]
	ri, si := w.infoOf[r], w.infoOf[s]
	if rd == nil || sd == nil || rd.Body == nil || sd.Body == nil {
		return "", false
	}
	rs, ss := r.Type().(*types.Signature), s.Type().(*types.Signature)
	if rs.Params().Len() != 3 || ss.Params().Len() != 3 || !sfIsSliceReader(ss.Params().At(2).Type()) || !sfTypeIs(rs.Params().At(2).Type(), "io", "Reader") {
		return "", false
	}
	dataR := w.sfReadBodyPrologue(ri, rd.Body.List, rs)
	if dataR == nil || sfUses(ri, rd.Body, rs.Params().At(2)) != 1 {
		return "", false
	}
	rest := rd.Body.List[2:]
	sst := sd.Body.List
	srObj, hdObj := ss.Params().At(2), ss.Params().At(0)
	mk := func() *sfEq {
		q := &sfEq{w: w, ia: ri, ib: si, m: map[types.Object]types.Object{}, rev: map[types.Object]types.Object{}}
		for i := 0; i < 2; i++ {
			q.m[rs.Params().At(i)], q.rev[ss.Params().At(i)] = ss.Params().At(i), rs.Params().At(i)
		}
		return q
	}
	// tails: equal statement lists, or R `if err != nil { return nil, err }; return V, nil` against S `return V, err`
	sameRest := func(q *sfEq, a, b []ast.Stmt) bool {
		if len(a) == len(b) {
			q2 := *q
			q2.m, q2.rev = sfCopyMap(q.m), sfCopyMap(q.rev)
			if q2.stmts(a, b) {
				*q = q2
				return true
			}
		}
		if len(a) != len(b)+1 || len(b) == 0 {
			return false
		}
		n := len(b)
		if !q.stmts(a[:n-1], b[:n-1]) {
			return false
		}
		ifs, ok1 := a[n-1].(*ast.IfStmt)
		ra, ok2 := a[n].(*ast.ReturnStmt)
		rb, ok3 := b[n-1].(*ast.ReturnStmt)
		if !ok1 || !ok2 || !ok3 || ifs.Init != nil || ifs.Else != nil || len(ifs.Body.List) != 1 || len(ra.Results) != 2 || len(rb.Results) != 2 {
			return false
		}
		cond, ok := ifs.Cond.(*ast.BinaryExpr)
		if !ok || cond.Op != token.NEQ || !sfIsNil(ri, cond.Y) {
			return false
		}
		errId := sfIdent(cond.X)
		if errId == nil || ri.Uses[errId] == nil || !sfIsErrReturn(ri, ifs.Body.List[0], ri.Uses[errId], 2) {
			return false
		}
		if r0, ok := ifs.Body.List[0].(*ast.ReturnStmt); !ok || !sfIs(ri, r0.Results[1], ri.Uses[errId]) {
			return false
		}
		errB := sfIdent(rb.Results[1])
		return sfIsNil(ri, ra.Results[1]) && errB != nil && q.ident(errId, errB) && q.node(ra.Results[0], rb.Results[0])
	}
	// (A)
	if len(sst) >= 2 {
		if a1, ok := sst[0].(*ast.AssignStmt); ok && a1.Tok == token.DEFINE && len(a1.Lhs) == 1 && len(a1.Rhs) == 1 {
			if c, ok := a1.Rhs[0].(*ast.CallExpr); ok && len(c.Args) == 1 {
				se, ok := c.Fun.(*ast.SelectorExpr)
				dId := sfIdent(a1.Lhs[0])
				if ok && se.Sel.Name == "ReadBytes" && sfIs(si, se.X, srObj) && sfIsPayloadLen(si, c.Args[0], hdObj) && dId != nil && si.Defs[dId] != nil {
					k, acc := 1, false
					if i2, ok := sst[1].(*ast.IfStmt); ok && i2.Init == nil && i2.Else == nil && len(i2.Body.List) == 1 {
						if b, ok := i2.Cond.(*ast.BinaryExpr); ok && b.Op == token.NEQ && sfIsAccErrCall(si, b.X, srObj) && sfIsNil(si, b.Y) {
							if rr, ok := i2.Body.List[0].(*ast.ReturnStmt); ok && len(rr.Results) == 2 && sfIsNil(si, rr.Results[0]) && sfIsAccErrCall(si, rr.Results[1], srObj) {
								k, acc = 2, true
							}
						}
					}
					q := mk()
					q.m[dataR], q.rev[si.Defs[dId]] = si.Defs[dId], dataR
					nsr := 1
					if acc {
						nsr = 3
					}
					if sameRest(q, rest, sst[k:]) && sfUses(si, sd.Body, srObj) == nsr {
						return "body-fn", acc
					}
				}
			}
		}
	}
	// (B)
	q := mk()
	q.data, q.sr, q.hd = dataR, srObj, hdObj
	if sameRest(q, rest, sst) && q.nData == 1 && sfUses(si, sd.Body, srObj) == 1 && sfUses(ri, rd.Body, dataR) == 1 {
		return "body-fn", false
	}
	return "", false
}

func sfCopyMap(m map[types.Object]types.Object) map[types.Object]types.Object {
	c := make(map[types.Object]types.Object, len(m))
	for k, v := range m {
		c[k] = v
	}
	return c
}

// containerCall: stmt is `x, err := F(hdr, startPos+8, startPos+hdr.Size, rd)` with F the package-level function `name`
func (w *sfWorld) containerCall(info *types.Info, s ast.Stmt, name string, hdr, start, rd types.Object) bool {
	a, ok := s.(*ast.AssignStmt)
	if !ok || a.Tok != token.DEFINE || len(a.Lhs) != 2 || len(a.Rhs) != 1 {
		return false
	}
	c, ok := a.Rhs[0].(*ast.CallExpr)
	if !ok || !sfFuncIs(sfCallee(info, c), "mp4", name) || len(c.Args) != 4 || !sfIs(info, c.Args[0], hdr) || !sfIs(info, c.Args[3], rd) {
		return false
	}
	b1, ok := c.Args[1].(*ast.BinaryExpr)
	if !ok || b1.Op != token.ADD || !sfIs(info, b1.X, start) {
		return false
	}
	if tv := info.Types[b1.Y]; tv.Value == nil || tv.Value.ExactString() != "8" {
		return false
	}
	b2, ok := c.Args[2].(*ast.BinaryExpr)
	if !ok || b2.Op != token.ADD || !sfIs(info, b2.X, start) {
		return false
	}
	se, ok := b2.Y.(*ast.SelectorExpr)
	return ok && se.Sel.Name == "Size" && sfIs(info, se.X, hdr)
}

// containerClass: "" (neither), "container-twin", "container-body"; accerr: S ends with `return x, sr.AccError()`
func (w *sfWorld) containerClass(r, s *types.Func) (class string, accerr bool, why string) {
	rd, sd := w.decls[r], w.decls[s]
	ri, si := w.infoOf[r], w.infoOf[s]
	if rd == nil || sd == nil || rd.Body == nil || sd.Body == nil {
		return "", false, ""
	}
	rs, ss := r.Type().(*types.Signature), s.Type().(*types.Signature)
	if rs.Params().Len() != 3 || ss.Params().Len() != 3 || !sfIsSliceReader(ss.Params().At(2).Type()) || !sfTypeIs(rs.Params().At(2).Type(), "io", "Reader") {
		return "", false, ""
	}
	if len(sd.Body.List) == 0 || !w.containerCall(si, sd.Body.List[0], "DecodeContainerChildrenSR", ss.Params().At(0), ss.Params().At(1), ss.Params().At(2)) {
		return "", false, ""
	}
	// does S end with `return x, sr.AccError()`?
	if last, ok := sd.Body.List[len(sd.Body.List)-1].(*ast.ReturnStmt); ok && len(last.Results) == 2 {
		if c, ok := last.Results[1].(*ast.CallExpr); ok {
			if se, ok := c.Fun.(*ast.SelectorExpr); ok && se.Sel.Name == "AccError" && sfIs(si, se.X, ss.Params().At(2)) {
				accerr = true
			}
		}
	}
	st := rd.Body.List
	if len(st) > 0 && w.containerCall(ri, st[0], "DecodeContainerChildren", rs.Params().At(0), rs.Params().At(1), rs.Params().At(2)) {
		if same, diff := w.twin(r, s, st, nil); same {
			return "container-twin", diff, ""
		}
		return "", accerr, "calls DecodeContainerChildren but its body is not the body of " + s.Name() + " up to local names and the reader"
	}
	// container-body: data, err := io.ReadAll(io.LimitReader(r, int64(hdr.payloadLen()))); if err != nil {return nil, err};
	//                 if len(data) != int(hdr.payloadLen()) { return nil, fmt.Errorf(..) }; sr := bits.NewFixedSliceReader(data); <body of S>
	if len(st) < 5 {
		return "", accerr, ""
	}
	pHdr, pR := rs.Params().At(0), rs.Params().At(2)
	isPayloadLen := func(e ast.Expr) bool {
		c, ok := e.(*ast.CallExpr)
		if !ok || len(c.Args) != 0 {
			return false
		}
		se, ok := c.Fun.(*ast.SelectorExpr)
		return ok && se.Sel.Name == "payloadLen" && sfIs(ri, se.X, pHdr)
	}
	conv := func(e ast.Expr, typ string) ast.Expr {
		c, ok := e.(*ast.CallExpr)
		if !ok || len(c.Args) != 1 {
			return nil
		}
		if tv, ok := ri.Types[c.Fun]; !ok || !tv.IsType() || tv.Type.String() != typ {
			return nil
		}
		return c.Args[0]
	}
	stdFn := func(c *ast.CallExpr, pkg, name string) bool {
		fo := sfCallee(ri, c)
		return fo != nil && fo.Pkg() != nil && fo.Pkg().Path() == pkg && fo.Name() == name
	}
	a1, ok := st[0].(*ast.AssignStmt)
	if !ok || a1.Tok != token.DEFINE || len(a1.Lhs) != 2 || len(a1.Rhs) != 1 {
		return "", accerr, ""
	}
	c1, ok := a1.Rhs[0].(*ast.CallExpr)
	if !ok || !stdFn(c1, "io", "ReadAll") || len(c1.Args) != 1 {
		return "", accerr, ""
	}
	c1b, ok := c1.Args[0].(*ast.CallExpr)
	if !ok || !stdFn(c1b, "io", "LimitReader") || len(c1b.Args) != 2 || !sfIs(ri, c1b.Args[0], pR) {
		return "", accerr, ""
	}
	if x := conv(c1b.Args[1], "int64"); x == nil || !isPayloadLen(x) {
		return "", accerr, ""
	}
	dataId, errId := sfIdent(a1.Lhs[0]), sfIdent(a1.Lhs[1])
	if dataId == nil || errId == nil || ri.Defs[dataId] == nil || ri.Defs[errId] == nil {
		return "", accerr, ""
	}
	dataObj, errObj := ri.Defs[dataId], ri.Defs[errId]
	i2, ok := st[1].(*ast.IfStmt)
	if !ok || i2.Init != nil || i2.Else != nil || !sfIsErrNotNil(ri, i2.Cond, errObj) || len(i2.Body.List) != 1 || !sfIsErrReturn(ri, i2.Body.List[0], errObj, 2) {
		return "", accerr, "reads the body itself, but statement 2 is not `if err != nil { return nil, err }`"
	}
	i3, ok := st[2].(*ast.IfStmt)
	if !ok || i3.Init != nil || i3.Else != nil || len(i3.Body.List) != 1 || !sfIsErrReturn(ri, i3.Body.List[0], nil, 2) {
		return "", accerr, "reads the body itself, but statement 3 is not the length test"
	}
	b3, ok := i3.Cond.(*ast.BinaryExpr)
	if !ok || b3.Op != token.NEQ {
		return "", accerr, "reads the body itself, but statement 3 is not `if len(data) != int(hdr.payloadLen())`"
	}
	l3, ok := b3.X.(*ast.CallExpr)
	if !ok || len(l3.Args) != 1 || !sfIs(ri, l3.Args[0], dataObj) {
		return "", accerr, "reads the body itself, but statement 3 is not `if len(data) != int(hdr.payloadLen())`"
	}
	if id := sfIdent(l3.Fun); id == nil {
		return "", accerr, "reads the body itself, but statement 3 is not `if len(data) != int(hdr.payloadLen())`"
	} else if bi, ok := ri.Uses[id].(*types.Builtin); !ok || bi.Name() != "len" {
		return "", accerr, "reads the body itself, but statement 3 is not `if len(data) != int(hdr.payloadLen())`"
	}
	if x := conv(b3.Y, "int"); x == nil || !isPayloadLen(x) {
		return "", accerr, "reads the body itself, but statement 3 is not `if len(data) != int(hdr.payloadLen())`"
	}
	a4, ok := st[3].(*ast.AssignStmt)
	if !ok || a4.Tok != token.DEFINE || len(a4.Lhs) != 1 || len(a4.Rhs) != 1 {
		return "", accerr, "reads the body itself, but statement 4 is not `sr := bits.NewFixedSliceReader(data)`"
	}
	c4, ok := a4.Rhs[0].(*ast.CallExpr)
	if !ok || !sfFuncIs(sfCallee(ri, c4), "bits", "NewFixedSliceReader") || len(c4.Args) != 1 || !sfIs(ri, c4.Args[0], dataObj) {
		return "", accerr, "reads the body itself, but statement 4 is not `sr := bits.NewFixedSliceReader(data)`"
	}
	srId := sfIdent(a4.Lhs[0])
	if srId == nil || ri.Defs[srId] == nil {
		return "", accerr, ""
	}
	rest := st[4:]
	if same, diff := w.twin(r, s, rest, ri.Defs[srId]); same {
		return "container-body", diff, ""
	}
	return "", accerr, "reads the body itself and runs the children loop, but the rest is not the body of " + s.Name()
}

// ---------------------------------------------------------------- relative use of a SliceReader parameter
var sfLocalAny = map[string]bool{"ReadUint8": true, "ReadUint16": true, "ReadInt16": true, "ReadUint24": true, "ReadUint32": true,
	"ReadInt32": true, "ReadUint64": true, "ReadInt64": true, "ReadBytes": true, "AccError": true}
var sfLocalCount = map[string]bool{"ReadFixedLengthString": true, "SkipBytes": true, "ReadZeroTerminatedString": true,
	"ReadPossiblyZeroTerminatedString": true}

type sfParamKey struct {
	fn  *types.Func
	idx int
}

type sfRel struct {
	w       *sfWorld
	bad     map[sfParamKey]string // first offending use
	deps    map[sfParamKey][]sfParamKey
	methods map[sfParamKey]map[string]bool
	seen    map[sfParamKey]bool
}

func sfIsSliceReader(t types.Type) bool { return sfTypeIs(t, sfModPath+"/bits", "SliceReader") }

// nonNegBounded: the int expression e is provably in [0, 2^62)
func sfNonNegBounded(info *types.Info, e ast.Expr) bool {
	tv, ok := info.Types[e]
	if ok && tv.Value != nil {
		if v, exact := constant.Int64Val(constant.ToInt(tv.Value)); exact && v >= 0 && v < (1<<40) {
			return true
		}
		return false
	}
	return sfBits(info, e) <= 40
}

// sfBits: an upper bound b such that 0 <= e < 2^b is certain (64 = unknown / possibly negative)
func sfBits(info *types.Info, e ast.Expr) int {
	tv, ok := info.Types[e]
	if ok && tv.Value != nil {
		if v, exact := constant.Int64Val(constant.ToInt(tv.Value)); exact && v >= 0 {
			b := 0
			for v > 0 {
				b++
				v >>= 1
			}
			return b
		}
		return 64
	}
	unsignedBits := func(t types.Type) int {
		if b, ok := t.Underlying().(*types.Basic); ok {
			switch b.Kind() {
			case types.Uint8:
				return 8
			case types.Uint16:
				return 16
			case types.Uint32:
				return 32
			}
		}
		return 64
	}
	switch x := e.(type) {
	case *ast.ParenExpr:
		return sfBits(info, x.X)
	case *ast.CallExpr:
		if len(x.Args) == 1 {
			if ftv, ok := info.Types[x.Fun]; ok && ftv.IsType() { // conversion
				inner := sfBits(info, x.Args[0])
				if atv, ok := info.Types[x.Args[0]]; ok {
					if ub := unsignedBits(atv.Type); ub < inner {
						inner = ub
					}
				}
				// the target type must hold the value without wrapping
				if b, ok := ftv.Type.Underlying().(*types.Basic); ok {
					switch b.Kind() {
					case types.Int, types.Int64, types.Uint64, types.Uint:
						if inner <= 62 {
							return inner
						}
					case types.Uint32, types.Int32, types.Uint16, types.Uint8:
						ub := unsignedBits(ftv.Type)
						if b.Kind() == types.Int32 {
							ub = 31
						}
						if inner <= ub {
							return inner
						}
						if b.Kind() != types.Int32 {
							return ub // truncating conversion to an unsigned type is still in range
						}
					}
				}
				return 64
			}
			if id, ok := x.Fun.(*ast.Ident); ok {
				if b, ok := info.Uses[id].(*types.Builtin); ok && b.Name() == "len" {
					return 40 // a Go slice/string below 2^40 elements
				}
			}
		}
		return 64
	case *ast.BinaryExpr:
		a, b := sfBits(info, x.X), sfBits(info, x.Y)
		if a == 64 || b == 64 {
			if x.Op == token.AND && (a < 64 || b < 64) { // masking with a non-negative value
				// only sound when both operands are of an unsigned type or the other is non-negative: require typed unsigned
				if tv, ok := info.Types[e]; ok {
					if bt, ok := tv.Type.Underlying().(*types.Basic); ok && bt.Info()&types.IsUnsigned != 0 {
						if a < b {
							return a
						}
						return b
					}
				}
			}
			return 64
		}
		switch x.Op {
		case token.ADD:
			if a < b {
				a = b
			}
			return a + 1
		case token.MUL:
			return a + b
		case token.QUO, token.REM, token.SHR:
			return a
		case token.AND:
			if a < b {
				return a
			}
			return b
		case token.OR, token.XOR:
			if a < b {
				a = b
			}
			return a
		}
		return 64
	}
	if ok && tv.Type != nil {
		return unsignedBits(tv.Type)
	}
	return 64
}

// ---- positions relative to each other: `initPos := sr.GetPos()` ... `sr.GetPos() - initPos`
// sfIsGetPos: e is a call X.GetPos() on a bits.SliceReader
func sfIsGetPos(info *types.Info, e ast.Expr) bool {
	for {
		p, ok := e.(*ast.ParenExpr)
		if !ok {
			break
		}
		e = p.X
	}
	c, ok := e.(*ast.CallExpr)
	if !ok || len(c.Args) != 0 {
		return false
	}
	se, ok := c.Fun.(*ast.SelectorExpr)
	if !ok || se.Sel.Name != "GetPos" {
		return false
	}
	tv, ok := info.Types[se.X]
	return ok && sfIsSliceReader(tv.Type)
}

// sfPosVar: v is a local int variable that only ever holds reader positions and is only used in differences of positions:
// every assignment to it is `v := X.GetPos()` / `v = X.GetPos()`, every other use is an operand of a binary `-` whose other
// operand is X.GetPos() or another such variable.
var sfPosBusy = map[*types.Var]bool{} // variables under examination: assumed fine (greatest fixpoint over mutual differences)

func sfPosVar(info *types.Info, fd *ast.FuncDecl, v *types.Var, depth int) bool {
	if v == nil || v.IsField() || !sfLocal(v) || fd == nil || fd.Body == nil || depth > 8 {
		return false
	}
	if sfPosBusy[v] {
		return true
	}
	sfPosBusy[v] = true
	defer delete(sfPosBusy, v)
	if b, ok := v.Type().Underlying().(*types.Basic); !ok || b.Kind() != types.Int {
		return false
	}
	ok, assigned := true, 0
	var stack []ast.Node
	ast.Inspect(fd.Body, func(n ast.Node) bool {
		if n == nil {
			stack = stack[:len(stack)-1]
			return true
		}
		stack = append(stack, n)
		id, isId := n.(*ast.Ident)
		if !isId || (info.Uses[id] != v && info.Defs[id] != v) {
			return true
		}
		if len(stack) < 2 {
			ok = false
			return true
		}
		switch par := stack[len(stack)-2].(type) {
		case *ast.AssignStmt:
			if (par.Tok == token.ASSIGN || par.Tok == token.DEFINE) && len(par.Lhs) == 1 && len(par.Rhs) == 1 && par.Lhs[0] == ast.Expr(id) && sfIsGetPos(info, par.Rhs[0]) {
				assigned++
				return true
			}
		case *ast.BinaryExpr:
			if par.Op == token.SUB {
				other := par.X
				if other == ast.Expr(id) {
					other = par.Y
				}
				if sfIsGetPos(info, other) {
					return true
				}
				if oid := sfIdent(other); oid != nil {
					if ov, isVar := info.Uses[oid].(*types.Var); isVar && ov != v && sfPosVar(info, fd, ov, depth+1) {
						return true
					}
				}
			}
		}
		ok = false
		return true
	})
	return ok && assigned > 0
}

// sfIsPosDiff: e is a difference of two positions
func sfIsPosDiff(info *types.Info, fd *ast.FuncDecl, e ast.Expr) bool {
	b, ok := e.(*ast.BinaryExpr)
	if !ok || b.Op != token.SUB {
		return false
	}
	isPos := func(x ast.Expr) bool {
		if sfIsGetPos(info, x) {
			return true
		}
		if id := sfIdent(x); id != nil {
			if v, ok := info.Uses[id].(*types.Var); ok {
				return sfPosVar(info, fd, v, 0)
			}
		}
		return false
	}
	return isPos(b.X) && isPos(b.Y)
}

// sfPosUse: the call sr.GetPos() (top of the stack: ident, selector, call) is used position-relatively; "" or the reason
func sfPosUse(info *types.Info, fd *ast.FuncDecl, stack []ast.Node, call *ast.CallExpr) string {
	// stack: ... parent, call, selector, ident
	if len(stack) < 4 {
		return "position-dependent method sr.GetPos"
	}
	i := len(stack) - 4
	for i > 0 {
		if _, ok := stack[i].(*ast.ParenExpr); !ok {
			break
		}
		i--
	}
	switch par := stack[i].(type) {
	case *ast.AssignStmt:
		if (par.Tok == token.ASSIGN || par.Tok == token.DEFINE) && len(par.Lhs) == 1 && len(par.Rhs) == 1 {
			if id := sfIdent(par.Lhs[0]); id != nil {
				v, _ := info.Defs[id].(*types.Var)
				if v == nil {
					v, _ = info.Uses[id].(*types.Var)
				}
				if sfPosVar(info, fd, v, 0) {
					return ""
				}
			}
		}
	case *ast.BinaryExpr:
		if sfIsPosDiff(info, fd, par) {
			return ""
		}
	}
	return "sr.GetPos() used other than in a difference of two reader positions"
}

// sfRange: exponents (lo, hi) such that -2^lo < e < 2^hi is certain for the int expression e, given that the body is shorter
// than 2^61 bytes (hypothesis of C03_delegate_sound_ext), so that hdr.payloadLen() < 2^61; 99 = unknown.
// Local variables are followed through ALL their assignments in the function (plain `=` / `:=` with one value per variable;
// any other modification makes the variable unknown).
func sfRange(info *types.Info, fd *ast.FuncDecl, e ast.Expr, depth int) (lo, hi int) {
	const unk = 99
	if depth > 6 {
		return unk, unk
	}
	if b := sfBits(info, e); b < 64 {
		return 0, b
	}
	if tv, ok := info.Types[e]; ok && tv.Value != nil {
		if v, exact := constant.Int64Val(constant.ToInt(tv.Value)); exact && v < 0 && v > -(1<<40) {
			return 40, 0
		}
		return unk, unk
	}
	max := func(a, b int) int {
		if a > b {
			return a
		}
		return b
	}
	switch x := e.(type) {
	case *ast.ParenExpr:
		return sfRange(info, fd, x.X, depth)
	case *ast.CallExpr:
		// hdr.payloadLen()
		if se, ok := x.Fun.(*ast.SelectorExpr); ok && len(x.Args) == 0 && se.Sel.Name == "payloadLen" {
			if tv, ok := info.Types[se.X]; ok && sfTypeIs(tv.Type, sfModPath+"/mp4", "BoxHeader") {
				return 0, 61
			}
		}
		// conversion between signed 64-bit integer types keeps the value
		if len(x.Args) == 1 {
			if ftv, ok := info.Types[x.Fun]; ok && ftv.IsType() {
				atv, ok2 := info.Types[x.Args[0]]
				if !ok2 {
					return unk, unk
				}
				isS64 := func(t types.Type) bool {
					b, ok := t.Underlying().(*types.Basic)
					return ok && (b.Kind() == types.Int || b.Kind() == types.Int64)
				}
				if isS64(ftv.Type) && isS64(atv.Type) {
					return sfRange(info, fd, x.Args[0], depth)
				}
			}
		}
		return unk, unk
	case *ast.BinaryExpr:
		if sfIsPosDiff(info, fd, x) {
			return 61, 61 // both positions lie in a buffer shorter than 2^61 bytes
		}
		alo, ahi := sfRange(info, fd, x.X, depth)
		blo, bhi := sfRange(info, fd, x.Y, depth)
		if alo == unk || blo == unk {
			return unk, unk
		}
		switch x.Op {
		case token.SUB: // lo/hi exponent 0: the value is >= 0 / <= 0
			lo, hi := max(alo, bhi)+1, max(ahi, blo)+1
			if blo == 0 {
				hi = ahi
			}
			if bhi == 0 {
				lo = alo
			}
			return lo, hi
		case token.ADD:
			lo, hi := max(alo, blo)+1, max(ahi, bhi)+1
			if bhi == 0 {
				hi = ahi
			}
			if blo == 0 {
				lo = alo
			}
			return lo, hi
		}
		return unk, unk
	case *ast.Ident:
		v, ok := info.Uses[x].(*types.Var)
		if !ok || v.IsField() || !sfLocal(v) || fd == nil || fd.Body == nil {
			return unk, unk
		}
		if b, ok := v.Type().Underlying().(*types.Basic); !ok || (b.Kind() != types.Int && b.Kind() != types.Int64) {
			return unk, unk
		}
		lo, hi, n, bad := 0, 0, 0, false
		ast.Inspect(fd.Body, func(nd ast.Node) bool {
			switch st := nd.(type) {
			case *ast.AssignStmt:
				for i, l := range st.Lhs {
					id := sfIdent(l)
					if id == nil || (info.Defs[id] != v && info.Uses[id] != v) {
						continue
					}
					if (st.Tok != token.ASSIGN && st.Tok != token.DEFINE) || len(st.Lhs) != len(st.Rhs) {
						bad = true
						continue
					}
					l1, h1 := sfRange(info, fd, st.Rhs[i], depth+1)
					lo, hi = max(lo, l1), max(hi, h1)
					n++
				}
			case *ast.IncDecStmt:
				if id := sfIdent(st.X); id != nil && info.Uses[id] == v {
					bad = true
				}
			case *ast.UnaryExpr:
				if id := sfIdent(st.X); st.Op == token.AND && id != nil && info.Uses[id] == v {
					bad = true
				}
			case *ast.RangeStmt:
				for _, kv := range []ast.Expr{st.Key, st.Value} {
					if id := sfIdent(kv); id != nil && (info.Defs[id] == v || info.Uses[id] == v) {
						bad = true
					}
				}
			case *ast.ValueSpec:
				for _, nm := range st.Names {
					if info.Defs[nm] == v {
						bad = true // `var x int [= e]`: not followed
					}
				}
			}
			return true
		})
		if bad || n == 0 {
			return unk, unk
		}
		return lo, hi
	}
	return unk, unk
}

// analyse records, for parameter idx of fn, the offending uses and the callee parameters it is handed to
func (r *sfRel) analyse(k sfParamKey) {
	if r.seen[k] {
		return
	}
	r.seen[k] = true
	fd, info := r.w.decls[k.fn], r.w.infoOf[k.fn]
	if fd == nil || fd.Body == nil {
		r.bad[k] = "no source for " + k.fn.FullName()
		return
	}
	sig := k.fn.Type().(*types.Signature)
	obj := types.Object(sig.Params().At(k.idx))
	r.methods[k] = map[string]bool{}
	setBad := func(p token.Pos, why string) {
		if _, ok := r.bad[k]; !ok {
			r.bad[k] = why + " at " + r.w.pos(p)
		}
	}
	var stack []ast.Node
	ast.Inspect(fd.Body, func(n ast.Node) bool {
		if n == nil {
			stack = stack[:len(stack)-1]
			return true
		}
		stack = append(stack, n)
		id, ok := n.(*ast.Ident)
		if !ok || info.Uses[id] != obj {
			return true
		}
		if len(stack) < 2 {
			setBad(id.Pos(), "bare use")
			return true
		}
		par := stack[len(stack)-2]
		// receiver of a method call
		if se, ok := par.(*ast.SelectorExpr); ok && se.X == id {
			var call *ast.CallExpr
			if len(stack) >= 3 {
				if c, ok := stack[len(stack)-3].(*ast.CallExpr); ok && c.Fun == se {
					call = c
				}
			}
			m := se.Sel.Name
			if call == nil {
				setBad(id.Pos(), "method value sr."+m)
				return true
			}
			r.methods[k][m] = true
			switch {
			case sfLocalAny[m]:
			case m == "GetPos":
				// only as `v := sr.GetPos()` / `v = sr.GetPos()` or as an operand of a difference of two positions
				if why := sfPosUse(info, fd, stack, call); why != "" {
					setBad(id.Pos(), why)
				}
			case m == "ReadFixedLengthString": // any int count: an error-free read stayed inside the body
			case m == "SkipBytes":
				if len(call.Args) != 1 || !sfNonNegBounded(info, call.Args[0]) {
					setBad(id.Pos(), "sr.SkipBytes with a count not provably in [0, 2^62)")
				}
			case sfLocalCount[m]:
				if len(call.Args) != 1 {
					setBad(id.Pos(), "sr."+m+" without a count")
				} else if _, hi := sfRange(info, fd, call.Args[0], 0); hi > 62 {
					setBad(id.Pos(), "sr."+m+" with a count not provably below 2^62")
				}
			default:
				setBad(id.Pos(), "position-dependent method sr."+m)
			}
			return true
		}
		// argument of a statically resolved call
		if c, ok := par.(*ast.CallExpr); ok {
			for i, a := range c.Args {
				if a != id {
					continue
				}
				callee := sfCallee(info, c)
				if callee == nil || r.w.decls[callee] == nil {
					setBad(id.Pos(), "reader passed to a callee that is not a function of the analysed packages")
					return true
				}
				csig := callee.Type().(*types.Signature)
				if csig.Variadic() && i >= csig.Params().Len()-1 {
					setBad(id.Pos(), "reader passed as a variadic argument")
					return true
				}
				// a method value's receiver does not count as a parameter: Args index == Params index
				if i >= csig.Params().Len() || !sfIsSliceReader(csig.Params().At(i).Type()) {
					setBad(id.Pos(), "reader passed to "+callee.Name()+" as a non-SliceReader parameter")
					return true
				}
				ck := sfParamKey{callee, i}
				r.deps[k] = append(r.deps[k], ck)
				r.analyse(ck)
				return true
			}
		}
		setBad(id.Pos(), "reader used other than as method receiver or call argument")
		return true
	})
}

// relative: greatest fixpoint; returns "" or the reason (own offending use, or the callee chain)
func (r *sfRel) relative(k sfParamKey) string {
	r.analyse(k)
	visited := map[sfParamKey]bool{}
	var walk func(k sfParamKey, path string) string
	walk = func(k sfParamKey, path string) string {
		if visited[k] {
			return ""
		}
		visited[k] = true
		if why, ok := r.bad[k]; ok {
			if path != "" {
				return why + " (reached via " + path + ")"
			}
			return why
		}
		for _, d := range r.deps[k] {
			np := d.fn.Name()
			if path != "" {
				np = path + " -> " + np
			}
			if why := walk(d, np); why != "" {
				return why
			}
		}
		return ""
	}
	return walk(k, "")
}

// all methods used transitively
func (r *sfRel) allMethods(k sfParamKey) []string {
	set := map[string]bool{}
	visited := map[sfParamKey]bool{}
	var walk func(k sfParamKey)
	walk = func(k sfParamKey) {
		if visited[k] {
			return
		}
		visited[k] = true
		for m := range r.methods[k] {
			set[m] = true
		}
		for _, d := range r.deps[k] {
			walk(d)
		}
	}
	walk(k)
	var out []string
	for m := range set {
		out = append(out, m)
	}
	sort.Strings(out)
	return out
}

// ---------------------------------------------------------------- encoders
func (w *sfWorld) encDelegating(fo *types.Func, encSW *types.Func) string {
	fd, info := w.decls[fo], w.infoOf[fo]
	if fd == nil || fd.Body == nil {
		return "no body"
	}
	sig := fo.Type().(*types.Signature)
	if sig.Recv() == nil || fd.Recv == nil || len(fd.Recv.List) != 1 || len(fd.Recv.List[0].Names) != 1 {
		return "no named receiver"
	}
	recvObj := info.Defs[fd.Recv.List[0].Names[0]]
	pW := sig.Params().At(0)
	if sig.Results().At(0).Name() != "" {
		return "named result"
	}
	st := fd.Body.List
	if w.encPrelude != "" {
		// ENC-PRELUDE: one leading statement `b.m()` (a method of the receiver without parameters or results) that is ALSO the first
		// statement of EncodeSW, then the delegation pattern
		if len(st) != 6 {
			return "no prelude + delegation pattern"
		}
		m := w.preludeCall(info, st[0], recvObj)
		sd := w.decls[encSW]
		if m == nil || sd == nil || sd.Body == nil || len(sd.Body.List) == 0 || len(sd.Recv.List) != 1 || len(sd.Recv.List[0].Names) != 1 {
			return "statement 1 is not a call `b.m()` of a method of the receiver"
		}
		si := w.infoOf[encSW]
		if w.preludeCall(si, sd.Body.List[0], si.Defs[sd.Recv.List[0].Names[0]]) != m {
			return "EncodeSW does not start with the same call"
		}
		w.encPrelude = m.Name()
		st = st[1:]
	}
	if len(st) != 5 {
		return fmt.Sprintf("body has %d statements, the delegation pattern has 5", len(st))
	}
	// 1: sw := bits.NewFixedSliceWriter(int(b.Size()))
	a1, ok := st[0].(*ast.AssignStmt)
	if !ok || a1.Tok != token.DEFINE || len(a1.Lhs) != 1 || len(a1.Rhs) != 1 {
		return "statement 1 is not `sw := bits.NewFixedSliceWriter(int(b.Size()))`"
	}
	c1, ok := a1.Rhs[0].(*ast.CallExpr)
	if !ok || !sfFuncIs(sfCallee(info, c1), "bits", "NewFixedSliceWriter") || len(c1.Args) != 1 {
		return "statement 1 is not `sw := bits.NewFixedSliceWriter(int(b.Size()))`"
	}
	conv, ok := c1.Args[0].(*ast.CallExpr)
	if !ok || len(conv.Args) != 1 {
		return "statement 1: the size is not int(b.Size())"
	}
	if tv, ok := info.Types[conv.Fun]; !ok || !tv.IsType() || tv.Type.String() != "int" {
		return "statement 1: the size is not int(b.Size())"
	}
	szc, ok := conv.Args[0].(*ast.CallExpr)
	if !ok || len(szc.Args) != 0 {
		return "statement 1: the size is not int(b.Size())"
	}
	szs, ok := szc.Fun.(*ast.SelectorExpr)
	if !ok || szs.Sel.Name != "Size" || !sfIs(info, szs.X, recvObj) {
		return "statement 1: the size is not int(b.Size())"
	}
	if m := sfCallee(info, szc); m == nil || m.Type().(*types.Signature).Recv() == nil {
		return "statement 1: Size is not a method"
	}
	swId := sfIdent(a1.Lhs[0])
	if swId == nil || info.Defs[swId] == nil {
		return "statement 1 does not define sw"
	}
	swObj := info.Defs[swId]
	// 2: err := b.EncodeSW(sw)
	a2, ok := st[1].(*ast.AssignStmt)
	if !ok || a2.Tok != token.DEFINE || len(a2.Lhs) != 1 || len(a2.Rhs) != 1 {
		return "statement 2 is not `err := b.EncodeSW(sw)`"
	}
	c2, ok := a2.Rhs[0].(*ast.CallExpr)
	if !ok || len(c2.Args) != 1 || !sfIs(info, c2.Args[0], swObj) {
		return "statement 2 is not `err := b.EncodeSW(sw)`"
	}
	s2, ok := c2.Fun.(*ast.SelectorExpr)
	if !ok || !sfIs(info, s2.X, recvObj) || sfCallee(info, c2) != encSW {
		return "statement 2 does not call the receiver's own EncodeSW"
	}
	errId := sfIdent(a2.Lhs[0])
	if errId == nil || info.Defs[errId] == nil {
		return "statement 2 does not define err"
	}
	errObj := info.Defs[errId]
	// 3: if err != nil { return err }
	i3, ok := st[2].(*ast.IfStmt)
	if !ok || i3.Init != nil || i3.Else != nil || !sfIsErrNotNil(info, i3.Cond, errObj) || len(i3.Body.List) != 1 ||
		!sfIsErrReturn(info, i3.Body.List[0], errObj, 1) {
		return "statement 3 is not `if err != nil { return err }`"
	}
	// 4: _, err = w.Write(sw.Bytes())
	a4, ok := st[3].(*ast.AssignStmt)
	if !ok || a4.Tok != token.ASSIGN || len(a4.Lhs) != 2 || len(a4.Rhs) != 1 {
		return "statement 4 is not `_, err = w.Write(sw.Bytes())`"
	}
	if id := sfIdent(a4.Lhs[0]); id == nil || id.Name != "_" {
		return "statement 4 is not `_, err = w.Write(sw.Bytes())`"
	}
	if !sfIs(info, a4.Lhs[1], errObj) {
		return "statement 4 is not `_, err = w.Write(sw.Bytes())`"
	}
	c4, ok := a4.Rhs[0].(*ast.CallExpr)
	if !ok || len(c4.Args) != 1 {
		return "statement 4 is not `_, err = w.Write(sw.Bytes())`"
	}
	s4, ok := c4.Fun.(*ast.SelectorExpr)
	if !ok || s4.Sel.Name != "Write" || !sfIs(info, s4.X, pW) {
		return "statement 4 does not write to w"
	}
	bc, ok := c4.Args[0].(*ast.CallExpr)
	if !ok || len(bc.Args) != 0 {
		return "statement 4 does not write sw.Bytes()"
	}
	bs, ok := bc.Fun.(*ast.SelectorExpr)
	if !ok || bs.Sel.Name != "Bytes" || !sfIs(info, bs.X, swObj) {
		return "statement 4 does not write sw.Bytes()"
	}
	// 5: return err
	r5, ok := st[4].(*ast.ReturnStmt)
	if !ok || len(r5.Results) != 1 || !sfIs(info, r5.Results[0], errObj) {
		return "statement 5 is not `return err`"
	}
	return ""
}

// preludeCall: stmt is `recv.m()` with m a method without parameters and results
func (w *sfWorld) preludeCall(info *types.Info, st ast.Stmt, recv types.Object) *types.Func {
	es, ok := st.(*ast.ExprStmt)
	if !ok {
		return nil
	}
	c, ok := es.X.(*ast.CallExpr)
	if !ok || len(c.Args) != 0 {
		return nil
	}
	se, ok := c.Fun.(*ast.SelectorExpr)
	if !ok || !sfIs(info, se.X, recv) {
		return nil
	}
	m := sfCallee(info, c)
	if m == nil {
		return nil
	}
	sig := m.Type().(*types.Signature)
	if sig.Recv() == nil || sig.Params().Len() != 0 || sig.Results().Len() != 0 {
		return nil
	}
	return m
}

// encTwin: Encode and EncodeSW are the same program up to local names, the writer, and the swaps of sfEq.enc
func (w *sfWorld) encTwin(enc, encSW *types.Func) bool {
	a, b := w.decls[enc], w.decls[encSW]
	if a == nil || b == nil || a.Body == nil || b.Body == nil {
		return false
	}
	ia, ib := w.infoOf[enc], w.infoOf[encSW]
	q := &sfEq{w: w, ia: ia, ib: ib, m: map[types.Object]types.Object{}, rev: map[types.Object]types.Object{}, enc: true}
	sa, sb := enc.Type().(*types.Signature), encSW.Type().(*types.Signature)
	q.m[sa.Params().At(0)], q.rev[sb.Params().At(0)] = sb.Params().At(0), sa.Params().At(0)
	if len(a.Recv.List) == 1 && len(b.Recv.List) == 1 && len(a.Recv.List[0].Names) == 1 && len(b.Recv.List[0].Names) == 1 {
		ra, rb := ia.Defs[a.Recv.List[0].Names[0]], ib.Defs[b.Recv.List[0].Names[0]]
		if ra != nil && rb != nil {
			q.m[ra], q.rev[rb] = rb, ra
		}
	}
	return q.stmts(a.Body.List, b.Body.List)
}

// twinOverDelegating: Encode (a twin of EncodeSW) is `err := EncodeHeader(b, w); if err != nil { return err }; return b.X.Encode(w)`: the header,
// then exactly ONE further call, a statically resolved method Encode(io.Writer) of a concrete type that has EncodeSW as well and whose
// own Encode has the delegation pattern (hevc.DecConfRec, av1.CodecConfRec).  Returns the inner type's name, "" otherwise.
func (w *sfWorld) twinOverDelegating(enc *types.Func) string {
	fd, info := w.decls[enc], w.infoOf[enc]
	if fd == nil || fd.Body == nil {
		return ""
	}
	var inner []*types.Func
	headers, other := 0, 0
	ast.Inspect(fd.Body, func(n ast.Node) bool {
		c, ok := n.(*ast.CallExpr)
		if !ok {
			return true
		}
		fo := sfCallee(info, c)
		switch {
		case fo != nil && sfFuncIs(fo, "mp4", "EncodeHeader"):
			headers++
		case fo != nil && fo.Name() == "Encode" && fo.Type().(*types.Signature).Recv() != nil:
			inner = append(inner, fo)
		default:
			other++
		}
		return true
	})
	if headers != 1 || other != 0 || len(inner) != 1 {
		return ""
	}
	m := inner[0]
	rt := m.Type().(*types.Signature).Recv().Type()
	if p, ok := rt.(*types.Pointer); ok {
		rt = p.Elem()
	}
	named, ok := rt.(*types.Named)
	if !ok {
		return ""
	}
	if _, isIface := named.Underlying().(*types.Interface); isIface {
		return ""
	}
	var mSW *types.Func
	for i := 0; i < named.NumMethods(); i++ {
		if x := named.Method(i); x.Name() == "EncodeSW" {
			mSW = x
		}
	}
	if mSW == nil || w.decls[m] == nil {
		return ""
	}
	save := w.encPrelude
	w.encPrelude = ""
	why := w.encDelegating(m, mSW)
	w.encPrelude = save
	if why != "" {
		return ""
	}
	return named.Obj().Pkg().Name() + "." + named.Obj().Name()
}

// oneCall: the body is `return F(recv, wr)` with F the package-level function mp4.name
func (w *sfWorld) oneCall(fo *types.Func, name string, nargs int) bool {
	fd, info := w.decls[fo], w.infoOf[fo]
	if fd == nil || fd.Body == nil || len(fd.Body.List) != 1 {
		return false
	}
	r, ok := fd.Body.List[0].(*ast.ReturnStmt)
	if !ok || len(r.Results) != 1 {
		return false
	}
	c, ok := r.Results[0].(*ast.CallExpr)
	if !ok || len(c.Args) != nargs || !sfFuncIs(sfCallee(info, c), "mp4", name) {
		return false
	}
	if len(fd.Recv.List) != 1 || len(fd.Recv.List[0].Names) != 1 || !sfIs(info, c.Args[0], info.Defs[fd.Recv.List[0].Names[0]]) {
		return false
	}
	return sfIs(info, c.Args[1], fo.Type().(*types.Signature).Params().At(0))
}

// ---------------------------------------------------------------- facts
type sfDecFact struct {
	Key        string
	R, S       string // registered function names ("" = not registered)
	Class      string // delegating | container-twin | container-body | separate
	Delegating bool
	AccErr     bool   // container classes: S ends with `return x, sr.AccError()` where R ends with `return x, nil`
	WhyNot     string // reason R is not delegating
	Relative   bool
	WhyNotRel  string
	Methods    []string
	RPos, SPos string
}

type sfEncFact struct {
	Type       string
	Class      string // delegating | container | header | twin | separate
	Delegating bool
	WhyNot     string
	Pos        string
}

func sfExtract(repo string) ([]sfDecFact, []sfEncFact, *sfWorld, error) {
	w, err := sfLoad(repo)
	if err != nil {
		return nil, nil, nil, err
	}
	regR, err := w.table("decoders")
	if err != nil {
		return nil, nil, nil, err
	}
	regS, err := w.table("decodersSR")
	if err != nil {
		return nil, nil, nil, err
	}
	byKeyS := map[string]sfReg{}
	for _, r := range regS {
		byKeyS[r.key] = r
	}
	keys := map[string]bool{}
	byKeyR := map[string]sfReg{}
	for _, r := range regR {
		byKeyR[r.key] = r
		keys[r.key] = true
	}
	for _, r := range regS {
		keys[r.key] = true
	}
	var ks []string
	for k := range keys {
		ks = append(ks, k)
	}
	sort.Strings(ks)
	rel := &sfRel{w: w, bad: map[sfParamKey]string{}, deps: map[sfParamKey][]sfParamKey{}, methods: map[sfParamKey]map[string]bool{}, seen: map[sfParamKey]bool{}}
	var decs []sfDecFact
	for _, k := range ks {
		r, okR := byKeyR[k]
		s, okS := byKeyS[k]
		f := sfDecFact{Key: k}
		if okR {
			f.R = r.txt
		}
		if okS {
			f.S = s.txt
		}
		switch {
		case !okR || !okS:
			f.WhyNot = "registered in one table only"
		case r.fn == nil || s.fn == nil:
			f.WhyNot = "registered value is not a package-level function"
		default:
			f.RPos, f.SPos = w.pos(w.decls[r.fn].Pos()), w.pos(w.decls[s.fn].Pos())
			why, callee := w.delegating(r.fn)
			if why == "" && callee != s.fn {
				why = fmt.Sprintf("%s delegates to %s but decodersSR[%q] is %s", r.txt, callee.Name(), k, s.txt)
			}
			f.Delegating, f.WhyNot = why == "", why
			f.Class = "delegating"
			if !f.Delegating {
				cl, acc, cwhy := w.containerClass(r.fn, s.fn)
				f.Class, f.AccErr = cl, acc
				if cwhy != "" {
					f.WhyNot = cwhy
				}
				if cl == "" {
					cl = w.leafClass(r.fn, s.fn)
				}
				if cl == "" {
					cl, f.AccErr = w.bodyFnClass(r.fn, s.fn)
				}
				if cl == "" {
					f.Class = "separate"
				} else {
					f.Class, f.WhyNot = cl, ""
				}
			}
		}
		if f.Class == "" {
			f.Class = "separate"
		}
		if okS && s.fn != nil {
			ssig := s.fn.Type().(*types.Signature)
			if ssig.Params().Len() == 3 && sfIsSliceReader(ssig.Params().At(2).Type()) {
				pk := sfParamKey{s.fn, 2}
				f.WhyNotRel = rel.relative(pk)
				f.Relative = f.WhyNotRel == ""
				f.Methods = rel.allMethods(pk)
			} else {
				f.WhyNotRel = "signature is not (hdr, startPos, sr bits.SliceReader)"
			}
		} else {
			f.WhyNotRel = "no SR decoder function"
		}
		decs = append(decs, f)
	}
	// encoders
	p := w.pkgs["mp4"]
	var encs []sfEncFact
	sc := p.pkg.Scope()
	for _, n := range sc.Names() {
		tn, ok := sc.Lookup(n).(*types.TypeName)
		if !ok {
			continue
		}
		named, ok := tn.Type().(*types.Named)
		if !ok {
			continue
		}
		if _, isIface := named.Underlying().(*types.Interface); isIface {
			continue
		}
		var enc, encSW *types.Func
		for i := 0; i < named.NumMethods(); i++ {
			m := named.Method(i)
			sig := m.Type().(*types.Signature)
			if sig.Params().Len() != 1 || sig.Results().Len() != 1 || sig.Results().At(0).Type().String() != "error" {
				continue
			}
			if m.Name() == "Encode" && sfTypeIs(sig.Params().At(0).Type(), "io", "Writer") {
				enc = m
			}
			if m.Name() == "EncodeSW" && sfTypeIs(sig.Params().At(0).Type(), sfModPath+"/bits", "SliceWriter") {
				encSW = m
			}
		}
		if enc == nil || encSW == nil {
			continue
		}
		w.encPrelude = ""
		why := w.encDelegating(enc, encSW)
		class := "delegating"
		prelude := ""
		if why != "" {
			w.encPrelude = "?"
			if w.encDelegating(enc, encSW) == "" {
				prelude = w.encPrelude
			}
			w.encPrelude = ""
		}
		switch {
		case why == "":
		case prelude != "":
			class, why = "prelude", prelude
		case w.oneCall(enc, "EncodeContainer", 2) && w.oneCall(encSW, "EncodeContainerSW", 2):
			class, why = "container", ""
		case w.oneCall(enc, "EncodeHeader", 2) && w.oneCall(encSW, "EncodeHeaderSW", 2):
			class, why = "header", ""
		case w.encTwin(enc, encSW):
			class, why = "twin", ""
			if in := w.twinOverDelegating(enc); in != "" {
				class, why = "twin-deleg", in
			}
		default:
			class = "separate"
		}
		encs = append(encs, sfEncFact{Type: n, Class: class, Delegating: class == "delegating", WhyNot: why, Pos: w.pos(w.decls[enc].Pos())})
	}
	return decs, encs, w, nil
}

// ---------------------------------------------------------------- output
func sfCoqString(s string) string {
	var b strings.Builder
	b.WriteByte('"')
	for _, c := range []byte(s) {
		switch {
		case c == '"':
			b.WriteString(`""`)
		case c < 32 || c > 126:
			fmt.Fprintf(&b, "\\x%02x", c)
		default:
			b.WriteByte(c)
		}
	}
	b.WriteByte('"')
	return b.String()
}

func sfCoqKey(k string) string {
	var parts []string
	for _, c := range []byte(k) {
		parts = append(parts, fmt.Sprintf("%d", c))
	}
	return "[" + strings.Join(parts, ";") + "]"
}

func sfBool(b bool) string {
	if b {
		return "true"
	}
	return "false"
}

var sfCoqClass = map[string]string{"body-fn": "CBodyFn", "pure-twin": "CPureTwin", "raw-body": "CRawBody", "delegating": "CDelegating", "container-twin": "CContainerTwin", "container-body": "CContainerBody", "separate": "CSeparate"}

var sfCoqEncClass = map[string]string{"twin-deleg": "ETwinDeleg", "prelude": "EPrelude", "delegating": "EDelegating", "container": "EContainer", "header": "EHeader", "twin": "ETwin", "separate": "ESeparate"}

func sfRenderCoq(decs []sfDecFact, encs []sfEncFact) []byte {
	var b bytes.Buffer
	b.WriteString("(* C03Facts.v -- GENERATED on every run of ./check C03 by `harness/c03 srcfacts` from the library sources in /repo\n")
	b.WriteString("   (packages bits avc hevc sei aac av1 mp4; non-test files of the default build).  Do not edit: the file is\n")
	b.WriteString("   overwritten whenever the sources give a different table.\n")
	b.WriteString("   c03_decoder_facts: one entry per key of mp4.decoders / mp4.decodersSR: box type (bytes), registered reader-path decoder,\n")
	b.WriteString("   registered SliceReader-path decoder, whether the reader-path decoder has exactly the delegation shape and delegates to\n")
	b.WriteString("   the SR decoder registered under the same key, whether that SR decoder uses its reader only through position-relative\n")
	b.WriteString("   operations (the classes are defined at the top of harness/c03/srcfacts.go).\n")
	b.WriteString("   c03_encoder_facts: one entry per type of package mp4 with both Encode(io.Writer) and EncodeSW(bits.SliceWriter): whether\n")
	b.WriteString("   Encode has exactly the shape `sw := NewFixedSliceWriter(int(b.Size())); err := b.EncodeSW(sw); ...; w.Write(sw.Bytes())`. *)\n")
	b.WriteString("From Coq Require Import List String NArith.\nFrom V.c03 Require Import C03FactsDefs.\nImport ListNotations.\nOpen Scope string_scope.\nOpen Scope N_scope.\n\n")
	b.WriteString("Definition c03_decoder_facts : list decfact := [\n")
	for i, f := range decs {
		fmt.Fprintf(&b, "  mkdec %s %s %s %s %s %s", sfCoqKey(f.Key), sfCoqString(f.R), sfCoqString(f.S), sfCoqClass[f.Class], sfBool(f.AccErr), sfBool(f.Relative))
		if i+1 < len(decs) {
			b.WriteString(";")
		}
		b.WriteString("\n")
	}
	b.WriteString("].\n\nDefinition c03_encoder_facts : list encfact := [\n")
	for i, f := range encs {
		fmt.Fprintf(&b, "  mkenc %s %s", sfCoqString(f.Type), sfCoqEncClass[f.Class])
		if i+1 < len(encs) {
			b.WriteString(";")
		}
		b.WriteString("\n")
	}
	b.WriteString("].\n")
	return b.Bytes()
}

func cmdSrcFacts(repo, outPath string) int {
	decs, encs, w, err := sfExtract(repo)
	if err != nil {
		fmt.Fprintln(os.Stderr, "srcfacts:", err)
		return 2
	}
	coq := sfRenderCoq(decs, encs)
	if outPath != "" {
		old, _ := os.ReadFile(outPath)
		if !bytes.Equal(old, coq) {
			if err := os.WriteFile(outPath, coq, 0o644); err != nil {
				fmt.Fprintln(os.Stderr, "srcfacts:", err)
				return 2
			}
			fmt.Fprintf(out, "WROTE\t%s\n", outPath)
		} else {
			fmt.Fprintf(out, "UNCHANGED\t%s\n", outPath)
		}
	}
	fmt.Fprintf(out, "STATS\tfiles=%d\tkeys=%d\tencoder_types=%d\n", w.files, len(decs), len(encs))
	for _, f := range decs {
		fmt.Fprintf(out, "DEC\t%x\t%s\t%s\t%s\t%v\t%v\t%s\t%s\t%s\t%s\t%s\n", f.Key, f.R, f.S, f.Class, f.AccErr, f.Relative,
			strings.Join(f.Methods, ","), f.RPos, f.SPos, f.WhyNot, f.WhyNotRel)
	}
	for _, f := range encs {
		fmt.Fprintf(out, "ENC\t%s\t%s\t%s\t%s\n", f.Type, f.Class, f.Pos, f.WhyNot)
	}
	return 0
}
