// C lines: dref, trep, wvtt and the audio sample entries (mp4a enca ac-3 ec-3): one box possibly followed by sibling bytes through
// DecodeBox and DecodeBoxSR: decoded fields, children (type:size), Size(), bytes consumed, AccError, recomputed by the model decoders
// dref_r / dref_sr, trep_r / trep_sr, wvtt_r / wvtt_sr, ase_r / ase_sr (coq/c03/C03PfxModel.v).  Children are the standard leaves.
package main

import (
	"bytes"
	"fmt"

	"github.com/Eyevinn/mp4ff/bits"
	"github.com/Eyevinn/mp4ff/mp4"
	"verifharness/hx"
)

func pfxFields(b mp4.Box) string {
	switch x := b.(type) {
	case *mp4.DrefBox:
		return fmt.Sprintf("cnt:%d:%x:%d:[%s]", x.Version, x.Flags, x.EntryCount, kidsDump(x.Children, false))
	case *mp4.TrepBox:
		return fmt.Sprintf("cnt:%d:%x:%d:[%s]", x.Version, x.Flags, x.TrackID, kidsDump(x.Children, false))
	case *mp4.WvttBox:
		return fmt.Sprintf("wvtt:%d:[%s]", x.DataReferenceIndex, kidsDump(x.Children, true))
	case *mp4.MetaBox:
		return fmt.Sprintf("meta:%c:%d:%x:[%s]", boolc(x.IsQuickTime()), x.Version, x.Flags, kidsDump(x.Children, true))
	case *mp4.EvteBox:
		return fmt.Sprintf("evte:%d:[%s]", x.DataReferenceIndex, kidsDump(x.Children, true))
	case *mp4.StppBox:
		return fmt.Sprintf("stpp:%d:%s:%s:%s:[%s]", x.DataReferenceIndex, hexOrDash([]byte(x.Namespace)), hexOrDash([]byte(x.SchemaLocation)),
			hexOrDash([]byte(x.AuxiliaryMimeTypes)), kidsDump(x.Children, true))
	case *mp4.AudioSampleEntryBox:
		return fmt.Sprintf("ase:%d:%d:%d:%d:[%s]", x.DataReferenceIndex, x.ChannelCount, x.SampleSize, x.SampleRate, kidsDump(x.Children, true))
	}
	return "other:" + b.Type()
}

func pfxBoth(data []byte) string {
	var b mp4.Box
	var err error
	rd := bytes.NewReader(data)
	r1 := "err"
	if p := guard(func() { b, err = mp4.DecodeBox(0, rd) }); p != "" {
		r1 = "panic"
	} else if err == nil && b != nil {
		r1 = fmt.Sprintf("ok:%s:S%d:%d", pfxFields(b), b.Size(), len(data)-rd.Len())
	}
	sr := bits.NewFixedSliceReader(hx.Exact(data))
	r2 := "err"
	if p := guard(func() { b, err = mp4.DecodeBoxSR(0, sr) }); p != "" {
		r2 = "panic"
	} else if err == nil && b != nil {
		r2 = fmt.Sprintf("ok:%s:S%d:%d:%c", pfxFields(b), b.Size(), sr.GetPos(), boolc(sr.AccError() != nil))
	}
	return r1 + "\t" + r2
}

func pfxKids(r *hx.Rng, n int) []byte {
	var k []byte
	for i := 0; i < n; i++ {
		k = cat(k, vseKid(r))
	}
	return k
}

func aseFixed(r *hx.Rng) []byte {
	return cat(make([]byte, 6), u16(uint16(r.Pick(0, 1, 2))), make([]byte, 8), u16(uint16(r.Pick(1, 2, 6))), u16(uint16(r.Pick(16, 0, 24))),
		make([]byte, 4), u32(uint32(r.Pick(48000<<16, 44100<<16, 0x12345678, 0))))
}

func genC3Inputs(r *hx.Rng, n int) [][]byte {
	var out [][]byte
	emit := func(d []byte) { out = append(out, d) }
	variants := func(good []byte) {
		emit(good)
		emit(cat(good, free(r.Intn(3))))
		emit(cat(good, r.Bytes(r.Range(1, 60), nil)))
		if l := toLarge(good); l != nil {
			emit(l)
			emit(cat(l, r.Bytes(r.Range(1, 12), nil)))
		}
		for _, d := range []int{-8, -1, 1, 8, 20} {
			m := append([]byte(nil), good...)
			copy(m, u32(uint32(len(good)+d)))
			emit(m)
			emit(cat(m, r.Bytes(r.Range(8, 60), nil)))
		}
		for _, k := range []int{1, 4, 9, 20, 30} {
			if k <= len(good) {
				emit(good[:len(good)-k])
			}
		}
	}
	mk := func(name string, k int) []byte {
		switch name {
		case "dref":
			return box("dref", u32(uint32(r.Pick(0, 1, 0x01000000, 0x00ffffff))), u32(uint32(k)), pfxKids(r, k))
		case "trep":
			return box("trep", u32(uint32(r.Pick(0, 0x01000001))), u32(uint32(r.Pick(1, 2, 0xffffffff))), pfxKids(r, k))
		case "wvtt":
			return box("wvtt", make([]byte, 6), u16(uint16(r.Pick(1, 0, 0xffff))), pfxKids(r, k))
		case "meta":
			// ISO form (version/flags word) or QuickTime form (children at once); a first child named hdlr in both forms, or none.
			// The hdlr child is rendered as an UNKNOWN-type leaf of the same layout for the model ("hdlr" is a typed box in Go: it must decode)
			hd := box("hdlr", u32(0), u32(0), []byte([]string{"mdir", "mdta"}[r.Intn(2)]), make([]byte, 12), []byte{0})
			var kids []byte
			if r.Intn(4) > 0 {
				kids = hd
			}
			kids = cat(kids, pfxKids(r, k))
			if r.Intn(3) == 0 {
				return box("meta", kids)
			}
			return box("meta", u32(uint32(r.Pick(0, 0, 1, 0x01000000))), kids)
		case "evte":
			return box("evte", make([]byte, 6), u16(uint16(r.Pick(1, 0, 0xffff))), pfxKids(r, k))
		case "stpp":
			str := func() []byte { return []byte([]string{"", "a", "ns:x", "http://www.w3.org/ns/ttml"}[r.Intn(4)]) }
			body := cat(make([]byte, 6), u16(uint16(r.Pick(1, 2))), str(), []byte{0})
			switch r.Intn(5) {
			case 0: // both optional strings missing (legal only without children)
			case 1: // only the schema location
				body = cat(body, str(), []byte{0})
			default:
				body = cat(body, str(), []byte{0}, str(), []byte{0})
			}
			return box("stpp", body, pfxKids(r, k))
		}
		return box(name, aseFixed(r), pfxKids(r, k))
	}
	names := []string{"dref", "trep", "wvtt", "mp4a", "enca", "ac-3", "ec-3", "evte", "stpp", "meta"}
	for i, nm := range names {
		for k := 0; k <= 3; k++ {
			for rep := 0; rep < 2; rep++ {
				b := mk(nm, k)
				if (i+k+rep)%2 == 0 || n >= 2000 {
					variants(b)
				} else {
					emit(b)
					emit(cat(b, r.Bytes(r.Range(0, 20), nil)))
				}
			}
		}
		// boxes shorter than the fixed part, with and without following bytes
		for _, sz := range []int{8, 10, 12, 15, 16, 20, 35, 36} {
			b := mk(nm, 0)
			if sz > len(b) {
				continue
			}
			b = b[:sz]
			copy(b, u32(uint32(sz)))
			emit(b)
			emit(cat(b, r.Bytes(60, nil)))
		}
	}
	// dref with a lying entry count
	for _, d := range []int{1, -1, 1 << 20} {
		for k := 0; k <= 2; k++ {
			b := box("dref", u32(0), u32(uint32(k+d)), pfxKids(r, k))
			emit(b)
			emit(cat(b, r.Bytes(9, nil)))
		}
	}
	for i := 0; i < n/2; i++ {
		d := mk(names[r.Intn(len(names))], r.Intn(4))
		if r.Bool() {
			d = cat(d, r.Bytes(r.Range(1, 40), nil))
		}
		emit(d)
		m := append([]byte(nil), d...)
		if k := r.Intn(len(m)); k < 4 || k > 7 {
			m[k] ^= byte(1 << uint(r.Intn(8)))
		}
		emit(m)
	}
	return out
}

// M lines for the four encoder pairs: name, Size(), the fixed bytes as the MODEL builds them from the decoded fields, children, both encodings
func pfxEncLine(b mp4.Box) string {
	switch x := b.(type) {
	case *mp4.DrefBox:
		return fmt.Sprintf("pfx\t%x:%d:w2:%d:%d:%d\t-\t%s\t%s", x.Type(), x.Size(), x.Version, x.Flags, x.EntryCount, encBoxes(x.Children), encBoth(x))
	case *mp4.TrepBox:
		return fmt.Sprintf("pfx\t%x:%d:w2:%d:%d:%d\t-\t%s\t%s", x.Type(), x.Size(), x.Version, x.Flags, x.TrackID, encBoxes(x.Children), encBoth(x))
	case *mp4.MetaBox:
		// version/flags word unless it is a QuickTime meta atom (unexported flag): told from Size()
		var kids uint64
		for _, c := range x.Children {
			kids += c.Size()
		}
		return fmt.Sprintf("pfx\t%x:%d:meta:%d:%d:%d\t-\t%s\t%s", x.Type(), x.Size(), x.Size()-8-kids, x.Version, x.Flags, encBoxes(x.Children), encBoth(x))
	case *mp4.WvttBox:
		return fmt.Sprintf("pfx\t%x:%d:wvtt:%d\t-\t%s\t%s", x.Type(), x.Size(), x.DataReferenceIndex, encBoxes(x.Children), encBoth(x))
	case *mp4.AudioSampleEntryBox:
		return fmt.Sprintf("pfx\t%x:%d:ase:%d:%d:%d:%d\t-\t%s\t%s", x.Type(), x.Size(), x.DataReferenceIndex, x.ChannelCount, x.SampleSize, x.SampleRate,
			encBoxes(x.Children), encBoth(x))
	}
	return "-"
}
