package main

import (
	"bytes"
	"encoding/binary"
	"fmt"

	"github.com/Eyevinn/mp4ff/bits"
	"github.com/Eyevinn/mp4ff/mp4"

	"verifharness/hx"
)

// Typed decoding of the AC-3 / Enhanced AC-3 configuration boxes (model: coq/c19/C19Ac3Model.v dac3_decode / dec3_decode;
// encoders C19TreeModel.dac3_payload / dec3_payload).
//   Y <id> 3|e <fields> <payload the real Encode wrote>        model: the payload encoder on the fields
//   D <id> 3|e <payload> <what the real decoders return>       model: the payload decoder on the bytes
// The decoders are called through both entry points (DecodeBoxSR and DecodeBox on an io.Reader); an answer that
// differs between the two is reported inside the observable (the model has one answer).

func boxBytes(name string, payload []byte) []byte {
	b := make([]byte, 8, 8+len(payload))
	binary.BigEndian.PutUint32(b, uint32(8+len(payload)))
	copy(b[4:], name)
	return append(b, payload...)
}

func ac3Show(b mp4.Box) string {
	switch c := b.(type) {
	case *mp4.Dac3Box:
		return fmt.Sprintf("%s.%d.%d", dac3Str(c), c.Reserved, c.InitialZeroes)
	case *mp4.Dec3Box:
		return fmt.Sprintf("%d/%s/%s", c.DataRate, dec3Subs(c), hx.Hex(c.Reserved))
	}
	return "OTHER:" + b.Type()
}

func ac3DecodeObs(name string, payload []byte) string {
	raw := boxBytes(name, payload)
	one := func(f func() (mp4.Box, error)) (obs string) {
		if p := hx.Try(func() {
			b, err := f()
			if err != nil {
				obs = "ERR"
				return
			}
			obs = ac3Show(b)
		}); p != "" {
			return "PANIC"
		}
		return obs
	}
	a := one(func() (mp4.Box, error) { return mp4.DecodeBoxSR(0, bits.NewFixedSliceReader(append([]byte{}, raw...))) })
	b := one(func() (mp4.Box, error) { return mp4.DecodeBox(0, bytes.NewReader(append([]byte{}, raw...))) })
	if a != b {
		return a + "!reader=" + b
	}
	return a
}

func ac3EncodeObs(b mp4.Box) (obs string, payload []byte) {
	var buf bytes.Buffer
	if p := hx.Try(func() {
		if err := b.Encode(&buf); err != nil {
			obs = "ENCERR"
		}
	}); p != "" {
		return "PANIC", nil
	}
	if obs != "" {
		return obs, nil
	}
	if buf.Len() < 8 || uint64(buf.Len()) != b.Size() {
		return "SIZE", nil
	}
	return hx.Hex(buf.Bytes()[8:]), buf.Bytes()[8:]
}

func genDac3(r *hx.Rng, inRange bool) *mp4.Dac3Box {
	d := &mp4.Dac3Box{FSCod: byte(r.Intn(4)), BSID: byte(r.Intn(32)), BSMod: byte(r.Intn(8)), ACMod: byte(r.Intn(8)),
		LFEOn: byte(r.Intn(2)), BitRateCode: byte(r.Intn(32))}
	if !inRange {
		// fields beyond their bit widths are not generated (no valid configuration; what WriteBits does with them is C13's subject)
		switch r.Intn(3) {
		case 0:
			d.Reserved = byte(r.Intn(32))
		case 1:
			d.InitialZeroes = byte(r.Range(1, 4))
		case 2:
			d.Reserved = byte(r.Intn(32))
			d.InitialZeroes = byte(r.Range(1, 40))
		}
	}
	return d
}

func genDec3(r *hx.Rng, inRange bool) *mp4.Dec3Box {
	d := &mp4.Dec3Box{DataRate: uint16(r.Intn(8192))}
	n := r.Range(1, 8)
	if r.Intn(3) == 0 {
		n = r.Range(1, 2)
	}
	for i := 0; i < n; i++ {
		s := mp4.EC3Sub{FSCod: byte(r.Intn(4)), BSID: byte(r.Intn(32)), ASVC: byte(r.Intn(2)), BSMod: byte(r.Intn(8)),
			ACMod: byte(r.Intn(8)), LFEOn: byte(r.Intn(2))}
		if r.Intn(2) == 0 {
			s.NumDepSub = byte(r.Range(1, 15))
			s.ChanLoc = uint16(r.Intn(512))
			if r.Intn(4) == 0 {
				s.ChanLoc = uint16(1) << uint(r.Intn(9))
			}
		}
		if !inRange {
			if r.Intn(3) == 0 && s.NumDepSub == 0 {
				s.ChanLoc = uint16(r.Intn(512)) // next to NumDepSub 0: not written
			}
		}
		d.EC3Subs = append(d.EC3Subs, s)
	}
	d.NumIndSub = uint16(n)
	if !inRange {
		if r.Intn(2) == 0 {
			d.Reserved = r.Bytes(r.Range(1, 5), nil)
		}
	}
	return d
}

var ac3Counts = map[string]int{}

func corrAc3(id *int, r *hx.Rng, n int) {
	dline := func(kind, name string, payload []byte) {
		obs := ac3DecodeObs(name, payload)
		fmt.Fprintf(out, "D\t%d\t%s\t%s\t%s\n", *id, kind, hx.Hex(payload), obs)
		*id++
	}
	both := func(kind, name, fields string, b mp4.Box, cut bool) {
		obs, payload := ac3EncodeObs(b)
		fmt.Fprintf(out, "Y\t%d\t%s\t%s\t%s\n", *id, kind, fields, obs)
		*id++
		if payload == nil {
			return
		}
		dline(kind, name, payload)
		if cut {
			// the payload cut short at every byte, and followed by more bytes
			for k := 0; k < len(payload); k++ {
				dline(kind, name, payload[:k])
			}
			dline(kind, name, append(append([]byte{}, payload...), r.Bytes(r.Range(1, 4), nil)...))
			dline(kind, name, append(r.Bytes(r.Range(1, 3), []byte{0, 0, 0, 1}), payload...))
		}
	}
	// exhaustive small scope: every acmod x lfeon x fscod (dac3); every acmod x lfeon x (no dependent substream | one
	// with each single chan_loc bit) (dec3)
	for ac := 0; ac < 8; ac++ {
		for lfe := 0; lfe < 2; lfe++ {
			for fs := 0; fs < 4; fs++ {
				d := &mp4.Dac3Box{FSCod: byte(fs), BSID: 8, BSMod: byte(ac ^ 5), ACMod: byte(ac), LFEOn: byte(lfe), BitRateCode: byte(10 + fs)}
				both("3", "dac3", dac3Str(d)+".0.0", d, ac == 7)
			}
			for bit := -1; bit < 9; bit++ {
				s := mp4.EC3Sub{FSCod: byte(ac % 3), BSID: 16, BSMod: byte(ac), ACMod: byte(ac), LFEOn: byte(lfe)}
				if bit >= 0 {
					s.NumDepSub = 1
					s.ChanLoc = 1 << uint(bit)
				}
				d := &mp4.Dec3Box{DataRate: uint16(640 + ac), NumIndSub: 1, EC3Subs: []mp4.EC3Sub{s}}
				both("e", "dec3", fmt.Sprintf("%d:%s:-", d.DataRate, dec3Subs(d)), d, bit == 8)
			}
		}
	}
	for i := 0; i < n; i++ {
		inRange := i%3 != 0
		d := genDac3(r, inRange)
		both("3", "dac3", fmt.Sprintf("%s.%d.%d", dac3Str(d), d.Reserved, d.InitialZeroes), d, i%8 == 0)
		e := genDec3(r, inRange)
		both("e", "dec3", fmt.Sprintf("%d:%s:%s", e.DataRate, dec3Subs(e), hx.Hex(e.Reserved)), e, i%8 == 1)
		if len(e.EC3Subs) > 2 {
			ac3Counts["dec3_3plus_substreams"]++
		}
	}
	// malformed stream: arbitrary payloads (any length incl. 0, long zero prefixes around the byte(len-3) wrap of dac3)
	for i := 0; i < n/2; i++ {
		ln := r.Intn(14)
		if i%5 == 0 {
			ln = r.Intn(40)
		}
		p := r.Bytes(ln, nil)
		if i%4 == 0 {
			p = append(make([]byte, r.Intn(4)), p...)
		}
		dline("3", "dac3", p)
		dline("e", "dec3", r.Bytes(ln, nil))
	}
	for _, ln := range []int{255, 256, 258, 259, 260, 261, 515, 600} {
		p := make([]byte, ln)
		dline("3", "dac3", p)
		p = append([]byte{}, p...)
		copy(p[ln-3:], []byte{0x50, 0x3d, 0xc0})
		dline("3", "dac3", p)
		p = append([]byte{}, p...)
		p[ln-4] = 1
		dline("3", "dac3", p)
		if ln > 259 {
			p = make([]byte, ln)
			p[(ln-3)%256] = 0x10 // first byte after the wrapped number of "initial zeroes"
			dline("3", "dac3", p)
		}
	}
}

// checkAc3Decoded: the ac-3 / ec-3 entry e of the DECODED init carries a dac3 / dec3 whose every field (every substream, in
// order, no Reserved bytes, no initial zeroes) is the one supplied to Set{AC3,EC3}Descriptor (theorems
// C19_descriptor_ac3_decoded / C19_descriptor_ec3_decoded); the supplied values were recorded before the call.
func checkAc3Decoded(e mp4.Box, o *op, wit string) {
	site, got := "SetAC3Descriptor", "no ac-3/dac3"
	if o.kind == 'E' {
		site, got = "SetEC3Descriptor", "no ec-3/dec3"
	}
	if a, ok := e.(*mp4.AudioSampleEntryBox); ok {
		if o.kind == '3' && a.Dac3 != nil {
			got = ac3Show(a.Dac3)
		} else if o.kind == 'E' && a.Dec3 != nil {
			got = ac3Show(a.Dec3)
		}
	}
	if got != o.ac3Sup {
		fail(site, "config-decoded", wit, fmt.Sprintf("decoded init: %s, supplied: %s", got, o.ac3Sup))
	}
}
