package main

// Generated parameter sets (the model driver's GEN mode: C15's extracted SPS/PPS serialisers applied to field values
// ranging over the whole syntax) and the oracle that compares EVERY field of a built / decoded codec
// configuration record with the values the parameter sets were generated from.

import (
	"bufio"
	"bytes"
	"fmt"
	"math/bits"
	"os"
	"strconv"
	"strings"

	"github.com/Eyevinn/mp4ff/avc"
	"github.com/Eyevinn/mp4ff/hevc"
	"github.com/Eyevinn/mp4ff/mp4"

	"verifharness/hx"
)

// psSet: parameter sets of one stream + the values they were generated from.
// AVC exp:  width height profile compat level chroma bitDepthLuma-8 bitDepthChroma-8
// HEVC exp: width height space tier idc compat constraint level chroma bitDepthLuma-8 bitDepthChroma-8
type psSet struct {
	sps, pps [][]byte
	exp      []uint64
}

var genAVC, genHEVC []psSet

func parseU64s(s string) []uint64 {
	if s == "-" || s == "" {
		return nil
	}
	out := []uint64{}
	for _, f := range strings.Split(s, ".") {
		v, err := strconv.ParseUint(f, 10, 64)
		if err != nil {
			panic("bad number in expected values: " + s)
		}
		out = append(out, v)
	}
	return out
}

func u64sString(v []uint64) string {
	if len(v) == 0 {
		return "-"
	}
	ss := make([]string, len(v))
	for i, x := range v {
		ss[i] = strconv.FormatUint(x, 10)
	}
	return strings.Join(ss, ".")
}

func hexList(s string) [][]byte {
	if s == "_" {
		return nil
	}
	out := [][]byte{}
	for _, h := range strings.Split(s, ",") {
		out = append(out, hx.UnHex(h))
	}
	return out
}

// loadPool reads the PSA / PSH lines of the model driver's GEN output. The sets are valid parameter sets by
// construction (C15Spec.sps_valid / C15HevcSpec.hsps_valid): they are NOT screened with the real parsers, so a
// parser that rejects one shows up as a descriptor call failing on valid arguments.
func loadPool(path string) {
	f, err := os.Open(path)
	if err != nil {
		fmt.Fprintln(os.Stderr, "cannot read pool:", err)
		os.Exit(2)
	}
	defer f.Close()
	sc := bufio.NewScanner(f)
	sc.Buffer(make([]byte, 1<<20), 1<<26)
	for sc.Scan() {
		p := strings.Split(sc.Text(), "\t")
		if len(p) != 5 || (p[0] != "PSA" && p[0] != "PSH") {
			continue
		}
		s := psSet{sps: hexList(p[2]), pps: hexList(p[3]), exp: parseU64s(p[4])}
		if p[0] == "PSA" && len(s.exp) == 8 && len(s.sps) > 0 {
			genAVC = append(genAVC, s)
		} else if p[0] == "PSH" && len(s.exp) == 11 && len(s.sps) > 0 {
			genHEVC = append(genHEVC, s)
		}
	}
}

// expFromParser: for parameter sets that did not come from the generator (captured pools, replayed witnesses
// without expected values) the expected values are what the real parser says.
func expFromParser(o *op) []uint64 {
	if len(o.sps) == 0 {
		return nil
	}
	if o.kind == 'V' {
		ok, w, h, p, c, l := avcParse(o.sps[0])
		if !ok {
			return nil
		}
		cf, bl, bc := avcParseCfg(o.sps[0])
		if d, known := knownDims[hx.Hex(o.sps[0])]; known { // dimensions known independently of the parser
			w, h = d[0], d[1]
		}
		return []uint64{w, h, p, c, l, cf, bl, bc}
	}
	ok, w, h, cfg := hevcParse(o.sps[0])
	if !ok {
		return nil
	}
	if d, known := knownDims[hx.Hex(o.sps[0])]; known {
		w, h = d[0], d[1]
	}
	return append([]uint64{w, h}, cfg...)
}

func avcPlain(p uint64) bool { return p == 66 || p == 77 || p == 88 }

// expected codec strings, written from ISO/IEC 14496-15 Annex E (not from avc/mime.go, hevc/mime.go)
func wantAVCCodec(name string, x []uint64) string {
	return fmt.Sprintf("%s.%02X%02X%02X", name, x[2], x[3], x[4])
}

func wantHEVCCodec(name string, x []uint64) string {
	s := name + "." + []string{"", "A", "B", "C"}[x[2]&3] + strconv.FormatUint(x[4], 10)
	s += "." + strings.ToUpper(strconv.FormatUint(uint64(bits.Reverse32(uint32(x[5]))), 16))
	if x[3] != 0 {
		s += ".H"
	} else {
		s += ".L"
	}
	s += strconv.FormatUint(x[7], 10)
	c := []byte{byte(x[6] >> 40), byte(x[6] >> 32), byte(x[6] >> 24), byte(x[6] >> 16), byte(x[6] >> 8), byte(x[6])}
	n := 6
	for n > 1 && c[n-1] == 0 { // trailing zero bytes are omitted; the first byte always stays (as hevc/mime.go prints it)
		n--
	}
	for i := 0; i < n; i++ {
		s += "." + strings.ToUpper(strconv.FormatUint(uint64(c[i]), 16))
	}
	return s
}

// checkConfig: the sample entry e (built, or decoded from the encoded init: decoded=true) carries exactly the
// configuration supplied by descriptor op o.
// tkhd: the track header carries the dimensions of this entry (it is the track's last AVC/HEVC descriptor call).
func checkConfig(t *mp4.TrakBox, e mp4.Box, o *op, decoded, tkhd bool, wit string) {
	where := ""
	if decoded {
		where = "-decoded"
	}
	x := o.exp
	if x == nil {
		x = expFromParser(o)
	}
	v, ok := e.(*mp4.VisualSampleEntryBox)
	if !ok || x == nil || v.Type() != o.name {
		fail("SetAVC/HEVCDescriptor", "entry-type"+where, wit, "sample entry has another type than requested")
		return
	}
	if uint64(v.Width) != x[0] || uint64(v.Height) != x[1] || (tkhd && (uint64(t.Tkhd.Width) != x[0]<<16 || uint64(t.Tkhd.Height) != x[1]<<16)) {
		fail("SetAVC/HEVCDescriptor", "dimensions"+where, wit, fmt.Sprintf("entry %dx%d tkhd %x x %x, the SPS was generated for %dx%d", v.Width, v.Height, t.Tkhd.Width, t.Tkhd.Height, x[0], x[1]))
	}
	if o.kind == 'V' {
		if v.AvcC == nil {
			fail("SetAVCDescriptor", "no-avcC"+where, wit, "no avcC")
			return
		}
		d := v.AvcC.DecConfRec
		if uint64(d.AVCProfileIndication) != x[2] || uint64(d.ProfileCompatibility) != x[3] || uint64(d.AVCLevelIndication) != x[4] {
			fail("SetAVCDescriptor", "profile-level"+where, wit, fmt.Sprintf("avcC profile/compatibility/level %d/%d/%d, supplied %d/%d/%d",
				d.AVCProfileIndication, d.ProfileCompatibility, d.AVCLevelIndication, x[2], x[3], x[4]))
		}
		wc, wl, wb := x[5], x[6], x[7]
		if decoded && avcPlain(x[2]) { // not part of the record's syntax for these profiles
			wc, wl, wb = 0, 0, 0
		}
		if uint64(d.ChromaFormat) != wc || uint64(d.BitDepthLumaMinus1) != wl || uint64(d.BitDepthChromaMinus1) != wb || d.NumSPSExt != 0 || d.NoTrailingInfo {
			fail("SetAVCDescriptor", "avcC-chroma-bitdepth"+where, wit, fmt.Sprintf("avcC (profile %d) chroma format %d, bit depths-8 %d/%d, NumSPSExt %d, NoTrailingInfo %v; supplied chroma format %d, bit depths-8 %d/%d",
				d.AVCProfileIndication, d.ChromaFormat, d.BitDepthLumaMinus1, d.BitDepthChromaMinus1, d.NumSPSExt, d.NoTrailingInfo, wc, wl, wb))
		}
		wantS, wantP := o.sps, o.pps
		if !o.incl {
			wantS, wantP = nil, nil
		}
		if !eqNalus(d.SPSnalus, wantS) || !eqNalus(d.PPSnalus, wantP) {
			fail("SetAVCDescriptor", "parameter-sets"+where, wit, "avcC parameter sets differ from those supplied")
		}
		if o.incl {
			got := ""
			if p := hx.Try(func() {
				s, err := avc.ParseSPSNALUnit(d.SPSnalus[0], true)
				if err == nil {
					got = avc.CodecString(o.name, s)
				}
			}); p != "" || got != wantAVCCodec(o.name, x) {
				fail("avc.CodecString", "codec-string"+where, wit, fmt.Sprintf("codec string %q of the sample entry's SPS, expected %q", got, wantAVCCodec(o.name, x)))
			}
		}
		return
	}
	if v.HvcC == nil {
		fail("SetHEVCDescriptor", "no-hvcC"+where, wit, "no hvcC")
		return
	}
	d := v.HvcC.DecConfRec
	tier := uint64(0)
	if d.GeneralTierFlag {
		tier = 1
	}
	got := []uint64{uint64(d.GeneralProfileSpace), tier, uint64(d.GeneralProfileIDC), uint64(d.GeneralProfileCompatibilityFlags),
		d.GeneralConstraintIndicatorFlags, uint64(d.GeneralLevelIDC), uint64(d.ChromaFormatIDC), uint64(d.BitDepthLumaMinus8), uint64(d.BitDepthChromaMinus8)}
	for i := range got {
		if got[i] != x[2+i] {
			fail("SetHEVCDescriptor", "hvcC-config"+where, wit, fmt.Sprintf("hvcC profile space/tier/idc/compatibility/constraints/level/chroma/bit depths %v, supplied %v", got, x[2:]))
			break
		}
	}
	if d.ConfigurationVersion != 1 || d.LengthSizeMinusOne != 3 || d.MinSpatialSegmentationIDC != 0 || d.ParallellismType != 0 || d.AvgFrameRate != 0 ||
		d.ConstantFrameRate != 0 || d.NumTemporalLayers != 0 || d.TemporalIDNested != 0 {
		fail("SetHEVCDescriptor", "config-constants"+where, wit, "hvcC version / length size / default fields")
	}
	type arr struct {
		ty    int
		nalus [][]byte
	}
	want := []arr{}
	if o.incl {
		want = append(want, arr{32, o.vps}, arr{33, o.sps}, arr{34, o.pps})
	}
	if len(o.sei) > 0 {
		want = append(want, arr{39, o.sei})
	}
	okA := len(d.NaluArrays) == len(want)
	for i := 0; okA && i < len(want); i++ {
		a := &d.NaluArrays[i]
		compl := byte(0)
		if o.name == "hvc1" {
			compl = 1
		}
		okA = int(a.NaluType()) == want[i].ty && eqNalus(a.Nalus, want[i].nalus) && a.Complete() == compl
	}
	if !okA {
		fail("SetHEVCDescriptor", "parameter-sets"+where, wit, "hvcC NALU arrays differ from the parameter sets supplied")
	}
	if o.incl {
		gotS := ""
		if p := hx.Try(func() {
			s, err := hevc.ParseSPSNALUnit(d.GetNalusForType(hevc.NALU_SPS)[0])
			if err == nil {
				gotS = hevc.CodecString(o.name, s)
			}
		}); p != "" || gotS != wantHEVCCodec(o.name, x) {
			fail("hevc.CodecString", "codec-string"+where, wit, fmt.Sprintf("codec string %q of the sample entry's SPS, expected %q", gotS, wantHEVCCodec(o.name, x)))
		}
	}
	var buf bytes.Buffer
	if err := d.Encode(&buf); err != nil || uint64(buf.Len()) != d.Size() {
		fail("hevc.DecConfRec.Encode", "size"+where, wit, "hvcC record: Size() differs from the bytes written")
	}
}
