package main

// "fragments created for its track ids decode against it": for every track of every generated init a fragment made by
// CreateFragment(seq, id) with a generated add-history is encoded, decoded together with the ENCODED init and read back
// through the trex that GetTrex(id) finds in the DECODED init (theorems C19_init_trex / C19_fragments_decode /
// C19_fragments_decode_modes / C19_fragments_decode_multi: the model side composes C19_roundtrip with C05's fragment
// theorems).  The expected samples are the ones handed to the Add calls (independent oracle).
import (
	"bytes"
	"fmt"
	"hash/fnv"
	"strings"

	"github.com/Eyevinn/mp4ff/bits"
	"github.com/Eyevinn/mp4ff/mp4"
	"verifharness/hx"
)

// trexInfo: what MvexBox.GetTrex returns on the DECODED init for every track id of the built one
// (corr I lines; the model side evaluates C19FragModel.get_trex on C01's decoding of the model's bytes)
func trexInfo(init *mp4.InitSegment, enc []byte) string {
	if len(init.Moov.Traks) == 0 {
		return ""
	}
	var f *mp4.File
	var err error
	if p := hx.Try(func() { f, err = mp4.DecodeFileSR(bits.NewFixedSliceReader(enc)) }); p != "" || err != nil || f.Init == nil || f.Init.Moov == nil || f.Init.Moov.Mvex == nil {
		return "DECERR"
	}
	parts := []string{}
	for _, t := range init.Moov.Traks {
		x, ok := f.Init.Moov.Mvex.GetTrex(t.Tkhd.TrackID)
		if !ok {
			parts = append(parts, "none")
			continue
		}
		parts = append(parts, fmt.Sprintf("%d:%d:%d:%d:%d", x.TrackID, x.DefaultSampleDescriptionIndex, x.DefaultSampleDuration, x.DefaultSampleSize, x.DefaultSampleFlags))
	}
	return strings.Join(parts, ",")
}

func witRng(wit string, salt uint64) *hx.Rng {
	h := fnv.New64a()
	h.Write([]byte(wit))
	return hx.NewRng(h.Sum64() ^ salt)
}

// genSamples: n samples for track id; decode times consistent with the durations (the hypothesis of C05_roundtrip);
// uniform runs (same duration/size/flags: OptimizeTfhdTrun then moves them into tfhd defaults, which is where a
// non-zero trex default would show) and non-uniform ones
func genSamples(r *hx.Rng, id uint32, n int) []mp4.FullSample {
	uniform := r.Intn(3) == 0
	t := uint64(r.Intn(3)) * (uint64(id)*100000 + uint64(r.Intn(1000)))
	if r.Intn(8) == 0 {
		t += 1 << 32 // version 1 tfdt
	}
	dur := uint32(r.Pick(0, 1, 512, 1024, 3000, 90000))
	size := r.Range(0, 9)
	flags := uint32(r.Pick(0x02000000, 0x01010000, 0, 0x00610000))
	ss := []mp4.FullSample{}
	for j := 0; j < n; j++ {
		if !uniform {
			dur = uint32(r.Pick(0, 1, 512, 1024, 3000, 90000))
			size = r.Range(0, 9)
			flags = uint32(r.Pick(0x02000000, 0x01010000, 0, 0x00610000))
		}
		data := make([]byte, size)
		for k := range data {
			data[k] = byte(uint32(j)*31 + id*7 + uint32(k))
		}
		cto := int32(0)
		if r.Intn(3) == 0 {
			cto = int32(r.Range(-2000, 2000))
		}
		ss = append(ss, mp4.FullSample{Sample: mp4.Sample{Flags: flags, Dur: dur, Size: uint32(size), CompositionTimeOffset: cto}, DecodeTime: t, Data: data})
		t += uint64(dur)
	}
	return ss
}

func decodeInitFrag(enc []byte, frag *mp4.Fragment, tail []byte, wit, what string) *mp4.File {
	var fb bytes.Buffer
	fb.Write(enc)
	var err error
	if p := hx.Try(func() { err = frag.Encode(&fb) }); p != "" || err != nil {
		fail("Fragment.Encode", what+"error", wit, fmt.Sprintf("panic %q err %v", p, err))
		return nil
	}
	fb.Write(tail)
	var ff *mp4.File
	if p := hx.Try(func() { ff, err = mp4.DecodeFile(bytes.NewReader(fb.Bytes())) }); p != "" || err != nil {
		fail("DecodeFile", what+"fragment-decode-fails", wit, fmt.Sprintf("init+fragment: panic %q err %v", p, err))
		return nil
	}
	if ff.Init == nil || ff.Init.Moov == nil || ff.Init.Moov.Mvex == nil || len(ff.Segments) != 1 || len(ff.Segments[0].Fragments) != 1 {
		fail("DecodeFile", what+"fragment-structure", wit, "init+fragment does not decode to an init and one segment with one fragment")
		return nil
	}
	return ff
}

func readBack(ff *mp4.File, id uint32, want []mp4.FullSample, wit, class string) {
	trex, ok := ff.Init.Moov.Mvex.GetTrex(id)
	if !ok {
		fail("MvexBox.GetTrex", "no-trex", wit, fmt.Sprintf("no trex for track %d in the decoded init", id))
		return
	}
	var got []mp4.FullSample
	var err error
	if p := hx.Try(func() { got, err = ff.Segments[0].Fragments[0].GetFullSamples(trex) }); p != "" || err != nil || !sameSamples(got, want) {
		fail("Fragment.GetFullSamples", class, wit, fmt.Sprintf("track %d: samples read back through the decoded init's trex differ from those added (panic %q err %v, %d/%d samples)", id, p, err, len(got), len(want)))
	}
}

func checkFragments(init, dec *mp4.InitSegment, enc []byte, wit string) {
	r := witRng(wit, 0xf4a9)
	ids := []uint32{}
	for _, t := range init.Moov.Traks {
		ids = append(ids, t.Tkhd.TrackID)
	}
	// the trex of every track in the DECODED init is the one CreateTrex built (C19_init_trex)
	if dec.Moov.Mvex == nil || len(dec.Moov.Mvex.Trexs) != len(ids) {
		fail("MvexBox", "trex-count-decoded", wit, "the decoded init does not hold one trex per track")
		return
	}
	for _, id := range ids {
		x, ok := dec.Moov.Mvex.GetTrex(id)
		if !ok {
			fail("MvexBox.GetTrex", "no-trex", wit, fmt.Sprintf("no trex for track %d in the decoded init", id))
			return
		}
		if x.TrackID != id || x.DefaultSampleDescriptionIndex != 1 || x.DefaultSampleDuration != 0 || x.DefaultSampleSize != 0 || x.DefaultSampleFlags != 0 {
			fail("CreateTrex", "trex-defaults", wit, fmt.Sprintf("trex of track %d in the decoded init: id %d, description index %d, default duration/size/flags %d/%d/%d (want %d, 1, 0/0/0)",
				id, x.TrackID, x.DefaultSampleDescriptionIndex, x.DefaultSampleDuration, x.DefaultSampleSize, x.DefaultSampleFlags, id))
		}
	}
	// single-track fragments for every track id
	for _, id := range ids {
		frag, err := mp4.CreateFragment(uint32(r.Range(1, 1000)), id)
		if err != nil {
			fail("CreateFragment", "error", wit, err.Error())
			continue
		}
		want := genSamples(r, id, r.Range(1, 5))
		mode := r.Intn(4) // 0,1: full samples; 2: metadata only (data written by the caller); 3: AddSamples + data
		var tail []byte
		bad := false
		for j, s := range want {
			switch {
			case mode <= 1 && (j+int(id))%2 == 0:
				frag.AddFullSample(s)
			case mode <= 1:
				if err := frag.AddFullSampleToTrack(s, id); err != nil {
					fail("Fragment.AddFullSampleToTrack", "error", wit, err.Error())
					bad = true
				}
				// an addition to a track id that is not the fragment's is refused and changes nothing
				if err := frag.AddFullSampleToTrack(sampleFor(id+1000, j), id+1000); err == nil {
					fail("Fragment.AddFullSampleToTrack", "foreign-id-accepted", wit, "a sample for another track id is accepted")
					bad = true
				}
			case mode == 2:
				if j%2 == 0 {
					frag.AddSample(s.Sample, s.DecodeTime)
				} else if err := frag.AddSampleToTrack(s.Sample, id, s.DecodeTime); err != nil {
					fail("Fragment.AddSampleToTrack", "error", wit, err.Error())
					bad = true
				}
				tail = append(tail, s.Data...)
			}
		}
		if mode == 3 {
			sm := []mp4.Sample{}
			for _, s := range want {
				sm = append(sm, s.Sample)
				tail = append(tail, s.Data...)
			}
			frag.AddSamples(sm, want[0].DecodeTime)
		}
		if bad {
			continue
		}
		ff := decodeInitFrag(enc, frag, tail, wit, "")
		if ff == nil {
			continue
		}
		readBack(ff, id, want, wit, "fragment-samples")
		// through the trex of any other track of the init: nothing
		for _, other := range ids {
			if other == id {
				continue
			}
			if trex, ok := ff.Init.Moov.Mvex.GetTrex(other); ok {
				got, err := ff.Segments[0].Fragments[0].GetFullSamples(trex)
				if err != nil || len(got) != 0 {
					fail("Fragment.GetFullSamples", "fragment-foreign-trex", wit, fmt.Sprintf("fragment of track %d read through the trex of track %d gives %d samples, err %v", id, other, len(got), err))
				}
			}
		}
	}
	// one multi-track fragment over all the track ids, interleaved additions
	if len(ids) >= 2 {
		frag, err := mp4.CreateMultiTrackFragment(uint32(r.Range(1, 1000)), ids)
		if err != nil {
			fail("CreateMultiTrackFragment", "error", wit, err.Error())
			return
		}
		want := map[uint32][]mp4.FullSample{}
		next := map[uint32]int{}
		total := 0
		for _, id := range ids {
			want[id] = genSamples(r, id, r.Range(0, 3))
			total += len(want[id])
		}
		if total == 0 {
			want[ids[0]] = genSamples(r, ids[0], 2)
			total = 2
		}
		for total > 0 {
			id := ids[r.Intn(len(ids))]
			if next[id] >= len(want[id]) {
				continue
			}
			if err := frag.AddFullSampleToTrack(want[id][next[id]], id); err != nil {
				fail("Fragment.AddFullSampleToTrack", "error", wit, err.Error())
				return
			}
			next[id]++
			total--
		}
		ff := decodeInitFrag(enc, frag, nil, wit, "multi-")
		if ff == nil {
			return
		}
		for _, id := range ids {
			readBack(ff, id, want[id], wit, "multi-fragment-samples")
		}
	}
}
