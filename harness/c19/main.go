// C19 harness. Sub-commands:
//   corr   -seed S -n N   op sequences + the implementation state they produce (compared with the Coq model)
//   search -seed S -n N   evaluates the property itself on the implementation
//   replay <ops>          re-evaluates the property on one history (the witness string of a FAIL line)
package main

import (
	"bufio"
	"bytes"
	"flag"
	"fmt"
	"os"
	"strings"

	"github.com/Eyevinn/mp4ff/aac"
	"github.com/Eyevinn/mp4ff/bits"
	"github.com/Eyevinn/mp4ff/mp4"

	"verifharness/hx"
)

var out = bufio.NewWriterSize(os.Stdout, 1<<20)

func main() {
	if len(os.Args) < 2 {
		fmt.Fprintln(os.Stderr, "usage: c19 corr|search -seed S -n N")
		os.Exit(2)
	}
	if os.Args[1] == "replay" && len(os.Args) == 3 {
		rc := replay(os.Args[2])
		out.Flush()
		os.Exit(rc)
	}
	fs := flag.NewFlagSet(os.Args[1], flag.ExitOnError)
	seed := fs.Uint64("seed", 0, "seed")
	n := fs.Int("n", 1000, "number of random histories")
	pool := fs.String("pool", "", "generated parameter sets (GEN output of the model driver)")
	_ = fs.Parse(os.Args[2:])
	if *pool != "" {
		loadPool(*pool)
	}
	defer out.Flush()
	switch os.Args[1] {
	case "corr":
		corr(*seed, *n)
	case "search":
		search(*seed, *n)
	default:
		os.Exit(2)
	}
}

// ------------------------------------------------------------------ corr
// iBudget: number of histories for which the encoded init segment is also emitted (I line: the model's tree of
// the final state, encoded with C01's box encoder, must give the same bytes)
var iBudget = 0

func emit(id *int, ops []*op) {
	init, ocs := runOps(ops)
	os := opsString(ops)
	fmt.Fprintf(out, "S\t%d\t%s\t%s\n", *id, os, stateString(init, ocs))
	*id++
	if iBudget > 0 && !strings.Contains(ocs, "p") {
		iBudget--
		var buf bytes.Buffer
		obs := ""
		if p := hx.Try(func() {
			if err := init.Encode(&buf); err != nil {
				obs = "ENCERR"
			}
		}); p != "" {
			obs = "PANIC"
		}
		if obs == "" {
			obs = fmt.Sprintf("%d|%s|%s", init.Size(), hx.Hex(buf.Bytes()), trexInfo(init, buf.Bytes()))
		}
		fmt.Fprintf(out, "I\t%d\t%s\t%s\n", *id, os, obs)
		*id++
	}
}

func exhaustiveHistories() [][]*op {
	hs := [][]*op{{}}
	all := append(append(append([]string{}, validMedia...), otherMedia...), badMedia...)
	// every media type x every language, one track
	for _, mt := range all {
		for _, l := range langs {
			hs = append(hs, []*op{{kind: 'A', ts: 90000, mt: mt, lang: l}})
		}
	}
	for _, l := range validLangs {
		hs = append(hs, []*op{{kind: 'A', ts: 1000, mt: "audio", lang: l}})
	}
	// every pair of media types
	for _, a := range all {
		for _, b := range all {
			hs = append(hs, []*op{{kind: 'A', ts: 1, mt: a, lang: "en"}, {kind: 'A', ts: 2, mt: b, lang: "swe"}})
		}
	}
	return hs
}

func corr(seed uint64, n int) {
	id := 0
	iBudget = 1 << 30
	for _, h := range exhaustiveHistories() {
		emit(&id, h)
	}
	// every AAC object type x standard frequency; every acmod x lfeon
	for _, ot := range []byte{2, 5, 29, 1} {
		for _, f := range append(append([]int{}, aacFreqs...), 44000, 0) {
			emit(&id, []*op{{kind: 'A', ts: uint32(f), mt: "audio", lang: "en"}, {kind: 'C', k: 0, objType: ot, freq: f}})
		}
	}
	for ac := 0; ac < 8; ac++ {
		for lfe := 0; lfe < 2; lfe++ {
			for fs := 0; fs < 4; fs++ {
				emit(&id, []*op{{kind: 'A', ts: 48000, mt: "audio", lang: "en"},
					{kind: '3', k: 0, dac3: &mp4.Dac3Box{FSCod: byte(fs), BSID: 8, ACMod: byte(ac), LFEOn: byte(lfe), BitRateCode: 10}}})
			}
		}
	}
	// every sample entry name (valid and not) x includePS x SEI for AVC and HEVC
	for _, nm := range []string{"avc1", "avc3", "avc2", "hvc1", "hev1", "hvc2", ""} {
		for _, incl := range []bool{true, false} {
			emit(&id, []*op{{kind: 'A', ts: 90000, mt: "video", lang: "und"},
				{kind: 'V', k: 0, name: nm, sps: [][]byte{unhex(avcSPSPool[0])}, pps: [][]byte{unhex(avcPPSPool[0])}, incl: incl}})
			for _, sei := range [][][]byte{nil, {unhex(hevcSEIPool[0])}} {
				emit(&id, []*op{{kind: 'A', ts: 90000, mt: "video", lang: "und"},
					{kind: 'H', k: 0, name: nm, vps: [][]byte{unhex(hevcVPSPool[0])}, sps: [][]byte{unhex(hevcSPSPool[0])}, pps: [][]byte{unhex(hevcPPSPool[0])}, sei: sei, incl: incl}})
			}
		}
	}
	for _, h := range poolHistories() {
		emit(&id, h)
	}
	g := &gen{r: hx.NewRng(seed)}
	iBudget = n / 4
	for i := 0; i < n; i++ {
		emit(&id, g.history(true))
	}
	corrExtra(&id, hx.NewRng(seed^0xe1), n/4)
	corrRecords(&id, hx.NewRng(seed^0x4ec), n/2)
	corrAc3(&id, hx.NewRng(seed^0xac3), n/4)
	// malformed / out-of-scope stream
	g2 := &gen{r: hx.NewRng(seed ^ 0xc19c19)}
	iBudget = n / 8
	for i := 0; i < n; i++ {
		emit(&id, g2.history(false))
	}
}

// poolHistories: every generated parameter set x every valid (sample entry name, includePS) combination
func poolHistories() [][]*op {
	hs := [][]*op{}
	for i := range genAVC {
		set := &genAVC[i]
		for _, c := range []struct {
			nm   string
			incl bool
		}{{"avc1", true}, {"avc3", true}, {"avc3", false}} {
			hs = append(hs, []*op{{kind: 'A', ts: 90000, mt: "video", lang: "und"},
				{kind: 'V', k: 0, name: c.nm, sps: set.sps, pps: set.pps, incl: c.incl, exp: set.exp}})
		}
	}
	for i := range genHEVC {
		set := &genHEVC[i]
		for j, c := range []struct {
			nm   string
			incl bool
		}{{"hvc1", true}, {"hev1", true}, {"hev1", false}} {
			var sei [][]byte
			if (i+j)%3 == 0 {
				sei = [][]byte{unhex(hevcSEIPool[i%len(hevcSEIPool)])}
			}
			hs = append(hs, []*op{{kind: 'A', ts: 90000, mt: "video", lang: "und"},
				{kind: 'H', k: 0, name: c.nm, vps: [][]byte{unhex(hevcVPSPool[i%len(hevcVPSPool)])}, sps: set.sps, pps: set.pps, sei: sei, incl: c.incl, exp: set.exp}})
		}
	}
	return hs
}

// ------------------------------------------------------------------ search
var evals int
var failed = map[string]bool{}

func fail(site, class, witness, desc string) {
	key := site + "/" + class
	if failed[key] {
		return
	}
	failed[key] = true
	fmt.Fprintf(out, "FAIL\t%s\t%s\t%s\t%s\n", site, class, witness, strings.ReplaceAll(desc, "\t", " "))
}

// independent specification table: media type -> handler type, media header box
var specMedia = map[string][2]string{
	"video": {"vide", "vmhd"}, "audio": {"soun", "smhd"},
	"subtitle": {"subt", "sthd"}, "subtitles": {"subt", "sthd"}, "stpp": {"subt", "sthd"},
	"text": {"text", "nmhd"}, "wvtt": {"text", "nmhd"},
}

func isLower3(s string) bool {
	if len(s) != 3 {
		return false
	}
	for i := 0; i < 3; i++ {
		if s[i] < 'a' || s[i] > 'z' {
			return false
		}
	}
	return true
}

func infoDump(i *mp4.InitSegment) string {
	var b bytes.Buffer
	_ = i.Info(&b, "all:1", "", "  ")
	return b.String()
}

func eqNalus(a, b [][]byte) bool {
	if len(a) != len(b) {
		return false
	}
	for i := range a {
		if !bytes.Equal(a[i], b[i]) {
			return false
		}
	}
	return true
}

var ac3Chans = []int{2, 1, 2, 3, 3, 4, 4, 5}
var ac3Rates = []int{48000, 44100, 32000}

func popcountPairs(chanLoc uint16) int {
	// Table F.6.1: bits 0,1,4,5,6 are channel pairs, 2,3,7,8 single channels
	n := 0
	for i, w := range []int{2, 2, 1, 1, 2, 2, 2, 1, 1} {
		if chanLoc&(1<<uint(i)) != 0 {
			n += w
		}
	}
	return n
}

// checkStructure: the invariant on a (built or decoded) init with the tracks given by adds.
func checkStructure(init *mp4.InitSegment, adds []*op, wit, where string) {
	moov := init.Moov
	n := len(adds)
	if len(moov.Traks) != n {
		fail("AddEmptyTrack", "track-count"+where, wit, fmt.Sprintf("%d traks for %d AddEmptyTrack calls", len(moov.Traks), n))
		return
	}
	if moov.Mvex == nil || len(moov.Mvex.Trexs) != n {
		fail("AddEmptyTrack", "trex-count"+where, wit, "number of trex boxes differs from the number of tracks")
		return
	}
	maxID := uint32(0)
	for i, t := range moov.Traks {
		id := t.Tkhd.TrackID
		if id != uint32(i+1) {
			fail("AddEmptyTrack", "track-id"+where, wit, fmt.Sprintf("track %d has id %d", i, id))
		}
		if moov.Mvex.Trexs[i].TrackID != id {
			fail("AddEmptyTrack", "trex-id"+where, wit, fmt.Sprintf("trex %d has id %d, track id %d", i, moov.Mvex.Trexs[i].TrackID, id))
		}
		if moov.Mvex.Trexs[i].DefaultSampleDescriptionIndex != 1 {
			fail("CreateTrex", "sample-description-index"+where, wit, "trex default sample description index is not 1")
		}
		if id > maxID {
			maxID = id
		}
	}
	if moov.Mvhd.NextTrackID <= maxID {
		fail("AddEmptyTrack", "next-track-id"+where, wit, fmt.Sprintf("next track id %d <= max id %d", moov.Mvhd.NextTrackID, maxID))
	}
	// traks contiguous in the moov children, in Traks order; exactly one mvhd (first) and one mvex
	first, last, cnt := -1, -1, 0
	for i, c := range moov.Children {
		if t, ok := c.(*mp4.TrakBox); ok {
			if first < 0 {
				first = i
			}
			last = i
			if cnt < n && t != moov.Traks[cnt] {
				fail("MoovBox.AddChild", "trak-order"+where, wit, "moov children list the traks in another order than Traks")
			}
			cnt++
		}
	}
	if cnt != n || (n > 0 && last-first+1 != n) {
		fail("MoovBox.AddChild", "trak-not-contiguous"+where, wit, "trak boxes are not contiguous among the moov children")
	}
	if len(moov.Children) != n+2 || moov.Children[0].Type() != "mvhd" {
		fail("MoovBox.AddChild", "moov-children"+where, wit, "moov children are not mvhd, mvex and the traks")
	}
	for i, t := range moov.Traks {
		a := adds[i]
		sp := specMedia[a.mt]
		if got, want := shape(t), wantShape(a, t); got != want {
			fail("CreateEmptyTrak", "trak-tree-shape"+where, wit, fmt.Sprintf("trak tree %s, expected %s", got, want))
		}
		if t.Mdia.Hdlr.HandlerType != sp[0] {
			fail("CreateEmptyTrak", "handler-type"+where, wit, fmt.Sprintf("media type %s has handler %s, expected %s", a.mt, t.Mdia.Hdlr.HandlerType, sp[0]))
		}
		// track header of the media type: volume 1.0 (8.8 fixed point) for audio, 0 otherwise (14496-12 8.3.2; C19Spec's table)
		wantVol := 0
		if sp[0] == "soun" {
			wantVol = 0x0100
		}
		if int(t.Tkhd.Volume) != wantVol {
			fail("CreateEmptyTrak", "tkhd-volume"+where, wit, fmt.Sprintf("media type %s has track volume %#x, expected %#x", a.mt, int(t.Tkhd.Volume), wantVol))
		}
		mh := t.Mdia.Minf.Children[0].Type()
		if mh != sp[1] {
			fail("CreateEmptyTrak", "media-header"+where, wit, fmt.Sprintf("media type %s has media header %s, expected %s", a.mt, mh, sp[1]))
		}
		nmh := 0
		for _, c := range t.Mdia.Minf.Children {
			switch c.Type() {
			case "vmhd", "smhd", "sthd", "nmhd":
				nmh++
			}
		}
		if nmh != 1 {
			fail("CreateEmptyTrak", "media-header-count"+where, wit, "not exactly one media header box")
		}
		if t.Mdia.Mdhd.Timescale != a.ts {
			fail("CreateEmptyTrak", "timescale"+where, wit, "mdhd timescale differs from the one supplied")
		}
		if isLower3(a.lang) {
			if t.Mdia.Mdhd.GetLanguage() != a.lang || t.Mdia.Elng != nil {
				fail("CreateEmptyTrak", "language-3"+where, wit, fmt.Sprintf("3-letter language %s: mdhd %s, elng present %v", a.lang, t.Mdia.Mdhd.GetLanguage(), t.Mdia.Elng != nil))
			}
		} else if len(a.lang) != 3 {
			if t.Mdia.Mdhd.GetLanguage() != "und" || t.Mdia.Elng == nil || t.Mdia.Elng.Language != a.lang {
				el := "<nil>"
				if t.Mdia.Elng != nil {
					el = t.Mdia.Elng.Language
				}
				fail("CreateEmptyTrak", "language-elng"+where, wit, fmt.Sprintf("language %s: mdhd %s, elng %s", a.lang, t.Mdia.Mdhd.GetLanguage(), el))
			}
		}
		// every sample entry refers to the single dref entry
		if len(t.Mdia.Minf.Dinf.Dref.Children) != 1 {
			fail("CreateEmptyTrak", "dref-count"+where, wit, "dref does not have exactly one entry")
		}
		for _, e := range t.Mdia.Minf.Stbl.Stsd.Children {
			dri := uint16(0xffff)
			switch b := e.(type) {
			case *mp4.VisualSampleEntryBox:
				dri = b.DataReferenceIndex
			case *mp4.AudioSampleEntryBox:
				dri = b.DataReferenceIndex
			case *mp4.WvttBox:
				dri = b.DataReferenceIndex
			case *mp4.StppBox:
				dri = b.DataReferenceIndex
			}
			if dri != 1 {
				fail("Set"+e.Type()+"Descriptor", "data-reference-index"+where, wit, fmt.Sprintf("%s sample entry has data reference index %d with one dref entry", e.Type(), dri))
			}
		}
	}
}

// checkDescriptor: the last sample entry of track o.k equals what o supplied.
func checkDescriptor(init *mp4.InitSegment, o *op, wit string) {
	t := init.Moov.Traks[o.k]
	stsd := t.Mdia.Minf.Stbl.Stsd
	if len(stsd.Children) == 0 {
		fail("Set...Descriptor", "no-sample-entry", wit, "descriptor call returned nil but no sample entry was added")
		return
	}
	e := stsd.Children[len(stsd.Children)-1]
	switch o.kind {
	case 'V', 'H':
		checkConfig(t, e, o, false, true, wit)
	case 'C':
		checkAAC(e, o, wit, "")
	case '3':
		a, ok := e.(*mp4.AudioSampleEntryBox)
		if !ok || a.Type() != "ac-3" || a.Dac3 == nil {
			fail("SetAC3Descriptor", "entry-type", wit, "no ac-3/dac3")
			return
		}
		if *a.Dac3 != *o.dac3 {
			fail("SetAC3Descriptor", "dac3-content", wit, "dac3 differs from the one supplied")
		}
		want := ac3Chans[o.dac3.ACMod] + int(o.dac3.LFEOn)
		if int(a.ChannelCount) != want || int(a.SampleRate) != ac3Rates[o.dac3.FSCod] || a.SampleSize != 16 {
			fail("SetAC3Descriptor", "entry-fields", wit, fmt.Sprintf("ac-3 entry %d ch %d Hz, expected %d ch %d Hz", a.ChannelCount, a.SampleRate, want, ac3Rates[o.dac3.FSCod]))
		}
	case 'E':
		a, ok := e.(*mp4.AudioSampleEntryBox)
		if !ok || a.Type() != "ec-3" || a.Dec3 == nil {
			fail("SetEC3Descriptor", "entry-type", wit, "no ec-3/dec3")
			return
		}
		if a.Dec3.DataRate != o.dec3.DataRate || len(a.Dec3.EC3Subs) != len(o.dec3.EC3Subs) {
			fail("SetEC3Descriptor", "dec3-content", wit, "dec3 differs from the one supplied")
		}
		s := o.dec3.EC3Subs[0]
		want := ac3Chans[s.ACMod] + int(s.LFEOn)
		if s.NumDepSub > 0 {
			want += popcountPairs(s.ChanLoc)
		}
		if int(a.ChannelCount) != want || int(a.SampleRate) != ac3Rates[s.FSCod] || a.SampleSize != 16 {
			fail("SetEC3Descriptor", "entry-fields", wit, fmt.Sprintf("ec-3 entry %d ch %d Hz, expected %d ch %d Hz", a.ChannelCount, a.SampleRate, want, ac3Rates[s.FSCod]))
		}
	case 'W':
		w, ok := e.(*mp4.WvttBox)
		want := o.s1
		if want == "" {
			want = "WEBVTT"
		}
		if !ok || w.VttC == nil || w.VttC.Config != want {
			fail("SetWvttDescriptor", "config", wit, "vttC config differs from the one supplied")
		}
	case 'T':
		s, ok := e.(*mp4.StppBox)
		want := o.s1
		if want == "" {
			want = "http://www.w3.org/ns/ttml"
		}
		if !ok || s.Namespace != want || s.SchemaLocation != o.s2 || s.AuxiliaryMimeTypes != o.s3 {
			fail("SetStppDescriptor", "content", wit, "stpp strings differ from those supplied")
		}
	}
}

// checkAAC: the mp4a entry e (of the built init, or with suffix "-decoded" of the DECODED init) carries in its typed esds
// (ES descriptor -> DecoderConfigDescriptor -> DecSpecificInfo) an AudioSpecificConfig that reads back as the configuration
// supplied to SetAACDescriptor (theorems C19_descriptor_aac_typed / C19_decoded_init_aac)
func checkAAC(e mp4.Box, o *op, wit, sfx string) {
	a, ok := e.(*mp4.AudioSampleEntryBox)
	if !ok || a.Type() != "mp4a" || a.Esds == nil || a.Esds.DecConfigDescriptor == nil || a.Esds.DecConfigDescriptor.DecSpecificInfo == nil {
		fail("SetAACDescriptor", "entry-type"+sfx, wit, "no mp4a/esds with a DecSpecificInfo")
		return
	}
	if sfx != "" && (a.Esds.EsID != 1 || a.Esds.DecConfigDescriptor.ObjectType != 0x40 || a.Esds.DecConfigDescriptor.StreamType != 0x15 ||
		a.Esds.SLConfigDescriptor == nil || a.Esds.SLConfigDescriptor.ConfigValue != 2) {
		fail("SetAACDescriptor", "esds-tree"+sfx, wit, "decoded esds: ES id / object type 0x40 / stream type 0x15 / SLConfig 2 differ")
	}
	asc, err := aac.DecodeAudioSpecificConfig(bytes.NewReader(a.Esds.DecConfigDescriptor.DecSpecificInfo.DecConfig))
	if err != nil {
		fail("SetAACDescriptor", "asc-undecodable"+sfx, wit, "AudioSpecificConfig in esds does not decode: "+err.Error())
		return
	}
	wantCh := 2
	if o.objType == aac.HEAACv2 {
		wantCh = 1
	}
	if asc.ObjectType != o.objType || asc.SamplingFrequency != o.freq || int(asc.ChannelConfiguration) != wantCh {
		fail("SetAACDescriptor", "asc-content"+sfx, wit, fmt.Sprintf("ASC says type %d freq %d ch %d", asc.ObjectType, asc.SamplingFrequency, asc.ChannelConfiguration))
	}
	if (o.objType != aac.AAClc) != asc.SBRPresentFlag || (o.objType == aac.HEAACv2) != asc.PSPresentFlag ||
		(o.objType != aac.AAClc && asc.ExtensionFrequency != 2*o.freq) {
		fail("SetAACDescriptor", "asc-extension"+sfx, wit, "SBR/PS/extension frequency differ from the object type supplied")
	}
	if int(a.ChannelCount) != wantCh || a.SampleSize != 16 {
		fail("SetAACDescriptor", "entry-channels"+sfx, wit, "mp4a channel count / sample size")
	}
	if sfx == "" && int(a.SampleRate) != o.freq {
		fail("SetAACDescriptor", "samplerate-wraps-uint16", wit, fmt.Sprintf("mp4a sample rate %d for sampling frequency %d", a.SampleRate, o.freq))
	}
}

func sampleFor(id uint32, j int) mp4.FullSample {
	data := []byte{byte(id), byte(j), 0xde, 0xad, byte(id * 7)}
	data = data[:3+int(id+uint32(j))%3]
	return mp4.FullSample{
		Sample:     mp4.Sample{Flags: 0x02000000 + uint32(j)*0x01010000, Dur: 1000 + id, Size: uint32(len(data)), CompositionTimeOffset: int32(j) * 5},
		DecodeTime: uint64(id)*100000 + uint64(j)*uint64(1000+id),
		Data:       data,
	}
}

func sameSamples(got []mp4.FullSample, want []mp4.FullSample) bool {
	if len(got) != len(want) {
		return false
	}
	for i := range got {
		if got[i].Sample != want[i].Sample || got[i].DecodeTime != want[i].DecodeTime || !bytes.Equal(got[i].Data, want[i].Data) {
			return false
		}
	}
	return true
}

// checkRoundTrip: encode, decode to an equal tree, fragmented init, fragments decode against it.
func checkRoundTrip(init *mp4.InitSegment, adds []*op, descs [][]*op, wit string) {
	var buf bytes.Buffer
	var err error
	if p := hx.Try(func() { err = init.Encode(&buf) }); p != "" || err != nil {
		fail("InitSegment.Encode", "encode-fails", wit, fmt.Sprintf("panic %q err %v", p, err))
		return
	}
	enc := buf.Bytes()
	if uint64(len(enc)) != init.Size() {
		fail("InitSegment.Encode", "size", wit, "Size() differs from the number of bytes written")
	}
	checkEncodeTwice(init, enc, wit)
	sw := bits.NewFixedSliceWriter(int(init.Size()))
	if p := hx.Try(func() { err = init.EncodeSW(sw) }); p != "" || err != nil || !bytes.Equal(sw.Bytes(), enc) {
		fail("InitSegment.EncodeSW", "differs-from-encode", wit, fmt.Sprintf("EncodeSW differs from Encode (panic %q err %v)", p, err))
	}
	if len(adds) > 0 {
		var fsr *mp4.File
		if p := hx.Try(func() { fsr, err = mp4.DecodeFileSR(bits.NewFixedSliceReader(enc)) }); p != "" || err != nil || fsr.Init == nil {
			fail("DecodeFileSR", "decode-fails", wit, fmt.Sprintf("decoding the encoded init: panic %q err %v", p, err))
		} else if !fsr.IsFragmented() || infoDump(fsr.Init) != infoDump(init) {
			fail("DecodeFileSR", "tree-differs", wit, "DecodeFileSR of the encoded init: not fragmented or another Info dump")
		}
	}
	if len(adds) == 0 {
		// no track: not an init segment for any track id. DecodeFile refuses a moov without trak (error);
		// the tree round trip is evaluated at box level.
		r := bytes.NewReader(enc)
		pos := uint64(0)
		var re bytes.Buffer
		for pos < uint64(len(enc)) {
			var b mp4.Box
			if p := hx.Try(func() { b, err = mp4.DecodeBox(pos, r) }); p != "" || err != nil {
				fail("DecodeBox", "decode-fails", wit, fmt.Sprintf("panic %q err %v", p, err))
				return
			}
			pos += b.Size()
			_ = b.Encode(&re)
		}
		if !bytes.Equal(re.Bytes(), enc) {
			fail("DecodeBox", "reencode-differs", wit, "re-encoding the decoded empty init gives other bytes")
		}
		return
	}
	var f *mp4.File
	if p := hx.Try(func() { f, err = mp4.DecodeFile(bytes.NewReader(enc)) }); p != "" || err != nil {
		fail("DecodeFile", "decode-fails", wit, fmt.Sprintf("decoding the encoded init: panic %q err %v", p, err))
		return
	}
	if !f.IsFragmented() || f.Init == nil || f.Init.Moov == nil {
		fail("File.AddChild", "not-fragmented-init", wit, "the encoded init is not recognised as a fragmented init")
		return
	}
	if infoDump(f.Init) != infoDump(init) {
		fail("DecodeFile", "tree-differs", wit, "Info dump of the decoded init differs from the built one")
	}
	var re bytes.Buffer
	if err := f.Init.Encode(&re); err != nil || !bytes.Equal(re.Bytes(), enc) {
		fail("DecodeFile", "reencode-differs", wit, "re-encoding the decoded init gives other bytes")
	}
	checkStructure(f.Init, adds, wit, "-decoded")
	// every sample entry of the decoded init carries the configuration supplied by the call that created it
	for i, t := range f.Init.Moov.Traks {
		es := t.Mdia.Minf.Stbl.Stsd.Children
		if i >= len(descs) || len(es) != len(descs[i]) {
			fail("DecodeFile", "entry-count-decoded", wit, "number of decoded sample entries differs from the number of successful descriptor calls")
			continue
		}
		lastVisual := -1
		for j := range es {
			if k := descs[i][j].kind; k == 'V' || k == 'H' {
				lastVisual = j
			}
		}
		for j, e := range es {
			if o := descs[i][j]; o.kind == 'V' || o.kind == 'H' {
				checkConfig(t, e, o, true, j == lastVisual, wit)
			} else if o.kind == 'C' {
				checkAAC(e, o, wit, "-decoded")
			} else if o.kind == '3' || o.kind == 'E' {
				checkAc3Decoded(e, o, wit)
			}
		}
	}
	canonAvcC = true
	sDec, sBuilt := stateString(f.Init, ""), stateString(init, "")
	canonAvcC = false
	if sDec != sBuilt {
		fail("DecodeFile", "state-differs", wit, "projected state of the decoded init differs from the built one")
	}
	checkFragments(init, f.Init, enc, wit)
}

func evalHistory(ops []*op) {
	evals++
	wit := opsString(ops)
	init := mp4.CreateEmptyInit()
	adds := []*op{}
	descs := [][]*op{} // per track: the successful descriptor calls, in order
	for _, o := range ops {
		hygieneFail = ""
		oc := apply(init, o)
		if hygieneFail != "" {
			fail(hygieneFail, "writes-into-argument", wit, "op "+o.String()+" changed a NAL unit it was given or the bytes behind it (spare capacity of the caller's slice)")
		}
		if oc == 'p' {
			fail("AddEmptyTrack/Set...Descriptor", "panic-on-valid-arguments", wit, "op "+o.String()+" panics")
			return
		}
		if o.kind == 'A' {
			adds = append(adds, o)
			descs = append(descs, nil)
			checkStructure(init, adds, wit, "")
		} else if oc == 'e' {
			fail("Set...Descriptor", "error-on-valid-arguments", wit, "op "+o.String()+" returns an error")
		} else {
			checkDescriptor(init, o, wit)
			descs[o.k] = append(descs[o.k], o)
		}
	}
	checkStructure(init, adds, wit, "")
	checkRoundTrip(init, adds, descs, wit)
}

func search(seed uint64, n int) {
	// exhaustive small scope over the valid arguments
	evalHistory(nil)
	for _, mt := range validMedia {
		for _, l := range validLangs {
			evalHistory([]*op{{kind: 'A', ts: 90000, mt: mt, lang: l}})
		}
	}
	for _, a := range validMedia {
		for _, b := range validMedia {
			evalHistory([]*op{{kind: 'A', ts: 1, mt: a, lang: "en"}, {kind: 'A', ts: 2, mt: b, lang: "swe"}})
		}
	}
	for _, ot := range []byte{2, 5, 29} {
		for _, f := range aacFreqs {
			evalHistory([]*op{{kind: 'A', ts: uint32(f), mt: "audio", lang: "en"}, {kind: 'C', k: 0, objType: ot, freq: f}})
		}
	}
	g := &gen{r: hx.NewRng(seed + 1)}
	// every SPS of the pools x every valid (sample entry name, includePS) combination (x with/without SEI for HEVC)
	for _, sp := range avcSPSPool {
		for _, c := range []struct {
			nm   string
			incl bool
		}{{"avc1", true}, {"avc3", true}, {"avc3", false}} {
			evalHistory([]*op{{kind: 'A', ts: 90000, mt: "video", lang: "und"},
				{kind: 'V', k: 0, name: c.nm, sps: [][]byte{unhex(sp)}, pps: g.nalus(avcPPSPool, true), incl: c.incl}})
		}
	}
	for _, sp := range hevcSPSPool {
		for _, c := range []struct {
			nm   string
			incl bool
		}{{"hvc1", true}, {"hev1", true}, {"hev1", false}} {
			for _, sei := range [][][]byte{nil, {unhex(hevcSEIPool[0])}, {unhex(hevcSEIPool[1]), unhex(hevcSEIPool[0])}} {
				evalHistory([]*op{{kind: 'A', ts: 90000, mt: "video", lang: "und"},
					{kind: 'H', k: 0, name: c.nm, vps: g.nalus(hevcVPSPool, true), sps: [][]byte{unhex(sp)}, pps: g.nalus(hevcPPSPool, true), sei: sei, incl: c.incl}})
			}
		}
	}
	for _, h := range poolHistories() {
		evalHistory(h)
	}
	var prev []*op
	g3 := &gen{r: hx.NewRng(seed ^ 0x3c19)}
	for i := 0; i < n; i++ {
		h := g.history(true)
		evalHistory(h)
		// hidden state between calls (hygiene.go, class 3): every 4th history is also built interleaved with its
		// predecessor or with an out-of-scope history (failing calls) on a second InitSegment
		if i%4 == 3 {
			if i%8 == 3 {
				checkInterleaved(h, g3.history(false))
			} else {
				checkInterleaved(h, prev)
			}
		}
		prev = h
	}
	outOfScope()
	fmt.Fprintf(out, "EVALS\t%d\n", evals)
}

// shape renders the box tree of a trak down to (not including) the sample entries' children.
func shape(b mp4.Box) string {
	s := b.Type()
	if b.Type() == "stsd" {
		st := b.(*mp4.StsdBox)
		names := []string{}
		for _, c := range st.Children {
			names = append(names, c.Type())
		}
		return "stsd{" + strings.Join(names, " ") + "}"
	}
	if c, ok := b.(mp4.ContainerBox); ok {
		parts := []string{}
		for _, ch := range c.GetChildren() {
			parts = append(parts, shape(ch))
		}
		s += "{" + strings.Join(parts, " ") + "}"
	} else if d, ok := b.(*mp4.DrefBox); ok {
		parts := []string{}
		for _, ch := range d.Children {
			parts = append(parts, ch.Type())
		}
		s += "{" + strings.Join(parts, " ") + "}"
	}
	return s
}

// wantShape: the tree CreateEmptyTrak documents, with the table's media header, elng only for non-3-byte tags,
// and the sample entries in call order (names taken from the trak: their content is checked by checkDescriptor).
func wantShape(a *op, t *mp4.TrakBox) string {
	elng := ""
	if len(a.lang) != 3 {
		elng = "elng "
	}
	names := []string{}
	for _, c := range t.Mdia.Minf.Stbl.Stsd.Children {
		names = append(names, c.Type())
	}
	return "trak{tkhd mdia{mdhd hdlr " + elng + "minf{" + specMedia[a.mt][1] + " dinf{dref{url }} stbl{stsd{" + strings.Join(names, " ") + "} stts stsc stsz stco}}}}"
}
