// C19 harness: cross-cutting hygiene oracles (not specific to init segments; see reports/hygiene-B.md).
//
//  1. ALIASING OF ARGUMENTS. The parameter-set lists given to Set{AVC,HEVC}Descriptor are caller-owned: nothing in the doc
//     comments says that the library keeps them, and callers routinely hand over sub-slices of a sample / read buffer that is
//     re-used for the next access unit. `apply` therefore passes PRIVATE copies (ownNalus) and overwrites them - the bytes, the
//     spare capacity behind them and the entries of the outer list - as soon as the call has returned (scribbleNalus). Everything
//     the harness reads afterwards (state projection of corr, checkDescriptor, Encode, the decoded init) then shows whether what
//     "was set" still depends on the caller's memory. Not demanded: Dac3Box / Dec3Box pointers given to Set{AC3,EC3}Descriptor (a
//     Box handed over becomes the child of the sample entry: that IS the documented effect); strings (immutable in Go);
//     SetAACDescriptor takes two scalars.
//  2. WRITES BEYOND len. Every NAL unit copy is a sub-slice with guard bytes behind it (same backing array): a callee appending
//     to / normalising a NAL unit in place would clobber them. Checked after the call, before the scribble.
//  3. HIDDEN STATE BETWEEN CALLS. checkInterleaved builds two histories on two InitSegments with their calls alternating
//     (A1 B1 A2 B2 ...) and compares both results (bytes of Encode + state projection) with the same histories built one after
//     the other. The partner history is often an out-of-scope one (calls that return errors or panic): a failed call on one
//     init must not influence the other.
//  4. ENCODE-TIME MUTATION / SPARE ROOM. checkEncodeTwice: a second Encode gives the same bytes, and EncodeSW into a writer
//     with spare room writes exactly Size() bytes and leaves the spare room untouched.
package main

import (
	"bytes"
	"fmt"

	"github.com/Eyevinn/mp4ff/bits"
	"github.com/Eyevinn/mp4ff/mp4"

	"verifharness/hx"
)

const guardLen = 8
const guardByte = 0xa5

// ownNalus: a deep private copy of l; every unit is buf[:len] of its own buffer with guardLen guard bytes behind it.
// A nil list stays nil (the API distinguishes "no list").
func ownNalus(l [][]byte) [][]byte {
	if l == nil {
		return nil
	}
	out := make([][]byte, len(l), len(l)+2)
	for i, n := range l {
		buf := make([]byte, len(n)+guardLen)
		copy(buf, n)
		for j := len(n); j < len(buf); j++ {
			buf[j] = guardByte
		}
		out[i] = buf[:len(n)]
	}
	return out
}

// guardsIntact: the spare capacity behind every unit of an ownNalus list still holds the guard pattern and the
// unit itself still equals the original.
func guardsIntact(own, orig [][]byte) bool {
	if len(own) != len(orig) {
		return false
	}
	for i, n := range own {
		if len(n) != len(orig[i]) || !bytes.Equal(n, orig[i]) {
			return false
		}
		full := n[:cap(n)]
		if len(full) != len(n)+guardLen {
			return false
		}
		for _, b := range full[len(n):] {
			if b != guardByte {
				return false
			}
		}
	}
	return true
}

// scribbleNalus: the caller re-uses its memory: every byte (and the spare capacity) is overwritten and every entry of
// the outer list is pointed at a foreign slice.
func scribbleNalus(l [][]byte) {
	junk := []byte{0xde, 0xad, 0xbe, 0xef, 0xde, 0xad}
	for i := range l {
		full := l[i][:cap(l[i])]
		for j := range full {
			full[j] = 0xee ^ byte(j)
		}
		l[i] = junk
	}
}

// hygieneFail: set by apply when a callee wrote into its argument lists (class 2); reported by evalHistory.
var hygieneFail string

// callWithOwnedLists runs call on private copies of the lists, checks the guards and scribbles the copies.
func callWithOwnedLists(site string, lists [][][]byte, call func(own [][][]byte) error) error {
	own := make([][][]byte, len(lists))
	for i, l := range lists {
		own[i] = ownNalus(l)
	}
	err := call(own)
	for i := range own {
		if !guardsIntact(own[i], lists[i]) {
			hygieneFail = site
		}
		scribbleNalus(own[i])
	}
	return err
}

func encodeBytes(init *mp4.InitSegment) string {
	var buf bytes.Buffer
	var err error
	if p := hx.Try(func() { err = init.Encode(&buf) }); p != "" {
		return "PANIC"
	}
	if err != nil {
		return "ENCERR"
	}
	return hx.Hex(buf.Bytes())
}

// checkInterleaved: class 3, see the file comment. A history stops at its first panic (like runOps).
func checkInterleaved(a, b []*op) {
	evals++
	ia, ib := mp4.CreateEmptyInit(), mp4.CreateEmptyInit()
	oa, ob := []byte{}, []byte{}
	deadA, deadB := false, false
	for i := 0; i < len(a) || i < len(b); i++ {
		if i < len(a) && !deadA {
			oc := apply(ia, a[i])
			oa = append(oa, oc)
			deadA = oc == 'p'
		}
		if i < len(b) && !deadB {
			oc := apply(ib, b[i])
			ob = append(ob, oc)
			deadB = oc == 'p'
		}
	}
	wit := opsString(a) + "||" + opsString(b)
	sa, oca := runOps(a)
	if stateString(ia, string(oa)) != stateString(sa, oca) || encodeBytes(ia) != encodeBytes(sa) {
		fail("InitSegment", "interleaved-build-differs", wit, "the first history built alternately with the second one on another InitSegment gives another init than built alone")
	}
	sb, ocb := runOps(b)
	if stateString(ib, string(ob)) != stateString(sb, ocb) || encodeBytes(ib) != encodeBytes(sb) {
		fail("InitSegment", "interleaved-build-differs", wit, "the second history built alternately with the first one on another InitSegment gives another init than built alone")
	}
	// the same history twice in a row: the second build is not influenced by the first
	sa2, oca2 := runOps(a)
	if stateString(sa2, oca2) != stateString(sa, oca) || encodeBytes(sa2) != encodeBytes(sa) {
		fail("InitSegment", "repeated-build-differs", opsString(a), "building the same history a second time gives another init")
	}
}

// checkEncodeTwice: class 4. enc is what the first Encode wrote.
func checkEncodeTwice(init *mp4.InitSegment, enc []byte, wit string) {
	var again bytes.Buffer
	if err := init.Encode(&again); err != nil || !bytes.Equal(again.Bytes(), enc) {
		fail("InitSegment.Encode", "second-encode-differs", wit, "encoding the same init a second time gives other bytes (Encode changed the tree)")
	}
	const spare = 24
	size := int(init.Size())
	buf := make([]byte, size+spare)
	for i := range buf {
		buf[i] = guardByte
	}
	sw := bits.NewFixedSliceWriterFromSlice(buf)
	var err error
	if p := hx.Try(func() { err = init.EncodeSW(sw) }); p != "" || err != nil || sw.AccError() != nil {
		fail("InitSegment.EncodeSW", "spare-room-writer-fails", wit, fmt.Sprintf("EncodeSW into a writer with %d spare bytes: panic %q err %v", spare, p, err))
		return
	}
	if sw.Offset() != size || !bytes.Equal(buf[:size], enc) {
		fail("InitSegment.EncodeSW", "spare-room-bytes", wit, fmt.Sprintf("EncodeSW into a writer with spare room wrote %d bytes, Size() is %d (or other bytes than Encode)", sw.Offset(), size))
	}
	for _, b := range buf[size:] {
		if b != guardByte {
			fail("InitSegment.EncodeSW", "spare-room-touched", wit, "EncodeSW wrote behind Size() bytes")
			break
		}
	}
}
