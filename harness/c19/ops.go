// C19 harness: op sequences on the init-segment building API, their execution on the real
// mp4ff API and the canonical rendering of the resulting state (shared by corr and search).
package main

import (
	"encoding/hex"
	"fmt"
	"strconv"
	"strings"

	"github.com/Eyevinn/mp4ff/avc"
	"github.com/Eyevinn/mp4ff/hevc"
	"github.com/Eyevinn/mp4ff/mp4"

	"verifharness/hx"
)

type op struct {
	kind               byte // A V H C 3 E W T
	k                  int
	ts                 uint32
	mt, lang           string
	name               string
	vps, sps, pps, sei [][]byte
	incl               bool
	objType            byte
	freq               int
	dac3               *mp4.Dac3Box
	dec3               *mp4.Dec3Box
	ac3Sup             string // '3'/'E': the configuration as supplied, taken before the first call (ac3Show)
	s1, s2, s3         string
	exp                []uint64 // V/H: the values the parameter sets were generated from (nil: captured parameter sets)
}

func hs(s string) string { return hx.Hex([]byte(s)) }

func nalus(l [][]byte) string {
	if len(l) == 0 {
		return "_"
	}
	ss := make([]string, len(l))
	for i, n := range l {
		ss[i] = hx.Hex(n)
	}
	return strings.Join(ss, ",")
}

func b01(b bool) string {
	if b {
		return "1"
	}
	return "0"
}

func dac3Str(d *mp4.Dac3Box) string {
	return fmt.Sprintf("%d.%d.%d.%d.%d.%d", d.FSCod, d.BSID, d.BSMod, d.ACMod, d.LFEOn, d.BitRateCode)
}

func dec3Subs(d *mp4.Dec3Box) string {
	if len(d.EC3Subs) == 0 {
		return "_"
	}
	ss := make([]string, len(d.EC3Subs))
	for i, s := range d.EC3Subs {
		ss[i] = fmt.Sprintf("%d.%d.%d.%d.%d.%d.%d.%d", s.FSCod, s.BSID, s.ASVC, s.BSMod, s.ACMod, s.LFEOn, s.NumDepSub, s.ChanLoc)
	}
	return strings.Join(ss, "|")
}

// avcParse: what avc.ParseSPSNALUnit(sps,false) answers (the model's avc_parse argument).
func avcParse(sps []byte) (ok bool, w, h, p, c, l uint64) {
	defer func() {
		if r := recover(); r != nil {
			ok = false
		}
	}()
	s, err := avc.ParseSPSNALUnit(sps, false)
	if err != nil {
		return false, 0, 0, 0, 0, 0
	}
	return true, uint64(s.Width), uint64(s.Height), uint64(byte(s.Profile)), uint64(byte(s.ProfileCompatibility)), uint64(byte(s.Level))
}

// avcParseCfg: the chroma format and bit depths (minus 8) avc.ParseSPSNALUnit reports (second part of the model's avc_parse answer).
func avcParseCfg(sps []byte) (cf, bl, bc uint64) {
	defer func() { _ = recover() }()
	s, err := avc.ParseSPSNALUnit(sps, false)
	if err != nil {
		return 0, 0, 0
	}
	return uint64(s.ChromaFormatIDC), uint64(s.BitDepthLumaMinus8), uint64(s.BitDepthChromaMinus8)
}

func hevcParse(sps []byte) (ok bool, w, h uint64, cfg []uint64) {
	defer func() {
		if r := recover(); r != nil {
			ok = false
		}
	}()
	s, err := hevc.ParseSPSNALUnit(sps)
	if err != nil {
		return false, 0, 0, nil
	}
	ww, hh := s.ImageSize()
	p := s.ProfileTierLevel
	tier := uint64(0)
	if p.GeneralTierFlag {
		tier = 1
	}
	cfg = []uint64{uint64(p.GeneralProfileSpace), tier, uint64(p.GeneralProfileIDC), uint64(p.GeneralProfileCompatibilityFlags),
		p.GeneralConstraintIndicatorFlags, uint64(p.GeneralLevelIDC), uint64(s.ChromaFormatIDC),
		uint64(s.BitDepthLumaMinus8), uint64(s.BitDepthChromaMinus8)}
	return true, uint64(ww), uint64(hh), cfg
}

func (o *op) String() string {
	switch o.kind {
	case 'A':
		return fmt.Sprintf("A:%d:%s:%s", o.ts, hs(o.mt), hs(o.lang))
	case 'V':
		pr := "N"
		if len(o.sps) > 0 {
			if ok, w, h, p, c, l := avcParse(o.sps[0]); ok {
				cf, bl, bc := avcParseCfg(o.sps[0])
				pr = fmt.Sprintf("%d.%d.%d.%d.%d.%d.%d.%d", w, h, p, c, l, cf, bl, bc)
			}
		}
		return fmt.Sprintf("V:%d:%s:%s:%s:%s:%s:%s", o.k, hs(o.name), nalus(o.sps), nalus(o.pps), b01(o.incl), pr, u64sString(o.exp))
	case 'H':
		pr := "N"
		if len(o.sps) > 0 {
			if ok, w, h, cfg := hevcParse(o.sps[0]); ok {
				ss := []string{strconv.FormatUint(w, 10), strconv.FormatUint(h, 10)}
				for _, v := range cfg {
					ss = append(ss, strconv.FormatUint(v, 10))
				}
				pr = strings.Join(ss, ".")
			}
		}
		return fmt.Sprintf("H:%d:%s:%s:%s:%s:%s:%s:%s:%s", o.k, hs(o.name), nalus(o.vps), nalus(o.sps), nalus(o.pps), nalus(o.sei), b01(o.incl), pr, u64sString(o.exp))
	case 'C':
		return fmt.Sprintf("C:%d:%d:%d", o.k, o.objType, o.freq)
	case '3':
		return fmt.Sprintf("3:%d:%s", o.k, dac3Str(o.dac3))
	case 'E':
		return fmt.Sprintf("E:%d:%d:%s", o.k, o.dec3.DataRate, dec3Subs(o.dec3))
	case 'W':
		return fmt.Sprintf("W:%d:%s", o.k, hs(o.s1))
	case 'T':
		return fmt.Sprintf("T:%d:%s:%s:%s", o.k, hs(o.s1), hs(o.s2), hs(o.s3))
	}
	return "?"
}

func opsString(ops []*op) string {
	if len(ops) == 0 {
		return "-"
	}
	ss := make([]string, len(ops))
	for i, o := range ops {
		ss[i] = o.String()
	}
	return strings.Join(ss, ";")
}

// apply runs one op on the real API. Returns 'o', 'e' or 'p'.
func apply(init *mp4.InitSegment, o *op) (oc byte) {
	defer func() {
		if r := recover(); r != nil {
			oc = 'p'
		}
	}()
	var err error
	switch o.kind {
	case 'A':
		init.AddEmptyTrack(o.ts, o.mt, o.lang)
		return 'o'
	case 'V':
		// the lists are handed over as private copies with guard bytes and scribbled after the call (hygiene.go, classes 1 and 2)
		err = callWithOwnedLists("SetAVCDescriptor", [][][]byte{o.sps, o.pps}, func(l [][][]byte) error {
			return init.Moov.Traks[o.k].SetAVCDescriptor(o.name, l[0], l[1], o.incl)
		})
	case 'H':
		err = callWithOwnedLists("SetHEVCDescriptor", [][][]byte{o.vps, o.sps, o.pps, o.sei}, func(l [][][]byte) error {
			return init.Moov.Traks[o.k].SetHEVCDescriptor(o.name, l[0], l[1], l[2], l[3], o.incl)
		})
	case 'C':
		err = init.Moov.Traks[o.k].SetAACDescriptor(o.objType, o.freq)
	case '3':
		if o.ac3Sup == "" {
			o.ac3Sup = ac3Show(o.dac3)
		}
		err = init.Moov.Traks[o.k].SetAC3Descriptor(o.dac3)
	case 'E':
		if o.ac3Sup == "" {
			o.ac3Sup = ac3Show(o.dec3)
		}
		err = init.Moov.Traks[o.k].SetEC3Descriptor(o.dec3)
	case 'W':
		err = init.Moov.Traks[o.k].SetWvttDescriptor(o.s1)
	case 'T':
		err = init.Moov.Traks[o.k].SetStppDescriptor(o.s1, o.s2, o.s3)
	}
	if err != nil {
		return 'e'
	}
	return 'o'
}

// runOps executes a history; it stops at the first panic (like the model).
func runOps(ops []*op) (*mp4.InitSegment, string) {
	init := mp4.CreateEmptyInit()
	ocs := make([]byte, 0, len(ops))
	for _, o := range ops {
		oc := apply(init, o)
		ocs = append(ocs, oc)
		if oc == 'p' {
			break
		}
	}
	return init, string(ocs)
}

// canonAvcC: render the avcC fields that are not part of the record's syntax for profiles 66/77/88
// (chroma format, bit depths, NumSPSExt, NoTrailingInfo) as zero: used when a built record is compared
// with its decoded form (the decoder cannot know them).
var canonAvcC = false

func cfgString(b mp4.Box) string {
	switch c := b.(type) {
	case *mp4.AvcCBox:
		d := c.DecConfRec
		if p := d.AVCProfileIndication; canonAvcC && (p == 66 || p == 77 || p == 88) {
			d.ChromaFormat, d.BitDepthLumaMinus1, d.BitDepthChromaMinus1, d.NumSPSExt, d.NoTrailingInfo = 0, 0, 0, 0, false
		}
		return fmt.Sprintf("a.%d.%d.%d.%s/%s/%d.%d.%d.%d.%s", d.AVCProfileIndication, d.ProfileCompatibility, d.AVCLevelIndication, nalus(d.SPSnalus), nalus(d.PPSnalus),
			d.ChromaFormat, d.BitDepthLumaMinus1, d.BitDepthChromaMinus1, d.NumSPSExt, b01(d.NoTrailingInfo))
	case *mp4.HvcCBox:
		d := c.DecConfRec
		tier := 0
		if d.GeneralTierFlag {
			tier = 1
		}
		arrs := "_"
		if len(d.NaluArrays) > 0 {
			ss := []string{}
			for i := range d.NaluArrays {
				a := &d.NaluArrays[i]
				ss = append(ss, fmt.Sprintf("%d=%s", int(a.Complete())*128+int(a.NaluType()), nalus(a.Nalus)))
			}
			arrs = strings.Join(ss, "&")
		}
		return fmt.Sprintf("h.%d.%d.%d.%d.%d.%d.%d.%d.%d.%s", d.GeneralProfileSpace, tier, d.GeneralProfileIDC, d.GeneralProfileCompatibilityFlags,
			d.GeneralConstraintIndicatorFlags, d.GeneralLevelIDC, d.ChromaFormatIDC, d.BitDepthLumaMinus8, d.BitDepthChromaMinus8, arrs)
	case *mp4.EsdsBox:
		return "e." + hx.Hex(c.DecConfigDescriptor.DecSpecificInfo.DecConfig)
	case *mp4.Dac3Box:
		return "3." + dac3Str(c)
	case *mp4.Dec3Box:
		return fmt.Sprintf("E.%d.%s", c.DataRate, dec3Subs(c))
	}
	return "?" + b.Type()
}

func entryString(b mp4.Box) string {
	switch e := b.(type) {
	case *mp4.VisualSampleEntryBox:
		cfg := "none"
		if len(e.Children) == 1 {
			cfg = cfgString(e.Children[0])
		}
		return fmt.Sprintf("[%s;%d;%d;%d;0;%s]", hs(e.Type()), e.DataReferenceIndex, e.Width, e.Height, cfg)
	case *mp4.AudioSampleEntryBox:
		cfg := "none"
		if len(e.Children) == 1 {
			cfg = cfgString(e.Children[0])
		}
		return fmt.Sprintf("[%s;%d;%d;%d;%d;%s]", hs(e.Type()), e.DataReferenceIndex, e.ChannelCount, e.SampleSize, e.SampleRate, cfg)
	case *mp4.WvttBox:
		cfg := "none"
		if len(e.Children) == 1 && e.VttC != nil {
			cfg = "v." + hs(e.VttC.Config)
		}
		return fmt.Sprintf("[%s;%d;0;0;0;%s]", hs("wvtt"), e.DataReferenceIndex, cfg)
	case *mp4.StppBox:
		return fmt.Sprintf("[%s;%d;0;0;0;s.%s.%s.%s]", hs("stpp"), e.DataReferenceIndex, hs(e.Namespace), hs(e.SchemaLocation), hs(e.AuxiliaryMimeTypes))
	}
	return "[?" + b.Type() + "]"
}

func trakString(t *mp4.TrakBox) string {
	elng := "~"
	if t.Mdia.Elng != nil {
		elng = hs(t.Mdia.Elng.Language)
	}
	mc := []string{}
	for _, c := range t.Mdia.Children {
		mc = append(mc, hs(c.Type()))
	}
	mh := "?"
	if len(t.Mdia.Minf.Children) > 0 {
		mh = hs(t.Mdia.Minf.Children[0].Type())
	}
	es := ""
	stsd := t.Mdia.Minf.Stbl.Stsd
	for _, c := range stsd.Children {
		es += entryString(c)
	}
	if int(stsd.SampleCount) != len(stsd.Children) {
		es += "!samplecount"
	}
	return fmt.Sprintf("T{%d,%d,%d,%d,%d,%d,%s,%s,%s,%s,%s,%s,%s}", t.Tkhd.TrackID, t.Tkhd.Volume, t.Tkhd.Width, t.Tkhd.Height,
		t.Mdia.Mdhd.Timescale, t.Mdia.Mdhd.Language, hs(t.Mdia.Hdlr.HandlerType), hs(t.Mdia.Hdlr.Name), elng,
		strings.Join(mc, "/"), mh, es, hs(shape(t)))
}

// stateString is the projection of the implementation state compared with the model.
func stateString(init *mp4.InitSegment, ocs string) string {
	moov := init.Moov
	idx := map[*mp4.TrakBox]int{}
	for i, t := range moov.Traks {
		idx[t] = i
	}
	ch := []string{}
	for _, c := range moov.Children {
		switch b := c.(type) {
		case *mp4.TrakBox:
			ch = append(ch, "t"+strconv.Itoa(idx[b]))
		default:
			ch = append(ch, c.Type())
		}
	}
	trex := []int{}
	for _, t := range moov.Mvex.Trexs {
		trex = append(trex, int(t.TrackID))
	}
	if len(moov.Mvex.Children) != len(moov.Mvex.Trexs) {
		trex = append(trex, -1)
	}
	ts := ""
	for _, t := range moov.Traks {
		ts += trakString(t)
	}
	return fmt.Sprintf("oc=%s|ch=%s|next=%d|trex=%s|%s", ocs, strings.Join(ch, ","), moov.Mvhd.NextTrackID, hx.Csv(trex), ts)
}

func unhex(s string) []byte {
	if len(s)%2 == 1 {
		s = s[:len(s)-1]
	}
	b, err := hex.DecodeString(s)
	if err != nil {
		panic(err)
	}
	return b
}
