package main

// Correspondence cases for the decoder configuration records (coq/c19/C19RecModel.v):
//   RA id <avc record>          size / encoding / decoding of the encoding        (avc.DecConfRec Size, Encode, DecodeAVCDecConfRec)
//   DA id <bytes>               DecodeAVCDecConfRec on mutated / truncated / random bytes
//   RH id <hevc record>         the same for hevc.DecConfRec
//   DH id <bytes>               DecodeHEVCDecConfRec on mutated / truncated / random bytes (+ re-encoding of the result)

import (
	"bytes"
	"fmt"
	"strings"

	"github.com/Eyevinn/mp4ff/avc"
	"github.com/Eyevinn/mp4ff/hevc"

	"verifharness/hx"
)

// every profile_idc avc/sps.go lists, the three without trailing info, 144 and a few others
var avcProfiles = []int{66, 77, 88, 100, 110, 122, 144, 244, 44, 83, 86, 118, 128, 138, 139, 134, 135, 0, 1, 65, 67, 89, 99, 255}

func avcRecString(d *avc.DecConfRec) string {
	return fmt.Sprintf("%d.%d.%d.%s/%s/%d.%d.%d.%d.%s", d.AVCProfileIndication, d.ProfileCompatibility, d.AVCLevelIndication,
		nalus(d.SPSnalus), nalus(d.PPSnalus), d.ChromaFormat, d.BitDepthLumaMinus1, d.BitDepthChromaMinus1, d.NumSPSExt, b01(d.NoTrailingInfo))
}

func avcDecodeObs(data []byte) (obs string) {
	defer func() {
		if r := recover(); r != nil {
			obs = "PANIC"
		}
	}()
	d, err := avc.DecodeAVCDecConfRec(data)
	if err != nil {
		return "ERR"
	}
	return avcRecString(&d)
}

// cts: the completeAndType bytes when known (a request); otherwise what the accessors show (bit 6 is not visible)
func hevcRecString(d *hevc.DecConfRec, cts ...int) string {
	arrs := "_"
	if len(d.NaluArrays) > 0 {
		ss := []string{}
		for i := range d.NaluArrays {
			a := &d.NaluArrays[i]
			ct := int(a.Complete())*128 + int(a.NaluType())
			if i < len(cts) {
				ct = cts[i]
			}
			ss = append(ss, fmt.Sprintf("%d=%s", ct, nalus(a.Nalus)))
		}
		arrs = strings.Join(ss, "&")
	}
	return fmt.Sprintf("%d.%d.%s.%d.%d.%d.%d.%d.%d.%d.%d.%d.%d.%d.%d.%d.%d/%s", d.ConfigurationVersion, d.GeneralProfileSpace, b01(d.GeneralTierFlag),
		d.GeneralProfileIDC, d.GeneralProfileCompatibilityFlags, d.GeneralConstraintIndicatorFlags, d.GeneralLevelIDC,
		d.MinSpatialSegmentationIDC, d.ParallellismType, d.ChromaFormatIDC, d.BitDepthLumaMinus8, d.BitDepthChromaMinus8,
		d.AvgFrameRate, d.ConstantFrameRate, d.NumTemporalLayers, d.TemporalIDNested, d.LengthSizeMinusOne, arrs)
}

// decoded record + its re-encoding (the reserved bit 6 of completeAndType is only visible there)
func hevcDecodeObs(data []byte) (obs string) {
	defer func() {
		if r := recover(); r != nil {
			obs = "PANIC"
		}
	}()
	d, err := hevc.DecodeHEVCDecConfRec(data)
	if err != nil {
		return "ERR"
	}
	var buf bytes.Buffer
	if err := d.Encode(&buf); err != nil {
		return hevcRecString(&d) + "|ENCERR"
	}
	return hevcRecString(&d) + "|" + hx.Hex(buf.Bytes())
}

func randNalus(r *hx.Rng, maxN int) [][]byte {
	n := r.Pick(0, 1, 1, 1, 2, 3)
	if r.Intn(12) == 0 {
		n = r.Pick(31, 32, 33, maxN)
	}
	out := [][]byte{}
	for i := 0; i < n; i++ {
		l := r.Intn(12)
		if r.Intn(200) == 0 {
			l = r.Pick(255, 256, 65535, 65536, 65540) // 16-bit length field wraps
		}
		b := make([]byte, l)
		for j := range b {
			b[j] = byte(r.U64())
		}
		out = append(out, b)
	}
	return out
}

func smallOr(r *hx.Rng, lim int) byte {
	if r.Intn(8) == 0 {
		return byte(r.U64())
	}
	return byte(r.Intn(lim))
}

func mutate(r *hx.Rng, enc []byte) []byte {
	b := append([]byte{}, enc...)
	switch r.Intn(6) {
	case 0:
		if len(b) > 0 {
			b = b[:r.Intn(len(b))]
		}
	case 1:
		if len(b) > 0 {
			b[r.Intn(len(b))] ^= byte(1 << uint(r.Intn(8)))
		}
	case 2:
		if len(b) > 0 {
			b[r.Intn(len(b))] = byte(r.U64())
		}
	case 3:
		for i := r.Range(1, 6); i > 0; i-- {
			b = append(b, byte(r.U64()))
		}
	case 4:
		if len(b) > 6 { // header bytes: version, length size, counts
			b[r.Pick(0, 4, 5, len(b)-1)] = byte(r.U64())
		}
		if len(b) > 23 && r.Bool() { // hvcC: length size / array count / first array header
			b[r.Pick(21, 22, 23)] = byte(r.U64())
		}
	case 5:
		b = make([]byte, r.Intn(30))
		for j := range b {
			b[j] = byte(r.U64())
		}
		if len(b) > 0 && r.Intn(4) != 0 {
			b[0] = 1
		}
	}
	return b
}

func corrRecords(id *int, r *hx.Rng, n int) {
	emitA := func(d *avc.DecConfRec) []byte {
		var buf bytes.Buffer
		obs := ""
		if p := hx.Try(func() {
			if err := d.Encode(&buf); err != nil {
				obs = "ENCERR"
			}
		}); p != "" {
			obs = "PANIC"
		}
		if obs == "" {
			obs = fmt.Sprintf("%d|%s|%s", d.Size(), hx.Hex(buf.Bytes()), avcDecodeObs(buf.Bytes()))
		}
		fmt.Fprintf(out, "RA\t%d\t%s\t%s\n", *id, avcRecString(d), obs)
		*id++
		return buf.Bytes()
	}
	// every profile x trailing-info flag, with and without parameter sets
	for _, p := range avcProfiles {
		for _, nt := range []bool{false, true} {
			for _, ps := range []bool{false, true} {
				d := &avc.DecConfRec{AVCProfileIndication: byte(p), ProfileCompatibility: 0x40, AVCLevelIndication: 31, ChromaFormat: 2, BitDepthLumaMinus1: 2,
					BitDepthChromaMinus1: 3, NoTrailingInfo: nt}
				if ps {
					d.SPSnalus, d.PPSnalus = [][]byte{unhex(avcSPSPool[0])}, [][]byte{unhex(avcPPSPool[0]), unhex(avcPPSPool[1])}
				}
				emitA(d)
			}
		}
	}
	for i := 0; i < n; i++ {
		d := &avc.DecConfRec{AVCProfileIndication: byte(avcProfiles[r.Intn(len(avcProfiles))]), ProfileCompatibility: byte(r.U64()), AVCLevelIndication: byte(r.U64()),
			SPSnalus: randNalus(r, 40), PPSnalus: randNalus(r, 257), ChromaFormat: smallOr(r, 4), BitDepthLumaMinus1: smallOr(r, 8), BitDepthChromaMinus1: smallOr(r, 8),
			NoTrailingInfo: r.Intn(5) == 0}
		if r.Intn(6) == 0 {
			d.NumSPSExt = byte(r.U64())
		}
		if r.Intn(10) == 0 {
			d.AVCProfileIndication = byte(r.U64())
		}
		enc := emitA(d)
		if len(enc) < 4096 {
			for k := 0; k < 2; k++ {
				m := mutate(r, enc)
				fmt.Fprintf(out, "DA\t%d\t%s\t%s\n", *id, hx.Hex(m), avcDecodeObs(m))
				*id++
			}
		}
	}
	// HEVC
	for i := 0; i < n; i++ {
		d := &hevc.DecConfRec{ConfigurationVersion: 1, GeneralProfileSpace: smallOr(r, 4), GeneralTierFlag: r.Bool(), GeneralProfileIDC: smallOr(r, 32),
			GeneralProfileCompatibilityFlags: uint32(r.U64()), GeneralConstraintIndicatorFlags: r.U64() >> 16, GeneralLevelIDC: byte(r.U64()),
			ChromaFormatIDC: smallOr(r, 4), BitDepthLumaMinus8: smallOr(r, 8), BitDepthChromaMinus8: smallOr(r, 8), LengthSizeMinusOne: 3}
		if r.Intn(3) == 0 { // the fields CreateHEVCDecConfRec leaves at their defaults
			d.MinSpatialSegmentationIDC = uint16(r.Intn(4096))
			d.ParallellismType = smallOr(r, 4)
			d.AvgFrameRate = uint16(r.U64())
			d.ConstantFrameRate = smallOr(r, 4)
			d.NumTemporalLayers = smallOr(r, 8)
			d.TemporalIDNested = smallOr(r, 2)
		}
		switch r.Intn(12) {
		case 0:
			d.ConfigurationVersion = byte(r.U64())
		case 1:
			d.LengthSizeMinusOne = byte(r.Intn(4))
		case 2:
			d.GeneralConstraintIndicatorFlags = r.U64() >> 3 // more than 48 bits
			d.MinSpatialSegmentationIDC = uint16(r.U64())
		}
		na := r.Pick(0, 1, 3, 3, 3, 4)
		cts := []int{}
		for j := 0; j < na; j++ {
			ct := byte(r.Pick(32, 33, 34, 39, 40, 0, 63))
			if r.Intn(10) == 0 {
				ct = byte(r.Intn(128)) // also the reserved bit 6
			}
			compl := r.Bool()
			d.NaluArrays = append(d.NaluArrays, hevc.NewNaluArray(compl, hevc.NaluType(ct), randNalus(r, 40)))
			if compl {
				ct |= 0x80
			}
			cts = append(cts, int(ct))
		}
		var buf bytes.Buffer
		obs := ""
		if p := hx.Try(func() {
			if err := d.Encode(&buf); err != nil {
				obs = "ENCERR"
			}
		}); p != "" {
			obs = "PANIC"
		}
		enc := buf.Bytes()
		if obs == "" {
			obs = fmt.Sprintf("%d|%s|%s", d.Size(), hx.Hex(enc), hevcDecodeObs(enc))
		}
		// the record line carries the full completeAndType bytes (taken from the encoding request, not from the accessors)
		fmt.Fprintf(out, "RH\t%d\t%s\t%s\n", *id, hevcRecString(d, cts...), obs)
		*id++
		if len(enc) < 4096 {
			for k := 0; k < 2; k++ {
				m := mutate(r, enc)
				fmt.Fprintf(out, "DH\t%d\t%s\t%s\n", *id, hx.Hex(m), hevcDecodeObs(m))
				*id++
			}
		}
	}
}
