package main

import (
	"strings"

	"github.com/Eyevinn/mp4ff/mp4"

	"verifharness/hx"
)

// ---- pools (parameter sets taken from the repository's tests and testdata) ----
var avcSPSPool = []string{
	"67640020accac05005bb0169e0000003002000000c9c4c000432380008647c12401cb1c31380", // 1280x720 (initcreator)
	"27640020ac2ec05005bb0110000000100000078e840016e300005b8d8bdef83b438627",
	"27640020ac2ec05005bb011000000300100000078e840016e300005b8d8bdef83b438627",
	"674d401fe4605017fcb80b4f00000300010000030032e4800753003a9e08200e58e189c0",
	"6764000dacd941419f9e10000003001000000303c0f1429960",
	"6764001eacd940a02ff9610000030001000003003c8f162d96",
	"6764002aac2cac0780227e5c04f000003e90001d4c0e6a000337ec001bcef5ef80f8442370",
}
var avcPPSPool = []string{"68b5df20", "68ebecb22c", "28ee3cb0", "68e9bb2c8b"}

var hevcSPSPool = []string{
	"420101022000000300b0000003000003007ba0078200887db6718b92448053888892cf24a69272c9124922dc91aa48fca223ff000100016a02020201", // 960x540 (initcreator)
	"42010101400000030000030000030000030096a001e02002207c4e5ad290964b8c04040000",
	"420101014000000300400000030000030078a003c080221f7a3ee46c1bdf4f60280d00000303e80000c350601def7e00028b1c001443c8",
	"4201010160000003000003000003000003007ba0078200887de5b59246f8f2c997932c8501e003fe03fa80203c07f2804",
	"420101016000000300900000030000030078a0021c801e0596566924caf01680800001f480003a9804",
	"420101016000000300900000030000030078a00502016965959a4932bc05a80808082000000300200000030321",
	"420101016000000300b0000003000003007ba003c08010e59447924525ac041400000300040000030067c36bdcf50007a12000f42640",
	"420101022000000300b0000003000003009ca001e020021c4d8815ee4595602d4244024020",
	"420101090040000003000c00000300007890007810021cff2d7248db3db643cd81000843",
}
var hevcVPSPool = []string{"40010c01ffff022000000300b0000003000003007b18b024", "40010c01ffff016000000300900000030000030078959809"}
var hevcPPSPool = []string{"4401c0252f053240", "4401c172b46240", "4401c1a5581e48"}
var hevcSEIPool = []string{"4e01891800000300000300000300000300000300000300000300000300000300000300000300000300000300000080", "4e0105ffff80"}

// dimensions known independently of the parser (initcreator asserts them)
var knownDims = map[string][2]uint64{
	avcSPSPool[0]:  {1280, 720},
	hevcSPSPool[0]: {960, 540},
}

// media types: the supported set (named in CreateEmptyTrak) ...
var validMedia = []string{"video", "audio", "subtitle", "subtitles", "text", "wvtt", "stpp"}

// ... handler-type style arguments CreateHdlr accepts, and unsupported ones (panic)
var otherMedia = []string{"meta", "clcp", "vide", "soun", "subt", "auxv"}
var badMedia = []string{"other", "", "roses", "vid"}

// long well-formed BCP-47 tags (variants, extensions, private use): 27, 35, 36, 39 and 300 characters; the property's
// quantifier has no upper bound on the tag length and neither have CreateElng / DecodeElng
var longLangs = []string{"sl-Latn-IT-rozaj-biske-1994", "de-Latn-DE-1996-u-co-phonebk-x-abcd", "de-Latn-DE-1996-u-co-phonebk-x-inter",
	"de-Latn-DE-1996-u-co-phonebk-x-internal", "x-" + strings.Repeat("abcdefgh-", 33) + "z"}
var langs = append([]string{"en", "sv", "und", "eng", "swe", "fil", "en-US", "pt-BR", "zh-Hant", "es-419", "sr-Latn-RS", "de-CH-1996", "ENG", "x1", "abcdefgh"}, longLangs...)
var validLangs = append([]string{"en", "sv", "und", "eng", "swe", "fil", "zho", "en-US", "pt-BR", "zh-Hant", "es-419", "sr-Latn-RS", "de-CH-1996", "abcdefgh", "qaa"}, longLangs...)

var timescales = []uint32{0, 1, 1000, 12800, 44100, 48000, 90000, 180000, 10000000, 0x7fffffff, 0xffffffff}

var aacFreqs = []int{96000, 88200, 64000, 48000, 44100, 32000, 24000, 22050, 16000, 12000, 11025, 8000, 7350}

// only SPS NALUs the real parsers accept stay in the pools (the pools are "valid parameter sets")
func init() {
	keep := []string{}
	for _, s := range avcSPSPool {
		if ok, _, _, _, _, _ := avcParse(unhex(s)); ok {
			keep = append(keep, s)
		}
	}
	avcSPSPool = keep
	keep = []string{}
	for _, s := range hevcSPSPool {
		if ok, _, _, _ := hevcParse(unhex(s)); ok {
			keep = append(keep, s)
		}
	}
	hevcSPSPool = keep
}

type gen struct {
	r *hx.Rng
}

func pickS(r *hx.Rng, l []string) string { return l[r.Intn(len(l))] }

func (g *gen) nalus(pool []string, allowEmpty bool) [][]byte {
	n := 1
	switch g.r.Intn(8) {
	case 0:
		n = 2
	case 1:
		if allowEmpty {
			n = 0
		}
	}
	out := [][]byte{}
	for i := 0; i < n; i++ {
		out = append(out, unhex(pickS(g.r, pool)))
	}
	return out
}

// descriptor op for track k; valid=true: only arguments that are valid parameter sets / configurations
func (g *gen) desc(k int, kind byte, valid bool) *op {
	r := g.r
	o := &op{kind: kind, k: k}
	switch kind {
	case 'V':
		o.name = pickS(r, []string{"avc1", "avc3"})
		o.incl = o.name == "avc1" || r.Intn(3) != 0
		o.sps = g.nalus(avcSPSPool, false)
		o.pps = g.nalus(avcPPSPool, true)
		if len(genAVC) > 0 && r.Intn(4) != 0 { // generated parameter sets: the whole syntax
			set := genAVC[r.Intn(len(genAVC))]
			o.sps, o.pps, o.exp = set.sps, set.pps, set.exp
		}
		if !valid {
			o.sps = append([][]byte{}, o.sps...)
			o.exp = nil
			switch r.Intn(6) {
			case 0:
				o.name = pickS(r, []string{"avc2", "hvc1", ""})
			case 1:
				o.incl = false
			case 2:
				o.sps = nil
			case 3:
				o.sps[0] = o.sps[0][:r.Range(1, 6)] // truncated SPS: parse error
			case 4:
				o.sps[0] = unhex(pickS(r, hevcSPSPool)) // wrong codec
			}
		}
	case 'H':
		o.name = pickS(r, []string{"hvc1", "hev1"})
		o.incl = o.name == "hvc1" || r.Intn(3) != 0
		o.vps = g.nalus(hevcVPSPool, true)
		o.sps = g.nalus(hevcSPSPool, false)
		o.pps = g.nalus(hevcPPSPool, true)
		if len(genHEVC) > 0 && r.Intn(4) != 0 {
			set := genHEVC[r.Intn(len(genHEVC))]
			o.sps, o.pps, o.exp = set.sps, set.pps, set.exp
		}
		if r.Intn(3) == 0 {
			o.sei = g.nalus(hevcSEIPool, false)
		}
		if !valid {
			o.sps = append([][]byte{}, o.sps...)
			o.exp = nil
			switch r.Intn(6) {
			case 0:
				o.name = pickS(r, []string{"hvc2", "avc1", ""})
			case 1:
				o.incl = false
			case 2:
				o.sps = nil
			case 3:
				o.sps[0] = o.sps[0][:r.Range(1, 8)]
				o.sei = g.nalus(hevcSEIPool, false)
			case 4:
				o.sps[0] = o.sps[0][:r.Range(1, 8)]
				o.sei = nil
			}
		}
	case 'C':
		o.objType = byte(r.Pick(2, 5, 29))
		o.freq = aacFreqs[r.Intn(len(aacFreqs))]
		if r.Intn(6) == 0 {
			o.freq = r.Pick(44000, 8001, 65535) // explicit 24-bit frequency
			if !valid {
				o.freq = r.Pick(1, 0, 65536, 192000, 0xffffff)
			}
		}
		if !valid && r.Intn(2) == 0 {
			o.objType = byte(r.Pick(0, 1, 3, 4, 6, 28, 30, 42, 255))
		}
	case '3':
		d := &mp4.Dac3Box{FSCod: byte(r.Intn(3)), BSID: byte(r.Intn(32)), BSMod: byte(r.Intn(8)), ACMod: byte(r.Intn(8)),
			LFEOn: byte(r.Intn(2)), BitRateCode: byte(r.Intn(19))}
		if !valid && r.Intn(2) == 0 {
			d.FSCod = 3
		}
		o.dac3 = d
	case 'E':
		d := &mp4.Dec3Box{DataRate: uint16(r.Intn(8192))}
		n := r.Range(1, 2)
		if r.Intn(3) == 0 {
			n = r.Range(1, 8) // the box counts up to 8 substreams
		}
		if !valid && r.Intn(3) == 0 {
			n = 0
		}
		for i := 0; i < n; i++ {
			s := mp4.EC3Sub{FSCod: byte(r.Intn(3)), BSID: byte(r.Intn(32)), ASVC: byte(r.Intn(2)), BSMod: byte(r.Intn(8)),
				ACMod: byte(r.Intn(8)), LFEOn: byte(r.Intn(2))}
			if r.Intn(2) == 0 {
				s.NumDepSub = byte(r.Range(1, 3))
				if r.Intn(4) == 0 {
					s.NumDepSub = byte(r.Range(1, 15))
				}
				s.ChanLoc = uint16(r.Intn(512))
			} else if !valid && r.Intn(4) == 0 {
				s.ChanLoc = uint16(r.Intn(512)) // ignored when NumDepSub == 0
			}
			if !valid && r.Intn(3) == 0 {
				s.FSCod = 3
			}
			d.EC3Subs = append(d.EC3Subs, s)
		}
		d.NumIndSub = uint16(n)
		o.dec3 = d
	case 'W':
		o.s1 = pickS(r, []string{"", "WEBVTT", "WEBVTT\n\nNOTE x", "WEBVTT - some title"})
	case 'T':
		o.s1 = pickS(r, []string{"", "http://www.w3.org/ns/ttml", "http://www.w3.org/ns/ttml http://www.w3.org/ns/ttml#styling"})
		o.s2 = pickS(r, []string{"", "", "http://example.com/schema.xsd"})
		o.s3 = pickS(r, []string{"", "", "image/png", "image/png application/ttml+xml"})
	}
	return o
}

// the descriptor kinds that fit a media type
func fitting(mt string) []byte {
	switch mt {
	case "video", "vide":
		return []byte{'V', 'H'}
	case "audio", "soun":
		return []byte{'C', '3', 'E'}
	case "wvtt", "text":
		return []byte{'W'}
	case "stpp", "subtitle", "subtitles", "subt":
		return []byte{'T'}
	}
	return []byte{'W', 'T'}
}

var allKinds = []byte{'V', 'H', 'C', '3', 'E', 'W', 'T'}

// history: valid=true gives only in-scope arguments (the property's quantifier);
// valid=false mixes in handler-style / unsupported media types, out-of-range track indices,
// malformed parameter sets and descriptors that do not fit the track.
func (g *gen) history(valid bool) []*op {
	r := g.r
	nTracks := r.Intn(6)
	ops := []*op{}
	mts := []string{}
	for i := 0; i < nTracks; i++ {
		mt := pickS(r, validMedia)
		lang := pickS(r, validLangs)
		if !valid {
			switch r.Intn(8) {
			case 0:
				mt = pickS(r, otherMedia)
			case 1:
				if r.Intn(3) == 0 {
					mt = pickS(r, badMedia)
				}
			}
			lang = pickS(r, langs)
		}
		ts := timescales[r.Intn(len(timescales))]
		if r.Intn(4) == 0 {
			ts = uint32(r.U64())
		}
		ops = append(ops, &op{kind: 'A', ts: ts, mt: mt, lang: lang})
		mts = append(mts, mt)
		// descriptors: usually one for the new track, sometimes for an earlier one, sometimes none
		nd := r.Pick(0, 1, 1, 1, 2)
		for j := 0; j < nd; j++ {
			k := len(mts) - 1
			if r.Intn(4) == 0 {
				k = r.Intn(len(mts))
			}
			kinds := fitting(mts[k])
			if !valid && r.Intn(4) == 0 {
				kinds = allKinds
			}
			kind := kinds[r.Intn(len(kinds))]
			if !valid && r.Intn(25) == 0 {
				k = len(mts) + r.Intn(2) // index out of range
			}
			ops = append(ops, g.desc(k, kind, valid || r.Intn(3) != 0))
		}
	}
	return ops
}
