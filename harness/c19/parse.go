package main

import (
	"fmt"
	"strconv"
	"strings"

	"github.com/Eyevinn/mp4ff/mp4"

	"verifharness/hx"
)

// parseOps is the inverse of opsString (the SPS parser answers carried by V/H ops are ignored:
// the real parsers are called again).
func parseOps(s string) ([]*op, error) {
	if s == "-" || s == "" {
		return nil, nil
	}
	ops := []*op{}
	for _, t := range strings.Split(s, ";") {
		f := strings.Split(t, ":")
		atoi := func(x string) int { v, _ := strconv.ParseInt(x, 10, 64); return int(v) }
		str := func(x string) string { return string(hx.UnHex(x)) }
		nl := func(x string) [][]byte {
			if x == "_" {
				return nil
			}
			out := [][]byte{}
			for _, h := range strings.Split(x, ",") {
				out = append(out, hx.UnHex(h))
			}
			return out
		}
		dots := func(x string) []int {
			out := []int{}
			for _, d := range strings.Split(x, ".") {
				out = append(out, atoi(d))
			}
			return out
		}
		bad := fmt.Errorf("bad op %q", t)
		switch f[0] {
		case "A":
			if len(f) != 4 {
				return nil, bad
			}
			ops = append(ops, &op{kind: 'A', ts: uint32(atoi(f[1])), mt: str(f[2]), lang: str(f[3])})
		case "V":
			if len(f) != 7 && len(f) != 8 {
				return nil, bad
			}
			o := &op{kind: 'V', k: atoi(f[1]), name: str(f[2]), sps: nl(f[3]), pps: nl(f[4]), incl: f[5] == "1"}
			if len(f) == 8 {
				o.exp = parseU64s(f[7])
			}
			ops = append(ops, o)
		case "H":
			if len(f) != 9 && len(f) != 10 {
				return nil, bad
			}
			o := &op{kind: 'H', k: atoi(f[1]), name: str(f[2]), vps: nl(f[3]), sps: nl(f[4]), pps: nl(f[5]), sei: nl(f[6]), incl: f[7] == "1"}
			if len(f) == 10 {
				o.exp = parseU64s(f[9])
			}
			ops = append(ops, o)
		case "C":
			if len(f) != 4 {
				return nil, bad
			}
			ops = append(ops, &op{kind: 'C', k: atoi(f[1]), objType: byte(atoi(f[2])), freq: atoi(f[3])})
		case "3":
			d := dots(f[2])
			if len(f) != 3 || len(d) != 6 {
				return nil, bad
			}
			ops = append(ops, &op{kind: '3', k: atoi(f[1]), dac3: &mp4.Dac3Box{FSCod: byte(d[0]), BSID: byte(d[1]), BSMod: byte(d[2]), ACMod: byte(d[3]), LFEOn: byte(d[4]), BitRateCode: byte(d[5])}})
		case "E":
			if len(f) != 4 {
				return nil, bad
			}
			d := &mp4.Dec3Box{DataRate: uint16(atoi(f[2]))}
			if f[3] != "_" {
				for _, ss := range strings.Split(f[3], "|") {
					v := dots(ss)
					if len(v) != 8 {
						return nil, bad
					}
					d.EC3Subs = append(d.EC3Subs, mp4.EC3Sub{FSCod: byte(v[0]), BSID: byte(v[1]), ASVC: byte(v[2]), BSMod: byte(v[3]), ACMod: byte(v[4]), LFEOn: byte(v[5]), NumDepSub: byte(v[6]), ChanLoc: uint16(v[7])})
				}
			}
			d.NumIndSub = uint16(len(d.EC3Subs))
			ops = append(ops, &op{kind: 'E', k: atoi(f[1]), dec3: d})
		case "W":
			if len(f) != 3 {
				return nil, bad
			}
			ops = append(ops, &op{kind: 'W', k: atoi(f[1]), s1: str(f[2])})
		case "T":
			if len(f) != 5 {
				return nil, bad
			}
			ops = append(ops, &op{kind: 'T', k: atoi(f[1]), s1: str(f[2]), s2: str(f[3]), s3: str(f[4])})
		default:
			return nil, bad
		}
	}
	return ops, nil
}

// replay re-evaluates the property on one history and prints the state it produces.
func replay(s string) int {
	if i := strings.Index(s, "||"); i >= 0 { // witness of checkInterleaved
		a, err := parseOps(s[:i])
		b, err2 := parseOps(s[i+2:])
		if err != nil || err2 != nil {
			fmt.Fprintln(out, "ERROR\tbad interleaved witness")
			return 2
		}
		checkInterleaved(a, b)
		if len(failed) > 0 {
			return 1
		}
		fmt.Fprintln(out, "PASS")
		return 0
	}
	ops, err := parseOps(s)
	if err != nil {
		fmt.Fprintln(out, "ERROR\t"+err.Error())
		return 2
	}
	if opsString(ops) != s && !strings.ContainsAny(s, "VH") {
		fmt.Fprintln(out, "ERROR\tops string does not round-trip through the parser")
		return 2
	}
	init, ocs := runOps(ops)
	fmt.Fprintf(out, "STATE\t%s\n", stateString(init, ocs))
	evalHistory(ops)
	if len(failed) > 0 {
		return 1
	}
	fmt.Fprintln(out, "PASS")
	return 0
}
