package main

import (
	"bytes"
	"fmt"
	"strings"

	"github.com/Eyevinn/mp4ff/mp4"

	"verifharness/hx"
)

// moovPattern: MoovBox.AddChild(trak) on a moov whose Children were set directly to the pattern
// (h mvhd, x mvex, t trak); result pattern with the new trak as N.
func moovPattern(pat string) string {
	moov := &mp4.MoovBox{}
	for _, c := range pat {
		switch c {
		case 'h':
			moov.Children = append(moov.Children, mp4.CreateMvhd())
		case 'x':
			moov.Children = append(moov.Children, mp4.NewMvexBox())
		case 't':
			t := &mp4.TrakBox{}
			moov.Children = append(moov.Children, t)
			moov.Traks = append(moov.Traks, t)
			if moov.Trak == nil {
				moov.Trak = t
			}
		}
	}
	nt := &mp4.TrakBox{}
	moov.AddChild(nt)
	var sb strings.Builder
	for _, c := range moov.Children {
		switch b := c.(type) {
		case *mp4.MvhdBox:
			sb.WriteByte('h')
		case *mp4.MvexBox:
			sb.WriteByte('x')
		case *mp4.TrakBox:
			if b == nt {
				sb.WriteByte('N')
			} else {
				sb.WriteByte('t')
			}
		}
	}
	if len(moov.Traks) == 0 || moov.Traks[len(moov.Traks)-1] != nt {
		sb.WriteString("!traks")
	}
	return sb.String()
}

func allPatterns(maxLen int) []string {
	out := []string{""}
	prev := []string{""}
	for l := 1; l <= maxLen; l++ {
		next := []string{}
		for _, p := range prev {
			for _, c := range "hxt" {
				next = append(next, p+string(c))
			}
		}
		out = append(out, next...)
		prev = next
	}
	return out
}

// elngObs: CreateElng(lang) encoded and decoded again: "<missingFullBox>/<language hex>" or ERR.
func elngObs(lang string) (obs string) {
	defer func() {
		if r := recover(); r != nil {
			obs = "PANIC"
		}
	}()
	var buf bytes.Buffer
	if err := mp4.CreateElng(lang).Encode(&buf); err != nil {
		return "ENCERR"
	}
	b, err := mp4.DecodeBox(0, bytes.NewReader(buf.Bytes()))
	if err != nil {
		return "ERR"
	}
	e := b.(*mp4.ElngBox)
	m := "0"
	if e.MissingFullBoxBytes() {
		m = "1"
	}
	return m + "/" + hs(e.Language)
}

var elngLangs = []string{"", "x", "en", "sv", "eng", "en-U", "en-US", "zh-Hant", "es-419", "sr-Latn-RS", "a\x00b", "\x00", "ab\x00", "abcdefghijklmnopqrstuvwxyz"}

func corrExtra(id *int, r *hx.Rng, n int) {
	for _, p := range allPatterns(6) {
		fmt.Fprintf(out, "M\t%d\t%s\t%s\n", *id, p, moovPattern(p))
		*id++
	}
	for _, l := range append(append([]string{}, elngLangs...), longLangs...) {
		fmt.Fprintf(out, "L\t%d\t%s\t%s\n", *id, hs(l), elngObs(l))
		*id++
	}
	corrStpp(id, r, n)
	for i := 0; i < n; i++ {
		ln := r.Intn(12)
		if i%8 == 0 {
			ln = r.Intn(300) // long tags: no upper bound in the quantifier
		}
		l := string(r.Bytes(ln, []byte("abenUS-\x00zH419")))
		if i%16 == 0 {
			l = string(r.Bytes(ln, []byte("abenUS-zH419"))) // long and NUL-free
		}
		fmt.Fprintf(out, "L\t%d\t%s\t%s\n", *id, hs(l), elngObs(l))
		*id++
	}
}

// stppObs: NewStppBox encoded and decoded again: dref/namespace/schema/mime/Size() or ERR.
func stppObs(a, b, c string) (obs string) {
	defer func() {
		if r := recover(); r != nil {
			obs = "PANIC"
		}
	}()
	var buf bytes.Buffer
	if err := mp4.NewStppBox(a, b, c).Encode(&buf); err != nil {
		return "ENCERR"
	}
	bx, err := mp4.DecodeBox(0, bytes.NewReader(buf.Bytes()))
	if err != nil {
		return "ERR"
	}
	e := bx.(*mp4.StppBox)
	return fmt.Sprintf("%d/%s/%s/%s/%d", e.DataReferenceIndex, hs(e.Namespace), hs(e.SchemaLocation), hs(e.AuxiliaryMimeTypes), e.Size())
}

func corrStpp(id *int, r *hx.Rng, n int) {
	pool := []string{"", "a", "http://www.w3.org/ns/ttml", "http://www.w3.org/ns/ttml http://www.w3.org/ns/ttml#styling", "image/png", "x y z"}
	for _, a := range pool {
		for _, b := range pool {
			for _, c := range pool {
				fmt.Fprintf(out, "P\t%d\t%s\t%s\t%s\t%s\n", *id, hs(a), hs(b), hs(c), stppObs(a, b, c))
				*id++
			}
		}
	}
	for i := 0; i < n; i++ {
		a := string(r.Bytes(r.Intn(10), []byte("abc:/ .#")))
		b := string(r.Bytes(r.Intn(6), []byte("abc:/ .#")))
		c := string(r.Bytes(r.Intn(6), []byte("abc:/ .#")))
		fmt.Fprintf(out, "P\t%d\t%s\t%s\t%s\t%s\n", *id, hs(a), hs(b), hs(c), stppObs(a, b, c))
		*id++
	}
}

// observations outside the property's quantifier (histories that start from a decoded init)
func outOfScope() {
	// 1 decoded init whose only track has id 2
	init := mp4.CreateEmptyInit()
	init.AddEmptyTrack(1000, "video", "und")
	init.Moov.Trak.Tkhd.TrackID = 2
	init.Moov.Mvex.Trex.TrackID = 2
	init.Moov.Mvhd.NextTrackID = 3
	var buf bytes.Buffer
	_ = init.Encode(&buf)
	f, err := mp4.DecodeFile(bytes.NewReader(buf.Bytes()))
	if err == nil && f.Init != nil {
		f.Init.AddEmptyTrack(1000, "audio", "eng")
		ids := []int{}
		for _, t := range f.Init.Moov.Traks {
			ids = append(ids, int(t.Tkhd.TrackID))
		}
		fmt.Fprintf(out, "OBS\tadd_after_decode_track_ids\tdecoded init with one track of id 2, then AddEmptyTrack: track ids %s\n", hx.Csv(ids))
	}
	// 2 moov with the trak first
	fmt.Fprintf(out, "OBS\tadd_trak_first_child\tMoovBox{trak,mvhd,mvex}.AddChild(trak): %s; {mvhd,trak,mvex}: %s\n", moovPattern("thx"), moovPattern("htx"))
}
