// Alignment x size-class sweep (corr AND search).  The random op-sequence generators reach a method mostly at the
// alignments and sizes the library itself uses (ReadBytes byte-aligned and short, bulk writes aligned ...).  Here EVERY
// reader / writer method is called at EVERY bit alignment 0..7 (a bits are read / written first) with EVERY size class
// (0, 1, 7, 8, 9, 16, 17, 64+ bytes; widths 0, 1, 7, 8, 9, 16, 17, 31, 32, 33, 47, 48, 55, 56, 57, 63, 64; Exp-Golomb codes of
// 1..63 bits), on data with the high bits set and on escape-rich data (zero runs, 01 / 02 / 03 behind them), followed by more
// reads, a look-ahead, a byte read and the trailing bits, with the counters observed after every op.
//
//	corr    R / X / F lines: the model must agree with the code on every case (values, error flag, the three counters).
//	search  the streams are built by the independent bit packer (bitbuf) and escaped by naiveEscape: every value read must
//	        be the value packed (where the 64-bit accumulator can hold it: width + pending bits <= 64), NrBytesRead /
//	        NrBitsRead must be the position in the ESCAPED stream; what the writers emit must be naiveEscape(packed bits).
package main

import (
	"bytes"
	"fmt"
	"strconv"
	"strings"

	"github.com/Eyevinn/mp4ff/bits"
	"verifharness/hx"
)

var sweepByteSizes = []int{0, 1, 7, 8, 9, 16, 17, 64, 65, 71}
var sweepWidths = []int{0, 1, 7, 8, 9, 16, 17, 31, 32, 33, 47, 48, 55, 56, 57, 63, 64}
var sweepUe = []uint64{0, 1, 2, 126, 127, 254, 255, 65534, 65535, 1<<31 - 1, 1<<32 - 2}
var sweepSe = []int64{0, 1, -1, 127, -128, 32767, -32768, 1<<31 - 1, -(1<<31 - 1)}
var sweepSEIVals = []uint64{0, 1, 254, 255, 256, 509, 510, 511, 1000}

// one element of a synthetic stream: the bits, the reader op that reads them, the value it must return ("" = only the
// model comparison speaks: the accumulator cannot hold width + pending bits)
type selem struct {
	op   string
	put  func(q *bitbuf)
	want string
}

func hiByte(r *hx.Rng) byte { return byte(r.Pick(0xff, 0x80, 0xfe, 0x81, 0x80|r.Intn(128))) }
func zByte(r *hx.Rng) byte  { return byte(r.Pick(0, 0, 0, 0, 1, 2, 3, 0xff)) }

func kindBytes(r *hx.Rng, k int, rich bool) []byte {
	b := make([]byte, k)
	for i := range b {
		if rich {
			b[i] = zByte(r)
		} else {
			b[i] = hiByte(r)
		}
	}
	return b
}

// kindValue: a w-bit value with the top bit set / all ones (rich = false) or zero / tiny (rich = true)
func kindValue(r *hx.Rng, w int, rich bool) uint64 {
	if w == 0 {
		return 0
	}
	m := ^uint64(0)
	if w < 64 {
		m = uint64(1)<<uint(w) - 1
	}
	if rich {
		return uint64(r.Pick(0, 0, 1, 3)) & m
	}
	if r.Bool() {
		return m
	}
	return (r.U64() | uint64(1)<<uint(w-1)) & m
}

func bitsElem(op string, v uint64, w int, want string) selem {
	return selem{op, func(q *bitbuf) { q.put(v, w) }, want}
}

func bytesElem(b []byte) selem {
	return selem{"y:" + strconv.Itoa(len(b)), func(q *bitbuf) {
		for _, x := range b {
			q.put(uint64(x), 8)
		}
	}, hx.Hex(b)}
}

// pendingAfter: bits left in the accumulator after c bits of the stream were consumed by byte-wise refills
func pendingAfter(c int) int { return (8 - c%8) % 8 }

// holds: can a read of w bits after c consumed bits be exact in a 64-bit accumulator refilled byte by byte?
func holds(c, w int) bool {
	p := pendingAfter(c)
	if w <= p {
		return true
	}
	return p+8*((w-p+7)/8) <= 64
}

type sweepCase struct {
	name string
	raw  []byte // the packed, unescaped stream (whole bytes, trailing bits included)
	esc  []byte
	ops  []string
	want []string
	cum  []int // bits consumed after each op
}

// underTest: the ops placed at alignment a
func underTest(r *hx.Rng, rich bool, a int) []selem {
	var l []selem
	for _, k := range sweepByteSizes {
		l = append(l, bytesElem(kindBytes(r, k, rich)))
	}
	for _, w := range sweepWidths {
		v := kindValue(r, w, rich)
		want := ""
		if holds(a, w) {
			want = hx.HexU(v)
		}
		l = append(l, bitsElem("b:"+strconv.Itoa(w), v, w, want))
	}
	for _, f := range []uint64{0, 1} {
		l = append(l, bitsElem("f", f, 1, hx.HexU(f)))
	}
	for _, v := range sweepUe {
		v := v
		l = append(l, selem{"u", func(q *bitbuf) { q.ue(v) }, hx.HexU(v)})
	}
	for _, i := range sweepSe {
		i := i
		l = append(l, selem{"S", func(q *bitbuf) { q.ue(seToUe(i)) }, hx.HexI(i)})
	}
	l = append(l, selem{"m", func(q *bitbuf) {}, "1"})
	return l
}

// sweepReaderCases: for every alignment, data kind and op under test one stream:
// Read(a) | OP | Read(5) | MoreRbspData | ReadBytes(2) | Read(3) | MoreRbspData | ReadRbspTrailingBits
func sweepReaderCases(r *hx.Rng) []sweepCase {
	var cs []sweepCase
	for a := 0; a < 8; a++ {
		for _, rich := range []bool{false, true} {
			for _, ut := range underTest(r, rich, a) {
				var els []selem
				if a > 0 {
					v := kindValue(r, a, rich)
					els = append(els, bitsElem("b:"+strconv.Itoa(a), v, a, hx.HexU(v)))
				}
				els = append(els, ut)
				v5 := kindValue(r, 5, rich)
				els = append(els, bitsElem("b:5", v5, 5, hx.HexU(v5)), selem{"m", func(q *bitbuf) {}, "1"},
					bytesElem(kindBytes(r, 2, rich)))
				v3 := kindValue(r, 3, false) // a one before the trailing bits: the first look-ahead says "more"
				els = append(els, bitsElem("b:3", v3, 3, hx.HexU(v3)), selem{"m", func(q *bitbuf) {}, "0"}, selem{"t", func(q *bitbuf) {}, "T0"})
				var q bitbuf
				c := sweepCase{name: fmt.Sprintf("align=%d rich=%v op=%s", a, rich, ut.op)}
				for _, e := range els {
					e.put(&q)
					c.ops = append(c.ops, e.op)
					c.want = append(c.want, e.want)
					c.cum = append(c.cum, len(q.b))
				}
				q.trailing()
				c.cum[len(c.cum)-1] = len(q.b) // the trailing bits are consumed by the last op
				c.raw = q.bytes()
				c.esc = naiveEscape(c.raw)
				cs = append(cs, c)
			}
		}
	}
	return cs
}

// plain reader (bits.Reader): Read(a) | Read(w) or ReadSigned(w) or ReadFlag | Read(3)
func sweepPlainCases(r *hx.Rng) []sweepCase {
	var cs []sweepCase
	for a := 0; a < 8; a++ {
		for _, rich := range []bool{false, true} {
			for _, w := range sweepWidths {
				for _, signed := range []bool{false, true} {
					if signed && w == 0 {
						continue
					}
					var q bitbuf
					c := sweepCase{name: fmt.Sprintf("plain align=%d rich=%v w=%d signed=%v", a, rich, w, signed)}
					add := func(op string, v uint64, wd int, want string) {
						q.put(v, wd)
						c.ops, c.want, c.cum = append(c.ops, op), append(c.want, want), append(c.cum, len(q.b))
					}
					if a > 0 {
						v := kindValue(r, a, rich)
						add("b:"+strconv.Itoa(a), v, a, hx.HexU(v))
					}
					v := kindValue(r, w, rich)
					want := ""
					if signed {
						if holds(a, w) {
							want = hx.HexI(int64(v<<uint(64-w)) >> uint(64-w))
						}
						add("g:"+strconv.Itoa(w), v, w, want)
					} else {
						if holds(a, w) {
							want = hx.HexU(v)
						}
						add("b:"+strconv.Itoa(w), v, w, want)
					}
					f := uint64(r.Intn(2))
					add("f", f, 1, hx.HexU(f))
					v3 := kindValue(r, 3, rich)
					add("b:3", v3, 3, hx.HexU(v3))
					for len(q.b)%8 != 0 {
						q.b = append(q.b, 1)
					}
					c.raw = q.bytes()
					c.esc = c.raw
					cs = append(cs, c)
				}
			}
		}
	}
	return cs
}

// ---------------------------------------------------------------- writers
// EBSPWriter: Write(a) | OP | Write(5) | trailing bits, OP over every width / value kind, flag, ue, se, SEI value,
// stuffing, trailing bits in the middle
func sweepWriterCases(r *hx.Rng) [][]wop {
	var cs [][]wop
	for a := 0; a < 8; a++ {
		for _, rich := range []bool{false, true} {
			var uts []wop
			for _, w := range sweepWidths {
				uts = append(uts, wop{k: 'b', v: kindValue(r, w, rich), w: w})
			}
			uts = append(uts, wop{k: 'f', v: 0}, wop{k: 'f', v: 1})
			for _, v := range sweepUe {
				uts = append(uts, wop{k: 'u', v: v})
			}
			for _, i := range sweepSe {
				uts = append(uts, wop{k: 's', i: i})
			}
			for _, v := range sweepSEIVals {
				uts = append(uts, wop{k: 'v', v: v})
			}
			uts = append(uts, wop{k: 'z'}, wop{k: 't'})
			for _, ut := range uts {
				var ops []wop
				if a > 0 {
					ops = append(ops, wop{k: 'b', v: kindValue(r, a, rich), w: a})
				}
				ops = append(ops, ut, wop{k: 'b', v: kindValue(r, 5, rich), w: 5}, wop{k: 't'})
				cs = append(cs, ops)
			}
		}
	}
	return cs
}

// packOps: the bits the ops stand for (independent of the library); ok = false when an op is outside what the 64-bit
// accumulator holds exactly (width + up to 7 pending bits > 64)
func packOps(ops []wop) (raw []byte, ok bool) {
	var q bitbuf
	ok = true
	for _, o := range ops {
		switch o.k {
		case 'b':
			if o.w+len(q.b)%8 > 64 {
				ok = false
			}
			q.put(o.v, o.w)
		case 'f', 'u', 's':
			q.putOp(o)
		case 'v':
			for v := o.v; ; v -= 255 {
				if v < 255 {
					q.put(v, 8)
					break
				}
				q.put(0xff, 8)
			}
		case 'z':
			for len(q.b)%8 != 0 {
				q.b = append(q.b, 0)
			}
		case 't':
			q.trailing()
		}
	}
	return q.bytes(), ok && len(q.b)%8 == 0
}

// FixedSliceWriter: WriteBits(a) | bulk method of every size class | WriteBits(5) | FlushBits
func sweepFixedCases(r *hx.Rng) [][]fop {
	var cs [][]fop
	for a := 0; a < 8; a++ {
		for _, rich := range []bool{false, true} {
			var uts []fop
			for _, k := range []int{0, 1, 7, 8, 9, 16, 17, 64} {
				uts = append(uts, fop{k: "y", b: kindBytes(r, k, rich)}, fop{k: "z", w: k})
			}
			for _, k := range []int{1, 2, 4, 8} {
				uts = append(uts, fop{k: "u", w: k, v: kindValue(r, 8*k, rich)})
			}
			for _, k := range []int{2, 4, 8} {
				uts = append(uts, fop{k: "i", w: k, i: int64(kindValue(r, 8*k, rich)<<uint(64-8*k)) >> uint(64-8*k)})
			}
			uts = append(uts, fop{k: "u3", v: kindValue(r, 24, rich)}, fop{k: "u6", v: kindValue(r, 48, rich)}, fop{k: "m"}, fop{k: "l"})
			for _, w := range sweepWidths {
				uts = append(uts, fop{k: "b", v: kindValue(r, w, rich), w: w})
			}
			for _, ut := range uts {
				var ops []fop
				if a > 0 {
					ops = append(ops, fop{k: "b", v: kindValue(r, a, rich), w: a})
				}
				ops = append(ops, ut, fop{k: "b", v: kindValue(r, 5, rich), w: 5}, fop{k: "l"})
				cs = append(cs, ops)
			}
		}
	}
	return cs
}

// ---------------------------------------------------------------- corr
func corrSweep(r *hx.Rng, id *int) {
	emitR := func(mode string, c sweepCase) {
		obs := runReaderX(c.esc, c.ops, mode == "E")
		fmt.Fprintf(out, "R\t%d\t%s\t%s\t%s\t%s\n", *id, mode, hx.Hex(c.esc), strings.Join(c.ops, ";"), strings.Join(obs, ","))
		*id++
	}
	for _, c := range sweepReaderCases(r) {
		emitR("E", c)
	}
	for _, c := range sweepPlainCases(r) {
		emitR("P", c)
	}
	for _, ops := range sweepWriterCases(r) {
		b, tr, _ := runEBSPX(-1, ops)
		fmt.Fprintf(out, "X\t%d\tE\t-\t%s\t%s\t%s\n", *id, opsString(ops), hx.Hex(b), tr)
		*id++
		// the plain writer with the fixed-width ops of the same case, flushed
		var pops []wop
		for _, o := range ops {
			if o.k == 'b' || o.k == 'f' {
				pops = append(pops, o)
			}
		}
		pops = append(pops, wop{k: 'l'})
		pb, ptr, _ := runPlainX(-1, pops)
		fmt.Fprintf(out, "X\t%d\tP\t-\t%s\t%s\t%s\n", *id, opsString(pops), hx.Hex(pb), ptr)
		*id++
	}
	for _, fops := range sweepFixedCases(r) {
		for _, capacity := range []int{200, 9} {
			fb, ftr := runFSW(capacity, fops)
			fmt.Fprintf(out, "F\t%d\t%d\t%s\t%s\t%s\n", *id, capacity, fopsString(fops), hx.Hex(fb), ftr)
			*id++
		}
	}
}

// ---------------------------------------------------------------- search
func searchSweep(r *hx.Rng) int {
	evals := 0
	for _, c := range sweepReaderCases(r) {
		evals++
		el := escapedLengths(c.raw)
		obs := runReaderX(c.esc, c.ops, true)
		w := c.name + " stream=" + hx.Hex(c.esc) + " ops=" + strings.Join(c.ops, ";")
		for k, o := range obs {
			f := strings.Split(o, "/")
			if len(f) != 5 {
				continue
			}
			site := "bits.EBSPReader." + map[byte]string{'b': "Read", 'f': "ReadFlag", 'u': "ReadExpGolomb", 'S': "ReadSignedGolomb", 'y': "ReadBytes",
				'm': "MoreRbspData", 't': "ReadRbspTrailingBits"}[c.ops[k][0]]
			if c.want[k] != "" && f[0] != c.want[k] {
				fail(site, "sweep-value", w, fmt.Sprintf("op %d (%s) at bit %d of the stream returned %s, the stream holds %s", k, c.ops[k], c.cum[k], f[0], c.want[k]))
				break
			}
			if f[1] != "0" {
				fail(site, "sweep-error", w, fmt.Sprintf("op %d (%s): AccError set inside a well-formed stream", k, c.ops[k]))
				break
			}
			if c.want[k] == "" {
				break // an inexact wide read: what follows is the model's business only
			}
			// counters: position in the escaped stream
			nb := (c.cum[k] + 7) / 8
			wantBytes := el[nb]
			wantBits := 8*wantBytes - (8*nb - c.cum[k])
			if c.cum[k] == 0 {
				wantBytes, wantBits = 0, 0
			}
			if c.ops[k] == "t" {
				continue // the trailing-bits reader runs to the end of the data
			}
			if f[2] != strconv.Itoa(wantBytes) || f[3] != strconv.Itoa(wantBits) {
				fail(site, "sweep-counter", w, fmt.Sprintf("after op %d (%s) NrBytesRead/NrBitsRead = %s/%s, position in the escaped stream is %d/%d", k, c.ops[k], f[2], f[3], wantBytes, wantBits))
				break
			}
		}
	}
	for _, c := range sweepPlainCases(r) {
		evals++
		obs := runReaderX(c.raw, c.ops, false)
		w := c.name + " data=" + hx.Hex(c.raw) + " ops=" + strings.Join(c.ops, ";")
		for k, o := range obs {
			f := strings.Split(o, "/")
			if c.want[k] == "" {
				break
			}
			site := "bits.Reader.Read"
			if c.ops[k][0] == 'g' {
				site = "bits.Reader.ReadSigned"
			}
			if f[0] != c.want[k] || f[1] != "0" {
				fail(site, "sweep-value", w, fmt.Sprintf("op %d (%s) at bit %d returned %s (err %s), the data holds %s", k, c.ops[k], c.cum[k]-0, f[0], f[1], c.want[k]))
				break
			}
			if f[3] != strconv.Itoa(c.cum[k]) {
				fail(site, "sweep-counter", w, fmt.Sprintf("after op %d NrBitsRead = %s, %d bits were read", k, f[3], c.cum[k]))
				break
			}
		}
	}
	for _, ops := range sweepWriterCases(r) {
		raw, ok := packOps(ops)
		if !ok {
			continue
		}
		evals++
		b, _, err := runEBSPX(-1, ops)
		if err != nil || !bytes.Equal(b, naiveEscape(raw)) {
			fail("bits.EBSPWriter", "sweep-not-standard-escape", opsString(ops), fmt.Sprintf("output %s (err %v) is not the escaping %s of the packed bits", hx.Hex(b), err, hx.Hex(naiveEscape(raw))))
		}
		// plain writer / fixed slice writer: the same bits without escaping
		var pops []wop
		for _, o := range ops {
			if o.k == 'b' || o.k == 'f' {
				pops = append(pops, o)
			}
		}
		pops = append(pops, wop{k: 'l'})
		var q bitbuf
		for _, o := range pops {
			q.putOp(o)
		}
		for len(q.b)%8 != 0 {
			q.b = append(q.b, 0)
		}
		pb, _, perr := runPlainX(-1, pops)
		fb := runFixedWriter(pops)
		if perr != nil || !bytes.Equal(pb, q.bytes()) {
			fail("bits.Writer", "sweep-bits", opsString(pops), "output "+hx.Hex(pb)+" is not the packed bits "+hx.Hex(q.bytes()))
		}
		if !bytes.Equal(fb, q.bytes()) {
			fail("bits.FixedSliceWriter.WriteBits", "sweep-bits", opsString(pops), "output "+hx.Hex(fb)+" is not the packed bits "+hx.Hex(q.bytes()))
		}
	}
	// byte-aligned bulk methods of the FixedSliceWriter: the bytes themselves (big endian), whatever their size class
	for _, fops := range sweepFixedCases(r) {
		if fops[0].k == "b" && len(fops) == 4 {
			continue // unaligned bulk writes: model comparison only (corr)
		}
		evals++
		ut := fops[0]
		var want []byte
		switch ut.k {
		case "b", "l":
			continue
		default:
			want = fopBytes(ut)
		}
		sw := bits.NewFixedSliceWriter(200)
		applyFop(sw, ut)
		if sw.AccError() != nil || !bytes.Equal(sw.Bytes(), want) {
			fail("bits.FixedSliceWriter", "sweep-bulk", fopsString(fops[:1]), "wrote "+hx.Hex(sw.Bytes())+", the big-endian bytes are "+hx.Hex(want))
		}
	}
	return evals
}
