// Second extension of the C13 harness (C13b):
//   - EBSPWriter / Writer over an io.Writer that starts failing after k one-byte writes (X lines, prefix oracle),
//   - every width 0..70 and values with junk above the width, Exp-Golomb values over the whole uint range
//     (WriteExpGolomb rejects values above 2^57-2 since repo commit 9ec0951),
//   - readers: widths 0..70, ReadSignedGolomb / ReadSigned at the integer boundaries, reads after the first error.
package main

import (
	"bytes"
	"errors"
	"fmt"
	"strconv"
	"strings"
	"time"

	"github.com/Eyevinn/mp4ff/bits"
	"verifharness/hx"
)

const maxUe = uint64(1)<<57 - 2

var errSink = errors.New("sink full")

// failAt accepts `left` bytes in total (left < 0: unlimited), then every Write fails; with once set only the first
// refused Write fails and later ones are accepted again (a writer that keeps its first error never gets that far).
type failAt struct {
	buf  []byte
	left int
	once bool
}

func (f *failAt) Write(p []byte) (int, error) {
	if f.left == 0 && f.once {
		f.left = -1
		return 0, errSink
	}
	if f.left < 0 {
		f.buf = append(f.buf, p...)
		return len(p), nil
	}
	if len(p) > f.left {
		n := f.left
		f.buf = append(f.buf, p[:n]...)
		f.left = 0
		return n, errSink
	}
	f.left -= len(p)
	f.buf = append(f.buf, p...)
	return len(p), nil
}

// ueHangs: WriteExpGolomb(MaxUint64) in a goroutine with a wall-clock budget (the prefix loop of the code before
// repo commit 9ec0951 never terminated for this one value); probed once, so that a hang cannot stall the harness.
var ueHangState = 0

func ueHangs() bool {
	if ueHangState == 0 {
		done := make(chan struct{})
		go func() {
			w := bits.NewEBSPWriter(&failAt{left: -1})
			w.WriteExpGolomb(uint(^uint64(0)))
			close(done)
		}()
		select {
		case <-done:
			ueHangState = 1
		case <-time.After(10 * time.Second):
			ueHangState = 2
		}
	}
	return ueHangState == 2
}

func capString(c int) string {
	if c < 0 {
		return "-"
	}
	return strconv.Itoa(c)
}

func applyEBSPOp(w *bits.EBSPWriter, o wop) {
	switch o.k {
	case 'b':
		w.Write(uint(o.v), o.w)
	case 'f':
		w.Write(uint(o.v), 1)
	case 'u':
		w.WriteExpGolomb(uint(o.v))
	case 's':
		w.WriteExpGolomb(uint(seToUe(o.i)))
	case 'v':
		w.WriteSEIValue(uint(o.v))
	case 't':
		w.WriteRbspTrailingBits()
	case 'z':
		w.StuffByteWithZeros()
	}
}

// runEBSPX: bytes that reached the sink, per-op trace v/n/err, final error
func runEBSPX(capacity int, ops []wop) ([]byte, string, error) {
	return runEBSPXOnce(capacity, ops, false)
}

func runEBSPXOnce(capacity int, ops []wop, once bool) ([]byte, string, error) {
	sink := &failAt{left: capacity, once: once}
	w := bits.NewEBSPWriter(sink)
	tr := make([]string, 0, len(ops))
	for _, o := range ops {
		applyEBSPOp(w, o)
		v, n := w.BitsInBuffer()
		e := 0
		if w.AccError() != nil {
			e = 1
		}
		tr = append(tr, fmt.Sprintf("%s/%d/%d", hx.HexU(uint64(v)), int(n), e))
	}
	t := "-"
	if len(tr) > 0 {
		t = strings.Join(tr, ",")
	}
	return sink.buf, t, w.AccError()
}

func runPlainX(capacity int, ops []wop) ([]byte, string, error) {
	return runPlainXOnce(capacity, ops, false)
}

func runPlainXOnce(capacity int, ops []wop, once bool) ([]byte, string, error) {
	sink := &failAt{left: capacity, once: once}
	w := bits.NewWriter(sink)
	tr := make([]string, 0, len(ops))
	for _, o := range ops {
		switch o.k {
		case 'b':
			w.Write(uint(o.v), o.w)
		case 'f':
			w.Write(uint(o.v), 1)
		case 'l':
			w.Flush()
		}
		if w.AccError() != nil {
			tr = append(tr, "1")
		} else {
			tr = append(tr, "0")
		}
	}
	t := "-"
	if len(tr) > 0 {
		t = strings.Join(tr, ",")
	}
	return sink.buf, t, w.AccError()
}

// ---------------------------------------------------------------- generators
func genWideValue(r *hx.Rng, w int) uint64 {
	var v uint64
	switch r.Intn(5) {
	case 0:
		v = ^uint64(0)
	case 1:
		v = uint64(r.Intn(4))
	case 2:
		v = uint64(1) << uint(r.Intn(64))
	default:
		v = r.U64()
	}
	if w < 64 && r.Intn(3) != 0 { // mostly in range, often with junk above the width
		v &= (uint64(1) << uint(w)) - 1
	}
	return v
}

func genWidth(r *hx.Rng) int {
	switch r.Intn(8) {
	case 0:
		return r.Pick(0, 1, 7, 8, 9, 31, 32, 33, 56, 57, 58, 63, 64)
	case 1:
		return r.Range(57, 64)
	case 2:
		return r.Range(65, 70)
	default:
		return r.Range(0, 64)
	}
}

func genUe(r *hx.Rng) uint64 {
	switch r.Intn(6) {
	case 0:
		return uint64(r.Intn(10))
	case 1:
		return (uint64(1) << uint(r.Range(1, 63))) - uint64(r.Intn(3))
	case 2:
		return maxUe - 2 + uint64(r.Intn(5)) // around the bound
	case 3:
		if ueHangs() {
			return ^uint64(0) - 1 - uint64(r.Intn(3))
		}
		return ^uint64(0) - uint64(r.Intn(3))
	default:
		return r.U64() >> uint(r.Range(0, 63))
	}
}

func genSe(r *hx.Rng) int64 {
	switch r.Intn(4) {
	case 0:
		return int64(r.Range(-5, 5))
	case 1:
		k := int64(1)<<56 - 2 + int64(r.Intn(5)) // se_to_ue around the bound: 2^57-2 is -(2^56-1)
		if r.Bool() {
			k = -k
		}
		return k
	case 2:
		k := int64(1)<<uint(r.Range(1, 60)) - int64(r.Intn(2))
		if r.Bool() {
			k = -k
		}
		return k
	default:
		return int64(r.U64()) >> uint(r.Range(3, 62))
	}
}

// wide = widths 0..70 with junk above the width; otherwise widths 1..57 with in-range values (the round-trip domain)
func genWopsX(r *hx.Rng, wide bool) []wop {
	n := r.Range(0, 14)
	ops := make([]wop, 0, n)
	for i := 0; i < n; i++ {
		switch r.Intn(12) {
		case 0, 1, 2, 3, 4:
			if wide {
				w := genWidth(r)
				ops = append(ops, wop{k: 'b', v: genWideValue(r, w), w: w})
			} else {
				w := r.Range(1, 57)
				ops = append(ops, wop{k: 'b', v: r.U64() & ((uint64(1) << uint(w)) - 1), w: w})
			}
		case 5:
			ops = append(ops, wop{k: 'f', v: uint64(r.Intn(2))})
		case 6, 7:
			ops = append(ops, wop{k: 'u', v: genUe(r)})
		case 8:
			ops = append(ops, wop{k: 's', i: genSe(r)})
		case 9:
			ops = append(ops, wop{k: 'v', v: uint64(r.Pick(0, 254, 255, 256, 510, r.Intn(2000)))})
		case 10:
			ops = append(ops, wop{k: 't'})
		case 11:
			ops = append(ops, wop{k: 'z'})
		}
	}
	return ops
}

func genPlainWopsX(r *hx.Rng) []wop {
	n := r.Range(0, 14)
	ops := make([]wop, 0, n)
	for i := 0; i < n; i++ {
		switch r.Intn(6) {
		case 0:
			ops = append(ops, wop{k: 'l'})
		case 1:
			ops = append(ops, wop{k: 'f', v: uint64(r.Intn(2))})
		default:
			w := genWidth(r)
			ops = append(ops, wop{k: 'b', v: genWideValue(r, w), w: w})
		}
	}
	return ops
}

// reader ops as strings: b:w f u s S y:k m t (EBSP), b:w f g:k (plain)
func genRopsX(r *hx.Rng, n int, esc bool) []string {
	ops := make([]string, 0, n)
	for i := 0; i < n; i++ {
		if !esc {
			switch r.Intn(4) {
			case 0:
				ops = append(ops, "f")
			case 1:
				ops = append(ops, "g:"+strconv.Itoa(genWidth(r)))
			default:
				ops = append(ops, "b:"+strconv.Itoa(genWidth(r)))
			}
			continue
		}
		switch r.Intn(10) {
		case 0, 1, 2:
			ops = append(ops, "b:"+strconv.Itoa(genWidth(r)))
		case 3:
			ops = append(ops, "f")
		case 4, 5:
			ops = append(ops, "u")
		case 6:
			ops = append(ops, "S")
		case 7:
			ops = append(ops, "y:"+strconv.Itoa(r.Range(0, 4)))
		case 8:
			ops = append(ops, "m")
		case 9:
			ops = append(ops, "t")
		}
	}
	return ops
}

func boolStr(b bool) string {
	if b {
		return "1"
	}
	return "0"
}

// runReaderX executes string ops on the real readers; per op: value/err/nrBytes/nrBits/nrBitsCur
func runReaderX(data []byte, ops []string, esc bool) []string {
	obs := make([]string, 0, len(ops))
	var er *bits.EBSPReader
	var pr *bits.Reader
	if esc {
		er = bits.NewEBSPReader(bytes.NewReader(data))
	} else {
		pr = bits.NewReader(bytes.NewReader(data))
	}
	for _, o := range ops {
		f := strings.Split(o, ":")
		w := 0
		if len(f) > 1 {
			w, _ = strconv.Atoi(f[1])
		}
		var val string
		if esc {
			switch f[0] {
			case "b":
				val = hx.HexU(uint64(er.Read(w)))
			case "f":
				val = boolStr(er.ReadFlag())
			case "u":
				val = hx.HexU(uint64(er.ReadExpGolomb()))
			case "S", "s":
				val = hx.HexI(int64(er.ReadSignedGolomb()))
			case "y":
				val = hx.Hex(er.ReadBytes(w))
			case "m":
				more, err := er.MoreRbspData()
				switch {
				case err != nil:
					val = "E"
				case er.AccError() != nil:
					val = "N"
				default:
					val = boolStr(more)
				}
			case "t":
				val = trailClass(er.ReadRbspTrailingBits())
			}
			obs = append(obs, fmt.Sprintf("%s/%s/%d/%d/%d", val, boolStr(er.AccError() != nil), er.NrBytesRead(), er.NrBitsRead(), er.NrBitsReadInCurrentByte()))
		} else {
			switch f[0] {
			case "b":
				val = hx.HexU(uint64(pr.Read(w)))
			case "f":
				val = boolStr(pr.ReadFlag())
			case "g":
				var z int
				if p := hx.Try(func() { z = pr.ReadSigned(w) }); p != "" {
					val = "P"
				} else {
					val = hx.HexI(int64(z))
				}
			}
			obs = append(obs, fmt.Sprintf("%s/%s/%d/%d/%d", val, boolStr(pr.AccError() != nil), pr.NrBytesRead(), pr.NrBitsRead(), pr.NrBitsReadInCurrentByte()))
		}
	}
	return obs
}

// zero-heavy data: long zero runs (Exp-Golomb prefixes of 57..70 and more bits), a one, a tail
func genZeroHeavy(r *hx.Rng) []byte {
	var q bitbuf
	q.put(r.U64(), r.Intn(8))
	for k := r.Range(1, 3); k > 0; k-- {
		z := r.Range(50, 72)
		if r.Intn(4) == 0 {
			z = 64
		}
		for i := 0; i < z; i++ {
			q.b = append(q.b, 0)
		}
		q.b = append(q.b, 1)
		switch r.Intn(3) {
		case 0:
			for i := 0; i < z; i++ {
				q.b = append(q.b, 0)
			}
		case 1:
			for i := 0; i < z; i++ {
				q.b = append(q.b, 1)
			}
		default:
			for i := 0; i < z; i++ {
				q.b = append(q.b, byte(r.U64()&1))
			}
		}
	}
	for len(q.b)%8 != 0 {
		q.b = append(q.b, byte(r.U64()&1))
	}
	return q.bytes()
}

// ---------------------------------------------------------------- corr
func corrExt2(r *hx.Rng, n int, id *int) {
	emitX := func(mode string, capacity int, ops []wop, b []byte, tr string) {
		fmt.Fprintf(out, "X\t%d\t%s\t%s\t%s\t%s\t%s\n", *id, mode, capString(capacity), opsString(ops), hx.Hex(b), tr)
		*id++
	}
	emitR := func(mode string, data []byte, ops []string) {
		o := "-"
		s := "-"
		if len(ops) > 0 {
			o = strings.Join(runReaderX(data, ops, mode == "E"), ",")
			s = strings.Join(ops, ";")
		}
		fmt.Fprintf(out, "R\t%d\t%s\t%s\t%s\t%s\n", *id, mode, hx.Hex(data), s, o)
		*id++
	}
	// exhaustive: one Write of every width 0..70 after every number of pending bits 0..7, all-ones value
	for p := 0; p < 8; p++ {
		for w := 0; w <= 70; w++ {
			ops := []wop{{k: 'b', v: 0x55, w: p}, {k: 'b', v: ^uint64(0), w: w}, {k: 't'}}
			b, tr, _ := runEBSPX(-1, ops)
			emitX("E", -1, ops, b, tr)
			pops := []wop{{k: 'b', v: 0x55, w: p}, {k: 'b', v: ^uint64(0), w: w}, {k: 'l'}}
			pb, ptr, _ := runPlainX(-1, pops)
			emitX("P", -1, pops, pb, ptr)
			// reader: p bits, then every width, over all-ones and over a pattern
			for _, data := range [][]byte{bytes.Repeat([]byte{0xff}, 12), {0x12, 0x34, 0x56, 0x78, 0x9a, 0xbc, 0xde, 0xf0, 0x11, 0x22, 0x33}} {
				rops := []string{"b:" + strconv.Itoa(p), "b:" + strconv.Itoa(w), "b:3"}
				emitR("E", data, rops)
				emitR("P", data, []string{"b:" + strconv.Itoa(p), "g:" + strconv.Itoa(w), "b:3"})
			}
		}
	}
	for i := 0; i < n; i++ {
		ops := genWopsX(r, i%2 == 0)
		full, _, _ := runEBSPX(-1, ops)
		capacity := -1
		if i%3 != 0 {
			capacity = r.Range(0, len(full)+1)
		}
		b, tr, _ := runEBSPXOnce(capacity, ops, i%4 == 1) // a transient failure looks the same to a writer that keeps its first error
		emitX("E", capacity, ops, b, tr)
		// the reader on what was written (whatever it is) with the matching ops and a few more, to the end and beyond
		rops := make([]string, 0, len(ops)+6)
		for _, o := range ops {
			switch o.k {
			case 'b':
				rops = append(rops, "b:"+strconv.Itoa(o.w))
			case 'f':
				rops = append(rops, "f")
			case 'u':
				rops = append(rops, "u")
			case 's':
				rops = append(rops, "S")
			}
		}
		rops = append(rops, genRopsX(r, r.Range(0, 6), true)...)
		emitR("E", b, rops)
		pops := genPlainWopsX(r)
		pfull, _, _ := runPlainX(-1, pops)
		pcap := -1
		if i%3 != 1 {
			pcap = r.Range(0, len(pfull)+1)
		}
		pb, ptr, _ := runPlainXOnce(pcap, pops, i%4 == 2)
		emitX("P", pcap, pops, pb, ptr)
		// FixedSliceWriter.WriteBits / WriteFlag / FlushBits with the same wide ops, roomy or tight
		fops := make([]fop, len(pops))
		for j, o := range pops {
			fops[j] = fop{k: string(o.k), v: o.v, w: o.w}
		}
		fcap := r.Range(0, len(pfull)+4)
		fb, ftr := runFSW(fcap, fops)
		fmt.Fprintf(out, "F\t%d\t%d\t%s\t%s\t%s\n", *id, fcap, fopsString(fops), hx.Hex(fb), ftr)
		*id++
		// readers on arbitrary / zero-heavy bytes, wide ops, reads continuing after the first error
		var data []byte
		switch r.Intn(3) {
		case 0:
			data = genZeroHeavy(r)
		case 1:
			data = r.Bytes(r.Range(0, 20), escAlphabet)
		default:
			data = r.Bytes(r.Range(0, 20), nil)
		}
		emitR("E", data, genRopsX(r, r.Range(1, 10), true))
		emitR("P", data, genRopsX(r, r.Range(1, 10), false))
	}
}

// ---------------------------------------------------------------- search
// searchExt2: the property on the real code, over the whole domain the code accepts. Returns evaluations.
func searchExt2(r *hx.Rng) int {
	evals := 0
	// ---- (1) round trip over widths 1..57, in-range values, ue <= 2^57-2 and its signed mapping,
	//          against the independent packer; ue above the bound must be refused without writing anything
	all := genWopsX(r, false)
	ops := all[:0]
	for _, o := range all {
		switch o.k {
		case 'b', 'f':
			ops = append(ops, o)
		case 'u':
			if o.v <= maxUe {
				ops = append(ops, o)
			}
		case 's':
			if seToUe(o.i) <= maxUe {
				ops = append(ops, o)
			}
		}
	}
	var q bitbuf
	for _, o := range ops {
		q.putOp(o)
	}
	q.trailing()
	raw := q.bytes()
	wops := append(append([]wop{}, ops...), wop{k: 't'})
	junk := make([]wop, len(wops)) // the same ops with junk above the width: must be masked, not spilled
	for i, o := range wops {
		if o.k == 'b' && o.w < 64 && r.Bool() {
			o.v |= r.U64() << uint(o.w)
		}
		junk[i] = o
	}
	esc, _, werr := runEBSPX(-1, junk)
	evals++
	if werr != nil || !bytes.Equal(esc, naiveEscape(raw)) {
		fail("bits.EBSPWriter", "wide-not-standard-escape", opsString(wops), fmt.Sprintf("output %s (err %v) is not the escaping %s of the packed codes", hx.Hex(esc), werr, hx.Hex(naiveEscape(raw))))
		return evals
	}
	rd := bits.NewEBSPReader(bytes.NewReader(esc))
	for k, o := range ops {
		var got string
		switch o.k {
		case 'b':
			got = hx.HexU(uint64(rd.Read(o.w)))
		case 'f':
			got = boolStr(rd.ReadFlag())
		case 'u':
			got = hx.HexU(uint64(rd.ReadExpGolomb()))
		case 's':
			got = hx.HexI(int64(rd.ReadSignedGolomb()))
		}
		if got != wopWant(o) || rd.AccError() != nil {
			fail("bits.EBSPReader", "wide-roundtrip-value", opsString(wops), fmt.Sprintf("op %d (%s) read %s, acc=%v", k, o.String(), got, rd.AccError()))
			return evals
		}
	}
	// plain Writer -> Reader, ReadSigned as two's complement, widths 1..57
	{
		var buf bytes.Buffer
		w := bits.NewWriter(&buf)
		type sv struct {
			w int
			v int64
		}
		vals := make([]sv, r.Range(1, 10))
		for i := range vals {
			wd := r.Range(1, 57)
			v := int64(r.U64()) >> uint(64-wd) // sign-extended wd-bit value
			vals[i] = sv{wd, v}
			w.Write(uint(v), wd) // junk (sign bits) above the width: must be masked
		}
		w.Flush()
		pr := bits.NewReader(bytes.NewReader(buf.Bytes()))
		evals++
		for i, x := range vals {
			if got := pr.ReadSigned(x.w); int64(got) != x.v || pr.AccError() != nil {
				fail("bits.Reader.ReadSigned", "wide-twos-complement", fmt.Sprintf("%v", vals), fmt.Sprintf("value %d: wrote %d in %d bits, read %d (acc=%v)", i, x.v, x.w, got, pr.AccError()))
				break
			}
		}
	}
	// ---- (2) every Exp-Golomb value is either coded exactly or refused: no silent mis-coding, no hang
	{
		pend := r.Intn(8)
		pv := r.U64() & ((uint64(1) << uint(pend)) - 1)
		v := genUe(r)
		sink := &failAt{left: -1}
		w := bits.NewEBSPWriter(sink)
		w.Write(uint(pv), pend)
		w.WriteExpGolomb(uint(v))
		evals++
		if w.AccError() != nil {
			bv, bn := w.BitsInBuffer()
			if v <= maxUe || len(sink.buf) != 0 || int(bn) != pend || uint64(bv) != pv {
				fail("bits.EBSPWriter.WriteExpGolomb", "refusal-not-clean", fmt.Sprintf("pending=%d:%x value=%x", pend, pv, v), fmt.Sprintf("err=%v out=%s buffer=%x/%d", w.AccError(), hx.Hex(sink.buf), bv, bn))
			}
		} else {
			w.WriteRbspTrailingBits()
			rd := bits.NewEBSPReader(bytes.NewReader(sink.buf))
			gp := rd.Read(pend)
			gv := rd.ReadExpGolomb()
			if uint64(gp) != pv || uint64(gv) != v || rd.AccError() != nil {
				fail("bits.EBSPWriter.WriteExpGolomb", "silently-miscoded", fmt.Sprintf("pending=%d:%x value=%x", pend, pv, v), fmt.Sprintf("accepted, but read back pending=%x value=%x (acc=%v) from %s", gp, gv, rd.AccError(), hx.Hex(sink.buf)))
			}
		}
	}
	// ---- (3) failing io.Writer: bytes delivered = prefix of the fault-free output, error reported exactly when cut,
	//          nothing reaches the sink after the first error, state frozen
	{
		xops := genWopsX(r, r.Bool())
		full, _, ferr := runEBSPX(-1, xops)
		k := r.Range(0, len(full)+1)
		got, _, gerr := runEBSPXOnce(k, xops, r.Bool()) // transient or permanent failure: same for a sticky writer
		evals++
		want := full
		if k < len(full) {
			want = full[:k]
		}
		if !bytes.Equal(got, want) {
			fail("bits.EBSPWriter", "failing-writer-not-prefix", fmt.Sprintf("k=%d %s", k, opsString(xops)), fmt.Sprintf("delivered %s, fault-free output %s", hx.Hex(got), hx.Hex(full)))
		} else if (gerr != nil) != (ferr != nil || k < len(full)) {
			fail("bits.EBSPWriter.AccError", "failing-writer-error-report", fmt.Sprintf("k=%d %s", k, opsString(xops)), fmt.Sprintf("AccError=%v, fault-free AccError=%v, fault-free length %d", gerr, ferr, len(full)))
		}
		pops := genPlainWopsX(r)
		pfull, _, _ := runPlainX(-1, pops)
		k = r.Range(0, len(pfull)+1)
		pgot, _, pgerr := runPlainXOnce(k, pops, r.Bool())
		evals++
		want = pfull
		if k < len(pfull) {
			want = pfull[:k]
		}
		if !bytes.Equal(pgot, want) {
			fail("bits.Writer", "failing-writer-not-prefix", fmt.Sprintf("k=%d %s", k, opsString(pops)), fmt.Sprintf("delivered %s, fault-free output %s", hx.Hex(pgot), hx.Hex(pfull)))
		} else if (pgerr != nil) != (k < len(pfull)) {
			fail("bits.Writer.AccError", "failing-writer-error-report", fmt.Sprintf("k=%d %s", k, opsString(pops)), fmt.Sprintf("AccError=%v, fault-free length %d", pgerr, len(pfull)))
		}
	}
	// ---- (4) sticky read error: once AccError is set every read returns the zero value and nothing moves
	{
		data := r.Bytes(r.Range(0, 6), nil)
		er := bits.NewEBSPReader(bytes.NewReader(data))
		pr := bits.NewReader(bytes.NewReader(data))
		var le, lp uint
		for er.AccError() == nil {
			le = er.Read(r.Range(1, 40))
		}
		for pr.AccError() == nil {
			lp = pr.Read(r.Range(1, 40))
		}
		evals++
		if le != 0 || lp != 0 {
			fail("bits.EBSPReader.Read", "failing-read-nonzero", hx.Hex(data), fmt.Sprintf("the read that ran into the end returned %x / %x instead of 0", le, lp))
		}
		if er.NrBytesRead() != len(data) || pr.NrBytesRead() != len(data) {
			fail("bits.EBSPReader.NrBytesRead", "eof-position", hx.Hex(data), fmt.Sprintf("after the failing read NrBytesRead = %d / %d, input has %d bytes", er.NrBytesRead(), pr.NrBytesRead(), len(data)))
		}
		e0 := [3]int{er.NrBytesRead(), er.NrBitsRead(), er.NrBitsReadInCurrentByte()}
		p0 := [3]int{pr.NrBytesRead(), pr.NrBitsRead(), pr.NrBitsReadInCurrentByte()}
		for j := 0; j < 6; j++ {
			w := r.Range(1, 64)
			more, merr := er.MoreRbspData()
			bad := er.Read(w) != 0 || er.ReadFlag() || er.ReadExpGolomb() != 0 || er.ReadSignedGolomb() != 0 ||
				er.ReadBytes(3) != nil || more || merr != nil || er.ReadRbspTrailingBits() != nil || er.AccError() == nil ||
				e0 != [3]int{er.NrBytesRead(), er.NrBitsRead(), er.NrBitsReadInCurrentByte()}
			badp := pr.Read(w) != 0 || pr.ReadFlag() || pr.ReadSigned(w) != 0 || pr.AccError() == nil ||
				p0 != [3]int{pr.NrBytesRead(), pr.NrBitsRead(), pr.NrBitsReadInCurrentByte()}
			if bad {
				fail("bits.EBSPReader", "error-not-sticky", hx.Hex(data), "a read after the first error returned a non-zero value, cleared the error or moved a counter")
				break
			}
			if badp {
				fail("bits.Reader", "error-not-sticky", hx.Hex(data), "a read after the first error returned a non-zero value, cleared the error or moved a counter")
				break
			}
		}
	}
	return evals
}
