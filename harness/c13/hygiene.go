// Cross-cutting hygiene oracles of the C13 search (not used by corr).
//
// READERS (bits.EBSPReader, bits.Reader).  A sequence of reader ops is run on a bytes.Reader over an exact-capacity copy
// of the data (baseline: value / error flag / counters per op) and must give the same observations
//
//	(a) on a bytes.Reader over a sub-slice of a larger buffer (24 guard bytes behind it: intact; data unchanged),
//	(b) on a ReadSeeker that hands out one byte per Read, and one that returns its last bytes together with io.EOF
//	    (both allowed by the io.Reader contract)                                              class reader-dependent,
//	(c) on a ReadSeeker that does NOT start at offset 0 (a prefix was consumed by the caller before the reader was made):
//	    the EBSP reader's look-ahead (MoreRbspData) must come back to where it was             class depends-on-reader-offset,
//	(d) when a second reader object over other data is stepped in between every two ops        class depends-on-other-objects.
//
// The byte slices ReadBytes / ReadRemainingBytes returned must not change afterwards - neither when the caller overwrites
// the buffer behind its io.Reader (keeps-callers-buffer) nor when the reader goes on reading (result-changed-by-later-calls).
//
// WRITERS.  EBSPWriter / Writer / ByteWriter into a plain io.Writer that takes the bytes one at a time give the bytes
// they give into a bytes.Buffer (writer-dependent); two writer objects stepped alternately give what each gives alone
// (depends-on-other-objects).  A FixedSliceWriter made by NewFixedSliceWriterFromSlice(buf[:n]) where buf has spare
// capacity never writes behind n (writes-beyond-len) and behaves like NewFixedSliceWriter(n) op by op, overflowing ops
// included (depends-on-capacity); the slice given to WriteBytes is not kept (keeps-callers-buffer) nor modified.
// NOT demanded: NewFixedSliceWriterFromSlice is documented to write INTO the slice it is given.
package main

import (
	"bytes"
	"fmt"
	"io"
	"strings"

	"github.com/Eyevinn/mp4ff/bits"
	"verifharness/hx"
)

const guardLen = 24
const guardByte = 0xA5

func guardedCopy(b []byte) (full []byte, sub []byte) {
	full = make([]byte, len(b)+guardLen)
	copy(full, b)
	for i := len(b); i < len(full); i++ {
		full[i] = guardByte
	}
	return full, full[:len(b)]
}

func guardsIntact(full []byte, n int) bool {
	for i := n; i < len(full); i++ {
		if full[i] != guardByte {
			return false
		}
	}
	return true
}

var hygSeen = map[string]int{}

func hygFail(site, class, witness, desc string) {
	hygSeen[site+"/"+class]++
	if hygSeen[site+"/"+class] <= 3 {
		fail(site, class, witness, desc)
	}
}

// chunkSeeker is an io.ReadSeeker over b: mode 1 hands out one byte per Read, mode 2 returns the last bytes together
// with io.EOF.
type chunkSeeker struct {
	b    []byte
	pos  int
	mode int
}

func (c *chunkSeeker) Read(p []byte) (int, error) {
	if len(p) == 0 {
		return 0, nil
	}
	if c.pos >= len(c.b) {
		return 0, io.EOF
	}
	n := len(p)
	if c.mode == 1 {
		n = 1
	}
	n = copy(p[:n], c.b[c.pos:])
	c.pos += n
	if c.mode == 2 && c.pos == len(c.b) {
		return n, io.EOF
	}
	return n, nil
}

func (c *chunkSeeker) Seek(off int64, whence int) (int64, error) {
	var np int64
	switch whence {
	case io.SeekStart:
		np = off
	case io.SeekCurrent:
		np = int64(c.pos) + off
	case io.SeekEnd:
		np = int64(len(c.b)) + off
	}
	if np < 0 {
		return 0, fmt.Errorf("negative position")
	}
	c.pos = int(np)
	if c.pos > len(c.b) {
		c.pos = len(c.b)
	}
	return np, nil
}

// one reader op on an EBSP reader; keeps the byte slices returned
type ebspRun struct {
	r      *bits.EBSPReader
	obs    []string
	slices [][]byte // what ReadBytes returned
	copies [][]byte // private copies taken at once
}

func (e *ebspRun) step(o rop) {
	r := e.r
	var val string
	switch o.k {
	case 'b':
		val = hx.HexU(uint64(r.Read(o.w)))
	case 'f':
		val = "0"
		if r.ReadFlag() {
			val = "1"
		}
	case 'u':
		val = hx.HexU(uint64(r.ReadExpGolomb()))
	case 's':
		val = hx.HexI(int64(r.ReadSignedGolomb()))
	case 'y':
		b := r.ReadBytes(o.w)
		val = hx.Hex(b)
		e.slices, e.copies = append(e.slices, b), append(e.copies, hx.Exact(b))
	case 'm':
		more, err := r.MoreRbspData()
		switch {
		case err != nil:
			val = "E"
		case r.AccError() != nil:
			val = "N"
		case more:
			val = "1"
		default:
			val = "0"
		}
	case 't':
		val = trailClass(r.ReadRbspTrailingBits())
	}
	er := 0
	if r.AccError() != nil {
		er = 1
	}
	e.obs = append(e.obs, fmt.Sprintf("%s/%d/%d/%d/%d", val, er, r.NrBytesRead(), r.NrBitsRead(), r.NrBitsReadInCurrentByte()))
}

func (e *ebspRun) slicesChanged() bool {
	for i := range e.slices {
		if !bytes.Equal(e.slices[i], e.copies[i]) {
			return true
		}
	}
	return false
}

func runEBSPOn(rd io.Reader, ops []rop) (e *ebspRun, panicked string) {
	e = &ebspRun{r: bits.NewEBSPReader(rd)}
	panicked = hx.Try(func() {
		for _, o := range ops {
			e.step(o)
		}
	})
	return e, panicked
}

func obsDiff(a, b []string) string {
	for i := range a {
		if i >= len(b) || a[i] != b[i] {
			g := "-"
			if i < len(b) {
				g = b[i]
			}
			return fmt.Sprintf("op %d: %s, on the plain bytes.Reader %s", i, g, a[i])
		}
	}
	if len(a) != len(b) {
		return "number of observations"
	}
	return ""
}

var offsetPrefix = []byte{0x00, 0x00, 0x03, 0x80, 0x7f}

// hygEBSPReader: see the file comment.
func hygEBSPReader(data []byte, ops []rop) int {
	w := hx.Hex(data) + " " + ropsString(ops)
	base, p0 := runEBSPOn(bytes.NewReader(hx.Exact(data)), ops)
	if p0 != "" {
		return 1 // panics are the business of the property's own oracles and C16
	}
	site := "bits.EBSPReader"
	cmp := func(class, how string, rd io.Reader) *ebspRun {
		e, p := runEBSPOn(rd, ops)
		if p != "" {
			hygFail(site, class, w, how+": panic "+p)
			return e
		}
		if d := obsDiff(base.obs, e.obs); d != "" {
			hygFail(site, class, w, how+": "+d)
		}
		return e
	}
	// (a) sub-slice with guard bytes, then the caller re-uses the buffer
	full, sub := guardedCopy(data)
	ea := cmp("depends-on-capacity", "bytes.Reader over a sub-slice of a larger buffer", bytes.NewReader(sub))
	if !guardsIntact(full, len(data)) {
		hygFail(site, "writes-beyond-len", w, "a byte behind the data of the io.Reader was overwritten")
	}
	if !bytes.Equal(sub, data) {
		hygFail(site, "modifies-input", w, "the reader changed the bytes behind its io.Reader")
	}
	if ea.slicesChanged() {
		hygFail(site+".ReadBytes", "result-changed-by-later-calls", w, "bytes returned by ReadBytes changed while the reader went on reading")
	}
	for i := range sub {
		sub[i] ^= 0x5A
	}
	if ea.slicesChanged() {
		hygFail(site+".ReadBytes", "keeps-callers-buffer", w, "bytes returned by ReadBytes changed when the caller overwrote the buffer behind its io.Reader")
	}
	// (b) short reads, data together with EOF
	cmp("reader-dependent", "ReadSeeker handing out one byte per Read", &chunkSeeker{b: hx.Exact(data), mode: 1})
	cmp("reader-dependent", "ReadSeeker returning its last bytes together with io.EOF", &chunkSeeker{b: hx.Exact(data), mode: 2})
	// (c) a seeker that does not start at offset 0
	off := bytes.NewReader(append(append([]byte{}, offsetPrefix...), data...))
	_, _ = off.Seek(int64(len(offsetPrefix)), io.SeekStart)
	cmp("depends-on-reader-offset", "ReadSeeker positioned at offset 5 of a longer stream when the reader was made", off)
	// (d) another reader object stepped in between
	other := bits.NewEBSPReader(bytes.NewReader(hx.Exact(append([]byte{0x00, 0x00, 0x03, 0x01, 0xff}, data...))))
	ed := &ebspRun{r: bits.NewEBSPReader(bytes.NewReader(hx.Exact(data)))}
	eo := &ebspRun{r: other}
	if p := hx.Try(func() {
		for _, o := range ops {
			eo.step(o)
			ed.step(o)
		}
	}); p == "" {
		if d := obsDiff(base.obs, ed.obs); d != "" {
			hygFail(site, "depends-on-other-objects", w, "with a second reader object stepped in between: "+d)
		}
	}
	return 6
}

func plainObs(rd io.Reader, ops []rop) (obs []string, rest, restCopy []byte) {
	r := bits.NewReader(rd)
	for _, o := range ops {
		var val string
		switch o.k {
		case 'b':
			val = hx.HexU(uint64(r.Read(o.w)))
		case 'f':
			val = "0"
			if r.ReadFlag() {
				val = "1"
			}
		case 'y':
			val = hx.HexI(int64(r.ReadSigned(o.w)))
		default:
			continue
		}
		e := 0
		if r.AccError() != nil {
			e = 1
		}
		obs = append(obs, fmt.Sprintf("%s/%d/%d/%d/%d", val, e, r.NrBytesRead(), r.NrBitsRead(), r.NrBitsReadInCurrentByte()))
	}
	rest = r.ReadRemainingBytes()
	obs = append(obs, "rest="+hx.Hex(rest))
	return obs, rest, hx.Exact(rest)
}

func hygPlainReader(data []byte, ops []rop) int {
	w := hx.Hex(data) + " " + ropsString(ops)
	var base []string
	if p := hx.Try(func() { base, _, _ = plainObs(bytes.NewReader(hx.Exact(data)), ops) }); p != "" {
		return 1
	}
	site := "bits.Reader"
	full, sub := guardedCopy(data)
	var rest, restCopy []byte
	for i, rd := range []io.Reader{bytes.NewReader(sub), &chunkSeeker{b: hx.Exact(data), mode: 1}, &chunkSeeker{b: hx.Exact(data), mode: 2}} {
		var obs []string
		p := hx.Try(func() {
			if i == 0 {
				obs, rest, restCopy = plainObs(rd, ops)
			} else {
				obs, _, _ = plainObs(rd, ops)
			}
		})
		how := []string{"bytes.Reader over a sub-slice of a larger buffer", "reader handing out one byte per Read", "reader returning its last bytes together with io.EOF"}[i]
		if p != "" {
			hygFail(site, "reader-dependent", w, how+": panic "+p)
		} else if d := obsDiff(base, obs); d != "" {
			hygFail(site, "reader-dependent", w, how+": "+d)
		}
	}
	if !guardsIntact(full, len(data)) || !bytes.Equal(sub, data) {
		hygFail(site, "modifies-input", w, "the reader wrote into the buffer behind its io.Reader")
	}
	for i := range sub {
		sub[i] ^= 0x5A
	}
	if !bytes.Equal(rest, restCopy) {
		hygFail(site+".ReadRemainingBytes", "keeps-callers-buffer", w, "the bytes returned changed when the caller overwrote the buffer behind its io.Reader")
	}
	return 4
}

// ---------------------------------------------------------------- writers
type plainWriter struct{ b []byte }

func (o *plainWriter) Write(p []byte) (int, error) {
	for _, x := range p {
		o.b = append(o.b, x)
	}
	return len(p), nil
}

func ebspTrace(w *bits.EBSPWriter) string {
	v, n := w.BitsInBuffer()
	e := 0
	if w.AccError() != nil {
		e = 1
	}
	return fmt.Sprintf("%x/%d/%d", v, n, e)
}

// hygEBSPWriter: ops into a bytes.Buffer (baseline), into a plain writer, and interleaved with a second writer object.
func hygEBSPWriter(ops []wop) int {
	w := opsString(ops)
	var b0 bytes.Buffer
	w0 := bits.NewEBSPWriter(&b0)
	var tr0 []string
	if p := hx.Try(func() {
		for _, o := range ops {
			applyEBSPOp(w0, o)
			tr0 = append(tr0, ebspTrace(w0))
		}
	}); p != "" {
		return 1
	}
	var pw, pw2 plainWriter
	w1 := bits.NewEBSPWriter(&pw)
	w2 := bits.NewEBSPWriter(&pw2)
	var tr1 []string
	p := hx.Try(func() {
		for i, o := range ops {
			// the second object gets the ops in reverse order
			applyEBSPOp(w2, ops[len(ops)-1-i])
			applyEBSPOp(w1, o)
			tr1 = append(tr1, ebspTrace(w1))
		}
	})
	if p != "" || !bytes.Equal(pw.b, b0.Bytes()) || strings.Join(tr0, ",") != strings.Join(tr1, ",") {
		hygFail("bits.EBSPWriter", "depends-on-other-objects", w, "into a plain io.Writer with a second writer object stepped in between: "+hx.Hex(pw.b)+" "+p+", alone into a bytes.Buffer: "+hx.Hex(b0.Bytes()))
	}
	return 2
}

// hygFixedWriter: NewFixedSliceWriterFromSlice(buf[:n]) with spare capacity behind n against NewFixedSliceWriter(n).
func hygFixedWriter(capacity int, ops []fop) int {
	w := fmt.Sprintf("cap=%d %s", capacity, fopsString(ops))
	var b0 []byte
	var t0 string
	if p := hx.Try(func() { b0, t0 = runFSW(capacity, ops) }); p != "" {
		return 1
	}
	full := make([]byte, capacity+guardLen)
	for i := range full {
		full[i] = guardByte
	}
	sw := bits.NewFixedSliceWriterFromSlice(full[:capacity])
	// the byte slices handed to WriteBytes are the caller's: private copies that are overwritten right after the call
	var tr []string
	p := hx.Try(func() {
		for _, o := range ops {
			if o.k == "y" {
				arg := hx.Exact(o.b)
				sw.WriteBytes(arg)
				if !bytes.Equal(arg, o.b) {
					hygFail("bits.FixedSliceWriter.WriteBytes", "modifies-input", w, "WriteBytes changed the slice it was given")
				}
				for i := range arg {
					arg[i] ^= 0x5A
				}
			} else {
				applyFop(sw, o)
			}
			e := 0
			if sw.AccError() != nil {
				e = 1
			}
			tr = append(tr, fmt.Sprintf("%d/%d", sw.Len(), e))
		}
	})
	t1 := "-"
	if len(tr) > 0 {
		t1 = strings.Join(tr, ",")
	}
	if !guardsIntact(full, capacity) {
		hygFail("bits.FixedSliceWriter", "writes-beyond-len", w, "a writer around buf[:n] wrote behind n (inside the capacity of buf)")
	}
	if p != "" {
		hygFail("bits.FixedSliceWriter", "depends-on-capacity", w, "panic on a slice with spare capacity: "+p)
		return 2
	}
	if t1 != t0 || !bytes.Equal(sw.Bytes(), b0) {
		class := "depends-on-capacity"
		if t1 == t0 {
			class = "keeps-callers-buffer" // same lengths and errors, other bytes: the WriteBytes arguments were overwritten
		}
		hygFail("bits.FixedSliceWriter", class, w, fmt.Sprintf("around a slice with spare capacity (WriteBytes arguments re-used by the caller): %s %s, NewFixedSliceWriter(%d): %s %s", hx.Hex(sw.Bytes()), t1, capacity, hx.Hex(b0), t0))
	}
	return 2
}

// hygByteWriter: bits.ByteWriter / bits.Writer into a plain io.Writer.
func hygPlainWriters(pops []wop, bops []fop) int {
	pb := runPlainWriter(pops)
	var pw plainWriter
	wr := bits.NewWriter(&pw)
	p := hx.Try(func() {
		for _, o := range pops {
			switch o.k {
			case 'b':
				wr.Write(uint(o.v), o.w)
			case 'f':
				wr.Write(uint(o.v), 1)
			case 'l':
				wr.Flush()
			}
		}
	})
	if p != "" || !bytes.Equal(pw.b, pb) {
		hygFail("bits.Writer", "writer-dependent", opsString(pops), "into a plain io.Writer: "+hx.Hex(pw.b)+" "+p+", into a bytes.Buffer: "+hx.Hex(pb))
	}
	b0, t0 := runBW(1<<20, bops)
	var pw2 plainWriter
	bw := bits.NewByteWriter(&pw2)
	var tr []string
	p = hx.Try(func() {
		for _, o := range bops {
			if o.k == "y" {
				arg := hx.Exact(o.b)
				bw.WriteSlice(arg)
				if !bytes.Equal(arg, o.b) {
					hygFail("bits.ByteWriter.WriteSlice", "modifies-input", fopsString(bops), "WriteSlice changed the slice it was given")
				}
				for i := range arg {
					arg[i] ^= 0x5A
				}
				continue
			}
			applyBop(bw, o)
		}
	})
	_ = tr
	_ = t0
	if p != "" || !bytes.Equal(pw2.b, b0) {
		hygFail("bits.ByteWriter", "writer-dependent", fopsString(bops), "into a plain io.Writer (WriteSlice arguments re-used by the caller): "+hx.Hex(pw2.b)+" "+p+", into the budgeted writer: "+hx.Hex(b0))
	}
	return 2
}

// ropsOf converts the string ops of the sweep (runReaderX format) into rops.
func ropsOf(ops []string) []rop {
	var l []rop
	for _, o := range ops {
		f := strings.Split(o, ":")
		w := 0
		if len(f) > 1 {
			fmt.Sscanf(f[1], "%d", &w)
		}
		k := f[0][0]
		if k == 'S' {
			k = 's'
		}
		l = append(l, rop{k: k, w: w})
	}
	return l
}

// ---------------------------------------------------------------- driver
func hygiene(seed uint64, n int) int {
	r := hx.NewRng(seed ^ 0x4c9a11)
	evals := 0
	// the alignment x size-class sweep (sweep.go) under every oracle of this file
	sr := hx.NewRng(seed ^ 0x5eeb)
	for _, c := range sweepReaderCases(sr) {
		evals += hygEBSPReader(c.esc, ropsOf(c.ops))
	}
	for _, ops := range sweepWriterCases(sr) {
		evals += hygEBSPWriter(ops)
	}
	for _, fops := range sweepFixedCases(sr) {
		evals += hygFixedWriter(200, fops)
		evals += hygFixedWriter(9, fops)
	}
	for i := 0; i < n; i++ {
		// a written stream read back with the matching ops, look-aheads and byte reads mixed in
		all := genWops(r)
		ops := all[:0]
		for _, o := range all {
			if o.k == 'b' {
				o.v &= (uint64(1) << uint(o.w)) - 1
			}
			if o.k == 'b' || o.k == 'f' || o.k == 'u' || o.k == 's' {
				ops = append(ops, o)
			}
		}
		wops := append(append([]wop{}, ops...), wop{k: 't'})
		esc, _ := runEBSPWriter(wops)
		var rops []rop
		for _, o := range matchingRops(ops) {
			if r.Intn(3) == 0 {
				rops = append(rops, rop{k: 'm'})
			}
			rops = append(rops, o)
		}
		rops = append(rops, rop{k: 'm'}, rop{k: 't'})
		evals += hygEBSPReader(esc, rops)
		// arbitrary (zero-heavy) data, arbitrary ops
		evals += hygEBSPReader(r.Bytes(r.Range(0, 24), escAlphabet), genRops(r, r.Range(1, 10)))
		var pr []rop
		for k, m := 0, r.Range(1, 8); k < m; k++ {
			pr = append(pr, rop{k: []byte{'b', 'f', 'y'}[r.Intn(3)], w: r.Range(1, 32)})
		}
		evals += hygPlainReader(r.Bytes(r.Range(0, 16), nil), pr)
		evals += hygEBSPWriter(all)
		evals += hygFixedWriter(r.Range(0, 40), genFops(r, false))
		evals += hygPlainWriters(genPlainWops(r, true), genBops(r))
	}
	return evals
}
