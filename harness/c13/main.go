// Harness for C13 (bit / Exp-Golomb / emulation-prevention coding).
//   c13 corr   -seed S -n N -exh L   : cases + implementation observables for the model diff
//   c13 search -seed S -n N -exh L   : evaluates the property itself on the implementation
package main

import (
	"bufio"
	"bytes"
	"flag"
	"fmt"
	"os"
	"strconv"
	"strings"

	"github.com/Eyevinn/mp4ff/bits"
	"verifharness/hx"
)

var out = bufio.NewWriterSize(os.Stdout, 1<<20)

type wop struct {
	k byte // b f u s v t z l
	v uint64
	i int64
	w int
}

func (o wop) String() string {
	switch o.k {
	case 'b':
		return "b:" + hx.HexU(o.v) + ":" + strconv.Itoa(o.w)
	case 'f':
		return "f:" + hx.HexU(o.v)
	case 'u':
		return "u:" + hx.HexU(o.v)
	case 's':
		return "s:" + hx.HexI(o.i)
	case 'v':
		return "v:" + hx.HexU(o.v)
	}
	return string(o.k)
}

func opsString(ops []wop) string {
	if len(ops) == 0 {
		return "-"
	}
	ss := make([]string, len(ops))
	for i, o := range ops {
		ss[i] = o.String()
	}
	return strings.Join(ss, ";")
}

func seToUe(k int64) uint64 {
	if k > 0 {
		return uint64(2*k - 1)
	}
	return uint64(-2 * k)
}

// runEBSPWriter executes ops on the real EBSPWriter, returns bytes and the (v,n) trace.
func runEBSPWriter(ops []wop) ([]byte, string) {
	var buf bytes.Buffer
	w := bits.NewEBSPWriter(&buf)
	tr := make([]string, 0, len(ops))
	for _, o := range ops {
		switch o.k {
		case 'b':
			w.Write(uint(o.v), o.w)
		case 'f':
			w.Write(uint(o.v), 1)
		case 'u':
			w.WriteExpGolomb(uint(o.v))
		case 's':
			w.WriteExpGolomb(uint(seToUe(o.i)))
		case 'v':
			w.WriteSEIValue(uint(o.v))
		case 't':
			w.WriteRbspTrailingBits()
		case 'z':
			w.StuffByteWithZeros()
		}
		v, n := w.BitsInBuffer()
		tr = append(tr, hx.HexU(uint64(v))+"/"+strconv.Itoa(int(n)))
	}
	return buf.Bytes(), strings.Join(tr, ",")
}

func runPlainWriter(ops []wop) []byte {
	var buf bytes.Buffer
	w := bits.NewWriter(&buf)
	for _, o := range ops {
		switch o.k {
		case 'b':
			w.Write(uint(o.v), o.w)
		case 'f':
			w.Write(uint(o.v), 1)
		case 'l':
			w.Flush()
		}
	}
	return buf.Bytes()
}

func runFixedWriter(ops []wop) []byte {
	sw := bits.NewFixedSliceWriter(4096)
	for _, o := range ops {
		switch o.k {
		case 'b':
			sw.WriteBits(uint(o.v), o.w)
		case 'f':
			sw.WriteFlag(o.v == 1)
		case 'l':
			sw.FlushBits()
		}
	}
	return sw.Bytes()
}

type rop struct {
	k byte // b f u s y m
	w int
}

func (o rop) String() string {
	if o.k == 'b' || o.k == 'y' {
		return string(o.k) + ":" + strconv.Itoa(o.w)
	}
	return string(o.k)
}

func ropsString(ops []rop) string {
	if len(ops) == 0 {
		return "-"
	}
	ss := make([]string, len(ops))
	for i, o := range ops {
		ss[i] = o.String()
	}
	return strings.Join(ss, ";")
}

// runEBSPReader executes reader ops; per op: value/err/nrBytes/nrBits/nrBitsCur
func runEBSPReader(data []byte, ops []rop) ([]string, []string) {
	r := bits.NewEBSPReader(bytes.NewReader(data))
	vals := make([]string, 0, len(ops))
	obs := make([]string, 0, len(ops))
	for _, o := range ops {
		var val string
		switch o.k {
		case 'b':
			val = hx.HexU(uint64(r.Read(o.w)))
		case 'f':
			if r.ReadFlag() {
				val = "1"
			} else {
				val = "0"
			}
		case 'u':
			val = hx.HexU(uint64(r.ReadExpGolomb()))
		case 's':
			val = hx.HexI(int64(r.ReadSignedGolomb()))
		case 'y':
			b := r.ReadBytes(o.w)
			val = hx.Hex(b)
		case 'm':
			more, err := r.MoreRbspData()
			if err != nil {
				val = "E"
			} else if r.AccError() != nil {
				val = "N"
			} else if more {
				val = "1"
			} else {
				val = "0"
			}
		case 't':
			val = trailClass(r.ReadRbspTrailingBits())
		}
		e := 0
		if r.AccError() != nil {
			e = 1
		}
		vals = append(vals, val)
		obs = append(obs, fmt.Sprintf("%s/%d/%d/%d/%d", val, e, r.NrBytesRead(), r.NrBitsRead(), r.NrBitsReadInCurrentByte()))
	}
	return vals, obs
}

// trailClass projects the return value of ReadRbspTrailingBits: nil / no leading 1 / a second 1
func trailClass(err error) string {
	switch {
	case err == nil:
		return "T0"
	case strings.Contains(err.Error(), "another"):
		return "T2"
	default:
		return "T1"
	}
}

func runPlainReader(data []byte, ops []rop) []string {
	r := bits.NewReader(bytes.NewReader(data))
	obs := make([]string, 0, len(ops))
	for _, o := range ops {
		var val string
		switch o.k {
		case 'b':
			val = hx.HexU(uint64(r.Read(o.w)))
		case 'f':
			if r.ReadFlag() {
				val = "1"
			} else {
				val = "0"
			}
		case 'y': // ReadSigned(w) in plain mode
			val = hx.HexI(int64(r.ReadSigned(o.w)))
		case 'r': // ReadRemainingBytes: N = nil, h<hex> = a non-nil slice (tail.go)
			if rest := r.ReadRemainingBytes(); rest == nil {
				val = "N"
			} else {
				val = "h" + hx.Hex(rest)
			}
		}
		e := 0
		if r.AccError() != nil {
			e = 1
		}
		obs = append(obs, fmt.Sprintf("%s/%d/%d/%d/%d", val, e, r.NrBytesRead(), r.NrBitsRead(), r.NrBitsReadInCurrentByte()))
	}
	return obs
}

// ---------------------------------------------------------------- generators
var escAlphabet = []byte{0, 1, 2, 3, 0xff}

func genValue(r *hx.Rng, w int) uint64 {
	var v uint64
	switch r.Intn(6) {
	case 0:
		v = 0
	case 1:
		v = ^uint64(0)
	case 2:
		v = uint64(r.Intn(4))
	default:
		v = r.U64()
	}
	if r.Intn(4) != 0 { // mostly in range, sometimes with junk above the width
		v &= (uint64(1) << uint(w)) - 1
	}
	return v
}

func genWops(r *hx.Rng) []wop {
	n := r.Range(0, 24)
	ops := make([]wop, 0, n)
	zeroHeavy := r.Intn(2) == 0
	for i := 0; i < n; i++ {
		switch r.Intn(12) {
		case 0, 1, 2, 3, 4:
			w := r.Range(1, 32)
			if r.Intn(3) == 0 {
				w = 8
			}
			v := genValue(r, w)
			if zeroHeavy && r.Intn(2) == 0 {
				v = uint64(r.Intn(4))
			}
			ops = append(ops, wop{k: 'b', v: v, w: w})
		case 5:
			ops = append(ops, wop{k: 'f', v: uint64(r.Intn(2))})
		case 6, 7:
			var v uint64
			switch r.Intn(4) {
			case 0:
				v = uint64(r.Intn(10))
			case 1:
				v = (uint64(1) << uint(r.Range(1, 32))) - uint64(r.Intn(3))
			case 2:
				v = 0xffffffff - uint64(r.Intn(2))
			default:
				v = r.U64() & 0xffffffff
				if r.Intn(4) == 0 { // beyond the proved range (ue < 2^32): up to 48 bits
					v = r.U64() >> uint(r.Range(16, 31))
				}
			}
			ops = append(ops, wop{k: 'u', v: v})
		case 8:
			var k int64
			switch r.Intn(3) {
			case 0:
				k = int64(r.Range(-5, 5))
			case 1:
				k = int64(1)<<uint(r.Range(1, 30)) - int64(r.Intn(2))
				if r.Bool() {
					k = -k
				}
			default:
				k = int64(int32(r.U64())) / 2
			}
			ops = append(ops, wop{k: 's', i: k})
		case 9:
			ops = append(ops, wop{k: 'v', v: uint64(r.Pick(0, 1, 254, 255, 256, 509, 510, 511, 765, 1000, r.Intn(3000)))})
		case 10:
			ops = append(ops, wop{k: 't'})
		case 11:
			ops = append(ops, wop{k: 'z'})
		}
	}
	return ops
}

// genPlainWops: mid = false gives value ops followed by one Flush (the round-trip shape);
// mid = true also flushes in the middle and may omit the final Flush (correspondence only).
func genPlainWops(r *hx.Rng, mid bool) []wop {
	n := r.Range(0, 20)
	ops := make([]wop, 0, n+1)
	for i := 0; i < n; i++ {
		if mid && r.Intn(10) == 0 {
			ops = append(ops, wop{k: 'l'})
		}
		if r.Intn(5) == 0 {
			ops = append(ops, wop{k: 'f', v: uint64(r.Intn(2))})
		} else {
			w := r.Range(1, 32)
			ops = append(ops, wop{k: 'b', v: genValue(r, w), w: w})
		}
	}
	if !mid || r.Intn(3) != 0 {
		ops = append(ops, wop{k: 'l'})
	}
	return ops
}

func genRops(r *hx.Rng, n int) []rop {
	ops := make([]rop, 0, n)
	for i := 0; i < n; i++ {
		switch r.Intn(11) {
		case 10:
			ops = append(ops, rop{k: 't'})
		case 0, 1, 2, 3:
			ops = append(ops, rop{k: 'b', w: r.Range(0, 32)})
		case 4:
			ops = append(ops, rop{k: 'f'})
		case 5, 6:
			ops = append(ops, rop{k: 'u'})
		case 7:
			ops = append(ops, rop{k: 's'})
		case 8:
			ops = append(ops, rop{k: 'y', w: r.Range(0, 5)})
		case 9:
			ops = append(ops, rop{k: 'm'})
		}
	}
	return ops
}

// matching reader ops for writer ops (for the round trip)
func matchingRops(ops []wop) []rop {
	rs := make([]rop, 0, len(ops))
	for _, o := range ops {
		switch o.k {
		case 'b':
			rs = append(rs, rop{k: 'b', w: o.w})
		case 'f':
			rs = append(rs, rop{k: 'f'})
		case 'u':
			rs = append(rs, rop{k: 'u'})
		case 's':
			rs = append(rs, rop{k: 's'})
		}
	}
	return rs
}

// enumerate all strings over alphabet up to length L
func enumStrings(alphabet []byte, L int, f func([]byte)) {
	var rec func(cur []byte)
	rec = func(cur []byte) {
		f(cur)
		if len(cur) == L {
			return
		}
		for _, a := range alphabet {
			rec(append(cur, a))
		}
	}
	rec(make([]byte, 0, L))
}

// ---------------------------------------------------------------- corr
func corr(seed uint64, n int, exh int) {
	id := 0
	emitW := func(mode string, ops []wop, b []byte, tr string) {
		fmt.Fprintf(out, "W\t%d\t%s\t%s\t%s\t%s\n", id, mode, opsString(ops), hx.Hex(b), tr)
		id++
	}
	emitR := func(mode string, data []byte, ops []rop, obs []string) {
		o := "-"
		if len(obs) > 0 {
			o = strings.Join(obs, ",")
		}
		fmt.Fprintf(out, "R\t%d\t%s\t%s\t%s\t%s\n", id, mode, hx.Hex(data), ropsString(ops), o)
		id++
	}
	// exhaustive byte strings over the behaviour-relevant alphabet through Write(b,8) and back
	enumStrings(escAlphabet, exh, func(s []byte) {
		ops := make([]wop, len(s))
		for i, b := range s {
			ops[i] = wop{k: 'b', v: uint64(b), w: 8}
		}
		b, tr := runEBSPWriter(ops)
		emitW("E", ops, b, tr)
		// read the same raw string (as if it were an escaped stream) byte-wise: exercises the
		// reader on arbitrary input including 00 00 03 at the end
		rops := []rop{{k: 'y', w: len(s)}, {k: 'm'}, {k: 'b', w: 1}}
		_, obs := runEBSPReader(s, rops)
		emitR("E", s, rops, obs)
	})
	r := hx.NewRng(seed)
	for i := 0; i < n; i++ {
		ops := genWops(r)
		b, tr := runEBSPWriter(ops)
		emitW("E", ops, b, tr)
		// reader on the writer's output with the matching ops, then a few extra
		rops := matchingRops(ops)
		if r.Intn(3) == 0 {
			rops = append(rops, rop{k: 'm'}, rop{k: 't'})
		}
		rops = append(rops, genRops(r, r.Intn(4))...)
		_, obs := runEBSPReader(b, rops)
		emitR("E", b, rops, obs)
		// reader on arbitrary bytes with arbitrary ops
		data := r.Bytes(r.Range(0, 24), escAlphabet)
		if r.Intn(3) == 0 {
			data = r.Bytes(r.Range(0, 24), nil)
		}
		rops2 := genRops(r, r.Range(1, 12))
		_, obs2 := runEBSPReader(data, rops2)
		emitR("E", data, rops2, obs2)
		// plain writers / reader
		pops := genPlainWops(r, i%2 == 1)
		pb := runPlainWriter(pops)
		emitW("P", pops, pb, "-")
		fb := runFixedWriter(pops)
		emitW("F", pops, fb, "-")
		prs := matchingRops(pops)
		emitR("P", pb, prs, runPlainReader(pb, prs))
		// ReadSigned on the same bytes: widths 1..32 (two's complement)
		srs := make([]rop, 0, 8)
		for j := 0; j < 8; j++ {
			srs = append(srs, rop{k: 'y', w: r.Range(1, 32)})
		}
		emitR("P", pb, srs, runPlainReader(pb, srs))
	}
	corrExt(hx.NewRng(seed^0x13e), n, &id)
	corrExt2(hx.NewRng(seed^0x13b2), n, &id)
	corrSweep(hx.NewRng(seed^0x5eeb), &id) // every method at every alignment with every size class: sweep.go
	corrTail(hx.NewRng(seed^0x7a11), n, &id) // Reader.ReadRemainingBytes, FixedSliceWriter.WriteString: tail.go
	out.Flush()
}

// ---------------------------------------------------------------- search (the property itself)
func naiveEscape(s []byte) []byte {
	o := make([]byte, 0, len(s)+len(s)/2)
	z := 0
	for _, b := range s {
		if z == 2 && b <= 3 {
			o = append(o, 3)
			z = 0
		}
		o = append(o, b)
		if b == 0 {
			z++
		} else {
			z = 0
		}
	}
	return o
}

func hasForbidden(b []byte) bool {
	for i := 0; i+2 < len(b); i++ {
		if b[i] == 0 && b[i+1] == 0 && b[i+2] <= 2 {
			return true
		}
	}
	return false
}

func fail(site, class, witness, desc string) {
	fmt.Fprintf(out, "FAIL\t%s\t%s\t%s\t%s\n", site, class, witness, desc)
}

func search(seed uint64, n int, exh int) {
	evals := 0
	// byte level: escape is minimal/standard, reader returns the bytes, counters in escaped stream
	byteCheck := func(s []byte) {
		evals++
		ops := make([]wop, len(s))
		for i, b := range s {
			ops[i] = wop{k: 'b', v: uint64(b), w: 8}
		}
		esc, _ := runEBSPWriter(ops)
		if hasForbidden(esc) {
			fail("bits.EBSPWriter.Write", "forbidden-pattern", hx.Hex(s), "output "+hx.Hex(esc)+" contains 00 00 0{0,1,2}")
		}
		if !bytes.Equal(esc, naiveEscape(s)) {
			fail("bits.EBSPWriter.Write", "not-standard-escape", hx.Hex(s), "output "+hx.Hex(esc)+" differs from the standard's escaping "+hx.Hex(naiveEscape(s)))
		}
		rd := bits.NewEBSPReader(bytes.NewReader(esc))
		got := rd.ReadBytes(len(s))
		if len(s) > 0 && (rd.AccError() != nil || !bytes.Equal(got, s)) {
			fail("bits.EBSPReader.ReadBytes", "roundtrip", hx.Hex(s), "read back "+hx.Hex(got))
		}
		if len(s) > 0 && rd.NrBytesRead() != len(esc) {
			fail("bits.EBSPReader.NrBytesRead", "counter", hx.Hex(s), fmt.Sprintf("NrBytesRead=%d, escaped stream has %d bytes", rd.NrBytesRead(), len(esc)))
		}
	}
	enumStrings(escAlphabet, exh, byteCheck)
	r := hx.NewRng(seed ^ 0xabcdef)
	r2 := hx.NewRng(seed ^ 0x13b2b)
	if ueHangs() {
		fail("bits.EBSPWriter.WriteExpGolomb", "does-not-terminate", "value=ffffffffffffffff", "no return within 10 s")
	}
	for i := 0; i < n; i++ {
		evals += searchExt2(r2)
		byteCheck(r.Bytes(r.Range(0, 64), escAlphabet))
		// op level round trip
		all := genWops(r)
		// value-carrying ops only (sei-value/trailing/stuffing have no matching reader op), and
		// in-range values only: the property is about values that fit their width
		ops := all[:0]
		for _, o := range all {
			if o.k == 'b' {
				o.v &= (uint64(1) << uint(o.w)) - 1
			}
			if o.k == 'b' || o.k == 'f' || o.k == 'u' || o.k == 's' {
				ops = append(ops, o)
			}
		}
		evals += searchExt(r, append([]wop{}, ops...))
		evals++
		ops = append(ops, wop{k: 't'})
		b, _ := runEBSPWriter(ops)
		if hasForbidden(b) {
			fail("bits.EBSPWriter", "forbidden-pattern", opsString(ops), "output "+hx.Hex(b))
		}
		rops := matchingRops(ops)
		vals, _ := runEBSPReader(b, rops)
		k := 0
		for _, o := range ops {
			var want string
			switch o.k {
			case 'b', 'u':
				want = hx.HexU(o.v)
			case 'f':
				want = hx.HexU(o.v)
			case 's':
				want = hx.HexI(o.i)
			default:
				continue
			}
			if vals[k] != want {
				fail("bits.EBSPReader", "roundtrip-value", opsString(ops), fmt.Sprintf("op %d (%s): wrote %s read %s", k, o.String(), want, vals[k]))
				break
			}
			k++
		}
		// plain writer/reader
		pops := genPlainWops(r, false)
		for j := range pops {
			if pops[j].k == 'b' {
				pops[j].v &= (uint64(1) << uint(pops[j].w)) - 1
			}
		}
		pb := runPlainWriter(pops)
		fb := runFixedWriter(pops)
		if !bytes.Equal(pb, fb) {
			fail("bits.FixedSliceWriter.WriteBits", "differs-from-Writer", opsString(pops), hx.Hex(pb)+" vs "+hx.Hex(fb))
		}
		rd := bits.NewReader(bytes.NewReader(pb))
		for k, o := range pops {
			if o.k == 'b' {
				if got := rd.Read(o.w); uint64(got) != o.v {
					fail("bits.Reader.Read", "roundtrip-value", opsString(pops), fmt.Sprintf("op %d: wrote %x read %x", k, o.v, got))
					break
				}
			} else if o.k == 'f' {
				if got := rd.ReadFlag(); got != (o.v == 1) {
					fail("bits.Reader.ReadFlag", "roundtrip-value", opsString(pops), fmt.Sprintf("op %d", k))
					break
				}
			}
		}
	}
	evals += searchSweep(hx.NewRng(seed ^ 0x5eeb)) // every method at every alignment with every size class: sweep.go
	evals += hygiene(seed, n)                      // cross-cutting oracles: hygiene.go
	evals += searchTail(hx.NewRng(seed^0x7a11), n) // ReadRemainingBytes / WriteString: tail.go
	fmt.Fprintf(out, "EVALS\t%d\n", evals)
	out.Flush()
}

func main() {
	if len(os.Args) < 2 {
		fmt.Fprintln(os.Stderr, "usage: c13 corr|search [flags]")
		os.Exit(2)
	}
	fs := flag.NewFlagSet(os.Args[1], flag.ExitOnError)
	seed := fs.Uint64("seed", 0, "")
	n := fs.Int("n", 1000, "")
	exh := fs.Int("exh", 5, "")
	_ = fs.Parse(os.Args[2:])
	switch os.Args[1] {
	case "corr":
		corr(*seed, *n, *exh)
	case "search":
		search(*seed, *n, *exh)
	default:
		os.Exit(2)
	}
}
