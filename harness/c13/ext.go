// Extension of the C13 harness: FixedSliceWriter with a small capacity and its byte-level methods,
// ByteWriter over a writer that accepts a limited number of bytes, ReadRbspTrailingBits / MoreRbspData /
// bit-counter oracles, ReadSigned round trip.
package main

import (
	"bytes"
	"errors"
	"fmt"
	mbits "math/bits"
	"strconv"
	"strings"

	"github.com/Eyevinn/mp4ff/bits"
	"verifharness/hx"
)

// ---------------------------------------------------------------- FixedSliceWriter
type fop struct {
	k string // b f l u u3 u6 i z y m s (s = WriteString(string(b), v == 1))
	v uint64
	i int64
	w int // width (b), byte count (u, i, z)
	b []byte
}

func (o fop) String() string {
	switch o.k {
	case "b":
		return "b:" + hx.HexU(o.v) + ":" + strconv.Itoa(o.w)
	case "f":
		return "f:" + hx.HexU(o.v)
	case "u":
		return "u:" + strconv.Itoa(o.w) + ":" + hx.HexU(o.v)
	case "u3", "u6":
		return o.k + ":" + hx.HexU(o.v)
	case "i":
		return "i:" + strconv.Itoa(o.w) + ":" + hx.HexI(o.i)
	case "z":
		return "z:" + strconv.Itoa(o.w)
	case "y":
		return "y:" + hx.Hex(o.b)
	case "s":
		return "s:" + hx.Hex(o.b) + ":" + hx.HexU(o.v)
	}
	return o.k
}

func fopsString(ops []fop) string {
	if len(ops) == 0 {
		return "-"
	}
	ss := make([]string, len(ops))
	for i, o := range ops {
		ss[i] = o.String()
	}
	return strings.Join(ss, ";")
}

// applyFop: one FixedSliceWriter call. The writer reports what does not fit through AccError; a run-time panic is a
// failing input of its own (in corr the FAIL line is no case line: the model side reports it as a mismatch too)
func applyFop(sw *bits.FixedSliceWriter, o fop) {
	if p := hx.Try(func() { applyFopRaw(sw, o) }); p != "" {
		fail("bits.FixedSliceWriter", "panic", fmt.Sprintf("len=%d cap=%d %s", sw.Len(), sw.Capacity(), o.String()), "run-time panic instead of AccError: "+p)
	}
}

func applyFopRaw(sw *bits.FixedSliceWriter, o fop) {
	switch o.k {
	case "b":
		sw.WriteBits(uint(o.v), o.w)
	case "f":
		sw.WriteFlag(o.v == 1)
	case "l":
		sw.FlushBits()
	case "u":
		switch o.w {
		case 1:
			sw.WriteUint8(byte(o.v))
		case 2:
			sw.WriteUint16(uint16(o.v))
		case 4:
			sw.WriteUint32(uint32(o.v))
		case 8:
			sw.WriteUint64(o.v)
		}
	case "u3":
		sw.WriteUint24(uint32(o.v))
	case "u6":
		sw.WriteUint48(o.v)
	case "i":
		switch o.w {
		case 2:
			sw.WriteInt16(int16(o.i))
		case 4:
			sw.WriteInt32(int32(o.i))
		case 8:
			sw.WriteInt64(o.i)
		}
	case "z":
		sw.WriteZeroBytes(o.w)
	case "y":
		sw.WriteBytes(o.b)
	case "s":
		sw.WriteString(string(o.b), o.v == 1)
	case "m":
		sw.WriteUnityMatrix()
	}
}

// runFSW: bytes written and the per-op trace len/err
func runFSW(capacity int, ops []fop) ([]byte, string) {
	sw := bits.NewFixedSliceWriter(capacity)
	tr := make([]string, 0, len(ops))
	for _, o := range ops {
		applyFop(sw, o)
		e := 0
		if sw.AccError() != nil {
			e = 1
		}
		tr = append(tr, fmt.Sprintf("%d/%d", sw.Len(), e))
	}
	t := "-"
	if len(tr) > 0 {
		t = strings.Join(tr, ",")
	}
	return append([]byte{}, sw.Bytes()...), t
}

func genFops(r *hx.Rng, bitsOnly bool) []fop {
	n := r.Range(0, 16)
	ops := make([]fop, 0, n)
	for i := 0; i < n; i++ {
		c := r.Intn(17)
		if bitsOnly {
			c = r.Intn(7)
		}
		switch c {
		case 0, 1, 2, 3:
			w := r.Range(1, 32)
			if r.Intn(3) == 0 {
				w = 8
			}
			ops = append(ops, fop{k: "b", v: genValue(r, w), w: w})
		case 4, 5:
			ops = append(ops, fop{k: "f", v: uint64(r.Intn(2))})
		case 6:
			ops = append(ops, fop{k: "l"})
		case 7, 8, 9:
			k := r.Pick(1, 2, 4, 8)
			v := r.U64()
			if k < 8 {
				v &= (uint64(1) << uint(8*k)) - 1
			}
			ops = append(ops, fop{k: "u", v: v, w: k})
		case 10:
			v := r.U64() & 0xffffffff // the argument type is uint32: the top byte is dropped by the code
			if r.Bool() {
				v &= 0xffffff
			}
			ops = append(ops, fop{k: "u3", v: v})
		case 11:
			v := r.U64()
			if r.Bool() {
				v &= 0xffffffffffff
			}
			ops = append(ops, fop{k: "u6", v: v})
		case 12:
			k := r.Pick(2, 4, 8)
			var x int64
			switch k {
			case 2:
				x = int64(int16(r.U64()))
			case 4:
				x = int64(int32(r.U64()))
			default:
				x = int64(r.U64())
				if x == -x { // MinInt64 has no hex form in hx.HexI
					x = -1
				}
			}
			ops = append(ops, fop{k: "i", i: x, w: k})
		case 13:
			ops = append(ops, fop{k: "z", w: r.Range(0, 6)})
		case 14:
			ops = append(ops, fop{k: "y", b: r.Bytes(r.Range(0, 6), nil)})
		case 15:
			ops = append(ops, fop{k: "m"})
		case 16: // WriteString: any bytes (a Go string is its bytes), with and without the zero terminator
			ops = append(ops, fop{k: "s", b: r.Bytes(r.Range(0, 6), nil), v: uint64(r.Intn(2))})
		}
	}
	return ops
}

// ---------------------------------------------------------------- ByteWriter over a limited io.Writer
var errShort = errors.New("limited writer full")

// limitedWriter accepts max bytes in total; a Write that does not fit stores what fits and fails
// (reject = true, search only: stores nothing and fails, so that a later smaller Write could succeed).
type limitedWriter struct {
	buf    []byte
	max    int
	reject bool
}

func (l *limitedWriter) Write(p []byte) (int, error) {
	room := l.max - len(l.buf)
	if len(p) <= room {
		l.buf = append(l.buf, p...)
		return len(p), nil
	}
	if l.reject {
		return 0, errShort
	}
	l.buf = append(l.buf, p[:room]...)
	return room, errShort
}

func applyBop(w *bits.ByteWriter, o fop) {
	switch o.k {
	case "u":
		switch o.w {
		case 1:
			w.WriteUint8(byte(o.v))
		case 2:
			w.WriteUint16(uint16(o.v))
		case 4:
			w.WriteUint32(uint32(o.v))
		case 8:
			w.WriteUint64(o.v)
		}
	case "u6":
		w.WriteUint48(o.v)
	case "y":
		w.WriteSlice(o.b)
	}
}

func runBW(max int, ops []fop) ([]byte, string) {
	lw := &limitedWriter{max: max}
	w := bits.NewByteWriter(lw)
	tr := make([]string, 0, len(ops))
	for _, o := range ops {
		applyBop(w, o)
		e := 0
		if w.AccError() != nil {
			e = 1
		}
		tr = append(tr, fmt.Sprintf("%d/%d", len(lw.buf), e))
	}
	t := "-"
	if len(tr) > 0 {
		t = strings.Join(tr, ",")
	}
	return lw.buf, t
}

func genBops(r *hx.Rng) []fop {
	n := r.Range(0, 12)
	ops := make([]fop, 0, n)
	for i := 0; i < n; i++ {
		switch r.Intn(6) {
		case 0, 1, 2:
			k := r.Pick(1, 2, 4, 8)
			v := r.U64()
			if k < 8 {
				v &= (uint64(1) << uint(8*k)) - 1
			}
			ops = append(ops, fop{k: "u", v: v, w: k})
		case 3, 4:
			v := r.U64()
			if r.Bool() {
				v &= 0xffffffffffff
			}
			ops = append(ops, fop{k: "u6", v: v})
		case 5:
			ops = append(ops, fop{k: "y", b: r.Bytes(r.Range(0, 6), nil)})
		}
	}
	return ops
}

// independent big-endian encoding of the byte-level ops (k low-order bytes, most significant first)
func beBytes(v uint64, k int) []byte {
	o := make([]byte, k)
	for i := 0; i < k; i++ {
		o[k-1-i] = byte(v >> uint(8*i))
	}
	return o
}

func fopBytes(o fop) []byte {
	switch o.k {
	case "u":
		return beBytes(o.v, o.w)
	case "u3":
		return beBytes(o.v, 3)
	case "u6":
		return beBytes(o.v, 6)
	case "i":
		return beBytes(uint64(o.i), o.w)
	case "z":
		return make([]byte, o.w)
	case "y":
		return o.b
	case "s":
		if o.v == 1 {
			return append(append([]byte{}, o.b...), 0)
		}
		return o.b
	case "m":
		var b []byte
		for _, w := range []uint64{0x10000, 0, 0, 0, 0x10000, 0, 0, 0, 0x40000000} {
			b = append(b, beBytes(w, 4)...)
		}
		return b
	}
	return nil
}

// ---------------------------------------------------------------- corr cases of the extension
func corrExt(r *hx.Rng, n int, id *int) {
	for i := 0; i < n; i++ {
		// FixedSliceWriter: mostly roomy, sometimes tight (the error paths)
		fops := genFops(r, i%3 == 0)
		capacity := r.Range(40, 200)
		if r.Intn(3) == 0 {
			capacity = r.Range(0, 24)
		}
		fb, ftr := runFSW(capacity, fops)
		fmt.Fprintf(out, "F\t%d\t%d\t%s\t%s\t%s\n", *id, capacity, fopsString(fops), hx.Hex(fb), ftr)
		*id++
		bops := genBops(r)
		max := r.Range(40, 120)
		if r.Intn(2) == 0 {
			max = r.Range(0, 30)
		}
		bb, btr := runBW(max, bops)
		fmt.Fprintf(out, "B\t%d\t%d\t%s\t%s\t%s\n", *id, max, fopsString(bops), hx.Hex(bb), btr)
		*id++
		// plain Reader on arbitrary bytes with arbitrary ops (reads past the end, reads after an error)
		data := r.Bytes(r.Range(0, 12), nil)
		rops := make([]rop, 0, 8)
		for j := r.Range(1, 10); j > 0; j-- {
			switch r.Intn(4) {
			case 0:
				rops = append(rops, rop{k: 'f'})
			case 1:
				rops = append(rops, rop{k: 'y', w: r.Range(1, 32)})
			default:
				rops = append(rops, rop{k: 'b', w: r.Range(0, 32)})
			}
		}
		o := strings.Join(runPlainReader(data, rops), ",")
		fmt.Fprintf(out, "R\t%d\tP\t%s\t%s\t%s\n", *id, hx.Hex(data), ropsString(rops), o)
		*id++
	}
}

// ---------------------------------------------------------------- independent bit packer (search oracle)
type bitbuf struct{ b []byte } // one bit per element

func (q *bitbuf) put(v uint64, w int) {
	for i := w - 1; i >= 0; i-- {
		q.b = append(q.b, byte(v>>uint(i))&1)
	}
}

// ue(v): the binary form of v+1 preceded by (its length - 1) zeros (H.264 9.1)
func (q *bitbuf) ue(v uint64) {
	l := mbits.Len64(v + 1)
	q.put(0, l-1)
	q.put(v+1, l)
}

func (q *bitbuf) putOp(o wop) {
	switch o.k {
	case 'b':
		q.put(o.v, o.w)
	case 'f':
		q.put(o.v, 1)
	case 'u':
		q.ue(o.v)
	case 's':
		q.ue(seToUe(o.i))
	}
}

func (q *bitbuf) trailing() {
	q.b = append(q.b, 1)
	for len(q.b)%8 != 0 {
		q.b = append(q.b, 0)
	}
}

func (q *bitbuf) bytes() []byte {
	o := make([]byte, len(q.b)/8)
	for i := range o {
		for j := 0; j < 8; j++ {
			o[i] = o[i]<<1 | q.b[8*i+j]
		}
	}
	return o
}

// escLen[m] = length of the standard escaping of raw[:m]
func escapedLengths(raw []byte) []int {
	l := make([]int, len(raw)+1)
	z, n := 0, 0
	for i, b := range raw {
		if z == 2 && b <= 3 {
			n++
			z = 0
		}
		n++
		if b == 0 {
			z++
		} else {
			z = 0
		}
		l[i+1] = n
	}
	return l
}

func wopWant(o wop) string {
	if o.k == 's' {
		return hx.HexI(o.i)
	}
	return hx.HexU(o.v)
}

// searchExt: one evaluation of each extended oracle; returns the number of evaluations
func searchExt(r *hx.Rng, ops []wop) int {
	evals := 0
	// ---- (1) EBSP round trip against the independent packer, with counters, MoreRbspData, trailing bits
	var q bitbuf
	for _, o := range ops {
		q.putOp(o)
	}
	nValueBits := len(q.b)
	q.trailing()
	raw := q.bytes()
	wops := append(append([]wop{}, ops...), wop{k: 't'})
	esc, _ := runEBSPWriter(wops)
	evals++
	if !bytes.Equal(esc, naiveEscape(raw)) {
		fail("bits.EBSPWriter", "not-standard-escape", opsString(wops), "output "+hx.Hex(esc)+" is not the standard escaping "+hx.Hex(naiveEscape(raw))+" of the packed codes")
		return evals
	}
	el := escapedLengths(raw)
	rd := bits.NewEBSPReader(bytes.NewReader(esc))
	cum := 0
	q2 := bitbuf{}
	for k, o := range ops {
		if r.Intn(4) == 0 {
			nb, nbits := rd.NrBytesRead(), rd.NrBitsRead()
			more, err := rd.MoreRbspData()
			if err != nil || rd.AccError() != nil || !more {
				fail("bits.EBSPReader.MoreRbspData", "false-before-last-value", opsString(wops), fmt.Sprintf("before op %d: more=%v err=%v acc=%v", k, more, err, rd.AccError()))
				return evals
			}
			if nb != rd.NrBytesRead() || nbits != rd.NrBitsRead() {
				fail("bits.EBSPReader.MoreRbspData", "moves-position", opsString(wops), fmt.Sprintf("before op %d: counters %d/%d -> %d/%d", k, nb, nbits, rd.NrBytesRead(), rd.NrBitsRead()))
				return evals
			}
		}
		var got string
		switch o.k {
		case 'b':
			got = hx.HexU(uint64(rd.Read(o.w)))
		case 'f':
			got = "0"
			if rd.ReadFlag() {
				got = "1"
			}
		case 'u':
			got = hx.HexU(uint64(rd.ReadExpGolomb()))
		case 's':
			got = hx.HexI(int64(rd.ReadSignedGolomb()))
		}
		if got != wopWant(o) || rd.AccError() != nil {
			fail("bits.EBSPReader", "roundtrip-value", opsString(wops), fmt.Sprintf("op %d (%s) read %s, acc=%v", k, o.String(), got, rd.AccError()))
			return evals
		}
		q2.b = q2.b[:0]
		q2.putOp(o)
		cum += len(q2.b)
		m := (cum + 7) / 8
		wantBytes := el[m]
		wantBits := 8*el[m] - (8*m - cum)
		if rd.NrBytesRead() != wantBytes || rd.NrBitsRead() != wantBits || rd.NrBitsReadInCurrentByte() != 8-(8*m-cum) {
			fail("bits.EBSPReader.NrBitsRead", "counter", opsString(wops), fmt.Sprintf("after op %d: NrBytesRead=%d NrBitsRead=%d InCurrentByte=%d, position in the escaped stream is byte %d bit %d", k, rd.NrBytesRead(), rd.NrBitsRead(), rd.NrBitsReadInCurrentByte(), wantBytes, wantBits))
			return evals
		}
	}
	if cum != nValueBits {
		panic("oracle bookkeeping")
	}
	more, err := rd.MoreRbspData()
	if err != nil || rd.AccError() != nil || more {
		fail("bits.EBSPReader.MoreRbspData", "true-at-trailing-bits", opsString(wops), fmt.Sprintf("more=%v err=%v acc=%v with only rbsp_trailing_bits left", more, err, rd.AccError()))
		return evals
	}
	if err := rd.ReadRbspTrailingBits(); err != nil || rd.AccError() != nil {
		fail("bits.EBSPReader.ReadRbspTrailingBits", "rejects-written-trailing-bits", opsString(wops), fmt.Sprintf("err=%v acc=%v", err, rd.AccError()))
		return evals
	}
	if rd.NrBytesRead() != len(esc) {
		fail("bits.EBSPReader.NrBytesRead", "counter", opsString(wops), fmt.Sprintf("NrBytesRead=%d at the end of a %d byte stream", rd.NrBytesRead(), len(esc)))
	}
	// ---- (2) malformed trailing bits must be reported: a 0 first, or a second 1
	evals++
	bad := append([]wop{}, ops...)
	kind := r.Intn(2)
	if kind == 0 {
		bad = append(bad, wop{k: 'f', v: 0}, wop{k: 't'})
	} else {
		bad = append(bad, wop{k: 'f', v: 1})
		for j := r.Intn(12); j > 0; j-- {
			bad = append(bad, wop{k: 'f', v: 0})
		}
		bad = append(bad, wop{k: 'f', v: 1}, wop{k: 'z'})
	}
	besc, _ := runEBSPWriter(bad)
	rd = bits.NewEBSPReader(bytes.NewReader(besc))
	for _, o := range ops {
		switch o.k {
		case 'b':
			rd.Read(o.w)
		case 'f':
			rd.ReadFlag()
		case 'u':
			rd.ReadExpGolomb()
		case 's':
			rd.ReadSignedGolomb()
		}
	}
	if got, want := trailClass(rd.ReadRbspTrailingBits()), []string{"T1", "T2"}[kind]; got != want {
		fail("bits.EBSPReader.ReadRbspTrailingBits", "accepts-malformed-trailing-bits", opsString(bad), fmt.Sprintf("kind %d (0: starts with 0, 1: a second 1): returned class %s (T0 nil, T1 no leading 1, T2 second 1), want %s", kind, got, want))
	}
	// ---- (2b) WriteSEIValue: 0xff bytes and a last byte < 0xff that sum to the value (H.264 7.3.2.3.1)
	evals++
	{
		var sops []wop
		for j := r.Range(1, 4); j > 0; j-- {
			sops = append(sops, wop{k: 'v', v: uint64(r.Pick(0, 1, 254, 255, 256, 509, 510, 511, 765, r.Intn(3000)))})
		}
		sb, _ := runEBSPWriter(sops)
		srd := bits.NewEBSPReader(bytes.NewReader(sb))
		for j, o := range sops {
			sum := uint64(0)
			for {
				b := srd.Read(8)
				sum += uint64(b)
				if b != 0xff || srd.AccError() != nil {
					break
				}
			}
			if sum != o.v || srd.AccError() != nil {
				fail("bits.EBSPWriter.WriteSEIValue", "roundtrip-value", opsString(sops), fmt.Sprintf("value %d: wrote %d, the ff-coded bytes sum to %d (acc=%v)", j, o.v, sum, srd.AccError()))
				break
			}
		}
	}
	// ---- (3) two's complement through Writer.Write / Reader.ReadSigned
	evals++
	{
		var buf bytes.Buffer
		w := bits.NewWriter(&buf)
		type sv struct {
			v int64
			w int
		}
		var svs []sv
		for j := r.Range(1, 8); j > 0; j-- {
			wd := r.Range(1, 32)
			var v int64
			switch r.Intn(4) {
			case 0:
				v = -(int64(1) << uint(wd-1))
			case 1:
				v = (int64(1) << uint(wd-1)) - 1
			case 2:
				v = -1
			default:
				v = int64(r.U64()&((uint64(1)<<uint(wd))-1)) - (int64(1) << uint(wd-1))
			}
			svs = append(svs, sv{v, wd})
			w.Write(uint(v)&bits.Mask(wd), wd)
		}
		w.Flush()
		prd := bits.NewReader(bytes.NewReader(buf.Bytes()))
		for j, x := range svs {
			if got := prd.ReadSigned(x.w); int64(got) != x.v || prd.AccError() != nil {
				fail("bits.Reader.ReadSigned", "roundtrip-value", fmt.Sprintf("%v", svs), fmt.Sprintf("value %d: wrote %d in %d bits, read %d", j, x.v, x.w, got))
				break
			}
		}
	}
	// ---- (4) plain Writer without Flush: whole bytes are out as soon as they are complete
	evals++
	{
		pops := genPlainWops(r, false)
		pops = pops[:len(pops)-1] // no Flush
		var q3 bitbuf
		for j := range pops {
			if pops[j].k == 'b' {
				pops[j].v &= (uint64(1) << uint(pops[j].w)) - 1
			}
			q3.putOp(pops[j])
		}
		whole := q3.b[:len(q3.b)/8*8]
		want := (&bitbuf{b: whole}).bytes()
		if got := runPlainWriter(pops); !bytes.Equal(got, want) {
			fail("bits.Writer.Write", "complete-bytes-not-written", opsString(pops), "output "+hx.Hex(got)+", the complete bytes are "+hx.Hex(want))
		}
		if got := runFixedWriter(pops); !bytes.Equal(got, want) {
			fail("bits.FixedSliceWriter.WriteBits", "complete-bytes-not-written", opsString(pops), "output "+hx.Hex(got)+", the complete bytes are "+hx.Hex(want))
		}
	}
	// ---- (5) FixedSliceWriter with a capacity: bit ops + FlushBits give the prefix of the packed, zero-padded
	// stream, and the error is set exactly when something did not fit
	evals++
	{
		var q4 bitbuf
		var fops []fop
		for _, o := range genFops(r, true) {
			switch o.k {
			case "b":
				o.v &= (uint64(1) << uint(o.w)) - 1
				q4.put(o.v, o.w)
			case "f":
				q4.put(o.v, 1)
			default:
				continue
			}
			fops = append(fops, o)
		}
		fops = append(fops, fop{k: "l"})
		for len(q4.b)%8 != 0 {
			q4.b = append(q4.b, 0)
		}
		full := q4.bytes()
		capacity := r.Range(0, len(full)+2)
		want := full
		if len(want) > capacity {
			want = want[:capacity]
		}
		sw := bits.NewFixedSliceWriter(capacity)
		for _, o := range fops {
			applyFop(sw, o)
		}
		if !bytes.Equal(sw.Bytes(), want) || (sw.AccError() != nil) != (len(full) > capacity) {
			fail("bits.FixedSliceWriter.WriteBits", "capacity", fmt.Sprintf("cap=%d %s", capacity, fopsString(fops)), fmt.Sprintf("bytes %s err=%v; the packed stream is %s", hx.Hex(sw.Bytes()), sw.AccError(), hx.Hex(full)))
		}
	}
	// ---- (6) once the error is set the bit methods write nothing more (WriteBits / WriteFlag / FlushBits
	// "stop at the first error"); the byte-level methods have no such contract and are not judged here
	evals++
	{
		fops := genFops(r, false)
		capacity := r.Range(0, 24)
		sw := bits.NewFixedSliceWriter(capacity)
		for j, o := range fops {
			had, before := sw.AccError() != nil, sw.Len()
			applyFop(sw, o)
			if had && (o.k == "b" || o.k == "f" || o.k == "l") && sw.Len() != before {
				fail("bits.FixedSliceWriter.WriteBits", "writes-after-error", fmt.Sprintf("cap=%d %s", capacity, fopsString(fops)), fmt.Sprintf("op %d (%s) grew the output from %d to %d bytes although AccError was set", j, o.String(), before, sw.Len()))
				break
			}
			if sw.Len() > capacity {
				fail("bits.FixedSliceWriter", "exceeds-capacity", fmt.Sprintf("cap=%d %s", capacity, fopsString(fops)), fmt.Sprintf("Len=%d", sw.Len()))
				break
			}
		}
	}
	// ---- (7) byte-level methods: big-endian encodings, concatenated, in FixedSliceWriter and ByteWriter
	evals++
	{
		var fops []fop
		var full []byte
		for _, o := range genFops(r, false) {
			if o.k == "b" || o.k == "f" || o.k == "l" {
				continue
			}
			fops = append(fops, o)
			full = append(full, fopBytes(o)...)
		}
		sw := bits.NewFixedSliceWriter(len(full))
		for _, o := range fops {
			applyFop(sw, o)
		}
		if !bytes.Equal(sw.Bytes(), full) || sw.AccError() != nil {
			fail("bits.FixedSliceWriter", "big-endian", fopsString(fops), fmt.Sprintf("bytes %s err=%v, want %s", hx.Hex(sw.Bytes()), sw.AccError(), hx.Hex(full)))
		}
		bops := genBops(r)
		full = full[:0]
		for _, o := range bops {
			full = append(full, fopBytes(o)...)
		}
		max := r.Range(0, len(full)+2)
		want := full
		if len(want) > max {
			want = want[:max]
		}
		lw := &limitedWriter{max: max, reject: r.Bool()}
		bw := bits.NewByteWriter(lw)
		for j, o := range bops {
			had, before := bw.AccError() != nil, len(lw.buf)
			applyBop(bw, o)
			if had && len(lw.buf) != before {
				fail("bits.ByteWriter", "writes-after-error", fmt.Sprintf("max=%d %s", max, fopsString(bops)), fmt.Sprintf("op %d wrote although AccError was set", j))
				break
			}
		}
		if lw.reject && bytes.HasPrefix(full, lw.buf) { // all-or-nothing writes: some prefix of the encodings
			want = lw.buf
		}
		if !bytes.Equal(lw.buf, want) || (bw.AccError() != nil) != (len(full) > max) {
			fail("bits.ByteWriter", "big-endian", fmt.Sprintf("max=%d %s", max, fopsString(bops)), fmt.Sprintf("bytes %s err=%v, the encodings are %s", hx.Hex(lw.buf), bw.AccError(), hx.Hex(full)))
		}
	}
	return evals
}
