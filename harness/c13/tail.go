// Reader.ReadRemainingBytes (bits/reader.go) and FixedSliceWriter.WriteString (bits/fixedslicewriter.go):
// correspondence cases for C13ModelTail.v and the search oracles.  WriteString is also one of the ops of
// genFops (kind "s"), so every FixedSliceWriter oracle of ext.go / hygiene.go sees it as well.
package main

import (
	"bytes"
	"fmt"
	"strings"

	"github.com/Eyevinn/mp4ff/bits"
	"verifharness/hx"
)

// reader ops before / after a ReadRemainingBytes: mostly whole bytes (the call then succeeds), sometimes not
func genTailRops(r *hx.Rng) []rop {
	var ops []rop
	aligned := r.Intn(4) != 0
	for j := r.Range(0, 5); j > 0; j-- {
		switch {
		case aligned:
			ops = append(ops, rop{k: 'b', w: 8 * r.Range(0, 4)})
		case r.Intn(4) == 0:
			ops = append(ops, rop{k: 'f'})
		default:
			ops = append(ops, rop{k: 'b', w: r.Range(0, 32)})
		}
	}
	ops = append(ops, rop{k: 'r'})
	for j := r.Range(0, 3); j > 0; j-- { // the reader afterwards: exhausted, or in its error state
		switch r.Intn(5) {
		case 0:
			ops = append(ops, rop{k: 'r'})
		case 1:
			ops = append(ops, rop{k: 'f'})
		case 2:
			ops = append(ops, rop{k: 'y', w: r.Range(1, 32)})
		default:
			ops = append(ops, rop{k: 'b', w: r.Range(0, 32)})
		}
	}
	return ops
}

// ---------------------------------------------------------------- Exp-Golomb codes of any length (theorem C13_read_golomb_any)
// p bits (0..7), then 1..3 codes of q zero bits, a one and q suffix bits (q = 0..80, boundaries 56..58 and 63..65 preferred),
// then the marker byte a5 at whatever alignment that leaves, zero padding; the whole escaped.  Every code read then starts at
// a state the theorem speaks about (error-free, its q zeros + one + q bits ahead): its hypotheses hold by construction.
type longCodes struct {
	data []byte
	p    int
	qs   []int
	sufs [][]byte // the suffix bits of each code
}

func genLongCodes(r *hx.Rng) longCodes {
	var lc longCodes
	var q bitbuf
	lc.p = r.Intn(8)
	q.put(r.U64(), lc.p)
	for k := r.Range(1, 3); k > 0; k-- {
		z := r.Range(0, 80)
		if r.Intn(2) == 0 {
			z = r.Pick(31, 32, 33, 56, 57, 58, 59, 60, 63, 64, 65, 71, 72)
		}
		q.put(0, z)
		q.put(1, 1)
		suf := make([]byte, z)
		mode := r.Intn(3)
		for i := range suf {
			switch mode {
			case 0:
				suf[i] = 0
			case 1:
				suf[i] = 1
			default:
				suf[i] = byte(r.U64() & 1)
			}
		}
		q.b = append(q.b, suf...)
		lc.qs = append(lc.qs, z)
		lc.sufs = append(lc.sufs, suf)
	}
	q.put(0xa5, 8)
	for len(q.b)%8 != 0 {
		q.b = append(q.b, 0)
	}
	lc.data = naiveEscape(q.bytes())
	return lc
}

func (lc longCodes) ops(signed bool) []string {
	var ops []string
	if lc.p > 0 {
		ops = append(ops, "b:"+fmt.Sprint(lc.p))
	}
	for range lc.qs {
		if signed {
			ops = append(ops, "S")
		} else {
			ops = append(ops, "u")
		}
	}
	return append(ops, "b:8", "b:1")
}

func corrTail(r *hx.Rng, n int, id *int) {
	for i := 0; i < n/4+16; i++ { // G-marked R lines: mode E, ops u / S on codes of any length
		lc := genLongCodes(r)
		ops := lc.ops(i%3 == 2)
		fmt.Fprintf(out, "R\t%d\tE\t%s\t%s\t%s\n", *id, hx.Hex(lc.data), strings.Join(ops, ";"), strings.Join(runReaderX(lc.data, ops, true), ","))
		*id++
	}
	emit := func(data []byte, rops []rop) {
		fmt.Fprintf(out, "R\t%d\tP\t%s\t%s\t%s\n", *id, hx.Hex(data), ropsString(rops), strings.Join(runPlainReader(data, rops), ","))
		*id++
	}
	// exhaustive small scope: every number of bits 0..24 read (as 8-bit reads + one last shorter read) from
	// 0..3 bytes, then ReadRemainingBytes, then one more read / a second call
	for l := 0; l <= 3; l++ {
		data := []byte{0x81, 0x00, 0xfe}[:l]
		for nb := 0; nb <= 8*l+1; nb++ {
			var ops []rop
			for k := nb; k > 0; k -= 8 {
				w := 8
				if k < 8 {
					w = k
				}
				ops = append(ops, rop{k: 'b', w: w})
			}
			emit(data, append(append([]rop{}, ops...), rop{k: 'r'}, rop{k: 'b', w: 1}))
			emit(data, append(append([]rop{}, ops...), rop{k: 'r'}, rop{k: 'r'}, rop{k: 'b', w: 0}))
		}
	}
	for i := 0; i < n/2; i++ {
		data := r.Bytes(r.Range(0, 24), nil)
		if r.Intn(3) == 0 {
			data = r.Bytes(r.Range(0, 12), escAlphabet) // the plain reader removes no escapes
		}
		emit(data, genTailRops(r))
	}
}

// searchTail: the documented behaviour on the real code. "ReadRemainingBytes reads remaining bytes if byte-aligned.
// Returns nil if error now or previously": values written with Writer (+Flush) followed by arbitrary bytes are read
// back and the call then returns exactly those bytes when the values fill whole bytes, nil + error otherwise; after
// the call the reader has nothing left.  WriteString: the bytes of the string (+ 00), or nothing and the error.
func searchTail(r *hx.Rng, n int) int {
	evals := 0
	// Exp-Golomb codes of any length: a code of q zeros, a one and q bits is 2q+1 bits long whatever its value, so when the
	// reader reports no error the marker byte behind the codes is read back; a code with q <= 57 must be read without error
	// and has the value of the standard (2^q - 1 + suffix); longer ones exceed what the reader promises to represent and
	// are judged for the position only (an error instead would be fine)
	for i := 0; i < n/4+16; i++ {
		evals++
		lc := genLongCodes(r)
		witness := fmt.Sprintf("%s: %d bits, codes with %v leading zeros, marker a5", hx.Hex(lc.data), lc.p, lc.qs)
		rd := bits.NewEBSPReader(bytes.NewReader(lc.data))
		rd.Read(lc.p)
		bad := false
		for k, z := range lc.qs {
			var got uint64
			if i%3 == 2 {
				sv := rd.ReadSignedGolomb()
				if sv > 0 {
					got = uint64(sv)*2 - 1
				} else {
					got = uint64(-sv) * 2
				}
			} else {
				got = uint64(rd.ReadExpGolomb())
			}
			if rd.AccError() != nil {
				if z <= 57 { // a code the writer produces (values up to 2^57 - 2 have up to 56 zeros; 57 is read exactly too)
					fail("bits.EBSPReader.ReadExpGolomb", "long-code-error", witness, fmt.Sprintf("code %d is complete, yet the error %v was set", k, rd.AccError()))
				}
				bad = true // refusing a longer code with an error is no failure; succeeding at the wrong position is
				break
			}
			if z <= 57 {
				var suf uint64
				for _, b := range lc.sufs[k] {
					suf = suf<<1 | uint64(b)
				}
				if want := (uint64(1)<<uint(z) - 1) + suf; got != want {
					fail("bits.EBSPReader.ReadExpGolomb", "golomb-value", witness, fmt.Sprintf("code %d: read %d, codeNum is %d", k, got, want))
					bad = true
					break
				}
			}
		}
		if bad {
			continue
		}
		if m := rd.Read(8); m != 0xa5 || rd.AccError() != nil {
			fail("bits.EBSPReader.ReadExpGolomb", "long-code-position", witness, fmt.Sprintf("the byte behind the codes was read as %x err=%v", m, rd.AccError()))
		}
	}
	for i := 0; i < n/4+8; i++ {
		evals++
		// values of widths 1..32 through the real Writer; every second case is padded to whole bytes by the ops themselves
		var q bitbuf
		var pops []wop
		for j := r.Range(0, 8); j > 0; j-- {
			w := r.Range(1, 32)
			if r.Intn(3) == 0 {
				w = 8
			}
			v := r.U64() & ((uint64(1) << uint(w)) - 1)
			pops = append(pops, wop{k: 'b', v: v, w: w})
			q.put(v, w)
		}
		if i%2 == 0 && len(q.b)%8 != 0 {
			w := 8 - len(q.b)%8
			v := r.U64() & ((uint64(1) << uint(w)) - 1)
			pops = append(pops, wop{k: 'b', v: v, w: w})
			q.put(v, w)
		}
		alignedEnd := len(q.b)%8 == 0
		tail := r.Bytes(r.Range(0, 20), nil)
		if r.Intn(3) == 0 {
			tail = r.Bytes(r.Range(0, 8), escAlphabet)
		}
		head := runPlainWriter(append(append([]wop{}, pops...), wop{k: 'l'}))
		data := append(append([]byte{}, head...), tail...)
		witness := opsString(pops) + " + flush + tail " + hx.Hex(tail)
		rd := bits.NewReader(bytes.NewReader(data))
		ok := true
		for k, o := range pops {
			if got := uint64(rd.Read(o.w)); got != o.v {
				fail("bits.Reader.Read", "roundtrip-value", witness, fmt.Sprintf("op %d read %x", k, got))
				ok = false
				break
			}
		}
		if !ok {
			continue
		}
		rest := rd.ReadRemainingBytes()
		if alignedEnd {
			if !bytes.Equal(rest, tail) || rd.AccError() != nil {
				fail("bits.Reader.ReadRemainingBytes", "remaining-bytes", witness,
					fmt.Sprintf("byte aligned after the values: returned %s (nil=%v) err=%v, the bytes behind the values are %s", hx.Hex(rest), rest == nil, rd.AccError(), hx.Hex(tail)))
				continue
			}
			// nothing is left: a further call returns no bytes, a further read fails with 0
			if again := rd.ReadRemainingBytes(); len(again) != 0 {
				fail("bits.Reader.ReadRemainingBytes", "remaining-bytes-twice", witness, "a second call returned "+hx.Hex(again))
			}
			if v := rd.Read(1); v != 0 || rd.AccError() == nil {
				fail("bits.Reader.ReadRemainingBytes", "read-after-remaining", witness, fmt.Sprintf("Read(1) after all bytes were handed out returned %d err=%v", v, rd.AccError()))
			}
		} else {
			if rest != nil || rd.AccError() == nil {
				fail("bits.Reader.ReadRemainingBytes", "unaligned-accepted", witness,
					fmt.Sprintf("%d bits pending: returned %s (nil=%v) err=%v", 8-len(q.b)%8, hx.Hex(rest), rest == nil, rd.AccError()))
				continue
			}
			// the error sticks: later reads and calls return the zero value
			if v := rd.Read(r.Range(1, 8)); v != 0 {
				fail("bits.Reader.Read", "value-after-error", witness, fmt.Sprintf("Read after the alignment error returned %d", v))
			}
			if again := rd.ReadRemainingBytes(); again != nil {
				fail("bits.Reader.ReadRemainingBytes", "value-after-error", witness, "returned "+hx.Hex(again)+" although the error was set")
			}
		}
		// a previous error (read past the end) also gives nil
		evals++
		short := bits.NewReader(bytes.NewReader(data))
		for k := 0; k <= len(data); k++ {
			short.Read(8)
		}
		if rest := short.ReadRemainingBytes(); rest != nil || short.AccError() == nil {
			fail("bits.Reader.ReadRemainingBytes", "value-after-error", "Read(8) x "+fmt.Sprint(len(data)+1)+" on "+hx.Hex(data), "returned "+hx.Hex(rest)+" after a failed read")
		}

		// WriteString: strings between other byte-level values; exact fit, one byte short, roomy
		evals++
		var fops []fop
		var full []byte
		for j := r.Range(1, 5); j > 0; j-- {
			var o fop
			if r.Intn(3) == 0 {
				o = fop{k: "u", v: r.U64() & 0xffff, w: 2}
			} else {
				o = fop{k: "s", b: r.Bytes(r.Range(0, 9), nil), v: uint64(r.Intn(2))}
				if r.Intn(4) == 0 {
					o.b = r.Bytes(r.Range(0, 5), escAlphabet) // zero bytes inside the string are bytes like any other
				}
			}
			fops = append(fops, o)
			full = append(full, fopBytes(o)...)
		}
		for _, slack := range []int{0, 7} {
			sw := bits.NewFixedSliceWriter(len(full) + slack)
			for _, o := range fops {
				applyFop(sw, o)
			}
			if !bytes.Equal(sw.Bytes(), full) || sw.AccError() != nil || sw.Offset() != len(full) {
				fail("bits.FixedSliceWriter.WriteString", "string-bytes", fmt.Sprintf("cap=%d %s", len(full)+slack, fopsString(fops)),
					fmt.Sprintf("bytes %s off=%d err=%v, want %s", hx.Hex(sw.Bytes()), sw.Offset(), sw.AccError(), hx.Hex(full)))
			}
		}
		// too small by 1..3 bytes: the error is reported and nothing goes beyond the capacity (a later, shorter value
		// may still be written: the byte-level methods do not consult the error)
		if len(full) > 0 {
			short := 3
			if len(full) < short {
				short = len(full)
			}
			capacity := len(full) - r.Range(1, short)
			sw := bits.NewFixedSliceWriter(capacity)
			for _, o := range fops {
				applyFop(sw, o)
			}
			if sw.AccError() == nil || sw.Len() > capacity {
				fail("bits.FixedSliceWriter.WriteString", "string-capacity", fmt.Sprintf("cap=%d %s", capacity, fopsString(fops)),
					fmt.Sprintf("%d bytes do not fit: Len=%d err=%v", len(full), sw.Len(), sw.AccError()))
			}
		}
	}
	return evals
}
