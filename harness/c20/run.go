// corr / search / worker / replay sub-commands.
package main

import (
	"bufio"
	"bytes"
	"fmt"
	"os"
	"os/exec"
	"reflect"
	"regexp"
	"runtime"
	"sort"
	"strconv"
	"strings"
	"sync"

	"verifharness/hx"
)

// ---------------------------------------------------------------- corr

// cmdCorr: sequential programs; after every op the aliasing of the op's target object is observed by pointer
// range and every shared input is re-hashed.  Line: S <id> <thread> <prog> <class/alias/changed;...>
func cmdCorr(repo string, seed uint64, n int) int {
	c := buildCorpus(repo, seed)
	rng := hx.NewRng(seed + 1)
	w := bufio.NewWriterSize(os.Stdout, 1<<20)
	defer w.Flush()
	shared := c.sharedWorld()
	for id := 0; id < n; id++ {
		mode := modeAny
		if id%3 == 0 {
			mode = modeSafe
		}
		nops := rng.Range(2, 10)
		var prog []op
		if id%5 == 4 {
			mut, in := pickUnsafe(rng, c)
			prog, _, _ = genProgram(rng, c, modeUnsafe, in, mut, nops)
		} else {
			prog, _, _ = genProgram(rng, c, mode, 0, 0, nops)
		}
		tid := rng.Range(1, 16)
		objs := map[int]*object{}
		var obs []string
		km := shared.keys(corrSlot(id))
		for _, o := range prog {
			r := execOp(o, objs, shared, km)
			target := o.d
			switch o.code {
			case 'C', 'c', 'X', 'B', 'N', 'Y', 'F', 'A':
				target = o.o
			}
			alias := "none"
			if r.class == "ok" {
				al := aliasOf(objs[target], shared.bytes)
				switch len(al) {
				case 0:
					alias = "own"
				case 1:
					alias = fmt.Sprintf("in%d", al[0])
				default:
					alias = "multi" + hx.Csv(al)
				}
			}
			// exact comparison of every shared input (byte slices and shared DecryptInfos) with its pristine state;
			// changed ones are restored right away so that the next op's change set is its own
			changed := shared.changed(false)
			obs = append(obs, fmt.Sprintf("%s/%s/%s", r.class, alias, hx.Csv(changed)))
		}
		var lean []int
		for k := range c.info {
			if c.lean[k] && inputsRead(prog)[k] {
				lean = append(lean, k)
			}
		}
		fmt.Fprintf(w, "S\t%d\t%d\t%s\t%s\t%s\n", id, tid, progString(prog), strings.Join(obs, ";"), hx.Csv(lean))
	}
	return 0
}

// pickUnsafe chooses an in-place op and a shared input on which it is effective.
func pickUnsafe(rng *hx.Rng, c *corpus) (byte, int) {
	for {
		mut := []byte{'X', 'C', 'c', 'B', 'Y', 'F'}[rng.Intn(6)]
		var k int
		switch mut {
		case 'X':
			k = c.pick(rng, func(i int, in inputInfo) bool { return in.role == "full" && in.enc })
		case 'C', 'c':
			k = c.pick(rng, func(i int, in inputInfo) bool { return in.role == "full" && !in.enc && in.codec != "" })
		case 'B':
			k = c.pick(rng, func(i int, in inputInfo) bool {
				return (in.role == "full" || in.role == "media") && (in.codec == "avc" || in.codec == "hevc")
			})
		case 'Y':
			k = c.pick(rng, func(i int, in inputInfo) bool { return in.role == "media" && in.enc })
		case 'F':
			k = c.pick(rng, func(i int, in inputInfo) bool { return in.role == "media" && !in.enc })
		}
		if k >= 0 {
			return mut, k
		}
	}
}

// ---------------------------------------------------------------- rounds

type round struct {
	id      int
	mode    string // safe | known
	progs   [][]op
	unsafe  []string     // per goroutine: first in-place op on a shared input ("" if none)
	targets map[int]bool // shared inputs some goroutine modifies in place (generator bookkeeping)
	skew    []int
	gosch   uint64
}

func (r *round) witness(seed uint64) string {
	ps := make([]string, len(r.progs))
	for i, p := range r.progs {
		ps[i] = progString(p)
	}
	sk := make([]string, len(r.skew))
	for i, s := range r.skew {
		sk[i] = strconv.Itoa(s)
	}
	return fmt.Sprintf("seed=%d round=%d mode=%s skew=%s gosched=%d progs=%s", seed, r.id, r.mode,
		strings.Join(sk, ","), r.gosch, strings.Join(ps, "|"))
}

func parseWitness(w string) (seed uint64, r *round, err error) {
	r = &round{}
	for _, f := range strings.Fields(w) {
		kv := strings.SplitN(f, "=", 2)
		if len(kv) != 2 {
			continue
		}
		switch kv[0] {
		case "seed":
			seed, err = strconv.ParseUint(kv[1], 10, 64)
		case "round":
			r.id, err = strconv.Atoi(kv[1])
		case "mode":
			r.mode = kv[1]
		case "gosched":
			r.gosch, err = strconv.ParseUint(kv[1], 10, 64)
		case "skew":
			for _, s := range strings.Split(kv[1], ",") {
				v, _ := strconv.Atoi(s)
				r.skew = append(r.skew, v)
			}
		case "progs":
			for _, ps := range strings.Split(kv[1], "|") {
				p, e := parseProg(ps)
				if e != nil {
					return 0, nil, e
				}
				r.progs = append(r.progs, p)
				r.unsafe = append(r.unsafe, "")
			}
		}
		if err != nil {
			return 0, nil, err
		}
	}
	for len(r.skew) < len(r.progs) {
		r.skew = append(r.skew, 0)
	}
	return seed, r, nil
}

// genRound: round k of the stream determined by seed. Rounds k < n are "safe", the others reproduce the
// recorded scenario (SliceReader decode of a SHARED input + in-place op).
func genRound(seed uint64, k, n int, c *corpus) *round {
	rng := hx.NewRng(seed*1000003 + uint64(k)*7919 + 17)
	r := &round{id: k, mode: "safe", gosch: rng.U64(), targets: map[int]bool{}}
	g := rng.Range(2, 16)
	if k >= n {
		r.mode = "known"
		g = rng.Range(2, 6)
	}
	var mut0 byte
	var in0 int
	for t := 0; t < g; t++ {
		nops := rng.Range(2, 9)
		r.skew = append(r.skew, rng.Intn(200))
		if r.mode == "known" && t < 2 {
			// goroutine 0 always applies the in-place op; goroutine 1 on the same input in 2 rounds of 3
			// (otherwise it decodes that input through a Reader, or does something unrelated)
			if t == 0 || (k-n)%3 != 2 {
				if t == 0 {
					mut0, in0 = pickUnsafe(rng, c)
				}
				mut, in := mut0, in0
				p, u, m := genProgram(rng, c, modeUnsafe, in, mut, rng.Range(4, 6))
				for _, x := range m {
					r.targets[x] = true
				}
				r.progs = append(r.progs, p)
				r.unsafe = append(r.unsafe, u)
				continue
			}
		}
		if r.mode == "safe" && k%4 == 3 {
			// inspection round: every goroutine decodes its own AC-3 / E-AC-3 configuration (or zoo file) from the
			// shared bytes and inspects / re-encodes it
			r.progs = append(r.progs, genInspect(rng, c, t))
			r.unsafe = append(r.unsafe, "")
			continue
		}
		p, _, _ := genProgram(rng, c, modeSafe, 0, 0, nops)
		r.progs = append(r.progs, p)
		r.unsafe = append(r.unsafe, "")
	}
	return r
}

type roundOutcome struct {
	diffs    []string // "<goroutine>:<op index>:<op name>" or "<goroutine>:final"
	changed  []int    // shared inputs whose hash changed
	refdiffs []string // "<goroutine>:<op index>:<description>": independent reference / history oracle
}

type histEntry struct {
	res   opResult
	round int
}

// history: program prefix (with key class) -> result of its first sequential run in this process
var history = map[string]histEntry{}

// runRound: sequential references on private copies, then the concurrent run on the shared inputs.
func runRound(r *round, c *corpus, shared *world) roundOutcome {
	g := len(r.progs)
	type ref struct {
		res   []opResult
		final string
	}
	refs := make([]ref, g)
	var seqChanged []string
	for t := 0; t < g; t++ {
		priv := c.privateWorld(inputsRead(r.progs[t]))
		res, fin, _ := runProgram(r.progs[t], priv, priv.keys(t), nil)
		refs[t] = ref{res, fin}
		// run alone, the library must not have written any byte of the caller's key / IV / KID table either
		if priv.keytabChanged(true) {
			seqChanged = append(seqChanged, fmt.Sprintf("%d:-:run alone on private copies, the program changed the caller's %s (a []byte argument with spare capacity was written behind its length, or in place)", t, c.inputName(len(c.info))))
		}
	}
	got := make([]ref, g)
	var wg sync.WaitGroup
	start := make(chan struct{})
	for t := 0; t < g; t++ {
		wg.Add(1)
		go func(t int) {
			defer wg.Done()
			rng := hx.NewRng(r.gosch + uint64(t)*31)
			<-start
			for i := 0; i < r.skew[t]; i++ {
				runtime.Gosched()
			}
			res, fin, _ := runProgram(r.progs[t], shared, shared.keys(t), func(int) {
				for i := rng.Intn(4); i > 0; i-- {
					runtime.Gosched()
				}
			})
			got[t] = ref{res, fin}
		}(t)
	}
	close(start)
	wg.Wait()
	var out roundOutcome
	out.refdiffs = append(out.refdiffs, seqChanged...)
	for t := 0; t < g; t++ {
		// independent reference (AC-3 channel tables): in the sequential or in the concurrent run
		for which, rs := range [][]opResult{refs[t].res, got[t].res} {
			for i, x := range rs {
				// consistency oracles between two reads of the same bytes only count in the sequential run on private
				// copies: in the concurrent run of a recorded-scenario round another goroutine may be rewriting the input
				// (that shows up as result-differs)
				if which == 1 && strings.HasPrefix(x.bad, "seq-only:") {
					continue
				}
				if x.bad != "" {
					out.refdiffs = append(out.refdiffs, fmt.Sprintf("%d:%d:%s", t, i, x.bad))
					break
				}
			}
		}
		// history: the same program prefix run alone on fresh copies of the same inputs with the same key gave
		// something else earlier in this process
		for i := 0; i < len(refs[t].res) && i < 4; i++ {
			key := fmt.Sprintf("%s/%s", keyClass(t), progString(r.progs[t][:i+1]))
			x := refs[t].res[i]
			x.bad = ""
			if old, ok := history[key]; ok {
				if old.res != x {
					out.refdiffs = append(out.refdiffs, fmt.Sprintf("%d:%d:%s run alone now gives %s/%s, in round %d it gave %s/%s (hidden state kept across calls)",
						t, i, opName(r.progs[t][i].code), x.class, x.digest, old.round, old.res.class, old.res.digest))
					break
				}
			} else if len(history) < 200000 {
				history[key] = histEntry{x, r.id}
			}
		}
		found := false
		for i := range refs[t].res {
			if i >= len(got[t].res) || refs[t].res[i] != got[t].res[i] {
				out.diffs = append(out.diffs, fmt.Sprintf("%d:%d:%s", t, i, opName(r.progs[t][i].code)))
				found = true
				break
			}
		}
		if !found && refs[t].final != got[t].final {
			out.diffs = append(out.diffs, fmt.Sprintf("%d:final:", t))
		}
	}
	out.changed = shared.changed(true) // SHA-256 of every shared input (digest for shared DecryptInfos); restores
	return out
}

// cmdWorker runs rounds [from, n+known) and reports on stdout; round markers also go to stderr so that race
// reports (written to stderr by the runtime) can be attributed to a round.
func cmdWorker(repo string, seed uint64, from, n, known, stride int) int {
	if stride < 1 {
		stride = 1
	}
	c := buildCorpus(repo, seed)
	shared := c.sharedWorld()
	for k, in := range shared.bytes {
		fmt.Printf("INPUTADDR\t%d\t%d\t%d\n", k, reflect.ValueOf(in).Pointer(), len(in))
	}
	for k, in := range c.info {
		fmt.Printf("INPUTNAME\t%d\t%s\n", k, in.name)
	}
	fmt.Printf("INPUTNAME\t%d\t%s\n", len(c.info), c.inputName(len(c.info)))
	fmt.Printf("BOXTYPES\t%d\n", len(c.boxTypes))
	for k := from; k < n+known; k += stride {
		r := genRound(seed, k, n, c)
		fmt.Printf("ROUND\t%d\t%s\t%d\t%s\t%s\n", k, r.mode, len(r.progs), strings.Join(r.unsafe, ","), r.witness(seed))
		fmt.Fprintf(os.Stderr, "@@ROUND %d\n", k)
		out := runRound(r, c, shared)
		fmt.Fprintf(os.Stderr, "@@DONE %d\n", k)
		nops := 0
		for _, p := range r.progs {
			nops += len(p)
		}
		// inputs that some goroutine of this round decodes through a SliceReader and then modifies in place
		targets := r.targets
		var tl []int
		for in := range c.info {
			if targets[in] {
				tl = append(tl, in)
			}
		}
		for i, d := range out.diffs {
			var t int
			fmt.Sscanf(d, "%d:", &t)
			attr := ":u"
			for in := range inputsRead(r.progs[t]) {
				if targets[in] {
					attr = ":k"
				}
			}
			out.diffs[i] = d + attr
		}
		for i := range out.refdiffs {
			out.refdiffs[i] = strings.NewReplacer("\t", " ", "\n", " ", "|", "/").Replace(out.refdiffs[i])
		}
		fmt.Printf("DONE\t%d\t%d\t%s\t%s\t%s\t%s\n", k, nops, strings.Join(out.diffs, ","), hx.Csv(out.changed), hx.Csv(tl), strings.Join(out.refdiffs, "|"))
	}
	return 0
}

var raceAddr = regexp.MustCompile(`(?m)^(?:Write|Read|Previous write|Previous read) at (0x[0-9a-f]+) by`)
var raceFunc = regexp.MustCompile(`(?m)^  (github\.com/Eyevinn/mp4ff/[^\s(]+(?:\([^)]*\))?[^\s(]*)\(\)`)

type raceReport struct {
	addrs []uint64
	funcs []string
	text  string
}

func parseRaces(stderr string) map[int][]raceReport {
	out := map[int][]raceReport{}
	cur := -1
	blocks := strings.Split(stderr, "==================")
	for _, b := range blocks {
		// markers may sit before/after report blocks in the same chunk: process in textual order
		lines := strings.Split(b, "\n")
		isRace := strings.Contains(b, "WARNING: DATA RACE")
		roundAtStart := cur
		for _, l := range lines {
			if strings.HasPrefix(l, "@@ROUND ") {
				cur, _ = strconv.Atoi(strings.TrimPrefix(l, "@@ROUND "))
				if !isRace {
					roundAtStart = cur
				}
			}
		}
		if isRace {
			rr := raceReport{text: b}
			for _, m := range raceAddr.FindAllStringSubmatch(b, -1) {
				v, _ := strconv.ParseUint(m[1], 0, 64)
				rr.addrs = append(rr.addrs, v)
			}
			for _, m := range raceFunc.FindAllStringSubmatch(b, -1) {
				rr.funcs = append(rr.funcs, strings.TrimPrefix(m[1], "github.com/Eyevinn/mp4ff/"))
			}
			out[roundAtStart] = append(out[roundAtStart], rr)
		}
	}
	return out
}

func mutatorSite(u string) string { return "DecodeFileSR+" + u }

// cmdSearch: parent. Runs the worker (this binary) and turns its observations into FAIL lines.
func cmdSearch(repo string, seed uint64, n, known int, norace bool, workers int) int {
	if workers < 1 {
		workers = 1
	}
	type in struct{ lo, hi uint64 }
	type rinfo struct {
		mode    string
		unsafe  []string
		witness string
		done    bool
		nops    int
		diffs   []string
		refd    []string
		changed string
		targets string
		races   []raceReport
		inputs  []in
		exit    int
		stderr  string
	}
	rounds := map[int]*rinfo{}
	names := map[string]string{}
	boxTypes := 0
	var order []int
	var mu sync.Mutex
	var wg sync.WaitGroup
	failed := ""
	for w := 0; w < workers; w++ {
		wg.Add(1)
		go func(w int) {
			defer wg.Done()
			cmd := exec.Command(os.Args[0], "worker", "-repo", repo, "-seed", fmt.Sprint(seed), "-n", fmt.Sprint(n),
				"-known", fmt.Sprint(known), "-from", fmt.Sprint(w), "-stride", fmt.Sprint(workers))
			var so, se bytes.Buffer
			cmd.Stdout, cmd.Stderr = &so, &se
			cmd.Env = append(os.Environ(), "GORACE=halt_on_error=0 exitcode=66")
			err := cmd.Run()
			exit := 0
			if err != nil {
				if ee, ok := err.(*exec.ExitError); ok {
					exit = ee.ExitCode()
				} else {
					mu.Lock()
					failed = "cannot run worker: " + err.Error()
					mu.Unlock()
					return
				}
			}
			races := parseRaces(se.String())
			var inputs []in
			mu.Lock()
			defer mu.Unlock()
			seen := 0
			for _, l := range strings.Split(so.String(), "\n") {
				f := strings.Split(l, "\t")
				switch f[0] {
				case "INPUTNAME":
					names[f[1]] = f[2]
				case "BOXTYPES":
					boxTypes, _ = strconv.Atoi(f[1])
				case "INPUTADDR":
					lo, _ := strconv.ParseUint(f[2], 10, 64)
					ln, _ := strconv.ParseUint(f[3], 10, 64)
					inputs = append(inputs, in{lo, lo + ln})
				case "ROUND":
					k, _ := strconv.Atoi(f[1])
					rounds[k] = &rinfo{mode: f[2], unsafe: strings.Split(f[4], ","), witness: f[5], races: races[k],
						inputs: inputs, exit: exit, stderr: se.String()}
					order = append(order, k)
					seen++
				case "DONE":
					k, _ := strconv.Atoi(f[1])
					if ri := rounds[k]; ri != nil {
						ri.done = true
						ri.nops, _ = strconv.Atoi(f[2])
						if f[3] != "" {
							ri.diffs = strings.Split(f[3], ",")
						}
						ri.changed = f[4]
						ri.targets = f[5]
						if len(f) > 6 && f[6] != "" {
							ri.refd = strings.Split(f[6], "|")
						}
					}
				}
			}
			if exit != 0 && exit != 66 && seen == 0 {
				failed = "worker failed: " + se.String()
			}
		}(w)
	}
	wg.Wait()
	if failed != "" {
		fmt.Fprintln(os.Stderr, failed)
		return 2
	}
	sort.Ints(order)
	exit := 0
	for _, ri := range rounds {
		if ri.exit != 0 {
			exit = ri.exit
		}
	}
	onInput := func(rr raceReport, inputs []in) bool {
		if len(rr.addrs) == 0 {
			return false
		}
		for _, a := range rr.addrs {
			ok := false
			for _, r := range inputs {
				if a >= r.lo && a < r.hi {
					ok = true
				}
			}
			if !ok {
				return false
			}
		}
		return true
	}
	named := func(csv string) string {
		var out []string
		for _, k := range strings.Split(csv, ",") {
			out = append(out, k+" ["+names[k]+"]")
		}
		return strings.Join(out, ", ")
	}
	evals, nraces, nKnownRounds, nKnownHit := 0, 0, 0, 0
	firstUnsafe := func(ri *rinfo) string {
		for _, u := range ri.unsafe {
			if u != "" {
				return u
			}
		}
		return ""
	}
	for _, k := range order {
		ri := rounds[k]
		fmt.Printf("R\t%d\t%s\t%s\n", k, ri.mode, ri.witness[strings.Index(ri.witness, "progs=")+6:])
		evals += ri.nops
		known := ri.mode == "known"
		if known {
			nKnownRounds++
		}
		site := "independent-goroutines"
		hit := false
		if !ri.done {
			tail := ri.stderr
			if len(tail) > 1500 {
				tail = tail[len(tail)-1500:]
			}
			fmt.Printf("FAIL\t%s\tcrash\t%s\tworker died in this round (exit %d): %s\n", site, ri.witness, ri.exit,
				strings.ReplaceAll(strings.ReplaceAll(tail, "\n", " | "), "\t", " "))
			continue
		}
		for _, rr := range ri.races {
			nraces++
			fn := "?"
			if len(rr.funcs) > 0 {
				fn = rr.funcs[0]
			}
			if known && onInput(rr, ri.inputs) {
				hit = true
				fmt.Printf("FAIL\t%s\trace-on-shared-input\t%s\tdata race on the bytes of a shared input (in %s)\n",
					mutatorSite(firstUnsafe(ri)), ri.witness, fn)
			} else {
				fmt.Printf("FAIL\t%s\trace\t%s\tdata race reported in %s: %s\n", site, ri.witness, fn,
					strings.ReplaceAll(strings.ReplaceAll(firstLines(rr.text, 14), "\n", " | "), "\t", " "))
			}
		}
		if ri.changed != "-" && ri.changed != "" {
			if known && subsetCsv(ri.changed, ri.targets) {
				hit = true
				fmt.Printf("FAIL\t%s\tinput-mutated\t%s\tSHA-256 of shared input(s) %s changed\n", mutatorSite(firstUnsafe(ri)), ri.witness, named(ri.changed))
			} else {
				fmt.Printf("FAIL\t%s\tinput-mutated\t%s\tSHA-256 of shared input(s) %s changed although no goroutine applied an in-place operation to an object decoded from them through a SliceReader\n", site, ri.witness, named(ri.changed))
			}
		}
		for _, d := range ri.diffs {
			if known && strings.HasSuffix(d, ":k") {
				// interference is recorded only for goroutines that read the mutated input
				hit = true
				fmt.Printf("FAIL\t%s\tresult-differs\t%s\tgoroutine:op %s differs from its sequential run\n", mutatorSite(firstUnsafe(ri)), ri.witness, d)
			} else {
				fmt.Printf("FAIL\t%s\tresult-differs\t%s\tgoroutine:op %s differs from its sequential run\n", site, ri.witness, d)
			}
		}
		for _, d := range ri.refd {
			fmt.Printf("FAIL\t%s\treference-differs\t%s\tgoroutine:op:%s\n", site, ri.witness, d)
		}
		if known && hit {
			nKnownHit++
		}
	}
	nz, na := 0, 0
	for _, nm := range names {
		if strings.HasPrefix(nm, "zoo:") {
			nz++
		}
		if strings.HasPrefix(nm, "dac3:") || strings.HasPrefix(nm, "dec3:") || strings.HasPrefix(nm, "ac-3-init") || strings.HasPrefix(nm, "ec-3-init") {
			na++
		}
	}
	evals += readerAliasProbe()
	fmt.Printf("STAT\tinputs\t%d\nSTAT\tzoo_files\t%d\nSTAT\tzoo_box_types\t%d\nSTAT\tac3_inputs\t%d\n", len(names), nz, boxTypes, na)
	fmt.Printf("EVALS\t%d\n", evals)
	fmt.Printf("STAT\trounds\t%d\nSTAT\trace_reports\t%d\nSTAT\tknown_rounds\t%d\nSTAT\tknown_rounds_reproduced\t%d\nSTAT\tworker_exit\t%d\n",
		len(order), nraces, nKnownRounds, nKnownHit, exit)
	return 0
}

func subsetCsv(a, b string) bool {
	m := map[string]bool{}
	for _, x := range strings.Split(b, ",") {
		m[x] = true
	}
	for _, x := range strings.Split(a, ",") {
		if !m[x] {
			return false
		}
	}
	return true
}

func firstLines(s string, n int) string {
	ls := strings.Split(strings.TrimSpace(s), "\n")
	if len(ls) > n {
		ls = ls[:n]
	}
	return strings.Join(ls, "\n")
}

// cmdReplay re-runs one round (given by its witness) 25 times in a worker-like child and prints what it saw.
func cmdReplay(repo, w string, norace bool) int {
	if os.Getenv("C20_REPLAY_CHILD") == "1" {
		seed, r, err := parseWitness(w)
		if err != nil {
			fmt.Fprintln(os.Stderr, err)
			return 2
		}
		c := buildCorpus(repo, seed)
		shared := c.sharedWorld()
		for i := 0; i < 25; i++ {
			out := runRound(r, c, shared)
			fmt.Printf("run %d: diffs=%v changed-inputs=%v reference=%v\n", i, out.diffs, out.changed, out.refdiffs)
		}
		return 0
	}
	cmd := exec.Command(os.Args[0], "replay", "-repo", repo, "-w", w)
	cmd.Env = append(os.Environ(), "C20_REPLAY_CHILD=1", "GORACE=halt_on_error=0 exitcode=66")
	var so, se bytes.Buffer
	cmd.Stdout, cmd.Stderr = &so, &se
	err := cmd.Run()
	fmt.Print(so.String())
	n := strings.Count(se.String(), "WARNING: DATA RACE")
	fmt.Printf("race reports: %d (exit: %v)\n", n, err)
	if n > 0 {
		fmt.Println(firstLines(se.String(), 40))
	}
	if n > 0 || strings.Contains(so.String(), "diffs=[") && !strings.Contains(so.String(), "diffs=[] changed-inputs=[] reference=[]") {
		return 1
	}
	return 0
}
