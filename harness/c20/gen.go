// Program generator.  It tracks, for generation purposes only, what each object is and whether its payload
// aliases a shared input (the same bookkeeping as `pl` in coq/c20/C20Model.v; the model recomputes it
// independently from the program text and the harness observes it on the real objects by pointer range).
package main

import (
	"fmt"

	"verifharness/hx"
)

type gobj struct {
	kind   byte // 'f' file, 'b' buffer, 's' samples, 'k' decrypt info, 'p' protect data
	alias  int  // -1: payload owned by the goroutine; k: payload inside shared input k
	origin int  // input the content derives from (-1: none, e.g. Info text)
	role   string
	codec  string
	enc    bool // file content is encrypted
	annexb bool // samples were converted to byte stream format
	src    string // file: the source it was decoded from ("i<k>" / "o<k>")
	lazy   bool   // file: decoded with DecModeLazyMdat (mdat payload not in memory)
}

func (g *gobj) video() bool   { return g.codec == "avc" || g.codec == "hevc" }
func (g *gobj) hasInit() bool { return g.role == "full" || g.role == "init" }
func (g *gobj) hasMedia() bool {
	return g.role == "full" || g.role == "media"
}

type genMode int

const (
	modeSafe   genMode = iota // in-place ops only on payloads the goroutine owns
	modeAny                   // no restriction (correspondence cases)
	modeUnsafe                // starts with SR decode of a given shared input followed by an in-place op on it
)

type generator struct {
	rng         *hx.Rng
	c           *corpus
	mode        genMode
	prog        []op
	objs        map[int]*gobj
	next        int
	firstUnsafe string
	mutated     []int
}

func (g *generator) markMut(k int) {
	for _, x := range g.mutated {
		if x == k {
			return
		}
	}
	g.mutated = append(g.mutated, k)
}

func (g *generator) newID() int {
	// mostly fresh ids, sometimes overwrite an existing object
	if g.next > 0 && g.rng.Intn(10) == 0 {
		return g.rng.Intn(g.next)
	}
	g.next++
	return g.next - 1
}

func (g *generator) fresh() int {
	g.next++
	return g.next - 1
}

func (g *generator) emit(o op) { g.prog = append(g.prog, o) }

// decode of shared input k into object d.
func (g *generator) decode(k int, sr bool, d int) int {
	code, alias := byte('D'), -1
	if sr {
		code, alias = 'R', k
	}
	g.emit(op{code: code, src: fmt.Sprintf("i%d", k), d: d})
	in := g.c.info[k]
	g.objs[d] = &gobj{kind: 'f', alias: alias, origin: k, role: in.role, codec: in.codec, enc: in.enc, src: fmt.Sprintf("i%d", k)}
	return d
}

// lazy decode (DecModeLazyMdat, io.ReadSeeker path only) of shared input k into object d: no view of the input is kept.
func (g *generator) decodeLazy(k int, d int) int {
	g.emit(op{code: 'L', src: fmt.Sprintf("i%d", k), d: d})
	in := g.c.info[k]
	g.objs[d] = &gobj{kind: 'f', alias: -1, origin: k, role: in.role, codec: in.codec, enc: in.enc, src: fmt.Sprintf("i%d", k), lazy: true}
	return d
}

// ReadData of every mdat of file k through a ReadSeeker over the file's source: fresh bytes if the file was decoded lazily,
// views of MdatBox.Data otherwise (which are views of the input after a SliceReader decode).
func (g *generator) readData(k int, d int) {
	o := g.objs[k]
	g.emit(op{code: 'M', o: k, src: o.src, d: d})
	alias := o.alias
	if o.lazy {
		alias = -1
	}
	g.objs[d] = &gobj{kind: 's', alias: alias, origin: o.origin, codec: o.codec, enc: o.enc}
}

func (g *generator) inplaceOK(o *gobj) bool { return g.mode != modeSafe || o.alias < 0 }

func (g *generator) noteInplace(o *gobj, code byte) {
	if o.alias >= 0 {
		g.markMut(o.alias)
		if g.firstUnsafe == "" {
			g.firstUnsafe = opName(code)
		}
	}
}

func (g *generator) pickBytes(ok func(in inputInfo) bool) int {
	return g.c.pick(g.rng, func(i int, in inputInfo) bool { return i < g.c.nbytes && ok(in) })
}

// decryptPipeline: init (Reader / SliceReader, shared) -> DecryptInit -> media -> DecryptSegment, or the same with a
// DecryptInfo shared between the goroutines.
func (g *generator) decryptPipeline() {
	ini := g.pickBytes(func(in inputInfo) bool { return in.role == "init" && in.enc })
	codec := g.c.info[ini].codec
	med := g.pickBytes(func(in inputInfo) bool { return in.role == "media" && in.enc && in.codec == codec })
	var diSrc string
	if g.rng.Intn(4) == 0 {
		k := g.c.pick(g.rng, func(i int, in inputInfo) bool { return in.role == "di" && in.codec == codec })
		diSrc = fmt.Sprintf("i%d", k)
	} else {
		f := g.decode(ini, g.rng.Bool(), g.fresh())
		d := g.fresh()
		g.emit(op{code: 'K', o: f, d: d})
		g.objs[d] = &gobj{kind: 'k', alias: g.objs[f].alias, origin: ini, codec: codec}
		diSrc = fmt.Sprintf("o%d", d)
	}
	sr := g.rng.Bool()
	if g.mode == modeSafe {
		sr = false
	}
	m := g.decode(med, sr, g.fresh())
	if sr && g.mode == modeSafe {
		return
	}
	g.noteInplace(g.objs[m], 'Y')
	g.emit(op{code: 'Y', o: m, src: diSrc})
	g.objs[m].enc = false
}

// encryptPipeline: clear init -> InitProtect -> clear media -> EncryptFragment.
func (g *generator) encryptPipeline() {
	ini := g.pickBytes(func(in inputInfo) bool { return in.role == "init" && !in.enc })
	codec := g.c.info[ini].codec
	med := g.pickBytes(func(in inputInfo) bool { return in.role == "media" && !in.enc && in.codec == codec })
	f := g.decode(ini, g.rng.Bool(), g.fresh())
	d := g.fresh()
	code := byte('P')
	if g.rng.Bool() {
		code = 'p'
	}
	g.emit(op{code: code, o: f, d: d})
	g.objs[f].enc = true
	g.objs[d] = &gobj{kind: 'p', alias: g.objs[f].alias, origin: ini, codec: codec}
	sr := g.rng.Bool()
	if g.mode == modeSafe {
		sr = false
	}
	m := g.decode(med, sr, g.fresh())
	g.noteInplace(g.objs[m], 'F')
	g.emit(op{code: 'F', o: m, d: d})
	g.objs[m].enc = true
}

// genProgram returns a program, the first in-place op applied to an object aliasing a shared input ("" if none)
// and the shared inputs such ops are applied to.
func genProgram(rng *hx.Rng, c *corpus, mode genMode, forcedInput int, forcedMut byte, nops int) ([]op, string, []int) {
	g := &generator{rng: rng, c: c, mode: mode, objs: map[int]*gobj{}}
	anyInput := func() int {
		// favour the inputs that support the whole op set
		if rng.Intn(6) > 0 {
			return g.pickBytes(func(in inputInfo) bool { return in.role != "other" })
		}
		return rng.Intn(c.nbytes)
	}
	if mode == modeUnsafe {
		g.markMut(forcedInput)
		g.decode(forcedInput, true, g.fresh())
		o := g.objs[0]
		switch forcedMut {
		case 'X', 'C', 'c':
			g.emit(op{code: forcedMut, o: 0})
			g.firstUnsafe = opName(forcedMut)
			o.enc = forcedMut != 'X'
		case 'B':
			d := g.fresh()
			g.emit(op{code: 'G', o: 0, d: d})
			g.emit(op{code: 'B', o: d})
			g.objs[d] = &gobj{kind: 's', alias: forcedInput, origin: forcedInput, codec: o.codec, annexb: true}
			g.firstUnsafe = opName('B')
		case 'Y':
			// media decoded through a SliceReader from the shared input, decrypt info from a private init
			codec := o.codec
			ini := g.pickBytes(func(in inputInfo) bool { return in.role == "init" && in.enc && in.codec == codec })
			f := g.decode(ini, false, g.fresh())
			d := g.fresh()
			g.emit(op{code: 'K', o: f, d: d})
			g.objs[d] = &gobj{kind: 'k', alias: -1, origin: ini, codec: codec}
			g.emit(op{code: 'Y', o: 0, src: fmt.Sprintf("o%d", d)})
			g.firstUnsafe = opName('Y')
			o.enc = false
		case 'F':
			codec := o.codec
			ini := g.pickBytes(func(in inputInfo) bool { return in.role == "init" && !in.enc && in.codec == codec })
			f := g.decode(ini, false, g.fresh())
			d := g.fresh()
			g.emit(op{code: 'P', o: f, d: d})
			g.objs[d] = &gobj{kind: 'p', alias: -1, origin: ini, codec: codec}
			g.emit(op{code: 'F', o: 0, d: d})
			g.firstUnsafe = opName('F')
			o.enc = true
		}
	} else {
		switch rng.Intn(12) {
		case 0, 1, 2, 3:
			g.decryptPipeline()
		case 4:
			g.encryptPipeline()
		case 10, 11:
			// the lazy-mdat path: decode without the payload, then read it through a ReadSeeker of the goroutine's own
			k := g.pickBytes(func(in inputInfo) bool { return in.role == "full" || in.role == "media" })
			f := g.decodeLazy(k, g.fresh())
			g.readData(f, g.fresh())
		default:
			g.decode(anyInput(), rng.Bool(), g.fresh())
		}
	}
	guard := 0
	for len(g.prog) < nops && guard < 200 {
		guard++
		var ids []int
		for k := 0; k < g.next; k++ {
			if g.objs[k] != nil {
				ids = append(ids, k)
			}
		}
		k := ids[rng.Intn(len(ids))]
		o := g.objs[k]
		switch o.kind {
		case 'f':
			switch rng.Intn(14) {
			case 11, 12:
				if !o.hasMedia() || o.src == "" {
					continue
				}
				d := g.newID()
				if d == k {
					continue
				}
				g.readData(k, d)
			case 13:
				g.decodeLazy(anyInput(), g.newID())
			case 10:
				// allowed in every mode: append must never write through a view of the input
				g.emit(op{code: 'A', o: k})
			case 0:
				d := g.newID()
				if d == k {
					continue
				}
				g.emit(op{code: 'I', o: k, d: d})
				g.objs[d] = &gobj{kind: 'b', alias: -1, origin: -1}
			case 1, 2:
				d := g.newID()
				if d == k {
					continue
				}
				code := byte('E')
				if rng.Bool() {
					code = 'W'
				}
				g.emit(op{code: code, o: k, d: d})
				b := *o
				b.kind, b.alias = 'b', -1
				if o.lazy { // header of the mdat without its payload: not a decodable file
					b.origin = -1
				}
				b.src, b.lazy = "", false
				g.objs[d] = &b
			case 3, 4:
				if !o.hasMedia() || (o.lazy && rng.Intn(4) > 0) { // GetFullSamples refuses a lazy mdat
					continue
				}
				d := g.newID()
				if d == k {
					continue
				}
				g.emit(op{code: 'G', o: k, d: d})
				g.objs[d] = &gobj{kind: 's', alias: o.alias, origin: o.origin, codec: o.codec, enc: o.enc}
			case 5, 6:
				if o.role != "full" || o.codec == "" || !g.inplaceOK(o) || o.lazy {
					continue
				}
				if !o.enc {
					code := byte('C')
					if rng.Bool() {
						code = 'c'
					}
					g.noteInplace(o, code)
					g.emit(op{code: code, o: k})
					o.enc = true
				} else {
					g.noteInplace(o, 'X')
					g.emit(op{code: 'X', o: k})
					o.enc = false
				}
			case 7:
				if len(g.prog)+4 <= nops+2 {
					if rng.Intn(3) > 0 {
						g.decryptPipeline()
					} else {
						g.encryptPipeline()
					}
				}
			default:
				g.decode(anyInput(), rng.Bool(), g.newID())
			}
		case 'b':
			if o.origin < 0 { // Info text: not decodable
				g.decode(anyInput(), rng.Bool(), g.newID())
				continue
			}
			d := g.newID()
			if d == k {
				continue
			}
			code := byte('D')
			if rng.Bool() {
				code = 'R' // SliceReader over the goroutine's own buffer: aliasing, but not of a shared input
			} else if rng.Intn(4) == 0 {
				code = 'L'
			}
			g.emit(op{code: code, src: fmt.Sprintf("o%d", k), d: d})
			f := *o
			f.kind, f.alias = 'f', -1
			f.src, f.lazy = fmt.Sprintf("o%d", k), code == 'L'
			g.objs[d] = &f
		case 's':
			if !o.video() || !g.inplaceOK(o) {
				g.decode(anyInput(), rng.Bool(), g.newID())
				continue
			}
			code := byte('B')
			if o.annexb {
				code = 'N'
			}
			g.noteInplace(o, code)
			g.emit(op{code: code, o: k})
			o.annexb = !o.annexb
		case 'k':
			// reuse the decrypt info on another media input of the same codec
			med := g.pickBytes(func(in inputInfo) bool { return in.role == "media" && in.enc && in.codec == o.codec })
			sr := rng.Bool() && g.mode != modeSafe
			m := g.decode(med, sr, g.fresh())
			g.noteInplace(g.objs[m], 'Y')
			g.emit(op{code: 'Y', o: m, src: fmt.Sprintf("o%d", k)})
			g.objs[m].enc = false
		case 'p':
			med := g.pickBytes(func(in inputInfo) bool { return in.role == "media" && !in.enc && in.codec == o.codec })
			sr := rng.Bool() && g.mode != modeSafe
			m := g.decode(med, sr, g.fresh())
			g.noteInplace(g.objs[m], 'F')
			g.emit(op{code: 'F', o: m, d: k})
			g.objs[m].enc = true
		}
	}
	return g.prog, g.firstUnsafe, g.mutated
}

// inputsRead lists the shared inputs a program uses (decoded byte slices and shared DecryptInfos).
func inputsRead(p []op) map[int]bool {
	m := map[int]bool{}
	for _, o := range p {
		if (o.code == 'D' || o.code == 'R' || o.code == 'Y' || o.code == 'L' || o.code == 'M') && len(o.src) > 1 && o.src[0] == 'i' {
			var k int
			fmt.Sscanf(o.src[1:], "%d", &k)
			m[k] = true
		}
	}
	return m
}

// genInspect: decode (Reader or SliceReader) of two or three AC-3 / E-AC-3 / zoo inputs, each followed by Info (which
// includes ChannelInfo against the reference) and sometimes Encode / EncodeSW.  Goroutine t starts at a different
// configuration than its neighbours, so that concurrent goroutines look at DIFFERENT boxes.
func genInspect(rng *hx.Rng, c *corpus, t int) []op {
	var p []op
	next := 0
	nAC3 := c.endAC3 - c.firstAC3
	for j := 0; j < 2+rng.Intn(2); j++ {
		k := c.firstAC3 + (t*7+j*3+rng.Intn(3))%nAC3
		if rng.Intn(5) == 0 {
			if z := c.pick(rng, func(i int, in inputInfo) bool { return in.role == "zoo" }); z >= 0 {
				k = z
			}
		}
		code := byte('D')
		if rng.Bool() {
			code = 'R'
		}
		f := next
		p = append(p, op{code: code, src: fmt.Sprintf("i%d", k), d: f}, op{code: 'I', o: f, d: f + 1})
		next += 2
		if rng.Intn(3) == 0 {
			e := byte('E')
			if rng.Bool() {
				e = 'W'
			}
			p = append(p, op{code: e, o: f, d: next})
			next++
		}
	}
	return p
}
