// Program generator.  It tracks, for generation purposes only, what each object is and whether its payload
// aliases a shared input (the same bookkeeping as `pl` in coq/c20/C20Model.v; the model recomputes it
// independently from the program text and the harness observes it on the real objects by pointer range).
package main

import (
	"fmt"

	"verifharness/hx"
)

type gobj struct {
	kind   byte // 'f' file, 'b' buffer, 's' samples
	alias  int  // -1: payload owned by the goroutine; k: payload inside shared input k
	origin int  // input the content derives from
	enc    bool // file content is encrypted
	clear  bool // file is a clear fragmented single-track file (encryptable)
	video  bool
	annexb bool // samples were converted to byte stream format
	frag   bool // file has media segments
}

type genMode int

const (
	modeSafe   genMode = iota // in-place ops only on payloads the goroutine owns
	modeAny                   // no restriction (correspondence cases)
	modeUnsafe                // starts with SR decode of a given shared input followed by an in-place op on it
)

// genProgram returns a program and, for modeUnsafe/modeAny, the first in-place op applied to an aliasing object.
func genProgram(rng *hx.Rng, c *corpus, mode genMode, forcedInput int, forcedMut byte, nops int) ([]op, string, []int) {
	var mutated []int
	markMut := func(k int) {
		for _, x := range mutated {
			if x == k {
				return
			}
		}
		mutated = append(mutated, k)
	}
	var prog []op
	objs := map[int]*gobj{}
	next := 0
	firstUnsafe := ""
	newID := func() int {
		// mostly fresh ids, sometimes overwrite an existing object
		if len(objs) > 0 && rng.Intn(8) == 0 {
			k := rng.Intn(next)
			return k
		}
		next++
		return next - 1
	}
	decode := func(k int, sr bool) {
		d := newID()
		code := byte('D')
		alias := -1
		if sr {
			code = 'R'
			alias = k
		}
		prog = append(prog, op{code: code, src: fmt.Sprintf("i%d", k), d: d})
		info := c.info[k]
		objs[d] = &gobj{kind: 'f', alias: alias, origin: k, enc: c.isEnc(k), clear: c.isClear(k),
			video: info.codec == "avc" || info.codec == "hevc",
			frag:  c.isEnc(k) || c.isClear(k) || info.kind == "encfile" || info.kind == "other"}
	}
	pickInput := func() int {
		// favour the inputs that support the whole op set
		if rng.Intn(5) > 0 {
			return rng.Intn(11)
		}
		return rng.Intn(len(c.info))
	}
	if mode == modeUnsafe {
		markMut(forcedInput)
		decode(forcedInput, true)
		switch forcedMut {
		case 'X', 'C', 'c':
			prog = append(prog, op{code: forcedMut, o: 0})
			firstUnsafe = opName(forcedMut)
			if forcedMut == 'X' {
				objs[0].enc, objs[0].clear = false, true
			} else {
				objs[0].enc, objs[0].clear = true, false
			}
		case 'B':
			d := newID()
			prog = append(prog, op{code: 'G', o: 0, d: d}, op{code: 'B', o: d})
			objs[d] = &gobj{kind: 's', alias: forcedInput, origin: forcedInput, video: true, annexb: true}
			firstUnsafe = opName('B')
		case 'N':
			d := newID()
			prog = append(prog, op{code: 'G', o: 0, d: d}, op{code: 'B', o: d}, op{code: 'N', o: d})
			objs[d] = &gobj{kind: 's', alias: forcedInput, origin: forcedInput, video: true}
			firstUnsafe = opName('B')
		}
	} else {
		decode(pickInput(), rng.Bool())
	}
	for len(prog) < nops {
		// candidate actions
		var ids []int
		for k := 0; k < next; k++ {
			if objs[k] != nil {
				ids = append(ids, k)
			}
		}
		k := ids[rng.Intn(len(ids))]
		o := objs[k]
		inplaceOK := func() bool { return mode != modeSafe || o.alias < 0 }
		noteUnsafe := func(code byte) {
			if o.alias >= 0 {
				markMut(o.alias)
				if firstUnsafe == "" {
					firstUnsafe = opName(code)
				}
			}
		}
		switch o.kind {
		case 'f':
			switch rng.Intn(9) {
			case 0:
				d := newID()
				prog = append(prog, op{code: 'I', o: k, d: d})
				objs[d] = &gobj{kind: 'b', alias: -1, origin: -1}
			case 1, 2:
				d := newID()
				if d == k {
					continue
				}
				code := byte('E')
				if rng.Bool() {
					code = 'W'
				}
				prog = append(prog, op{code: code, o: k, d: d})
				g := *o
				g.kind, g.alias = 'b', -1
				objs[d] = &g
			case 3, 4:
				if !o.frag {
					continue
				}
				d := newID()
				if d == k {
					continue
				}
				prog = append(prog, op{code: 'G', o: k, d: d})
				objs[d] = &gobj{kind: 's', alias: o.alias, origin: o.origin, video: o.video, enc: o.enc}
			case 5, 6:
				if o.clear && !o.enc && inplaceOK() {
					code := byte('C')
					if rng.Bool() {
						code = 'c'
					}
					noteUnsafe(code)
					prog = append(prog, op{code: code, o: k})
					o.enc, o.clear = true, false
				} else if o.enc && inplaceOK() {
					noteUnsafe('X')
					prog = append(prog, op{code: 'X', o: k})
					o.enc, o.clear = false, true
				}
			default:
				decode(pickInput(), rng.Bool())
			}
		case 'b':
			if o.origin < 0 { // Info text: not decodable
				decode(pickInput(), rng.Bool())
				continue
			}
			d := newID()
			if d == k {
				continue
			}
			code := byte('D')
			alias := -1
			if rng.Bool() {
				code = 'R' // SliceReader over the goroutine's own buffer: aliasing, but not of a shared input
			}
			prog = append(prog, op{code: code, src: fmt.Sprintf("o%d", k), d: d})
			g := *o
			g.kind, g.alias = 'f', alias
			objs[d] = &g
		case 's':
			if !o.video || !inplaceOK() {
				decode(pickInput(), rng.Bool())
				continue
			}
			if !o.annexb {
				noteUnsafe('B')
				prog = append(prog, op{code: 'B', o: k})
				o.annexb = true
			} else {
				noteUnsafe('N')
				prog = append(prog, op{code: 'N', o: k})
				o.annexb = false
			}
		}
	}
	return prog, firstUnsafe, mutated
}

// inputsRead lists the shared inputs a program decodes.
func inputsRead(p []op) map[int]bool {
	m := map[int]bool{}
	for _, o := range p {
		if (o.code == 'D' || o.code == 'R') && len(o.src) > 1 && o.src[0] == 'i' {
			var k int
			fmt.Sscanf(o.src[1:], "%d", &k)
			m[k] = true
		}
	}
	return m
}
