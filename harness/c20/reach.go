// Call graph over the library packages and, for every exported function, the package-level variables it can
// reach (read / change / let escape), transitively through calls inside the module.  Standard library only.
//
// Nodes: every FuncDecl with a body ("mp4.DecodeFile", "mp4.File.Info") and every function literal
// ("mp4.InitProtect$1").  Edges (over-approximation):
//
//	static     f(...) / pkg.f(...) / x.m(...) with a concrete receiver
//	interface  x.m(...) with x of interface type: m of every named library type (or pointer to it) implementing
//	           that interface (class-hierarchy analysis)
//	dynamic    a call through a func-typed value (variable, field, map element, result): every library function
//	           or literal that is used as a value somewhere (not only called) and has an identical signature
//	value      using a function / method / literal as a value is an edge from the user (it may hand it to somebody
//	           who calls it, e.g. sort.Slice)
//	callback   a call of a non-module function that has an interface-typed parameter: every library method named
//	           like the methods the standard library calls back (String, Error, Write, Read, Less ...)
//
// Uses of package-level variables are classified by useKind (facts.go) and attributed to the node in which they
// occur (a literal's uses to the literal).
package main

import (
	"fmt"
	"go/ast"
	"go/token"
	"go/types"
	"sort"
	"strings"
)

type fnode struct {
	key      string // "mp4.File.Info"
	pkg      string
	name     string // "File.Info" (as in useRec.Fn)
	exported bool
	obj      *types.Func // nil for literals
	sig      *types.Signature
	decl     *ast.FuncDecl
	lit      *ast.FuncLit
	info     *types.Info
	reads    map[*types.Var]bool
	writes   map[*types.Var]string // first kind of change
	escapes  map[*types.Var]bool
	callees  map[*fnode]bool
	dyn      []dynCall
	iface    []ifaceCall
	callback bool
	nlit     int
	calls    []*ast.CallExpr // call expressions in this node (not in nested literals)
}

type dynCall struct {
	sig  *types.Signature
	call *ast.CallExpr
}
type ifaceCall struct {
	recv types.Type
	name string
	call *ast.CallExpr
}

type callGraph struct {
	nodes    []*fnode
	byObj    map[*types.Func]*fnode
	valued   []*fnode // used as a value somewhere
	isValued map[*fnode]bool
	targets  map[*ast.CallExpr][]*fnode
	named    []*types.Named
	edges    int
}

var callbackNames = map[string]bool{"String": true, "Error": true, "GoString": true, "Format": true, "MarshalJSON": true,
	"MarshalText": true, "UnmarshalJSON": true, "UnmarshalText": true, "Write": true, "WriteString": true, "WriteByte": true,
	"Read": true, "ReadByte": true, "ReadFrom": true, "WriteTo": true, "Seek": true, "Close": true, "Len": true, "Less": true,
	"Swap": true, "Unwrap": true, "Is": true, "As": true}

func isLib(p *types.Package) bool {
	return p != nil && (p.Path() == modPath || strings.HasPrefix(p.Path(), modPath+"/"))
}

func bareSig(s *types.Signature) *types.Signature {
	return types.NewSignatureType(nil, nil, nil, s.Params(), s.Results(), s.Variadic())
}

func buildCallGraph() *callGraph {
	g := &callGraph{byObj: map[*types.Func]*fnode{}, isValued: map[*fnode]bool{}, targets: map[*ast.CallExpr][]*fnode{}}
	newNode := func(cp checkedPkg, key, name string) *fnode {
		n := &fnode{key: key, pkg: cp.name, name: name, info: cp.info, reads: map[*types.Var]bool{}, writes: map[*types.Var]string{},
			escapes: map[*types.Var]bool{}, callees: map[*fnode]bool{}}
		g.nodes = append(g.nodes, n)
		return n
	}
	// pass 1: declare
	type pending struct {
		cp   checkedPkg
		n    *fnode
		body ast.Node
	}
	var todo []pending
	for _, cp := range lastChecked {
		sc := cp.pkg.Scope()
		for _, nm := range sc.Names() {
			if tn, ok := sc.Lookup(nm).(*types.TypeName); ok && !tn.IsAlias() {
				if nt, ok := tn.Type().(*types.Named); ok {
					if _, isIface := nt.Underlying().(*types.Interface); !isIface {
						g.named = append(g.named, nt)
					}
				}
			}
		}
		var initNode, pkgInit *fnode
		for _, f := range cp.files {
			for _, d := range f.Decls {
				if gd, ok := d.(*ast.GenDecl); ok && gd.Tok == token.VAR {
					for _, s := range gd.Specs {
						for _, v := range s.(*ast.ValueSpec).Values {
							if pkgInit == nil {
								pkgInit = newNode(cp, cp.name+".<pkg-initializer>", "<pkg-initializer>")
							}
							todo = append(todo, pending{cp, pkgInit, v})
						}
					}
					continue
				}
				fd, ok := d.(*ast.FuncDecl)
				if !ok || fd.Body == nil {
					continue
				}
				name := fd.Name.Name
				exported := ast.IsExported(name)
				if fd.Recv != nil && len(fd.Recv.List) > 0 {
					rn := recvName(fd.Recv.List[0].Type)
					exported = exported && ast.IsExported(rn)
					name = rn + "." + name
				}
				obj, _ := cp.info.Defs[fd.Name].(*types.Func)
				if fd.Name.Name == "init" && fd.Recv == nil {
					// several init functions per package: one node
					if initNode == nil {
						initNode = newNode(cp, cp.name+".init", "init")
					}
					todo = append(todo, pending{cp, initNode, fd.Body})
					continue
				}
				n := newNode(cp, cp.name+"."+name, name)
				n.exported, n.obj, n.decl = exported, obj, fd
				if obj != nil {
					n.sig = obj.Type().(*types.Signature)
					g.byObj[obj] = n
				}
				todo = append(todo, pending{cp, n, fd.Body})
			}
		}
	}
	// pass 2: bodies
	for _, p := range todo {
		g.walkBody(p.cp, p.n, p.body, newNode)
	}
	// pass 3: resolve interface and dynamic calls, callbacks
	var callbacks []*fnode
	for _, n := range g.nodes {
		if n.obj != nil && n.sig != nil && n.sig.Recv() != nil && callbackNames[n.obj.Name()] {
			callbacks = append(callbacks, n)
		}
	}
	type ikey struct {
		t    types.Type
		name string
	}
	icache := map[ikey][]*fnode{}
	for _, n := range g.nodes {
		for _, ic := range n.iface {
			k := ikey{ic.recv, ic.name}
			ts, ok := icache[k]
			if !ok {
				it, _ := ic.recv.Underlying().(*types.Interface)
				for _, nt := range g.named {
					for _, t := range []types.Type{nt, types.NewPointer(nt)} {
						if it == nil || !types.Implements(t, it) {
							continue
						}
						sel := types.NewMethodSet(t).Lookup(nt.Obj().Pkg(), ic.name)
						if sel == nil {
							continue
						}
						if fo, ok := sel.Obj().(*types.Func); ok {
							if tn := g.byObj[fo]; tn != nil {
								dup := false
								for _, x := range ts {
									dup = dup || x == tn
								}
								if !dup {
									ts = append(ts, tn)
								}
							}
						}
					}
				}
				icache[k] = ts
			}
			for _, tn := range ts {
				n.callees[tn] = true
			}
			g.targets[ic.call] = append(g.targets[ic.call], ts...)
		}
		for _, dc := range n.dyn {
			for _, v := range g.valued {
				if v.sig != nil && types.Identical(bareSig(dc.sig), bareSig(v.sig)) {
					n.callees[v] = true
					g.targets[dc.call] = append(g.targets[dc.call], v)
				}
			}
		}
		if n.callback {
			for _, c := range callbacks {
				n.callees[c] = true
			}
		}
	}
	for _, n := range g.nodes {
		g.edges += len(n.callees)
	}
	sort.Slice(g.nodes, func(i, j int) bool { return g.nodes[i].key < g.nodes[j].key })
	return g
}

func (g *callGraph) markValued(n *fnode) {
	if !g.isValued[n] {
		g.isValued[n] = true
		g.valued = append(g.valued, n)
	}
}

// walkBody attributes variable uses and calls in body to n; nested literals become their own nodes.
func (g *callGraph) walkBody(cp checkedPkg, n *fnode, body ast.Node, newNode func(checkedPkg, string, string) *fnode) {
	info := cp.info
	var stack []ast.Node
	ast.Inspect(body, func(x ast.Node) bool {
		if x == nil {
			stack = stack[:len(stack)-1]
			return true
		}
		stack = append(stack, x)
		switch e := x.(type) {
		case *ast.FuncLit:
			if x == body {
				return true
			}
			n.nlit++
			ln := newNode(cp, fmt.Sprintf("%s$%d", n.key, n.nlit), n.name)
			if n.name == "init" || n.name == "<pkg-initializer>" {
				ln.name = n.name + ".func-literal"
			}
			ln.lit = e
			if tv, ok := info.Types[e]; ok {
				ln.sig, _ = tv.Type.(*types.Signature)
			}
			n.callees[ln] = true
			g.markValued(ln)
			g.walkBody(cp, ln, e, newNode)
			stack = stack[:len(stack)-1]
			return false
		case *ast.CallExpr:
			n.calls = append(n.calls, e)
			g.resolveCall(info, n, e)
		case *ast.Ident:
			switch o := info.Uses[e].(type) {
			case *types.Var:
				rec := lastVarRecs[o]
				if rec == nil {
					return true
				}
				switch kind := useKind(info, rec, stack); kind {
				case "read":
					n.reads[o] = true
				case "escape":
					n.escapes[o] = true
				default:
					if _, ok := n.writes[o]; !ok {
						n.writes[o] = kind
					}
				}
			case *types.Func:
				if !isLib(o.Pkg()) {
					return true
				}
				// in call position?  ident, or pkg.ident / x.ident as the Fun of a call
				i := len(stack) - 1
				var cur ast.Node = e
				if i > 0 {
					if se, ok := stack[i-1].(*ast.SelectorExpr); ok && se.Sel == e {
						cur = se
						i--
					}
				}
				for i > 0 {
					if pe, ok := stack[i-1].(*ast.ParenExpr); ok {
						cur = pe
						i--
						continue
					}
					break
				}
				if i > 0 {
					if ce, ok := stack[i-1].(*ast.CallExpr); ok && ce.Fun == cur {
						return true
					}
				}
				if tn := g.byObj[o]; tn != nil {
					n.callees[tn] = true
					g.markValued(tn)
				} else {
					// declared later in pass 1? (all are declared before pass 2) -- an interface method value
					if sig, ok := o.Type().(*types.Signature); ok && sig.Recv() != nil {
						if _, isI := sig.Recv().Type().Underlying().(*types.Interface); isI {
							n.iface = append(n.iface, ifaceCall{sig.Recv().Type(), o.Name(), nil})
						}
					}
				}
			}
		}
		return true
	})
}

func unparen(e ast.Expr) ast.Expr {
	for {
		p, ok := e.(*ast.ParenExpr)
		if !ok {
			return e
		}
		e = p.X
	}
}

func (g *callGraph) resolveCall(info *types.Info, n *fnode, ce *ast.CallExpr) {
	fun := unparen(ce.Fun)
	if tv, ok := info.Types[fun]; ok && tv.IsType() {
		return // conversion
	}
	external := func(f *types.Func) {
		sig, ok := f.Type().(*types.Signature)
		if !ok {
			return
		}
		for i := 0; i < sig.Params().Len(); i++ {
			t := sig.Params().At(i).Type()
			if sl, ok := t.(*types.Slice); ok && sig.Variadic() && i == sig.Params().Len()-1 {
				t = sl.Elem()
			}
			if _, ok := t.Underlying().(*types.Interface); ok {
				n.callback = true
			}
			if _, ok := t.Underlying().(*types.Signature); ok {
				n.callback = true
			}
		}
		if sig.Recv() != nil {
			if _, ok := sig.Recv().Type().Underlying().(*types.Interface); ok {
				n.callback = true // a method of a non-module interface (io.Writer.Write ...): the callee is unknown
			}
		}
	}
	static := func(f *types.Func) {
		if !isLib(f.Pkg()) {
			external(f)
			return
		}
		if tn := g.byObj[f]; tn != nil {
			n.callees[tn] = true
			g.targets[ce] = append(g.targets[ce], tn)
		}
	}
	dynamic := func() {
		if tv, ok := info.Types[fun]; ok && tv.Type != nil {
			if sig, ok := tv.Type.Underlying().(*types.Signature); ok {
				n.dyn = append(n.dyn, dynCall{sig, ce})
			}
		}
	}
	switch f := fun.(type) {
	case *ast.Ident:
		switch o := info.Uses[f].(type) {
		case *types.Func:
			static(o)
		case *types.Builtin, *types.TypeName, nil:
		default:
			dynamic()
		}
	case *ast.SelectorExpr:
		if sel := info.Selections[f]; sel != nil {
			switch sel.Kind() {
			case types.MethodVal:
				fo, ok := sel.Obj().(*types.Func)
				if !ok {
					return
				}
				if _, isI := sel.Recv().Underlying().(*types.Interface); isI {
					n.iface = append(n.iface, ifaceCall{sel.Recv(), fo.Name(), ce})
					if !isLib(fo.Pkg()) {
						external(fo)
					}
					return
				}
				static(fo)
			case types.FieldVal:
				dynamic()
			case types.MethodExpr:
				if fo, ok := sel.Obj().(*types.Func); ok {
					static(fo)
				}
			}
			return
		}
		switch o := info.Uses[f.Sel].(type) { // qualified identifier
		case *types.Func:
			static(o)
		case *types.Var:
			dynamic()
		}
	case *ast.FuncLit:
		// called on the spot: the creation edge is enough
	default:
		dynamic()
	}
}

// ---------------------------------------------------------------- reachability

type reachSet struct {
	reads, escapes map[*types.Var]bool
	writes         map[*types.Var]*fnode // variable -> the node in which it is changed
	parent         map[*fnode]*fnode
	nodes          int
}

func (g *callGraph) reach(roots ...*fnode) *reachSet {
	r := &reachSet{reads: map[*types.Var]bool{}, escapes: map[*types.Var]bool{}, writes: map[*types.Var]*fnode{}, parent: map[*fnode]*fnode{}}
	seen := map[*fnode]bool{}
	var queue []*fnode
	for _, n := range roots {
		if n != nil && !seen[n] {
			seen[n] = true
			queue = append(queue, n)
		}
	}
	for len(queue) > 0 {
		n := queue[0]
		queue = queue[1:]
		r.nodes++
		for v := range n.reads {
			r.reads[v] = true
		}
		for v := range n.escapes {
			r.escapes[v] = true
		}
		for v := range n.writes {
			if old, ok := r.writes[v]; !ok || n.key < old.key {
				r.writes[v] = n
			}
		}
		// deterministic order
		cs := make([]*fnode, 0, len(n.callees))
		for c := range n.callees {
			cs = append(cs, c)
		}
		sort.Slice(cs, func(i, j int) bool { return cs[i].key < cs[j].key })
		for _, c := range cs {
			if !seen[c] {
				seen[c] = true
				r.parent[c] = n
				queue = append(queue, c)
			}
		}
	}
	return r
}

func (r *reachSet) path(to *fnode) string {
	var ks []string
	for n := to; n != nil; n = r.parent[n] {
		ks = append(ks, n.key)
		if len(ks) > 40 {
			break
		}
	}
	for i, j := 0, len(ks)-1; i < j; i, j = i+1, j-1 {
		ks[i], ks[j] = ks[j], ks[i]
	}
	if len(ks) > 6 {
		ks = append(append(append([]string{}, ks[:3]...), "..."), ks[len(ks)-2:]...)
	}
	return strings.Join(ks, " -> ")
}

// the operations of the footprint table (coq/c20/C20Model.v `api`) and the library functions behind them
var apiKinds = []struct {
	kind string
	fns  []string
}{
	{"KDecode", []string{"mp4.DecodeFile"}},
	{"KDecodeSR", []string{"mp4.DecodeFileSR"}},
	{"KInfo", []string{"mp4.File.Info"}},
	{"KEncode", []string{"mp4.File.Encode"}},
	{"KEncodeSW", []string{"mp4.File.EncodeSW"}},
	{"KSamples", []string{"mp4.Fragment.GetFullSamples"}},
	{"KEncrypt", []string{"mp4.InitProtect", "mp4.EncryptFragment"}},
	{"KDecrypt", []string{"mp4.DecryptInit", "mp4.DecryptSegment"}},
	{"KDecryptInit", []string{"mp4.DecryptInit"}},
	{"KInitProtect", []string{"mp4.InitProtect"}},
	{"KDecryptWith", []string{"mp4.DecryptSegment"}},
	{"KEncryptWith", []string{"mp4.EncryptFragment"}},
	{"KToByteStream", []string{"avc.ConvertSampleToByteStream"}},
	{"KToNaluSample", []string{"avc.ConvertByteStreamToNaluSample"}},
	{"KSetBoxDecoder", []string{"mp4.SetBoxDecoder"}},
	{"KRemoveBoxDecoder", []string{"mp4.RemoveBoxDecoder"}},
	{"KTouch", []string{"mp4.FtypBox.AddCompatibleBrands", "mp4.StypBox.AddCompatibleBrands", "mp4.MdatBox.AddSampleData"}},
	{"KDecodeLazy", []string{"mp4.DecodeFile", "mp4.WithDecodeMode", "mp4.DecodeMdatLazily"}},
	{"KReadData", []string{"mp4.MdatBox.ReadData", "mp4.MdatBox.CopyData", "mp4.MdatBox.PayloadAbsoluteOffset", "mp4.MdatBox.IsLazy"}},
}

type varName struct{ pkg, name string }

func (v varName) String() string { return v.pkg + "." + v.name }

type apiReach struct {
	kind          string
	fns           []string
	reads, writes []varName // reads include escapes
	nodes         int
}
type xWriter struct {
	pkg, fn string
	vars    []varName
	kind    string
	path    string
}
type sharedVar struct {
	v       varName
	tkind   string
	witness string // first exported function reaching it
	uses    string // r / w / e
	nfuncs  int
}
type reachFacts struct {
	api         []apiReach
	writers     []xWriter
	shared      []sharedVar
	nodes       int
	edges       int
	exported    int
	missing     []string
	infoMethods int
}

func sortedVars(m map[*types.Var]bool) []varName {
	var out []varName
	for v := range m {
		if rec := lastVarRecs[v]; rec != nil {
			out = append(out, varName{rec.Pkg, rec.Name})
		}
	}
	sort.Slice(out, func(i, j int) bool {
		if out[i].pkg != out[j].pkg {
			return pkgIndex(out[i].pkg) < pkgIndex(out[j].pkg)
		}
		return out[i].name < out[j].name
	})
	return out
}

func computeReach(g *callGraph) *reachFacts {
	rf := &reachFacts{nodes: len(g.nodes), edges: g.edges}
	byKey := map[string]*fnode{}
	for _, n := range g.nodes {
		byKey[n.key] = n
	}
	for _, ak := range apiKinds {
		var roots []*fnode
		for _, k := range ak.fns {
			if byKey[k] == nil {
				rf.missing = append(rf.missing, k)
			}
			roots = append(roots, byKey[k])
		}
		r := g.reach(roots...)
		rd := map[*types.Var]bool{}
		for v := range r.reads {
			rd[v] = true
		}
		for v := range r.escapes {
			rd[v] = true
		}
		wr := map[*types.Var]bool{}
		for v := range r.writes {
			wr[v] = true
		}
		rf.api = append(rf.api, apiReach{ak.kind, ak.fns, sortedVars(rd), sortedVars(wr), r.nodes})
	}
	shared := map[*types.Var]*sharedVar{}
	for _, n := range g.nodes {
		if n.pkg == "mp4" && strings.HasSuffix(n.key, ".Info") && n.decl != nil && n.decl.Recv != nil {
			rf.infoMethods++
		}
		if !n.exported {
			continue
		}
		rf.exported++
		r := g.reach(n)
		if len(r.writes) > 0 {
			wr := map[*types.Var]bool{}
			var first *types.Var
			for v := range r.writes {
				wr[v] = true
				if first == nil || lastVarRecs[v].Name < lastVarRecs[first].Name {
					first = v
				}
			}
			wn := r.writes[first]
			rf.writers = append(rf.writers, xWriter{n.pkg, n.name, sortedVars(wr), wn.writes[first], r.path(wn)})
		}
		note := func(m map[*types.Var]bool, tag string) {
			for v := range m {
				rec := lastVarRecs[v]
				if rec == nil || !rec.Mutable {
					continue
				}
				sv := shared[v]
				if sv == nil {
					sv = &sharedVar{v: varName{rec.Pkg, rec.Name}, tkind: rec.TKind, witness: n.key}
					shared[v] = sv
				}
				if !strings.Contains(sv.uses, tag) {
					sv.uses += tag
				}
			}
		}
		note(r.reads, "r")
		note(r.escapes, "e")
		wm := map[*types.Var]bool{}
		for v := range r.writes {
			wm[v] = true
		}
		note(wm, "w")
		seen := map[*types.Var]bool{}
		for _, m := range []map[*types.Var]bool{r.reads, r.escapes, wm} {
			for v := range m {
				if sv := shared[v]; sv != nil && !seen[v] {
					seen[v] = true
					sv.nfuncs++
				}
			}
		}
	}
	for _, sv := range shared {
		b := []byte(sv.uses)
		sort.Slice(b, func(i, j int) bool { return b[i] < b[j] })
		sv.uses = string(b)
		rf.shared = append(rf.shared, *sv)
	}
	sort.Slice(rf.shared, func(i, j int) bool {
		a, b := rf.shared[i].v, rf.shared[j].v
		if a.pkg != b.pkg {
			return pkgIndex(a.pkg) < pkgIndex(b.pkg)
		}
		return a.name < b.name
	})
	return rf
}

var _ = token.NoPos

// ---------------------------------------------------------------- output

func coqVName(v varName) string { return "(" + coqString(v.pkg) + ", " + coqString(v.name) + ")" }

func coqVNames(vs []varName) string {
	ss := make([]string, len(vs))
	for i, v := range vs {
		ss[i] = coqVName(v)
	}
	return "[" + strings.Join(ss, "; ") + "]"
}

func coqStrings(xs []string) string {
	ss := make([]string, len(xs))
	for i, x := range xs {
		ss[i] = coqString(x)
	}
	return "[" + strings.Join(ss, "; ") + "]"
}

func renderReachCoq(rf *reachFacts) []byte {
	var b strings.Builder
	b.WriteString("(* C20Reach.v -- GENERATED on every run of ./check C20 by `harness/c20 facts` from the library sources in\n")
	b.WriteString("   /repo: a call graph over bits avc hevc sei aac av1 mp4 (static calls, interface calls resolved by class\n")
	b.WriteString("   hierarchy, calls through func values resolved by signature, function values, standard-library callbacks)\n")
	b.WriteString("   and, for every operation of the footprint table and every exported function, the package-level variables\n")
	b.WriteString("   reachable from it.  Do not edit: overwritten whenever the sources give different facts. *)\n")
	b.WriteString("From Coq Require Import List String.\nFrom V.c20 Require Import C20Facts.\nImport ListNotations.\nOpen Scope string_scope.\n\n")
	b.WriteString("(* per operation of the table: the library functions behind it, every package-level variable they can read\n   (or let escape) and every one they can change, transitively *)\n")
	b.WriteString("Definition c20_api_reach : list reach_entry := [\n")
	for i, a := range rf.api {
		fmt.Fprintf(&b, "  mkreach %s %s\n    %s\n    %s", a.kind, coqStrings(a.fns), coqVNames(a.reads), coqVNames(a.writes))
		if i+1 < len(rf.api) {
			b.WriteString(";")
		}
		b.WriteString("\n")
	}
	b.WriteString("].\n\n(* every EXPORTED function or method from which a change of a package-level variable is reachable *)\n")
	b.WriteString("Definition c20_exported_writers : list xwriter := [\n")
	for i, w := range rf.writers {
		fmt.Fprintf(&b, "  mkxw %s %s %s", coqString(w.pkg), coqString(w.fn), coqVNames(w.vars))
		if i+1 < len(rf.writers) {
			b.WriteString(";")
		}
		b.WriteString("\n")
	}
	b.WriteString("].\n\n(* every package-level variable whose contents can be changed through a copy of its value (map, slice, pointer,\n   chan, interface, struct holding one: sync.Pool, sync.Once, caches ...) and that is reachable from an exported\n   function: kind, how it is used (r read, e escape, w changed), one exported function reaching it *)\n")
	b.WriteString("Definition c20_reachable_shared : list shared_var := [\n")
	for i, s := range rf.shared {
		fmt.Fprintf(&b, "  mkshared %s %s %s %s", coqVName(s.v), coqTKind[s.tkind], coqString(s.uses), coqString(s.witness))
		if i+1 < len(rf.shared) {
			b.WriteString(";")
		}
		b.WriteString("\n")
	}
	fmt.Fprintf(&b, "].\n\n(* size of the call graph *)\nDefinition c20_reach_stats : string := \"nodes=%d edges=%d exported=%d\".\n", rf.nodes, rf.edges, rf.exported)
	return []byte(b.String())
}

func printReachTSV(rf *reachFacts) {
	fmt.Printf("RSTATS\tnodes=%d\tedges=%d\texported=%d\tinfo_methods=%d\n", rf.nodes, rf.edges, rf.exported, rf.infoMethods)
	for _, m := range rf.missing {
		fmt.Printf("RMISSING\t%s\n", m)
	}
	vs := func(xs []varName) string {
		ss := make([]string, len(xs))
		for i, x := range xs {
			ss[i] = x.String()
		}
		return strings.Join(ss, ",")
	}
	for _, a := range rf.api {
		fmt.Printf("REACH\t%s\t%s\t%s\t%s\t%d\n", a.kind, strings.Join(a.fns, ","), vs(a.reads), vs(a.writes), a.nodes)
	}
	for _, w := range rf.writers {
		fmt.Printf("XWRITER\t%s\t%s\t%s\t%s\t%s\n", w.pkg, w.fn, vs(w.vars), w.kind, w.path)
	}
	for _, s := range rf.shared {
		fmt.Printf("SHARED\t%s\t%s\t%s\t%s\t%s\t%d\n", s.v.pkg, s.v.name, s.tkind, s.uses, s.witness, s.nfuncs)
	}
}
