// Aliasing facts regenerated from the library sources: which functions keep (return or store) a sub-slice of the
// buffer behind a bits.SliceReader / of a []byte argument, into which struct fields, and which exported functions
// write IN PLACE into bytes reachable from their arguments (the mutators).  Standard library only.
//
// Flow-insensitive, field-insensitive summaries per function, iterated to a fixpoint over the call graph of reach.go
// (interface calls by class hierarchy, calls through func values by signature):
//
//	ret[f]    parameter positions (-1: receiver) whose bytes the result may alias
//	store[f]  pairs (p, q): after the call, bytes of argument p may be reachable from argument q
//	write[f]  parameter positions through which bytes are written in place (x[i] = v, copy(x, ..), append(x, ..)
//	          on a byte slice, cipher / binary.Put* style standard-library writers, or a callee doing so)
//
// A value "derives from parameter p" if it is p, a slice / element / field / dereference / conversion of such a
// value, a composite literal containing one, the result of a callee with p's argument in ret, or a local assigned
// from one.  Values of types that cannot hold a reference (numbers, strings, bools) derive from nothing.
package main

import (
	"fmt"
	"go/ast"
	"go/token"
	"go/types"
	"sort"
	"strings"
)

type intSet map[int]bool
type pairSet map[[2]int]bool

type aliasSummary struct {
	ret    intSet
	store  pairSet
	write  map[int]string // position -> how (first reason found)
	fields map[string]bool
	// fields: "Type.Field" into which bytes of a SliceReader parameter are stored directly in this function
}

type aliasAnalysis struct {
	g       *callGraph
	sum     map[*fnode]*aliasSummary
	params  map[*fnode]map[*types.Var]int
	changed bool
}

func newSummary() *aliasSummary {
	return &aliasSummary{ret: intSet{}, store: pairSet{}, write: map[int]string{}, fields: map[string]bool{}}
}

func holdsRef(t types.Type) bool {
	if t == nil {
		return false
	}
	return mutableThroughCopy(t, map[types.Type]bool{})
}

func isByteSlice(t types.Type) bool {
	if t == nil {
		return false
	}
	switch u := t.Underlying().(type) {
	case *types.Slice:
		b, ok := u.Elem().Underlying().(*types.Basic)
		return ok && b.Kind() == types.Uint8
	case *types.Array:
		b, ok := u.Elem().Underlying().(*types.Basic)
		return ok && b.Kind() == types.Uint8
	case *types.Pointer:
		if a, ok := u.Elem().Underlying().(*types.Array); ok {
			b, ok := a.Elem().Underlying().(*types.Basic)
			return ok && b.Kind() == types.Uint8
		}
	}
	return false
}

func isSliceReaderType(t types.Type) bool {
	s := types.TypeString(t, nil)
	return s == modPath+"/bits.SliceReader" || s == "*"+modPath+"/bits.FixedSliceReader"
}

// output-buffer owners: writing through them is what they are for
func isWriterType(t types.Type) bool {
	s := types.TypeString(t, nil)
	if s == "io.Writer" || s == "*bytes.Buffer" || s == "*strings.Builder" {
		return true
	}
	if i := strings.LastIndex(s, "."); i >= 0 && strings.HasPrefix(strings.TrimPrefix(s, "*"), modPath+"/bits.") {
		return strings.Contains(s[i:], "Writer")
	}
	return false
}

func runAliasAnalysis(g *callGraph) *aliasAnalysis {
	a := &aliasAnalysis{g: g, sum: map[*fnode]*aliasSummary{}, params: map[*fnode]map[*types.Var]int{}}
	for _, n := range g.nodes {
		a.sum[n] = newSummary()
		pm := map[*types.Var]int{}
		if n.sig != nil {
			if n.sig.Recv() != nil && n.decl != nil {
				pm[n.sig.Recv()] = -1
			}
			for i := 0; i < n.sig.Params().Len(); i++ {
				pm[n.sig.Params().At(i)] = i
			}
		}
		// the objects of the declared names (types.Signature vars are the same objects as info.Defs of the names)
		a.params[n] = pm
	}
	for iter := 0; iter < 40; iter++ {
		a.changed = false
		for _, n := range g.nodes {
			if n.decl != nil && n.decl.Body != nil {
				a.analyse(n, n.decl.Body)
			} else if n.lit != nil {
				a.analyse(n, n.lit.Body)
			}
		}
		if !a.changed {
			break
		}
	}
	return a
}

type fnState struct {
	a      *aliasAnalysis
	n      *fnode
	info   *types.Info
	locals map[*types.Var]intSet
	dirty  bool
}

func (s *fnState) addLocal(v *types.Var, r intSet) {
	if v == nil || len(r) == 0 {
		return
	}
	m := s.locals[v]
	if m == nil {
		m = intSet{}
		s.locals[v] = m
	}
	for k := range r {
		if !m[k] {
			m[k] = true
			s.dirty = true
		}
	}
}

func (s *fnState) varOf(e ast.Expr) *types.Var {
	if id, ok := unparen(e).(*ast.Ident); ok {
		if v, ok := s.info.Uses[id].(*types.Var); ok {
			return v
		}
		if v, ok := s.info.Defs[id].(*types.Var); ok {
			return v
		}
	}
	return nil
}

// baseVar: the variable at the root of an access path x.f[i].g, *x, x[i:j]
func (s *fnState) baseVar(e ast.Expr) *types.Var {
	for {
		switch x := unparen(e).(type) {
		case *ast.SelectorExpr:
			if sel := s.info.Selections[x]; sel != nil && sel.Kind() == types.FieldVal {
				e = x.X
				continue
			}
			return nil
		case *ast.IndexExpr:
			e = x.X
			continue
		case *ast.SliceExpr:
			e = x.X
			continue
		case *ast.StarExpr:
			e = x.X
			continue
		case *ast.UnaryExpr:
			if x.Op == token.AND {
				e = x.X
				continue
			}
			return nil
		case *ast.Ident:
			return s.varOf(x)
		default:
			return nil
		}
	}
}

func union(a, b intSet) intSet {
	if len(b) == 0 {
		return a
	}
	if a == nil {
		a = intSet{}
	}
	for k := range b {
		a[k] = true
	}
	return a
}

// calleeArgs maps a callee's parameter position to the actual argument expressions of the call.
func (s *fnState) calleeArgs(ce *ast.CallExpr, callee *fnode) map[int][]ast.Expr {
	out := map[int][]ast.Expr{}
	if callee.sig == nil {
		return out
	}
	if callee.sig.Recv() != nil && callee.decl != nil {
		if se, ok := unparen(ce.Fun).(*ast.SelectorExpr); ok {
			out[-1] = []ast.Expr{se.X}
		}
	}
	np := callee.sig.Params().Len()
	for i, arg := range ce.Args {
		p := i
		if p >= np {
			p = np - 1
		}
		if p >= 0 {
			out[p] = append(out[p], arg)
		}
	}
	return out
}

// roots: the parameter positions of the current function from which the value of e may derive.
func (s *fnState) roots(e ast.Expr) intSet {
	if e == nil {
		return nil
	}
	if tv, ok := s.info.Types[e]; ok && tv.Type != nil && !tv.IsType() {
		if _, isTuple := tv.Type.(*types.Tuple); !isTuple && !holdsRef(tv.Type) {
			return nil
		}
	}
	switch x := e.(type) {
	case *ast.ParenExpr:
		return s.roots(x.X)
	case *ast.Ident:
		v := s.varOf(x)
		if v == nil {
			return nil
		}
		var r intSet
		if p, ok := s.a.params[s.n][v]; ok {
			r = intSet{p: true}
		}
		return union(r, s.locals[v])
	case *ast.StarExpr:
		return s.roots(x.X)
	case *ast.UnaryExpr:
		if x.Op == token.AND || x.Op == token.ARROW {
			return s.roots(x.X)
		}
	case *ast.SliceExpr:
		return s.roots(x.X)
	case *ast.IndexExpr:
		return s.roots(x.X)
	case *ast.TypeAssertExpr:
		return s.roots(x.X)
	case *ast.SelectorExpr:
		if sel := s.info.Selections[x]; sel != nil && sel.Kind() == types.FieldVal {
			return s.roots(x.X)
		}
	case *ast.CompositeLit:
		var r intSet
		for _, el := range x.Elts {
			if kv, ok := el.(*ast.KeyValueExpr); ok {
				r = union(r, s.roots(kv.Value))
			} else {
				r = union(r, s.roots(el))
			}
		}
		return r
	case *ast.CallExpr:
		fun := unparen(x.Fun)
		if tv, ok := s.info.Types[fun]; ok && tv.IsType() {
			if len(x.Args) == 1 {
				return s.roots(x.Args[0])
			}
			return nil
		}
		if id, ok := fun.(*ast.Ident); ok {
			if b, ok := s.info.Uses[id].(*types.Builtin); ok {
				if b.Name() == "append" && len(x.Args) > 0 {
					r := s.roots(x.Args[0])
					if !(x.Ellipsis.IsValid() && isByteSlice(s.info.Types[x.Args[0]].Type)) {
						for _, arg := range x.Args[1:] {
							r = union(r, s.roots(arg))
						}
					}
					return r
				}
				return nil
			}
		}
		var r intSet
		ts := s.a.g.targets[x]
		for _, c := range ts {
			args := s.calleeArgs(x, c)
			for p := range s.a.sum[c].ret {
				for _, ae := range args[p] {
					r = union(r, s.roots(ae))
				}
			}
		}
		if len(ts) == 0 {
			// standard library: package bytes returns views of its arguments
			if se, ok := fun.(*ast.SelectorExpr); ok {
				if fo, ok := s.info.Uses[se.Sel].(*types.Func); ok && fo.Pkg() != nil && fo.Pkg().Path() == "bytes" {
					for _, arg := range x.Args {
						r = union(r, s.roots(arg))
					}
					if sel := s.info.Selections[se]; sel != nil {
						r = union(r, s.roots(se.X))
					}
				}
			}
		}
		return r
	}
	return nil
}

func (a *aliasAnalysis) setRet(n *fnode, r intSet) {
	for p := range r {
		if !a.sum[n].ret[p] {
			a.sum[n].ret[p] = true
			a.changed = true
		}
	}
}
func (a *aliasAnalysis) setWrite(n *fnode, r intSet, how string) {
	for p := range r {
		if _, ok := a.sum[n].write[p]; !ok {
			a.sum[n].write[p] = how
			a.changed = true
		}
	}
}
func (a *aliasAnalysis) setStore(n *fnode, from, into intSet) {
	for p := range from {
		for q := range into {
			if p != q && !a.sum[n].store[[2]int{p, q}] {
				a.sum[n].store[[2]int{p, q}] = true
				a.changed = true
			}
		}
	}
}

func typeNameOf(t types.Type) string {
	for {
		if p, ok := t.(*types.Pointer); ok {
			t = p.Elem()
			continue
		}
		break
	}
	if nt, ok := t.(*types.Named); ok {
		return nt.Obj().Name()
	}
	return "?"
}

// srRoots: the positions in r that are SliceReader-typed parameters of n
func (a *aliasAnalysis) srRoots(n *fnode, r intSet) bool {
	if n.sig == nil {
		return false
	}
	for p := range r {
		var t types.Type
		if p == -1 && n.sig.Recv() != nil {
			t = n.sig.Recv().Type()
		} else if p >= 0 && p < n.sig.Params().Len() {
			t = n.sig.Params().At(p).Type()
		}
		if t != nil && isSliceReaderType(t) {
			return true
		}
	}
	return false
}

var stdWriters = map[string]int{"XORKeyStream": 0, "CryptBlocks": 0, "Encrypt": 0, "Decrypt": 0, "PutUint16": 0, "PutUint32": 0,
	"PutUint64": 0, "ReadFull": 1, "ReadAtLeast": 1, "Read": 0}

func (a *aliasAnalysis) analyse(n *fnode, body ast.Node) {
	s := &fnState{a: a, n: n, info: n.info, locals: map[*types.Var]intSet{}}
	for pass := 0; pass < 12; pass++ {
		s.dirty = false
		s.walk(body)
		if !s.dirty {
			break
		}
	}
}

func (s *fnState) noteField(lhsType types.Type, field string, r intSet) {
	if s.a.srRoots(s.n, r) {
		k := typeNameOf(lhsType) + "." + field
		if !s.a.sum[s.n].fields[k] {
			s.a.sum[s.n].fields[k] = true
			s.a.changed = true
		}
	}
}

// assign: value with roots r (expression rhs) flows into lhs
func (s *fnState) assign(lhs ast.Expr, r intSet) {
	lhs = unparen(lhs)
	if id, ok := lhs.(*ast.Ident); ok {
		if id.Name == "_" {
			return
		}
		s.addLocal(s.varOf(id), r)
		return
	}
	if len(r) == 0 {
		return
	}
	// store into a structure: the structure now reaches r
	bv := s.baseVar(lhs)
	if bv != nil {
		s.addLocal(bv, r)
		var into intSet
		if p, ok := s.a.params[s.n][bv]; ok {
			into = intSet{p: true}
		}
		into = union(into, s.locals[bv])
		s.a.setStore(s.n, r, into)
	}
	if se, ok := lhs.(*ast.SelectorExpr); ok {
		if tv, ok := s.info.Types[se.X]; ok && tv.Type != nil {
			s.noteField(tv.Type, se.Sel.Name, r)
		}
	}
}

func (s *fnState) walk(body ast.Node) {
	depth := 0
	ast.Inspect(body, func(x ast.Node) bool {
		switch e := x.(type) {
		case *ast.FuncLit:
			if x != body {
				return false // its own node
			}
		case *ast.AssignStmt:
			if len(e.Lhs) == len(e.Rhs) {
				for i := range e.Lhs {
					s.assign(e.Lhs[i], s.roots(e.Rhs[i]))
					s.byteWrite(e.Lhs[i], "index-assign")
				}
			} else if len(e.Rhs) == 1 {
				r := s.roots(e.Rhs[0])
				for _, l := range e.Lhs {
					if tv, ok := s.info.Types[l]; ok && tv.Type != nil && !holdsRef(tv.Type) {
						continue
					}
					if id, ok := l.(*ast.Ident); ok {
						if v := s.varOf(id); v != nil && !holdsRef(v.Type()) {
							continue
						}
					}
					s.assign(l, r)
				}
			}
		case *ast.IncDecStmt:
			s.byteWrite(e.X, "index-assign")
		case *ast.ValueSpec:
			for i, nm := range e.Names {
				if i < len(e.Values) {
					s.assign(nm, s.roots(e.Values[i]))
				}
			}
		case *ast.RangeStmt:
			r := s.roots(e.X)
			if e.Value != nil {
				s.assign(e.Value, r)
			}
		case *ast.TypeSwitchStmt:
			if as, ok := e.Assign.(*ast.AssignStmt); ok && len(as.Rhs) == 1 {
				if ta, ok := as.Rhs[0].(*ast.TypeAssertExpr); ok {
					r := s.roots(ta.X)
					for _, cl := range e.Body.List {
						if v, ok := s.info.Implicits[cl].(*types.Var); ok {
							s.addLocal(v, r)
						}
					}
				}
			}
		case *ast.ReturnStmt:
			if depth == 0 {
				if len(e.Results) == 0 && s.n.sig != nil {
					for i := 0; i < s.n.sig.Results().Len(); i++ {
						rv := s.n.sig.Results().At(i)
						s.a.setRet(s.n, s.locals[rv])
					}
				}
				for _, re := range e.Results {
					s.a.setRet(s.n, s.roots(re))
				}
			}
		case *ast.CompositeLit:
			// fields of the literal that receive SliceReader bytes
			if tv, ok := s.info.Types[e]; ok && tv.Type != nil {
				if st, ok := tv.Type.Underlying().(*types.Struct); ok {
					for i, el := range e.Elts {
						if kv, ok := el.(*ast.KeyValueExpr); ok {
							if id, ok := kv.Key.(*ast.Ident); ok {
								s.noteField(tv.Type, id.Name, s.roots(kv.Value))
							}
						} else if i < st.NumFields() {
							s.noteField(tv.Type, st.Field(i).Name(), s.roots(el))
						}
					}
				}
			}
		case *ast.CallExpr:
			s.callEffects(e)
		}
		return true
	})
}

// byteWrite: lhs is an element of a byte slice / array -> bytes reachable from its roots are written
func (s *fnState) byteWrite(lhs ast.Expr, how string) {
	ie, ok := unparen(lhs).(*ast.IndexExpr)
	if !ok {
		return
	}
	if tv, ok := s.info.Types[ie.X]; ok && isByteSlice(tv.Type) {
		if _, isArr := tv.Type.Underlying().(*types.Array); isArr {
			return // an array value is not shared
		}
		s.a.setWrite(s.n, s.roots(ie.X), how)
	}
}

func (s *fnState) callEffects(ce *ast.CallExpr) {
	fun := unparen(ce.Fun)
	if id, ok := fun.(*ast.Ident); ok {
		if b, ok := s.info.Uses[id].(*types.Builtin); ok {
			switch b.Name() {
			case "copy":
				if len(ce.Args) == 2 && isByteSlice(s.info.Types[ce.Args[0]].Type) {
					s.a.setWrite(s.n, s.roots(ce.Args[0]), "copy")
				}
			case "append":
				if len(ce.Args) > 0 && isByteSlice(s.info.Types[ce.Args[0]].Type) {
					s.a.setWrite(s.n, s.roots(ce.Args[0]), "append")
				}
			}
			return
		}
	}
	ts := s.a.g.targets[ce]
	for _, c := range ts {
		args := s.calleeArgs(ce, c)
		cs := s.a.sum[c]
		for p, how := range cs.write {
			for _, ae := range args[p] {
				if !strings.HasPrefix(how, "via ") {
					how = "via " + c.key + " (" + how + ")"
				}
				s.a.setWrite(s.n, s.roots(ae), how)
			}
		}
		for pq := range cs.store {
			var from intSet
			for _, ae := range args[pq[0]] {
				from = union(from, s.roots(ae))
			}
			if len(from) == 0 {
				continue
			}
			for _, qe := range args[pq[1]] {
				if bv := s.baseVar(qe); bv != nil {
					s.addLocal(bv, from)
				}
				s.a.setStore(s.n, from, s.roots(qe))
			}
		}
	}
	if len(ts) == 0 {
		if se, ok := fun.(*ast.SelectorExpr); ok {
			if pos, ok := stdWriters[se.Sel.Name]; ok && pos < len(ce.Args) {
				if fo, ok := s.info.Uses[se.Sel].(*types.Func); ok && !isLib(fo.Pkg()) {
					if isByteSlice(s.info.Types[ce.Args[pos]].Type) {
						s.a.setWrite(s.n, s.roots(ce.Args[pos]), fo.Name())
					}
				} else if sel := s.info.Selections[se]; sel != nil && !isLib(sel.Obj().Pkg()) {
					if isByteSlice(s.info.Types[ce.Args[pos]].Type) {
						s.a.setWrite(s.n, s.roots(ce.Args[pos]), sel.Obj().Name())
					}
				}
			}
		}
	}
}

// ---------------------------------------------------------------- facts

type aliasFacts struct {
	sources  []string    // methods of the SliceReader implementation returning a view of its buffer
	decoders [][2]string // (function with a SliceReader parameter whose result / receiver keeps bytes of it, fields csv)
	views    []string    // exported functions returning / storing a view of a []byte ARGUMENT
	mutators [][3]string // (exported function, written parameter, how)
}

func paramName(n *fnode, p int) (string, types.Type) {
	if n.sig == nil {
		return "?", nil
	}
	if p == -1 && n.sig.Recv() != nil {
		nm := n.sig.Recv().Name()
		if nm == "" {
			nm = "recv"
		}
		return nm, n.sig.Recv().Type()
	}
	if p >= 0 && p < n.sig.Params().Len() {
		v := n.sig.Params().At(p)
		nm := v.Name()
		if nm == "" {
			nm = fmt.Sprintf("arg%d", p)
		}
		return nm, v.Type()
	}
	return "?", nil
}

func computeAliasFacts(a *aliasAnalysis) *aliasFacts {
	af := &aliasFacts{}
	for _, n := range a.g.nodes {
		if n.decl == nil || n.sig == nil {
			continue
		}
		sm := a.sum[n]
		// view sources: methods of *bits.FixedSliceReader returning bytes of the receiver
		if n.pkg == "bits" && n.sig.Recv() != nil && isSliceReaderType(n.sig.Recv().Type()) && sm.ret[-1] {
			af.sources = append(af.sources, n.key)
		}
		// keepers of SliceReader bytes
		keeps := false
		for p := range sm.ret {
			if _, t := paramName(n, p); p >= 0 && t != nil && isSliceReaderType(t) {
				keeps = true
			}
		}
		for pq := range sm.store {
			if _, t := paramName(n, pq[0]); pq[0] >= 0 && t != nil && isSliceReaderType(t) {
				keeps = true
			}
		}
		if keeps {
			var fs []string
			for f := range sm.fields {
				fs = append(fs, f)
			}
			sort.Strings(fs)
			af.decoders = append(af.decoders, [2]string{n.key, strings.Join(fs, ",")})
		}
		if !n.exported {
			continue
		}
		// views of []byte arguments
		view := false
		for p := range sm.ret {
			if _, t := paramName(n, p); p >= 0 && t != nil && isByteSlice(t) {
				view = true
			}
		}
		for pq := range sm.store {
			if _, t := paramName(n, pq[0]); pq[0] >= 0 && t != nil && isByteSlice(t) {
				view = true
			}
		}
		if view {
			af.views = append(af.views, n.key)
		}
		var ps []int
		for p := range sm.write {
			ps = append(ps, p)
		}
		sort.Ints(ps)
		for _, p := range ps {
			nm, t := paramName(n, p)
			if t == nil || isWriterType(t) {
				continue
			}
			how := sm.write[p]
			if i := strings.Index(how, " ("); i > 0 && len(how) > 90 {
				how = how[:i]
			}
			af.mutators = append(af.mutators, [3]string{n.key, nm, how})
		}
	}
	sort.Strings(af.sources)
	sort.Strings(af.views)
	return af
}

func renderAliasCoq(af *aliasFacts) []byte {
	var b strings.Builder
	b.WriteString("(* C20Alias.v -- GENERATED on every run of ./check C20 by `harness/c20 facts` from the library sources in\n")
	b.WriteString("   /repo: which functions keep sub-slices of the buffer behind a bits.SliceReader (and in which struct fields),\n")
	b.WriteString("   which exported functions return views of a []byte argument, and which exported functions write in place\n")
	b.WriteString("   into bytes reachable from an argument.  Do not edit: overwritten whenever the sources give different facts. *)\n")
	b.WriteString("From Coq Require Import List String.\nFrom V.c20 Require Import C20Facts.\nImport ListNotations.\nOpen Scope string_scope.\n\n")
	fmt.Fprintf(&b, "(* methods of the SliceReader implementation whose result is a sub-slice of the reader's buffer *)\nDefinition c20_view_sources : list string := %s.\n\n", coqStrings(af.sources))
	b.WriteString("(* functions with a SliceReader parameter whose result (or another argument) keeps bytes of the reader's buffer;\n   second component: struct fields that receive such bytes directly in that function *)\n")
	b.WriteString("Definition c20_sr_keepers : list (string * string) := [\n")
	for i, d := range af.decoders {
		fmt.Fprintf(&b, "  (%s, %s)", coqString(d[0]), coqString(d[1]))
		if i+1 < len(af.decoders) {
			b.WriteString(";")
		}
		b.WriteString("\n")
	}
	fmt.Fprintf(&b, "].\n\n(* exported functions whose result (or another argument) keeps a view of a []byte argument *)\nDefinition c20_byte_views : list string := %s.\n\n", coqStrings(af.views))
	b.WriteString("(* exported functions that write in place into bytes reachable from an argument (function, argument) *)\n")
	b.WriteString("Definition c20_mutators : list (string * string) := [\n")
	for i, m := range af.mutators {
		fmt.Fprintf(&b, "  (%s, %s)", coqString(m[0]), coqString(m[1]))
		if i+1 < len(af.mutators) {
			b.WriteString(";")
		}
		b.WriteString("\n")
	}
	b.WriteString("].\n")
	return []byte(b.String())
}

func printAliasTSV(af *aliasFacts) {
	for _, s := range af.sources {
		fmt.Printf("VIEWSRC\t%s\n", s)
	}
	for _, d := range af.decoders {
		fmt.Printf("SRKEEP\t%s\t%s\n", d[0], d[1])
	}
	for _, v := range af.views {
		fmt.Printf("BYTEVIEW\t%s\n", v)
	}
	for _, m := range af.mutators {
		fmt.Printf("MUTATOR\t%s\t%s\t%s\n", m[0], m[1], m[2])
	}
}
