// Harness for C20 (independent objects can be used from concurrent goroutines).
//
//	c20 facts  -repo /repo [-out coq/c20/C20PkgVars.v]   source-fact extractor (package-level vars and their writers)
//	c20 corr   -repo /repo -seed S -n N                   sequential op programs + observed aliasing / input mutation
//	                                                      (compared with the footprint table of coq/c20/C20Api.v)
//	c20 search -repo /repo -seed S -n N [-known K]        concurrent rounds: re-executes itself as `worker` (built with
//	                                                      -race when available), parses race reports, prints FAIL lines
//	c20 worker ...                                        one batch of rounds (internal)
//	c20 replay -repo /repo -w WITNESS                     re-runs one round given its witness string
package main

import (
	"flag"
	"fmt"
	"os"
)

func main() {
	if len(os.Args) < 2 {
		fmt.Fprintln(os.Stderr, "usage: c20 facts|corr|search|worker|replay ...")
		os.Exit(2)
	}
	fs := flag.NewFlagSet(os.Args[1], flag.ExitOnError)
	repo := fs.String("repo", "/repo", "repository under test (for the source facts and the sample files)")
	out := fs.String("out", "", "facts: path of the generated .v file")
	reachOut := fs.String("reach", "", "facts: path of the generated reachability .v file")
	aliasOut := fs.String("alias", "", "facts: path of the generated aliasing .v file")
	seed := fs.Uint64("seed", 0, "seed")
	n := fs.Int("n", 100, "number of cases / rounds")
	known := fs.Int("known", 0, "search: number of additional rounds of the recorded in-place-on-shared-input scenario")
	from := fs.Int("from", 0, "worker: first round")
	wit := fs.String("w", "", "replay: witness")
	stride := fs.Int("stride", 1, "worker: round stride")
	workers := fs.Int("workers", 4, "search: number of worker processes")
	norace := fs.Bool("norace", false, "search: the binary was built without -race")
	_ = fs.Parse(os.Args[2:])
	switch os.Args[1] {
	case "facts":
		os.Exit(cmdFacts(*repo, *out, *reachOut, *aliasOut))
	case "corr":
		os.Exit(cmdCorr(*repo, *seed, *n))
	case "search":
		os.Exit(cmdSearch(*repo, *seed, *n, *known, *norace, *workers))
	case "worker":
		os.Exit(cmdWorker(*repo, *seed, *from, *n, *known, *stride))
	case "replay":
		os.Exit(cmdReplay(*repo, *wit, *norace))
	}
	fmt.Fprintln(os.Stderr, "unknown sub-command", os.Args[1])
	os.Exit(2)
}
