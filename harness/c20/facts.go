// Source-fact extractor for C20: every package-level variable of the library packages and every
// function that can change it or let it escape.  Standard library only (go/parser, go/ast,
// go/types; the library packages are type-checked here in dependency order, standard-library
// imports come from the "source" importer), no network, no go command.
//
// For every use of a package-level variable V (identified through go/types, so a local variable
// shadowing V is not confused with it) the use is classified by its syntactic context:
//
//	assign        V = e, V op= e, V++            (also through a parenthesis)
//	index-assign  V[k] = e, V[k].f = e, V[k]++ ...
//	field-assign  V.f = e, V.f[k] = e ...
//	deref-assign  *V = e
//	delete        delete(V, k)
//	append        append(V, ...)                (may write the backing array; result usually assigned)
//	addr          &V, &V[k], &V.f, or a pointer-receiver method called on V / V[k] / V.f
//	escape        V is of a type through which its contents can be changed by somebody else (map, slice,
//	              pointer, chan, interface other than error, func-free struct/array containing those) and
//	              the use is none of: V[k] read, V.f read, len/cap, range, comparison, call of V
//	              (i.e. it is passed to a callee, copied to another variable, returned, sliced, stored ...)
//	read          everything else (only counted)
//
// The enclosing "function" of a use is the top-level FuncDecl name ("init", "SetBoxDecoder",
// "T.Method") or "<pkg-initializer>" for the initialisation expression of a package-level var.
package main

import (
	"bytes"
	"fmt"
	"go/ast"
	"go/build/constraint"
	"go/importer"
	"go/parser"
	"go/token"
	"go/types"
	"os"
	"path/filepath"
	"sort"
	"strings"
)

const modPath = "github.com/Eyevinn/mp4ff"

// library packages (type-checked on demand, so the import order does not matter)
var libPkgs = []string{"bits", "avc", "hevc", "sei", "aac", "av1", "mp4"}

type useRec struct {
	Fn   string // enclosing function
	Kind string // assign | index-assign | field-assign | deref-assign | delete | append | addr | escape
	Pos  string // file:line
}

type varRec struct {
	Pkg, Name string
	TKind     string // basic | error | iface | map | slice | ptr | chan | func | struct | array | other
	Mutable   bool   // contents reachable for modification through a copy of the value
	Type      string
	Pos       string
	Reads     int
	Uses      []useRec
}

type libImporter struct {
	std   types.Importer
	done  map[string]*types.Package
	check func(name string) (*types.Package, error)
	busy  map[string]bool
}

func (li *libImporter) Import(path string) (*types.Package, error) {
	if p, ok := li.done[path]; ok {
		return p, nil
	}
	if strings.HasPrefix(path, modPath+"/") {
		name := strings.TrimPrefix(path, modPath+"/")
		if li.busy[name] {
			return nil, fmt.Errorf("import cycle through %s", path)
		}
		return li.check(name)
	}
	return li.std.Import(path)
}

// buildOK evaluates the file's //go:build line for the default build (linux/amd64, no extra tags).
func buildOK(f *ast.File) bool {
	for _, cg := range f.Comments {
		if cg.Pos() >= f.Package {
			break
		}
		for _, c := range cg.List {
			if constraint.IsGoBuild(c.Text) {
				x, err := constraint.Parse(c.Text)
				if err != nil {
					return false
				}
				return x.Eval(func(tag string) bool {
					return tag == "linux" || tag == "amd64" || tag == "unix" || tag == "gc" || strings.HasPrefix(tag, "go1.")
				})
			}
		}
	}
	return true
}

func typeKind(t types.Type) string {
	if t.String() == "error" {
		return "error"
	}
	switch u := t.Underlying().(type) {
	case *types.Basic:
		return "basic"
	case *types.Map:
		return "map"
	case *types.Slice:
		return "slice"
	case *types.Pointer:
		return "ptr"
	case *types.Chan:
		return "chan"
	case *types.Signature:
		return "func"
	case *types.Interface:
		return "iface"
	case *types.Struct:
		return "struct"
	case *types.Array:
		_ = u
		return "array"
	}
	return "other"
}

// mutableThroughCopy: can a holder of a COPY of a value of type t change what the original refers to?
func mutableThroughCopy(t types.Type, seen map[types.Type]bool) bool {
	if t.String() == "error" {
		// the library's error values come from errors.New / fmt.Errorf: immutable
		return false
	}
	if seen[t] {
		return false
	}
	seen[t] = true
	if tu, ok := t.(*types.Tuple); ok { // v, ok := V[k]
		for i := 0; i < tu.Len(); i++ {
			if mutableThroughCopy(tu.At(i).Type(), seen) {
				return true
			}
		}
		return false
	}
	switch u := t.Underlying().(type) {
	case *types.Basic:
		return false
	case *types.Map, *types.Slice, *types.Pointer, *types.Chan, *types.Interface:
		return true
	case *types.Signature:
		return false
	case *types.Struct:
		for i := 0; i < u.NumFields(); i++ {
			if mutableThroughCopy(u.Field(i).Type(), seen) {
				return true
			}
		}
		return false
	case *types.Array:
		return mutableThroughCopy(u.Elem(), seen)
	}
	return true
}

type pkgFacts struct {
	vars    map[*types.Var]*varRec
	skipped []string
	files   int
	funcs   int
}

// imports of the library packages (non-test files of the default build): pkg -> sorted import paths
var libImports = map[string][]string{}

// checkedPkg: one type-checked library package (kept for the call-graph / aliasing extractors).
type checkedPkg struct {
	name  string
	files []*ast.File
	info  *types.Info
	pkg   *types.Package
}

// lastChecked / lastFset / lastVarRecs: the result of the most recent extractFacts call.
var (
	lastChecked []checkedPkg
	lastFset    *token.FileSet
	lastVarRecs map[*types.Var]*varRec
)

func extractFacts(repo string) ([]*varRec, map[string]int, []string, error) {
	libImports = map[string][]string{}
	fset := token.NewFileSet()
	li := &libImporter{std: importer.ForCompiler(fset, "source", nil), done: map[string]*types.Package{}, busy: map[string]bool{}}
	all := map[*types.Var]*varRec{}
	stats := map[string]int{}
	var skipped []string
	var cps []checkedPkg
	li.check = func(name string) (*types.Package, error) {
		if p, ok := li.done[modPath+"/"+name]; ok {
			return p, nil
		}
		li.busy[name] = true
		defer delete(li.busy, name)
		dir := filepath.Join(repo, name)
		ents, err := os.ReadDir(dir)
		if err != nil {
			return nil, err
		}
		var files []*ast.File
		for _, e := range ents {
			fn := e.Name()
			if e.IsDir() || !strings.HasSuffix(fn, ".go") || strings.HasSuffix(fn, "_test.go") {
				continue
			}
			f, err := parser.ParseFile(fset, filepath.Join(dir, fn), nil, parser.ParseComments)
			if err != nil {
				return nil, err
			}
			if !buildOK(f) {
				skipped = append(skipped, name+"/"+fn)
				continue
			}
			files = append(files, f)
			for _, im := range f.Imports {
				ip := strings.Trim(im.Path.Value, "\"`")
				found := false
				for _, x := range libImports[name] {
					found = found || x == ip
				}
				if !found {
					libImports[name] = append(libImports[name], ip)
				}
			}
		}
		sort.Strings(libImports[name])
		info := &types.Info{
			Uses:       map[*ast.Ident]types.Object{},
			Defs:       map[*ast.Ident]types.Object{},
			Selections: map[*ast.SelectorExpr]*types.Selection{},
			Types:      map[ast.Expr]types.TypeAndValue{},
			Implicits:  map[ast.Node]types.Object{},
		}
		conf := types.Config{Importer: li}
		pkg, err := conf.Check(modPath+"/"+name, fset, files, info)
		if err != nil {
			return nil, fmt.Errorf("type-check %s: %v", name, err)
		}
		li.done[modPath+"/"+name] = pkg
		stats["files"] += len(files)
		// declare every package-level var
		sc := pkg.Scope()
		for _, n := range sc.Names() {
			if v, ok := sc.Lookup(n).(*types.Var); ok {
				p := fset.Position(v.Pos())
				all[v] = &varRec{Pkg: name, Name: n, TKind: typeKind(v.Type()),
					Mutable: mutableThroughCopy(v.Type(), map[types.Type]bool{}),
					Type:    types.TypeString(v.Type(), func(p *types.Package) string { return p.Name() }),
					Pos:     fmt.Sprintf("%s/%s:%d", name, filepath.Base(p.Filename), p.Line)}
			}
		}
		cps = append(cps, checkedPkg{name, files, info, pkg})
		return pkg, nil
	}
	for _, name := range libPkgs {
		if _, err := li.check(name); err != nil {
			return nil, nil, nil, err
		}
	}
	for _, cp := range cps {
		for _, f := range cp.files {
			for _, d := range f.Decls {
				switch d := d.(type) {
				case *ast.FuncDecl:
					stats["funcs"]++
					if d.Body == nil {
						continue
					}
					fn := d.Name.Name
					if d.Recv != nil && len(d.Recv.List) > 0 {
						fn = recvName(d.Recv.List[0].Type) + "." + fn
					}
					classify(fset, cp.info, all, fn, d.Body)
				case *ast.GenDecl:
					if d.Tok != token.VAR {
						continue
					}
					for _, s := range d.Specs {
						vs := s.(*ast.ValueSpec)
						for _, v := range vs.Values {
							classify(fset, cp.info, all, "<pkg-initializer>", v)
						}
					}
				}
			}
		}
	}
	lastChecked, lastFset, lastVarRecs = cps, fset, all
	var out []*varRec
	for _, r := range all {
		sort.Slice(r.Uses, func(i, j int) bool {
			a, b := r.Uses[i], r.Uses[j]
			if a.Fn != b.Fn {
				return a.Fn < b.Fn
			}
			if a.Kind != b.Kind {
				return a.Kind < b.Kind
			}
			return a.Pos < b.Pos
		})
		out = append(out, r)
	}
	sort.Slice(out, func(i, j int) bool {
		if out[i].Pkg != out[j].Pkg {
			return pkgIndex(out[i].Pkg) < pkgIndex(out[j].Pkg)
		}
		return out[i].Name < out[j].Name
	})
	return out, stats, skipped, nil
}

func pkgIndex(p string) int {
	for i, n := range libPkgs {
		if n == p {
			return i
		}
	}
	return len(libPkgs)
}

func recvName(e ast.Expr) string {
	switch e := e.(type) {
	case *ast.StarExpr:
		return recvName(e.X)
	case *ast.Ident:
		return e.Name
	case *ast.IndexExpr:
		return recvName(e.X)
	}
	return "?"
}

// classify walks one function body (or initialiser) keeping the stack of ancestors.
func classify(fset *token.FileSet, info *types.Info, all map[*types.Var]*varRec, fn string, root ast.Node) {
	var stack []ast.Node
	ast.Inspect(root, func(n ast.Node) bool {
		if n == nil {
			stack = stack[:len(stack)-1]
			return true
		}
		stack = append(stack, n)
		id, ok := n.(*ast.Ident)
		if !ok {
			return true
		}
		v, ok := info.Uses[id].(*types.Var)
		if !ok {
			return true
		}
		rec := all[v]
		if rec == nil {
			return true
		}
		kind := useKind(info, rec, stack)
		if kind == "read" {
			rec.Reads++
			return true
		}
		p := fset.Position(id.Pos())
		fn := fn
		if fn == "init" || fn == "<pkg-initializer>" {
			// a function literal created during initialisation may run later: not an initialisation-time use
			for _, a := range stack {
				if _, ok := a.(*ast.FuncLit); ok {
					fn += ".func-literal"
					break
				}
			}
		}
		rec.Uses = append(rec.Uses, useRec{Fn: fn, Kind: kind,
			Pos: fmt.Sprintf("%s/%s:%d", rec2pkg(p.Filename), filepath.Base(p.Filename), p.Line)})
		return true
	})
}

func rec2pkg(filename string) string { return filepath.Base(filepath.Dir(filename)) }

// useKind classifies the use of the identifier on top of the stack.
func useKind(info *types.Info, rec *varRec, stack []ast.Node) string {
	i := len(stack) - 1
	var cur ast.Node = stack[i]
	// a qualified reference pkg.V: the SelectorExpr is the expression that denotes V
	if i > 0 {
		if se, ok := stack[i-1].(*ast.SelectorExpr); ok && se.Sel == cur {
			i--
			cur = se
		}
	}
	// climb through the access path rooted at V: parens, index, field selection, dereference
	path := "" // "" = V itself, then "index" / "field" / "deref" for the first step taken
	for i > 0 {
		par := stack[i-1]
		switch p := par.(type) {
		case *ast.ParenExpr:
			i--
			cur = par
			continue
		case *ast.IndexExpr:
			if p.X == cur {
				if path == "" {
					path = "index"
				}
				i--
				cur = par
				continue
			}
		case *ast.SelectorExpr:
			if p.X == cur {
				// method value / method call?
				if sel := info.Selections[p]; sel != nil && sel.Kind() != types.FieldVal {
					return methodUse(sel, rec, path)
				}
				if path == "" {
					path = "field"
				}
				i--
				cur = par
				continue
			}
		case *ast.StarExpr:
			if p.X == cur {
				if path == "" {
					path = "deref"
				}
				i--
				cur = par
				continue
			}
		}
		break
	}
	if i == 0 {
		return escapeOrRead(rec, path, info, cur)
	}
	par := stack[i-1]
	switch p := par.(type) {
	case *ast.AssignStmt:
		for _, l := range p.Lhs {
			if l == cur {
				if p.Tok == token.DEFINE {
					return "read" // cannot happen for a package-level var
				}
				return writeKind(path)
			}
		}
	case *ast.IncDecStmt:
		if p.X == cur {
			return writeKind(path)
		}
	case *ast.UnaryExpr:
		if p.Op == token.AND && p.X == cur {
			return "addr"
		}
	case *ast.RangeStmt:
		if p.Key == cur || p.Value == cur {
			if p.Tok == token.ASSIGN {
				return writeKind(path)
			}
		}
		if p.X == cur {
			return "read"
		}
	case *ast.CallExpr:
		if p.Fun == cur {
			return "read" // calling a func-typed variable (or element)
		}
		if id, ok := p.Fun.(*ast.Ident); ok {
			if b, ok := info.Uses[id].(*types.Builtin); ok {
				first := len(p.Args) > 0 && p.Args[0] == cur
				switch b.Name() {
				case "len", "cap":
					return "read"
				case "delete":
					if first {
						return "delete"
					}
				case "append":
					if first {
						return "append"
					}
				case "copy":
					if first {
						return "index-assign" // copy(V, src) writes V's elements
					}
				case "clear":
					if first {
						return "delete"
					}
				}
			}
		}
	case *ast.BinaryExpr:
		switch p.Op {
		case token.EQL, token.NEQ, token.LSS, token.LEQ, token.GTR, token.GEQ:
			return "read"
		}
	case *ast.SliceExpr:
		if p.X == cur {
			// V[a:b] aliases V's backing array
			if tv, ok := info.Types[p.X]; ok {
				if _, isStr := tv.Type.Underlying().(*types.Basic); isStr {
					return "read"
				}
				if _, isArr := tv.Type.Underlying().(*types.Array); isArr {
					return "addr"
				}
			}
			return "escape"
		}
		return "read" // used as a bound
	}
	return escapeOrRead(rec, path, info, cur)
}

func writeKind(path string) string {
	switch path {
	case "":
		return "assign"
	case "index":
		return "index-assign"
	case "field":
		return "field-assign"
	}
	return "deref-assign"
}

// escapeOrRead: the value denoted by cur (V or an element/field of V) is used as an ordinary rvalue.
func escapeOrRead(rec *varRec, path string, info *types.Info, cur ast.Node) string {
	if e, ok := cur.(ast.Expr); ok {
		if tv, ok := info.Types[e]; ok && tv.Type != nil {
			if mutableThroughCopy(tv.Type, map[types.Type]bool{}) {
				return "escape"
			}
			return "read"
		}
	}
	if rec.Mutable {
		return "escape"
	}
	return "read"
}

func methodUse(sel *types.Selection, rec *varRec, path string) string {
	f, ok := sel.Obj().(*types.Func)
	if !ok {
		return "escape"
	}
	sig := f.Type().(*types.Signature)
	recv := sig.Recv()
	if recv == nil {
		return "escape"
	}
	if _, isPtr := recv.Type().(*types.Pointer); isPtr {
		// pointer-receiver method: on an addressable V this is (&V).m(), on a pointer V the pointee escapes
		if _, vIsPtr := sel.Recv().Underlying().(*types.Pointer); vIsPtr {
			return "escape"
		}
		return "addr"
	}
	// value receiver: the receiver is copied
	if mutableThroughCopy(sel.Recv(), map[types.Type]bool{}) {
		return "escape"
	}
	return "read"
}

// ---- output ----

func coqString(s string) string {
	var b strings.Builder
	b.WriteByte('"')
	for _, c := range []byte(s) {
		switch {
		case c == '"':
			b.WriteString(`""`)
		case c < 32 || c > 126:
			fmt.Fprintf(&b, "\\x%02x", c) // plain text; identifiers in this library are ASCII
		default:
			b.WriteByte(c)
		}
	}
	b.WriteByte('"')
	return b.String()
}

var coqTKind = map[string]string{"basic": "TBasic", "error": "TError", "iface": "TIface", "map": "TMap", "slice": "TSlice",
	"ptr": "TPtr", "chan": "TChan", "func": "TFunc", "struct": "TStruct", "array": "TArray", "other": "TOther"}
var coqUKind = map[string]string{"assign": "UAssign", "index-assign": "UIndexAssign", "field-assign": "UFieldAssign",
	"deref-assign": "UDerefAssign", "delete": "UDelete", "append": "UAppend", "addr": "UAddr", "escape": "UEscape"}

func renderCoq(vars []*varRec) []byte {
	var b bytes.Buffer
	b.WriteString("(* C20PkgVars.v -- GENERATED on every run of ./check C20 by `harness/c20 facts` from the library\n")
	b.WriteString("   sources in /repo (packages bits avc hevc sei aac av1 mp4; non-test files of the default build).\n")
	b.WriteString("   One entry per package-level variable: package, name, type kind, whether its contents can be\n")
	b.WriteString("   changed through a copy of the value, and every NON-READ use (function, kind of use).\n")
	b.WriteString("   Do not edit: the file is overwritten whenever the sources give a different table. *)\n")
	b.WriteString("From Coq Require Import List String.\nFrom V.c20 Require Import C20Facts.\nImport ListNotations.\nOpen Scope string_scope.\n\n")
	b.WriteString("Definition c20_pkg_vars : list pkgvar := [\n")
	for i, r := range vars {
		mut := "false"
		if r.Mutable {
			mut = "true"
		}
		fmt.Fprintf(&b, "  mkvar %s %s %s %s [", coqString(r.Pkg), coqString(r.Name), coqTKind[r.TKind], mut)
		// one entry per distinct (function, kind)
		seen := map[string]bool{}
		first := true
		for _, u := range r.Uses {
			k := u.Fn + "\x00" + u.Kind
			if seen[k] {
				continue
			}
			seen[k] = true
			if !first {
				b.WriteString("; ")
			}
			first = false
			fmt.Fprintf(&b, "mkuse %s %s", coqString(u.Fn), coqUKind[u.Kind])
		}
		b.WriteString("]")
		if i+1 < len(vars) {
			b.WriteString(";")
		}
		b.WriteString("\n")
	}
	b.WriteString("].\n\n")
	b.WriteString("(* import paths of the library packages (non-test files) *)\nDefinition c20_imports : list (string * list string) := [\n")
	for i, p := range libPkgs {
		fmt.Fprintf(&b, "  (%s, [", coqString(p))
		for j, ip := range libImports[p] {
			if j > 0 {
				b.WriteString("; ")
			}
			b.WriteString(coqString(ip))
		}
		b.WriteString("])")
		if i+1 < len(libPkgs) {
			b.WriteString(";")
		}
		b.WriteString("\n")
	}
	b.WriteString("].\n")
	return b.Bytes()
}

// cmdFacts: facts -repo DIR [-out file.v]; prints a TSV listing on stdout.
func writeIfChanged(path string, data []byte) error {
	old, _ := os.ReadFile(path)
	if bytes.Equal(old, data) {
		fmt.Printf("UNCHANGED\t%s\n", path)
		return nil
	}
	if err := os.WriteFile(path, data, 0o644); err != nil {
		return err
	}
	fmt.Printf("WROTE\t%s\n", path)
	return nil
}

func cmdFacts(repo, outPath, reachPath, aliasPath string) int {
	vars, stats, skipped, err := extractFacts(repo)
	if err != nil {
		fmt.Fprintln(os.Stderr, "facts:", err)
		return 2
	}
	coq := renderCoq(vars)
	if outPath != "" {
		if err := writeIfChanged(outPath, coq); err != nil {
			fmt.Fprintln(os.Stderr, "facts:", err)
			return 2
		}
	}
	g := buildCallGraph()
	rf := computeReach(g)
	if reachPath != "" {
		if err := writeIfChanged(reachPath, renderReachCoq(rf)); err != nil {
			fmt.Fprintln(os.Stderr, "facts:", err)
			return 2
		}
	}
	defer printReachTSV(rf)
	af := computeAliasFacts(runAliasAnalysis(g))
	if aliasPath != "" {
		if err := writeIfChanged(aliasPath, renderAliasCoq(af)); err != nil {
			fmt.Fprintln(os.Stderr, "facts:", err)
			return 2
		}
	}
	defer printAliasTSV(af)
	fmt.Printf("STATS\tfiles=%d\tfuncs=%d\tvars=%d\n", stats["files"], stats["funcs"], len(vars))
	for _, s := range skipped {
		fmt.Printf("SKIPPED\t%s\n", s)
	}
	for _, p := range libPkgs {
		fmt.Printf("IMPORTS\t%s\t%s\n", p, strings.Join(libImports[p], ","))
	}
	for _, r := range vars {
		fmt.Printf("VAR\t%s\t%s\t%s\t%v\t%s\t%s\treads=%d\n", r.Pkg, r.Name, r.TKind, r.Mutable, r.Type, r.Pos, r.Reads)
		for _, u := range r.Uses {
			fmt.Printf("USE\t%s\t%s\t%s\t%s\t%s\n", r.Pkg, r.Name, u.Fn, u.Kind, u.Pos)
		}
	}
	return 0
}
