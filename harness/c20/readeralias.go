package main

// The io.Reader decode path hands out structures that own their bytes: C20's footprint table (and the known findings
// F1-F9, which are about the SliceReader path only) rest on that. Probe it directly: decode boxes and files whose
// payloads cross every plausible "do not copy above this size" threshold through every kind of reader, then write
// into every byte slice of the decoded structure that a later in-place operation would touch, and compare the input.

import (
	"bufio"
	"bytes"
	"crypto/sha256"
	"fmt"
	"io"

	"github.com/Eyevinn/mp4ff/mp4"
)

type plainReader struct{ r *bytes.Reader }

func (p plainReader) Read(b []byte) (int, error) { return p.r.Read(b) }

func readerKinds(in []byte) map[string]func() io.Reader {
	return map[string]func() io.Reader{
		"bytes.Reader": func() io.Reader { return bytes.NewReader(in) },
		"bytes.Buffer": func() io.Reader { return bytes.NewBuffer(in) },
		"bufio.Reader": func() io.Reader { return bufio.NewReaderSize(bytes.NewReader(in), 1<<16) },
		"plain-Reader": func() io.Reader { return plainReader{bytes.NewReader(in)} },
	}
}

func mdatBoxOf(n int) []byte {
	b := make([]byte, 8+n)
	b[0], b[1], b[2], b[3] = byte((8+n)>>24), byte((8+n)>>16), byte((8+n)>>8), byte(8+n)
	copy(b[4:], "mdat")
	for i := 8; i < len(b); i++ {
		b[i] = byte(i*7 + i>>9)
	}
	return b
}

// readerAliasProbe prints FAIL lines; returns the number of evaluations.
func readerAliasProbe() int {
	n := 0
	for _, sz := range []int{0, 1, 4096, 1 << 16, 1<<16 + 1, 1 << 20, 1<<20 + 1, 3 << 19, 1 << 22} {
		in := mdatBoxOf(sz)
		want := sha256.Sum256(in)
		for kind, mk := range readerKinds(in) {
			n++
			var box mp4.Box
			var err error
			func() {
				defer func() { _ = recover() }()
				box, err = mp4.DecodeBox(0, mk())
			}()
			m, ok := box.(*mp4.MdatBox)
			if err != nil || !ok {
				continue
			}
			for i := range m.Data { // what an in-place decrypt / conversion of the samples would do
				m.Data[i] ^= 0xff
			}
			m.Data = append(m.Data, 1, 2, 3) // and a later AddSampleData
			if sha256.Sum256(in) != want {
				fmt.Printf("FAIL\tDecodeBox(io.Reader)\tinput-aliased\tmdat payload %d bytes through %s\tMdatBox.Data of a box decoded through an io.Reader (%s) shares memory with the caller's input: writing the decoded payload changed the input bytes\n", sz, kind, kind)
				copy(in, mdatBoxOf(sz))
			}
		}
	}
	return n
}
