// Op programs on the real mp4ff API: inputs, objects, execution, digests, aliasing observation.
package main

import (
	"bytes"
	"crypto/sha256"
	"encoding/hex"
	"fmt"
	"os"
	"path/filepath"
	"reflect"
	"strconv"
	"strings"

	"github.com/Eyevinn/mp4ff/avc"
	"github.com/Eyevinn/mp4ff/bits"
	"github.com/Eyevinn/mp4ff/hevc"
	"github.com/Eyevinn/mp4ff/mp4"
	"verifharness/hx"
)

// ---------------------------------------------------------------- shared inputs

// role: full (init + media in one buffer) | init | media | other | di (a shared mp4.DecryptInfo, see world)
type inputInfo struct {
	name   string
	role   string
	codec  string // avc | hevc | aac | ""
	enc    bool
	scheme string
	diInit int // role di: the init input the DecryptInfo is derived from
}

type corpus struct {
	info     []inputInfo
	pristine [][]byte   // never handed to the library (nil for role di)
	hash     [][32]byte // of pristine
	diHash   []string   // role di: digest of the freshly built DecryptInfo
	nbytes   int        // inputs [0,nbytes) are byte slices, [nbytes, len(info)) are shared DecryptInfos
	firstAC3 int        // inputs [firstAC3, endAC3) hold dac3 / dec3 boxes
	endAC3   int
	boxTypes map[string]bool // box types present in the zoo inputs
	lean     map[int]bool    // inputs of which a SliceReader decode keeps no byte slice at all (measured, see measureLean)
}

// measureLean: which inputs decode through a SliceReader into structures that hold no sub-slice of the buffer
// (e.g. a lone dac3 box: all fields are numbers).  For these the table's "payload lives in the input" is vacuous.
func (c *corpus) measureLean() {
	c.lean = map[int]bool{}
	for k := 0; k < c.nbytes; k++ {
		func() {
			defer func() { _ = recover() }()
			buf := hx.Exact(c.pristine[k])
			f, err := mp4.DecodeFileSR(bits.NewFixedSliceReader(buf))
			if err != nil || f == nil {
				return
			}
			if len(aliasOf(&object{file: f}, [][]byte{buf})) == 0 {
				c.lean[k] = true
			}
		}()
	}
}

// world: what the goroutines of one run share read-only: the input byte slices and, as the only shared
// decoded structures, DecryptInfos obtained by DecryptInit from a private (Reader-decoded) init segment.
type world struct {
	c      *corpus
	bytes  [][]byte
	dis    []*mp4.DecryptInfo // index k-nbytes; built on demand in private worlds
	keytab []byte             // key / IV / KID table (see keyMat); pseudo input number len(c.info)
}

// keyMat: the key material one goroutine hands to the library.  Every slice is a 2-index sub-slice tab[a:b] of the
// world's key table, so cap > len: behind an 8-byte IV lies the next goroutine's IV, behind a key the next key, behind
// the last record 64 guard bytes.  The library may read len bytes of each and must not write any byte of the table
// (an append to an argument with spare capacity lands in the caller's array).
type keyMat struct {
	key, iv []byte
	kid     mp4.UUID
}

const (
	ktSlots = 16
	ktIV8   = 0
	ktKey   = ktIV8 + 8*ktSlots
	ktKid   = ktKey + 16*ktSlots
	ktIV16  = ktKid + 16*ktSlots
	ktGuard = ktIV16 + 16*ktSlots
	ktLen   = ktGuard + 64
)

// ivLen: goroutines 0,1 use an 8-byte IV, 2,3 a 16-byte one, and so on (neighbouring slots of the same kind are in use together).
func ivLen(t int) int {
	if (t/2)%2 == 0 {
		return 8
	}
	return 16
}

// keyClass names everything that determines the key material values of goroutine t.
func keyClass(t int) string { return fmt.Sprintf("k%div%d", t%3, ivLen(t)) }

func buildKeyTable() []byte {
	tab := make([]byte, ktLen)
	for s := 0; s < ktSlots; s++ {
		copy(tab[ktIV8+8*s:], cryptIV[:8])
		copy(tab[ktKey+16*s:], goroutineKey(s))
		copy(tab[ktKid+16*s:], cryptKid)
		copy(tab[ktIV16+16*s:], cryptIV)
	}
	for i := ktGuard; i < ktLen; i++ {
		tab[i] = byte(0xa5 ^ i)
	}
	return tab
}

// keys returns goroutine t's views of the world's key table.
func (w *world) keys(t int) keyMat {
	s := t % ktSlots
	if s < 0 {
		s = 0
	}
	km := keyMat{key: w.keytab[ktKey+16*s : ktKey+16*s+16], kid: mp4.UUID(w.keytab[ktKid+16*s : ktKid+16*s+16])}
	if ivLen(t) == 8 {
		km.iv = w.keytab[ktIV8+8*s : ktIV8+8*s+8]
	} else {
		km.iv = w.keytab[ktIV16+16*s : ktIV16+16*s+16]
	}
	return km
}

func (c *corpus) inputName(k int) string {
	if k == len(c.info) {
		return "key/IV/KID table (the key material arguments are sub-slices of it)"
	}
	if k >= 0 && k < len(c.info) {
		return c.info[k].name
	}
	return "?"
}

// corrSlot: the slot of the sequential correspondence programs (corpus key; 16-byte IV for even ids, 8-byte for odd ones).
func corrSlot(id int) int {
	if id%2 == 1 {
		return 12
	}
	return 6
}

// goroutineKey: goroutine t of a round uses key t%3 for all its en/decryption (0: the key the corpus was protected
// with; decrypting with another key gives different but deterministic bytes).  Distinct keys in concurrent goroutines
// make any key- or cipher-caching state in the library visible to the result oracle.
func goroutineKey(t int) []byte {
	switch t % 3 {
	case 1:
		return altKey1
	case 2:
		return altKey2
	}
	return cryptKey
}

var (
	altKey1, _  = hex.DecodeString("a0a1a2a3a4a5a6a7a8a9aaabacadaeaf")
	altKey2, _  = hex.DecodeString("0f1e2d3c4b5a69788796a5b4c3d2e1f0")
	cryptKey, _ = hex.DecodeString("00112233445566778899aabbccddeeff")
	cryptIV, _  = hex.DecodeString("ffeeddccbbaa99887766554433221100")
	cryptKid, _ = mp4.NewUUIDFromString("11112222333344445555666677778888")
)

func mustRead(repo string, names ...string) []byte {
	var b []byte
	for _, n := range names {
		d, err := os.ReadFile(filepath.Join(repo, "mp4", "testdata", n))
		if err != nil {
			fmt.Fprintln(os.Stderr, "cannot read sample file:", err)
			os.Exit(2)
		}
		b = append(b, d...)
	}
	return b
}

func must(err error) {
	if err != nil {
		panic(err)
	}
}

func encodeFile(f *mp4.File) []byte {
	var out bytes.Buffer
	must(f.Encode(&out))
	return out.Bytes()
}

// makeInit protects a clear init segment; tweak adjusts the tenc box (IV sizes, constant IV) before encoding.
func makeInit(clearInit []byte, scheme string, tweak func(t *mp4.TencBox)) ([]byte, *mp4.InitProtectData) {
	f, err := mp4.DecodeFile(bytes.NewReader(clearInit))
	must(err)
	ipd, err := mp4.InitProtect(f.Init, cryptKey, cryptIV, scheme, cryptKid, nil)
	must(err)
	if tweak != nil {
		tweak(ipd.Tenc)
	}
	return encodeFile(f), ipd
}

// makeMediaStd: the library's own EncryptFragment (cenc: 16-byte per-sample IVs in senc; cbcs: constant IV).
func makeMediaStd(clearSeg []byte, ipd *mp4.InitProtectData) []byte {
	f, err := mp4.DecodeFile(bytes.NewReader(clearSeg))
	must(err)
	for _, s := range f.Segments {
		for _, fr := range s.Fragments {
			must(mp4.EncryptFragment(fr, cryptKey, cryptIV, ipd))
		}
	}
	return encodeFile(f)
}

// makeMediaPerSampleIV encrypts sample by sample with per-sample IVs of ivSize bytes stored in senc, optionally
// signalled by a seig sample group (sbgp + sgpd inside the fragment) that overrides the tenc defaults.
func makeMediaPerSampleIV(clearSeg []byte, ipd *mp4.InitProtectData, ivSize int, seig bool) []byte {
	f, err := mp4.DecodeFile(bytes.NewReader(clearSeg))
	must(err)
	for _, s := range f.Segments {
		for _, frag := range s.Fragments {
			traf := frag.Moof.Traf
			fss, err := frag.GetFullSamples(ipd.Trex)
			must(err)
			n := len(fss)
			saiz := mp4.NewSaizBox(n)
			saio := mp4.NewSaioBox()
			must(traf.AddChild(saiz))
			must(traf.AddChild(saio))
			if seig {
				sbgp := &mp4.SbgpBox{GroupingType: "seig", SampleCounts: []uint32{uint32(n)},
					GroupDescriptionIndices: []uint32{65536 + 1}}
				entry := &mp4.SeigSampleGroupEntry{CryptByteBlock: ipd.Tenc.DefaultCryptByteBlock,
					SkipByteBlock: ipd.Tenc.DefaultSkipByteBlock, IsProtected: 1, PerSampleIVSize: byte(ivSize), KID: cryptKid}
				sgpd := &mp4.SgpdBox{Version: 1, GroupingType: "seig", DefaultLength: uint32(entry.Size()),
					SampleGroupEntries: []mp4.SampleGroupEntry{entry}}
				must(traf.AddChild(sbgp))
				must(traf.AddChild(sgpd))
			}
			senc := mp4.NewSencBox(n, n)
			must(traf.AddChild(senc))
			for i, fs := range fss {
				iv16 := make([]byte, 16)
				iv16[0] = 0xa5
				iv16[ivSize-2] = byte((i + 1) >> 8)
				iv16[ivSize-1] = byte(i + 1)
				ssps, err := ipd.ProtFunc(fs.Data, ipd.Scheme)
				must(err)
				if ipd.Scheme == "cenc" {
					must(mp4.CryptSampleCenc(fs.Data, cryptKey, iv16, ssps))
				} else {
					must(mp4.EncryptSampleCbcs(fs.Data, cryptKey, iv16, ssps, ipd.Tenc))
				}
				must(senc.AddSample(mp4.SencSample{IV: iv16[:ivSize], SubSamples: ssps}))
				saiz.AddSampleInfo(iv16[:ivSize], ssps)
			}
			offset := uint64(8)
			for _, c := range frag.Moof.Children {
				if c.Type() != "traf" {
					offset += c.Size()
					continue
				}
				offset += 8
				for _, tc := range c.(*mp4.TrafBox).Children {
					if tc.Type() == "senc" {
						saio.SetOffset(int64(offset + 12 + 4))
					}
					offset += tc.Size()
				}
				break
			}
		}
	}
	return encodeFile(f)
}

// randomisedAudio: same box structure as the AAC input, sample bytes drawn from the seed.
func randomisedAudio(clear []byte, rng *hx.Rng) []byte {
	f, err := mp4.DecodeFile(bytes.NewReader(clear))
	must(err)
	for _, s := range f.Segments {
		for _, fr := range s.Fragments {
			for i := range fr.Mdat.Data {
				fr.Mdat.Data[i] = byte(rng.U64())
			}
		}
	}
	return encodeFile(f)
}

func buildCorpus(repo string, seed uint64) *corpus {
	c := &corpus{boxTypes: map[string]bool{}}
	add := func(name, role, codec string, enc bool, scheme string, data []byte) int {
		c.info = append(c.info, inputInfo{name: name, role: role, codec: codec, enc: enc, scheme: scheme})
		c.pristine = append(c.pristine, hx.Exact(data))
		c.hash = append(c.hash, sha256.Sum256(data))
		return len(c.info) - 1
	}
	rng := hx.NewRng(seed ^ 0xc20c20)
	type codecFiles struct{ codec, init, seg string }
	var encInits []int
	for _, cf := range []codecFiles{{"avc", "init.mp4", "1.m4s"}, {"hevc", "hvc1_init.mp4", "hvc1_seg_1.m4s"}, {"aac", "aac_init.mp4", "aac_1.m4s"}} {
		ini, seg := mustRead(repo, cf.init), mustRead(repo, cf.seg)
		if cf.codec == "aac" {
			seg = randomisedAudio(seg, rng) // sample bytes depend on the seed
		}
		full := append(hx.Exact(ini), seg...)
		// clear inputs: one buffer holding init + media, and the two parts as separate buffers
		add(cf.codec+":clear:full", "full", cf.codec, false, "", full)
		add(cf.codec+":clear:init", "init", cf.codec, false, "", ini)
		add(cf.codec+":clear:media", "media", cf.codec, false, "", seg)
		type variant struct {
			name, scheme string
			tweak        func(t *mp4.TencBox)
			perSample    int // IV size of the matching "plain" media (0: EncryptFragment)
		}
		variants := []variant{
			{"cenc-iv16", "cenc", nil, 0},
			{"cenc-iv8", "cenc", func(t *mp4.TencBox) { t.DefaultPerSampleIVSize = 8 }, 8},
			{"cbcs-const16", "cbcs", nil, 0},
			{"cbcs-const8", "cbcs", func(t *mp4.TencBox) { t.DefaultConstantIV = hx.Exact(cryptIV[:8]) }, 0},
			{"cbcs-persample16", "cbcs", func(t *mp4.TencBox) { t.DefaultConstantIV = nil; t.DefaultPerSampleIVSize = 16 }, 16},
		}
		if cf.codec == "hevc" { // fewer variants for the third codec (run time)
			variants = []variant{variants[0], variants[2]}
		}
		for _, v := range variants {
			encInit, ipd := makeInit(ini, v.scheme, v.tweak)
			encInits = append(encInits, add(cf.codec+":"+v.name+":init", "init", cf.codec, true, v.scheme, encInit))
			var media []byte
			if v.perSample > 0 {
				media = makeMediaPerSampleIV(seg, ipd, v.perSample, false)
			} else {
				media = makeMediaStd(seg, ipd)
			}
			add(cf.codec+":"+v.name+":media", "media", cf.codec, true, v.scheme, media)
			if v.name == "cenc-iv16" || v.name == "cbcs-const16" {
				add(cf.codec+":"+v.name+":full", "full", cf.codec, true, v.scheme, append(hx.Exact(encInit), media...))
				// key-rotation style media: per-sample IVs announced by a seig sample group
				for _, n := range []int{8, 16} {
					if cf.codec == "hevc" && n == 8 {
						continue
					}
					add(fmt.Sprintf("%s:%s:media-seig-iv%d", cf.codec, v.name, n), "media", cf.codec, true, v.scheme,
						makeMediaPerSampleIV(seg, ipd, n, true))
				}
			}
		}
	}
	add("cbcs.mp4", "other", "", false, "", mustRead(repo, "cbcs.mp4"))
	add("init_prog.mp4", "other", "", false, "", mustRead(repo, "init_prog.mp4"))
	add("moof_enc.m4s", "other", "", false, "", mustRead(repo, "moof_enc.m4s"))
	add("bbb5s_aac_sidx.mp4", "other", "", false, "", mustRead(repo, "bbb5s_aac_sidx.mp4"))
	// AC-3 / E-AC-3: single dac3 / dec3 boxes (every acmod, with and without LFE; dependent substreams with channel
	// locations) and init segments whose sample entries were built by SetAC3Descriptor / SetEC3Descriptor
	c.firstAC3 = len(c.info)
	for _, a := range ac3Inputs(rng) {
		add(a.name, "abox", "", false, "", a.data)
	}
	c.endAC3 = len(c.info)
	// box zoo: sample files of the repository chosen greedily so that every box type they contain is present
	for _, z := range zooInputs(repo) {
		add("zoo:"+z.name, "zoo", "", false, "", z.data)
		for t := range z.types {
			c.boxTypes[t] = true
		}
	}
	c.nbytes = len(c.info)
	c.measureLean()
	// shared DecryptInfos: one per encrypted init
	for _, k := range encInits {
		c.info = append(c.info, inputInfo{name: "DecryptInfo(" + c.info[k].name + ")", role: "di", codec: c.info[k].codec,
			enc: true, scheme: c.info[k].scheme, diInit: k})
		c.pristine = append(c.pristine, nil)
		c.hash = append(c.hash, [32]byte{})
		c.diHash = append(c.diHash, diDigest(c.buildDI(len(c.info)-1)))
	}
	return c
}

func (c *corpus) buildDI(k int) *mp4.DecryptInfo {
	f, err := mp4.DecodeFile(bytes.NewReader(c.pristine[c.info[k].diInit]))
	must(err)
	di, err := mp4.DecryptInit(f.Init)
	must(err)
	return &di
}

// diDigest serialises everything a DecryptInfo refers to.
func diDigest(di *mp4.DecryptInfo) string {
	h := sha256.New()
	for _, ti := range di.TrackInfos {
		fmt.Fprintf(h, "track %d/", ti.TrackID)
		if ti.Sinf != nil {
			var b bytes.Buffer
			_ = ti.Sinf.Encode(&b)
			h.Write(b.Bytes())
			if ti.Sinf.Schi != nil && ti.Sinf.Schi.Tenc != nil {
				fmt.Fprintf(h, "civ=%x/", ti.Sinf.Schi.Tenc.DefaultConstantIV)
			}
		}
		if ti.Trex != nil {
			var b bytes.Buffer
			_ = ti.Trex.Encode(&b)
			h.Write(b.Bytes())
		}
	}
	for _, p := range di.Psshs {
		var b bytes.Buffer
		_ = p.Encode(&b)
		h.Write(b.Bytes())
	}
	return hex.EncodeToString(h.Sum(nil)[:12])
}

// guarded returns a copy of b with inputGuard guard bytes of spare capacity behind it (cap = len + inputGuard): the
// inputs are handed to the library the way a caller hands out a range of a bigger buffer.  A write behind len
// (append to the slice or to a view of its tail) lands in the guard and counts as a change of the input.
const inputGuard = 32

func guarded(b []byte) []byte {
	a := make([]byte, len(b)+inputGuard)
	copy(a, b)
	out := a[:len(b)]
	fillGuard(out)
	return out
}

func fillGuard(b []byte) {
	g := b[len(b):cap(b)]
	for i := range g {
		g[i] = byte(0x5a + 7*i)
	}
}

func guardIntact(b []byte) bool {
	g := b[len(b):cap(b)]
	for i := range g {
		if g[i] != byte(0x5a+7*i) {
			return false
		}
	}
	return true
}

// sharedWorld: everything built up front.
func (c *corpus) sharedWorld() *world {
	w := &world{c: c, bytes: make([][]byte, c.nbytes), dis: make([]*mp4.DecryptInfo, len(c.info)-c.nbytes), keytab: buildKeyTable()}
	for i := 0; i < c.nbytes; i++ {
		w.bytes[i] = guarded(c.pristine[i])
	}
	for k := c.nbytes; k < len(c.info); k++ {
		w.dis[k-c.nbytes] = c.buildDI(k)
	}
	return w
}

// privateWorld: fresh copies of the inputs in `need` only; DecryptInfos are built on first use.
func (c *corpus) privateWorld(need map[int]bool) *world {
	w := &world{c: c, bytes: make([][]byte, c.nbytes), dis: make([]*mp4.DecryptInfo, len(c.info)-c.nbytes), keytab: buildKeyTable()}
	for k := range need {
		if k >= 0 && k < c.nbytes {
			w.bytes[k] = guarded(c.pristine[k])
		}
	}
	return w
}

func (w *world) di(k int) *mp4.DecryptInfo {
	j := k - w.c.nbytes
	if j < 0 || j >= len(w.dis) {
		return nil
	}
	if w.dis[j] == nil {
		w.dis[j] = w.c.buildDI(k)
	}
	return w.dis[j]
}

// changed lists the shared inputs that no longer equal their pristine state (exact: byte comparison for the
// slices; sha=true additionally goes through SHA-256, as the property's oracle is stated) and restores them.
func (w *world) changed(sha bool) []int {
	var out []int
	for k := 0; k < w.c.nbytes; k++ {
		if w.bytes[k] == nil {
			continue
		}
		diff := !bytes.Equal(w.bytes[k], w.c.pristine[k])
		if sha && sha256.Sum256(w.bytes[k]) != w.c.hash[k] {
			diff = true
		}
		if diff {
			out = append(out, k)
			copy(w.bytes[k], w.c.pristine[k])
		}
	}
	for k := w.c.nbytes; k < len(w.c.info); k++ {
		j := k - w.c.nbytes
		if w.dis[j] != nil && diDigest(w.dis[j]) != w.c.diHash[j] {
			out = append(out, k)
			w.dis[j] = w.c.buildDI(k)
		}
	}
	if w.keytabChanged(sha) {
		out = append(out, len(w.c.info))
	}
	return out
}

// keytabChanged: the key table no longer equals its pristine state (restores it).
func (w *world) keytabChanged(sha bool) bool {
	if w.keytab == nil {
		return false
	}
	want := buildKeyTable()
	if !bytes.Equal(w.keytab, want) || (sha && sha256.Sum256(w.keytab) != sha256.Sum256(want)) {
		copy(w.keytab, want)
		return true
	}
	return false
}

func (c *corpus) isClear(i int) bool { return c.info[i].role == "full" && !c.info[i].enc }
func (c *corpus) isEnc(i int) bool   { return c.info[i].role == "full" && c.info[i].enc }

// pick returns a random input satisfying the predicate (-1 if none).
func (c *corpus) pick(rng *hx.Rng, ok func(i int, in inputInfo) bool) int {
	var cand []int
	for i, in := range c.info {
		if ok(i, in) {
			cand = append(cand, i)
		}
	}
	if len(cand) == 0 {
		return -1
	}
	return cand[rng.Intn(len(cand))]
}

// ---------------------------------------------------------------- ops

// op codes: D decode(Reader) R decode(SliceReader) I info E encode W encodeSW G samples
//
//	C encrypt cenc, c encrypt cbcs, X decrypt (init and media in the same object), B to byte stream, N to nalu sample
//	K DecryptInit(init object) -> decrypt-info object; Y DecryptSegment(media object, decrypt info: own object or shared)
//	P/p InitProtect(init object, cenc/cbcs) -> protect-data object; F EncryptFragment(media object, protect data)
type op struct {
	code byte
	src  string // D/R: "i<k>" (shared input k) or "o<k>" (own buffer object k)
	o, d int
}

func (p op) String() string {
	switch p.code {
	case 'D', 'R':
		return fmt.Sprintf("%c:%s:%d", p.code, p.src, p.d)
	case 'I', 'E', 'W', 'G', 'K', 'P', 'p', 'F':
		return fmt.Sprintf("%c:%d:%d", p.code, p.o, p.d)
	case 'Y':
		return fmt.Sprintf("%c:%d:%s", p.code, p.o, p.src)
	case 'L':
		return fmt.Sprintf("%c:%s:%d", p.code, p.src, p.d)
	case 'M':
		return fmt.Sprintf("%c:%d:%s:%d", p.code, p.o, p.src, p.d)
	}
	return fmt.Sprintf("%c:%d", p.code, p.o)
}

func progString(p []op) string {
	ss := make([]string, len(p))
	for i, o := range p {
		ss[i] = o.String()
	}
	return strings.Join(ss, ";")
}

func parseProg(s string) ([]op, error) {
	var out []op
	if s == "" || s == "-" {
		return out, nil
	}
	for _, t := range strings.Split(s, ";") {
		f := strings.Split(t, ":")
		if len(f[0]) != 1 {
			return nil, fmt.Errorf("bad op %q", t)
		}
		o := op{code: f[0][0]}
		var err error
		switch o.code {
		case 'D', 'R', 'L':
			if len(f) != 3 {
				return nil, fmt.Errorf("bad op %q", t)
			}
			o.src = f[1]
			o.d, err = strconv.Atoi(f[2])
		case 'M':
			if len(f) != 4 || len(f[2]) < 2 {
				return nil, fmt.Errorf("bad op %q", t)
			}
			o.o, err = strconv.Atoi(f[1])
			o.src = f[2]
			if err == nil {
				o.d, err = strconv.Atoi(f[3])
			}
		case 'I', 'E', 'W', 'G', 'K', 'P', 'p', 'F':
			if len(f) != 3 {
				return nil, fmt.Errorf("bad op %q", t)
			}
			o.o, err = strconv.Atoi(f[1])
			if err == nil {
				o.d, err = strconv.Atoi(f[2])
			}
		case 'Y':
			if len(f) != 3 || len(f[2]) < 2 {
				return nil, fmt.Errorf("bad op %q", t)
			}
			o.o, err = strconv.Atoi(f[1])
			o.src = f[2]
		case 'C', 'c', 'X', 'B', 'N', 'A':
			if len(f) != 2 {
				return nil, fmt.Errorf("bad op %q", t)
			}
			o.o, err = strconv.Atoi(f[1])
		default:
			return nil, fmt.Errorf("bad op %q", t)
		}
		if err != nil {
			return nil, err
		}
		out = append(out, o)
	}
	return out, nil
}

func opName(code byte) string {
	switch code {
	case 'D':
		return "DecodeFile"
	case 'R':
		return "DecodeFileSR"
	case 'I':
		return "File.Info"
	case 'E':
		return "File.Encode"
	case 'W':
		return "File.EncodeSW"
	case 'G':
		return "Fragment.GetFullSamples"
	case 'C', 'c', 'F':
		return "EncryptFragment"
	case 'X', 'Y':
		return "DecryptSegment"
	case 'K':
		return "DecryptInit"
	case 'P', 'p':
		return "InitProtect"
	case 'B':
		return "ConvertSampleToByteStream"
	case 'N':
		return "ConvertByteStreamToNaluSample"
	case 'A':
		return "AddCompatibleBrands/AddSampleData"
	case 'L':
		return "DecodeFile(DecModeLazyMdat)"
	case 'M':
		return "MdatBox.ReadData"
	}
	return "?"
}

// ---------------------------------------------------------------- objects of one goroutine

type object struct {
	file    *mp4.File
	buf     []byte
	isBuf   bool
	samples []mp4.FullSample
	isSamp  bool
	di      *mp4.DecryptInfo     // from DecryptInit; refers into the init object it was taken from
	ipd     *mp4.InitProtectData // from InitProtect; its ProtFunc closes over the init's parameter sets
	from    *mp4.File            // di / ipd: the init file they were derived from
}

type opResult struct {
	class  string // ok | err | panic | skip
	digest string
	bad    string // non-empty: the result contradicts the harness's independent reference (AC-3 channel tables)
}

func sum(b []byte) string {
	h := sha256.Sum256(b)
	return hex.EncodeToString(h[:8])
}

// execOp runs one op on the goroutine's objects; inputs are the byte slices "i<k>" refers to.
func execOp(p op, objs map[int]*object, w *world, km keyMat) (res opResult) {
	inputs := w.bytes
	// shadow the package-level key material: everything below hands the goroutine's table views to the library
	cryptKey, cryptIV, cryptKid := km.key, km.iv, km.kid
	defer func() {
		if r := recover(); r != nil {
			res = opResult{class: "panic"}
		}
	}()
	get := func(k int) *object { return objs[k] }
	// the bytes a source name "i<k>" (shared input) / "o<k>" (own buffer object) stands for
	srcBytes := func(src string) []byte {
		if len(src) < 2 {
			return nil
		}
		k, err := strconv.Atoi(src[1:])
		if err != nil {
			return nil
		}
		if src[0] == 'i' {
			if k < 0 || k >= len(inputs) {
				return nil
			}
			return inputs[k]
		}
		if o := get(k); o != nil && o.isBuf {
			return o.buf
		}
		return nil
	}
	switch p.code {
	case 'M':
		// MdatBox.ReadData of the whole payload of every mdat of the file, through a ReadSeeker of the goroutine's own over
		// the source bytes: lazy mdat -> fresh buffer read from the source, in-memory mdat -> view of MdatBox.Data
		o := get(p.o)
		data := srcBytes(p.src)
		if o == nil || o.file == nil || data == nil {
			return opResult{class: "skip"}
		}
		delete(objs, p.d)
		rs := bytes.NewReader(data)
		var mdats []*mp4.MdatBox
		if o.file.Mdat != nil {
			mdats = append(mdats, o.file.Mdat)
		}
		for _, s := range o.file.Segments {
			for _, fr := range s.Fragments {
				if fr.Mdat != nil {
					mdats = append(mdats, fr.Mdat)
				}
			}
		}
		var all []mp4.FullSample
		h := sha256.New()
		for _, m := range mdats {
			size := int64(m.Size() - m.HeaderSize())
			if size == 0 {
				continue
			}
			start := int64(m.PayloadAbsoluteOffset())
			b, err := m.ReadData(start, size, rs)
			if err != nil {
				return opResult{class: "err"}
			}
			// CopyData of the same range must give the same bytes
			var cp bytes.Buffer
			n, err := m.CopyData(start, size, rs, &cp)
			if err != nil || n != size || !bytes.Equal(cp.Bytes(), b) {
				return opResult{class: "ok", digest: "copy-differs", bad: "seq-only:MdatBox.CopyData and MdatBox.ReadData disagree on the same range"}
			}
			fmt.Fprintf(h, "%v/%d/%d/", m.IsLazy(), start, size)
			all = append(all, mp4.FullSample{Data: b})
		}
		objs[p.d] = &object{samples: all, isSamp: true}
		return opResult{class: "ok", digest: fmt.Sprintf("%s,%s", hex.EncodeToString(h.Sum(nil)[:4]), samplesDigest(all))}
	case 'D', 'R', 'L':
		var data []byte
		k, err := strconv.Atoi(p.src[1:])
		if err != nil {
			return opResult{class: "skip"}
		}
		if p.src[0] == 'i' {
			if k < 0 || k >= len(inputs) || inputs[k] == nil {
				return opResult{class: "skip"}
			}
			data = inputs[k]
		} else {
			o := get(k)
			if o == nil || !o.isBuf {
				return opResult{class: "skip"}
			}
			data = o.buf
		}
		delete(objs, p.d)
		var f *mp4.File
		if p.code == 'D' {
			f, err = mp4.DecodeFile(bytes.NewReader(data))
		} else if p.code == 'L' {
			f, err = mp4.DecodeFile(bytes.NewReader(data), mp4.WithDecodeMode(mp4.DecModeLazyMdat))
		} else {
			f, err = mp4.DecodeFileSR(bits.NewFixedSliceReader(data))
		}
		if err != nil || f == nil {
			return opResult{class: "err"}
		}
		objs[p.d] = &object{file: f}
		return opResult{class: "ok", digest: fmt.Sprintf("boxes=%d,segs=%d,size=%d", len(f.Children), len(f.Segments), f.Size())}
	case 'I', 'E', 'W':
		o := get(p.o)
		if o == nil || o.file == nil {
			return opResult{class: "skip"}
		}
		delete(objs, p.d)
		var out []byte
		switch p.code {
		case 'I':
			var b bytes.Buffer
			if err := o.file.Info(&b, "all:1", "", "  "); err != nil {
				return opResult{class: "err"}
			}
			// box-level inspection as well: every top-level box on its own
			for _, c := range o.file.Children {
				fmt.Fprintf(&b, "[%s %d]\n", c.Type(), c.Size())
				if err := c.Info(&b, "", " ", " "); err != nil {
					return opResult{class: "err"}
				}
			}
			// AC-3 / E-AC-3 configuration boxes: ChannelInfo against the harness's own tables
			if bad := checkAC3(o.file, &b); bad != "" {
				objs[p.d] = &object{buf: b.Bytes(), isBuf: true}
				return opResult{"ok", fmt.Sprintf("len=%d,%s", b.Len(), sum(b.Bytes())), bad}
			}
			out = b.Bytes()
		case 'E':
			var b bytes.Buffer
			if err := o.file.Encode(&b); err != nil {
				return opResult{class: "err"}
			}
			out = b.Bytes()
		case 'W':
			sw := bits.NewFixedSliceWriter(int(o.file.Size()))
			if err := o.file.EncodeSW(sw); err != nil {
				return opResult{class: "err"}
			}
			out = sw.Bytes()
		}
		objs[p.d] = &object{buf: out, isBuf: true}
		return opResult{class: "ok", digest: fmt.Sprintf("len=%d,%s", len(out), sum(out))}
	case 'G':
		o := get(p.o)
		if o == nil || o.file == nil {
			return opResult{class: "skip"}
		}
		delete(objs, p.d)
		var trex *mp4.TrexBox
		if o.file.Init != nil && o.file.Init.Moov != nil && o.file.Init.Moov.Mvex != nil {
			trex = o.file.Init.Moov.Mvex.Trex
		}
		var all []mp4.FullSample
		for _, s := range o.file.Segments {
			for _, fr := range s.Fragments {
				fss, err := fr.GetFullSamples(trex)
				if err != nil {
					return opResult{class: "err"}
				}
				all = append(all, fss...)
			}
		}
		objs[p.d] = &object{samples: all, isSamp: true}
		return opResult{class: "ok", digest: samplesDigest(all)}
	case 'C', 'c':
		o := get(p.o)
		if o == nil || o.file == nil || o.file.Init == nil {
			return opResult{class: "skip"}
		}
		scheme := "cenc"
		if p.code == 'c' {
			scheme = "cbcs"
		}
		ipd, err := mp4.InitProtect(o.file.Init, cryptKey, cryptIV, scheme, cryptKid, nil)
		if err != nil {
			return opResult{class: "err"}
		}
		for _, s := range o.file.Segments {
			for _, fr := range s.Fragments {
				if err := mp4.EncryptFragment(fr, cryptKey, cryptIV, ipd); err != nil {
					return opResult{class: "err"}
				}
			}
		}
		return opResult{class: "ok"}
	case 'X':
		o := get(p.o)
		if o == nil || o.file == nil || o.file.Init == nil {
			return opResult{class: "skip"}
		}
		di, err := mp4.DecryptInit(o.file.Init)
		if err != nil {
			return opResult{class: "err"}
		}
		for _, s := range o.file.Segments {
			if err := mp4.DecryptSegment(s, di, cryptKey); err != nil {
				return opResult{class: "err"}
			}
		}
		return opResult{class: "ok"}
	case 'K':
		o := get(p.o)
		if o == nil || o.file == nil || o.file.Init == nil {
			return opResult{class: "skip"}
		}
		delete(objs, p.d)
		di, err := mp4.DecryptInit(o.file.Init)
		if err != nil {
			return opResult{class: "err"}
		}
		objs[p.d] = &object{di: &di, from: o.file}
		return opResult{class: "ok", digest: fmt.Sprintf("tracks=%d,%s", len(di.TrackInfos), diDigest(&di))}
	case 'Y':
		m := get(p.o)
		if m == nil || m.file == nil || len(p.src) < 2 {
			return opResult{class: "skip"}
		}
		k, err := strconv.Atoi(p.src[1:])
		if err != nil {
			return opResult{class: "skip"}
		}
		var di *mp4.DecryptInfo
		if p.src[0] == 'i' {
			di = w.di(k)
		} else if o := get(k); o != nil {
			di = o.di
		}
		if di == nil {
			return opResult{class: "skip"}
		}
		for _, s := range m.file.Segments {
			if err := mp4.DecryptSegment(s, *di, cryptKey); err != nil {
				return opResult{class: "err"}
			}
		}
		return opResult{class: "ok"}
	case 'P', 'p':
		o := get(p.o)
		if o == nil || o.file == nil || o.file.Init == nil {
			return opResult{class: "skip"}
		}
		delete(objs, p.d)
		scheme := "cenc"
		if p.code == 'p' {
			scheme = "cbcs"
		}
		ipd, err := mp4.InitProtect(o.file.Init, cryptKey, cryptIV, scheme, cryptKid, nil)
		if err != nil {
			return opResult{class: "err"}
		}
		objs[p.d] = &object{ipd: ipd, from: o.file}
		return opResult{class: "ok", digest: scheme}
	case 'F':
		m, k := get(p.o), get(p.d)
		if m == nil || m.file == nil || k == nil || k.ipd == nil {
			return opResult{class: "skip"}
		}
		for _, s := range m.file.Segments {
			for _, fr := range s.Fragments {
				if err := mp4.EncryptFragment(fr, cryptKey, cryptIV, k.ipd); err != nil {
					return opResult{class: "err"}
				}
			}
		}
		return opResult{class: "ok"}
	case 'A':
		// growing byte fields that may be views of the input: ftyp / styp brands, mdat data
		o := get(p.o)
		if o == nil || o.file == nil {
			return opResult{class: "skip"}
		}
		n := 0
		if o.file.Ftyp != nil {
			o.file.Ftyp.AddCompatibleBrands([]string{"c20a"})
			n++
		}
		for _, s := range o.file.Segments {
			if s.Styp != nil {
				s.Styp.AddCompatibleBrands([]string{"c20b", "c20c"})
				n++
			}
			for _, fr := range s.Fragments {
				if fr.Mdat != nil && len(fr.Mdat.DataParts) == 0 {
					fr.Mdat.AddSampleData([]byte{0xc2, 0, 0xc2, 0, 0xc2, 0, 0xc2, 0, 0xc2})
					n++
				}
			}
		}
		return opResult{class: "ok", digest: fmt.Sprintf("grown=%d,size=%d", n, o.file.Size())}
	case 'B':
		o := get(p.o)
		if o == nil || !o.isSamp {
			return opResult{class: "skip"}
		}
		for i := range o.samples {
			o.samples[i].Data = avc.ConvertSampleToByteStream(o.samples[i].Data)
		}
		return opResult{class: "ok", digest: samplesDigest(o.samples)}
	case 'N':
		o := get(p.o)
		if o == nil || !o.isSamp {
			return opResult{class: "skip"}
		}
		for i := range o.samples {
			o.samples[i].Data = avc.ConvertByteStreamToNaluSample(o.samples[i].Data)
		}
		return opResult{class: "ok", digest: samplesDigest(o.samples)}
	}
	return opResult{class: "skip"}
}

// nalInspect reads a sample through the avc / hevc / sei packages (read-only inspection).
func nalInspect(data []byte) (res string) {
	defer func() {
		if r := recover(); r != nil {
			res = "panic"
		}
	}()
	var b strings.Builder
	fmt.Fprint(&b, avc.FindNaluTypes(data), hevc.FindNaluTypes(data))
	nalus, err := avc.GetNalusFromSample(data)
	if err != nil {
		return b.String() + "/notnalus"
	}
	for _, n := range nalus {
		if len(n) > 2 && avc.GetNaluType(n[0]) == avc.NALU_SEI {
			msgs, err := avc.ParseSEINalu(n, nil)
			fmt.Fprintf(&b, "/sei:%d:%v", len(msgs), err == nil)
			for _, m := range msgs {
				fmt.Fprintf(&b, ":%d", m.Type())
			}
		}
	}
	return b.String()
}

func samplesDigest(ss []mp4.FullSample) string {
	h := sha256.New()
	for i, s := range ss {
		fmt.Fprintf(h, "%d/%d/%d/%d/%d/", s.Flags, s.Dur, s.Size, s.CompositionTimeOffset, s.DecodeTime)
		h.Write(s.Data)
		if i < 8 {
			fmt.Fprint(h, nalInspect(s.Data))
		}
	}
	return fmt.Sprintf("n=%d,%s", len(ss), hex.EncodeToString(h.Sum(nil)[:8]))
}

// finalDigest describes everything the goroutine holds at the end of its program.
func finalDigest(objs map[int]*object) (res string) {
	defer func() {
		if r := recover(); r != nil {
			res = "panic"
		}
	}()
	var ids []int
	for k := range objs {
		ids = append(ids, k)
	}
	// small insertion sort (ids are few)
	for i := 1; i < len(ids); i++ {
		for j := i; j > 0 && ids[j-1] > ids[j]; j-- {
			ids[j-1], ids[j] = ids[j], ids[j-1]
		}
	}
	var parts []string
	for _, k := range ids {
		o := objs[k]
		switch {
		case o.file != nil:
			var b bytes.Buffer
			e1 := o.file.Info(&b, "all:1", "", " ")
			n1 := b.Len()
			e2 := o.file.Encode(&b)
			parts = append(parts, fmt.Sprintf("%d:file:%v:%v:%d:%s", k, e1 == nil, e2 == nil, n1, sum(b.Bytes())))
		case o.isBuf:
			parts = append(parts, fmt.Sprintf("%d:buf:%d:%s", k, len(o.buf), sum(o.buf)))
		case o.isSamp:
			parts = append(parts, fmt.Sprintf("%d:samples:%s", k, samplesDigest(o.samples)))
		case o.di != nil:
			parts = append(parts, fmt.Sprintf("%d:di:%s", k, diDigest(o.di)))
		case o.ipd != nil:
			var b bytes.Buffer
			if o.ipd.Tenc != nil {
				_ = o.ipd.Tenc.Encode(&b)
			}
			parts = append(parts, fmt.Sprintf("%d:ipd:%s:%s", k, o.ipd.Scheme, sum(b.Bytes())))
		}
	}
	return strings.Join(parts, " ")
}

// runProgram executes a whole program; between(i) is called before op i (skew / Gosched injection).
func runProgram(p []op, inputs *world, key keyMat, between func(i int)) (results []opResult, final string, objs map[int]*object) {
	objs = map[int]*object{}
	for i, o := range p {
		if between != nil {
			between(i)
		}
		results = append(results, execOp(o, objs, inputs, key))
	}
	return results, finalDigest(objs), objs
}

// ---------------------------------------------------------------- aliasing observation

// byteSlices reports every []byte reachable from v (backing pointer, length).
func byteSlices(v reflect.Value, seen map[uintptr]bool, report func(ptr uintptr, n int), depth int) {
	if depth > 64 || !v.IsValid() {
		return
	}
	switch v.Kind() {
	case reflect.Ptr:
		if v.IsNil() {
			return
		}
		p := v.Pointer()
		if seen[p] {
			return
		}
		seen[p] = true
		byteSlices(v.Elem(), seen, report, depth+1)
	case reflect.Interface:
		if v.IsNil() {
			return
		}
		byteSlices(v.Elem(), seen, report, depth+1)
	case reflect.Struct:
		for i := 0; i < v.NumField(); i++ {
			byteSlices(v.Field(i), seen, report, depth+1)
		}
	case reflect.Slice:
		if v.IsNil() || v.Len() == 0 {
			if !v.IsNil() && v.Cap() > 0 && v.Type().Elem().Kind() == reflect.Uint8 {
				report(v.Pointer(), 0)
			}
			return
		}
		if v.Type().Elem().Kind() == reflect.Uint8 {
			report(v.Pointer(), v.Len())
			return
		}
		switch v.Type().Elem().Kind() {
		case reflect.Ptr, reflect.Interface, reflect.Struct, reflect.Slice, reflect.Array, reflect.Map:
			for i := 0; i < v.Len(); i++ {
				byteSlices(v.Index(i), seen, report, depth+1)
			}
		}
	case reflect.Array:
		switch v.Type().Elem().Kind() {
		case reflect.Ptr, reflect.Interface, reflect.Struct, reflect.Slice, reflect.Array, reflect.Map:
			for i := 0; i < v.Len(); i++ {
				byteSlices(v.Index(i), seen, report, depth+1)
			}
		}
	case reflect.Map:
		if v.IsNil() {
			return
		}
		it := v.MapRange()
		for it.Next() {
			byteSlices(it.Value(), seen, report, depth+1)
		}
	}
}

// aliasOf returns the shared inputs into which some byte slice reachable from the object points.
func aliasOf(o *object, inputs [][]byte) []int {
	if o == nil {
		return nil
	}
	type rng struct{ lo, hi uintptr }
	rs := make([]rng, len(inputs))
	for i, in := range inputs {
		if len(in) > 0 {
			lo := reflect.ValueOf(in).Pointer()
			rs[i] = rng{lo, lo + uintptr(len(in))}
		}
	}
	hit := map[int]bool{}
	report := func(ptr uintptr, n int) {
		for i, r := range rs {
			if r.hi > r.lo && ptr >= r.lo && ptr < r.hi {
				hit[i] = true
			}
		}
	}
	seen := map[uintptr]bool{}
	switch {
	case o.file != nil:
		byteSlices(reflect.ValueOf(o.file), seen, report, 0)
	case o.isBuf:
		byteSlices(reflect.ValueOf(o.buf), seen, report, 0)
	case o.isSamp:
		for i := range o.samples {
			byteSlices(reflect.ValueOf(o.samples[i].Data), seen, report, 0)
		}
	case o.di != nil:
		byteSlices(reflect.ValueOf(o.di), seen, report, 0)
		byteSlices(reflect.ValueOf(o.from), seen, report, 0)
	case o.ipd != nil:
		byteSlices(reflect.ValueOf(o.ipd.Tenc), seen, report, 0)
		byteSlices(reflect.ValueOf(o.ipd.Trex), seen, report, 0)
		byteSlices(reflect.ValueOf(o.from), seen, report, 0) // ProtFunc closes over avcC / hvcC of the init
	}
	var out []int
	for i := range inputs {
		if hit[i] {
			out = append(out, i)
		}
	}
	return out
}
