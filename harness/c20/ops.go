// Op programs on the real mp4ff API: inputs, objects, execution, digests, aliasing observation.
package main

import (
	"bytes"
	"crypto/sha256"
	"encoding/hex"
	"fmt"
	"os"
	"path/filepath"
	"reflect"
	"strconv"
	"strings"

	"github.com/Eyevinn/mp4ff/avc"
	"github.com/Eyevinn/mp4ff/bits"
	"github.com/Eyevinn/mp4ff/hevc"
	"github.com/Eyevinn/mp4ff/mp4"
	"verifharness/hx"
)

// ---------------------------------------------------------------- shared inputs

type inputInfo struct {
	name  string
	kind  string // clear-avc | clear-hevc | clear-aac | enc-<codec>-<scheme> | prog | encfile
	codec string // avc | hevc | aac | ""
}

type corpus struct {
	info     []inputInfo
	pristine [][]byte   // never handed to the library
	hash     [][32]byte // of pristine
}

var (
	cryptKey, _ = hex.DecodeString("00112233445566778899aabbccddeeff")
	cryptIV, _  = hex.DecodeString("ffeeddccbbaa99887766554433221100")
	cryptKid, _ = mp4.NewUUIDFromString("11112222333344445555666677778888")
)

func mustRead(repo string, names ...string) []byte {
	var b []byte
	for _, n := range names {
		d, err := os.ReadFile(filepath.Join(repo, "mp4", "testdata", n))
		if err != nil {
			fmt.Fprintln(os.Stderr, "cannot read sample file:", err)
			os.Exit(2)
		}
		b = append(b, d...)
	}
	return b
}

// encryptBytes produces an encrypted variant of a clear fragmented input (sequentially, Reader path).
func encryptBytes(clear []byte, scheme string) []byte {
	f, err := mp4.DecodeFile(bytes.NewReader(clear))
	if err != nil {
		panic(err)
	}
	ipd, err := mp4.InitProtect(f.Init, cryptKey, cryptIV, scheme, cryptKid, nil)
	if err != nil {
		panic(err)
	}
	for _, s := range f.Segments {
		for _, fr := range s.Fragments {
			if err := mp4.EncryptFragment(fr, cryptKey, cryptIV, ipd); err != nil {
				panic(err)
			}
		}
	}
	var out bytes.Buffer
	if err := f.Encode(&out); err != nil {
		panic(err)
	}
	return out.Bytes()
}

// randomisedAudio: same box structure as the AAC input, sample bytes drawn from the seed.
func randomisedAudio(clear []byte, rng *hx.Rng) []byte {
	f, err := mp4.DecodeFile(bytes.NewReader(clear))
	if err != nil {
		panic(err)
	}
	for _, s := range f.Segments {
		for _, fr := range s.Fragments {
			for i := range fr.Mdat.Data {
				fr.Mdat.Data[i] = byte(rng.U64())
			}
		}
	}
	var out bytes.Buffer
	if err := f.Encode(&out); err != nil {
		panic(err)
	}
	return out.Bytes()
}

func buildCorpus(repo string, seed uint64) *corpus {
	c := &corpus{}
	add := func(name, kind, codec string, data []byte) {
		c.info = append(c.info, inputInfo{name, kind, codec})
		c.pristine = append(c.pristine, hx.Exact(data))
		c.hash = append(c.hash, sha256.Sum256(data))
	}
	avcClear := mustRead(repo, "init.mp4", "1.m4s")
	hevcClear := mustRead(repo, "hvc1_init.mp4", "hvc1_seg_1.m4s")
	aacClear := mustRead(repo, "aac_init.mp4", "aac_1.m4s")
	add("init.mp4+1.m4s", "clear-avc", "avc", avcClear)
	add("hvc1_init.mp4+hvc1_seg_1.m4s", "clear-hevc", "hevc", hevcClear)
	add("aac_init.mp4+aac_1.m4s", "clear-aac", "aac", aacClear)
	add("enc(cenc,avc)", "enc-avc-cenc", "avc", encryptBytes(avcClear, "cenc"))
	add("enc(cbcs,avc)", "enc-avc-cbcs", "avc", encryptBytes(avcClear, "cbcs"))
	add("enc(cenc,hevc)", "enc-hevc-cenc", "hevc", encryptBytes(hevcClear, "cenc"))
	add("enc(cbcs,hevc)", "enc-hevc-cbcs", "hevc", encryptBytes(hevcClear, "cbcs"))
	add("enc(cbcs,aac)", "enc-aac-cbcs", "aac", encryptBytes(aacClear, "cbcs"))
	add("enc(cenc,aac)", "enc-aac-cenc", "aac", encryptBytes(aacClear, "cenc"))
	rng := hx.NewRng(seed ^ 0xc20c20)
	r1 := randomisedAudio(aacClear, rng)
	add("aac-random-payload-1", "clear-aac", "aac", r1)
	add("enc(cbcs,aac-random-payload-2)", "enc-aac-cbcs", "aac", encryptBytes(randomisedAudio(aacClear, rng), "cbcs"))
	add("cbcs.mp4", "encfile", "", mustRead(repo, "cbcs.mp4"))
	add("init_prog.mp4", "prog", "", mustRead(repo, "init_prog.mp4"))
	add("moof_enc.m4s", "other", "", mustRead(repo, "moof_enc.m4s"))
	add("bbb5s_aac_sidx.mp4", "other", "", mustRead(repo, "bbb5s_aac_sidx.mp4"))
	return c
}

func (c *corpus) copies() [][]byte {
	out := make([][]byte, len(c.pristine))
	for i, p := range c.pristine {
		out[i] = hx.Exact(p)
	}
	return out
}

func (c *corpus) isClear(i int) bool { return strings.HasPrefix(c.info[i].kind, "clear-") }
func (c *corpus) isEnc(i int) bool   { return strings.HasPrefix(c.info[i].kind, "enc-") }

// ---------------------------------------------------------------- ops

// op codes: D decode(Reader) R decode(SliceReader) I info E encode W encodeSW G samples
//
//	C encrypt cenc, c encrypt cbcs, X decrypt, B to byte stream, N to nalu sample
type op struct {
	code byte
	src  string // D/R: "i<k>" (shared input k) or "o<k>" (own buffer object k)
	o, d int
}

func (p op) String() string {
	switch p.code {
	case 'D', 'R':
		return fmt.Sprintf("%c:%s:%d", p.code, p.src, p.d)
	case 'I', 'E', 'W', 'G':
		return fmt.Sprintf("%c:%d:%d", p.code, p.o, p.d)
	}
	return fmt.Sprintf("%c:%d", p.code, p.o)
}

func progString(p []op) string {
	ss := make([]string, len(p))
	for i, o := range p {
		ss[i] = o.String()
	}
	return strings.Join(ss, ";")
}

func parseProg(s string) ([]op, error) {
	var out []op
	if s == "" || s == "-" {
		return out, nil
	}
	for _, t := range strings.Split(s, ";") {
		f := strings.Split(t, ":")
		if len(f[0]) != 1 {
			return nil, fmt.Errorf("bad op %q", t)
		}
		o := op{code: f[0][0]}
		var err error
		switch o.code {
		case 'D', 'R':
			if len(f) != 3 {
				return nil, fmt.Errorf("bad op %q", t)
			}
			o.src = f[1]
			o.d, err = strconv.Atoi(f[2])
		case 'I', 'E', 'W', 'G':
			if len(f) != 3 {
				return nil, fmt.Errorf("bad op %q", t)
			}
			o.o, err = strconv.Atoi(f[1])
			if err == nil {
				o.d, err = strconv.Atoi(f[2])
			}
		case 'C', 'c', 'X', 'B', 'N':
			if len(f) != 2 {
				return nil, fmt.Errorf("bad op %q", t)
			}
			o.o, err = strconv.Atoi(f[1])
		default:
			return nil, fmt.Errorf("bad op %q", t)
		}
		if err != nil {
			return nil, err
		}
		out = append(out, o)
	}
	return out, nil
}

func opName(code byte) string {
	switch code {
	case 'D':
		return "DecodeFile"
	case 'R':
		return "DecodeFileSR"
	case 'I':
		return "File.Info"
	case 'E':
		return "File.Encode"
	case 'W':
		return "File.EncodeSW"
	case 'G':
		return "Fragment.GetFullSamples"
	case 'C', 'c':
		return "EncryptFragment"
	case 'X':
		return "DecryptSegment"
	case 'B':
		return "ConvertSampleToByteStream"
	case 'N':
		return "ConvertByteStreamToNaluSample"
	}
	return "?"
}

// ---------------------------------------------------------------- objects of one goroutine

type object struct {
	file    *mp4.File
	buf     []byte
	isBuf   bool
	samples []mp4.FullSample
	isSamp  bool
}

type opResult struct {
	class  string // ok | err | panic | skip
	digest string
}

func sum(b []byte) string {
	h := sha256.Sum256(b)
	return hex.EncodeToString(h[:8])
}

// execOp runs one op on the goroutine's objects; inputs are the byte slices "i<k>" refers to.
func execOp(p op, objs map[int]*object, inputs [][]byte) (res opResult) {
	defer func() {
		if r := recover(); r != nil {
			res = opResult{class: "panic"}
		}
	}()
	get := func(k int) *object { return objs[k] }
	switch p.code {
	case 'D', 'R':
		var data []byte
		k, err := strconv.Atoi(p.src[1:])
		if err != nil {
			return opResult{class: "skip"}
		}
		if p.src[0] == 'i' {
			if k < 0 || k >= len(inputs) {
				return opResult{class: "skip"}
			}
			data = inputs[k]
		} else {
			o := get(k)
			if o == nil || !o.isBuf {
				return opResult{class: "skip"}
			}
			data = o.buf
		}
		delete(objs, p.d)
		var f *mp4.File
		if p.code == 'D' {
			f, err = mp4.DecodeFile(bytes.NewReader(data))
		} else {
			f, err = mp4.DecodeFileSR(bits.NewFixedSliceReader(data))
		}
		if err != nil || f == nil {
			return opResult{class: "err"}
		}
		objs[p.d] = &object{file: f}
		return opResult{"ok", fmt.Sprintf("boxes=%d,segs=%d,size=%d", len(f.Children), len(f.Segments), f.Size())}
	case 'I', 'E', 'W':
		o := get(p.o)
		if o == nil || o.file == nil {
			return opResult{class: "skip"}
		}
		delete(objs, p.d)
		var out []byte
		switch p.code {
		case 'I':
			var b bytes.Buffer
			if err := o.file.Info(&b, "all:1", "", "  "); err != nil {
				return opResult{class: "err"}
			}
			// box-level inspection as well: every top-level box on its own
			for _, c := range o.file.Children {
				fmt.Fprintf(&b, "[%s %d]\n", c.Type(), c.Size())
				if err := c.Info(&b, "", " ", " "); err != nil {
					return opResult{class: "err"}
				}
			}
			out = b.Bytes()
		case 'E':
			var b bytes.Buffer
			if err := o.file.Encode(&b); err != nil {
				return opResult{class: "err"}
			}
			out = b.Bytes()
		case 'W':
			sw := bits.NewFixedSliceWriter(int(o.file.Size()))
			if err := o.file.EncodeSW(sw); err != nil {
				return opResult{class: "err"}
			}
			out = sw.Bytes()
		}
		objs[p.d] = &object{buf: out, isBuf: true}
		return opResult{"ok", fmt.Sprintf("len=%d,%s", len(out), sum(out))}
	case 'G':
		o := get(p.o)
		if o == nil || o.file == nil {
			return opResult{class: "skip"}
		}
		delete(objs, p.d)
		var trex *mp4.TrexBox
		if o.file.Init != nil && o.file.Init.Moov != nil && o.file.Init.Moov.Mvex != nil {
			trex = o.file.Init.Moov.Mvex.Trex
		}
		var all []mp4.FullSample
		for _, s := range o.file.Segments {
			for _, fr := range s.Fragments {
				fss, err := fr.GetFullSamples(trex)
				if err != nil {
					return opResult{class: "err"}
				}
				all = append(all, fss...)
			}
		}
		objs[p.d] = &object{samples: all, isSamp: true}
		return opResult{"ok", samplesDigest(all)}
	case 'C', 'c':
		o := get(p.o)
		if o == nil || o.file == nil || o.file.Init == nil {
			return opResult{class: "skip"}
		}
		scheme := "cenc"
		if p.code == 'c' {
			scheme = "cbcs"
		}
		ipd, err := mp4.InitProtect(o.file.Init, cryptKey, cryptIV, scheme, cryptKid, nil)
		if err != nil {
			return opResult{class: "err"}
		}
		for _, s := range o.file.Segments {
			for _, fr := range s.Fragments {
				if err := mp4.EncryptFragment(fr, cryptKey, cryptIV, ipd); err != nil {
					return opResult{class: "err"}
				}
			}
		}
		return opResult{"ok", ""}
	case 'X':
		o := get(p.o)
		if o == nil || o.file == nil || o.file.Init == nil {
			return opResult{class: "skip"}
		}
		di, err := mp4.DecryptInit(o.file.Init)
		if err != nil {
			return opResult{class: "err"}
		}
		for _, s := range o.file.Segments {
			if err := mp4.DecryptSegment(s, di, cryptKey); err != nil {
				return opResult{class: "err"}
			}
		}
		return opResult{"ok", ""}
	case 'B':
		o := get(p.o)
		if o == nil || !o.isSamp {
			return opResult{class: "skip"}
		}
		for i := range o.samples {
			o.samples[i].Data = avc.ConvertSampleToByteStream(o.samples[i].Data)
		}
		return opResult{"ok", samplesDigest(o.samples)}
	case 'N':
		o := get(p.o)
		if o == nil || !o.isSamp {
			return opResult{class: "skip"}
		}
		for i := range o.samples {
			o.samples[i].Data = avc.ConvertByteStreamToNaluSample(o.samples[i].Data)
		}
		return opResult{"ok", samplesDigest(o.samples)}
	}
	return opResult{class: "skip"}
}

// nalInspect reads a sample through the avc / hevc / sei packages (read-only inspection).
func nalInspect(data []byte) (res string) {
	defer func() {
		if r := recover(); r != nil {
			res = "panic"
		}
	}()
	var b strings.Builder
	fmt.Fprint(&b, avc.FindNaluTypes(data), hevc.FindNaluTypes(data))
	nalus, err := avc.GetNalusFromSample(data)
	if err != nil {
		return b.String() + "/notnalus"
	}
	for _, n := range nalus {
		if len(n) > 2 && avc.GetNaluType(n[0]) == avc.NALU_SEI {
			msgs, err := avc.ParseSEINalu(n, nil)
			fmt.Fprintf(&b, "/sei:%d:%v", len(msgs), err == nil)
			for _, m := range msgs {
				fmt.Fprintf(&b, ":%d", m.Type())
			}
		}
	}
	return b.String()
}

func samplesDigest(ss []mp4.FullSample) string {
	h := sha256.New()
	for i, s := range ss {
		fmt.Fprintf(h, "%d/%d/%d/%d/%d/", s.Flags, s.Dur, s.Size, s.CompositionTimeOffset, s.DecodeTime)
		h.Write(s.Data)
		if i < 8 {
			fmt.Fprint(h, nalInspect(s.Data))
		}
	}
	return fmt.Sprintf("n=%d,%s", len(ss), hex.EncodeToString(h.Sum(nil)[:8]))
}

// finalDigest describes everything the goroutine holds at the end of its program.
func finalDigest(objs map[int]*object) (res string) {
	defer func() {
		if r := recover(); r != nil {
			res = "panic"
		}
	}()
	var ids []int
	for k := range objs {
		ids = append(ids, k)
	}
	// small insertion sort (ids are few)
	for i := 1; i < len(ids); i++ {
		for j := i; j > 0 && ids[j-1] > ids[j]; j-- {
			ids[j-1], ids[j] = ids[j], ids[j-1]
		}
	}
	var parts []string
	for _, k := range ids {
		o := objs[k]
		switch {
		case o.file != nil:
			var b bytes.Buffer
			e1 := o.file.Info(&b, "all:1", "", " ")
			n1 := b.Len()
			e2 := o.file.Encode(&b)
			parts = append(parts, fmt.Sprintf("%d:file:%v:%v:%d:%s", k, e1 == nil, e2 == nil, n1, sum(b.Bytes())))
		case o.isBuf:
			parts = append(parts, fmt.Sprintf("%d:buf:%d:%s", k, len(o.buf), sum(o.buf)))
		case o.isSamp:
			parts = append(parts, fmt.Sprintf("%d:samples:%s", k, samplesDigest(o.samples)))
		}
	}
	return strings.Join(parts, " ")
}

// runProgram executes a whole program; between(i) is called before op i (skew / Gosched injection).
func runProgram(p []op, inputs [][]byte, between func(i int)) (results []opResult, final string, objs map[int]*object) {
	objs = map[int]*object{}
	for i, o := range p {
		if between != nil {
			between(i)
		}
		results = append(results, execOp(o, objs, inputs))
	}
	return results, finalDigest(objs), objs
}

// ---------------------------------------------------------------- aliasing observation

// byteSlices reports every []byte reachable from v (backing pointer, length).
func byteSlices(v reflect.Value, seen map[uintptr]bool, report func(ptr uintptr, n int), depth int) {
	if depth > 64 || !v.IsValid() {
		return
	}
	switch v.Kind() {
	case reflect.Ptr:
		if v.IsNil() {
			return
		}
		p := v.Pointer()
		if seen[p] {
			return
		}
		seen[p] = true
		byteSlices(v.Elem(), seen, report, depth+1)
	case reflect.Interface:
		if v.IsNil() {
			return
		}
		byteSlices(v.Elem(), seen, report, depth+1)
	case reflect.Struct:
		for i := 0; i < v.NumField(); i++ {
			byteSlices(v.Field(i), seen, report, depth+1)
		}
	case reflect.Slice:
		if v.IsNil() || v.Len() == 0 {
			if !v.IsNil() && v.Cap() > 0 && v.Type().Elem().Kind() == reflect.Uint8 {
				report(v.Pointer(), 0)
			}
			return
		}
		if v.Type().Elem().Kind() == reflect.Uint8 {
			report(v.Pointer(), v.Len())
			return
		}
		switch v.Type().Elem().Kind() {
		case reflect.Ptr, reflect.Interface, reflect.Struct, reflect.Slice, reflect.Array, reflect.Map:
			for i := 0; i < v.Len(); i++ {
				byteSlices(v.Index(i), seen, report, depth+1)
			}
		}
	case reflect.Array:
		switch v.Type().Elem().Kind() {
		case reflect.Ptr, reflect.Interface, reflect.Struct, reflect.Slice, reflect.Array, reflect.Map:
			for i := 0; i < v.Len(); i++ {
				byteSlices(v.Index(i), seen, report, depth+1)
			}
		}
	case reflect.Map:
		if v.IsNil() {
			return
		}
		it := v.MapRange()
		for it.Next() {
			byteSlices(it.Value(), seen, report, depth+1)
		}
	}
}

// aliasOf returns the shared inputs into which some byte slice reachable from the object points.
func aliasOf(o *object, inputs [][]byte) []int {
	if o == nil {
		return nil
	}
	type rng struct{ lo, hi uintptr }
	rs := make([]rng, len(inputs))
	for i, in := range inputs {
		if len(in) > 0 {
			lo := reflect.ValueOf(in).Pointer()
			rs[i] = rng{lo, lo + uintptr(len(in))}
		}
	}
	hit := map[int]bool{}
	report := func(ptr uintptr, n int) {
		for i, r := range rs {
			if r.hi > r.lo && ptr >= r.lo && ptr < r.hi {
				hit[i] = true
			}
		}
	}
	seen := map[uintptr]bool{}
	switch {
	case o.file != nil:
		byteSlices(reflect.ValueOf(o.file), seen, report, 0)
	case o.isBuf:
		byteSlices(reflect.ValueOf(o.buf), seen, report, 0)
	case o.isSamp:
		for i := range o.samples {
			byteSlices(reflect.ValueOf(o.samples[i].Data), seen, report, 0)
		}
	}
	var out []int
	for i := range inputs {
		if hit[i] {
			out = append(out, i)
		}
	}
	return out
}
