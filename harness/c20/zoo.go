// Additional shared inputs: AC-3 / E-AC-3 configuration boxes with an independent reference for their channel
// information, and a "box zoo" of repository sample files covering as many box types (Info / Encode / decode
// implementations) as the repository's own data offers.
package main

import (
	"bytes"
	"fmt"
	"io/fs"
	"os"
	"path/filepath"
	"reflect"
	"sort"
	"strings"

	"github.com/Eyevinn/mp4ff/mp4"
	"verifharness/hx"
)

// ---------------------------------------------------------------- independent AC-3 reference
// ETSI TS 102 366: Table 4.3 (acmod), E.1.4 (chanmap bits), F.6.1 (chan_loc).  Written from the standard's
// tables, not taken from the library's variables.

var refAcmod = [8][]string{
	{"L", "R"}, {"C"}, {"L", "R"}, {"L", "C", "R"}, {"L", "R", "Cs"}, {"L", "C", "R", "Cs"}, {"L", "R", "Ls", "Rs"},
	{"L", "C", "R", "Ls", "Rs"},
}

func refChanBit(name string) uint16 {
	switch name {
	case "L":
		return 1 << 15
	case "C":
		return 1 << 14
	case "R":
		return 1 << 13
	case "Ls":
		return 1 << 12
	case "Rs":
		return 1 << 11
	case "Lc/Rc":
		return 1 << 10
	case "Lrs/Rrs":
		return 1 << 9
	case "Cs":
		return 1 << 8
	case "Ts":
		return 1 << 7
	case "Lsd/Rsd":
		return 1 << 6
	case "Lw/Rw":
		return 1 << 5
	case "Vhl/Vhr":
		return 1 << 4
	case "Vhc":
		return 1 << 3
	case "Lts/Rts":
		return 1 << 2
	case "LFE2":
		return 1 << 1
	case "LFE":
		return 1
	}
	return 0 // the library's chan_loc names "Lvh/Rvh" and "Cvh" have no chanmap bit in its table
}

var refChanLoc = [9]string{"Lc/Rc", "Lrs/Rrs", "Cs", "Ts", "Lsd/Rsd", "Lw/Rw", "Lvh/Rvh", "Cvh", "LFE2"}

// refChannelInfo: what Dac3Box.ChannelInfo (ec3=false: every entry counts one channel) and Dec3Box.ChannelInfo
// (ec3=true: pairs count two) compute for the first independent substream.
func refChannelInfo(ec3 bool, acmod, lfeon, numDep byte, chanLoc uint16) (int, uint16) {
	names := append([]string{}, refAcmod[acmod&7]...)
	if lfeon == 1 {
		names = append(names, "LFE")
	}
	if ec3 && numDep > 0 {
		for i := 0; i < 9; i++ {
			if chanLoc&(1<<i) != 0 {
				names = append(names, refChanLoc[i])
			}
		}
	}
	n, cm := 0, uint16(0)
	for _, nm := range names {
		if ec3 && strings.Contains(nm, "/") {
			n += 2
		} else {
			n++
		}
		cm |= refChanBit(nm)
	}
	return n, cm
}

// walkBoxes visits every value reachable from v through exported fields that implements mp4.Box.
func walkBoxes(v reflect.Value, seen map[uintptr]bool, visit func(mp4.Box), depth int) {
	if depth > 48 || !v.IsValid() {
		return
	}
	switch v.Kind() {
	case reflect.Ptr:
		if v.IsNil() {
			return
		}
		if seen[v.Pointer()] {
			return
		}
		seen[v.Pointer()] = true
		if v.CanInterface() {
			if b, ok := v.Interface().(mp4.Box); ok {
				visit(b)
			}
		}
		walkBoxes(v.Elem(), seen, visit, depth+1)
	case reflect.Interface:
		if !v.IsNil() {
			walkBoxes(v.Elem(), seen, visit, depth+1)
		}
	case reflect.Struct:
		for i := 0; i < v.NumField(); i++ {
			if v.Type().Field(i).IsExported() {
				walkBoxes(v.Field(i), seen, visit, depth+1)
			}
		}
	case reflect.Slice, reflect.Array:
		switch v.Type().Elem().Kind() {
		case reflect.Ptr, reflect.Interface, reflect.Struct:
			for i := 0; i < v.Len(); i++ {
				walkBoxes(v.Index(i), seen, visit, depth+1)
			}
		}
	}
}

func boxesOf(f *mp4.File) []mp4.Box {
	var out []mp4.Box
	walkBoxes(reflect.ValueOf(f), map[uintptr]bool{}, func(b mp4.Box) { out = append(out, b) }, 0)
	return out
}

// checkAC3 calls ChannelInfo on every dac3 / dec3 box of the file (appending the values to the op's output) and
// compares with the independent reference.
func checkAC3(f *mp4.File, out *bytes.Buffer) string {
	bad := ""
	for _, b := range boxesOf(f) {
		switch x := b.(type) {
		case *mp4.Dac3Box:
			n, cm := x.ChannelInfo()
			rn, rcm := refChannelInfo(false, x.ACMod, x.LFEOn, 0, 0)
			fmt.Fprintf(out, "dac3 acmod=%d lfe=%d -> %d %04x sr=%d br=%d\n", x.ACMod, x.LFEOn, n, cm, x.SamplingFrequency(), x.BitrateBps())
			if (n != rn || cm != rcm) && bad == "" {
				bad = fmt.Sprintf("Dac3Box.ChannelInfo(acmod=%d,lfeon=%d) = (%d,%04x), the standard's tables give (%d,%04x)", x.ACMod, x.LFEOn, n, cm, rn, rcm)
			}
		case *mp4.Dec3Box:
			if len(x.EC3Subs) == 0 {
				continue
			}
			s := x.EC3Subs[0]
			n, cm := x.ChannelInfo()
			rn, rcm := refChannelInfo(true, s.ACMod, s.LFEOn, s.NumDepSub, s.ChanLoc)
			fmt.Fprintf(out, "dec3 acmod=%d lfe=%d dep=%d loc=%x -> %d %04x\n", s.ACMod, s.LFEOn, s.NumDepSub, s.ChanLoc, n, cm)
			if (n != rn || cm != rcm) && bad == "" {
				bad = fmt.Sprintf("Dec3Box.ChannelInfo(acmod=%d,lfeon=%d,num_dep_sub=%d,chan_loc=%x) = (%d,%04x), the standard's tables give (%d,%04x)",
					s.ACMod, s.LFEOn, s.NumDepSub, s.ChanLoc, n, cm, rn, rcm)
			}
		}
	}
	return bad
}

type namedInput struct {
	name string
	data []byte
}

func encodeBox(b mp4.Box) []byte {
	var out bytes.Buffer
	must(b.Encode(&out))
	return out.Bytes()
}

// ac3Inputs: one buffer per configuration (a lone dac3 / dec3 box, which DecodeFile / DecodeFileSR accept as a
// top-level child), plus init segments whose ac-3 / ec-3 sample entries were built by the library.
func ac3Inputs(rng *hx.Rng) []namedInput {
	var out []namedInput
	for acmod := byte(0); acmod < 8; acmod++ {
		for lfe := byte(0); lfe < 2; lfe++ {
			d := &mp4.Dac3Box{FSCod: acmod % 3, BSID: 8, ACMod: acmod, LFEOn: lfe, BitRateCode: 10 + acmod}
			out = append(out, namedInput{fmt.Sprintf("dac3:acmod%d:lfe%d", acmod, lfe), encodeBox(d)})
		}
	}
	for acmod := byte(0); acmod < 8; acmod++ {
		lfe := byte(rng.Intn(2))
		loc := uint16(rng.Intn(512))
		dep := byte(rng.Intn(2))
		e := &mp4.Dec3Box{DataRate: 192 + uint16(acmod), NumIndSub: 0,
			EC3Subs: []mp4.EC3Sub{{FSCod: 0, BSID: 16, ACMod: acmod, LFEOn: lfe, NumDepSub: dep, ChanLoc: loc * uint16(dep)}}}
		out = append(out, namedInput{fmt.Sprintf("dec3:acmod%d:lfe%d:dep%d:loc%x", acmod, lfe, dep, loc*uint16(dep)), encodeBox(e)})
		e2 := &mp4.Dec3Box{DataRate: 384, NumIndSub: 0,
			EC3Subs: []mp4.EC3Sub{{FSCod: 0, BSID: 16, ACMod: acmod, LFEOn: 1, NumDepSub: 1, ChanLoc: 1 << (acmod % 9)}}}
		out = append(out, namedInput{fmt.Sprintf("dec3:acmod%d:lfe1:dep1:loc%x", acmod, 1<<(acmod%9)), encodeBox(e2)})
	}
	for _, acmod := range []byte{2, 3, 7} {
		init := mp4.CreateEmptyInit()
		init.AddEmptyTrack(48000, "audio", "en")
		must(init.Moov.Trak.SetAC3Descriptor(&mp4.Dac3Box{FSCod: 0, BSID: 8, ACMod: acmod, LFEOn: 1, BitRateCode: 12}))
		var b bytes.Buffer
		must(init.Encode(&b))
		out = append(out, namedInput{fmt.Sprintf("ac-3-init:acmod%d:lfe1", acmod), b.Bytes()})
		init = mp4.CreateEmptyInit()
		init.AddEmptyTrack(48000, "audio", "en")
		must(init.Moov.Trak.SetEC3Descriptor(&mp4.Dec3Box{DataRate: 256,
			EC3Subs: []mp4.EC3Sub{{BSID: 16, ACMod: acmod, LFEOn: 1, NumDepSub: 1, ChanLoc: 3}}}))
		b.Reset()
		must(init.Encode(&b))
		out = append(out, namedInput{fmt.Sprintf("ec-3-init:acmod%d:lfe1:loc3", acmod), b.Bytes()})
	}
	return out
}

type zooInput struct {
	name  string
	data  []byte
	types map[string]bool
}

// zooInputs: sample files (<= 200 kB) anywhere in the repository that the library decodes; greedy cover of the box
// types they contain (deterministic: candidates in path order).
func zooInputs(repo string) []zooInput {
	exts := map[string]bool{".mp4": true, ".m4s": true, ".cmfv": true, ".cmfa": true, ".cmft": true, ".isma": true, ".ismv": true,
		".m4a": true, ".m4v": true, ".mov": true, ".cmfm": true}
	var cands []zooInput
	_ = filepath.WalkDir(repo, func(path string, d fs.DirEntry, err error) error {
		if err != nil {
			return nil
		}
		if d.IsDir() {
			if n := d.Name(); n == ".git" || n == "fuzz" || n == "node_modules" {
				return filepath.SkipDir
			}
			return nil
		}
		if !exts[strings.ToLower(filepath.Ext(path))] {
			return nil
		}
		if st, err := d.Info(); err != nil || st.Size() > 200_000 || st.Size() < 16 {
			return nil
		}
		data, err := os.ReadFile(path)
		if err != nil {
			return nil
		}
		types := decodeTypes(data)
		if len(types) == 0 {
			return nil
		}
		rel, _ := filepath.Rel(repo, path)
		cands = append(cands, zooInput{rel, data, types})
		return nil
	})
	sort.Slice(cands, func(i, j int) bool { return cands[i].name < cands[j].name })
	covered := map[string]bool{}
	var out []zooInput
	for {
		best, gain := -1, 0
		for i, c := range cands {
			g := 0
			for t := range c.types {
				if !covered[t] {
					g++
				}
			}
			if g > gain || (g == gain && g > 0 && len(c.data) < len(cands[best].data)) {
				best, gain = i, g
			}
		}
		if best < 0 || gain == 0 {
			break
		}
		for t := range cands[best].types {
			covered[t] = true
		}
		out = append(out, cands[best])
	}
	sort.Slice(out, func(i, j int) bool { return out[i].name < out[j].name })
	return out
}

func decodeTypes(data []byte) (types map[string]bool) {
	defer func() {
		if r := recover(); r != nil {
			types = nil
		}
	}()
	f, err := mp4.DecodeFile(bytes.NewReader(data))
	if err != nil || f == nil {
		return nil
	}
	var b bytes.Buffer
	if err := f.Info(&b, "all:1", "", " "); err != nil {
		return nil
	}
	types = map[string]bool{}
	for _, bx := range boxesOf(f) {
		types[fmt.Sprintf("%T", bx)] = true
	}
	return types
}
