module verifharness

go 1.16

require github.com/Eyevinn/mp4ff v0.0.0

replace github.com/Eyevinn/mp4ff => /repo
