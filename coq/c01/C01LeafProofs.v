(* C01LeafProofs.v — per-leaf losslessness: whatever DecodeXxxSR accepts is reproduced by the encoder body
   from the decoded value and the captured reserved bytes.  One shared tactic closes every kind. *)
From V.lib Require Import Base.
From V.c01 Require Import C01Codec C01Model.

Lemma pbind_ok {A B} (p : parser A) (f : A -> parser B) bs (x : B * list N) :
  pbind p f bs = Ok x -> exists a r, p bs = Ok (a, r) /\ f a r = Ok x.
Proof.
  unfold pbind. destruct (p bs) as [[a r]| | |]; try discriminate. intros H. now exists a, r.
Qed.

Lemma rd_enc n v r : v < 256 ^ N.of_nat n -> rd n (be_enc n v ++ r) = Ok (v, r).
Proof.
  intros H. unfold rd. rewrite <- (length_be_enc n v) at 1. rewrite take_app.
  now rewrite be_dec_enc_small.
Qed.

Lemma rdB_app x r : rdB (lenN x) (x ++ r) = Ok (x, r).
Proof.
  unfold rdB. rewrite lenN_app. replace (lenN x + lenN r <? lenN x) with false by (symmetry; apply N.ltb_ge; lia).
  unfold lenN. rewrite Nat2N.id, take_app. reflexivity.
Qed.

(* ---------------------------------------------------------------- bit-field joins *)
Lemma join31 w : w < 256 ^ N.of_nat 4 -> N.lor (w / 2147483648 * 2147483648) (w mod 2147483648) = w.
Proof.
  intros _. change 2147483648 with (2 ^ 31). rewrite lor_shifted_add by (apply N.mod_lt; discriminate).
  change (2 ^ 31) with 2147483648. lia.
Qed.

Lemma join_sap w : w < 256 ^ N.of_nat 4 ->
  N.lor (N.lor (w / 2147483648 * 2147483648) ((w / 268435456) mod 8 * 268435456)) (w mod 268435456) = w.
Proof.
  intros _.
  assert (H1 : N.lor (w / 2147483648 * 2147483648) ((w / 268435456) mod 8 * 268435456)
               = w / 2147483648 * 2147483648 + (w / 268435456) mod 8 * 268435456).
  { change 2147483648 with (2 ^ 31). apply lor_shifted_add. change (2 ^ 31) with 2147483648. lia. }
  rewrite H1.
  replace (w / 2147483648 * 2147483648 + (w / 268435456) mod 8 * 268435456)
    with ((w / 2147483648 * 8 + (w / 268435456) mod 8) * 2 ^ 28) by (change (2 ^ 28) with 268435456; lia).
  rewrite lor_shifted_add by (change (2 ^ 28) with 268435456; lia).
  change (2 ^ 28) with 268435456. lia.
Qed.

(* ---------------------------------------------------------------- the shared tactic *)
Ltac inj_pret E :=
  unfold pret in E; injection E; clear E; intros; subst.

Ltac solve_read E :=
  lazymatch type of E with
  | rd ?n ?bs = Ok _ =>
      match goal with Hok : bytes_ok bs = true |- _ =>
        let Hlt := fresh "Hlt" in let Hok' := fresh "Hok" in
        destruct (rd_spec _ _ _ _ Hok E) as (-> & Hlt & Hok'); clear E; try clear Hok end
  | rdB ?n ?bs = Ok _ =>
      match goal with Hok : bytes_ok bs = true |- _ =>
        let Hl := fresh "Hlen" in let Hx := fresh "Hx" in let Hok' := fresh "Hok" in
        destruct (rdB_spec _ _ _ _ Hok E) as (-> & Hl & Hx & Hok'); clear E; try clear Hok end
  | rd_if ?c ?n ?bs = Ok _ => unfold rd_if in E; solve_read E
  | (if ?c then _ else _) ?bs = Ok _ => let Hc := fresh "Hc" in destruct c eqn:Hc; solve_read E
  | pret _ _ = Ok _ => inj_pret E
  | pfail _ = Ok _ => discriminate E
  end.

Ltac step H :=
  let a := fresh "a" in let r := fresh "r" in let E := fresh "E" in
  apply pbind_ok in H; destruct H as (a & r & E & H); cbv beta zeta in H, E; solve_read E.

Ltac run H :=
  repeat (cbv beta zeta in H;
          lazymatch type of H with
          | pbind _ _ _ = Ok _ => step H
          | (if ?c then _ else _) _ = Ok _ => let Hc := fresh "Hc" in destruct c eqn:Hc
          | pfail _ = Ok _ => discriminate H
          end).

Ltac rew_conds :=
  repeat match goal with
         | Hc : ?c = true |- context [if ?c then _ else _] => rewrite Hc
         | Hc : ?c = false |- context [if ?c then _ else _] => rewrite Hc
         end.

Ltac finish_lossless :=
  cbn [body_leaf chunk nth wr_if leaf_guard] in *;
  unfold wr_if; rew_conds;
  eexists; split; [reflexivity|]; split; [|assumption];
  rewrite ?vf_join_split by assumption;
  repeat rewrite <- app_assoc; cbn [app]; reflexivity.

Definition leaf_lossless (d : hdr -> parser (leaf * rsvT)) : Prop :=
  forall h r l rsv r', bytes_ok r = true -> d h r = Ok ((l, rsv), r') -> leaf_guard l = true ->
    exists b, body_leaf l rsv = Ok b /\ r = b ++ r' /\ bytes_ok r' = true.

Lemma lossless_ftyp : leaf_lossless dec_ftyp.
Proof. intros h r l rsv r' Hok H G. unfold dec_ftyp in H. run H. inj_pret H. finish_lossless. Qed.

Lemma lossless_free : leaf_lossless dec_free.
Proof. intros h r l rsv r' Hok H G. unfold dec_free in H. run H. inj_pret H. finish_lossless. Qed.
(* vtte (nothing is read) and vsid (four bytes) *)
Lemma lossless_empty : leaf_lossless dec_empty.
Proof. intros h r l rsv r' Hok H G. unfold dec_empty in H. inj_pret H. exists []. repeat split. exact Hok. Qed.
Lemma lossless_b4 : leaf_lossless dec_b4.
Proof. intros h r l rsv r' Hok H G. unfold dec_b4 in H. run H. inj_pret H. finish_lossless. Qed.

Lemma lossless_mdat : leaf_lossless dec_mdat.
Proof.
  intros h r l rsv r' Hok H G. unfold dec_mdat in H.
  destruct (rdB (payload_len h) r) as [[x r1]| | |] eqn:E.
  - injection H; clear H; intros; subst. solve_read E. finish_lossless.
  - injection H; clear H; intros; subst. exists []. cbn [body_leaf]. now repeat split.
  - injection H; clear H; intros; subst. exists []. cbn [body_leaf]. now repeat split.
  - injection H; clear H; intros; subst. exists []. cbn [body_leaf]. now repeat split.
Qed.

Lemma lossless_mfhd : leaf_lossless dec_mfhd.
Proof. intros h r l rsv r' Hok H G. unfold dec_mfhd in H. run H. inj_pret H. finish_lossless. Qed.

Lemma lossless_tfhd : leaf_lossless dec_tfhd.
Proof. intros h r l rsv r' Hok H G. unfold dec_tfhd in H. run H; inj_pret H; finish_lossless. Qed.

Lemma lossless_trex : leaf_lossless dec_trex.
Proof. intros h r l rsv r' Hok H G. unfold dec_trex in H. run H. inj_pret H. finish_lossless. Qed.

(* decode switches on version == 0; the encoder does too; Size() does not (C02) *)
Lemma lossless_tfdt : leaf_lossless dec_tfdt.
Proof. intros h r l rsv r' Hok H G. unfold dec_tfdt in H. run H; inj_pret H; finish_lossless. Qed.

Ltac ver_cases :=
  repeat match goal with
         | Hc : (?v =? ?k) = true |- _ => apply N.eqb_eq in Hc; try rewrite Hc in *
         | Hc : (?v =? ?k) = false |- _ => apply N.eqb_neq in Hc
         | Hc : (?v <=? ?k) = true |- _ => apply N.leb_le in Hc
         | Hc : (?v <? ?k) = false |- _ => apply N.ltb_ge in Hc
         end.

(* mvhd / tkhd: decode and encode both select the 64-bit layout on version == 1 *)
Lemma lossless_mvhd : leaf_lossless dec_mvhd.
Proof.
  intros h r l rsv r' Hok H G. unfold dec_mvhd in H. run H. inj_pret H.
  cbn [body_leaf chunk nth].
  eexists; split; [reflexivity|]; split; [|assumption].
  rewrite vf_join_split by assumption. repeat rewrite <- app_assoc. reflexivity.
Qed.

Lemma lossless_tkhd : leaf_lossless dec_tkhd.
Proof.
  intros h r l rsv r' Hok H G. unfold dec_tkhd in H. run H. inj_pret H.
  cbn [body_leaf chunk nth].
  eexists; split; [reflexivity|]; split; [|assumption].
  rewrite vf_join_split by assumption. repeat rewrite <- app_assoc. reflexivity.
Qed.

Lemma lossless_mdhd : leaf_lossless dec_mdhd.
Proof.
  intros h r l rsv r' Hok H G. unfold dec_mdhd in H. run H. inj_pret H.
  cbn [body_leaf chunk nth].
  eexists; split; [reflexivity|]; split; [|assumption].
  rewrite vf_join_split by assumption. repeat rewrite <- app_assoc. reflexivity.
Qed.

Lemma last_removelast (l : list N) : l <> [] -> l = removelast l ++ [last l 0].
Proof. apply app_removelast_last. Qed.

Lemma lossless_hdlr : leaf_lossless dec_hdlr.
Proof.
  intros h r l rsv r' Hok H G. unfold dec_hdlr in H. run H; inj_pret H.
  - (* name ends with 0 *)
    cbn [body_leaf chunk nth].
    eexists; split; [reflexivity|]; split; [|assumption].
    rewrite vf_join_split by assumption. repeat rewrite <- app_assoc. cbn [app].
    apply N.eqb_eq in Hc0.
    assert (Hne : a3 <> []).
    { intros ->. cbn in Hlen1. apply N.ltb_lt in Hc. lia. }
    rewrite (last_removelast a3 Hne) at 1. rewrite Hc0. repeat rewrite <- app_assoc. reflexivity.
  - cbn [body_leaf chunk nth].
    eexists; split; [reflexivity|]; split; [|assumption].
    rewrite vf_join_split by assumption. repeat rewrite <- app_assoc. cbn [app]. reflexivity.
  - cbn [body_leaf chunk nth].
    eexists; split; [reflexivity|]; split; [|assumption].
    rewrite vf_join_split by assumption. repeat rewrite <- app_assoc. cbn [app]. reflexivity.
Qed.

(* stage 5: data (the two skipped words are captured), mime (termination as in hdlr), the wvtt prefix *)
Lemma lossless_data : leaf_lossless dec_data.
Proof. intros h r l rsv r' Hok H G. unfold dec_data in H. run H. inj_pret H. finish_lossless. Qed.

Lemma lossless_mime : leaf_lossless dec_mime.
Proof.
  intros h r l rsv r' Hok H G. unfold dec_mime in H. run H; inj_pret H.
  - cbn [body_leaf]. eexists; split; [reflexivity|]; split; [|assumption].
    rewrite vf_join_split by assumption. repeat rewrite <- app_assoc. cbn [app].
    apply N.eqb_eq in Hc0.
    assert (Hne : a0 <> []).
    { intros ->. cbn in Hlen. apply N.ltb_ge in Hc. lia. }
    rewrite (last_removelast a0 Hne) at 1. rewrite Hc0. repeat rewrite <- app_assoc. reflexivity.
  - cbn [body_leaf]. eexists; split; [reflexivity|]; split; [|assumption].
    rewrite vf_join_split by assumption. repeat rewrite <- app_assoc. cbn [app]. reflexivity.
Qed.

Lemma lossless_wvtt : leaf_lossless dec_wvtt.
Proof.
  intros h r l rsv r' Hok H G. unfold dec_wvtt in H.
  destruct (rdB 6 r) as [[r6 r1]| | |] eqn:E6.
  - destruct (rdB_spec _ _ _ _ Hok E6) as (-> & Hl6 & _ & Hok1).
    destruct (rd 2 r1) as [[dri r2]| | |] eqn:E2.
    + injection H as <- <- <-. destruct (rd_spec _ _ _ _ Hok1 E2) as (-> & _ & Hok2).
      cbn [body_leaf chunk nth]. eexists; split; [reflexivity|]; split; [|assumption]. now rewrite <- app_assoc.
    + destruct (16 <? h_size h); [discriminate|]. injection H as <- <- <-. discriminate G.
    + destruct (16 <? h_size h); [discriminate|]. injection H as <- <- <-. discriminate G.
    + destruct (16 <? h_size h); [discriminate|]. injection H as <- <- <-. discriminate G.
  - destruct (16 <? h_size h); [discriminate|]. injection H as <- <- <-. discriminate G.
  - destruct (16 <? h_size h); [discriminate|]. injection H as <- <- <-. discriminate G.
  - destruct (16 <? h_size h); [discriminate|]. injection H as <- <- <-. discriminate G.
Qed.

(* ---------------------------------------------------------------- counted tables *)
Lemma item_tsample fl bs a r : bytes_ok bs = true -> rd_tsample fl bs = Ok (a, r) ->
  bs = wr_tsample fl a ++ r /\ bytes_ok r = true.
Proof.
  intros Hok H. unfold rd_tsample in H. run H; inj_pret H;
  (split; [|assumption]); unfold wr_tsample, wr_if; cbn [ts_dur ts_size ts_flags ts_cto];
  rew_conds; repeat rewrite <- app_assoc; reflexivity.
Qed.

Lemma item_pair bs a r : bytes_ok bs = true -> rd_pair bs = Ok (a, r) -> bs = wr_pair a ++ r /\ bytes_ok r = true.
Proof.
  intros Hok H. unfold rd_pair in H. run H. inj_pret H. split; [|assumption].
  unfold wr_pair. cbn [fst snd]. repeat rewrite <- app_assoc. reflexivity.
Qed.

Lemma item_sref bs a r : bytes_ok bs = true -> rd_sref bs = Ok (a, r) -> bs = wr_sref a ++ r /\ bytes_ok r = true.
Proof.
  intros Hok H. unfold rd_sref in H. run H. inj_pret H. split; [|assumption].
  unfold wr_sref. cbn [sr_type sr_size sr_dur sr_sap sr_saptype sr_delta].
  rewrite join31, join_sap by assumption. repeat rewrite <- app_assoc. reflexivity.
Qed.

Ltac many E lem :=
  match type of E with rd_many _ _ _ ?x = _ =>
    match goal with Hk : bytes_ok x = true |- _ =>
      let Hl := fresh "Hl" in let Hq := fresh "Hok" in
      destruct (rd_many_spec _ _ lem _ _ _ _ _ Hk E) as (-> & Hl & Hq) end end.

Lemma lossless_stts : leaf_lossless dec_stts.
Proof.
  intros h r l rsv r' Hok H G. unfold dec_stts in H. run H.
  apply pbind_ok in H. destruct H as (es & r1 & E & H). inj_pret H.
  many E item_pair.
  cbn [body_leaf]. eexists; split; [reflexivity|]; split; [|assumption].
  rewrite vf_join_split, Hl by assumption. repeat rewrite <- app_assoc. reflexivity.
Qed.

Lemma lossless_sidx : leaf_lossless dec_sidx.
Proof.
  intros h r l rsv r' Hok H G. unfold dec_sidx in H. run H.
  apply pbind_ok in H. destruct H as (es & r1 & E & H). inj_pret H.
  many E item_sref.
  cbn [body_leaf chunk nth]. eexists; split; [reflexivity|]; split; [|assumption].
  rewrite vf_join_split, Hl by assumption.
  destruct (vf_version a =? 0); repeat rewrite <- app_assoc; reflexivity.
Qed.

Lemma lossless_trun : leaf_lossless dec_trun.
Proof.
  intros h r l rsv r' Hok H G. unfold dec_trun in H. run H;
  (apply pbind_ok in H; destruct H as (es & r9 & E & H); inj_pret H;
   many E (item_tsample (vf_flags a));
   cbn [leaf_guard] in G; cbn [body_leaf];
   destruct (has (vf_flags a) 1 && (_ =? 0)) eqn:Hp; [discriminate G|];
   eexists; split; [reflexivity|]; split; [|assumption];
   rewrite vf_join_split, Hl by assumption; unfold wr_if; rew_conds;
   repeat rewrite <- app_assoc; cbn [app]; reflexivity).
Qed.

