(* C01Witness4.v — a non-trivial input for the general fixed point: an stsd whose sample entry, avcC and colr carry
   reserved bytes that are NOT the encoder's values (so C01_fixpoint_partial does not apply): it decodes with an
   exact tree, the Go encoders write different bytes, and those bytes are a fixed point. *)
From V.lib Require Import Base.
From V.c01 Require Import C01Codec C01Model C01Witness C01Witness3.

Definition ex_fix_pre : mbox :=
  MPre h0 (LStsd 0 0 1) []
    [ MPre h0 (LVisual n_avc1 1 1280 720 4718592 4718592 1 [109;112;52;102;102])
        [[0;0;0;0;0;9]; zeros 16; [1;2;3;4]; 7 :: zeros 25; [0;32]; [255;255]]
        [ MLeaf h0 (LAvcC 100 0 31 [[103;100;0;31]] [[104;238]] 1 0 0 0 false) [[0];[1];[0];[31];[31];[]];
          MLeaf h0 (LColr n_nclx 1 1 1 true []) [[1]] ] ].
Definition ex_fix_bytes : list N := Eval vm_compute in match raw_box true ex_fix_pre with Ok b => b | _ => [] end.
Definition ex_fix_enc : list N := Eval vm_compute in match raw_box false ex_fix_pre with Ok b => b | _ => [] end.

Lemma ex_fix_ok : bytes_ok ex_fix_bytes = true /\ decode ex_fix_bytes = Ok (treeof ex_fix_bytes, []) /\
  exact_box (treeof ex_fix_bytes) = true /\ why_box (treeof ex_fix_bytes) <> [] /\
  raw_box false (treeof ex_fix_bytes) = Ok ex_fix_enc /\ ex_fix_enc <> ex_fix_bytes /\
  decode ex_fix_enc = Ok (norm_box (treeof ex_fix_bytes), []) /\
  raw_box false (norm_box (treeof ex_fix_bytes)) = Ok ex_fix_enc.
Proof. vm_compute. repeat split; discriminate. Qed.
