(* C01Witness6.v — third extension round: MetaBox in both forms around real iTunes metadata, the repaired DataBox, mime,
   the WebVTT sample entry.  All by computation. *)
From V.lib Require Import Base.
From V.c01 Require Import C01Codec C01Model C01Witness C01Witness3.

(* mp4/testdata/bbb5s_aac_sidx.mp4, the udta box: udta{meta(ISO){hdlr ilst{(c)too{data "GPAC-2.2.1-revrelease"}}}}, 106 bytes *)
Definition rb_udta_meta : list N := [0; 0; 0; 106; 117; 100; 116; 97; 0; 0; 0; 98; 109; 101; 116; 97; 0; 0; 0; 0; 0; 0; 0; 33; 104; 100; 108; 114; 0; 0; 0; 0; 0; 0; 0; 0; 109; 100; 105; 114; 0; 0; 0; 0; 0; 0; 0; 0; 0; 0; 0; 0; 0; 0; 0; 0; 53; 105; 108; 115; 116; 0; 0; 0; 45; 169; 116; 111; 111; 0; 0; 0; 37; 100; 97; 116; 97; 0; 0; 0; 1; 0; 0; 0; 0; 71; 80; 65; 67; 45; 50; 46; 50; 46; 49; 45; 114; 101; 118; 114; 101; 108; 101; 97; 115; 101].
(* the same metadata in a QuickTime meta atom (no version and flags: the hdlr box comes first) *)
Definition rb_udta_meta_qt : list N := [0; 0; 0; 102; 117; 100; 116; 97; 0; 0; 0; 94; 109; 101; 116; 97; 0; 0; 0; 33; 104; 100; 108; 114; 0; 0; 0; 0; 0; 0; 0; 0; 109; 100; 105; 114; 0; 0; 0; 0; 0; 0; 0; 0; 0; 0; 0; 0; 0; 0; 0; 0; 53; 105; 108; 115; 116; 0; 0; 0; 45; 169; 116; 111; 111; 0; 0; 0; 37; 100; 97; 116; 97; 0; 0; 0; 1; 0; 0; 0; 0; 71; 80; 65; 67; 45; 50; 46; 50; 46; 49; 45; 114; 101; 118; 114; 101; 108; 101; 97; 115; 101].
Definition ex_data21 : list N := [0; 0; 0; 18; 100; 97; 116; 97; 0; 0; 0; 21; 0; 0; 101; 110; 0; 7].
Definition ex_mime : list N := [0; 0; 0; 23; 109; 105; 109; 101; 0; 0; 0; 0; 116; 101; 120; 116; 47; 112; 108; 97; 105; 110; 0].
Definition ex_wvtt : list N := [0; 0; 0; 61; 119; 118; 116; 116; 0; 0; 0; 0; 0; 0; 0; 1; 0; 0; 0; 14; 118; 116; 116; 67; 87; 69; 66; 86; 84; 84; 0; 0; 0; 11; 118; 108; 97; 98; 115; 114; 99; 0; 0; 0; 20; 98; 116; 114; 116; 0; 0; 0; 1; 0; 0; 0; 2; 0; 0; 0; 3].
Definition ex_wvtt_rsv : list N := [0; 0; 0; 30; 119; 118; 116; 116; 1; 2; 3; 4; 5; 6; 0; 1; 0; 0; 0; 14; 118; 116; 116; 67; 87; 69; 66; 86; 84; 84].
Definition ex_wvtt_short : list N := [0; 0; 0; 12; 119; 118; 116; 116; 0; 0; 0; 0].

Definition fixed_point (bs : list N) : Prop :=
  bytes_ok bs = true /\ decode bs = Ok (treeof bs, []) /\ exact_box (treeof bs) = true /\ why_box (treeof bs) = [] /\
  raw_box false (treeof bs) = Ok bs /\ encode_w (treeof bs) = Ok bs /\ encode_sw (treeof bs) = Ok bs.

Lemma ex_meta_iso_ok : fixed_point rb_udta_meta /\
  match treeof rb_udta_meta with
  | MCont _ [MPre _ (LFullOnly _ 0 0) _ [MLeaf _ (LHdlr _ _ _ _ _ _) _; MCont _ [MCont _ [MLeaf _ (LData 1 0 _) _]]]] => True
  | _ => False
  end.
Proof. vm_compute. repeat split. Qed.
Lemma ex_meta_qt_ok : fixed_point rb_udta_meta_qt /\
  match treeof rb_udta_meta_qt with
  | MCont _ [MCont h [MLeaf _ (LHdlr _ _ _ _ _ _) _; MCont _ [MCont _ [MLeaf _ (LData 1 0 _) _]]]] => h_name h = n_meta
  | _ => False
  end.
Proof. vm_compute. repeat split. Qed.
(* finding C01-F7 (repaired by repo commit f36e540): a value atom with type indicator 21 (integer) and a locale was
   re-encoded with type 1 and locale 0; now both are kept *)
Lemma data_type_fixed : fixed_point ex_data21 /\
  match treeof ex_data21 with MLeaf _ (LData 21 25966 [0; 7]) _ => True | _ => False end.
Proof. vm_compute. repeat split. Qed.
Lemma ex_mime_ok : fixed_point ex_mime. Proof. vm_compute. repeat split. Qed.
Lemma ex_wvtt_ok : fixed_point ex_wvtt /\
  match treeof ex_wvtt with MPre _ (LWvtt 1 false) _ [MLeaf _ (LFree _ _) _; MLeaf _ (LFree _ _) _; MLeaf _ (LBtrt 1 2 3) _] => True | _ => False end.
Proof. vm_compute. repeat split. Qed.
(* the six reserved bytes of the sample entry are captured and written as zeros (don't-care list: wvtt offset 0 length 6) *)
Lemma ex_wvtt_rsv_ok : decode ex_wvtt_rsv = Ok (treeof ex_wvtt_rsv, []) /\ exact_box (treeof ex_wvtt_rsv) = true /\
  why_box (treeof ex_wvtt_rsv) = [(n_wvtt, RRsv true 0)] /\ raw_box true (treeof ex_wvtt_rsv) = Ok ex_wvtt_rsv.
Proof. vm_compute. repeat split. Qed.
(* DecodeWvttSR does not ask the reader for its error: a 12-byte wvtt at the end of a slice is accepted with index 0 and
   re-encoded as 16 bytes (leaf_guard of LWvtt excludes it; class header-size-ignored) *)
Lemma wvtt_short_refuted : decode ex_wvtt_short = Ok (treeof ex_wvtt_short, [0; 0; 0; 0]) /\ exact_box (treeof ex_wvtt_short) = false /\
  leaf_guard (LWvtt 0 true) = false /\ lenN ex_wvtt_short = 12 /\
  match encode_w (treeof ex_wvtt_short) with Ok enc => lenN enc = 16 | _ => False end.
Proof. vm_compute. repeat split. Qed.

(* (c) the two ghost guards of the second round, refuted by witnesses (both replayed on the real code by the search):
   esds -- a DecSpecificInfo size field of eleven bytes `81 80*9 02` whose leading group overflows readSizeSize's uint64
   (finding C01-K77): sizeFieldSizeMinus1 is kept, the lost bits are not, the encoder writes 80 for the leading group;
   sgpd -- the reserved byte of a seig entry (0x55 here) is skipped and written as 0 (ISO reserved, but the byte-granular
   don't-care list cannot name it: its offset depends on the entries before it); captured, no guard any more *)
Definition w_esds_overflow : list N := [0; 0; 0; 49; 101; 115; 100; 115; 0; 0; 0; 0; 3; 35; 0; 1; 0; 4; 27; 64; 21; 0; 0; 0; 0; 1; 244; 0; 0; 1; 244; 0; 5; 129; 128; 128; 128; 128; 128; 128; 128; 128; 128; 2; 17; 144; 6; 1; 2].
Definition w_sgpd_seig_rsv : list N := [0; 0; 0; 44; 115; 103; 112; 100; 1; 0; 0; 0; 115; 101; 105; 103; 0; 0; 0; 20; 0; 0; 0; 1; 85; 0; 1; 8; 0; 1; 2; 3; 4; 5; 6; 7; 8; 9; 10; 11; 12; 13; 14; 15].
Lemma esds_overflow_refuted : refutes w_esds_overflow [(n_esds, RGuard); (n_esds, RRsv false 2)].
Proof. refute w_esds_overflow. Qed.
Lemma sgpd_seig_rsv_refuted : refutes w_sgpd_seig_rsv [(n_sgpd, RRsv true 0)].
Proof. refute w_sgpd_seig_rsv. Qed.
(* since the third round the byte is captured and sgpd has no guard: this input is exact, i.e. inside C01_fixpoint *)
Lemma sgpd_seig_rsv_exact : exact_box (treeof w_sgpd_seig_rsv) = true /\ decode w_sgpd_seig_rsv = Ok (treeof w_sgpd_seig_rsv, []) /\
  raw_box true (treeof w_sgpd_seig_rsv) = Ok w_sgpd_seig_rsv.
Proof. vm_compute. repeat split. Qed.

(* dac3 (with two initial zero bytes) and dec3 (two substreams, the second with dependent substreams and ChanLoc, one Reserved
   byte): typed, exact, fixed points; and what their guards exclude *)
Definition ex_dac3 : list N := [0; 0; 0; 11; 100; 97; 99; 51; 16; 61; 64].
Definition ex_dac3_zeroes : list N := [0; 0; 0; 13; 100; 97; 99; 51; 0; 0; 80; 17; 255].
Definition ex_dec3 : list N := [0; 0; 0; 18; 100; 101; 99; 51; 12; 1; 32; 15; 3; 33; 96; 142; 0; 170].
Definition w_dac3_short : list N := [0; 0; 0; 10; 100; 97; 99; 51; 18; 52].
Definition w_dec3_rsv : list N := [0; 0; 0; 13; 100; 101; 99; 51; 7; 192; 33; 15; 0].
Lemma ex_dac3_ok : fixed_point ex_dac3 /\ fixed_point ex_dac3_zeroes /\
  match treeof ex_dac3_zeroes with MLeaf _ (LDac3 1 8 0 2 0 15 31 2 true) _ => True | _ => False end.
Proof. vm_compute. repeat split. Qed.
Lemma ex_dec3_ok : fixed_point ex_dec3 /\
  match treeof ex_dec3 with MLeaf _ (LDec3 384 [(0, 16, 0, 0, 7, 1, 1, 289); (1, 16, 1, 0, 7, 0, 0, 0)] [170] true) _ => True | _ => False end.
Proof. vm_compute. repeat split. Qed.
(* a dac3 payload of two bytes is accepted (the bit reader's error is not looked at) and written back with three *)
Lemma dac3_short_refuted : refutes w_dac3_short [(n_dac3, RSizeSmall); (n_dac3, RGuard)].
Proof. refute w_dac3_short. Qed.
(* the reserved bit beside BSID of a dec3 substream is dropped and written as 0 *)
Lemma dec3_rsv_refuted : refutes w_dec3_rsv [(n_dec3, RGuard)].
Proof. refute w_dec3_rsv. Qed.
