(* C01Witness3.v — witnesses of the defect classes the model exposes (one per reason of why_box that the
   check lists as a known finding), replayed on the Go code by the search. *)
From V.lib Require Import Base.
From V.c01 Require Import C01Codec C01Model C01Witness.

(* w is accepted (rest: the bytes of w the decoder leaves unread), the Go encoders write something else, and the model's reasons are exactly rs *)
Definition refutes (w : list N) (rs : list (list N * reason)) : Prop :=
  exists t rest enc, decode w = Ok (t, rest) /\ raw_box false t = Ok enc /\ enc ++ rest <> w /\ why_box t = rs.
Definition rest_of (w : list N) : list N := match decode w with Ok (_, r) => r | _ => [] end.
Definition enc_of (w : list N) : list N := match raw_box false (treeof w) with Ok e => e | _ => [] end.
Ltac refute w := exists (treeof w), (rest_of w), (enc_of w); vm_compute; repeat split; first [discriminate | let H := fresh in intro H; inversion H].


Definition vis_prefix (pad depth : list N) : list N :=
  zeros 6 ++ [0;1] ++ zeros 16 ++ [5;0; 2;208] ++ [0;72;0;0; 0;72;0;0] ++ zeros 4 ++ [0;1] ++ [2; 97; 98] ++ pad ++ depth ++ [255;255].

(* the 29 bytes after the compressor name are zeroed *)
Definition w_vis_pad : list N := enc_hdr n_avc1 86 ++ vis_prefix (7 :: zeros 28) [0;24].
Lemma vis_pad_refuted : refutes w_vis_pad [(n_avc1, RRsv false 3)].
Proof. refute w_vis_pad. Qed.

(* depth is rewritten as 0x0018 *)
Definition w_vis_depth : list N := enc_hdr n_hvc1 86 ++ vis_prefix (zeros 29) [0;32].
Lemma vis_depth_refuted : refutes w_vis_depth [(n_hvc1, RRsv false 4)].
Proof. refute w_vis_depth. Qed.

(* the 16 fraction bits of the AudioSampleEntry sample rate are dropped *)
Definition w_audio_frac : list N :=
  enc_hdr n_mp4a 36 ++ zeros 6 ++ [0;1] ++ zeros 8 ++ [0;2; 0;16] ++ zeros 4 ++ [187;128; 0;1].
Lemma audio_frac_refuted : refutes w_audio_frac [(n_mp4a, RRsv false 3)].
Proof. refute w_audio_frac. Qed.

(* avcC: reserved bits that are not all ones are set; bytes after the record are dropped *)
Definition avcc_body (b4 b5 : N) : list N := [1; 66; 0; 31; b4; b5; 0;2; 103;66; 1; 0;1; 104].
Definition w_avcc_bits : list N := enc_hdr n_avcC 22 ++ avcc_body 3 1.
Lemma avcc_bits_refuted : refutes w_avcc_bits [(n_avcC, RRsv true 0); (n_avcC, RRsv true 1)].
Proof. refute w_avcc_bits. Qed.
Definition w_avcc_extra : list N := enc_hdr n_avcC 24 ++ avcc_body 255 225 ++ [9; 9].
Lemma avcc_extra_refuted : refutes w_avcc_extra [(n_avcC, RSizeBig); (n_avcC, RRsv false 5)].
Proof. refute w_avcc_extra. Qed.

(* colr nclx: the 7 reserved bits beside full_range_flag *)
Definition w_colr_bits : list N := enc_hdr n_colr 19 ++ n_nclx ++ [0;1; 0;1; 0;1; 129].
Lemma colr_bits_refuted : refutes w_colr_bits [(n_colr, RRsv true 0)].
Proof. refute w_colr_bits. Qed.

(* a url box whose location ends before the end of the box: the bytes after the terminator are dropped *)
Definition w_url_tail : list N := enc_hdr n_url 16 ++ [0;0;0;0] ++ [97; 0; 98; 99].
Lemma url_tail_refuted : refutes w_url_tail [(n_url, RSizeBig)].
Proof. refute w_url_tail. Qed.

(* senc with sample_count 0: Size() is the remembered box size and the data was not written back (20 announced, 16
   written; findings C01-K71 / K78, C02-K1 / K2 / K4); repaired by repo commit 954ff09: the data is written back *)
Definition w_senc_zero : list N := enc_hdr n_senc 20 ++ [0;0;0;0] ++ [0;0;0;0] ++ [1;2;3;4].
Lemma senc_zero_fixed : exists t rest enc,
  decode w_senc_zero = Ok (t, rest) /\ raw_box false t = Ok enc /\ enc ++ rest = w_senc_zero /\ why_box t = [].
Proof. exists (treeof w_senc_zero), (rest_of w_senc_zero), (enc_of w_senc_zero). vm_compute. repeat split. Qed.
(* finding C01-F5 (repaired by repo commit b8f1424): senc, large-size header, sub-sample flag, one sample, no data *)
Definition w_senc_large : list N := enc_hdr_large n_senc 24 ++ [0;0;0;2] ++ [0;0;0;1].
Lemma senc_large_fixed : decode w_senc_large = Err.
Proof. vm_compute. reflexivity. Qed.
(* elng with a short payload and no terminator: accepted (the read error is dropped), rewritten as the empty language *)
Definition w_elng_unterminated : list N := enc_hdr n_elng 11 ++ [97;98;99].
Lemma elng_unterminated_refuted : refutes w_elng_unterminated [(n_elng, RSizeBig); (n_elng, RRsv false 0)].
Proof. refute w_elng_unterminated. Qed.

(* finding C01-F4 (repaired by repo commit cc4ccf6): an stsd with a large-size header and no body is rejected *)
Definition w_stsd_nobody : list N := enc_hdr_large n_stsd 16.
Lemma stsd_nobody_fixed : decode w_stsd_nobody = Err.
Proof. vm_compute. reflexivity. Qed.

(* a complete stsd{avc1{avcC btrt}} + dref{url} pair for the non-vacuity of the MPre case *)
Definition ex_stsd_pre : mbox :=
  MPre h0 (LStsd 0 0 1) []
    [ MPre h0 (LVisual n_avc1 1 1280 720 4718592 4718592 1 [109;112;52;102;102])
        [zeros 6; zeros 16; zeros 4; zeros 26; [0;24]; [255;255]]
        [ MLeaf h0 (LAvcC 100 0 31 [[103;100;0;31]] [[104;238]] 1 0 0 0 false) [[63];[7];[63];[31];[31];[]];
          MLeaf h0 (LBtrt 1 2 3) [] ] ].
Definition ex_stsd_bytes : list N := Eval vm_compute in match raw_box false ex_stsd_pre with Ok b => b | _ => [] end.
Lemma ex_stsd_ok : exact_box (treeof ex_stsd_bytes) = true /\ why_box (treeof ex_stsd_bytes) = [] /\
  decode ex_stsd_bytes = Ok (treeof ex_stsd_bytes, []) /\ raw_box false (treeof ex_stsd_bytes) = Ok ex_stsd_bytes /\
  bytes_ok ex_stsd_bytes = true /\ lenN ex_stsd_bytes = 151.
Proof. vm_compute. repeat split. Qed.
