(* C01TreeProofs.v — header round trip and the tree theorem: every slice accepted by the model of
   DecodeBoxSR whose decoded tree is `exact` is reproduced byte for byte by the encoders when the captured
   reserved bytes are put back.  Parametric in the leaf table (leaf_table_ok). *)
From V.lib Require Import Base.
From V.c01 Require Import C01Codec C01Model C01LeafProofs C01TableProofs.

Lemma bytes_eqb_eq x y : bytes_eqb x y = true -> x = y.
Proof.
  revert y. induction x as [|a x IH]; intros [|b y] H; cbn [bytes_eqb] in H; try discriminate; [reflexivity|].
  apply andb_true_iff in H. destruct H as [H1 H2]. apply N.eqb_eq in H1. subst. f_equal. now apply IH.
Qed.

Lemma bytes_eqb_refl x : bytes_eqb x x = true.
Proof. induction x as [|a x IH]; [reflexivity|]. cbn [bytes_eqb]. now rewrite N.eqb_refl, IH. Qed.

Lemma lookup_in {A} n t (a : A) : lookup n t = Some a -> exists k, In (k, a) t /\ n = k.
Proof.
  induction t as [|[k a'] t IH]; cbn [lookup]; [discriminate|].
  destruct (bytes_eqb n k) eqn:E.
  - intros H. injection H as <-. exists k. split; [now left|now apply bytes_eqb_eq].
  - intros H. destruct (IH H) as (k' & Hin & Hk). exists k'. split; [now right|assumption].
Qed.

(* the dispatch of DecodeMetaSR: an entry found by pre_lookup is an entry of pre_table *)
Lemma pre_lookup_some h r x : pre_lookup h r = Some x -> lookup (h_name h) pre_table = Some x.
Proof. unfold pre_lookup. destruct (meta_qt h r); [discriminate|trivial]. Qed.

(* ---------------------------------------------------------------- header *)
Lemma dec_hdr_spec bs h r : bytes_ok bs = true -> dec_hdr bs = Ok (h, r) ->
  bytes_ok r = true /\ h_len h <= h_size h /\
  ((h_len h = 8 /\ bs = enc_hdr (h_name h) (h_size h) ++ r) \/
   (h_len h = 16 /\ bs = enc_hdr_large (h_name h) (h_size h) ++ r)).
Proof.
  intros Hok H. unfold dec_hdr in H. run H; inj_pret H; cbn [h_len h_size h_name].
  - split; [assumption|]. apply N.ltb_ge in Hc0. split; [assumption|]. right. split; [reflexivity|].
    apply N.eqb_eq in Hc. subst. unfold enc_hdr_large. repeat rewrite <- app_assoc. reflexivity.
  - split; [assumption|]. apply N.ltb_ge in Hc1. split; [assumption|]. left. split; [reflexivity|].
    unfold enc_hdr. repeat rewrite <- app_assoc. reflexivity.
Qed.

(* printing a compact header and reading it back *)
Lemma header_rt name sz r :
  lenN name = 4 -> 8 <= sz < 4294967296 ->
  dec_hdr (enc_hdr name sz ++ r) = Ok (mkHdr name sz 8, r).
Proof.
  intros Hn [Hlo Hhi]. unfold dec_hdr, enc_hdr, pbind. rewrite <- app_assoc.
  rewrite rd_enc by (change (256 ^ N.of_nat 4) with 4294967296; lia).
  rewrite <- Hn, rdB_app.
  replace (sz =? 1) with false by (symmetry; apply N.eqb_neq; lia).
  replace (sz =? 0) with false by (symmetry; apply N.eqb_neq; lia).
  replace (sz <? 8) with false by (symmetry; apply N.ltb_ge; lia).
  reflexivity.
Qed.

(* a large-size header decodes to the same (name, size) with header length 16 *)
Lemma header_large name sz r :
  lenN name = 4 -> 16 <= sz < 18446744073709551616 ->
  dec_hdr (enc_hdr_large name sz ++ r) = Ok (mkHdr name sz 16, r).
Proof.
  intros Hn [Hlo Hhi]. unfold dec_hdr, enc_hdr_large, pbind. repeat rewrite <- app_assoc.
  rewrite rd_enc by (change (256 ^ N.of_nat 4) with 4294967296; lia).
  rewrite <- Hn, rdB_app. cbn [N.eqb Pos.eqb].
  rewrite rd_enc by (change (256 ^ N.of_nat 8) with 18446744073709551616; lia).
  replace (sz <? 16) with false by (symmetry; apply N.ltb_ge; lia).
  reflexivity.
Qed.

(* ---------------------------------------------------------------- moov child order *)
Lemma moov_stable_id {A} (f : A -> bool) cs : forall acc,
  moov_stable_from f acc cs = true -> fold_left (moov_add f) cs acc = acc ++ cs.
Proof.
  induction cs as [|c t IH]; intros acc H; cbn [fold_left moov_stable_from] in *.
  - now rewrite app_nil_r.
  - apply andb_true_iff in H. destruct H as [H1 H2]. apply negb_true_iff in H1.
    unfold moov_add at 2. rewrite H1. rewrite (IH _ H2). now rewrite <- app_assoc.
Qed.

Section MapStable.
  Context {A B : Type} (fa : A -> bool) (g : A -> bool * B) (Hg : forall a, fst (g a) = fa a).

  Lemma last_trak_idx_map cs : forall i acc,
    last_trak_idx fst (map g cs) i acc = last_trak_idx fa cs i acc.
  Proof.
    induction cs as [|c t IH]; intros i acc; cbn [map last_trak_idx]; [reflexivity|].
    now rewrite Hg, IH.
  Qed.

  Lemma moov_cond_map acc c : moov_cond fst (map g acc) (g c) = moov_cond fa acc c.
  Proof. unfold moov_cond. now rewrite Hg, last_trak_idx_map, map_length. Qed.

  Lemma moov_stable_map cs : forall acc,
    moov_stable_from fst (map g acc) (map g cs) = moov_stable_from fa acc cs.
  Proof.
    induction cs as [|c t IH]; intros acc; cbn [map moov_stable_from]; [reflexivity|].
    rewrite moov_cond_map. f_equal. rewrite <- IH. now rewrite map_app.
  Qed.
End MapStable.

(* ---------------------------------------------------------------- the tree *)
Definition genc (keep : bool) (c : mbox) : bool * res (list N) := (is_trak_box c, raw_box keep c).
Definition cat_encs (l : list (bool * res (list N))) : res (list N) :=
  fold_right (fun e acc => rcat (snd e) acc) (Ok []) l.

Lemma raw_box_cont keep h cs :
  raw_box keep (MCont h cs) =
  (let encs := map (genc keep) cs in
   let encs' := if bytes_eqb (h_name h) n_moov then moov_order fst encs else encs in
   let all := rcat (Ok (enc_hdr (h_name h) (8 + sumN (map size_box cs)))) (cat_encs encs') in
   if bytes_eqb (h_name h) n_moof then
     match moof_pre cs with Ok _ => all | Err => Err | Panic => Panic | OutOfFuel => OutOfFuel end
   else all).
Proof. reflexivity. Qed.

Definition box_stmt (f : nat) : Prop :=
  forall bs t rest, bytes_ok bs = true -> decode_box f bs = Ok (t, rest) -> exact_box t = true ->
    exists enc, raw_box true t = Ok enc /\ bs = enc ++ rest /\ bytes_ok rest = true.

Definition children_stmt (f : nat) : Prop :=
  forall target pos used bs cs rest, bytes_ok bs = true ->
    decode_children f target pos used bs = Ok (cs, rest) -> forallb exact_box cs = true ->
    exists enc, cat_encs (map (genc true) cs) = Ok enc /\ bs = enc ++ rest /\ bytes_ok rest = true /\
                pos + sumN (map size_box cs) = target.

Definition entries_stmt (f : nat) : Prop :=
  forall target pos bs cs rest, bytes_ok bs = true ->
    decode_entries f target pos bs = Ok (cs, rest) -> forallb exact_box cs = true ->
    exists enc, cat_encs (map (genc true) cs) = Ok enc /\ bs = enc ++ rest /\ bytes_ok rest = true.

(* the children of an MPre box are written one after the other *)
Lemma pre_body_cat keep cs :
  fold_right (fun c acc => rcat (raw_box keep c) acc) (Ok []) cs = cat_encs (map (genc keep) cs).
Proof. induction cs as [|c t IH]; [reflexivity|]. cbn [fold_right map cat_encs genc snd]. now rewrite IH. Qed.

Lemma raw_box_pre keep h l r cs :
  raw_box keep (MPre h l r cs) =
  rcat (Ok (enc_hdr (leaf_name l) (size_leaf l + sumN (map size_box cs))))
       (rcat (body_leaf l (if keep then r else dflt_rsv l)) (cat_encs (map (genc keep) cs))).
Proof. cbn [raw_box]. now rewrite pre_body_cat. Qed.

Lemma box_step f : box_stmt f -> children_stmt f -> entries_stmt f -> box_stmt (S f).
Proof.
  intros IHb IHc IHe bs t rest Hok H Hex. cbn [decode_box] in H.
  destruct (dec_hdr bs) as [[h r]| | |] eqn:Eh; try discriminate.
  destruct (dec_hdr_spec _ _ _ Hok Eh) as (Hokr & Hle & Hshape).
  destruct ((lenN r + h_len h <? h_size h) && negb (bytes_eqb (h_name h) n_mdat)); [discriminate|].
  destruct (lookup (h_name h) leaf_table) as [d|] eqn:El.
  - (* leaf *)
    destruct (d h r) as [[[l rsv] r']| | |] eqn:Ed; try discriminate.
    injection H as <- <-.
    destruct (lookup_in _ _ _ El) as (k & Hin & Hk).
    pose proof (proj1 (Forall_forall _ _) leaf_table_ok _ Hin) as [Hloss Hname]. cbn [fst snd] in *.
    specialize (Hname _ _ _ _ _ Hk Ed).
    cbn [exact_box] in Hex. apply andb_true_iff in Hex. destruct Hex as [Hh Hg].
    destruct (Hloss _ _ _ _ _ Hokr Ed Hg) as (b & Hb & -> & Hokr').
    cbn [raw_box]. unfold raw_leaf. rewrite Hb. unfold leaf_hdr. rewrite Hname, <- Hk.
    destruct (leaf_large l).
    + apply andb_true_iff in Hh. destruct Hh as [H1 H2]. apply N.eqb_eq in H1, H2.
      destruct Hshape as [[Hl _]|[_ ->]]; [lia|]. rewrite H2.
      eexists; split; [reflexivity|]. split; [|assumption]. now rewrite <- app_assoc.
    + unfold hdr_exact in Hh. apply andb_true_iff in Hh. destruct Hh as [H1 H2]. apply N.eqb_eq in H1, H2.
      destruct Hshape as [[_ ->]|[Hl _]]; [|lia]. rewrite H2.
      eexists; split; [reflexivity|]. split; [|assumption]. now rewrite <- app_assoc.
  - destruct (pre_lookup h r) as [[d lk]|] eqn:Epre0.
    { (* prefixed box: stsd, dref, sample entries, ISO meta *)
      pose proof (pre_lookup_some _ _ _ Epre0) as Epre.
      destruct (d h r) as [[[l rsv] r1]| | |] eqn:Ed; try discriminate.
      destruct (lookup_in _ _ _ Epre) as (k & Hin & Hk).
      pose proof (proj1 (Forall_forall _ _) pre_table_ok _ Hin) as [Hloss Hname]. cbn [fst snd] in *.
      specialize (Hname _ _ _ _ _ Hk Ed).
      assert (Hgoal : forall cs r', exact_box (MPre h l rsv cs) = true ->
                (bytes_ok r1 = true -> forallb exact_box cs = true ->
                 exists enc, cat_encs (map (genc true) cs) = Ok enc /\ r1 = enc ++ r' /\ bytes_ok r' = true) ->
                exists enc, raw_box true (MPre h l rsv cs) = Ok enc /\ bs = enc ++ r' /\ bytes_ok r' = true).
      { intros cs r' Hex' Hkids. cbn [exact_box] in Hex'.
        apply andb_true_iff in Hex'. destruct Hex' as [Hex' Hcs].
        apply andb_true_iff in Hex'. destruct Hex' as [Hh Hg].
        unfold hdr_exact in Hh. apply andb_true_iff in Hh. destruct Hh as [H1 H2]. apply N.eqb_eq in H1, H2.
        destruct (Hloss _ _ _ _ _ Hokr Ed Hg) as (b & Hb & Hr & Hokr1).
        destruct (Hkids Hokr1 Hcs) as (enc & Henc & Hr1 & Hokr').
        rewrite raw_box_pre, Hb, Henc. cbn [rcat]. rewrite Hname, <- Hk, <- H2.
        destruct Hshape as [[_ ->]|[Hl _]]; [|lia].
        eexists; split; [reflexivity|]. split; [|assumption]. rewrite Hr, Hr1. now rewrite <- !app_assoc. }
      destruct lk as [off|start].
      - destruct (h_size h <? off); [discriminate|].
        destruct (decode_children f (h_size h - off) 0 0 r1) as [[cs r']| | |] eqn:Ec; try discriminate.
        destruct (pre_count_ok l (lenN cs)); [|discriminate]. injection H as <- <-.
        apply Hgoal; [assumption|]. intros Hokr1 Hcs.
        destruct (IHc _ _ _ _ _ _ Hokr1 Ec Hcs) as (enc & Henc & Hr1 & Hokr' & _). now exists enc.
      - destruct (decode_entries f (h_size h) start r1) as [[cs r']| | |] eqn:Ec; try discriminate.
        injection H as <- <-.
        apply Hgoal; [assumption|]. intros Hokr1 Hcs.
        destruct (IHe _ _ _ _ _ Hokr1 Ec Hcs) as (enc & Henc & Hr1 & Hokr'). now exists enc. }
    destruct (cont_like h r).
    + (* container *)
      destruct (decode_children f (h_size h - 8) 0 0 r) as [[cs r']| | |] eqn:Ec; try discriminate.
      destruct (bytes_eqb (h_name h) n_edts && negb (edts_ok cs)); [discriminate|].
      injection H as <- <-.
      cbn [exact_box] in Hex.
      apply andb_true_iff in Hex. destruct Hex as [Hex Hmoof].
      apply andb_true_iff in Hex. destruct Hex as [Hex Hmoov].
      apply andb_true_iff in Hex. destruct Hex as [Hlen Hcs]. apply N.eqb_eq in Hlen.
      destruct (IHc _ _ _ _ _ _ Hokr Ec Hcs) as (enc & Henc & -> & Hokr' & Hsum).
      destruct Hshape as [[_ ->]|[Hl _]]; [|lia].
      rewrite raw_box_cont. cbv zeta.
      assert (Hord : (if bytes_eqb (h_name h) n_moov then moov_order fst (map (genc true) cs) else map (genc true) cs)
                     = map (genc true) cs).
      { destruct (bytes_eqb (h_name h) n_moov); [|reflexivity]. cbn [negb orb] in Hmoov.
        unfold moov_order. rewrite moov_stable_id; [reflexivity|].
        change (@nil (bool * res (list N))) with (map (genc true) []).
        rewrite (moov_stable_map is_trak_box (genc true)); [assumption|reflexivity]. }
      rewrite Hord, Henc. cbn [rcat].
      replace (8 + sumN (map size_box cs)) with (h_size h) by lia.
      assert (Hres : exists enc0, Ok (enc_hdr (h_name h) (h_size h) ++ enc) = Ok enc0 /\
                (enc_hdr (h_name h) (h_size h) ++ enc ++ r') = enc0 ++ r' /\ bytes_ok r' = true).
      { eexists; split; [reflexivity|]. split; [now rewrite <- app_assoc|assumption]. }
      destruct (bytes_eqb (h_name h) n_moof); [|exact Hres].
      cbn [negb orb] in Hmoof. destruct (moof_pre cs); try discriminate. exact Hres.
    + (* unknown *)
      destruct (rdB (payload_len h) r) as [[p r']| | |] eqn:Ep; try discriminate.
      injection H as <- <-.
      destruct (rdB_spec _ _ _ _ Hokr Ep) as (-> & _ & _ & Hokr').
      cbn [raw_box].
      destruct Hshape as [[Hl ->]|[Hl ->]]; rewrite Hl; cbn [N.ltb N.compare Pos.compare Pos.compare_cont];
        (eexists; split; [reflexivity|]; split; [|assumption]; now rewrite <- app_assoc).
Qed.

Lemma children_step f : box_stmt f -> children_stmt f -> children_stmt (S f).
Proof.
  intros IHb IHc target pos used bs cs rest Hok H Hex. cbn [decode_children] in H.
  destruct (target <? pos); [discriminate|].
  destruct (pos =? target) eqn:Ept.
  - injection H as <- <-. apply N.eqb_eq in Ept. exists []. cbn. repeat split; try assumption. lia.
  - destruct (decode_box f bs) as [[c r]| | |] eqn:Eb; try discriminate.
    destruct (negb (pos + size_box c =? used + (lenN bs - lenN r))); [discriminate|].
    destruct (decode_children f target (pos + size_box c) (used + (lenN bs - lenN r)) r) as [[cs' r']| | |] eqn:Ec;
      try discriminate.
    injection H as <- <-. cbn [forallb] in Hex. apply andb_true_iff in Hex. destruct Hex as [Hc Hcs].
    destruct (IHb _ _ _ Hok Eb Hc) as (e1 & He1 & -> & Hokr).
    destruct (IHc _ _ _ _ _ _ Hokr Ec Hcs) as (e2 & He2 & -> & Hokr' & Hsum).
    exists (e1 ++ e2). cbn [map cat_encs fold_right genc snd]. fold (cat_encs (map (genc true) cs')).
    rewrite He1, He2. cbn [rcat]. repeat split; try assumption.
    + now rewrite <- app_assoc.
    + cbn [sumN]. lia.
Qed.

Lemma entries_step f : box_stmt f -> entries_stmt f -> entries_stmt (S f).
Proof.
  intros IHb IHe target pos bs cs rest Hok H Hex. cbn [decode_entries] in H.
  destruct (target <=? pos).
  - injection H as <- <-. exists []. cbn. now repeat split.
  - destruct (decode_box f bs) as [[c r]| | |] eqn:Eb; try discriminate.
    destruct (decode_entries f target (pos + size_box c) r) as [[cs' r']| | |] eqn:Ec; try discriminate.
    injection H as <- <-. cbn [forallb] in Hex. apply andb_true_iff in Hex. destruct Hex as [Hc Hcs].
    destruct (IHb _ _ _ Hok Eb Hc) as (e1 & He1 & -> & Hokr).
    destruct (IHe _ _ _ _ _ Hokr Ec Hcs) as (e2 & He2 & -> & Hokr').
    exists (e1 ++ e2). cbn [map cat_encs fold_right genc snd]. fold (cat_encs (map (genc true) cs')).
    rewrite He1, He2. cbn [rcat]. repeat split; try assumption. now rewrite <- app_assoc.
Qed.

Lemma tree_both f : box_stmt f /\ children_stmt f /\ entries_stmt f.
Proof.
  induction f as [|f (IHb & IHc & IHe)].
  - repeat split; intros until 1; cbn; discriminate.
  - repeat split; [now apply box_step|now apply children_step|now apply entries_step].
Qed.

Lemma tree_lossless bs t rest :
  bytes_ok bs = true -> decode bs = Ok (t, rest) -> exact_box t = true ->
  exists enc, raw_box true t = Ok enc /\ bs = enc ++ rest.
Proof.
  intros Hok H Hex. unfold decode in H.
  destruct (proj1 (tree_both _) _ _ _ Hok H Hex) as (enc & He & Hb & _). now exists enc.
Qed.
