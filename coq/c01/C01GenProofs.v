(* C01GenProofs.v -- the last sentence of the property for inputs that are NOT reproduced (inexact trees: trailing body bytes
   dropped, large-size header compacted, trak re-ordered, header size ignored ...): whatever the first generation lost, as soon as
   the encoders' output enc is accepted again completely and the model has no reason left (gen2_ok enc, a boolean the driver
   evaluates on the bytes Go produced), enc IS a fixed point on every API path: the second decode yields an exact tree t2 that is
   its own normal form, Box.Encode / Box.EncodeSW / the raw encoder give enc again, Size() is its length. *)
From V.lib Require Import Base.
From V.c01 Require Import C01Codec C01Model C01WhyProofs C01FixProofs C01GenModel.

Lemma encode_w_raw t enc : encode_w t = Ok enc -> raw_box false t = Ok enc.
Proof. unfold encode_w. destruct (raw_box false t); try discriminate. destruct (enc_fits t && caps_ok t); [trivial|discriminate]. Qed.

Lemma gen2_ok_inv enc : gen2_ok enc = true ->
  bytes_ok enc = true /\ exists t2, decode enc = Ok (t2, []) /\ why_box t2 = [].
Proof.
  unfold gen2_ok, gen2. destruct (bytes_ok enc); [|discriminate]. intros H. split; [reflexivity|].
  destruct (decode enc) as [[t2 r]| | |]; try discriminate. destruct r; [|discriminate].
  exists t2. split; [reflexivity|]. destruct (why_box t2); [reflexivity|discriminate].
Qed.

Lemma generation2 bs t rest enc : decode bs = Ok (t, rest) -> encode_w t = Ok enc -> gen2_ok enc = true ->
  raw_box false t = Ok enc /\
  exists t2, decode enc = Ok (t2, []) /\ exact_box t2 = true /\ norm_box t2 = t2 /\
    raw_box false t2 = Ok enc /\ encode_w t2 = Ok enc /\ encode_sw t2 = Ok enc /\ size_box t2 = lenN enc.
Proof.
  intros _ Hw Hg. split; [exact (encode_w_raw _ _ Hw)|].
  destruct (gen2_ok_inv _ Hg) as (Hok & t2 & Hd & Hy). exists t2.
  destruct (why_nil _ Hy) as [Hex _].
  destruct (fixpoint_partial _ _ Hok Hd Hy) as (e1 & Hr1 & _ & _ & ->).
  destruct (fixpoint_full _ _ Hok Hd Hex) as (e2 & Hr2 & Hw2 & Hs2 & _ & Hsz & Hd2 & _).
  assert (e2 = enc) by (rewrite Hr1 in Hr2; now injection Hr2). subst e2.
  rewrite Hd in Hd2. injection Hd2 as Hn.
  repeat split; try assumption; now symmetry.
Qed.
