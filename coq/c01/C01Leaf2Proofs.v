(* C01Leaf2Proofs.v — losslessness of the stage-2 leaf kinds (same shared tactic as C01LeafProofs). *)
From V.lib Require Import Base.
From V.c01 Require Import C01Codec C01Model C01LeafProofs.

Lemma item_rd w bs a r : bytes_ok bs = true -> rd w bs = Ok (a, r) -> bs = be_enc w a ++ r /\ bytes_ok r = true.
Proof. intros Hok H. destruct (rd_spec _ _ _ _ Hok H) as (-> & _ & Hr). now split. Qed.

Lemma item_rdB n bs a r : bytes_ok bs = true -> rdB n bs = Ok (a, r) -> bs = (fun k : list N => k) a ++ r /\ bytes_ok r = true.
Proof. intros Hok H. destruct (rdB_spec _ _ _ _ Hok H) as (-> & _ & _ & Hr). now split. Qed.

Lemma item_triple bs a r : bytes_ok bs = true -> rd_triple bs = Ok (a, r) -> bs = wr_triple a ++ r /\ bytes_ok r = true.
Proof.
  intros Hok H. unfold rd_triple in H. run H. inj_pret H. split; [|assumption].
  unfold wr_triple. cbn [fst snd]. repeat rewrite <- app_assoc. reflexivity.
Qed.

Lemma item_elst w bs a r : bytes_ok bs = true -> rd_elst w bs = Ok (a, r) -> bs = wr_elst w a ++ r /\ bytes_ok r = true.
Proof.
  intros Hok H. unfold rd_elst in H. run H. inj_pret H. split; [|assumption].
  unfold wr_elst. repeat rewrite <- app_assoc. reflexivity.
Qed.

Lemma item_tfra w a b c bs e r : bytes_ok bs = true -> rd_tfra w a b c bs = Ok (e, r) ->
  bs = wr_tfra w a b c e ++ r /\ bytes_ok r = true.
Proof.
  intros Hok H. unfold rd_tfra in H. run H. inj_pret H. split; [|assumption].
  unfold wr_tfra. repeat rewrite <- app_assoc. reflexivity.
Qed.

Ltac tail_many H lem :=
  let es := fresh "es" in let r9 := fresh "r" in let E := fresh "E" in
  apply pbind_ok in H; destruct H as (es & r9 & E & H); cbv beta zeta in H; many E lem.

Ltac close_with Hl :=
  eexists; split; [reflexivity|]; split; [|assumption];
  rewrite ?vf_join_split by assumption; rewrite ?Hl; unfold wr_if; rew_conds;
  repeat rewrite <- app_assoc; cbn [app]; reflexivity.

(* ---------------------------------------------------------------- simple tables *)
Lemma lossless_tab w : leaf_lossless (dec_tab w).
Proof.
  intros h r l rsv r' Hok H G. unfold dec_tab in H. run H. tail_many H (item_rd w). inj_pret H.
  cbn [body_leaf]. close_with Hl.
Qed.

Lemma lossless_sdtp : leaf_lossless dec_sdtp.
Proof. intros h r l rsv r' Hok H G. unfold dec_sdtp in H. run H. inj_pret H. finish_lossless. Qed.

Lemma lossless_elst : leaf_lossless dec_elst.
Proof.
  intros h r l rsv r' Hok H G. unfold dec_elst in H. run H.
  tail_many H (item_elst (if vf_version a =? 1 then 8%nat else 4%nat)). inj_pret H.
  cbn [body_leaf]. close_with Hl.
Qed.

Lemma lossless_saio : leaf_lossless dec_saio.
Proof.
  intros h r l rsv r' Hok H G. unfold dec_saio, rdB_if in H. run H;
  (tail_many H (item_rd (if vf_version a =? 0 then 4%nat else 8%nat)); inj_pret H;
   cbn [body_leaf]; close_with Hl).
Qed.

Lemma lossless_sbgp : leaf_lossless dec_sbgp.
Proof.
  intros h r l rsv r' Hok H G. unfold dec_sbgp in H. run H; (tail_many H item_pair; inj_pret H; cbn [body_leaf]; close_with Hl).
Qed.

Lemma lossless_prft : leaf_lossless dec_prft.
Proof. intros h r l rsv r' Hok H G. unfold dec_prft in H. run H; inj_pret H; finish_lossless. Qed.

Lemma lossless_frma : leaf_lossless dec_frma.
Proof. intros h r l rsv r' Hok H G. unfold dec_frma in H. run H. inj_pret H. finish_lossless. Qed.

Lemma lossless_vmhd : leaf_lossless dec_vmhd.
Proof. intros h r l rsv r' Hok H G. unfold dec_vmhd in H. run H. inj_pret H. finish_lossless. Qed.

Lemma lossless_smhd : leaf_lossless dec_smhd.
Proof. intros h r l rsv r' Hok H G. unfold dec_smhd in H. run H. inj_pret H. finish_lossless. Qed.

Lemma lossless_fullonly : leaf_lossless dec_fullonly.
Proof. intros h r l rsv r' Hok H G. unfold dec_fullonly in H. run H. inj_pret H. finish_lossless. Qed.

Lemma lossless_mfro : leaf_lossless dec_mfro.
Proof. intros h r l rsv r' Hok H G. unfold dec_mfro in H. run H. inj_pret H. finish_lossless. Qed.

Lemma lossless_mehd : leaf_lossless dec_mehd.
Proof. intros h r l rsv r' Hok H G. unfold dec_mehd in H. run H; inj_pret H; finish_lossless. Qed.

(* ---------------------------------------------------------------- stsz *)
Lemma lenN_0_nil {A} (l : list A) : lenN l = 0 -> l = [].
Proof. destruct l; [reflexivity|]. rewrite lenN_cons. lia. Qed.

Lemma lossless_stsz : leaf_lossless dec_stsz.
Proof.
  intros h r l rsv r' Hok H G. unfold dec_stsz in H. run H.
  - tail_many H (item_rd 4). inj_pret H. cbn [body_leaf].
    eexists; split; [reflexivity|]; split; [|assumption].
    rewrite vf_join_split by assumption.
    destruct (lenN es =? 0) eqn:E0.
    + apply N.eqb_eq in E0. rewrite (lenN_0_nil _ E0). cbn [flat_map app].
      repeat rewrite <- app_assoc. reflexivity.
    + repeat rewrite <- app_assoc. reflexivity.
  - inj_pret H. cbn [body_leaf]. change (lenN (@nil N) =? 0) with true. cbv iota.
    eexists; split; [reflexivity|]; split; [|assumption].
    rewrite vf_join_split by assumption. repeat rewrite <- app_assoc. reflexivity.
Qed.

(* ---------------------------------------------------------------- saiz *)
Lemma firstn_lenN {A} (l : list A) : firstn (N.to_nat (lenN l)) l = l.
Proof. unfold lenN. rewrite Nat2N.id. apply firstn_all. Qed.

Ltac saiz_many H :=
  tail_many H (item_rd 1); inj_pret H; cbn [body_leaf];
  rewrite N.ltb_irrefl, andb_false_r, firstn_lenN; rew_conds;
  eexists; split; [reflexivity|]; split; [|assumption];
  rewrite vf_join_split by assumption; repeat rewrite <- app_assoc; cbn [app]; reflexivity.
Ltac saiz_none H :=
  inj_pret H; cbn [body_leaf]; rew_conds; cbn [andb];
  eexists; split; [reflexivity|]; split; [|assumption];
  rewrite vf_join_split by assumption; repeat rewrite <- app_assoc; cbn [app]; reflexivity.

Lemma lossless_saiz : leaf_lossless dec_saiz.
Proof.
  intros h r l rsv r' Hok H G. unfold dec_saiz, rdB_if in H. run H.
  - saiz_many H.
  - saiz_none H.
  - saiz_many H.
  - saiz_none H.
Qed.

(* ---------------------------------------------------------------- tenc *)
Lemma join_nibbles b : b < 256 ^ N.of_nat 1 -> N.lor (u8 (b / 16 * 16)) (b mod 16) = b.
Proof.
  intros H. change (256 ^ N.of_nat 1) with 256 in H. unfold u8. rewrite N.mod_small by lia.
  change 16 with (2 ^ 4). rewrite lor_shifted_add by (apply N.mod_lt; discriminate).
  change (2 ^ 4) with 16. lia.
Qed.

Lemma lossless_tenc : leaf_lossless dec_tenc.
Proof.
  intros h r l rsv r' Hok H G. unfold dec_tenc, rdB_if in H. run H; inj_pret H;
  cbn [body_leaf chunk nth]; cbn [negb] in *; try congruence; rew_conds;
  (eexists; split; [reflexivity|]; split; [|assumption];
   rewrite ?vf_join_split by assumption; rewrite ?join_nibbles by assumption; rewrite ?Hlen3;
   repeat rewrite <- app_assoc; cbn [app]; reflexivity).
Qed.

(* ---------------------------------------------------------------- ctts *)
Lemma be_enc4_u32 x : be_enc 4 (u32 x) = be_enc 4 x.
Proof. unfold u32. change 4294967296 with (256 ^ N.of_nat 4). apply be_enc_mod. Qed.

Lemma wr_ctts_cons e0 e1 et o ot :
  wr_ctts (e0 :: e1 :: et) (o :: ot) = be_enc 4 (u32 (e1 + 4294967296 - e0)) ++ be_enc 4 o ++ wr_ctts (e1 :: et) ot.
Proof. reflexivity. Qed.

Lemma wr_ctts_spec es : forall acc, acc < 4294967296 ->
  wr_ctts (acc :: ctts_ends acc es) (map snd es) = flat_map wr_pair es.
Proof.
  induction es as [|[c o] t IH]; intros acc Ha; [reflexivity|].
  cbn [ctts_ends map snd flat_map]. cbv zeta. rewrite wr_ctts_cons. unfold wr_pair at 1. cbn [fst snd].
  rewrite IH by (unfold u32; lia). rewrite be_enc4_u32.
  rewrite <- (be_enc_mod 4 (u32 (acc + c) + 4294967296 - acc)), <- (be_enc_mod 4 c).
  change (256 ^ N.of_nat 4) with 4294967296.
  replace ((u32 (acc + c) + 4294967296 - acc) mod 4294967296) with (c mod 4294967296) by (unfold u32; lia).
  now rewrite <- app_assoc.
Qed.

Lemma length_ctts_ends acc es : length (ctts_ends acc es) = length es.
Proof. revert acc. induction es as [|[c o] t IH]; intros acc; cbn [ctts_ends length]; [reflexivity|]. now rewrite IH. Qed.

Lemma lossless_ctts : leaf_lossless dec_ctts.
Proof.
  intros h r l rsv r' Hok H G. unfold dec_ctts in H. run H. tail_many H item_pair. inj_pret H.
  cbn [body_leaf].
  assert (Hlen : lenN (0 :: ctts_ends 0 es) =? 1 + lenN (map snd es) = true).
  { apply N.eqb_eq. rewrite lenN_cons. unfold lenN. now rewrite length_ctts_ends, map_length. }
  rewrite Hlen. cbn [negb]. rewrite wr_ctts_spec by lia.
  eexists; split; [reflexivity|]; split; [|assumption].
  rewrite vf_join_split by assumption.
  replace (lenN (map snd es)) with (lenN es) by (unfold lenN; now rewrite map_length).
  repeat rewrite <- app_assoc. reflexivity.
Qed.

(* ---------------------------------------------------------------- tfra *)
Lemma lossless_tfra : leaf_lossless dec_tfra.
Proof.
  intros h r l rsv r' Hok H G. unfold dec_tfra in H. run H.
  tail_many H (item_tfra (tfra_w (vf_version a)) (tfra_n ((a1 / 16) mod 4)) (tfra_n ((a1 / 4) mod 4)) (tfra_n (a1 mod 4))).
  inj_pret H. cbn [body_leaf chunk nth hd].
  eexists; split; [reflexivity|]; split; [|assumption].
  rewrite vf_join_split by assumption.
  replace (a1 / 64 * 64 + u8 ((a1 / 16) mod 4 * 16 + (a1 / 4) mod 4 * 4 + a1 mod 4)) with a1
    by (unfold u8; lia).
  repeat rewrite <- app_assoc. reflexivity.
Qed.

(* ---------------------------------------------------------------- pssh *)
Lemma lossless_pssh : leaf_lossless dec_pssh.
Proof.
  intros h r l rsv r' Hok H G. unfold dec_pssh in H. run H;
  (tail_many H (item_rdB 16); run H; inj_pret H; cbn [body_leaf]; rew_conds;
   eexists; split; [reflexivity|]; split; [|assumption];
   rewrite vf_join_split by assumption; rewrite ?Hl; rewrite ?Hlen0, ?Hlen1;
   repeat rewrite <- app_assoc; cbn [app]; try reflexivity).
  (* version 0: no KID list is read, so the (empty) list is printed as nothing *)
  all: match goal with Hk : lenN ?k = 0 |- _ => rewrite (lenN_0_nil _ Hk) end; reflexivity.
Qed.

(* ---------------------------------------------------------------- stsc *)
Definition stsc_inv (p : list N) (single : N) (ids : list N) : Prop :=
  (single <> 0 /\ p = repeat single (length p)) \/ (single = 0 /\ ids = p).

Lemma repeat_snoc {A} (x : A) n : repeat x n ++ [x] = repeat x (S n).
Proof. induction n as [|n IH]; [reflexivity|]. cbn [repeat app]. now rewrite IH. Qed.

Lemma stsc_ids_spec sdis : forall p single ids s' ids',
  p <> [] -> stsc_inv p single ids ->
  stsc_ids (length p) single ids sdis = Some (s', ids') -> stsc_inv (p ++ sdis) s' ids'.
Proof.
  induction sdis as [|sdi t IH]; intros p single ids s' ids' Hp Hinv H; cbn [stsc_ids] in H.
  - injection H as <- <-. now rewrite app_nil_r.
  - destruct (sdi =? 0) eqn:E0; [discriminate|]. apply N.eqb_neq in E0.
    destruct (length p) as [|i] eqn:Elen; [destruct p; [congruence|discriminate]|].
    replace (p ++ sdi :: t) with ((p ++ [sdi]) ++ t) by now rewrite <- app_assoc.
    assert (Hl1 : length (p ++ [sdi]) = S (S i)) by (rewrite app_length, Elen; cbn; lia).
    assert (Hne : p ++ [sdi] <> []) by (destruct p; discriminate).
    destruct (sdi =? single) eqn:Es; cbn [negb] in H.
    + apply N.eqb_eq in Es. subst sdi.
      destruct (single =? 0) eqn:Ez; [apply N.eqb_eq in Ez; congruence|].
      rewrite <- Hl1 in H. apply (IH _ _ _ _ _ Hne) in H; [exact H|].
      left. destruct Hinv as [[_ Hrep]|[Hz _]]; [|congruence]. split; [assumption|].
      rewrite Hl1. rewrite Hrep at 1. rewrite Elen. apply repeat_snoc.
    + apply N.eqb_neq in Es. destruct (single =? 0) eqn:Ez; cbn [negb] in H.
      * apply N.eqb_eq in Ez. rewrite <- Hl1 in H. apply (IH _ _ _ _ _ Hne) in H; [exact H|].
        right. destruct Hinv as [[Hnz _]|[_ Hids]]; [congruence|]. split; [assumption|]. now subst.
      * rewrite <- Hl1 in H. apply (IH _ _ _ _ _ Hne) in H; [exact H|].
        right. split; [reflexivity|]. destruct Hinv as [[_ Hrep]|[Hz _]]; [|apply N.eqb_neq in Ez; congruence].
        f_equal. rewrite Hrep, Elen. reflexivity.
Qed.

Lemma wr_stsc_single es single : single <> 0 -> forall ids,
  map snd es = repeat single (length es) -> wr_stsc (map fst es) single ids = flat_map wr_triple es.
Proof.
  intros Hs. induction es as [|[[a b] c] t IH]; intros ids H; [reflexivity|].
  cbn [map fst snd length repeat] in H. injection H as -> Ht.
  cbn [map fst wr_stsc flat_map]. unfold wr_triple at 1. cbn [fst snd].
  replace (single =? 0) with false by (symmetry; now apply N.eqb_neq). cbn [negb].
  rewrite (IH _ Ht). now rewrite <- !app_assoc.
Qed.

Lemma wr_stsc_ids es : wr_stsc (map fst es) 0 (map snd es) = flat_map wr_triple es.
Proof.
  induction es as [|[[a b] c] t IH]; [reflexivity|].
  cbn [map fst snd wr_stsc flat_map hd tl N.eqb negb]. unfold wr_triple at 1. cbn [fst snd].
  rewrite IH. now rewrite <- !app_assoc.
Qed.

Lemma stsc_first sdis s' ids' : stsc_ids 0 0 [] sdis = Some (s', ids') ->
  sdis = [] /\ s' = 0 /\ ids' = [] \/ stsc_inv sdis s' ids'.
Proof.
  destruct sdis as [|sdi t]; cbn [stsc_ids]; intros H.
  - injection H as <- <-. now left.
  - right. destruct (sdi =? 0) eqn:E0; [discriminate|]. apply N.eqb_neq in E0.
    change 1%nat with (length [sdi]) in H.
    apply (stsc_ids_spec t [sdi] sdi [] s' ids') in H; [exact H|discriminate|].
    left. now split.
Qed.

Lemma lossless_stsc : leaf_lossless dec_stsc.
Proof.
  intros h r l rsv r' Hok H G. unfold dec_stsc in H. run H. tail_many H item_triple.
  destruct (stsc_ids 0 0 [] (map snd es)) as [[single ids]|] eqn:Eids; [|discriminate H].
  inj_pret H. cbn [body_leaf].
  assert (Hw : wr_stsc (map fst es) single ids = flat_map wr_triple es /\
               ((single =? 0) && (lenN ids <? lenN (map fst es)) = false)).
  { destruct (stsc_first _ _ _ Eids) as [(He & -> & ->)|[[Hs Hrep]|[-> ->]]].
    - destruct es; [|discriminate]. now split.
    - split; [apply wr_stsc_single; [assumption|now rewrite map_length in Hrep]|].
      replace (single =? 0) with false by (symmetry; now apply N.eqb_neq). reflexivity.
    - split; [apply wr_stsc_ids|]. unfold lenN. rewrite !map_length. now rewrite N.ltb_irrefl, andb_false_r. }
  destruct Hw as [Hw Hp]. rewrite Hp, Hw.
  eexists; split; [reflexivity|]; split; [|assumption].
  rewrite vf_join_split by assumption.
  replace (lenN (map fst es)) with (lenN es) by (unfold lenN; now rewrite map_length).
  repeat rewrite <- app_assoc. reflexivity.
Qed.
