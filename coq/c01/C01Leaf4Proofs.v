(* C01Leaf4Proofs.v — losslessness of senc (raw form), emsg, elng, kind. *)
From V.lib Require Import Base.
From V.c01 Require Import C01Codec C01Model C01LeafProofs C01Leaf2Proofs C01Leaf3Proofs.

Ltac zstep H :=
  let s := fresh "s" in let r := fresh "r" in let E := fresh "E" in let Hr := fresh "Hokz" in
  apply pbind_ok in H; destruct H as (s & r & E & H); unfold rd_zt in E; cbv beta zeta in H;
  match type of E with zt ?x _ = _ => match goal with Hk : bytes_ok x = true |- _ =>
    destruct (zt_spec _ _ _ _ Hk E) as (-> & Hr & _ & _); clear E end end.

Lemma lossless_senc : leaf_lossless dec_senc.
Proof.
  intros h r l rsv r' Hok H G. unfold dec_senc in H. run H. inj_pret H. cbn [body_leaf leaf_guard] in *.
  assert (Hv : vf_join 0 (vf_flags a) = a).
  { rewrite <- (vf_join_split a) at 2 by assumption. apply N.ltb_ge in Hc0.
    replace (vf_version a) with 0 by lia. reflexivity. }
  rewrite Hv.
  destruct ((a0 =? 0) || (lenN a1 =? 0)) eqn:E1; cbn [negb andb orb] in *.
  - assert (Hp : has (vf_flags a) 2 && (0 <? a0) = false).
    { destruct (has (vf_flags a) 2); [|reflexivity]. cbn [andb] in *. apply N.ltb_ge in Hc2. apply N.ltb_ge.
      apply orb_true_iff in E1. destruct E1 as [E1|E1]; apply N.eqb_eq in E1; lia. }
    rewrite Hp.
    assert (Hw : (if senc_keeps false a0 (h_size h - h_len h + 8) then a1 else []) = a1).
    { destruct (senc_keeps false a0 (h_size h - h_len h + 8)); [reflexivity|]. cbn [orb] in G. apply N.eqb_eq in G.
      symmetry. apply lenN_0_nil. exact G. }
    rewrite Hw.
    eexists; split; [reflexivity|]. split; [|assumption]. repeat rewrite <- app_assoc. reflexivity.
  - unfold senc_keeps. cbn [orb].
    eexists; split; [reflexivity|]. split; [|assumption]. repeat rewrite <- app_assoc. reflexivity.
Qed.

Lemma lossless_kind : leaf_lossless dec_kind.
Proof.
  intros h r l rsv r' Hok H G. unfold dec_kind in H. step H. zstep H. zstep H. inj_pret H. cbn [body_leaf].
  eexists; split; [reflexivity|]. split; [|assumption].
  rewrite vf_join_split by assumption. repeat rewrite <- app_assoc. reflexivity.
Qed.

Lemma firstn_app_len (x r : list N) : firstn (length (x ++ r) - length r) (x ++ r) = x.
Proof.
  rewrite app_length. replace (length x + length r - length r)%nat with (length x) by lia.
  rewrite firstn_app, Nat.sub_diag, firstn_all. cbn [firstn]. apply app_nil_r.
Qed.

Lemma ztf_spec bs : forall n o r, bytes_ok bs = true -> ztf bs n = (o, r) ->
  exists x, bs = x ++ r /\ bytes_ok r = true /\ (forall s, o = Some s -> x = s ++ [0]).
Proof.
  induction bs as [|c t IH]; intros n o r Hok H; cbn [ztf] in H.
  - destruct (n =? 0); injection H as <- <-; exists []; repeat split; try reflexivity; discriminate.
  - destruct (n =? 0).
    + injection H as <- <-. exists []. repeat split; try assumption. discriminate.
    + rewrite bytes_ok_cons in Hok. apply andb_true_iff in Hok. destruct Hok as [Hc Ht].
      destruct (c =? 0) eqn:E0.
      * injection H as <- <-. apply N.eqb_eq in E0. subst. exists [0]. repeat split; try assumption.
        intros s Hs. injection Hs as <-. reflexivity.
      * destruct (ztf t (n - 1)) as [[s'|] r0] eqn:E; injection H as <- <-;
          destruct (IH _ _ _ Ht E) as (x & -> & Hr & Hx); exists (c :: x); repeat split; try assumption.
        -- intros s Hs. injection Hs as <-. now rewrite (Hx s' eq_refl).
        -- discriminate.
Qed.

Lemma lossless_elng : leaf_lossless dec_elng.
Proof.
  intros h r l rsv r' Hok H G. unfold dec_elng in H. destruct (payload_len h <? 7).
  - destruct (ztf r (payload_len h)) as [[s|] r0] eqn:E; injection H as <- <- <-;
      destruct (ztf_spec _ _ _ _ Hok E) as (x & -> & Hr & Hx); cbn [body_leaf chunk nth app].
    + rewrite (Hx s eq_refl). eexists; split; [reflexivity|]. now split.
    + rewrite firstn_app_len. eexists; split; [reflexivity|]. now split.
  - run H. zstep H. inj_pret H. cbn [body_leaf chunk nth].
    apply negb_false_iff, N.eqb_eq in Hc. subst.
    eexists; split; [reflexivity|]. split; [|assumption].
    change (N.lor (u32 (0 * 16777216)) 0) with 0. repeat rewrite <- app_assoc. reflexivity.
Qed.

Lemma lossless_emsg : leaf_lossless dec_emsg.
Proof.
  intros h r l rsv r' Hok H G. unfold dec_emsg in H. step H.
  destruct (vf_version a =? 1) eqn:E1.
  - run H. zstep H. zstep H.
    destruct (_ <? h_size h); [step H|]; inj_pret H; cbn [body_leaf]; rewrite E1;
      (eexists; split; [reflexivity|]; split; [|assumption];
       rewrite vf_join_split by assumption; repeat rewrite <- app_assoc; cbn [app]; rewrite ?app_nil_r; reflexivity).
  - destruct (vf_version a =? 0) eqn:E0; [|discriminate H].
    zstep H. zstep H. run H.
    all: inj_pret H; cbn [body_leaf]; rewrite E1;
      (eexists; split; [reflexivity|]; split; [|assumption];
       rewrite vf_join_split by assumption; repeat rewrite <- app_assoc; cbn [app]; rewrite ?app_nil_r; reflexivity).
Qed.
