(* C01TableProofs.v — every entry of leaf_table is lossless and yields a leaf whose name is the table key. *)
From V.lib Require Import Base.
From V.c01 Require Import C01Codec C01Model C01LeafProofs C01Leaf2Proofs.

Definition entry_ok (e : list N * (hdr -> parser (leaf * rsvT))) : Prop :=
  leaf_lossless (snd e) /\
  (forall h r l rsv r', h_name h = fst e -> snd e h r = Ok ((l, rsv), r') -> leaf_name l = fst e).

Ltac nrun H :=
  repeat (cbv beta zeta in H;
          lazymatch type of H with
          | pbind _ _ _ = Ok _ => apply pbind_ok in H; destruct H as (? & ? & _ & H)
          | (if ?c then _ else _) _ = Ok _ => destruct c
          | (match ?o with Some _ => _ | None => _ end) _ = Ok _ => destruct o as [[? ?]|]
          | pfail _ = Ok _ => discriminate H
          end).
Ltac name_of H := nrun H; unfold pret in H; injection H; intros; subst; cbn [leaf_name]; congruence.

Lemma leaf_table_ok : Forall entry_ok leaf_table.
Proof.
  unfold leaf_table.
  repeat apply Forall_cons; try apply Forall_nil; split; cbn [fst snd];
    try first [ exact lossless_ftyp | exact lossless_free | exact lossless_mdat | exact lossless_mfhd
              | exact lossless_tfhd | exact lossless_tfdt | exact lossless_trun | exact lossless_mvhd
              | exact lossless_tkhd | exact lossless_sidx | exact lossless_trex | exact lossless_mdhd
              | exact lossless_hdlr | exact lossless_stts
              | exact lossless_stsc | exact lossless_stsz | exact (lossless_tab 4) | exact (lossless_tab 8)
              | exact lossless_sdtp | exact lossless_ctts | exact lossless_elst | exact lossless_saiz
              | exact lossless_saio | exact lossless_sbgp | exact lossless_prft | exact lossless_tenc
              | exact lossless_frma | exact lossless_vmhd | exact lossless_smhd | exact lossless_fullonly
              | exact lossless_mfro | exact lossless_mehd | exact lossless_tfra | exact lossless_pssh ];
    intros h r l rsv r' Hn H;
    try (unfold dec_mdat in H; destruct (rdB (payload_len h) r) as [[x r1]| | |]; injection H; intros; subst; reflexivity);
    unfold dec_ftyp, dec_free, dec_mfhd, dec_tfhd, dec_tfdt, dec_trun, dec_mvhd, dec_tkhd, dec_sidx, dec_trex, dec_mdhd,
      dec_hdlr, dec_stts, dec_stsc, dec_stsz, dec_tab, dec_sdtp, dec_ctts, dec_elst, dec_saiz, dec_saio, dec_sbgp, dec_prft,
      dec_tenc, dec_frma, dec_vmhd, dec_smhd, dec_fullonly, dec_mfro, dec_mehd, dec_tfra, dec_pssh in H;
    name_of H.
Qed.
