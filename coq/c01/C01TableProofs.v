(* C01TableProofs.v — every entry of leaf_table is lossless and yields a leaf whose name is the table key. *)
From V.lib Require Import Base.
From V.c01 Require Import C01Codec C01Model C01LeafProofs C01Leaf2Proofs C01Leaf3Proofs C01Leaf4Proofs C01Leaf5Proofs C01Leaf6Proofs C01LocalProofs C01EsdsProofs C01SgpdProofs.

Definition entry_ok (e : list N * (hdr -> parser (leaf * rsvT))) : Prop :=
  leaf_lossless (snd e) /\
  (forall h r l rsv r', h_name h = fst e -> snd e h r = Ok ((l, rsv), r') -> leaf_name l = fst e).

Ltac nrun H :=
  repeat (cbv beta zeta in H;
          lazymatch type of H with
          | pbind _ _ _ = Ok _ => apply pbind_ok in H; destruct H as (? & ? & _ & H)
          | (if ?c then _ else _) _ = Ok _ => destruct c
          | (match ?o with Some _ => _ | None => _ end) _ = Ok _ => destruct o as [[? ?]|]
          | pfail _ = Ok _ => discriminate H
          end).
Ltac name_of H := nrun H; unfold pret in H; injection H; intros; subst; cbn [leaf_name]; congruence.

Lemma avcC_name h r l rsv r' : dec_avcC h r = Ok ((l, rsv), r') -> leaf_name l = n_avcC.
Proof.
  intros H. unfold dec_avcC in H. apply pbind_ok in H. destruct H as (data & r1 & _ & H).
  destruct (avcc_rec data) as [[[l0 rsv0] extra]| | |] eqn:E; try discriminate. injection H as <- <- <-.
  unfold avcc_rec in E. nrun E.
  - unfold pret in E. injection E as <- _ _. reflexivity.
  - cbv beta in E. match type of E with (match ?x with _ => _ end) = _ => destruct x end;
      [injection E as <- _ _; reflexivity|]. nrun E. unfold pret in E. injection E as <- _ _. reflexivity.
Qed.

Lemma hvcC_name h r l rsv r' : dec_hvcC h r = Ok ((l, rsv), r') -> leaf_name l = n_hvcC.
Proof.
  intros H. unfold dec_hvcC in H. apply pbind_ok in H. destruct H as (data & r1 & _ & H).
  destruct (hvcc_rec data) as [[[l0 rsv0] extra]| | |] eqn:E; try discriminate. injection H as <- <- <-.
  unfold hvcc_rec in E. nrun E. unfold pret in E. injection E as <- _ _. reflexivity.
Qed.

Lemma uuid_name h r l rsv r' : dec_uuid h r = Ok ((l, rsv), r') -> leaf_name l = n_uuid.
Proof.
  intros H. unfold dec_uuid in H. apply pbind_ok in H. destruct H as (u & r0 & _ & H).
  destruct (bytes_eqb u uuid_tfxd); [nrun H; unfold pret in H; injection H as <- _ _; reflexivity|].
  destruct (bytes_eqb u uuid_tfrf); [nrun H; unfold pret in H; injection H as <- _ _; reflexivity|].
  destruct (bytes_eqb u uuid_piff).
  - destruct (h_size h <? 16); [discriminate H|]. apply pbind_ok in H. destruct H as ([l0 rsv0] & r1 & _ & H). cbn [fst] in H.
    destruct l0; try discriminate H. unfold pret in H. injection H as <- _ _. reflexivity.
  - destruct (h_size h <? 24); [discriminate H|]. nrun H. unfold pret in H. injection H as <- _ _. reflexivity.
Qed.

Lemma elng_name h r l rsv r' : dec_elng h r = Ok ((l, rsv), r') -> leaf_name l = n_elng.
Proof.
  intros H. unfold dec_elng in H. destruct (payload_len h <? 7).
  - destruct (ztf r (payload_len h)) as [[s|] r0]; injection H as <- _ _; reflexivity.
  - nrun H. unfold pret in H. injection H as <- _ _. reflexivity.
Qed.

Lemma wvtt_name h r l rsv r' : dec_wvtt h r = Ok ((l, rsv), r') -> leaf_name l = n_wvtt.
Proof.
  intros H. unfold dec_wvtt in H. destruct (rdB 6 r) as [[r6 r1]| | |]; [destruct (rd 2 r1) as [[dri r2]| | |]|..];
    try (destruct (16 <? h_size h); [discriminate H|]); injection H as <- _ _; reflexivity.
Qed.

(* the name lemmas of dec_whole ask bytes_ok of the input, which entry_ok does not give: the constructor is read off the run *)
Lemma dac3_name h r l rsv r' : dec_dac3 h r = Ok ((l, rsv), r') -> leaf_name l = n_dac3.
Proof.
  intros H. unfold dec_dac3, dec_whole in H. apply pbind_ok in H. destruct H as (d & r1 & _ & H).
  destruct (dac3_of d) as [l0|] eqn:E; [|discriminate]. injection H as <- _ _. unfold dac3_of in E.
  destruct (lenN d <? 3).
  - destruct (dac3_fields _) as [[[[[[a b] c] d0] e] f] g]. injection E as <-. reflexivity.
  - destruct (rdB _ d) as [[zs rest]| | |]; try discriminate. destruct (negb (forallb (N.eqb 0) zs)); [discriminate|].
    destruct (rd 3 rest) as [[w extra]| | |]; try discriminate.
    destruct (dac3_fields w) as [[[[[[a b] c] d0] e] f] g]. injection E as <-. reflexivity.
Qed.
Lemma dec3_name h r l rsv r' : dec_dec3 h r = Ok ((l, rsv), r') -> leaf_name l = n_dec3.
Proof.
  intros H. unfold dec_dec3, dec_whole in H. apply pbind_ok in H. destruct H as (d & r1 & _ & H).
  destruct (dec3_of d) as [l0|] eqn:E; [|discriminate]. injection H as <- _ _. unfold dec3_of in E.
  match type of E with match ?p with _ => _ end = _ => destruct p as [[[dr subs] reserved]| | |]; try discriminate end.
  injection E as <-. reflexivity.
Qed.

Lemma leaf_table_ok : Forall entry_ok leaf_table.
Proof.
  unfold leaf_table.
  repeat apply Forall_cons; try apply Forall_nil; split; cbn [fst snd];
    try first [ exact lossless_ftyp | exact lossless_free | exact lossless_empty | exact lossless_b4 | exact lossless_data | exact lossless_mime | exact lossless_dac3 | exact lossless_dec3 | exact lossless_mdat | exact lossless_mfhd
              | exact lossless_tfhd | exact lossless_tfdt | exact lossless_trun | exact lossless_mvhd
              | exact lossless_tkhd | exact lossless_sidx | exact lossless_trex | exact lossless_mdhd
              | exact lossless_hdlr | exact lossless_stts
              | exact lossless_stsc | exact lossless_stsz | exact (lossless_tab 4) | exact (lossless_tab 8)
              | exact lossless_sdtp | exact lossless_ctts | exact lossless_elst | exact lossless_saiz
              | exact lossless_saio | exact lossless_sbgp | exact lossless_prft | exact lossless_tenc
              | exact lossless_frma | exact lossless_vmhd | exact lossless_smhd | exact lossless_fullonly
              | exact lossless_mfro | exact lossless_mehd | exact lossless_tfra | exact lossless_pssh
              | exact lossless_url | exact lossless_avcC | exact lossless_btrt | exact lossless_pasp | exact lossless_colr
              | exact lossless_clap | exact lossless_schm | exact lossless_cslg
              | exact lossless_senc | exact lossless_emsg | exact lossless_elng | exact lossless_kind
              | exact lossless_hvcC | exact lossless_subs | exact lossless_esds | exact lossless_uuid | exact lossless_sgpd ];
    intros h r l rsv r' Hn H;
    try (apply (dac3_name _ _ _ _ _ H));
    try (apply (dec3_name _ _ _ _ _ H));
    try (apply (avcC_name _ _ _ _ _ H));
    try (apply (hvcC_name _ _ _ _ _ H));
    try (apply (esds_name _ _ _ _ _ H));
    try (apply (uuid_name _ _ _ _ _ H));
    try (apply (elng_name _ _ _ _ _ H));
    try (unfold dec_mdat in H; destruct (rdB (payload_len h) r) as [[x r1]| | |]; injection H; intros; subst; reflexivity);
    unfold dec_ftyp, dec_free, dec_empty, dec_b4, dec_data, dec_mime, dec_mfhd, dec_tfhd, dec_tfdt, dec_trun, dec_mvhd, dec_tkhd, dec_sidx, dec_trex, dec_mdhd,
      dec_hdlr, dec_stts, dec_stsc, dec_stsz, dec_tab, dec_sdtp, dec_ctts, dec_elst, dec_saiz, dec_saio, dec_sbgp, dec_prft,
      dec_tenc, dec_frma, dec_vmhd, dec_smhd, dec_fullonly, dec_mfro, dec_mehd, dec_tfra, dec_pssh,
      dec_url, dec_btrt, dec_pasp, dec_colr, dec_clap, dec_schm, dec_cslg, dec_senc, dec_emsg, dec_kind, dec_subs, dec_sgpd in H;
    name_of H.
Qed.

(* the prefixed boxes: stsd, dref, sample entries *)
Definition pre_entry_ok (e : list N * ((hdr -> parser (leaf * rsvT)) * loopkind)) : Prop :=
  leaf_lossless (fst (snd e)) /\
  (forall h r l rsv r', h_name h = fst e -> fst (snd e) h r = Ok ((l, rsv), r') -> leaf_name l = fst e).

Lemma pre_table_ok : Forall pre_entry_ok pre_table.
Proof.
  unfold pre_table.
  repeat apply Forall_cons; try apply Forall_nil; split; cbn [fst snd];
    try first [ exact lossless_stsd | exact lossless_dref | exact lossless_visual | exact lossless_audio | exact lossless_fullonly
              | exact lossless_wvtt ];
    intros h r l rsv r' Hn H; try exact (wvtt_name _ _ _ _ _ H);
    unfold dec_stsd, dec_dref, dec_visual, dec_audio, dec_fullonly in H; name_of H.
Qed.
