(* C01FileProofs.v — DecodeFileSR with its File-level acceptance rules (C01FileModel): every accepted file whose
   top-level trees are exact is written back by File.Encode / File.EncodeSW with the input's length, is accepted
   AGAIN by the same rules, decodes to the same trees up to captured reserved bytes, and encodes to the same bytes. *)
From V.lib Require Import Base.
From V.c01 Require Import C01Codec C01Model C01TreeProofs C01FixProofs C01FileModel.

Definition no_trunc (ts : list mbox) : bool := forallb (fun t => negb (mdat_truncated t)) ts.

(* the loop is the box loop of decode_seq filtered by the rules, as long as no mdat is cut short *)
Lemma loop_sound f : forall st bs ts, file_loop f st bs = FOk ts -> no_trunc ts = true ->
  decode_seq f bs = Ok ts /\ file_rules st (map erase_rsv ts) = true.
Proof.
  induction f as [|f IH]; intros st bs ts H Hn; cbn [file_loop] in H; [discriminate|].
  cbn [decode_seq]. destruct bs as [|b0 bs0]; [injection H as <-; split; reflexivity|]. set (bs := b0 :: bs0) in *.
  destruct (decode bs) as [[t r]| | |] eqn:Ed; try discriminate.
  destruct (file_check st (erase_rsv t)) eqn:Ec; try discriminate.
  destruct (mdat_truncated t) eqn:Et.
  - injection H as <-. cbn [no_trunc forallb] in Hn. rewrite Et in Hn. discriminate.
  - destruct (file_loop f (file_add st (erase_rsv t)) r) as [ts'| | | |] eqn:El; try discriminate. injection H as <-.
    cbn [no_trunc forallb] in Hn. apply andb_true_iff in Hn. destruct Hn as [_ Hn].
    destruct (IH _ _ _ El Hn) as [Hd Hr]. rewrite Hd. split; [reflexivity|]. cbn [map file_rules]. now rewrite Ec.
Qed.

Lemma loop_complete f : forall st bs ts, decode_seq f bs = Ok ts -> file_rules st (map erase_rsv ts) = true ->
  no_trunc ts = true -> file_loop f st bs = FOk ts.
Proof.
  induction f as [|f IH]; intros st bs ts H Hr Hn; cbn [decode_seq] in H; [discriminate|].
  cbn [file_loop]. destruct bs as [|b0 bs0]; [injection H as <-; reflexivity|]. set (bs := b0 :: bs0) in *.
  destruct (decode bs) as [[t r]| | |] eqn:Ed; try discriminate.
  destruct (decode_seq f r) as [ts'| | |] eqn:Es; try discriminate. injection H as <-.
  cbn [map file_rules] in Hr. destruct (file_check st (erase_rsv t)); try discriminate.
  cbn [no_trunc forallb] in Hn. apply andb_true_iff in Hn. destruct Hn as [Ht Hn]. apply negb_true_iff in Ht. rewrite Ht.
  now rewrite (IH _ _ _ Es Hr Hn).
Qed.

(* an exact mdat was not cut short: its header announces exactly the payload that was read *)
Lemma exact_not_trunc t : exact_box t = true -> mdat_truncated t = false.
Proof.
  destruct t as [h l r|h cs|h p|h l r cs]; try reflexivity. destruct l; try reflexivity. intros H.
  cbn [exact_box] in H. apply andb_true_iff in H. destruct H as [H _]. cbn [mdat_truncated]. apply N.ltb_ge.
  unfold payload_len. cbn [leaf_large size_leaf] in H.
  destruct (large || (4294967287 <? lenN data)).
  - apply andb_true_iff in H. destruct H as [H1 H2]. apply N.eqb_eq in H1, H2. lia.
  - unfold hdr_exact in H. apply andb_true_iff in H. destruct H as [H1 H2]. apply N.eqb_eq in H1, H2. lia.
Qed.
Lemma exact_no_trunc ts : forallb exact_box ts = true -> no_trunc ts = true.
Proof.
  induction ts as [|t r IH]; [reflexivity|]. cbn [forallb no_trunc]. intros H. apply andb_true_iff in H.
  destruct H as [Ht Hr]. rewrite (exact_not_trunc _ Ht). exact (IH Hr).
Qed.

Lemma trunc_norm t : mdat_truncated (norm_box t) = mdat_truncated t.
Proof. destruct t; reflexivity. Qed.
Lemma no_trunc_norm ts : no_trunc (map norm_box ts) = no_trunc ts.
Proof. induction ts as [|t r IH]; [reflexivity|]. cbn [map no_trunc forallb]. rewrite trunc_norm. f_equal. exact IH. Qed.
Lemma erase_norm_all ts : map erase_rsv (map norm_box ts) = map erase_rsv ts.
Proof. rewrite map_map. apply map_ext. exact erase_norm. Qed.

Lemma file_encode_w_eq ts : file_encode_w ts = encode_seq_w ts.
Proof. induction ts as [|t r IH]; [reflexivity|]. cbn [file_encode_w encode_seq_w]. now rewrite IH. Qed.

Lemma sum_sizes_len f : forall bs ts, bytes_ok bs = true -> decode_seq f bs = Ok ts -> forallb exact_box ts = true ->
  sumN (map size_box ts) = lenN bs.
Proof.
  induction f as [|f IH]; intros bs ts Hok H Hex; cbn [decode_seq] in H; [discriminate|].
  destruct bs as [|b0 bs0]; [injection H as <-; reflexivity|]. set (bs := b0 :: bs0) in *.
  destruct (decode bs) as [[t r]| | |] eqn:Ed; try discriminate.
  destruct (decode_seq f r) as [ts'| | |] eqn:Es; try discriminate. injection H as <-.
  cbn [forallb] in Hex. apply andb_true_iff in Hex. destruct Hex as [Ht Hts].
  unfold decode in Ed. destruct (proj1 (tree_both _) _ _ _ Hok Ed Ht) as (_ & _ & _ & Hokr).
  destruct (proj1 (stable_all _) _ _ _ Hok Ed Ht) as (enc & _ & Hl & Hs & _).
  cbn [map sumN]. rewrite (IH _ _ Hokr Es Hts). lia.
Qed.

(* DecodeFileSR, File.Encode (Box.Encode per child), File.EncodeSW (one writer of File.Size() bytes): for EVERY byte string
   the loop accepts (box-local rules of decode AND the File-level rules) with exact top-level trees *)
Lemma file_accepted_fixpoint bs ts : bytes_ok bs = true -> decode_file_sr bs = FOk ts -> forallb exact_box ts = true ->
  exists enc, file_encode_w ts = Ok enc /\ file_encode_sw ts = Ok enc /\ encode_seq false ts = Ok enc /\ lenN enc = lenN bs /\
    decode_file_sr enc = FOk (map norm_box ts) /\ file_frag (map norm_box ts) = file_frag ts /\
    file_encode_w (map norm_box ts) = Ok enc /\ file_encode_sw (map norm_box ts) = Ok enc.
Proof.
  intros Hok H Hex. unfold decode_file_sr in H. pose proof (exact_no_trunc _ Hex) as Hn.
  destruct (loop_sound _ _ _ _ H Hn) as [Hd Hr].
  destruct (file_fixpoint_full bs ts Hok Hd Hex) as (enc & He & Hw & Hl & Hd2 & He2 & Hw2).
  pose proof (seq_fits _ _ _ Hok Hd Hex) as Hf.
  assert (Hfits : forallb enc_fits ts = true).
  { clear - Hf. induction ts as [|t r IH]; [reflexivity|]. cbn [forallb] in *. apply andb_true_iff in Hf. destruct Hf as [Ht Hr].
    apply andb_true_iff in Ht. destruct Ht as [Ht _]. now rewrite Ht, (IH Hr). }
  assert (Hfits2 : forallb enc_fits (map norm_box ts) = true).
  { clear - Hfits. induction ts as [|t r IH]; [reflexivity|]. cbn [map forallb] in *. apply andb_true_iff in Hfits.
    destruct Hfits as [Ht Hr]. now rewrite enc_fits_norm, Ht, (IH Hr). }
  pose proof (sum_sizes_len _ _ _ Hok Hd Hex) as Hsum.
  exists enc. rewrite !file_encode_w_eq. unfold file_encode_sw. rewrite He, He2, Hfits, Hfits2, sizes_norm, Hsum. cbn [andb].
  replace (lenN enc <=? lenN bs) with true by (symmetry; apply N.leb_le; lia).
  repeat split; try assumption.
  - unfold decode_file_sr. unfold decode_file in Hd2. apply loop_complete; [exact Hd2| |now rewrite no_trunc_norm].
    now rewrite erase_norm_all.
  - unfold file_frag. now rewrite erase_norm_all.
Qed.
