(* C01GenWitness.v -- the hypotheses of C01_fixpoint (second conjunct) are satisfiable by inputs that the first generation does NOT reproduce
   (trailing body bytes dropped: url, avcC, mfhd; a dac3 payload padded), and gen2_ok is sufficient, not necessary (an esds that
   kept UnknownData is written back unchanged, yet the model's guard names a reason: class G2Why). *)
From V.lib Require Import Base.
From V.c01 Require Import C01Codec C01Model C01Witness C01Witness3 C01Witness5 C01Witness6 C01GenModel.

(* accepted, inexact, Box.Encode succeeds with bytes that differ from the input, and those bytes satisfy gen2_ok *)
Definition lossy_then_fixed (w : list N) : Prop :=
  exists t rest enc, decode w = Ok (t, rest) /\ exact_box t = false /\ encode_w t = Ok enc /\ enc ++ rest <> w /\ gen2_ok enc = true.
Ltac lossy w := exists (treeof w), (rest_of w), (enc_of w); vm_compute; repeat split; first [discriminate | let H := fresh in intro H; inversion H].

Lemma gen2_examples : lossy_then_fixed w_url_tail /\ lossy_then_fixed w_avcc_extra /\ lossy_then_fixed w_mfhd_trailing /\
  lossy_then_fixed w_dac3_short /\ lossy_then_fixed w_elng_unterminated.
Proof. repeat split. - lossy w_url_tail. - lossy w_avcc_extra. - lossy w_mfhd_trailing. - lossy w_dac3_short. - lossy w_elng_unterminated. Qed.

Lemma gen2_guard_example : encode_w (treeof (ex_esds 0)) = Ok (ex_esds 0) /\ gen2 (ex_esds 0) = G2Why /\
  decode (ex_esds 0) = Ok (treeof (ex_esds 0), []).
Proof. vm_compute. repeat split. Qed.

(* File level: the accepted file with a cut-short mdat (C01_file_truncated_mdat_refuted: 4 payload bytes lost by File.Encode):
   the 500 bytes File.Encode writes satisfy gen2_file_ok *)
From V.c01 Require Import C01FileModel C01FileExamples C01FileWitness C01GenFileModel.
Lemma gen2_file_example : decode_file_sr fx_trunc_mdat = FOk (fseq_of fx_trunc_mdat) /\ forallb exact_box (fseq_of fx_trunc_mdat) = false /\
  file_encode_w (fseq_of fx_trunc_mdat) = Ok (fenc_of fx_trunc_mdat) /\ lenN (fenc_of fx_trunc_mdat) = 500 /\ lenN fx_trunc_mdat = 504 /\
  gen2_file_ok (fenc_of fx_trunc_mdat) = true.
Proof. vm_compute. repeat split. Qed.

(* ---- finding C01-K79 (found by the second-generation correspondence, round 4): DecodeElngSR decides "full-box header missing"
   from the payload length alone (below 7 bytes).  The bytes ElngBox.Encode writes for a language of 0 or 1 letters have a payload
   of 5 / 6 bytes and are read back as a bare string whose first byte is the zero of version/flags: CreateElng("x") written by the
   library itself is accepted again with Language "" and missingFullBox = true (first part), and an accepted elng with bytes after
   an empty language goes 16 -> 13 -> 9 bytes: its re-encoding is NOT a fixed point (class G2Rest: the second decode leaves bytes
   over, the third encoding differs). *)
Definition w_elng_x : list N := enc_hdr n_elng 14 ++ [0;0;0;0] ++ [120; 0].         (* CreateElng("x").Encode() *)
Definition w_elng_chain : list N := enc_hdr n_elng 16 ++ [0;0;0;0] ++ [0; 0; 83; 0].
Lemma elng_generation2_refuted :
  (raw_box false (MLeaf {| h_name := n_elng; h_size := 14; h_len := 8 |} (LElng false 0 0 [120]) [[120; 0]]) = Ok w_elng_x /\
   exists h rsv rest, decode w_elng_x = Ok (MLeaf h (LElng true 0 0 []) rsv, rest) /\ rest <> []) /\
  (exists t rest enc t2 rest2 enc3, decode w_elng_chain = Ok (t, rest) /\ encode_w t = Ok enc /\ gen2 enc = G2Rest /\
     decode enc = Ok (t2, rest2) /\ rest2 <> [] /\ encode_w t2 = Ok enc3 /\ lenN enc = 13 /\ lenN enc3 = 9).
Proof.
  split.
  - split; [vm_compute; reflexivity|]. eexists _, _, _. split; [vm_compute; reflexivity|discriminate].
  - exists (treeof w_elng_chain), (rest_of w_elng_chain), (enc_of w_elng_chain), (treeof (enc_of w_elng_chain)), (rest_of (enc_of w_elng_chain)),
      (enc_of (enc_of w_elng_chain)). vm_compute. repeat split; discriminate.
Qed.
