(* C01WhyProofs.v — the reasons of why_box are complete: a decoded tree without a reason is exact and has all its
   captured bytes at the encoder's values, hence the Go encoders reproduce the input bit for bit; in particular
   the re-encoding is a fixed point. *)
From V.lib Require Import Base.
From V.c01 Require Import C01Codec C01Model C01LeafProofs C01TableProofs C01TreeProofs.

Section MboxInd.
  Variable P : mbox -> Prop.
  Hypothesis HL : forall h l r, P (MLeaf h l r).
  Hypothesis HC : forall h cs, Forall P cs -> P (MCont h cs).
  Hypothesis HU : forall h p, P (MUnknown h p).
  Hypothesis HP : forall h l r cs, Forall P cs -> P (MPre h l r cs).
  Fixpoint mbox_rect2 (t : mbox) : P t :=
    match t with
    | MLeaf h l r => HL h l r
    | MCont h cs => HC h cs ((fix go (cs : list mbox) : Forall P cs :=
                                match cs with [] => Forall_nil _ | c :: t => Forall_cons _ (mbox_rect2 c) (go t) end) cs)
    | MUnknown h p => HU h p
    | MPre h l r cs => HP h l r cs ((fix go (cs : list mbox) : Forall P cs :=
                                match cs with [] => Forall_nil _ | c :: t => Forall_cons _ (mbox_rect2 c) (go t) end) cs)
    end.
End MboxInd.

Lemma if_nil {A} (c : bool) (x : A) : (if c then [] else [x]) = [] -> c = true.
Proof. destruct c; [reflexivity|discriminate]. Qed.
Lemma if_nil' {A} (c : bool) (x : A) : (if c then [x] else []) = [] -> c = false.
Proof. destruct c; [discriminate|reflexivity]. Qed.
Lemma map_nil {A B} (f : A -> B) l : map f l = [] -> l = [].
Proof. destruct l; [reflexivity|discriminate]. Qed.

Lemma rsv_eqb_eq r : forall d, rsv_eqb r d = true -> r = d.
Proof.
  induction r as [|c r IH]; intros [|e d] H; cbn [rsv_eqb] in H; try discriminate; [reflexivity|].
  apply andb_true_iff in H. destruct H as [H1 H2]. apply bytes_eqb_eq in H1. subst. f_equal. now apply IH.
Qed.

Lemma chunks_why_nil r : forall i dc d, chunks_why i dc r d = [] -> rsv_eqb r d = true.
Proof.
  induction r as [|c r IH]; intros i dc [|e d] H; cbn [chunks_why rsv_eqb] in *; try discriminate; [reflexivity|].
  apply app_eq_nil in H. destruct H as [H1 H2]. apply if_nil in H1. rewrite H1. cbn [andb]. eapply IH; eassumption.
Qed.

Lemma hdr_why_nil large h sz : hdr_why large h sz = [] -> h_len h = (if large then 16 else 8) /\ h_size h = sz.
Proof.
  unfold hdr_why. intros H. apply app_eq_nil in H. destruct H as [H1 H]. apply app_eq_nil in H. destruct H as [H2 H3].
  apply if_nil in H1. apply if_nil' in H2. apply if_nil' in H3. apply N.eqb_eq in H1. apply N.ltb_ge in H2, H3.
  split; [assumption|lia].
Qed.

Lemma leaf_why_nil large h l r sz : leaf_why large h l r sz = [] ->
  h_len h = (if large then 16 else 8) /\ h_size h = sz /\ leaf_guard l = true /\ rsv_eqb r (dflt_rsv l) = true.
Proof.
  unfold leaf_why. intros H. apply app_eq_nil in H. destruct H as [H1 H]. apply app_eq_nil in H. destruct H as [H2 H3].
  destruct (hdr_why_nil _ _ _ H1) as [Ha Hb]. apply if_nil in H2. apply chunks_why_nil in H3. now repeat split.
Qed.

Lemma flat_map_nil {A B} (f : A -> list B) l : flat_map f l = [] -> forall x, In x l -> f x = [].
Proof.
  induction l as [|a l IH]; intros H x Hin; [destruct Hin|]. cbn [flat_map] in H. apply app_eq_nil in H.
  destruct H as [H1 H2]. destruct Hin as [<-|Hin]; [assumption|now apply IH].
Qed.

Lemma why_nil t : why_box t = [] -> exact_box t = true /\ rsv_default t = true.
Proof.
  induction t as [h l r|h cs IH|h p|h l r cs IH] using mbox_rect2; cbn [why_box exact_box rsv_default]; intros H.
  - apply map_nil in H. destruct (leaf_why_nil _ _ _ _ _ H) as (Ha & Hb & Hg & Hr). split; [|assumption].
    rewrite Hg, andb_true_r. unfold hdr_exact. destruct (leaf_large l); rewrite Ha, Hb, !N.eqb_refl; reflexivity.
  - apply app_eq_nil in H. destruct H as [H1 H2]. apply map_nil in H1.
    apply app_eq_nil in H1. destruct H1 as [Ha H1]. apply app_eq_nil in H1. destruct H1 as [Hb Hc].
    apply if_nil in Ha, Hb, Hc. rewrite Ha, Hb, Hc. cbn [andb]. rewrite !andb_true_r.
    pose proof (flat_map_nil _ _ H2) as Hk. rewrite Forall_forall in IH.
    split; apply forallb_forall; intros c Hin; now apply (IH c Hin (Hk c Hin)).
  - split; [|reflexivity]. destruct ((h_len h =? 8) || (h_len h =? 16)); [reflexivity|discriminate].
  - apply app_eq_nil in H. destruct H as [H1 H2]. apply map_nil in H1.
    destruct (leaf_why_nil _ _ _ _ _ H1) as (Ha & Hb & Hg & Hr).
    pose proof (flat_map_nil _ _ H2) as Hk. rewrite Forall_forall in IH.
    rewrite Hg, Hr. unfold hdr_exact. rewrite Ha, Hb, !N.eqb_refl. cbn [andb].
    split; apply forallb_forall; intros c Hin; now apply (IH c Hin (Hk c Hin)).
Qed.

Lemma raw_default t : rsv_default t = true -> raw_box true t = raw_box false t.
Proof.
  induction t as [h l r|h cs IH|h p|h l r cs IH] using mbox_rect2; cbn [rsv_default]; intros H.
  - cbn [raw_box]. now rewrite (rsv_eqb_eq _ _ H).
  - rewrite !raw_box_cont. cbv zeta.
    assert (E : map (genc true) cs = map (genc false) cs).
    { apply map_ext_in. intros c Hin. unfold genc. f_equal. rewrite Forall_forall in IH. apply IH; [assumption|].
      rewrite forallb_forall in H. now apply H. }
    now rewrite E.
  - reflexivity.
  - apply andb_true_iff in H. destruct H as [H1 H2]. rewrite !raw_box_pre. rewrite (rsv_eqb_eq _ _ H1).
    assert (E : map (genc true) cs = map (genc false) cs).
    { apply map_ext_in. intros c Hin. unfold genc. f_equal. rewrite Forall_forall in IH. apply IH; [assumption|].
      rewrite forallb_forall in H2. now apply H2. }
    now rewrite E.
Qed.

(* no reason, no difference: the bytes the Go encoders write are the input *)
Lemma explained bs t rest : bytes_ok bs = true -> decode bs = Ok (t, rest) -> why_box t = [] ->
  exists enc, raw_box false t = Ok enc /\ bs = enc ++ rest.
Proof.
  intros Hok H Hw. destruct (why_nil _ Hw) as [He Hr].
  destruct (tree_lossless _ _ _ Hok H He) as (enc & Henc & Hb). exists enc. rewrite <- (raw_default _ Hr). now split.
Qed.

Lemma fixpoint_partial bs t : bytes_ok bs = true -> decode bs = Ok (t, []) -> why_box t = [] ->
  exists enc, raw_box false t = Ok enc /\ decode enc = Ok (t, []) /\ raw_box false t = Ok enc /\ enc = bs.
Proof.
  intros Hok H Hw. destruct (explained _ _ _ Hok H Hw) as (enc & He & Hb). rewrite app_nil_r in Hb. subst enc.
  exists bs. now repeat split.
Qed.

(* ---------------------------------------------------------------- a file: a sequence of top-level boxes *)
Lemma seq_lossless f : forall bs ts, bytes_ok bs = true -> decode_seq f bs = Ok ts -> forallb exact_box ts = true ->
  encode_seq true ts = Ok bs.
Proof.
  induction f as [|f IH]; intros bs ts Hok H Hex; cbn [decode_seq] in H; [discriminate|].
  destruct bs as [|b0 bs0]; [injection H as <-; reflexivity|].
  set (bs := b0 :: bs0) in *.
  destruct (decode bs) as [[t r]| | |] eqn:Ed; try discriminate.
  destruct (decode_seq f r) as [ts'| | |] eqn:Es; try discriminate. injection H as <-.
  cbn [forallb] in Hex. apply andb_true_iff in Hex. destruct Hex as [Ht Hts].
  unfold decode in Ed. destruct (proj1 (tree_both _) _ _ _ Hok Ed Ht) as (enc & Henc & Hb & Hokr).
  cbn [encode_seq]. rewrite Henc, (IH _ _ Hokr Es Hts). cbn [rcat]. now rewrite Hb.
Qed.

Lemma encode_seq_default ts : forallb rsv_default ts = true -> encode_seq true ts = encode_seq false ts.
Proof.
  induction ts as [|t ts IH]; [reflexivity|]. cbn [forallb encode_seq]. intros H. apply andb_true_iff in H.
  destruct H as [H1 H2]. now rewrite (raw_default _ H1), (IH H2).
Qed.

Lemma seq_explained bs ts : bytes_ok bs = true -> decode_file bs = Ok ts -> flat_map why_box ts = [] ->
  encode_seq false ts = Ok bs /\ decode_file bs = Ok ts.
Proof.
  intros Hok H Hw. split; [|assumption].
  assert (Hall : forallb exact_box ts = true /\ forallb rsv_default ts = true).
  { pose proof (flat_map_nil _ _ Hw) as Hk. split; apply forallb_forall; intros t Hin; now apply (why_nil t (Hk t Hin)). }
  destruct Hall as [He Hr]. rewrite <- (encode_seq_default _ Hr). unfold decode_file in H. now apply (seq_lossless _ _ _ Hok H He).
Qed.
