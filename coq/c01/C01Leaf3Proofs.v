(* C01Leaf3Proofs.v — losslessness of the stage-3 leaf kinds and of the field prefixes of stsd, dref and the
   Visual/Audio sample entries (same shared tactic as C01LeafProofs). *)
From V.lib Require Import Base.
From V.c01 Require Import C01Codec C01Model C01LeafProofs C01Leaf2Proofs.

(* ---------------------------------------------------------------- strings *)
Lemma zt_spec bs : forall n s r, bytes_ok bs = true -> zt bs n = Ok (s, r) ->
  bs = s ++ [0] ++ r /\ bytes_ok r = true /\ forallb (fun c => negb (c =? 0)) s = true /\ lenN s < n.
Proof.
  induction bs as [|c t IH]; intros n s r Hok H; cbn [zt] in H.
  - destruct (n =? 0); discriminate.
  - destruct (n =? 0) eqn:En; [discriminate|]. apply N.eqb_neq in En.
    rewrite bytes_ok_cons in Hok. apply andb_true_iff in Hok. destruct Hok as [Hc Ht].
    destruct (c =? 0) eqn:E0.
    + injection H as <- <-. apply N.eqb_eq in E0. subst. repeat split; try assumption. cbn. lia.
    + destruct (zt t (n - 1)) as [[s' r']| | |] eqn:E; try discriminate. injection H as <- <-.
      destruct (IH _ _ _ Ht E) as (-> & Hr & Hnz & Hl). repeat split; try assumption.
      * cbn [forallb]. now rewrite E0, Hnz.
      * rewrite lenN_cons. lia.
Qed.

Lemma pz_spec bs : forall n s z r, bytes_ok bs = true -> pz bs n = Ok ((s, z), r) ->
  bs = s ++ (if z then [0] else []) ++ r /\ bytes_ok r = true /\ forallb (fun c => negb (c =? 0)) s = true /\
  (if z then lenN s < n else lenN s = n).
Proof.
  induction bs as [|c t IH]; intros n s z r Hok H; cbn [pz] in H.
  - destruct (n =? 0) eqn:En; [|discriminate]. injection H as <- <- <-. apply N.eqb_eq in En. now repeat split.
  - destruct (n =? 0) eqn:En.
    + injection H as <- <- <-. apply N.eqb_eq in En. now repeat split.
    + apply N.eqb_neq in En. rewrite bytes_ok_cons in Hok. apply andb_true_iff in Hok. destruct Hok as [Hc Ht].
      destruct (c =? 0) eqn:E0.
      * injection H as <- <- <-. apply N.eqb_eq in E0. subst. repeat split; try assumption. cbn. lia.
      * destruct (pz t (n - 1)) as [[[s' z'] r']| | |] eqn:E; try discriminate. injection H as <- <- <-.
        destruct (IH _ _ _ _ Ht E) as (-> & Hr & Hnz & Hl). repeat split; try assumption.
        -- cbn [forallb]. now rewrite E0, Hnz.
        -- rewrite lenN_cons. destruct z'; lia.
Qed.

(* ---------------------------------------------------------------- plain field lists *)
Lemma lossless_stsd : leaf_lossless dec_stsd.
Proof. intros h r l rsv r' Hok H G. unfold dec_stsd in H. run H. inj_pret H. finish_lossless. Qed.
Lemma lossless_dref : leaf_lossless dec_dref.
Proof. intros h r l rsv r' Hok H G. unfold dec_dref in H. run H. inj_pret H. finish_lossless. Qed.
Lemma lossless_btrt : leaf_lossless dec_btrt.
Proof. intros h r l rsv r' Hok H G. unfold dec_btrt in H. run H. inj_pret H. finish_lossless. Qed.
Lemma lossless_pasp : leaf_lossless dec_pasp.
Proof. intros h r l rsv r' Hok H G. unfold dec_pasp in H. run H. inj_pret H. finish_lossless. Qed.
Lemma lossless_clap : leaf_lossless dec_clap.
Proof. intros h r l rsv r' Hok H G. unfold dec_clap in H. run H. inj_pret H. finish_lossless. Qed.
Lemma lossless_cslg : leaf_lossless dec_cslg.
Proof.
  intros h r l rsv r' Hok H G. unfold dec_cslg in H. run H. inj_pret H. cbn [body_leaf].
  eexists; split; [reflexivity|]; split; [|assumption].
  rewrite vf_join_split by assumption. repeat rewrite <- app_assoc. reflexivity.
Qed.
Lemma lossless_audio : leaf_lossless dec_audio.
Proof. intros h r l rsv r' Hok H G. unfold dec_audio in H. run H. inj_pret H. finish_lossless. Qed.

Lemma lossless_visual : leaf_lossless dec_visual.
Proof.
  intros h r l rsv r' Hok H G. unfold dec_visual in H. run H. inj_pret H.
  cbn [body_leaf chunk nth]. eexists; split; [reflexivity|]; split; [|assumption].
  try match goal with Hl : lenN ?x = ?c |- context [be_enc 1 (lenN ?x)] => rewrite Hl end.
  repeat rewrite <- app_assoc. reflexivity.
Qed.

(* ---------------------------------------------------------------- url *)
Lemma lossless_url : leaf_lossless dec_url.
Proof.
  intros h r l rsv r' Hok H G. unfold dec_url in H. run H.
  - apply pbind_ok in H. destruct H as ([s z] & r1 & E & H). unfold rd_pz in E. inj_pret H.
    match type of E with pz ?x _ = _ => match goal with Hk : bytes_ok x = true |- _ =>
      destruct (pz_spec _ _ _ _ _ Hk E) as (-> & Hr & _ & _) end end. cbn [body_leaf fst snd].
    eexists; split; [reflexivity|]; split; [|assumption].
    rewrite vf_join_split by assumption. destruct z; cbn [negb]; repeat rewrite <- app_assoc; reflexivity.
  - inj_pret H. finish_lossless.
Qed.

(* ---------------------------------------------------------------- schm *)
Lemma lossless_schm : leaf_lossless dec_schm.
Proof.
  intros h r l rsv r' Hok H G. unfold dec_schm in H. run H.
  - apply pbind_ok in H. destruct H as (s & r1 & E & H). unfold rd_zt in E. inj_pret H.
    match type of E with zt ?x _ = _ => match goal with Hk : bytes_ok x = true |- _ =>
      destruct (zt_spec _ _ _ _ Hk E) as (-> & Hr & _ & _) end end. cbn [body_leaf]. rewrite Hc.
    eexists; split; [reflexivity|]; split; [|assumption].
    rewrite vf_join_split by assumption. repeat rewrite <- app_assoc. reflexivity.
  - inj_pret H. cbn [body_leaf]. rewrite Hc.
    eexists; split; [reflexivity|]; split; [|assumption].
    rewrite vf_join_split by assumption. repeat rewrite <- app_assoc. reflexivity.
Qed.

(* ---------------------------------------------------------------- colr *)
Lemma full_range_join b : b < 256 ^ N.of_nat 1 -> (if 128 <=? b then 128 else 0) + b mod 128 = b.
Proof.
  change (256 ^ N.of_nat 1) with 256. intros H. destruct (128 <=? b) eqn:E; [apply N.leb_le in E|apply N.leb_gt in E].
  - rewrite <- (N.mod_unique b 128 1 (b - 128)); lia.
  - rewrite N.mod_small; lia.
Qed.

Lemma lossless_colr : leaf_lossless dec_colr.
Proof.
  intros h r l rsv r' Hok H G. unfold dec_colr in H. run H; inj_pret H; cbn [body_leaf chunk nth hd]; rew_conds.
  - eexists; split; [reflexivity|]; split; [|assumption].
    rewrite full_range_join by assumption. repeat rewrite <- app_assoc. reflexivity.
  - eexists; split; [reflexivity|]; split; [|assumption]. repeat rewrite <- app_assoc. reflexivity.
  - eexists; split; [reflexivity|]; split; [|assumption]. repeat rewrite <- app_assoc. reflexivity.
Qed.

(* ---------------------------------------------------------------- avcC *)
Lemma item_nalu bs a r : bytes_ok bs = true -> rd_nalu bs = Ok (a, r) -> bs = wr_nalu a ++ r /\ bytes_ok r = true.
Proof.
  intros Hok H. unfold rd_nalu in H. run H. destruct (rdB_spec _ _ _ _ Hok0 H) as (-> & Hl & _ & Hr).
  split; [|assumption]. unfold wr_nalu. rewrite Hl. now rewrite <- app_assoc.
Qed.

Lemma join_low2 b : b mod 4 = 3 -> N.lor 3 (b / 4 * 4) = b.
Proof.
  intros H. rewrite N.lor_comm. change 4 with (2 ^ 2) at 2. rewrite lor_shifted_add by (cbn; lia).
  change (2 ^ 2) with 4. pose proof (N.div_mod b 4). lia.
Qed.
Lemma join_lowk b k : N.lor (b / 2 ^ k * 2 ^ k) (b mod 2 ^ k) = b.
Proof.
  rewrite lor_shifted_add by (apply N.mod_lt; apply N.pow_nonzero; discriminate).
  pose proof (N.div_mod b (2 ^ k)). assert (2 ^ k <> 0) by (apply N.pow_nonzero; discriminate). lia.
Qed.
Lemma join4 b : N.lor (b / 4 * 4) (b mod 4) = b.
Proof. exact (join_lowk b 2). Qed.
Lemma join8 b : N.lor (b / 8 * 8) (b mod 8) = b.
Proof. exact (join_lowk b 3). Qed.
Lemma join_sps b : b < 256 -> N.lor (u8 (b mod 32)) (b / 32 * 32) = b.
Proof.
  intros H. unfold u8. rewrite (N.mod_small (b mod 32)) by (pose proof (N.mod_lt b 32); lia).
  rewrite N.lor_comm. exact (join_lowk b 5).
Qed.

Lemma avcc_rec_spec data l rsv extra : bytes_ok data = true -> avcc_rec data = Ok ((l, rsv), extra) ->
  exists b, body_leaf l (rsv ++ [extra]) = Ok b /\ data = b.
Proof.
  intros Hok H. unfold avcc_rec in H. run H.
  apply pbind_ok in H. destruct H as (sps & r1 & E1 & H). many E1 item_nalu.
  step H.
  apply pbind_ok in H. destruct H as (pps & r2 & E2 & H). many E2 item_nalu.
  apply negb_false_iff, N.eqb_eq in Hc, Hc0. subst.
  assert (Hb5 : a4 < 256) by (change (256 ^ N.of_nat 1) with 256 in *; assumption).
  destruct (avc_plain a0) eqn:Ep.
  - inj_pret H. cbn [body_leaf chunk nth hd app]. rewrite Ep. cbn [orb].
    eexists; split; [reflexivity|].
    rewrite join_low2 by assumption. rewrite Hl, join_sps by assumption.
    repeat rewrite <- app_assoc. reflexivity.
  - destruct r2 as [|x r2].
    + injection H as <- <- <-. cbn [body_leaf chunk nth hd app]. rewrite Ep. cbn [orb].
      eexists; split; [reflexivity|].
      rewrite join_low2 by assumption. rewrite Hl, join_sps by assumption.
      repeat rewrite <- app_assoc. reflexivity.
    + run H. inj_pret H. cbn [body_leaf chunk nth hd app]. rewrite Ep. cbn [orb].
      apply negb_false_iff, N.eqb_eq in Hc. subst.
      eexists; split; [reflexivity|].
      rewrite join_low2 by assumption. rewrite Hl, join_sps by assumption.
      rewrite join4, !join8.
      repeat rewrite <- app_assoc. reflexivity.
Qed.

Lemma lossless_avcC : leaf_lossless dec_avcC.
Proof.
  intros h r l rsv r' Hok H G. unfold dec_avcC in H. step H.
  destruct (avcc_rec a) as [[[l0 rsv0] extra]| | |] eqn:E; try discriminate.
  injection H as <- <- <-.
  destruct (avcc_rec_spec _ _ _ _ Hx E) as (b & Hb & ->). exists b. now repeat split.
Qed.
