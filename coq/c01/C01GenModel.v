(* C01GenModel.v -- DEFINITIONS ONLY (extracted).  The second generation: the boolean hypothesis of C01_fixpoint (second conjunct), evaluated by the
   driver on the bytes the Go encoders actually produced for an input that was NOT reproduced (lossy / normalised / reserved bytes
   rewritten).  gen2 enc answers what the model says about decoding the encoders' output again:
     G2Fix   the output is accepted completely and the model has no reason for it to change: hypothesis of C01_fixpoint (second conjunct)
     G2Why   accepted completely, but the model names a reason (the output would be rewritten once more)
     G2Rest  accepted, bytes left over          G2Rej  refused / panic / fuel          G2Bytes  not a byte string *)
From V.lib Require Import Base.
From V.c01 Require Import C01Codec C01Model.

Inductive gen2_class := G2Fix | G2Why | G2Rest | G2Rej | G2Bytes.

Definition gen2 (enc : list N) : gen2_class :=
  if bytes_ok enc then
    match decode enc with
    | Ok (t2, []) => match why_box t2 with [] => G2Fix | _ :: _ => G2Why end
    | Ok (_, _ :: _) => G2Rest
    | _ => G2Rej
    end
  else G2Bytes.

Definition gen2_ok (enc : list N) : bool := match gen2 enc with G2Fix => true | _ => false end.
